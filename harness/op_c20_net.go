package main

// op family `c20htmlnet` (C20, group M4): the bodies of `c20html`, delivered the way a network delivers them.
//
// The in-process family hands filterHTML a bytes.Reader, which returns the whole body from ONE Read call.  Here the
// REAL proxy server (loopback) stands in front of a raw TCP origin that writes the response in PARTS -- fixed part
// sizes 1, 7, 512, 1460, 4096, 8192, 16384, random sizes, parts that end exactly at / inside / just after the first
// marker -- with or without a pause between the parts (a pause makes every part one Read of the proxy's body reader;
// without it the transport's 4 KiB buffer decides), framed by Content-Length, by closing the connection, or as HTTP
// chunks (one per part); plain, `Content-Encoding: identity` and gzip bodies (the gzip STREAM is what gets cut).
//
// The answer must not depend on the delivery: every fetch is printed as the ordinary op
//   c20.html <plain body> <gzip T/F> <tag> = <out>|<ContentLength>|<Content-Encoding present>|<CSP present>
// so that the model and the spec columns are compared exactly as for the in-process family.  <out> is what the client
// behind the proxy received, <ContentLength> the declared length it saw (the received length when the proxy framed the
// answer otherwise).  The tag (it contains the server's start time) is learned from a control fetch of `</head>`.
// If the loopback proxy cannot be started the family emits nothing.

import (
	"bufio"
	"bytes"
	"fmt"
	"io"
	"net"
	"net/http"
	"net/url"
	"os"
	"path/filepath"
	"strings"
	"sync"
	"time"

	"github.com/AdguardTeam/golibs/log"
	"github.com/AdguardTeam/gomitmproxy"
	"github.com/AdguardTeam/urlfilter/proxy"
)

func init() { gens["c20htmlnet"] = genC20HtmlNet }

// c20Delivery says how the origin puts one response on the wire.
type c20Delivery struct {
	wire     []byte // the body as sent (plain or gzip stream)
	ce       string // Content-Encoding header value, "" = none
	parts    []int  // sizes of the successive writes; the sum is len(wire)
	pause    time.Duration
	framing  int  // 0 Content-Length, 1 closed connection, 2 chunked transfer coding (one chunk per part)
	headSolo bool // the header block is written (and paused after) on its own
	desc     string
}

type c20Origin struct {
	ln    net.Listener
	mu    sync.Mutex
	plans map[string]*c20Delivery
}

func (o *c20Origin) serve() {
	for {
		c, err := o.ln.Accept()
		if err != nil {
			return
		}
		go o.handle(c)
	}
}

func (o *c20Origin) handle(c net.Conn) {
	defer c.Close()
	_ = c.SetDeadline(time.Now().Add(20 * time.Second))
	br := bufio.NewReader(c)
	first, err := br.ReadString('\n')
	if err != nil {
		return
	}
	for {
		l, rerr := br.ReadString('\n')
		if rerr != nil {
			return
		}
		if strings.TrimSpace(l) == "" {
			break
		}
	}
	f := strings.Fields(first)
	if len(f) < 2 {
		return
	}
	path := f[1]
	if i := strings.Index(path, "://"); i >= 0 {
		// absolute-form request target
		if j := strings.Index(path[i+3:], "/"); j >= 0 {
			path = path[i+3+j:]
		}
	}
	o.mu.Lock()
	d := o.plans[path]
	o.mu.Unlock()
	if d == nil {
		_, _ = io.WriteString(c, "HTTP/1.1 404 Not Found\r\nContent-Length: 0\r\nConnection: close\r\n\r\n")

		return
	}
	var head bytes.Buffer
	head.WriteString("HTTP/1.1 200 OK\r\nContent-Type: text/html\r\nConnection: close\r\n")
	head.WriteString("Content-Security-Policy: default-src 'self'\r\nContent-Security-Policy-Report-Only: default-src 'self'\r\n")
	if d.ce != "" {
		head.WriteString("Content-Encoding: " + d.ce + "\r\n")
	}
	switch d.framing {
	case 0:
		fmt.Fprintf(&head, "Content-Length: %d\r\n", len(d.wire))
	case 2:
		head.WriteString("Transfer-Encoding: chunked\r\n")
	}
	head.WriteString("\r\n")
	pending := head.Bytes()
	if d.headSolo {
		if _, err = c.Write(pending); err != nil {
			return
		}
		pending = nil
		time.Sleep(d.pause + 200*time.Microsecond)
	}
	off := 0
	for _, n := range d.parts {
		part := d.wire[off : off+n]
		off += n
		buf := pending
		pending = nil
		if d.framing == 2 {
			if n > 0 {
				buf = append(buf, []byte(fmt.Sprintf("%x\r\n", n))...)
				buf = append(buf, part...)
				buf = append(buf, '\r', '\n')
			}
		} else {
			buf = append(buf, part...)
		}
		if len(buf) > 0 {
			if _, err = c.Write(buf); err != nil {
				return
			}
		}
		if d.pause > 0 {
			time.Sleep(d.pause)
		}
	}
	if len(pending) > 0 {
		if _, err = c.Write(pending); err != nil {
			return
		}
	}
	if d.framing == 2 {
		_, _ = io.WriteString(c, "0\r\n\r\n")
	}
	if tc, ok := c.(*net.TCPConn); ok {
		_ = tc.CloseWrite()
		// let the peer read everything before the socket goes away
		_ = c.SetReadDeadline(time.Now().Add(2 * time.Second))
		_, _ = io.Copy(io.Discard, br)
	}
}

// c20NetBody: half of the bodies are the shapes of `c20html`; the others put the first marker at a position chosen
// relative to a multiple of the part size (so that it lies after, across or right before the end of some read).
func c20NetBody(r *rng, window int) (body []byte, first int, note string) {
	if r.chance(2, 5) {
		b, n := randBody(r, window)

		return b, -1, n
	}
	m := randCase(r, pick(r, c20Markers))
	unit := pick(r, []int{1460, 4096, 512, 1000, 2048, 8192, 1, 7, 3000 + r.n(3000)})
	maxK := (window + 64) / unit
	if maxK < 1 {
		maxK = 1
	}
	pos := unit*(1+r.n(maxK)) + r.n(2*len(m)+4) - len(m) - 2
	if unit <= 7 {
		pos = r.n(window + 16)
	}
	if r.chance(1, 6) {
		pos = window - len(m) - 3 + r.n(2*len(m)+6)
	}
	if pos < 0 {
		pos = 0
	}
	var sb bytes.Buffer
	sb.Write(filler(r, pos))
	if pos > 40 && r.chance(1, 3) {
		// a near-marker somewhere before the real one
		nm := nearMarker(r)
		at := r.n(pos - len(nm) - 1)
		b := sb.Bytes()
		copy(b[at:], nm)
		// (a near-marker that an unlucky filler byte completes to a marker only moves the first marker: `first` is a
		// hint for cutting the writes, the expected answer is computed by the model from the body)
	}
	sb.WriteString(m + ">")
	tail := r.n(400)
	if r.chance(1, 4) {
		tail = 2000 + r.n(30000)
	}
	sb.Write(filler(r, tail))
	if r.chance(1, 3) {
		sb.WriteString(randCase(r, pick(r, c20Markers)) + ">")
	}

	return sb.Bytes(), pos, fmt.Sprintf("marker %q at %d (part unit %d, window %d)", m, pos, unit, window)
}

// c20Parts cuts n wire bytes into writes.
func c20Parts(r *rng, n int, first int, plain bool) (parts []int, desc string) {
	if n == 0 {
		return []int{0}, "empty body"
	}
	capParts := func(ps []int) []int {
		// at most 48 writes; the rest goes out as one
		if len(ps) <= 48 {
			return ps
		}
		rest := 0
		for _, p := range ps[47:] {
			rest += p
		}

		return append(ps[:47:47], rest)
	}
	fixed := func(c, lead int) []int {
		var ps []int
		left := n
		if lead > 0 && lead < left {
			ps = append(ps, lead)
			left -= lead
		}
		for left > 0 {
			k := c
			if k > left {
				k = left
			}
			ps = append(ps, k)
			left -= k
		}

		return capParts(ps)
	}
	switch k := r.n(10); {
	case k == 0:
		return []int{n}, "one write"
	case k < 5:
		c := pick(r, []int{1460, 1460, 4096, 512, 1000, 2048, 8192, 16384, 16391, 1448})

		return fixed(c, 0), fmt.Sprintf("writes of %d bytes", c)
	case k < 7:
		// tiny writes; they start shortly before the first marker (when known) so that the marker itself arrives in pieces
		c := pick(r, []int{1, 1, 7, 2, 3})
		lead := 0
		if plain && first > 0 {
			lead = first - r.n(10)
			if lead < 0 {
				lead = 0
			}
		} else if r.chance(1, 2) {
			lead = r.n(n)
		}

		return fixed(c, lead), fmt.Sprintf("%d bytes, then writes of %d byte(s)", lead, c)
	case k < 8 && plain && first > 0 && first < n:
		// the first write ends at / inside / just after the first marker
		cut := first + r.n(9) - 1
		if cut <= 0 || cut >= n {
			cut = first
		}

		return []int{cut, n - cut}, fmt.Sprintf("two writes, cut at %d", cut)
	default:
		var ps []int
		left := n
		for left > 0 {
			k := 1 + r.n(pick(r, []int{16, 700, 3000, 9000}))
			if k > left {
				k = left
			}
			ps = append(ps, k)
			left -= k
		}

		return capParts(ps), "writes of random sizes"
	}
}

func genC20HtmlNet(r *rng, n int, w *bufio.Writer) {
	log.SetOutput(io.Discard)
	skip := func(err error) { fmt.Fprintln(os.Stderr, "c20htmlnet: skipped:", err) }
	ln, err := net.Listen("tcp", "127.0.0.1:0")
	if err != nil {
		skip(err)

		return
	}
	origin := &c20Origin{ln: ln, plans: map[string]*c20Delivery{}}
	go origin.serve()
	defer ln.Close()
	dir, err := os.MkdirTemp("", "verif-c20net")
	if err != nil {
		skip(err)

		return
	}
	defer os.RemoveAll(dir)
	filterPath := filepath.Join(dir, "filter.txt")
	if err = os.WriteFile(filterPath, []byte("||blocked.invalid^\n"), 0o600); err != nil {
		skip(err)

		return
	}
	srv, err := proxy.NewServer(proxy.Config{
		ProxyConfig:  gomitmproxy.Config{ListenAddr: &net.TCPAddr{IP: net.IPv4(127, 0, 0, 1), Port: 0}},
		FiltersPaths: map[int]string{1: filterPath},
	})
	if err != nil {
		skip(err)

		return
	}
	if err = srv.Start(); err != nil {
		skip(err)

		return
	}
	defer srv.Close()
	client := &http.Client{
		Transport: &http.Transport{Proxy: http.ProxyURL(&url.URL{Scheme: "http", Host: srv.VerifAddr().String()}),
			DisableKeepAlives: true, DisableCompression: true},
		Timeout: 30 * time.Second,
	}
	port := ln.Addr().(*net.TCPAddr).Port
	hosts := []string{"localhost", "127.0.0.1"}
	seq := 0
	// fetch returns the canonical answer of one delivery, "" if the fetch failed below the proxy (not an answer)
	fetch := func(host string, d *c20Delivery) (ans string, out []byte) {
		origin.mu.Lock()
		seq++
		path := fmt.Sprintf("/b/%d", seq)
		origin.plans[path] = d
		origin.mu.Unlock()
		defer func() {
			origin.mu.Lock()
			delete(origin.plans, path)
			origin.mu.Unlock()
		}()
		for attempt := 0; attempt < 2; attempt++ {
			req, rerr := http.NewRequest(http.MethodGet, fmt.Sprintf("http://%s:%d%s", host, port, path), nil)
			if rerr != nil {
				return "", nil
			}
			req.Header.Set("Accept", "text/html,application/xhtml+xml")
			req.Header.Set("Accept-Encoding", "gzip")
			resp, derr := client.Do(req)
			if derr != nil {
				fmt.Fprintln(os.Stderr, "c20htmlnet: fetch failed:", derr)

				continue
			}
			body, berr := io.ReadAll(resp.Body)
			_ = resp.Body.Close()
			if resp.StatusCode != http.StatusOK || berr != nil {
				// the proxy answers a failed filterHTML with an error page; a body shorter than declared is an error too
				return "err", nil
			}
			cl := resp.ContentLength
			if cl < 0 {
				cl = int64(len(body))
			}
			_, ce := resp.Header["Content-Encoding"]
			_, c1 := resp.Header["Content-Security-Policy"]
			_, c2 := resp.Header["Content-Security-Policy-Report-Only"]
			csp := wbool(c1)
			if c1 != c2 {
				csp = "MIXED"
			}

			return fmt.Sprintf("%s|%d|%s|%s", wb(string(body)), cl, wbool(ce), csp), body
		}

		return "", nil
	}
	// the tag of each host, from a control fetch
	tags := map[string]string{}
	for _, h := range hosts {
		const ctl = "</head>"
		_, out := fetch(h, &c20Delivery{wire: []byte(ctl), parts: []int{len(ctl)}})
		tag := ""
		if len(out) > len(ctl) && strings.HasSuffix(string(out), ctl) {
			tag = string(out[:len(out)-len(ctl)])
		}
		tt := strings.TrimSpace(tag)
		ok := strings.HasPrefix(tt, "<script") && strings.Contains(tt, "content-script.js") && strings.Contains(tt, "hostname="+h) && strings.HasSuffix(tt, "</script>")
		fmt.Fprintf(w, "assert c20.net.tag %s = %s ## control fetch of %q from %s through the real proxy: received %q\n", wb(h), wbool(ok), ctl, h, trunc(string(out), 300))
		if !ok {
			return
		}
		tags[h] = tag
	}
	window := proxy.VerifHeadBufferSize
	type job struct {
		body   []byte
		host   string
		useGz  bool
		d      *c20Delivery
		note   string
		ans    string
		others int
	}
	dropped := 0
	defer func() {
		// single lost connections are the environment's business; many are not
		fmt.Fprintf(w, "assert c20.net.delivered %d %d = %s ## %d of %d fetches through the real proxy ended without an HTTP response (two attempts each)\n",
			n, dropped, wbool(dropped*5 <= n), dropped, n)
	}()
	emit := func(i int, j *job) {
		if j.ans == "" {
			dropped++
			fmt.Fprintf(os.Stderr, "c20htmlnet: delivery %d dropped (no connection)\n", i)

			return
		}
		conc := ""
		if j.others > 0 {
			conc = fmt.Sprintf("; %d other responses in flight through the same proxy", j.others)
		}
		fmt.Fprintf(w, "c20.html %s %s %s = %s ## through the real proxy from %s: len=%d gzip=%v Content-Encoding=%q %s; delivery: %s (%d writes), pause %v, framing %s, header block %s%s\n",
			wb(string(j.body)), wbool(j.useGz), wb(tags[j.host]), j.ans, j.host, len(j.body), j.useGz, j.d.ce, j.note, j.d.desc, len(j.d.parts), j.d.pause,
			[]string{"Content-Length", "connection close", "chunked"}[j.d.framing], map[bool]string{true: "on its own", false: "with the first write"}[j.d.headSolo], conc)
	}
	for i := 0; i < n; {
		// one delivery at a time, or (every fourth group) three at once: each answer must still be its own
		g := 1
		if r.chance(1, 4) && i+3 <= n {
			g = 3
		}
		jobs := make([]*job, g)
		for k := range jobs {
			body, first, note := c20NetBody(r, window)
			j := &job{body: body, host: pick(r, hosts), note: note, others: g - 1}
			d := &c20Delivery{wire: body}
			j.useGz = r.chance(1, 3)
			if j.useGz {
				d.wire = gz(body)
				d.ce = "gzip"
			} else if r.chance(1, 5) {
				d.ce = "identity"
			}
			var members []int
			if j.useGz && r.chance(1, 2) {
				// a gzip stream of several members (group R4, op_r4_c20.go); it decompresses to the same body
				var md string
				d.wire, members, md = gzMembers(r, body, window)
				j.note += "; " + md
			}
			d.parts, d.desc = c20Parts(r, len(d.wire), first, !j.useGz)
			if members != nil && r.chance(1, 3) {
				d.parts, d.desc = members, "one write per gzip member"
			}
			d.pause = pick(r, []time.Duration{0, 300 * time.Microsecond, 300 * time.Microsecond, time.Millisecond, 3 * time.Millisecond})
			if len(d.parts) > 24 && d.pause > 300*time.Microsecond {
				d.pause = 300 * time.Microsecond
			}
			d.framing = pick(r, []int{0, 0, 1, 2, 2})
			d.headSolo = r.chance(1, 2)
			j.d = d
			jobs[k] = j
		}
		var wg sync.WaitGroup
		for _, j := range jobs {
			wg.Add(1)
			go func(j *job) {
				defer wg.Done()
				j.ans, _ = fetch(j.host, j.d)
			}(j)
		}
		wg.Wait()
		for k, j := range jobs {
			emit(i+k, j)
		}
		i += g
	}
}

func trunc(s string, n int) string {
	if len(s) > n {
		return s[:n] + "..."
	}

	return s
}

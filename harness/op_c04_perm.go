package main

// op family `c04.perm` (C04, Go-only law check): writing the values of every
// list-valued modifier in another order gives a rule that parses the same way
// and matches exactly the same requests.
//   assert c04.perm <text> <permuted text> = T|F

import (
	"bufio"
	"fmt"
	"strings"

	"github.com/AdguardTeam/urlfilter/rules"
)

func init() { gens["c04.perm"] = genC04Perm }

// splitUnescaped splits s at every sep that is not preceded by a backslash.
func splitUnescaped(s string, sep byte) (parts []string) {
	start := 0
	for i := 0; i < len(s); i++ {
		if s[i] == sep && (i == 0 || s[i-1] != '\\') {
			parts = append(parts, s[start:i])
			start = i + 1
		}
	}

	return append(parts, s[start:])
}

// ePermuteValues shuffles the values inside $domain, $denyallow, $dnstype, $ctag and $client.
func ePermuteValues(r *rng, mods []string) (out []string) {
	for _, m := range mods {
		eq := strings.IndexByte(m, '=')
		if eq > 0 {
			switch m[:eq] {
			case "domain", "denyallow", "dnstype", "ctag", "client":
				vals := splitUnescaped(m[eq+1:], '|')
				shuffle(r, vals)
				m = m[:eq+1] + strings.Join(vals, "|")
			}
		}
		out = append(out, m)
	}

	return out
}

func wholeRegex(t string) bool {
	t = strings.TrimPrefix(t, "@@")

	return strings.HasPrefix(t, "/") && strings.HasSuffix(t, "/")
}

func genC04Perm(r *rng, n int, w *bufio.Writer) {
	r = eReseed(r)
	for i := 0; i < n; i++ {
		wl := r.chance(1, 4)
		prefix := ""
		if wl {
			prefix = "@@"
		}
		prefix += genPattern(r)
		mods := eGenModifiers(r, wl)
		if len(mods) == 0 {
			mods = []string{"ctag=" + eGenList(r, ePoolTagsX, 6, true)}
		}
		t1 := prefix + "$" + strings.Join(mods, ",")
		t2 := prefix + "$" + strings.Join(ePermuteValues(r, mods), ",")
		// A text that begins AND ends with "/" is read as one regex pattern without options
		// (parseRuleText), so a malformed value ending in "/" (not in the modifier grammar of
		// C04: "1.2.3.4/", "x/") moved to the end of a "/regex/$…" rule changes the kind of the
		// rule.  That is the documented regex-rule syntax, not a value-order effect: skip.
		if wholeRegex(t1) || wholeRegex(t2) {
			i--

			continue
		}
		f1, err1 := guardRule(t1, 1)
		f2, err2 := guardRule(t2, 1)
		ans, why := "T", ""
		switch {
		case (err1 == nil) != (err2 == nil):
			ans, why = "F", fmt.Sprintf("parse: %v vs %v", err1, err2)
		case err1 == nil:
			v1, v2 := f1.VerifRaw(), f2.VerifRaw()
			if fmt.Sprint(v1.PermittedClientTags, v1.RestrictedClientTags) != fmt.Sprint(v2.PermittedClientTags, v2.RestrictedClientTags) ||
				wclients(v1.PermittedClients) != wclients(v2.PermittedClients) || wclients(v1.RestrictedClients) != wclients(v2.RestrictedClients) {
				ans, why = "F", "sorted fields differ"
			}
			for k := 0; k < 12 && ans == "T"; k++ {
				var q *rules.Request
				if k%2 == 0 {
					q = eAimedRequest(r, f1, t1)
				} else {
					q = eAimedRequest(r, f2, t2)
				}
				a := guardStr(func() string { return wbool(f1.Match(q)) })
				b := guardStr(func() string { return wbool(f2.Match(q)) })
				if a != b {
					ans, why = "F", fmt.Sprintf("Match %s vs %s on %s src=%s tags=%q client=%q/%s dns=%d", a, b, noteStr(q.URL),
						noteStr(q.SourceHostname), q.SortedClientTags, q.ClientName, q.ClientIP, q.DNSType)
				}
			}
		}
		fmt.Fprintf(w, "assert c04.perm %s %s = %s ## %s | %s %s\n", wb(t1), wb(t2), ans, noteStr(t1), noteStr(t2), why)
	}
}

package main

// op families of integration group I1: the COMPOSED model from the BYTES of the lists.
//
//	i1.chain    ((id ign content)…) Q psl addrs prefixes rewrites reshortcuts (pat…) = (text,…)
//	    Go: real RuleStorage + NetworkEngine.MatchAll, sorted set of rule texts.
//	    Lean: scan (group D) with the modelled NewRule (group E over group D's TrimSpace and
//	    group H's NewHostRule) → engine model (group B) → matchAll, retrieval through the
//	    storage model; spec = filter over the lines parsed one by one.
//	i1.dnschain (same arguments) = (netTexts)|<class of NetworkRule>|(v4)|(v6)|<matched>
//	    Go: DNSEngine.MatchRequest; Lean: DNS engine model with group C's GetDNSBasicRule.
//	i1.coschain ((id ign content)…) host css js generic psl = (generic selectors)|(specific selectors)
//	    Go: CosmeticEngine.Match; Lean: storage scan with the modelled parser → cosmetic lookup table.
//	i1.scan     ((id ign content)…) addrs prefixes rewrites reshortcuts = ((storageIdx/kind:text:id),…)
//	    Go: RuleStorageScanner; Lean: storage scan with the modelled parser.
//
// These check the glue between the groups' models (which kind NewRule gives a line, offsets,
// trimming, CRLF, list ids, IgnoreCosmetic, retrieval by packed index, host-level filtering),
// which no single group's op covers.  Oracles: psl / addr / prefix tables, the pattern oracle for
// every (rule, target) pair, `$dnsrewrite` values and regexp shortcuts as in `c04.parse`.

import (
	"bufio"
	"fmt"
	"sort"
	"strings"

	"github.com/AdguardTeam/urlfilter"
	"github.com/AdguardTeam/urlfilter/filterlist"
	"github.com/AdguardTeam/urlfilter/rules"
)

func init() {
	gens["i1.chain"] = i1GenChain
	gens["i1.dnschain"] = i1GenDNSChain
	gens["i1.scan"] = i1GenScan
	gens["i1.coschain"] = i1GenCosChain
}

var i1ListIDs = []int{1, 2, 3, 7, 1000, 2147483647, -1, -2147483648, 0}

var i1Noise = []string{
	"! comment", "# comment", "#", "!", "! ||example.org^", "# 0.0.0.0 example.org", "", "", " ", "\t", " ",
	"||a^$unknown", "@@", "||", "ab", "$$", "##", "example.org##", "||x^$domain=", "||y.org^$dnsrewrite=bad;",
	"[Adblock Plus 2.0]", "||example.org^$domain=a..b", "||example.org^$ctag=A", "||example.org^$dnstype=NONE",
}

var i1Cosmetic = []string{
	"example.org##.banner", "##.ad", "e.org#@#.ad", "~sub.example.org,example.org##div[id]", "example.*##.x",
	"example.org#?#.x:has(a)", "site.com$$script[data]", "example.org#%#window.x=1", ".,##.bad", "example.org, ads.net##.sp",
}

// i1Line generates one line of a list: network rules of all three tables, DNS-style rules,
// hosts lines, bare domains, cosmetic rules, comments, invalid lines, padded and mutated lines.
func i1Line(r *rng, names []string, dns bool) string {
	var t string
	switch r.n(22) {
	case 20, 21:
		// R2: a NETWORK rule with a `#` followed by a marker-like byte (`#?`, `#@`, `#%`, `#$`) -- not a cosmetic rule,
		// so IgnoreCosmetic must not drop it
		t = r2NearCosmeticLine(r)
	case 0, 1, 2, 3, 4, 5:
		if dns {
			t = c02GenLine(r, names)
		} else {
			t = c01GenRuleText(r)
		}
	case 6, 7:
		t = c02GenLine(r, names)
	case 8:
		t = c01GenRuleText(r)
	case 9:
		t = genNetRuleText(r, dns)
	case 10:
		t = pick(r, []string{"0.0.0.0", "127.0.0.1", "::1", "1.2.3.4", "999.1.1.1", "0.0.0.0.", "fe80::1%eth0"}) +
			pick(r, []string{" ", "\t", "  "}) + pick(r, names) + pick(r, []string{"", " " + pick(r, names), " # note", "#x", " #"})
	case 11:
		t = pick(r, names) + pick(r, []string{"", ".", " ", " # c", "#c"}) // bare domain (a host rule) or not
	case 12, 13:
		t = pick(r, i1Cosmetic)
	case 14, 15:
		t = pick(r, i1Noise)
	case 16:
		t = pick(r, c11Lines)
	case 17:
		t = eMutate(r, c01GenRuleText(r))
	case 18:
		t = pick(r, eTrickyTexts)
	default:
		t = "||" + pick(r, names) + "^" + pick(r, []string{"", "$important", "$badfilter", "$script", "$client=10.0.0.0/8|'laptop'", "$dnsrewrite=1.2.3.4", "$dnstype=A"})
	}
	if r.chance(1, 40) {
		// a line longer than the scanner's 4096-byte read buffer: a long comment whose tail is rule-shaped, a
		// rule with a long $domain list (lands in the $domain index), a hosts line with a long comment
		name := pick(r, names)
		switch r.n(3) {
		case 0:
			head := pick(r, []string{"! ", "# "})
			t = head + strings.Repeat("x", 4096-len(head)) + "||" + name + "^$important"
		case 1:
			var ds []string
			for k := 0; len(strings.Join(ds, "|")) < 4200; k++ {
				ds = append(ds, fmt.Sprintf("d%03d.example.org", k))
			}
			t = "/ad$domain=" + strings.Join(ds, "|") + "|" + name
		default:
			head := "0.0.0.0 " + name + " # "
			t = head + strings.Repeat("c", 4096-len(head)) + "other." + name
		}
	}
	t = strings.NewReplacer("\n", "", "\r", "").Replace(t)
	if r.chance(1, 8) {
		t = pick(r, []string{" ", "\t", "  ", " ", "\v"}) + t
	}
	if r.chance(1, 8) {
		t += pick(r, []string{" ", "\t", " \t ", "　", "\f"})
	}

	return t
}

type i1Scenario struct {
	lists   []c11List
	storage *filterlist.RuleStorage
	nets    []*rules.NetworkRule
	texts   []string
	hosts   []string // host names of hosts-file rules
	all     []string // every line
	note    string
}

func i1Build(r *rng, dns bool) *i1Scenario {
	nLists := 1 + r.n(3)
	nLines := 1 + r.n(14)
	if r.chance(1, 5) {
		nLines = 1 + r.n(45)
	}
	if r.chance(1, 30) {
		nLines = nLog(r, 46, 130) // MANY lines (the driver parses every line of every op: kept rare)
	}
	ids := append([]int{}, i1ListIDs...)
	shuffle(r, ids)
	names := subset(r, poolDomains, 5)
	if len(names) < 2 {
		names = append(names, "example.org", "ads.net")
	}
	bodies := make([][]string, nLists)
	sc := &i1Scenario{}
	for j := 0; j < nLines; j++ {
		t := i1Line(r, names, dns)
		if len(sc.all) > 0 && r.chance(1, 8) {
			t = pick(r, sc.all) // the same line again (same or another list)
		}
		sc.all = append(sc.all, t)
		l := r.n(nLists)
		bodies[l] = append(bodies[l], t)
	}
	for l := range bodies {
		if r.chance(1, 4) {
			// R2: the list starts with a multi-byte sequence (UTF-8 byte order mark, non-ASCII title): the offsets of
			// all its rules depend on the byte length of this line
			t := r2FirstLineInert(r, names)
			if r.chance(1, 8) {
				t = r2FirstLine(r)
			}
			bodies[l] = append([]string{t}, bodies[l]...)
			sc.all = append(sc.all, t)
		}
	}
	var ls []filterlist.RuleList
	var note []string
	for j, b := range bodies {
		eol := pick(r, []string{"\n", "\n", "\r\n"})
		var sb strings.Builder
		for k, t := range b {
			sb.WriteString(t)
			e := eol
			if r.chance(1, 12) {
				e = pick(r, []string{"\n", "\r\n", "\n\n", "\r\r\n", " \n"})
			}
			if k == len(b)-1 && r.chance(1, 3) {
				e = pick(r, []string{"", "", "\r", " "})
			}
			sb.WriteString(e)
		}
		l := c11List{id: ids[j], ign: r.chance(1, 3), content: sb.String()}
		sc.lists = append(sc.lists, l)
		ls = append(ls, &filterlist.StringRuleList{ID: l.id, RulesText: l.content, IgnoreCosmetic: l.ign})
		note = append(note, fmt.Sprintf("[%d ign=%v] %q", l.id, l.ign, l.content))
	}
	s, err := filterlist.NewRuleStorage(ls)
	if err != nil {
		panic(err)
	}
	sc.storage = s
	sc.note = strings.Join(note, " ‖ ")
	// the rules the requests are aimed at are read list by list, not through the storage scanner under test
	for _, sr := range mScanLists(ls) {
		switch f := sr.rule.(type) {
		case *rules.NetworkRule:
			sc.nets = append(sc.nets, f)
			sc.texts = append(sc.texts, f.RuleText)
		case *rules.HostRule:
			sc.hosts = append(sc.hosts, f.Hostnames...)
		}
	}

	return sc
}

func (sc *i1Scenario) wlists() string {
	items := make([]string, len(sc.lists))
	for i, l := range sc.lists {
		items[i] = wlist(fmt.Sprint(l.id), wbool(l.ign), wb(l.content))
	}

	return wlist(items...)
}

// i1Fields: what a hosts-line parse can hand to netip.ParseAddr (Go's own splitting).
func i1Fields(t string) (out []string) {
	split := func(s string) []string {
		return strings.FieldsFunc(s, func(c rune) bool { return c == ' ' || c == '\t' })
	}
	out = append(out, split(t)...)
	if i := strings.IndexByte(t, '#'); i > 0 {
		out = append(out, split(t[:i])...)
	}

	return out
}

// i1Oracles returns the addr / prefix / rewrite / regexp-shortcut tables for every line of the
// scenario (each line trimmed the way NewRule trims it).  The candidate strings come from Go's
// own splitting functions; a model that splits differently misses the table and disagrees.
func (sc *i1Scenario) oracles(extraAddrs ...string) (addrs, prefixes, rewrites, shortcuts string) {
	var cands, rw, res []string
	seenRw, seenRe := map[string]bool{}, map[string]bool{}
	cands = append(cands, extraAddrs...)
	for _, l := range sc.lists {
		for _, raw := range strings.Split(l.content, "\n") {
			t := strings.TrimSpace(raw)
			if t == "" {
				continue
			}
			cands = append(cands, i1Fields(t)...)
			func() {
				defer func() { _ = recover() }()
				pattern, options, _, err := rules.VerifParseRuleText(t)
				if err != nil {
					return
				}
				if len(pattern) > 1 && pattern[0] == '/' && pattern[len(pattern)-1] == '/' && !seenRe[pattern] {
					seenRe[pattern] = true
					res = append(res, wlist(wb(pattern), wb(rules.VerifFindRegexpShortcut(pattern))))
				}
				for _, o := range rules.VerifSplitWithEscapeCharacter(options, ',', '\\', false) {
					name, value := o, ""
					if eq := strings.IndexByte(o, '='); eq > 0 {
						name, value = o[:eq], o[eq+1:]
					}
					switch name {
					case "dnsrewrite":
						if !seenRw[value] {
							seenRw[value] = true
							d, err := rules.VerifLoadDNSRewrite(value)
							if err != nil || d == nil {
								rw = append(rw, wlist(wb(value), "err"))
							} else {
								rw = append(rw, wlist(wb(value), wrewrite(d)))
							}
						}
					case "client":
						for _, s := range rules.VerifSplitWithEscapeCharacter(value, '|', '\\', false) {
							c := strings.TrimPrefix(s, "~")
							cands = append(cands, s, c)
							quoted := len(c) >= 2 && (c[0] == '\'' || c[0] == '"') && c[0] == c[len(c)-1]
							q := ""
							if quoted {
								q = string(c[0])
								c = c[1 : len(c)-1]
							}
							c = strings.ReplaceAll(c, "\\,", ",")
							cands = append(cands, c)
							if quoted {
								c = strings.ReplaceAll(c, "\\"+q, q)
								cands = append(cands, c)
							}
						}
					}
				}
			}()
		}
	}

	return waddrs(cands...), wprefixes(cands...), wlist(rw...), wlist(res...)
}

func (sc *i1Scenario) pats(q *rules.Request) string {
	var pats []string
	for _, f := range sc.nets {
		if p := wpat(f, q.URL, q.Hostname); p != "" && !nSeenPat(&pats, p) {
			pats = append(pats, p)
		}
	}

	return strings.Join(pats, " ")
}

func i1GenChain(r *rng, n int, w *bufio.Writer) {
	bReseed(r)
	for i := 0; i < n; {
		sc := i1Build(r, false)
		if len(sc.nets) == 0 {
			continue
		}
		engine := urlfilter.NewNetworkEngine(sc.storage)
		c01 := &c01Scenario{storage: sc.storage, engine: engine, nets: sc.nets, texts: sc.texts}
		ls := sc.wlists()
		for j := 0; j < nOpsFor(sc, 5) && i < n; j, i = j+1, i+1 {
			q := c01Request(r, c01)
			ans := guardStr(func() string { return bSortedTextSet(texts(engine.MatchAll(q))) })
			addrs, prefixes, rewrites, shortcuts := sc.oracles(q.Hostname)
			fmt.Fprintf(w, "i1.chain %s %s %s %s %s %s %s (%s) = %s ## url=%q src=%q type=%d host=%v lists: %s\n",
				ls, wrequest(q), wpsl(q.Hostname, q.SourceHostname), addrs, prefixes, rewrites, shortcuts,
				sc.pats(q), ans, q.URL, q.SourceURL, q.RequestType, q.IsHostnameRequest, sc.note)
		}
	}
}

func i1GenDNSChain(r *rng, n int, w *bufio.Writer) {
	bReseed(r)
	for i := 0; i < n; {
		sc := i1Build(r, true)
		engine := urlfilter.NewDNSEngine(sc.storage)
		ls := sc.wlists()
		var used []string
		for _, nm := range poolDomains {
			for _, t := range sc.all {
				if strings.Contains(t, nm) {
					used = append(used, nm)

					break
				}
			}
		}
		for j := 0; j < nOpsFor(sc, 5) && i < n; j, i = j+1, i+1 {
			d := genDNSRequest(r, sc.all)
			switch r.n(8) {
			case 0, 1, 2, 3:
				if len(used) > 0 {
					d.Hostname = pick(r, []string{"", "", "", "www.", "sub."}) + pick(r, used)
				}
			case 4, 5:
				if len(sc.hosts) > 0 {
					d.Hostname = pick(r, sc.hosts)
				}
			case 6:
				if r.chance(1, 3) {
					d.Hostname = ""
				}
			}
			q := hostnameRequest(d)
			ans := guardStr(func() string {
				res, matched := engine.MatchRequest(d)
				cls := "_"
				if res.NetworkRule != nil {
					cls = wbool(res.NetworkRule.Whitelist) + wbool(res.NetworkRule.IsOptionEnabled(rules.OptionImportant))
				}
				a := fmt.Sprintf("%s|%s|%s|%s|%s", bSortedTextSet(texts(res.NetworkRules)), cls,
					c02HostRuleSet(res.HostRulesV4), c02HostRuleSet(res.HostRulesV6), wbool(matched))
				if a == "()|_|()|()|F" {
					a = "()"
				}

				return a
			})
			addrs, prefixes, rewrites, shortcuts := sc.oracles(q.Hostname)
			fmt.Fprintf(w, "i1.dnschain %s %s %s %s %s %s %s (%s) = %s ## host=%q type=%d client=%q/%v tags=%v lists: %s\n",
				ls, wrequest(q), wpsl(q.Hostname, q.SourceHostname), addrs, prefixes, rewrites, shortcuts,
				sc.pats(q), ans, d.Hostname, d.DNSType, d.ClientName, d.ClientIP, d.SortedClientTags, sc.note)
		}
	}
}

func i1GenScan(r *rng, n int, w *bufio.Writer) {
	bReseed(r)
	for i := 0; i < n; i++ {
		sc := i1Build(r, r.chance(1, 2))
		ans := guardStr(func() string {
			var items []string
			scan := sc.storage.NewRuleStorageScanner()
			for scan.Scan() {
				f, idx := scan.Rule()
				items = append(items, fmt.Sprintf("%d/%s:%s:%d", idx, ruleKind(f), wb(f.Text()), f.GetFilterListID()))
			}

			return wanswers(items)
		})
		addrs, prefixes, rewrites, shortcuts := sc.oracles()
		fmt.Fprintf(w, "i1.scan %s %s %s %s %s = %s ## lists: %s\n", sc.wlists(), addrs, prefixes, rewrites, shortcuts, ans, sc.note)
	}
	_ = sort.Strings
}

// i1CosLine: cosmetic rules of every shape among other lines (IgnoreCosmetic lists contribute nothing).
func i1CosLine(r *rng) string {
	var t string
	switch r.n(10) {
	case 0, 1, 2, 3, 4, 5:
		t = c15GenRule(r)
	case 6:
		t = pick(r, i1Cosmetic)
	case 7:
		t = pick(r, i1Noise)
	case 8:
		t = pick(r, []string{"0.0.0.0 example.org  ## not cosmetic", "example.org\t##.tab", "example.org ##.sp", "||example.org^", "example.org",
			"#@#.x", "example.org#@#", "a..b##.x", "example.org.##.dot", ".example.org##.lead", "~##.x", "EXAMPLE.org##.upper", "example.org,##.trail"})
	default:
		t = eMutate(r, c15GenRule(r))
	}
	if r.chance(1, 25) {
		// a hiding rule / exception with a few hundred domains: longer than the scanner's 4096-byte read buffer
		t = c15LongRule(r)
	}
	t = strings.NewReplacer("\n", "", "\r", "").Replace(t)
	if r.chance(1, 8) {
		t = pick(r, []string{" ", "\t", "\u00a0"}) + t
	}
	if r.chance(1, 8) {
		t += pick(r, []string{" ", "\t", "\u3000"})
	}

	return t
}

func i1GenCosChain(r *rng, n int, w *bufio.Writer) {
	bReseed(r)
	for i := 0; i < n; {
		nLists := 1 + r.n(3)
		nLines := 1 + r.n(12)
		if r.chance(1, 5) {
			nLines = 1 + r.n(40)
		}
		// N2: once in 25 scenarios MANY rules (more than 40 / 64 / 100), most of them generic with selectors of their own
		many := r.chance(1, 25)
		if many {
			nLines = n2Count(r, 1, nil, 41, 160)
		}
		ids := append([]int{}, i1ListIDs...)
		shuffle(r, ids)
		bodies := make([][]string, nLists)
		var all []string
		for j := 0; j < nLines; j++ {
			t := i1CosLine(r)
			if many && r.chance(5, 6) {
				sel := fmt.Sprintf(".g%d", r.n(nLines))
				t = pick(r, []string{"##", "##", "##", "##", "##", "##", "##", "##", pick(r, c15Domains) + "#@#", "~" + pick(r, c15Domains) + "##", pick(r, c15Domains) + "##"}) + sel
			}
			if len(all) > 0 && r.chance(1, 8) {
				t = pick(r, all)
			}
			all = append(all, t)
			l := r.n(nLists)
			bodies[l] = append(bodies[l], t)
		}
		sc := &i1Scenario{}
		var ls []filterlist.RuleList
		var note []string
		for j, b := range bodies {
			eol := pick(r, []string{"\n", "\n", "\r\n"})
			content := strings.Join(b, eol)
			if r.chance(2, 3) {
				content += eol
			}
			l := c11List{id: ids[j], ign: r.chance(1, 5), content: content}
			sc.lists = append(sc.lists, l)
			ls = append(ls, &filterlist.StringRuleList{ID: l.id, RulesText: l.content, IgnoreCosmetic: l.ign})
			note = append(note, fmt.Sprintf("[%d ign=%v] %q", l.id, l.ign, l.content))
		}
		s, err := filterlist.NewRuleStorage(ls)
		if err != nil {
			panic(err)
		}
		engine := urlfilter.NewCosmeticEngine(s)
		lw := sc.wlists()
		var used []string
		for _, d := range append(append([]string{}, c15Domains...), c15Wild...) {
			if strings.Contains(strings.Join(all, "\n"), d) {
				used = append(used, d)
			}
		}
		for j := 0; j < 2 && i < n; j++ {
			host := c15Host(r)
			if r.chance(2, 3) && len(used) > 0 {
				host = pick(r, used)
				if strings.HasSuffix(host, ".*") {
					host = strings.TrimSuffix(host, "*") + pick(r, []string{"com", "co.uk", "de", "org", "notatld"})
				}
				host = pick(r, []string{"", "", "www.", "a.b.", "my"}) + host
			}
			for k := 0; k < 3 && i < n; k, i = k+1, i+1 {
				flags := pick(r, []int{1, 5, 5, 5, 7, 7, 3, 0, 4})
				css, js, gen := flags&1 != 0, flags&2 != 0, flags&4 != 0
				ans := guardStr(func() string {
					res := engine.Match(host, css, js, gen)
					extra := len(res.CSS.Generic) + len(res.CSS.Specific) + len(res.CSS.GenericExtCSS) + len(res.CSS.SpecificExtCSS) +
						len(res.JS.Generic) + len(res.JS.Specific)
					if extra != 0 {
						return "unexpected-css-or-js-result"
					}
					a := c15SelSet(res.ElementHiding.Generic, res.ElementHiding.GenericExtCSS) + "|" +
						c15SelSet(res.ElementHiding.Specific, res.ElementHiding.SpecificExtCSS)
					if a == "()|()" {
						a = "()"
					}

					return a
				})
				fmt.Fprintf(w, "i1.coschain %s %s %s %s %s %s = %s ## host=%q css=%v js=%v generic=%v lists: %s\n",
					lw, wb(host), wbool(css), wbool(js), wbool(gen), wpsl(host), ans, host, css, js, gen, strings.Join(note, " ‖ "))
			}
		}
	}
}

package main

// Group R3: DOMAINS-TABLE clusters for the history / fault families (c13hist, c19fault).
//
// A network rule with `$domain=a|b|c` whose pattern has no literal run of 5 bytes is indexed by the domains table
// ONCE PER PERMITTED DOMAIN: it sits in several buckets, next to different neighbours in each.  It can therefore be
// materialised (deserialised and cached) through one bucket while its neighbours in ANOTHER bucket have never been
// read -- the only way a bucket can hold [never read, cached, ...] sequences.  The generated worlds had such rules
// only by accident and hardly ever asked about them from two of their domains.
//
// fAddDomainCluster adds 3..8 such rules over 2..4 referrer domains (some of them subdomains of others, so that one
// request visits several buckets) to a list of the world, and queries (MatchAll and Engine.MatchRequest) whose URL
// matches most of the patterns, from every domain of the cluster (and from a subdomain / an unrelated site).

import (
	"fmt"
	"strings"

	"github.com/AdguardTeam/urlfilter/rules"
)

var (
	fClusterSites    = []string{"a.com", "b.com", "c.net", "shop.a.com", "news.b.com", "example.org", "sub.example.org", "site.com", "cdn.site.com", "d-e.io"}
	fClusterPatterns = []string{"/ad1", "/ad2", "/ad", "ad", "/b", ".js", "^ad", "/a*2", "/ad*.js", "_ad_", "|http", "/AD"}
)

func fAddDomainCluster(r *rng, w *fWorld) {
	sites := subset(r, fClusterSites, 4)
	for len(sites) < 2 {
		sites = append(sites, pick(r, fClusterSites))
	}
	var lines []string
	n := 3 + r.n(6)
	for i := 0; i < n; i++ {
		ds := subset(r, sites, 3)
		if len(ds) == 0 || (i == 1 && len(ds) < 2) {
			ds = append([]string{}, sites[:2]...)
		}
		if i == 0 {
			ds = ds[:1] // a single-domain rule: the "never read" neighbour
		}
		if r.chance(1, 6) {
			ds = append(ds, "~"+pick(r, []string{"www.", "m."})+strings.TrimPrefix(ds[0], "~"))
		}
		shuffle(r, ds)
		line := pick(r, fClusterPatterns) + "$domain=" + strings.Join(ds, "|")
		switch r.n(8) {
		case 0:
			line += ",script"
		case 1:
			line += ",important"
		case 2:
			line += ",third-party"
		case 3:
			line = "@@" + line
		case 4:
			line += ",match-case"
		}
		lines = append(lines, line)
	}
	// into one of the lists of the world (anywhere among its lines) or a list of its own
	if len(w.specs) > 0 && r.chance(2, 3) {
		sp := &w.specs[r.n(len(w.specs))]
		old := strings.SplitAfter(sp.text, "\n")
		if last := len(old) - 1; last >= 0 && old[last] != "" && !strings.HasSuffix(old[last], "\n") {
			old[last] += "\n"
		}
		for _, l := range lines {
			pos := r.n(len(old) + 1)
			old = append(old[:pos], append([]string{l + "\n"}, old[pos:]...)...)
		}
		sp.text = strings.Join(old, "")
	} else {
		w.specs = append(w.specs, fListSpec{id: 77, text: strings.Join(lines, "\n") + "\n", file: r.chance(1, 2) || len(w.specs) == 0})
	}
	w.ruleTexts = append(w.ruleTexts, lines...)
	urls := []string{"https://x.net/ad1/ad2/_ad_/b.js", "http://x.net/ad2", "https://cdn.x.net/ad1.js", "http://" + sites[0] + "/ad2/b.js", "https://x.net/AD1/AD2.JS"}
	for _, site := range sites {
		src := pick(r, []string{"http://", "https://"}) + pick(r, []string{"", "", "www.", "m."}) + site + pick(r, []string{"/", "/page", ""})
		kind := pick(r, []string{"all", "all", "all", "web"})
		w.extra = append(w.extra, &fQuery{kind: kind, web: rules.NewRequest(pick(r, urls), src, pick(r, []rules.RequestType{rules.TypeScript, rules.TypeScript, rules.TypeImage, rules.TypeDocument}))})
	}
	if r.chance(1, 2) {
		w.extra = append(w.extra, &fQuery{kind: "all", web: rules.NewRequest(pick(r, urls), "http://unrelated.example.net/", rules.TypeScript)})
	}
	_ = fmt.Sprint
}

package main

// Generated facts of work group P4 (C14, item F6 of notes/REVIEW2.md): lock SECTIONS and
// ownership facts computed with go/types over EVERY package of the urlfilter module this
// binary was built from.
//
//   p4Sections        one row per critical section (one Lock/RLock … matching Unlock/RUnlock,
//                     or the end of the function for a deferred unlock): the function, the lock
//                     token, and the ORDERED list of accesses to guarded state made on the locked
//                     object between the two calls, including the accesses of module functions
//                     called inside the section (inlined, receiver/parameters substituted)
//   p4Accesses        every access to a guarded field through ANY expression (receiver, local,
//                     parameter, free function, closure), with the locks held on that object at
//                     that point (own function, or "<lock>/caller" when every call site of an
//                     unexported, never-escaping helper holds it on the object it passes);
//                     fields set in a composite literal are not accesses (a fresh object)
//   p4Writers         every write of a field of a struct type the model treats as immutable
//                     after construction, in every package, with its kind (asg = assignment,
//                     append, ++, delete, clear, &; lit = composite literal) and the flags
//                     q (reachable from a query entry point without entering a constructor) and
//                     c (constructor, or only ever called from constructors)
//   p4GlobalWriters   the same for package-level variables of the module
//
// Call graph: static calls and references resolved by go/types; a call through an interface
// stands for every module method of that name; a call of a function value for every module
// function of identical signature that is used as a value somewhere.  A lock and an access
// belong together when their base expressions print alike (`s.cacheMu.Lock()` / `s.cache`).
//
// Type information: the module's own packages are type-checked from source (go/types), their
// external imports are read from the export data `go list -export` reports (the build cache
// the harness itself was just built from).  If an import cannot be resolved that way it is
// replaced by an empty package, type errors are ignored, and accesses whose base expression
// then has no type are matched by field NAME (an over-approximation); p4FakeImports lists
// such imports (empty in a normal run).

import (
	"bytes"
	"fmt"
	"go/ast"
	"go/build"
	"go/importer"
	"go/parser"
	"go/token"
	"go/types"
	"io"
	"os"
	"os/exec"
	"path/filepath"
	"sort"
	"strings"
)

func init() { factSections = append(factSections, p4FactsSection) }

const p4ModPath = "github.com/AdguardTeam/urlfilter"

// ---- configuration: what is guarded, what is frozen ---------------------------------------------

type p4TypeRef struct{ rel, typ string } // package directory relative to the module root, type name

// guarded fields: mutable shared state protected by a mutex (model state `cache`, `cells`, the file
// position / read buffer of a file list).
var p4GuardedFields = []struct {
	p4TypeRef
	field string
}{
	{p4TypeRef{"filterlist", "RuleStorage"}, "cache"},
	{p4TypeRef{"filterlist", "FileRuleList"}, "File"},
	{p4TypeRef{"filterlist", "FileRuleList"}, "buffer"},
	{p4TypeRef{"rules", "NetworkRule"}, "regex"},
	{p4TypeRef{"rules", "NetworkRule"}, "invalid"},
}

// struct types whose fields (other than the guarded ones) the model treats as immutable once the
// object is constructed: the engines, the lookup tables, the storage (group J's list) and the
// rule objects, their parts and the rule lists.
var p4FrozenTypes = []p4TypeRef{
	{"", "DNSEngine"}, {"", "NetworkEngine"}, {"", "Engine"}, {"", "CosmeticEngine"}, {"", "cosmeticLookupTable"},
	{"lookup", "ShortcutsTable"}, {"lookup", "DomainsTable"}, {"lookup", "SeqScanTable"},
	{"filterlist", "RuleStorage"}, {"filterlist", "FileRuleList"}, {"filterlist", "StringRuleList"},
	{"rules", "NetworkRule"}, {"rules", "HostRule"}, {"rules", "CosmeticRule"}, {"rules", "DNSRewrite"},
	{"rules", "DNSMX"}, {"rules", "DNSSRV"}, {"rules", "DNSSVCB"}, {"rules", "clients"},
}

// the construction-time API of the engines and tables (group J's convention): exported, but only
// meant to be called while an engine is being built; never followed from query code, a call of it
// from query code is reported as a write.
var p4BuildAPI = map[string]bool{"AddRule": true, "TryAdd": true}

// ---- loading and type-checking the module -------------------------------------------------------

type p4Pkg struct {
	path, rel, dir string
	files          []*ast.File // everything that is compiled with -tags verif
	scan           []*ast.File // the same without the verif_* hook files
	tpkg           *types.Package
	info           *types.Info
}

type p4World struct {
	repo     string
	fset     *token.FileSet
	ctxt     build.Context
	pkgs     map[string]*p4Pkg
	loading  map[string]bool
	exports  map[string]string
	gc       types.Importer
	fake     map[string]*types.Package
	fakeList []string

	funcs     []*p4Func
	funcOf    map[*types.Func]*p4Func
	byName    map[string][]*p4Func // method / function name -> declarations (for interface calls)
	guarded   map[*types.Var]string
	guardName map[string]string // field name -> label, for the untyped fallback
	frozen    map[*types.Var]string
	frozenT   map[*types.TypeName]string
	frozenFld map[string][]string // field name -> labels (untyped fallback)
	ifaces    map[*types.TypeName]bool
}

func (w *p4World) relOf(path string) (string, bool) {
	if path == p4ModPath {
		return "", true
	}
	if strings.HasPrefix(path, p4ModPath+"/") {
		return path[len(p4ModPath)+1:], true
	}

	return "", false
}

// Import implements types.Importer.
func (w *p4World) Import(path string) (*types.Package, error) {
	if path == "unsafe" {
		return types.Unsafe, nil
	}
	if rel, ok := w.relOf(path); ok {
		if p := w.load(rel); p != nil {
			return p.tpkg, nil
		}
	} else if w.exports[path] != "" {
		if pkg, err := w.gc.Import(path); err == nil {
			return pkg, nil
		}
	}
	if pkg, ok := w.fake[path]; ok {
		return pkg, nil
	}
	name := path[strings.LastIndex(path, "/")+1:]
	if i := strings.Index(name, ".v"); i > 0 {
		name = name[:i]
	}
	pkg := types.NewPackage(path, name)
	pkg.MarkComplete()
	w.fake[path] = pkg
	w.fakeList = append(w.fakeList, path)

	return pkg, nil
}

func (w *p4World) goFiles(dir string) (names []string) {
	ents, err := os.ReadDir(dir)
	if err != nil {
		return nil
	}
	for _, e := range ents {
		n := e.Name()
		if e.IsDir() || !strings.HasSuffix(n, ".go") || strings.HasSuffix(n, "_test.go") {
			continue
		}
		if ok, merr := w.ctxt.MatchFile(dir, n); merr != nil || !ok {
			continue
		}
		names = append(names, n)
	}
	sort.Strings(names)

	return names
}

func (w *p4World) load(rel string) *p4Pkg {
	path := p4ModPath
	if rel != "" {
		path += "/" + rel
	}
	if p, ok := w.pkgs[path]; ok {
		return p
	}
	if w.loading[path] {
		return nil // import cycle: cannot happen in code that compiles
	}
	dir := filepath.Join(w.repo, filepath.FromSlash(rel))
	names := w.goFiles(dir)
	if len(names) == 0 {
		return nil
	}
	w.loading[path] = true
	defer delete(w.loading, path)
	p := &p4Pkg{path: path, rel: rel, dir: dir}
	for _, n := range names {
		f, err := parser.ParseFile(w.fset, filepath.Join(dir, n), nil, 0)
		if err != nil {
			panic(err)
		}
		p.files = append(p.files, f)
		if !strings.HasPrefix(n, "verif_") {
			p.scan = append(p.scan, f)
		}
	}
	p.info = &types.Info{
		Types:      map[ast.Expr]types.TypeAndValue{},
		Defs:       map[*ast.Ident]types.Object{},
		Uses:       map[*ast.Ident]types.Object{},
		Selections: map[*ast.SelectorExpr]*types.Selection{},
	}
	conf := types.Config{Importer: w, Error: func(error) {}, Sizes: types.SizesFor("gc", "amd64")}
	p.tpkg, _ = conf.Check(path, w.fset, p.files, p.info)
	w.pkgs[path] = p

	return p
}

func p4Load(repo string) *p4World {
	w := &p4World{
		repo: repo, fset: token.NewFileSet(), ctxt: build.Default,
		pkgs: map[string]*p4Pkg{}, loading: map[string]bool{}, exports: map[string]string{},
		fake: map[string]*types.Package{},
	}
	w.ctxt.BuildTags = []string{"verif"}
	w.ctxt.CgoEnabled = false
	// export data of everything the module imports
	cmd := exec.Command("go", "list", "-mod=readonly", "-e", "-export", "-deps", "-tags", "verif", "-f", "{{.ImportPath}}\t{{.Export}}", "./...")
	cmd.Dir = repo
	// -mod=readonly: never touch go.mod / go.sum of the tree that is being inspected
	cmd.Env = append(os.Environ(), "GOFLAGS=", "GOPROXY=off", "GOSUMDB=off", "GOTOOLCHAIN=local", "CGO_ENABLED=0")
	var out bytes.Buffer
	cmd.Stdout = &out
	_ = cmd.Run()
	for _, l := range strings.Split(out.String(), "\n") {
		if i := strings.IndexByte(l, '\t'); i > 0 && i+1 < len(l) {
			w.exports[l[:i]] = l[i+1:]
		}
	}
	w.gc = importer.ForCompiler(w.fset, "gc", func(path string) (io.ReadCloser, error) {
		f, ok := w.exports[path]
		if !ok || f == "" {
			return nil, fmt.Errorf("no export data for %s", path)
		}

		return os.Open(f)
	})
	// every package directory of the module
	var rels []string
	_ = filepath.WalkDir(repo, func(path string, d os.DirEntry, err error) error {
		if err != nil || !d.IsDir() {
			return nil
		}
		n := d.Name()
		if path != repo && (strings.HasPrefix(n, ".") || strings.HasPrefix(n, "_") || n == "testdata" || n == "vendor") {
			return filepath.SkipDir
		}
		if path != repo {
			if _, serr := os.Stat(filepath.Join(path, "go.mod")); serr == nil {
				return filepath.SkipDir // a nested module
			}
		}
		rel, _ := filepath.Rel(repo, path)
		if rel == "." {
			rel = ""
		}
		rels = append(rels, filepath.ToSlash(rel))

		return nil
	})
	sort.Strings(rels)
	for _, rel := range rels {
		w.load(rel)
	}
	sort.Strings(w.fakeList)
	w.index()

	return w
}

func (w *p4World) sortedPkgs() []*p4Pkg {
	var ps []*p4Pkg
	for _, p := range w.pkgs {
		ps = append(ps, p)
	}
	sort.Slice(ps, func(i, j int) bool { return ps[i].path < ps[j].path })

	return ps
}

// ---- functions, guarded and frozen fields -------------------------------------------------------

type p4Func struct {
	pkg    *p4Pkg
	decl   *ast.FuncDecl
	obj    *types.Func
	name   string // "pkg.Type.Method" / "pkg.Func"
	short  string
	params []types.Object // receiver first (nil when there is none), then the parameters

	isCtor  bool
	calls   map[*p4Func]bool
	apiCall map[string]bool    // calls of AddRule / TryAdd (any receiver)
	writes  map[string]bool    // frozen field labels assigned to / appended to / deleted from …
	lits    map[string]bool    // frozen field labels initialised in a composite literal (a fresh object)
	gwrites map[string]bool    // package-level variables of the module written ("pkg.name")
	dyn     []*types.Signature // signatures of the function VALUES it calls
	escapes bool               // referenced other than by a direct call
	sites   []*p4Site          // call sites OF this function
}

type p4Site struct {
	caller *p4Func
	keys   []string       // caller-side key of the receiver / each argument ("" = none)
	objs   []types.Object // the argument is exactly this identifier of the caller
	held   []p4HeldTok
}

type p4HeldTok struct{ tok, base string }

func p4Deref(t types.Type) types.Type {
	for {
		p, ok := t.(*types.Pointer)
		if !ok {
			return t
		}
		t = p.Elem()
	}
}

func p4NamedOf(t types.Type) *types.Named {
	if t == nil {
		return nil
	}
	n, _ := p4Deref(types.Unalias(t)).(*types.Named)

	return n
}

func (w *p4World) structOf(ref p4TypeRef) (*types.TypeName, *types.Struct) {
	path := p4ModPath
	if ref.rel != "" {
		path += "/" + ref.rel
	}
	p := w.pkgs[path]
	if p == nil || p.tpkg == nil {
		return nil, nil
	}
	tn, _ := p.tpkg.Scope().Lookup(ref.typ).(*types.TypeName)
	if tn == nil {
		return nil, nil
	}
	st, _ := tn.Type().Underlying().(*types.Struct)

	return tn, st
}

func (w *p4World) index() {
	w.funcOf = map[*types.Func]*p4Func{}
	w.byName = map[string][]*p4Func{}
	w.guarded = map[*types.Var]string{}
	w.guardName = map[string]string{}
	w.frozen = map[*types.Var]string{}
	w.frozenT = map[*types.TypeName]string{}
	w.frozenFld = map[string][]string{}
	w.ifaces = map[*types.TypeName]bool{}
	for _, g := range p4GuardedFields {
		_, st := w.structOf(g.p4TypeRef)
		if st == nil {
			continue
		}
		for i := 0; i < st.NumFields(); i++ {
			if st.Field(i).Name() == g.field {
				w.guarded[st.Field(i)] = g.typ + "." + g.field
				w.guardName[g.field] = g.typ + "." + g.field
			}
		}
	}
	for _, ref := range p4FrozenTypes {
		tn, st := w.structOf(ref)
		if st == nil {
			continue
		}
		w.frozenT[tn] = ref.typ
		for i := 0; i < st.NumFields(); i++ {
			f := st.Field(i)
			if _, isGuarded := w.guarded[f]; isGuarded {
				continue
			}
			w.frozen[f] = ref.typ + "." + f.Name()
			w.frozenFld[f.Name()] = append(w.frozenFld[f.Name()], ref.typ+"."+f.Name())
		}
	}
	for _, p := range w.sortedPkgs() {
		if p.tpkg == nil {
			continue
		}
		sc := p.tpkg.Scope()
		for _, n := range sc.Names() {
			if tn, ok := sc.Lookup(n).(*types.TypeName); ok {
				if _, isIface := tn.Type().Underlying().(*types.Interface); isIface {
					w.ifaces[tn] = true
				}
			}
		}
		pn := p.tpkg.Name()
		for _, f := range p.scan {
			for _, d := range f.Decls {
				fd, ok := d.(*ast.FuncDecl)
				if !ok || fd.Body == nil {
					continue
				}
				obj, _ := p.info.Defs[fd.Name].(*types.Func)
				fn := &p4Func{pkg: p, decl: fd, obj: obj, short: fd.Name.Name, name: pn + "." + fFuncName(fd),
					calls: map[*p4Func]bool{}, apiCall: map[string]bool{}, writes: map[string]bool{}, lits: map[string]bool{}, gwrites: map[string]bool{}}
				var recv types.Object
				if fd.Recv != nil && len(fd.Recv.List) > 0 && len(fd.Recv.List[0].Names) > 0 {
					recv = p.info.Defs[fd.Recv.List[0].Names[0]]
				}
				fn.params = append(fn.params, recv)
				for _, fl := range fd.Type.Params.List {
					if len(fl.Names) == 0 {
						fn.params = append(fn.params, nil)
					}
					for _, n := range fl.Names {
						fn.params = append(fn.params, p.info.Defs[n])
					}
				}
				w.funcs = append(w.funcs, fn)
				if obj != nil {
					w.funcOf[obj] = fn
				}
				w.byName[fn.short] = append(w.byName[fn.short], fn)
			}
		}
	}
	sort.Slice(w.funcs, func(i, j int) bool {
		if w.funcs[i].name != w.funcs[j].name {
			return w.funcs[i].name < w.funcs[j].name
		}

		return w.funcs[i].decl.Pos() < w.funcs[j].decl.Pos()
	})
	for _, fn := range w.funcs {
		fn.isCtor = w.isCtor(fn)
	}
}

// isCtor: named New*/new* and returning (a pointer to) a frozen struct type or an interface type
// declared in the module (rules.Rule): the function creates the object it returns, nobody else can
// see that object before it returns.  NewMatchingResult, NewRequest … are ordinary query functions.
func (w *p4World) isCtor(fn *p4Func) bool {
	if fn.short == "init" && fn.decl.Recv == nil {
		return true // package initialisation: runs once, before anything can query
	}
	if !strings.HasPrefix(fn.short, "New") && !strings.HasPrefix(fn.short, "new") {
		return false
	}
	if fn.obj == nil {
		return true
	}
	res := fn.obj.Type().(*types.Signature).Results()
	for i := 0; i < res.Len(); i++ {
		n := p4NamedOf(res.At(i).Type())
		if n == nil {
			continue
		}
		if _, ok := w.frozenT[n.Obj()]; ok {
			return true
		}
		if w.ifaces[n.Obj()] {
			return true
		}
	}

	return false
}

// ---- keys of base expressions -------------------------------------------------------------------

type p4Keyer struct {
	info  *types.Info
	subst map[types.Object]string
	depth int
}

// key prints an expression; identifiers bound by the substitution (receiver/parameters of an inlined
// callee) are replaced by the caller's expression, other identifiers of an inlined callee get a depth
// mark so that they never coincide with a caller's name.
func (k *p4Keyer) key(e ast.Expr) string {
	switch x := e.(type) {
	case nil:
		return ""
	case *ast.ParenExpr:
		return k.key(x.X)
	case *ast.StarExpr:
		return k.key(x.X)
	case *ast.UnaryExpr:
		if x.Op == token.AND {
			return k.key(x.X)
		}
	case *ast.Ident:
		obj := k.info.Uses[x]
		if obj == nil {
			obj = k.info.Defs[x]
		}
		if s, ok := k.subst[obj]; ok && obj != nil {
			return s
		}
		if k.depth > 0 {
			_, isPkg := obj.(*types.PkgName)
			global := obj != nil && (obj.Pkg() == nil || obj.Parent() == obj.Pkg().Scope())
			if !isPkg && !global {
				return fmt.Sprintf("%s'%d", x.Name, k.depth)
			}
		}

		return x.Name
	case *ast.SelectorExpr:
		return k.key(x.X) + "." + x.Sel.Name
	case *ast.IndexExpr:
		return k.key(x.X) + "[" + k.key(x.Index) + "]"
	case *ast.CallExpr:
		return k.key(x.Fun) + "()"
	}

	return types.ExprString(e)
}

// ---- the section walker -------------------------------------------------------------------------

type p4Acc struct{ label, rw string }

type p4Section struct {
	fn, tok, base string
	pos           token.Pos
	acc           []p4Acc
}

type p4AccessRow struct{ fn, label, rw, lock string } // lock: tokens joined by "+", "" = none

type p4Held struct {
	tok, base string
	sec       *p4Section
}

type p4Pending struct { // an access with no lock of its own function: may be covered by the callers
	fn   *p4Func
	row  int
	pidx int // index into fn.params of the base identifier, -1 if the base is something else
}

type p4Walker struct {
	w      *p4World
	root   *p4Func
	fn     *p4Func // the function whose body is being walked (root or an inlined callee)
	k      *p4Keyer
	held   []p4Held
	depth  int
	stack  map[*p4Func]bool
	writes map[*ast.SelectorExpr]bool
	rdwr   map[*ast.SelectorExpr]bool // compound assignment: read and write

	sections *[]*p4Section
	rows     *[]p4AccessRow
	pending  *[]p4Pending
}

func p4Unparen(e ast.Expr) ast.Expr {
	for {
		p, ok := e.(*ast.ParenExpr)
		if !ok {
			return e
		}
		e = p.X
	}
}

// p4WriteBase strips what lies between an assignment target and the field it writes.
func p4WriteBase(e ast.Expr) ast.Expr {
	for {
		switch x := e.(type) {
		case *ast.IndexExpr:
			e = x.X
		case *ast.ParenExpr:
			e = x.X
		case *ast.StarExpr:
			e = x.X
		case *ast.SliceExpr:
			e = x.X
		default:
			return e
		}
	}
}

// p4WrittenSelectors: the selector expressions of a body that are assigned to, incremented, deleted
// from, cleared or have their address taken.
func p4WrittenSelectors(body ast.Node) (wr, rdwr map[*ast.SelectorExpr]bool) {
	wr, rdwr = map[*ast.SelectorExpr]bool{}, map[*ast.SelectorExpr]bool{}
	mark := func(e ast.Expr, both bool) {
		if sel, ok := p4WriteBase(e).(*ast.SelectorExpr); ok {
			wr[sel] = true
			if both {
				rdwr[sel] = true
			}
		}
	}
	ast.Inspect(body, func(n ast.Node) bool {
		switch x := n.(type) {
		case *ast.AssignStmt:
			for _, l := range x.Lhs {
				mark(l, x.Tok != token.ASSIGN && x.Tok != token.DEFINE)
			}
		case *ast.IncDecStmt:
			mark(x.X, true)
		case *ast.RangeStmt:
			if x.Tok == token.ASSIGN {
				if x.Key != nil {
					mark(x.Key, false)
				}
				if x.Value != nil {
					mark(x.Value, false)
				}
			}
		case *ast.UnaryExpr:
			if x.Op == token.AND {
				mark(x.X, true)
			}
		case *ast.CallExpr:
			if id, ok := x.Fun.(*ast.Ident); ok && (id.Name == "delete" || id.Name == "clear") && len(x.Args) > 0 {
				mark(x.Args[0], true)
			}
		}

		return true
	})

	return wr, rdwr
}

func (v *p4Walker) info() *types.Info { return v.fn.pkg.info }

// lockCall recognises calls of sync.Mutex / sync.RWMutex methods.  The mutex is named after the
// struct that holds it ("RuleStorage.cacheMu", "FileRuleList.Mutex" for an embedded one), base is the
// key of the object that struct value is reached by.
func (v *p4Walker) lockCall(e ast.Expr) (tok, base string, acquire, ok bool) {
	c, isCall := p4Unparen(e).(*ast.CallExpr)
	if !isCall {
		return "", "", false, false
	}
	sel, isSel := p4Unparen(c.Fun).(*ast.SelectorExpr)
	if !isSel {
		return "", "", false, false
	}
	var mode string
	switch sel.Sel.Name {
	case "Lock":
		mode, acquire = "Lock", true
	case "RLock":
		mode, acquire = "RLock", true
	case "Unlock":
		mode = "Lock"
	case "RUnlock":
		mode = "RLock"
	default:
		return "", "", false, false
	}
	info := v.info()
	x := p4Unparen(sel.X)
	var id string
	if s := info.Selections[sel]; s != nil {
		f, _ := s.Obj().(*types.Func)
		if f == nil || f.Pkg() == nil || f.Pkg().Path() != "sync" {
			return "", "", false, false
		}
		if len(s.Index()) > 1 {
			// promoted through an embedded mutex of the type of x
			n := p4NamedOf(info.TypeOf(x))
			owner := "?"
			var st *types.Struct
			if n != nil {
				owner = n.Obj().Name()
				st, _ = n.Underlying().(*types.Struct)
			}
			emb := "?"
			if st != nil && s.Index()[0] < st.NumFields() {
				emb = st.Field(s.Index()[0]).Name()
			}
			id, base = owner+"."+emb, v.k.key(x)
		} else if inner, isInner := x.(*ast.SelectorExpr); isInner && info.Selections[inner] != nil &&
			info.Selections[inner].Kind() == types.FieldVal {
			fv := info.Selections[inner].Obj().(*types.Var)
			id, base = v.w.ownerOf(info, inner, fv)+"."+fv.Name(), v.k.key(inner.X)
		} else {
			id, base = "var:"+v.k.key(x), ""
		}
	} else {
		// no type for the mutex (package sync not resolved): structural fallback
		if inner, isInner := x.(*ast.SelectorExpr); isInner && info.Selections[inner] != nil &&
			info.Selections[inner].Kind() == types.FieldVal {
			fv := info.Selections[inner].Obj().(*types.Var)
			id, base = v.w.ownerOf(info, inner, fv)+"."+fv.Name(), v.k.key(inner.X)
		} else if n := p4NamedOf(info.TypeOf(x)); n != nil {
			emb := "?"
			if st, isSt := n.Underlying().(*types.Struct); isSt {
				for i := 0; i < st.NumFields(); i++ {
					if st.Field(i).Embedded() && (st.Field(i).Name() == "Mutex" || st.Field(i).Name() == "RWMutex") {
						emb = st.Field(i).Name()
					}
				}
			}
			if emb == "?" {
				return "", "", false, false
			}
			id, base = n.Obj().Name()+"."+emb, v.k.key(x)
		} else {
			return "", "", false, false
		}
	}

	return mode + "(" + id + ")", base, acquire, true
}

// ownerOf names the struct type a field selection goes through.
func (w *p4World) ownerOf(info *types.Info, sel *ast.SelectorExpr, fv *types.Var) string {
	if lb, ok := w.guarded[fv]; ok {
		return lb[:strings.IndexByte(lb, '.')]
	}
	if lb, ok := w.frozen[fv]; ok {
		return lb[:strings.IndexByte(lb, '.')]
	}
	if n := p4NamedOf(info.TypeOf(sel.X)); n != nil {
		return n.Obj().Name()
	}

	return "?"
}

func (v *p4Walker) nested(list []ast.Stmt) {
	saved := append([]p4Held{}, v.held...)
	for _, s := range list {
		v.stmt(s)
	}
	v.held = saved
}

func (v *p4Walker) acquire(tok, base string, pos token.Pos) {
	h := p4Held{tok: tok, base: base}
	if v.depth == 0 {
		h.sec = &p4Section{fn: v.root.name, tok: tok, base: base, pos: pos}
		*v.sections = append(*v.sections, h.sec)
	}
	v.held = append(v.held, h)
}

func (v *p4Walker) release(tok, base string) {
	for i := len(v.held) - 1; i >= 0; i-- {
		if v.held[i].tok == tok && v.held[i].base == base {
			v.held = append(v.held[:i:i], v.held[i+1:]...)

			return
		}
	}
}

func (v *p4Walker) stmt(st ast.Stmt) {
	switch s := st.(type) {
	case nil:
	case *ast.ExprStmt:
		if tok, base, acq, ok := v.lockCall(s.X); ok {
			if acq {
				v.acquire(tok, base, s.Pos())
			} else {
				v.release(tok, base)
			}

			return
		}
		v.expr(s.X)
	case *ast.DeferStmt:
		if _, _, _, ok := v.lockCall(s.Call); ok {
			return // deferred unlock: held until the function returns
		}
		v.expr(s.Call)
	case *ast.GoStmt:
		saved := v.held
		v.held = nil
		v.expr(s.Call)
		v.held = saved
	case *ast.AssignStmt:
		for _, r := range s.Rhs {
			v.expr(r)
		}
		for _, l := range s.Lhs {
			v.expr(l)
		}
	case *ast.IncDecStmt:
		v.expr(s.X)
	case *ast.SendStmt:
		v.expr(s.Chan)
		v.expr(s.Value)
	case *ast.ReturnStmt:
		for _, e := range s.Results {
			v.expr(e)
		}
	case *ast.BlockStmt:
		v.nested(s.List)
	case *ast.LabeledStmt:
		v.stmt(s.Stmt)
	case *ast.IfStmt:
		saved := append([]p4Held{}, v.held...)
		v.stmt(s.Init)
		v.expr(s.Cond)
		v.nested(s.Body.List)
		if s.Else != nil {
			v.nested([]ast.Stmt{s.Else})
		}
		v.held = saved
	case *ast.SwitchStmt:
		saved := append([]p4Held{}, v.held...)
		v.stmt(s.Init)
		v.expr(s.Tag)
		for _, c := range s.Body.List {
			cc := c.(*ast.CaseClause)
			for _, e := range cc.List {
				v.expr(e)
			}
		}
		for _, c := range s.Body.List {
			v.nested(c.(*ast.CaseClause).Body)
		}
		v.held = saved
	case *ast.TypeSwitchStmt:
		saved := append([]p4Held{}, v.held...)
		v.stmt(s.Init)
		v.stmt(s.Assign)
		for _, c := range s.Body.List {
			v.nested(c.(*ast.CaseClause).Body)
		}
		v.held = saved
	case *ast.SelectStmt:
		for _, c := range s.Body.List {
			cc := c.(*ast.CommClause)
			saved := append([]p4Held{}, v.held...)
			v.stmt(cc.Comm)
			v.nested(cc.Body)
			v.held = saved
		}
	case *ast.ForStmt:
		saved := append([]p4Held{}, v.held...)
		v.stmt(s.Init)
		v.expr(s.Cond)
		v.nested(s.Body.List)
		v.stmt(s.Post)
		v.held = saved
	case *ast.RangeStmt:
		v.expr(s.X)
		if s.Tok == token.ASSIGN {
			v.expr(s.Key)
			v.expr(s.Value)
		}
		v.nested(s.Body.List)
	case *ast.DeclStmt:
		if gd, ok := s.Decl.(*ast.GenDecl); ok {
			for _, sp := range gd.Specs {
				if vs, isVS := sp.(*ast.ValueSpec); isVS {
					for _, e := range vs.Values {
						v.expr(e)
					}
				}
			}
		}
	case *ast.BranchStmt, *ast.EmptyStmt:
	default:
		ast.Inspect(st, func(n ast.Node) bool {
			if e, ok := n.(ast.Expr); ok {
				v.expr(e)

				return false
			}

			return true
		})
	}
}

func (v *p4Walker) expr(e ast.Expr) {
	switch x := e.(type) {
	case nil:
		return
	case *ast.Ident, *ast.BasicLit:
		return
	case *ast.FuncLit:
		// an immediately invoked, deferred or callback closure: its body runs with the locks held here
		v.nested(x.Body.List)

		return
	case *ast.ParenExpr:
		v.expr(x.X)

		return
	case *ast.SelectorExpr:
		v.expr(x.X)
		v.access(x)

		return
	case *ast.CallExpr:
		if tok, base, acq, ok := v.lockCall(x); ok {
			// a lock call in expression position (rare): same bookkeeping
			if acq {
				v.acquire(tok, base, x.Pos())
			} else {
				v.release(tok, base)
			}

			return
		}
		v.expr(x.Fun)
		for _, a := range x.Args {
			v.expr(a)
		}
		v.call(x)

		return
	case *ast.KeyValueExpr:
		// the key of a struct literal is a field name, not an expression; a map key is one
		if _, isIdent := x.Key.(*ast.Ident); !isIdent {
			v.expr(x.Key)
		}
		v.expr(x.Value)

		return
	}
	// generic: visit the direct sub-expressions in source order
	ast.Inspect(e, func(n ast.Node) bool {
		if n == nil || n == ast.Node(e) {
			return true
		}
		if sub, ok := n.(ast.Expr); ok {
			v.expr(sub)

			return false
		}
		if _, isStmt := n.(ast.Stmt); isStmt {
			return false
		}

		return true
	})
}

// guardedLabel: the guarded field a selector denotes, "" if none.
func (v *p4Walker) guardedLabel(sel *ast.SelectorExpr) string {
	info := v.info()
	if s := info.Selections[sel]; s != nil {
		if s.Kind() != types.FieldVal {
			return ""
		}
		fv, _ := s.Obj().(*types.Var)

		return v.w.guarded[fv]
	}
	// no selection recorded: a qualified identifier, or the base has no type (unresolved import)
	if id, ok := sel.X.(*ast.Ident); ok {
		if _, isPkg := info.Uses[id].(*types.PkgName); isPkg {
			return ""
		}
	}
	if tv, ok := info.Types[sel.X]; ok && tv.Type != nil && tv.Type != types.Typ[types.Invalid] {
		return ""
	}

	return v.w.guardName[sel.Sel.Name]
}

func (v *p4Walker) access(sel *ast.SelectorExpr) {
	label := v.guardedLabel(sel)
	if label == "" {
		return
	}
	base := v.k.key(sel.X)
	kinds := []string{"r"}
	if v.writes[sel] {
		kinds = []string{"w"}
		if v.rdwr[sel] {
			kinds = []string{"r", "w"}
		}
	}
	var toks []string
	for _, h := range v.held {
		if h.base == base {
			toks = append(toks, h.tok)
		}
	}
	for _, rw := range kinds {
		for _, h := range v.held {
			if h.base == base && h.sec != nil {
				h.sec.acc = append(h.sec.acc, p4Acc{label, rw})
			}
		}
		if v.depth == 0 {
			lock := strings.Join(toks, "+")
			*v.rows = append(*v.rows, p4AccessRow{fn: v.root.name, label: label, rw: rw, lock: lock})
			if len(toks) == 0 {
				pidx := -1
				if id, ok := p4Unparen(sel.X).(*ast.Ident); ok {
					obj := v.info().Uses[id]
					for i, p := range v.root.params {
						if p != nil && p == obj {
							pidx = i
						}
					}
				}
				*v.pending = append(*v.pending, p4Pending{fn: v.root, row: len(*v.rows) - 1, pidx: pidx})
			}
		}
	}
}

// calleeOf resolves a call to a function declared in the module (nil for interface methods, function
// values, conversions, builtins and everything outside the module).
func (v *p4Walker) calleeOf(c *ast.CallExpr) (*p4Func, ast.Expr) {
	fun := p4Unparen(c.Fun)
	if ix, ok := fun.(*ast.IndexExpr); ok {
		fun = ix.X
	}
	var id *ast.Ident
	var recv ast.Expr
	switch f := fun.(type) {
	case *ast.Ident:
		id = f
	case *ast.SelectorExpr:
		id = f.Sel
		if s := v.info().Selections[f]; s != nil && s.Kind() == types.MethodVal {
			recv = f.X
		}
	default:
		return nil, nil
	}
	obj, _ := v.info().Uses[id].(*types.Func)
	if obj == nil {
		return nil, nil
	}

	return v.w.funcOf[obj.Origin()], recv
}

func (v *p4Walker) call(c *ast.CallExpr) {
	callee, recv := v.calleeOf(c)
	if callee == nil {
		return
	}
	// caller-side keys of the receiver and the arguments
	keys := make([]string, len(callee.params))
	objs := make([]types.Object, len(callee.params))
	set := func(i int, e ast.Expr) {
		if i >= len(keys) || e == nil {
			return
		}
		keys[i] = v.k.key(e)
		if id, ok := p4Unparen(e).(*ast.Ident); ok {
			objs[i] = v.info().Uses[id]
		}
	}
	set(0, recv)
	for i, a := range c.Args {
		set(i+1, a)
	}
	if v.depth == 0 {
		site := &p4Site{caller: v.root, keys: keys, objs: objs}
		for _, h := range v.held {
			site.held = append(site.held, p4HeldTok{h.tok, h.base})
		}
		callee.sites = append(callee.sites, site)
	}
	// inline the callee into the open sections
	if len(v.held) == 0 || v.depth >= 4 || v.stack[callee] {
		return
	}
	subst := map[types.Object]string{}
	for i, p := range callee.params {
		if p != nil && keys[i] != "" {
			subst[p] = keys[i]
		}
	}
	wr, rdwr := p4WrittenSelectors(callee.decl.Body)
	in := &p4Walker{w: v.w, root: v.root, fn: callee, depth: v.depth + 1, stack: v.stack,
		k:      &p4Keyer{info: callee.pkg.info, subst: subst, depth: v.depth + 1},
		writes: wr, rdwr: rdwr, sections: v.sections, rows: v.rows, pending: v.pending}
	// the callee's own lock calls are not tracked; it runs under the caller's locks
	in.held = append([]p4Held{}, v.held...)
	v.stack[callee] = true
	in.nested(callee.decl.Body.List)
	delete(v.stack, callee)
}

// ---- the three tables ---------------------------------------------------------------------------

func (w *p4World) lockFacts() (sections []*p4Section, rows []p4AccessRow) {
	var pending []p4Pending
	for _, fn := range w.funcs {
		wr, rdwr := p4WrittenSelectors(fn.decl.Body)
		v := &p4Walker{w: w, root: fn, fn: fn, stack: map[*p4Func]bool{fn: true},
			k:      &p4Keyer{info: fn.pkg.info},
			writes: wr, rdwr: rdwr, sections: &sections, rows: &rows, pending: &pending}
		v.nested(fn.decl.Body.List)
	}
	// locks held by every caller of an unexported helper, per receiver/parameter (greatest fixed point)
	w.markEscapes()
	type pk struct {
		fn *p4Func
		i  int
	}
	all := map[string]bool{}
	for _, fn := range w.funcs {
		for _, s := range fn.sites {
			for _, h := range s.held {
				all[h.tok] = true
			}
		}
	}
	ch := map[pk]map[string]bool{}
	for _, fn := range w.funcs {
		for i := range fn.params {
			m := map[string]bool{}
			if !ast.IsExported(fn.short) && !fn.escapes && len(fn.sites) > 0 && fn.short != "init" && fn.short != "main" {
				for t := range all {
					m[t] = true
				}
			}
			ch[pk{fn, i}] = m
		}
	}
	for changed := true; changed; {
		changed = false
		for _, fn := range w.funcs {
			for i := range fn.params {
				cur := ch[pk{fn, i}]
				for t := range cur {
					for _, s := range fn.sites {
						ok := false
						for _, h := range s.held {
							if h.tok == t && h.base == s.keys[i] && s.keys[i] != "" {
								ok = true
							}
						}
						if !ok && s.objs[i] != nil {
							for j, p := range s.caller.params {
								if p != nil && p == s.objs[i] && ch[pk{s.caller, j}][t] {
									ok = true
								}
							}
						}
						if !ok {
							delete(cur, t)
							changed = true

							break
						}
					}
				}
			}
		}
	}
	for _, pd := range pending {
		if pd.pidx < 0 {
			continue
		}
		if toks := fSortedKeys(ch[pk{pd.fn, pd.pidx}]); len(toks) > 0 {
			for i := range toks {
				toks[i] += "/caller"
			}
			rows[pd.row].lock = strings.Join(toks, "+")
		}
	}
	sort.SliceStable(sections, func(i, j int) bool {
		if sections[i].fn != sections[j].fn {
			return sections[i].fn < sections[j].fn
		}

		return sections[i].pos < sections[j].pos
	})
	seen := map[p4AccessRow]bool{}
	var out []p4AccessRow
	for _, r := range rows {
		if !seen[r] {
			seen[r] = true
			out = append(out, r)
		}
	}
	sort.Slice(out, func(i, j int) bool {
		a, b := out[i], out[j]
		if a.fn != b.fn {
			return a.fn < b.fn
		}
		if a.label != b.label {
			return a.label < b.label
		}
		if a.rw != b.rw {
			return a.rw < b.rw
		}

		return a.lock < b.lock
	})

	return sections, out
}

// markEscapes: functions referenced other than as the callee of a direct call (method values,
// callbacks): their callers are unknown.
func (w *p4World) markEscapes() {
	for _, p := range w.sortedPkgs() {
		callPos := map[*ast.Ident]bool{}
		for _, f := range p.files {
			ast.Inspect(f, func(n ast.Node) bool {
				if c, ok := n.(*ast.CallExpr); ok {
					fun := p4Unparen(c.Fun)
					if ix, isIx := fun.(*ast.IndexExpr); isIx {
						fun = ix.X
					}
					switch f := fun.(type) {
					case *ast.Ident:
						callPos[f] = true
					case *ast.SelectorExpr:
						callPos[f.Sel] = true
					}
				}

				return true
			})
		}
		for id, obj := range p.info.Uses {
			if f, ok := obj.(*types.Func); ok && !callPos[id] {
				if fn := w.funcOf[f.Origin()]; fn != nil {
					fn.escapes = true
				}
			}
		}
	}
}

type p4WriterRow struct{ fn, field, kind, query, ctor string }

// frozenLabel: the frozen field a selector denotes ("" if none).
func (w *p4World) frozenLabel(info *types.Info, sel *ast.SelectorExpr) string {
	if s := info.Selections[sel]; s != nil {
		if s.Kind() != types.FieldVal {
			return ""
		}
		fv, _ := s.Obj().(*types.Var)

		return w.frozen[fv]
	}
	if id, ok := sel.X.(*ast.Ident); ok {
		if _, isPkg := info.Uses[id].(*types.PkgName); isPkg {
			return ""
		}
	}
	if tv, ok := info.Types[sel.X]; ok && tv.Type != nil && tv.Type != types.Typ[types.Invalid] {
		return ""
	}
	if lbs := w.frozenFld[sel.Sel.Name]; len(lbs) > 0 {
		cp := append([]string{}, lbs...)
		sort.Strings(cp)

		return "?" + strings.Join(cp, "/")
	}

	return ""
}

func (w *p4World) writerFacts() (rows, grows []p4WriterRow, typesFound, ctorWritten []string) {
	for _, ref := range p4FrozenTypes {
		if tn, _ := w.structOf(ref); tn != nil {
			typesFound = append(typesFound, ref.typ)
		}
	}
	sort.Strings(typesFound)
	for _, fn := range w.funcs {
		info := fn.pkg.info
		alias := map[types.Object]string{}
		target := func(e ast.Expr) string {
			switch x := p4WriteBase(e).(type) {
			case *ast.SelectorExpr:
				return w.frozenLabel(info, x)
			case *ast.Ident:
				if obj := info.Uses[x]; obj != nil {
					return alias[obj]
				}
			}

			return ""
		}
		galias := map[types.Object]string{}
		globalOf := func(id *ast.Ident) string {
			v, _ := info.Uses[id].(*types.Var)
			if v == nil || v.Pkg() == nil || v.IsField() || v.Parent() != v.Pkg().Scope() {
				return ""
			}
			if _, inModule := w.relOf(v.Pkg().Path()); !inModule {
				return ""
			}

			return v.Pkg().Name() + "." + v.Name()
		}
		gtarget := func(e ast.Expr, direct bool) string {
			switch x := p4WriteBase(e).(type) {
			case *ast.Ident:
				if g := globalOf(x); g != "" {
					return g
				}
				if obj := info.Uses[x]; obj != nil && !direct {
					return galias[obj]
				}
			case *ast.SelectorExpr:
				if id, ok := x.X.(*ast.Ident); ok {
					if _, isPkg := info.Uses[id].(*types.PkgName); isPkg {
						return globalOf(x.Sel)
					}
				}
			}

			return ""
		}
		ast.Inspect(fn.decl.Body, func(n ast.Node) bool {
			switch x := n.(type) {
			case *ast.AssignStmt:
				for i, l := range x.Lhs {
					// package-level variables: assigned, or written through (index / alias of a map, slice, pointer)
					if _, plain := l.(*ast.Ident); plain {
						if g := gtarget(l, true); g != "" && x.Tok != token.DEFINE {
							fn.gwrites[g] = true
						}
						if len(x.Rhs) == len(x.Lhs) {
							if rid, ok := p4Unparen(x.Rhs[i]).(*ast.Ident); ok {
								if g := globalOf(rid); g != "" {
									if obj := info.Defs[l.(*ast.Ident)]; obj != nil {
										switch obj.Type().Underlying().(type) {
										case *types.Map, *types.Slice, *types.Pointer:
											galias[obj] = g
										}
									}
								}
							}
						}
					} else if g := gtarget(l, false); g != "" {
						fn.gwrites[g] = true
					}
					if id, isIdent := l.(*ast.Ident); isIdent {
						// alias of a map / slice / pointer held in a frozen field: m := x.f
						if len(x.Rhs) == len(x.Lhs) {
							if sel, ok := p4Unparen(x.Rhs[i]).(*ast.SelectorExpr); ok {
								if lb := w.frozenLabel(info, sel); lb != "" {
									obj := info.Defs[id]
									if obj == nil {
										obj = info.Uses[id]
									}
									if obj != nil {
										switch info.TypeOf(sel).Underlying().(type) {
										case *types.Map, *types.Slice, *types.Pointer:
											alias[obj] = lb
										}
									}
								}
							}
						}

						continue
					}
					if lb := target(l); lb != "" {
						fn.writes[lb] = true
					}
				}
			case *ast.IncDecStmt:
				if g := gtarget(x.X, false); g != "" {
					fn.gwrites[g] = true
				}
				if _, isIdent := x.X.(*ast.Ident); !isIdent {
					if lb := target(x.X); lb != "" {
						fn.writes[lb] = true
					}
				}
			case *ast.UnaryExpr:
				if x.Op == token.AND {
					if sel, ok := p4Unparen(x.X).(*ast.SelectorExpr); ok {
						// &x.f handed to somebody: may be written through (not for sub-structs' methods)
						if lb := w.frozenLabel(info, sel); lb != "" {
							fn.writes[lb+"(&)"] = true
						}
					}
				}
			case *ast.CallExpr:
				switch f := p4Unparen(x.Fun).(type) {
				case *ast.Ident:
					if (f.Name == "delete" || f.Name == "clear") && len(x.Args) > 0 {
						if _, isBuiltin := info.Uses[f].(*types.Builtin); isBuiltin {
							if lb := target(x.Args[0]); lb != "" {
								fn.writes[lb] = true
							}
							if g := gtarget(x.Args[0], false); g != "" {
								fn.gwrites[g] = true
							}
						}
					}
					if p4BuildAPI[f.Name] {
						fn.apiCall[f.Name] = true
					}
				case *ast.SelectorExpr:
					if p4BuildAPI[f.Sel.Name] {
						fn.apiCall[f.Sel.Name] = true
					}
				}
			case *ast.CompositeLit:
				n := p4NamedOf(info.TypeOf(x))
				if n == nil {
					return true
				}
				tname, frozen := w.frozenT[n.Obj()]
				if !frozen {
					return true
				}
				st, _ := n.Underlying().(*types.Struct)
				for i, el := range x.Elts {
					var fv *types.Var
					if kv, ok := el.(*ast.KeyValueExpr); ok {
						if k, ok2 := kv.Key.(*ast.Ident); ok2 && st != nil {
							for j := 0; j < st.NumFields(); j++ {
								if st.Field(j).Name() == k.Name {
									fv = st.Field(j)
								}
							}
						}
					} else if st != nil && i < st.NumFields() {
						fv = st.Field(i)
					}
					if lb, ok := w.frozen[fv]; ok && fv != nil {
						fn.lits[lb] = true
					}
				}
				_ = tname
			}

			return true
		})
		// call graph: every reference to a module function; an interface method stands for every
		// method of that name declared in the module; a call of a function VALUE stands for every
		// module function of that signature that is used as a value somewhere (see below)
		ast.Inspect(fn.decl.Body, func(n ast.Node) bool {
			if c, isCall := n.(*ast.CallExpr); isCall {
				fun := p4Unparen(c.Fun)
				static := false
				switch f := fun.(type) {
				case *ast.Ident:
					_, isVar := info.Uses[f].(*types.Var)
					static = !isVar
				case *ast.SelectorExpr:
					_, isVar := info.Uses[f.Sel].(*types.Var)
					static = !isVar
				case *ast.FuncLit:
					static = true
				}
				if tv, ok := info.Types[c.Fun]; ok && !static && !tv.IsType() {
					if sig, isSig := tv.Type.Underlying().(*types.Signature); isSig {
						fn.dyn = append(fn.dyn, sig)
					}
				}

				return true
			}
			id, ok := n.(*ast.Ident)
			if !ok {
				return true
			}
			f, isFunc := info.Uses[id].(*types.Func)
			if !isFunc {
				return true
			}
			if g := w.funcOf[f.Origin()]; g != nil {
				fn.calls[g] = true

				return true
			}
			if sig, isSig := f.Type().(*types.Signature); isSig && sig.Recv() != nil {
				if _, isIface := sig.Recv().Type().Underlying().(*types.Interface); isIface {
					for _, g := range w.byName[f.Name()] {
						if g.decl.Recv != nil {
							fn.calls[g] = true
						}
					}
				}
			}

			return true
		})
	}
	w.markEscapes()
	for _, fn := range w.funcs {
		for _, sig := range fn.dyn {
			for _, g := range w.funcs {
				if g.escapes && g.obj != nil && types.Identical(sig, g.obj.Type()) {
					fn.calls[g] = true
				}
			}
		}
	}
	// q: reachable from an entry point (exported, not a constructor, not the build API; main and init)
	// without entering a constructor or the build API
	onQuery := map[*p4Func]bool{}
	var work []*p4Func
	for _, fn := range w.funcs {
		entry := (ast.IsExported(fn.short) || fn.short == "main") && !fn.isCtor && !p4BuildAPI[fn.short]
		if entry {
			onQuery[fn] = true
			work = append(work, fn)
		}
	}
	for len(work) > 0 {
		fn := work[len(work)-1]
		work = work[:len(work)-1]
		for g := range fn.calls {
			if !onQuery[g] && !g.isCtor && !p4BuildAPI[g.short] {
				onQuery[g] = true
				work = append(work, g)
			}
		}
	}
	// c: a constructor, or called at least once and only from c functions (least fixed point)
	callers := map[*p4Func][]*p4Func{}
	for _, fn := range w.funcs {
		for g := range fn.calls {
			callers[g] = append(callers[g], fn)
		}
	}
	ctor := map[*p4Func]bool{}
	for _, fn := range w.funcs {
		if fn.isCtor {
			ctor[fn] = true
		}
	}
	for changed := true; changed; {
		changed = false
		for _, fn := range w.funcs {
			if ctor[fn] || len(callers[fn]) == 0 {
				continue
			}
			allC := true
			for _, g := range callers[fn] {
				if g != fn && !ctor[g] {
					allC = false
				}
			}
			if allC {
				ctor[fn] = true
				changed = true
			}
		}
	}
	flag := func(b bool, t string) string {
		if b {
			return t
		}

		return "-"
	}
	written := map[string]bool{}
	for _, fn := range w.funcs {
		for kind, set := range map[string]map[string]bool{"asg": fn.writes, "lit": fn.lits} {
			for lb := range set {
				rows = append(rows, p4WriterRow{fn: fn.name, field: lb, kind: kind, query: flag(onQuery[fn], "q"), ctor: flag(ctor[fn], "c")})
				if ctor[fn] {
					owner := strings.TrimPrefix(lb, "?")
					if i := strings.IndexByte(owner, '.'); i >= 0 {
						written[owner[:i]] = true
					}
				}
			}
		}
		for g := range fn.gwrites {
			grows = append(grows, p4WriterRow{fn: fn.name, field: g, kind: "asg", query: flag(onQuery[fn], "q"), ctor: flag(ctor[fn], "c")})
		}
		if onQuery[fn] {
			for c := range fn.apiCall {
				rows = append(rows, p4WriterRow{fn: fn.name, field: "call:" + c, kind: "asg", query: "q", ctor: flag(ctor[fn], "c")})
			}
		}
	}
	for _, rs := range [][]p4WriterRow{rows, grows} {
		rs := rs
		sort.Slice(rs, func(i, j int) bool {
			if rs[i].fn != rs[j].fn {
				return rs[i].fn < rs[j].fn
			}
			if rs[i].field != rs[j].field {
				return rs[i].field < rs[j].field
			}

			return rs[i].kind < rs[j].kind
		})
	}

	return rows, grows, typesFound, fSortedKeys(written)
}

func p4FactsSection(p func(format string, a ...any)) {
	w := p4Load(fRepoDir())
	p("-- group P4 (C14): go/types over every package of the module")
	var pkgs []string
	for _, pk := range w.sortedPkgs() {
		pkgs = append(pkgs, pk.tpkg.Name()+":"+pk.rel)
	}
	p("def p4Packages : List String := %s", fLeanStrings(pkgs))
	p("def p4FakeImports : List String := %s", fLeanStrings(w.fakeList))
	var gf []string
	for _, lb := range w.guarded {
		gf = append(gf, lb)
	}
	sort.Strings(gf)
	p("def p4GuardedFound : List String := %s", fLeanStrings(gf))
	p("")
	sections, rows := w.lockFacts()
	p("-- critical sections: (function, lock, ordered accesses (field, r/w) on the locked object, callees inlined)")
	p("def p4Sections : List (String × String × List (String × String)) := [")
	for i, s := range sections {
		sep := ","
		if i == len(sections)-1 {
			sep = ""
		}
		accs := make([]string, len(s.acc))
		for j, a := range s.acc {
			accs[j] = fmt.Sprintf("(%q, %q)", a.label, a.rw)
		}
		p("  (%q, %q, [%s])%s", s.fn, s.tok, strings.Join(accs, ", "), sep)
	}
	p("]")
	p("")
	p("-- every access to a guarded field, through any expression: (function, field, r/w, locks held on that object)")
	p("def p4Accesses : List (String × String × String × List String) := [")
	for i, r := range rows {
		sep := ","
		if i == len(rows)-1 {
			sep = ""
		}
		var locks []string
		if r.lock != "" {
			locks = strings.Split(r.lock, "+")
		}
		p("  (%q, %q, %q, %s)%s", r.fn, r.label, r.rw, fLeanStrings(locks), sep)
	}
	p("]")
	p("")
	wrows, grows, typesFound, ctorWritten := w.writerFacts()
	p("-- writers of the fields of the frozen struct types, all packages:")
	p("-- (function, field, asg = assignment/append/delete/… | lit = composite literal of a fresh object, q/-, c/-)")
	p("def p4Writers : List (String × String × String × String × String) := [")
	for i, r := range wrows {
		sep := ","
		if i == len(wrows)-1 {
			sep = ""
		}
		p("  (%q, %q, %q, %q, %q)%s", r.fn, r.field, r.kind, r.query, r.ctor, sep)
	}
	p("]")
	p("-- writers of package-level variables of the module: (function, pkg.variable, q/-, c/-)")
	p("def p4GlobalWriters : List (String × String × String × String) := [")
	for i, r := range grows {
		sep := ","
		if i == len(grows)-1 {
			sep = ""
		}
		p("  (%q, %q, %q, %q)%s", r.fn, r.field, r.query, r.ctor, sep)
	}
	p("]")
	p("def p4FrozenTypes : List String := %s", fLeanStrings(typesFound))
	p("def p4CtorWrittenTypes : List String := %s", fLeanStrings(ctorWritten))
}

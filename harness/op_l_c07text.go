package main

// Integration group L -- C07 at TEXT level (Go-side asserts; the driver answers `T T`).
//
//	assert l.c07text <kind> <t> <t'> = T|F     t' = t with one more modifier appended (`t,m`, or `t$m`)
//
// T iff (t'.IsHigherPriority(t), t.IsHigherPriority(t')) is what the theorems of lean/UF/Props/C07Text.lean say:
//
//	(true,false)   important / badfilter / match-case / stealth-empty-mp4 not yet carried; third-party,
//	               first-party, ~match-case not yet carried; a permitted content type not yet listed on a rule
//	               WITHOUT document-only options; a restricted content type not yet listed; domain= / dnstype= /
//	               ctag= / client= / denyallow= on a rule without it; a document-only option on a rule that
//	               already has another one                                   (c07_text_option … c07_text_denyallow)
//	document-only option on a rule without one: higher / tie / LOWER for < 2 / = 2 / > 2 distinct permitted
//	               content types                                              (c07_text_doconly_iff)
//	(false,false)  a permitted content type on a document-only rule           (c07_text_content_type_doc_tie)
//	(false,false)  ,dnsrewrite=…                                              (decided example)
//
// Two lines in five come from op_p1_c07exact.go (group P1): `,document`, `,~extension`, a repeated modifier, a
// list-valued modifier written again, one more value in a list-valued modifier (theorems of Props/C07TextExact.lean).

import (
	"bufio"
	"fmt"

	"github.com/AdguardTeam/urlfilter/rules"
)

func init() { gens["l.c07text"] = genLC07Text }

func lHasKind(ms []lMod, kind string) bool {
	for _, m := range ms {
		if m.kind == kind {
			return true
		}
	}

	return false
}

func lHasOpt(ms []lMod, word string) bool {
	for _, m := range ms {
		if m.kind == "opt" && m.word == word {
			return true
		}
	}

	return false
}

var lDocOnlyWords = map[string]bool{"elemhide": true, "generichide": true, "genericblock": true, "jsinject": true,
	"urlblock": true, "content": true, "extension": true, "popup": true}

// bits `$document` sets
var lDocumentSets = map[string]bool{"elemhide": true, "jsinject": true, "urlblock": true, "content": true, "extension": true}

func lIsDocOnly(ms []lMod) bool {
	for _, m := range ms {
		if m.kind == "doc" || (m.kind == "opt" && lDocOnlyWords[m.word]) {
			return true
		}
	}

	return false
}

func lTypeSet(ms []lMod, neg bool) map[string]bool {
	out := map[string]bool{}
	for _, m := range ms {
		if m.kind == "ct" && m.neg == neg {
			out[m.word] = true
		}
	}

	return out
}

func genLC07Text(r *rng, n int, w *bufio.Writer) {
	r = eReseed(r)
	for i := 0; i < n; {
		if r.chance(2, 5) {
			// group P1: `document`, `~extension`, repeated modifiers, extra values (op_p1_c07exact.go;
			// expected answers per the theorems of lean/UF/Props/C07TextExact.lean)
			if p1C07Exact(r, w) {
				i++
			}

			continue
		}
		exc := r.chance(1, 2)
		pat := pick(r, lPoolPatterns)
		ms := lGenMods(r, exc)
		if r.chance(1, 3) {
			// aim at the document-only boundary: 0..4 permitted content types, nothing else
			ms = nil
			for _, c := range subset(r, lCTypes, 4) {
				ms = append(ms, lMod{kind: "ct", word: c, text: c})
			}
			if r.chance(1, 3) {
				ms = append(ms, lMod{kind: "domain", vals: lGenVals(r, lPoolDomains, true)})
			}
		}
		var m lMod
		var kind string
		var want [2]bool // (t' > t, t > t')
		raw := ""        // appended as raw text instead of a structured modifier
		higher := [2]bool{true, false}
		tie := [2]bool{false, false}
		switch r.n(14) {
		case 0:
			if lHasOpt(ms, "important") {
				continue
			}
			m, kind, want = lMod{kind: "opt", word: "important", text: "important"}, "important", higher
		case 1:
			o := pick(r, [][2]string{{"badfilter", "badfilter"}, {"matchCase", "match-case"}, {"empty", "empty"}, {"mp4", "mp4"}})
			if lHasOpt(ms, o[0]) {
				continue
			}
			m, kind, want = lMod{kind: "opt", word: o[0], text: o[1]}, "option", higher
		case 2:
			if lHasKind(ms, "tp") {
				continue
			}
			m, kind, want = lMod{kind: "tp", alt: r.chance(1, 2)}, "third-party", higher
		case 3:
			if lHasKind(ms, "fp") {
				continue
			}
			m, kind, want = lMod{kind: "fp", alt: r.chance(1, 2)}, "first-party", higher
		case 4:
			if lHasKind(ms, "nmc") {
				continue
			}
			m, kind, want = lMod{kind: "nmc"}, "~match-case", higher
		case 5, 6:
			c := pick(r, lCTypes)
			if lTypeSet(ms, false)[c] {
				continue
			}
			m = lMod{kind: "ct", word: c, text: c}
			if lIsDocOnly(ms) {
				kind, want = "type-on-doconly", tie
			} else {
				kind, want = "type", higher
			}
		case 7:
			c := pick(r, lCTypes)
			if lTypeSet(ms, true)[c] {
				continue
			}
			m, kind, want = lMod{kind: "ct", word: c, text: c, neg: true}, "~type", higher
		case 8, 12:
			k := pick(r, []string{"domain", "dnstype", "ctag", "client", "denyallow"})
			if lHasKind(ms, k) {
				continue
			}
			pool := map[string][]string{"domain": lPoolDomains, "dnstype": lPoolDNS, "ctag": lPoolTags,
				"client": lPoolClients, "denyallow": lPoolDomains[:4]}[k]
			m, kind, want = lMod{kind: k, vals: lGenVals(r, pool, k != "denyallow")}, k, higher
		case 9, 10, 11:
			// a document-only option
			var o [2]string
			if exc {
				o = lOpts[3+r.n(7)]
			} else {
				o = lOpts[10] // popup
			}
			if lHasOpt(ms, o[0]) || (lHasKind(ms, "doc") && lDocumentSets[o[0]]) {
				continue
			}
			m = lMod{kind: "opt", word: o[0], text: o[1]}
			if lIsDocOnly(ms) {
				kind, want = "doconly-on-doconly", higher
			} else {
				k := len(lTypeSet(ms, false))
				kind = fmt.Sprintf("doconly-on-%d-types", k)
				want = [2]bool{k < 2, k > 2}
			}
		default:
			raw, kind, want = "dnsrewrite="+pick(r, []string{"1.2.3.4", "NXDOMAIN", "new.example.net", "NOERROR;TXT;hi"}), "dnsrewrite", tie
		}
		t := lRender(exc, pat, ms)
		var t2 string
		if raw != "" {
			if len(ms) == 0 {
				t2 = t + "$" + raw
			} else {
				t2 = t + "," + raw
			}
		} else {
			t2 = lRender(exc, pat, append(append([]lMod{}, ms...), m))
		}
		f, err := guardRule(t, 1)
		f2, err2 := guardRule(t2, 2)
		if err != nil || err2 != nil || f == nil || f2 == nil {
			continue
		}
		got := [2]bool{f2.IsHigherPriority(f), f.IsHigherPriority(f2)}
		fmt.Fprintf(w, "assert l.c07text %s %s %s = %s ## %s: %s  ->  %s  got=%v want=%v\n", wb(kind), wb(t), wb(t2),
			wbool(got == want), kind, noteStr(t), noteStr(t2), got, want)
		i++
	}
	_ = rules.TypeDocument
}

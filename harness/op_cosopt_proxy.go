package main

// op family `cosoptproxy` (C16, "proxy filters HTML only when the option is not None"): the REAL proxy
// server on the loopback interface in front of a local origin; an HTML page per subset of the exception
// modifiers; fetched with a browser-like Accept header (classified as a document when the request
// headers arrive) and with "Accept: */*" (classified only when the response Content-Type is seen).
// The cosmetic option is read back from the injected content-script tag (no tag = nothing enabled).
// Lines reuse the `cosopt` op:  cosopt <R> (<modifier names>) = <option>:<flags>
// If the loopback proxy cannot be started in this environment the family emits nothing.

import (
	"bufio"
	"fmt"
	"io"
	"net"
	"net/http"
	"net/http/httptest"
	"net/url"
	"os"
	"path/filepath"
	"regexp"
	"strconv"
	"strings"
	"time"

	"github.com/AdguardTeam/golibs/log"
	"github.com/AdguardTeam/gomitmproxy"
	"github.com/AdguardTeam/urlfilter/proxy"
	"github.com/AdguardTeam/urlfilter/rules"
)

func init() { gens["cosoptproxy"] = genCosoptProxy }

func genCosoptProxy(r *rng, _ int, w *bufio.Writer) {
	log.SetOutput(io.Discard)
	const page = "<html><head><title>t</title></head><body><div class=\"banner\">ad</div></body></html>"
	origin := httptest.NewServer(http.HandlerFunc(func(rw http.ResponseWriter, _ *http.Request) {
		rw.Header().Set("Content-Type", "text/html; charset=utf-8")
		_, _ = io.WriteString(rw, page)
	}))
	defer origin.Close()
	// address the origin by NAME ("localhost"): an IP literal is not a valid domain of a cosmetic rule
	originURL, err := url.Parse(strings.Replace(origin.URL, "127.0.0.1", "localhost", 1))
	if err != nil {
		fmt.Fprintln(os.Stderr, "cosoptproxy: skipped:", err)

		return
	}

	mods := []string{"elemhide", "generichide", "jsinject", "urlblock", "important"}
	type pageCase struct {
		path  string
		names []string
		text  string
	}
	var cases []pageCase
	var filter strings.Builder
	filter.WriteString("##.vfgeneric456\n" + originURL.Hostname() + "##.vfspecific123\n")
	for mask := 1; mask < 1<<len(mods); mask++ {
		var names []string
		for i, m := range mods {
			if mask&(1<<i) != 0 {
				names = append(names, m)
			}
		}
		shuffle(r, names)
		c := pageCase{path: fmt.Sprintf("/page-%d", mask), names: names}
		c.text = fmt.Sprintf("@@||%s%s|$%s", originURL.Host, c.path, strings.Join(names, ","))
		filter.WriteString(c.text + "\n")
		cases = append(cases, c)
	}
	dir, err := os.MkdirTemp("", "verif-c16proxy")
	if err != nil {
		fmt.Fprintln(os.Stderr, "cosoptproxy: skipped:", err)

		return
	}
	defer os.RemoveAll(dir)
	filterPath := filepath.Join(dir, "filter.txt")
	if err = os.WriteFile(filterPath, []byte(filter.String()), 0o600); err != nil {
		return
	}
	srv, err := proxy.NewServer(proxy.Config{
		ProxyConfig:  gomitmproxy.Config{ListenAddr: &net.TCPAddr{IP: net.IPv4(127, 0, 0, 1), Port: 0}},
		FiltersPaths: map[int]string{1: filterPath},
	})
	if err != nil {
		fmt.Fprintln(os.Stderr, "cosoptproxy: skipped:", err)

		return
	}
	if err = srv.Start(); err != nil {
		fmt.Fprintln(os.Stderr, "cosoptproxy: skipped:", err)

		return
	}
	defer srv.Close()
	client := &http.Client{
		Transport: &http.Transport{Proxy: http.ProxyURL(&url.URL{Scheme: "http", Host: srv.VerifAddr().String()}), DisableKeepAlives: true},
		Timeout:   10 * time.Second,
	}
	reOption := regexp.MustCompile(`content-script\.js\?[^"]*option=(\d+)`)
	reSrc := regexp.MustCompile(`<script src="(//[^"]*content-script\.js\?[^"]*)"`)
	for _, c := range cases {
		f, perr := rules.NewNetworkRule(c.text, 1)
		if perr != nil {
			continue
		}
		for _, accept := range []string{"text/html,application/xhtml+xml", "*/*"} {
			req, rerr := http.NewRequest(http.MethodGet, originURL.String()+c.path, nil)
			if rerr != nil {
				continue
			}
			req.Header.Set("Accept", accept)
			resp, derr := client.Do(req)
			if derr != nil {
				fmt.Fprintln(os.Stderr, "cosoptproxy: request failed, family skipped:", derr)

				return
			}
			body, _ := io.ReadAll(resp.Body)
			_ = resp.Body.Close()
			got := rules.CosmeticOptionNone // no injected tag at all = nothing is enabled
			if m := reOption.FindSubmatch(body); m != nil {
				n, _ := strconv.ParseUint(string(m[1]), 10, 32)
				got = rules.CosmeticOption(n)
			}
			fmt.Fprintf(w, "cosopt %s (%s) = %d:%s ## through the real proxy (Accept: %s): %s\n", wnetrule(f), strings.Join(c.names, " "),
				uint32(got), cosFlags(got), accept, c.text)
			// the content script the tag points to, fetched through the same proxy instance: its element-hiding CSS
			// must be what the option says (pages of ONE hostname get different options here)
			if m := reSrc.FindSubmatch(body); m != nil {
				sreq, serr := http.NewRequest(http.MethodGet, "http:"+strings.ReplaceAll(string(m[1]), "&amp;", "&"), nil)
				if serr == nil {
					if sresp, derr2 := client.Do(sreq); derr2 == nil {
						script, _ := io.ReadAll(sresp.Body)
						_ = sresp.Body.Close()
						hasSpecific := strings.Contains(string(script), ".vfspecific123")
						hasGeneric := strings.Contains(string(script), ".vfgeneric456")
						wantSpecific := got&rules.CosmeticOptionCSS != 0
						wantGeneric := wantSpecific && got&rules.CosmeticOptionGenericCSS != 0
						if os.Getenv("VERIF_DEBUG_SCRIPT") != "" && hasSpecific != wantSpecific {
							fmt.Fprintf(os.Stderr, "URL %s\nSCRIPT %q\n", sreq.URL, script)
						}
						ok := hasSpecific == wantSpecific && hasGeneric == wantGeneric
						fmt.Fprintf(w, "assert c16.script %d = %s ## content script for option %d of %s: specific CSS %v (want %v), generic CSS %v (want %v)\n",
							uint32(got), wbool(ok), uint32(got), c.text, hasSpecific, wantSpecific, hasGeneric, wantGeneric)
					}
				}
			}
		}
	}
}

package main

// Group R4, C20.
//
// 1. gzip bodies made of SEVERAL gzip members (RFC 1952 section 2.2; `cat a.gz b.gz`, pigz, servers stitching
//    pre-compressed fragments): `gzMembers` cuts a body into 2..5 pieces -- at random places, at byte 0 / at the end /
//    twice at one place (empty members), right before, inside and right after the first marker, around the end of the
//    16 KiB window -- and compresses every piece on its own (random level, random optional header fields).  The
//    decompressed reference is the concatenation of the pieces = the body, which is what compress/gzip gives by default
//    and what the `c20.html` op hands to the model.  Used by c20html (op_c20.go) and c20htmlnet (op_c20_net.go).
//
// 2. family `c20html.huge`: Go-only `assert c20.huge` ops on bodies of 1 .. 40 MiB (the Lean driver would have to read
//    them as hex), plain and gzip (stored, Huffman-only or fast: the WIRE size of a stored stream is the body size).
//    Every run has one plain and one gzip body of the top octave (24 .. 40 MiB), the others are drawn log-scale from the
//    whole range.  The expected output is computed by `c20FirstMarker`, a direct transcription of Spec/Html.lean
//    (specFind): out = body[:i] ++ tag ++ body[i:] for the first marker whose START is among the first 16384 bytes, the
//    body itself otherwise; ContentLength = len(out); Content-Encoding removed; CSP headers removed iff injected.

import (
	"bufio"
	"bytes"
	"compress/gzip"
	"fmt"
	"math"
	"net/http"
	"sort"
	"strings"
	"time"

	"github.com/AdguardTeam/urlfilter/proxy"
)

func init() { gens["c20html.huge"] = genC20HtmlHuge }

// c20FirstMarker transcribes Spec/Html.lean `specFind`: the first i < min(window, len(body)) at which the body continues
// with one of the four markers, letters compared ASCII-case-insensitively; -1 if there is none.
func c20FirstMarker(body []byte, window int) int {
	for i := 0; i < len(body) && i < window; i++ {
		if body[i] != '<' {
			continue
		}
		for _, m := range c20Markers {
			if i+len(m) > len(body) {
				continue
			}
			ok := true
			for k := 0; k < len(m); k++ {
				c := body[i+k]
				if 'A' <= c && c <= 'Z' {
					c += 32
				}
				if c != m[k] {
					ok = false

					break
				}
			}
			if ok {
				return i
			}
		}
	}

	return -1
}

// gzMember compresses one piece as a gzip member of its own.
func gzMember(r *rng, piece []byte) []byte {
	var buf bytes.Buffer
	level := pick(r, []int{gzip.DefaultCompression, gzip.DefaultCompression, gzip.BestSpeed, gzip.BestCompression, gzip.NoCompression, gzip.HuffmanOnly})
	zw, err := gzip.NewWriterLevel(&buf, level)
	if err != nil {
		panic(err)
	}
	if r.chance(1, 4) {
		zw.Name = pick(r, []string{"index.html", "part", "a b.htm"})
	}
	if r.chance(1, 6) {
		zw.Comment = "fragment </head <script"
	}
	if r.chance(1, 6) {
		zw.Extra = []byte{'A', 'p', 4, 0, 1, 2, 3, 4}
	}
	if r.chance(1, 4) {
		zw.ModTime = time.Unix(1700000000+int64(r.n(1000)), 0)
	}
	if r.chance(1, 3) {
		// the piece written in two goes (a Flush in between ends a deflate block inside the member)
		h := r.n(len(piece) + 1)
		_, _ = zw.Write(piece[:h])
		_ = zw.Flush()
		_, _ = zw.Write(piece[h:])
	} else {
		_, _ = zw.Write(piece)
	}
	_ = zw.Close()

	return buf.Bytes()
}

// gzMembers compresses body as a gzip stream of 2..5 members; sizes are the compressed sizes of the members.
func gzMembers(r *rng, body []byte, window int) (stream []byte, sizes []int, desc string) {
	first := c20FirstMarker(body, window)
	k := 1 + r.n(4)
	cuts := make([]int, k)
	for j := range cuts {
		c := r.n(len(body) + 1)
		switch r.n(10) {
		case 0:
			c = 0
		case 1:
			c = len(body)
		case 2, 3:
			// right before / inside / right after the first marker
			if first >= 0 {
				c = first - 2 + r.n(12)
			}
		case 4:
			// somewhere before the first marker: the marker is in a later member
			if first > 0 {
				c = r.n(first + 1)
			}
		case 5:
			c = window - 3 + r.n(7)
		}
		if c < 0 {
			c = 0
		}
		if c > len(body) {
			c = len(body)
		}
		cuts[j] = c
	}
	if k >= 2 && r.chance(1, 4) {
		// an empty member in the middle
		cuts[1] = cuts[0]
	}
	sort.Ints(cuts)
	var sb strings.Builder
	prev := 0
	markerIn := -1
	for j := 0; j <= k; j++ {
		end := len(body)
		if j < k {
			end = cuts[j]
		}
		mem := gzMember(r, body[prev:end])
		stream = append(stream, mem...)
		sizes = append(sizes, len(mem))
		if first >= prev && first < end && markerIn < 0 {
			markerIn = j + 1
		}
		if j > 0 {
			sb.WriteByte('+')
		}
		fmt.Fprintf(&sb, "%d", end-prev)
		prev = end
	}
	where := "no marker in the window"
	if first >= 0 {
		where = fmt.Sprintf("first marker at %d", first)
		if markerIn > 0 {
			where += fmt.Sprintf(" starts in member %d", markerIn)
		}
	}

	return stream, sizes, fmt.Sprintf("%d gzip members of %s plain bytes (%s)", k+1, sb.String(), where)
}

// r4Fill fills b from a splitmix stream of its own (8 bytes per step).  No '<' except in mode 3.
func r4Fill(b []byte, seed uint64, mode int) {
	fr := &rng{s: seed}
	const text = "abcdefghijklmnopqrstuvwxyz (>/=\"\n\t!-HTMLDOCTYPE bodydivspan&;"
	const page = "<div class=\"row\"><span>item</span></div>\n"
	var x uint64
	for i := range b {
		if i%8 == 0 {
			x = fr.u64()
		}
		c := byte(x >> (8 * uint(i%8)))
		switch mode {
		case 0: // all byte values
		case 1: // text
			c = text[int(c)%len(text)]
		case 2: // mostly text, one high byte in eight
			if i%8 != 0 {
				c = text[int(c)%len(text)]
			} else {
				c |= 0x80
			}
		default: // a repetitive page with tags that are not markers
			c = page[i%len(page)]
		}
		if c == '<' && mode != 3 {
			c = '('
		}
		b[i] = c
	}
}

func r4LogSize(r *rng, lo, hi int) int {
	f := float64(r.n(1<<20)) / float64(1<<20)

	return int(float64(lo) * math.Exp(f*math.Log(float64(hi)/float64(lo))))
}

func genC20HtmlHuge(r *rng, n int, w *bufio.Writer) {
	r = eReseed(r)
	const MiB = 1 << 20
	window := proxy.VerifHeadBufferSize
	for i := 0; i < n; i++ {
		var size int
		var useGz bool
		switch i % 3 {
		case 0: // top octave, plain
			size, useGz = r4LogSize(r, 24*MiB, 40*MiB), false
		case 1: // top octave, gzip
			size, useGz = r4LogSize(r, 24*MiB, 40*MiB), true
		default:
			size, useGz = r4LogSize(r, 1*MiB, 40*MiB), r.chance(1, 2)
		}
		switch r.n(6) {
		case 0: // just above / at / just below a power of two
			p := 1 << (20 + r.n(6))
			if p > 32*MiB {
				p = 32 * MiB
			}
			if i%3 != 2 {
				p = 32 * MiB
			}
			size = p - 2 + r.n(5)
		case 1:
			size |= 1
		}
		mode := pick(r, []int{0, 1, 1, 2, 3})
		fillSeed := r.u64()
		m := randCase(r, pick(r, c20Markers))
		pos := -1
		place := ""
		switch r.n(7) {
		case 0:
			place = "no marker"
		case 1:
			pos, place = window+r.n(size-window-16), "marker beyond the window only"
		case 2:
			pos, place = window-len(m)-1+r.n(3), "marker at the end of the window"
		case 3:
			pos, place = 0, "marker at byte 0"
		default:
			pos, place = r.n(window-16), "marker inside the window"
		}
		later := r.n(4) // further markers anywhere in the body (only the first one in the window counts)
		laterAt := make([]int, later)
		for k := range laterAt {
			laterAt[k] = window + r.n(size-window-16)
		}
		level := pick(r, []int{gzip.NoCompression, gzip.BestSpeed, gzip.HuffmanOnly})
		host := pick(r, []string{"example.org", "a.b.example.com", "localhost"})

		body := make([]byte, size)
		r4Fill(body, fillSeed, mode)
		if pos >= 0 {
			copy(body[pos:], m+">")
		}
		for _, at := range laterAt {
			copy(body[at:], "</HEAD><Script>")
		}
		want := c20FirstMarker(body, window)
		in := body
		enc := "plain"
		h := http.Header{}
		h.Set("Content-Type", "text/html")
		h.Set("Content-Security-Policy", "default-src 'self'")
		h.Set("Content-Security-Policy-Report-Only", "default-src 'self'")
		if useGz {
			var buf bytes.Buffer
			buf.Grow(size/2 + 1024)
			zw, _ := gzip.NewWriterLevel(&buf, level)
			_, _ = zw.Write(body)
			_ = zw.Close()
			in = buf.Bytes()
			enc = fmt.Sprintf("gzip(level %d)", level)
			h.Set("Content-Encoding", "gzip")
		}
		detail := ""
		ans := guardStr(func() string {
			out, oh, cl, tag, err := proxy.VerifFilterHTML(in, h, host)
			if err != nil {
				detail = "filterHTML returned the error: " + err.Error()

				return "F"
			}
			wantLen := size
			if want >= 0 {
				wantLen += len(tag)
			}
			switch {
			case len(out) != wantLen:
				detail = fmt.Sprintf("new body has %d bytes, want %d (= %d original bytes + %d tag bytes)", len(out), wantLen, size, wantLen-size)
			case want < 0 && !bytes.Equal(out, body):
				detail = fmt.Sprintf("new body differs from the body at byte %d", r4FirstDiff(out, body))
			case want >= 0 && !bytes.Equal(out[:want], body[:want]):
				detail = fmt.Sprintf("new body differs from the body at byte %d (before the marker at %d)", r4FirstDiff(out[:want], body[:want]), want)
			case want >= 0 && string(out[want:want+len(tag)]) != tag:
				detail = fmt.Sprintf("no tag at %d: %q", want, trunc(string(out[want:want+len(tag)]), 80))
			case want >= 0 && !bytes.Equal(out[want+len(tag):], body[want:]):
				detail = fmt.Sprintf("after the tag the new body differs from the body at original byte %d", want+r4FirstDiff(out[want+len(tag):], body[want:]))
			}
			if detail == "" && cl != int64(len(out)) {
				detail = fmt.Sprintf("ContentLength %d, new body has %d bytes", cl, len(out))
			}
			if _, ce := oh["Content-Encoding"]; detail == "" && ce {
				detail = "Content-Encoding still present"
			}
			_, c1 := oh["Content-Security-Policy"]
			_, c2 := oh["Content-Security-Policy-Report-Only"]
			if detail == "" && (c1 != (want < 0) || c2 != (want < 0)) {
				detail = fmt.Sprintf("CSP headers present=%v/%v, tag injected=%v", c1, c2, want >= 0)
			}
			if detail != "" {
				return "F"
			}

			return "T"
		})
		if ans != "T" && ans != "F" {
			detail = ans
			ans = "F"
		}
		if detail != "" {
			detail = " -- " + detail
		}
		fmt.Fprintf(w, "assert c20.huge %d %s %d %d %s %d %s = %s ## body of %d bytes (%.1f MiB, %s, %d bytes on the wire) = r4Fill(seed %d, mode %d) with %q> written at %d (%s) and \"</HEAD><Script>\" at %v; first marker in the window: %d; the new body must be body[:i]+tag+body[i:] (or the body), ContentLength its length, no Content-Encoding%s\n",
			size, wb(enc), fillSeed, mode, wb(m), pos, wb(fmt.Sprint(laterAt)), ans,
			size, float64(size)/MiB, enc, len(in), fillSeed, mode, m, pos, place, laterAt, want, detail)
	}
}

func r4FirstDiff(a, b []byte) int {
	n := len(a)
	if len(b) < n {
		n = len(b)
	}
	for i := 0; i < n; i++ {
		if a[i] != b[i] {
			return i
		}
	}

	return n
}

package main

// Generators of work group N2: SIZES / COUNTS above the small constants a
// maintainer might hard-code, and TWINS that differ in exactly one component.
//
//	n2LogSize, n2Above, n2Count     log-scale size draws, "just above a landmark" draws
//	n2GenRewrite, n2MutRewrite      structured $dnsrewrite values and their one-component variants
//	n2GenListValue, n2MutListValue  `|`-separated modifier values ($domain, $denyallow, $dnstype, $ctag, $client) and
//	                                their one-item variants (sibling item, one `~` toggled, one item more / less)
//
// Everything is a deterministic function of the rng.

import (
	"fmt"
	"strconv"
	"strings"
)

// n2Landmarks are the "small constants" a size-dependent bug might hide behind.
var n2Landmarks = []int{3, 4, 8, 16, 32, 40, 64, 100, 255, 256, 300, 512, 1000, 1024, 4096, 8192, 16384, 65535, 65536, 262144, 1 << 20}

// n2LogSize draws an integer in [lo, hi], uniform on a log scale.
func n2LogSize(r *rng, lo, hi int) int {
	if lo < 1 {
		lo = 1
	}
	if hi <= lo {
		return lo
	}
	steps := 0
	for v := lo; v < hi; v *= 2 {
		steps++
	}
	e := r.n(steps)
	base := lo << uint(e)
	v := base + r.n(base)
	if v > hi {
		v = hi - r.n(hi/8+1)
	}
	if v < lo {
		v = lo
	}

	return v
}

// n2Above draws a value a little above (or exactly at, or one below) one of the
// landmarks in [lo, hi]; if there is none, a log-scale value.
func n2Above(r *rng, lo, hi int) int {
	var cands []int
	for _, l := range n2Landmarks {
		if l >= lo && l < hi {
			cands = append(cands, l)
		}
	}
	if len(cands) == 0 {
		return n2LogSize(r, lo, hi)
	}
	l := pick(r, cands)
	var v int
	switch r.n(6) {
	case 0:
		v = l
	case 1:
		v = l - 1
	case 2:
		v = l + 1
	default:
		v = l + 1 + r.n(l/4+2)
	}
	if v > hi {
		v = hi
	}
	if v < lo {
		v = lo
	}

	return v
}

// n2Count: a count that is `small()` most of the time and, once in `den`
// draws, a value well above the usual small constants (log-scale or just above a
// landmark), at most hi.
func n2Count(r *rng, den int, small func() int, lo, hi int) int {
	if r.chance(1, den) {
		if r.chance(1, 2) {
			return n2Above(r, lo, hi)
		}

		return n2LogSize(r, lo, hi)
	}

	return small()
}

var n2U16Pool = []int{0, 1, 2, 3, 4, 5, 8, 10, 16, 20, 32, 40, 64, 80, 100, 255, 256, 300, 443, 1024, 4096, 8080, 8443, 32768, 65535}

func n2U16(r *rng) string {
	if r.chance(1, 6) {
		return fmt.Sprint(r.n(65536))
	}

	return fmt.Sprint(pick(r, n2U16Pool))
}

// ---- $dnsrewrite values ----------------------------------------------------------------------------------------

var (
	n2RwHosts = []string{"new.e.org", "New.E.org", "NEW.E.ORG", "new.e.orG", "other.e.org", "m.e.org", "M.e.org", "s.e.org", "mail.example.net",
		"a-b.e.org", "x1.new.e.org", "new", "e.org", "xn--e1afmkfd.net"}
	n2RwV4     = []string{"1.2.3.4", "1.2.3.5", "1.2.4.4", "2.2.3.4", "0.0.0.0", "127.0.0.1", "10.0.0.1", "255.255.255.255"}
	n2RwV6     = []string{"::1", "::2", "::", "2001:db8::1", "2001:db8::2", "2001:db9::1", "fe80::1", "::ffff:1.2.3.4"}
	n2RwCodes  = []string{"NXDOMAIN", "REFUSED", "SERVFAIL", "NOERROR"}
	n2RwTxt    = []string{"hello", "Hello", "hello  world", "hello world", "v=spf1;include-a", "v=spf1;include-b", "v=spf1 include-a", "new.e.org", "1.2.3.4", "a=b", "", ";", "x;y;z"}
	n2RwKeys   = []string{"alpn", "port", "ipv4hint", "ipv6hint", "ech", "mandatory", "no-default-alpn", "key65000", "Alpn"}
	n2RwVals   = []string{"h3", "h2", "H3", "h2,h3", "443", "8443", "1.2.3.4", "::1", "", "alpn", "AAEC"}
	n2RwNoHand = []string{"NS", "SOA", "CAA", "NAPTR", "DS", "DNAME", "ANY", "SPF", "TLSA", "LOC", "Null", "ns"}
)

func n2RwParam(r *rng) string {
	v := pick(r, n2RwVals)
	if strings.Contains(v, ",") {
		// a comma would end the modifier: written escaped, the option splitter removes the backslash
		v = strings.ReplaceAll(v, ",", `\,`)
	}

	return pick(r, n2RwKeys) + "=" + v
}

func n2RwTarget(r *rng) string {
	if r.chance(1, 4) {
		return "."
	}

	return pick(r, n2RwHosts)
}

func n2RwNoerror(r *rng) string {
	return pick(r, []string{"NOERROR", "NOERROR", "NOERROR", "noerror", "NoError"})
}

// n2GenRewrite returns the text of a $dnsrewrite value (without `dnsrewrite=`):
// every published shape, numeric fields from a pool that contains values above
// 255 / 4096 / 32767, hosts that differ in letter case only, SVCB values with
// 0..5 parameters.
func n2GenRewrite(r *rng) string {
	switch r.n(16) {
	case 0:
		return pick(r, n2RwV4)
	case 1:
		return pick(r, n2RwV6)
	case 2, 3:
		return pick(r, n2RwHosts)
	case 4:
		return pick(r, n2RwCodes)
	case 5:
		return pick(r, []string{"NXDOMAIN;;", "REFUSED;;", "SERVFAIL;;", "NOERROR;;", "nxdomain;;", "REFUSED;A;1.2.3.4", "NXDOMAIN;TXT;hello"})
	case 6:
		return n2RwNoerror(r) + ";" + pick(r, []string{"A", "a"}) + ";" + pick(r, n2RwV4)
	case 7:
		return n2RwNoerror(r) + ";" + pick(r, []string{"AAAA", "aaaa"}) + ";" + pick(r, n2RwV6)
	case 8:
		return n2RwNoerror(r) + ";" + pick(r, []string{"CNAME", "cname"}) + ";" + pick(r, n2RwHosts)
	case 9:
		return n2RwNoerror(r) + ";TXT;" + pick(r, n2RwTxt)
	case 10:
		h := pick(r, n2RwHosts)
		if r.chance(1, 2) {
			h += "."
		}

		return n2RwNoerror(r) + ";PTR;" + h
	case 11:
		return n2RwNoerror(r) + ";" + pick(r, []string{"MX", "mx"}) + ";" + n2U16(r) + " " + pick(r, n2RwHosts)
	case 12:
		return n2RwNoerror(r) + ";" + pick(r, []string{"SRV", "srv"}) + ";" + n2U16(r) + " " + n2U16(r) + " " + n2U16(r) + " " + n2RwTarget(r)
	case 13, 14:
		k := 0
		if r.chance(2, 3) {
			k = 1 + r.n(3)
			if r.chance(1, 8) {
				k = 4 + r.n(6)
			}
		}
		parts := []string{n2U16(r), n2RwTarget(r)}
		for i := 0; i < k; i++ {
			parts = append(parts, n2RwParam(r))
		}

		return n2RwNoerror(r) + ";" + pick(r, []string{"HTTPS", "SVCB", "HTTPS", "https"}) + ";" + strings.Join(parts, " ")
	default:
		return n2RwNoerror(r) + ";" + pick(r, n2RwNoHand) + ";" + pick(r, []string{"", "x", "ns1.e.org", "ns2.e.org", "0 issue ca.e.org"})
	}
}

// n2GenRewriteStructured: only the shapes whose value has several components (MX, SRV, HTTPS / SVCB with parameters).
func n2GenRewriteStructured(r *rng) string {
	switch r.n(4) {
	case 0:
		return n2RwNoerror(r) + ";MX;" + n2U16(r) + " " + pick(r, n2RwHosts)
	case 1:
		return n2RwNoerror(r) + ";SRV;" + n2U16(r) + " " + n2U16(r) + " " + n2U16(r) + " " + n2RwTarget(r)
	default:
		parts := []string{n2U16(r), n2RwTarget(r)}
		for i := r.n(4); i > 0; i-- {
			parts = append(parts, n2RwParam(r))
		}

		return n2RwNoerror(r) + ";" + pick(r, []string{"HTTPS", "SVCB"}) + ";" + strings.Join(parts, " ")
	}
}

func n2IsUint(s string) bool {
	if s == "" {
		return false
	}
	for i := 0; i < len(s); i++ {
		if s[i] < '0' || s[i] > '9' {
			return false
		}
	}

	return true
}

// n2FlipCase changes the case of exactly one letter of s (s unchanged if it has none).
func n2FlipCase(r *rng, s string) string {
	var pos []int
	for i := 0; i < len(s); i++ {
		if mIsLetter(s[i]) {
			pos = append(pos, i)
		}
	}
	if len(pos) == 0 {
		return s
	}
	b := []byte(s)
	b[pick(r, pos)] ^= 0x20

	return string(b)
}

// n2MutToken returns a sibling of one value token: another number, an address
// differing in one group, a host differing in one letter's case or one label.
func n2MutToken(r *rng, tok string) string {
	switch {
	case n2IsUint(tok):
		n, _ := strconv.Atoi(tok)
		switch r.n(4) {
		case 0:
			return fmt.Sprint((n + 1) % 65536)
		case 1:
			return fmt.Sprint((n + 256) % 65536)
		default:
			return n2U16(r)
		}
	case tok == ".":
		return pick(r, n2RwHosts)
	case strings.Contains(tok, "=") && !strings.HasPrefix(tok, "="):
		i := strings.IndexByte(tok, '=')
		switch r.n(4) {
		case 0:
			return pick(r, n2RwKeys) + tok[i:]
		case 1:
			return tok[:i+1] + n2FlipCase(r, tok[i+1:])
		default:
			return tok[:i+1] + strings.ReplaceAll(pick(r, n2RwVals), ",", `\,`)
		}
	case strings.Contains(tok, ":") && !strings.ContainsAny(tok, "ghijklmnopqrstuvwxyz"):
		return pick(r, n2RwV6)
	case strings.Count(tok, ".") == 3 && n2IsUint(strings.ReplaceAll(tok, ".", "")):
		parts := strings.Split(tok, ".")
		i := r.n(4)
		n, _ := strconv.Atoi(parts[i])
		parts[i] = fmt.Sprint((n + 1 + r.n(3)) % 256)

		return strings.Join(parts, ".")
	default:
		switch r.n(5) {
		case 0, 1:
			return n2FlipCase(r, tok)
		case 2:
			if strings.HasSuffix(tok, ".") {
				return tok[:len(tok)-1]
			}

			return "x" + tok
		case 3:
			return strings.ToUpper(tok)
		default:
			return pick(r, n2RwHosts)
		}
	}
}

// n2MutRewrite returns a $dnsrewrite value that differs from v in ONE
// component (one number, one host letter, one parameter, the record type, the
// rcode spelling), or -- when v has no components -- a fresh value.  The result
// may be invalid or may parse to the same record (e.g. another spelling of the
// rcode): callers validate.
func n2MutRewrite(r *rng, v string) string {
	parts := strings.SplitN(v, ";", 3)
	if len(parts) != 3 {
		// short form: keyword, address or host
		switch {
		case v == "":
			return n2GenRewrite(r)
		case allUpperASCII(v):
			return pick(r, n2RwCodes)
		default:
			if r.chance(1, 6) {
				// the same value in the long form
				switch {
				case strings.Contains(v, ":"):
					return "NOERROR;AAAA;" + v
				case strings.Count(v, ".") == 3 && n2IsUint(strings.ReplaceAll(v, ".", "")):
					return "NOERROR;A;" + v
				default:
					return "NOERROR;CNAME;" + v
				}
			}

			return n2MutToken(r, v)
		}
	}
	rcode, rr, val := parts[0], parts[1], parts[2]
	switch r.n(10) {
	case 0:
		return n2FlipCase(r, rcode) + ";" + rr + ";" + val
	case 1:
		if rr == "" {
			return rcode + ";A;1.2.3.4"
		}
		sib := map[string]string{"HTTPS": "SVCB", "SVCB": "HTTPS", "A": "TXT", "AAAA": "TXT", "TXT": "SPF", "CNAME": "TXT", "MX": "TXT", "PTR": "TXT", "SRV": "TXT", "NS": "SOA"}
		if s, ok := sib[strings.ToUpper(rr)]; ok {
			return rcode + ";" + s + ";" + val
		}

		return rcode + ";" + n2FlipCase(r, rr) + ";" + val
	}
	up := strings.ToUpper(rr)
	if up == "TXT" || val == "" {
		return rcode + ";" + rr + ";" + pick(r, n2RwTxt)
	}
	toks := strings.Split(val, " ")
	if (up == "HTTPS" || up == "SVCB") && len(toks) >= 2 && r.chance(1, 3) {
		// one parameter more / less, or two parameters swapped (same map)
		switch {
		case len(toks) > 2 && r.chance(1, 2):
			i := 2 + r.n(len(toks)-2)
			toks = append(toks[:i:i], toks[i+1:]...)
		case len(toks) > 3 && r.chance(1, 2):
			toks[2], toks[3] = toks[3], toks[2]
		default:
			toks = append(toks, n2RwParam(r))
		}

		return rcode + ";" + rr + ";" + strings.Join(toks, " ")
	}
	i := r.n(len(toks))
	toks[i] = n2MutToken(r, toks[i])

	return rcode + ";" + rr + ";" + strings.Join(toks, " ")
}

func allUpperASCII(s string) bool {
	for i := 0; i < len(s); i++ {
		if s[i] < 'A' || s[i] > 'Z' {
			return false
		}
	}

	return s != ""
}

// ---- `|`-separated modifier values ---------------------------------------------------------------------------------

// sibling classes: items of one class differ in one detail (one bit of a
// prefix length, one octet, the case of a letter, a label)
var n2ListClasses = map[string][][]string{
	"domain": {
		{"site.com", "sub.site.com", "a.site.com", "site.org", "site.co", "Site.com"},
		{"other.org", "other.com", "another.org", "x.other.org"},
		{"news.*", "news.com", "new.*"},
		{"third.net", "third.net.", "thirdnet"},
	},
	"denyallow": {
		{"a.com", "b.com", "c.com", "aa.com", "a.co", "A.com"},
		{"c.b.com", "d.b.com", "c.b.co"},
		{"cdn.*", "cdn.com", "cd.*"},
	},
	"dnstype": {
		{"A", "AAAA", "a", "aaaa"},
		{"CNAME", "DNAME", "cname"},
		{"HTTPS", "SVCB", "https"},
		{"MX", "TXT", "SRV", "PTR", "NS", "SOA"},
	},
	"ctag": {
		{"a", "b", "c", "aa", "ab"},
		{"device_pc", "device_phone", "device_p", "device_pc2"},
		{"os_linux", "os_linu", "os_linux_", "user_child"},
	},
	"client": {
		{"a", "b", "c", "ab", "A"},
		{"Laptop", "laptop", "LAPTOP", "Laptop2", "Lapto"},
		{"'Kids-PC'", "'Kids-Pc'", "\"Kids-PC\"", "'Kids PC'", "Kids-PC"},
		{"10.0.0.0/8", "10.0.0.0/9", "11.0.0.0/8", "10.128.0.0/9", "10.0.0.0/7", "10.1.2.3/8"},
		{"192.168.1.0/24", "192.168.2.0/24", "192.168.1.0/25", "192.168.1.128/25", "192.168.0.0/16"},
		{"10.0.0.1", "10.0.0.2", "10.0.1.1", "11.0.0.1", "10.0.0.1/32", "10.0.0.1/31"},
		{"192.168.1.7", "192.168.1.8", "192.168.2.7"},
		{"2001:db8::/32", "2001:db8::/33", "2001:db9::/32", "2001:db8::/64", "2001:db8:0:1::/64"},
		{"fe80::1", "fe80::2", "fe80::1:1", "fe80::1/128", "::1"},
		{"::ffff:10.0.0.1", "::ffff:10.0.0.2", "::ffff:a00:1"},
	},
}

var n2ListNeg = map[string]bool{"domain": true, "dnstype": true, "ctag": true, "client": true}

// n2FreshItem: the i-th member of an unbounded family of items of the group (for long lists).
func n2FreshItem(group string, i int) string {
	switch group {
	case "domain":
		return fmt.Sprintf("d%d.site.com", i)
	case "denyallow":
		return fmt.Sprintf("h%d.a.com", i)
	case "ctag":
		return fmt.Sprintf("tag_%d", i)
	case "client":
		switch i % 4 {
		case 0:
			return fmt.Sprintf("pc%d", i)
		case 1:
			return fmt.Sprintf("10.%d.%d.0/24", (i/256)%256, i%256)
		case 2:
			return fmt.Sprintf("172.16.%d.%d", (i/256)%256, i%256)
		default:
			return fmt.Sprintf("2001:db8:%x::/48", i%65536)
		}
	case "dnstype":
		ts := []string{"A", "NS", "CNAME", "SOA", "PTR", "MX", "TXT", "AAAA", "SRV", "NAPTR", "DS", "SVCB", "HTTPS", "CAA", "SPF", "DNAME", "TLSA", "LOC", "HINFO", "RP",
			"AFSDB", "KX", "CERT", "OPT", "APL", "SSHFP", "RRSIG", "NSEC", "DNSKEY", "DHCID", "NSEC3", "NSEC3PARAM", "SMIMEA", "HIP", "CDS", "CDNSKEY", "OPENPGPKEY",
			"CSYNC", "ZONEMD", "EUI48", "EUI64", "URI", "TKEY", "TSIG", "ANY"}

		return ts[i%len(ts)]
	}

	return fmt.Sprintf("v%d", i)
}

func n2ListItem(r *rng, group string) string {
	return pick(r, pick(r, n2ListClasses[group]))
}

// n2GenListValue returns `<group>=i1|i2|…`: 1-3 items most of the time, once in
// twelve a long list (just above 3, 4, 8, 16, 32, 40, 64 items, or log-scale up to
// `maxItems`).
func n2GenListValue(r *rng, group string, maxItems int) string {
	return n2GenListValueK(r, group, n2Count(r, 12, func() int { return 1 + r.n(3) }, 4, maxItems))
}

// n2GenListValueK: a list of (about) k distinct items.
func n2GenListValueK(r *rng, group string, k int) string {
	if group == "dnstype" && k > 40 {
		k = 40
	}
	items := make([]string, 0, k)
	seen := map[string]bool{}
	off := r.n(1000)
	for i := 0; len(items) < k; i++ {
		var it string
		if k > 4 && i >= 2 {
			it = n2FreshItem(group, off+i)
		} else {
			it = n2ListItem(r, group)
		}
		if seen[it] {
			if k <= 4 {
				k--
			}

			continue
		}
		seen[it] = true
		if n2ListNeg[group] && r.chance(1, 5) {
			it = "~" + it
		}
		items = append(items, it)
	}
	if len(items) == 0 {
		items = []string{n2ListItem(r, group)}
	}

	return group + "=" + strings.Join(items, "|")
}

// n2MutListValue: `<group>=…` with ONE item replaced by a sibling of its class,
// or one `~` toggled, or one item added / removed, or two neighbours swapped.
// (Escaped separators inside quoted client names are not produced by the N2
// pools; a value that contains `\|` is returned with an item appended.)
func n2MutListValue(r *rng, value string) string {
	eq := strings.IndexByte(value, '=')
	if eq < 0 {
		return value
	}
	group := value[:eq]
	classes := n2ListClasses[group]
	if classes == nil || strings.Contains(value, `\|`) {
		return value + "|" + n2FreshItem(group, r.n(50))
	}
	items := strings.Split(value[eq+1:], "|")
	i := r.n(len(items))
	switch r.n(8) {
	case 0:
		if n2ListNeg[group] {
			if strings.HasPrefix(items[i], "~") {
				items[i] = items[i][1:]
			} else {
				items[i] = "~" + items[i]
			}

			break
		}

		fallthrough
	case 1:
		if len(items) > 1 {
			items = append(items[:i:i], items[i+1:]...)

			break
		}

		fallthrough
	case 2:
		it := n2ListItem(r, group)
		if r.chance(1, 2) {
			it = n2FreshItem(group, r.n(50))
		}
		items = append(items[:i:i], append([]string{it}, items[i:]...)...)
	case 3:
		if len(items) > 1 {
			j := (i + 1) % len(items)
			items[i], items[j] = items[j], items[i]

			break
		}

		fallthrough
	default:
		neg := strings.HasPrefix(items[i], "~")
		bare := strings.TrimPrefix(items[i], "~")
		sib := ""
		for _, cl := range classes {
			for _, m := range cl {
				if m == bare {
					sib = pick(r, cl)
				}
			}
		}
		if sib == "" || sib == bare {
			if n2IsUint(strings.NewReplacer(".", "", "/", "").Replace(bare)) && strings.Count(bare, ".") == 3 {
				// an IPv4 address or prefix of a long list: the neighbour in the last octet / one bit less
				if j := strings.IndexByte(bare, '/'); j > 0 {
					n, _ := strconv.Atoi(bare[j+1:])
					if n > 1 {
						sib = bare[:j+1] + fmt.Sprint(n-1)
					} else {
						sib = bare[:j+1] + fmt.Sprint(n+1)
					}
				} else {
					j := strings.LastIndexByte(bare, '.')
					n, _ := strconv.Atoi(bare[j+1:])
					sib = bare[:j+1] + fmt.Sprint((n+1)%256)
				}
			} else {
				sib = n2FlipCase(r, bare)
				if sib == bare {
					sib = bare + "0"
				}
			}
		}
		if neg {
			sib = "~" + sib
		}
		items[i] = sib
	}

	return group + "=" + strings.Join(items, "|")
}

// ---- long lines ------------------------------------------------------------------------------------------------------

const n2LitChars = "abcdefghijklmnopqrstuvwxyz0123456789-_./ABCXYZ%=&?"

// n2Literal: n bytes without mask characters (`*`, `^`, `|`), `$`, `#`, `,`, blanks: one literal run of a pattern.
func n2Literal(r *rng, n int) string {
	b := make([]byte, n)
	for i := range b {
		b[i] = n2LitChars[r.n(len(n2LitChars))]
	}
	if n > 0 && b[0] == '/' {
		b[0] = 'a'
	}
	if n > 1 && b[n-1] == '/' {
		b[n-1] = 'a'
	}

	return string(b)
}

var n2LongKinds = []string{"comment!", "comment#", "literal", "tokens", "domains", "rejected-mod", "rejected-domain", "cosmetic-sel", "cosmetic-domains",
	"cosmetic-rejected", "hosts", "regex", "host-name"}

// n2LongLine returns a line of about n bytes (n >= 40) of the given kind (see n2LongKinds): comments, valid rules
// with a long literal run / many pattern tokens / a long modifier list, rejected lines, cosmetic and hosts lines.
// host (may be empty) is a name the line is written about, so that valid long rules are live for queries on it.
func n2LongLine(r *rng, kind string, n int, host string) string {
	if host == "" {
		host = pick(r, poolDomains)
	}
	words := []string{"||" + host + "^", "ads", "##.banner", "$important", "example.org", "0.0.0.0 " + host, "!", "#", "@@", "comment", "|", "é", "--"}
	fill := func(m int) string {
		var sb strings.Builder
		for sb.Len() < m {
			sb.WriteString(pick(r, words))
			sb.WriteByte(' ')
		}

		return strings.TrimRight(sb.String()[:m], " \xc3")
	}
	list := func(m int, f func(i int) string, sep string) string {
		var items []string
		l := 0
		for i := 0; l < m; i++ {
			it := f(i)
			items = append(items, it)
			l += len(it) + len(sep)
		}

		return strings.Join(items, sep)
	}
	switch kind {
	case "comment!":
		return pick(r, []string{"! ", "!", "!! ", "!#", "! Title: "}) + fill(n)
	case "comment#":
		return pick(r, []string{"# ", "#", "# !", "#\t"}) + fill(n)
	case "literal":
		return pick(r, []string{"||", "|http://", "", "://", "@@||"}) + host + "/" + n2Literal(r, n) + pick(r, []string{"^", "", "|", "*", "^$important", "$script,image"})
	case "tokens":
		return pick(r, []string{"||", "", "@@||"}) + host + "/" + list(n, func(i int) string { return n2Literal(r, 1+r.n(12)) }, pick(r, []string{"*", "^", "^*"}))
	case "domains":
		return "||" + host + "^$" + pick(r, []string{"domain=", "denyallow=", "ctag=", "client="}) + list(n, func(i int) string { return fmt.Sprintf("d%d.example", i) }, "|")
	case "rejected-mod":
		return "||" + host + "/" + n2Literal(r, n) + "^$" + pick(r, []string{"bogus", "important,unknown-modifier=1", "domain=", "dnstype=NOPE", "dnsrewrite=A;B", "denyallow=~x.com", "ctag=!"})
	case "rejected-domain":
		return "||" + host + "^$domain=" + list(n, func(i int) string { return fmt.Sprintf("d%d.example", i) }, "|") + pick(r, []string{"|", "|bad domain", "||x", "|~"})
	case "cosmetic-sel":
		return host + pick(r, []string{"##", "#@#", "##", "#?#", "#$#"}) + list(n, func(i int) string { return fmt.Sprintf(".ad-%d", i) }, pick(r, []string{", ", " > ", ""}))
	case "cosmetic-domains":
		return list(n, func(i int) string { return negate(r, fmt.Sprintf("d%d.%s", i, host), 1, 6) }, ",") + "," + host + pick(r, []string{"##", "#@#"}) + ".n2long"
	case "cosmetic-rejected":
		return list(n, func(i int) string { return fmt.Sprintf("d%d.%s", i, host) }, ",") + pick(r, []string{",,", ",bad domain", ","}) + "##.n2long"
	case "hosts":
		return pick(r, []string{"0.0.0.0 ", "127.0.0.1\t", "::1 ", "1.2.3.4  "}) + host + " " + list(n, func(i int) string { return fmt.Sprintf("h%d.%s", i, host) }, pick(r, []string{" ", "\t", "  "}))
	case "regex":
		return "/" + strings.NewReplacer(".", `\.`, "/", `\/`, "?", "x").Replace(host+"/"+n2Literal(r, n)) + "/" + pick(r, []string{"", "$important", "$bogus"})
	default: // "host-name": one bare name with many / long labels (a hosts-style line if it is a domain name, else a pattern)
		return list(n, func(i int) string { return n2Literal(r, 1+r.n(20)) }, ".") + "." + host
	}
}

// n2LongLineMax: the largest length drawn for a kind in the per-line families (the Lean model of NewRule is quadratic in
// the number of list items, so lists stay below ~200 items there; comments are cheap).
func n2LongLineMax(kind string) int {
	switch kind {
	case "comment!", "comment#":
		return 70000
	case "domains", "rejected-domain", "cosmetic-domains", "cosmetic-rejected", "hosts", "host-name":
		return 2600
	default:
		return 9000
	}
}

// n2GenLongLine: a long line of a random kind and length.
func n2GenLongLine(r *rng, host string) string {
	kind := pick(r, n2LongKinds)

	return n2LongLine(r, kind, n2LongLineLen(r, n2LongLineMax(kind)), host)
}

// n2LongLineLen: the length of a long line: just above one of 255 / 256 / 300 / 1024 / 4096 / 65536 … or log-scale in [64, max].
func n2LongLineLen(r *rng, max int) int {
	if r.chance(1, 2) {
		return n2Above(r, 64, max)
	}

	return n2LogSize(r, 64, max)
}

package main

// Ops of C11 (every scanned rule can be retrieved by its index from any backing store).
//
//   c11.trim <bytes> = <strings.TrimSpace(bytes)>
//   c11.pack <id> <idx> = <storageIdx>:<id'>:<idx'>                 (Verif hooks of pack/unpack)
//   c11.scan ((id ignoreCosmetic content)\u2026) ((trimmedLine N|H|C|none|err)\u2026) = ((storageIdx K:text:id)\u2026) | err
//   c11.retrieve (lists\u2026) (oracle\u2026) (storageIdx\u2026) = (K:text:id | err | none | bad | nilrule \u2026)
//
// scan/retrieve run the real RuleStorage twice: over StringRuleLists and over FileRuleLists on real
// temporary files with the same content; the two must agree (else the answer is BACKING-MISMATCH\u2026).
// The oracle table is rules.NewRule on every trimmed line the scenario can ask about.

import (
	"bufio"
	"fmt"
	"math"
	"os"
	"path/filepath"
	"reflect"
	"sort"
	"strings"

	"github.com/AdguardTeam/urlfilter/filterlist"
	"github.com/AdguardTeam/urlfilter/rules"
)

func init() {
	gens["c11trim"] = genC11Trim
	gens["c11pack"] = genC11Pack
	gens["c11store"] = genC11Store
}

// ---------------------------------------------------------------- c11.trim

var trimPieces = []string{
	" ", "\t", "\n", "\v", "\f", "\r", "\r\n", "  ",
	"\u0085", "\u00a0", "\u1680", "\u2000", "\u2001", "\u2005", "\u200a", "\u2028", "\u2029", "\u202f", "\u205f", "\u3000",
	// near misses: U+200B (zero width space), U+2027, U+202A, U+2060, U+3001, U+1681, U+0084, U+00A1, U+180E, U+FEFF
	"\u200b", "\u2027", "\u202a", "\u2060", "\u3001", "\u1681", "\u0084", "\u00a1", "\u180e", "\ufeff", "\ufffd",
	// cut or invalid sequences
	"\xc2", "\xe2", "\xe2\x80", "\xe1\x9a", "\xe3\x80", "\x85", "\xa0", "\x80", "\x80\x80", "\xc0\xa0", "\xe0\x80\xa0",
	"\xe2\x80\xc2", "\xf0\x9f\x98\x80", "\xff", "\xfe", "\xed\xa0\x80", "\xc2\xc2\x85", "\xe2\xe2\x80\x80",
	"\x00", "\x1c", "\x1f", "\x7f", "a", "||example.org^", "x y", "#", "\u00e9", "\u044f",
}

func randTrimInput(r *rng) string {
	var sb strings.Builder
	k := r.n(7)
	for i := 0; i < k; i++ {
		if r.chance(1, 6) {
			sb.WriteByte(byte(r.n(256)))
		} else {
			sb.WriteString(pick(r, trimPieces))
		}
	}

	return sb.String()
}

func genC11Trim(r *rng, n int, w *bufio.Writer) {
	for i := 0; i < n; i++ {
		s := randTrimInput(r)
		fmt.Fprintf(w, "c11.trim %s = %s ## %q\n", wb(s), wb(strings.TrimSpace(s)), s)
	}
}

// ---------------------------------------------------------------- c11.pack

func randInt32(r *rng) int32 {
	switch r.n(8) {
	case 0:
		return math.MinInt32
	case 1:
		return -1
	case 2:
		return 0
	case 3:
		return 1
	case 4:
		return math.MaxInt32
	case 5:
		return int32(r.n(1 << 16))
	default:
		return int32(uint32(r.u64()))
	}
}

func genC11Pack(r *rng, n int, w *bufio.Writer) {
	for i := 0; i < n; i++ {
		id, idx := randInt32(r), randInt32(r)
		s := filterlist.VerifStorageIdx(id, idx)
		a, b := filterlist.VerifRuleListIdx(s)
		fmt.Fprintf(w, "c11.pack %d %d = %d:%d:%d\n", id, idx, s, a, b)
	}
}

// ---------------------------------------------------------------- c11.scan / c11.retrieve

var c11Lines = []string{
	"||example.org^", "||ads.example.com^$script", "@@||a.org^$document", "/banner/", "/ad[0-9]+/$image",
	"||b.com^$third-party,domain=c.com|~d.com", "|https://x.y/z|", "example.net", "*$script,domain=e.org",
	"0.0.0.0 a.org b.org", "127.0.0.1 localhost", "::1 x.com", "0.0.0.0 tracker.example # note",
	"example.org##.banner", "##.ad", "a.org#@#.x", "~b.org##div[id]", "example.org#?#.x:has(a)", "x.org$$script[data]",
	"! comment", "# comment", "#", "!", "! ||commented.out^", "# 0.0.0.0 commented.org",
	"", "", " ", "\t", "   ", "\u00a0", "\u2003\u3000",
	"||a^$unknown", "@@", "example.org##", "||x^$domain=", "a", "||y^$dnsrewrite=bad;", "$$", "##",
	"||\u043f\u0440\u0438\u043c\u0435\u0440.\u0440\u0444^", "example.org##.\u0431\u0430\u043d\u043d\u0435\u0440", "\u00a0||nbsp.org^\u3000", "  ||padded.org^  ", "\t0.0.0.0\ttab.org\t",
	"||cut.org^\xc2", "\xe2\x80||lead.cut^", "||a\x00b.org^", "\x00", "||bell\x07.org^\x0b", "\ufeff||bom.org^",
	"||trail.ff^\xff", "\x85||c1.org^\xa0", "||zw.org^\u200b",
}

func longLine(r *rng) string {
	n := pick(r, []int{4093, 4094, 4095, 4096, 4097, 8191, 8192, 8193, 10240, 12289})
	n += r.n(3) - 1
	switch r.n(4) {
	case 0:
		return "||" + strings.Repeat("a", n) + ".org^"
	case 1:
		return "! " + strings.Repeat("c", n)
	case 2:
		return "example.org##." + strings.Repeat("k", n) + " \t "
	default:
		return strings.Repeat(" ", n/2) + "||long.org^" + strings.Repeat(" ", n/2)
	}
}

// hugeLine is a valid rule (or a comment) whose LINE is 64 KiB .. 200 KiB long,
// around the limits a standard line reader may have (bufio.MaxScanTokenSize =
// 65536, twice that) -- far beyond the 4 KiB read buffer of longLine.
func hugeLine(r *rng) string {
	n := pick(r, []int{65500, 65533, 65534, 65535, 65536, 65537, 65538, 65600, 70000, 98304, 131071, 131072, 131073, 200000})
	pad := func(k int) string {
		if k < 0 {
			k = 0
		}

		return strings.Repeat("a", k)
	}
	switch r.n(6) {
	case 0:
		// the line is n bytes long
		return "||example.org/" + pad(n-len("||example.org/^$script")) + "^$script"
	case 1:
		// a $domain list
		var sb strings.Builder
		sb.WriteString("||ads.example^$domain=")
		for i := 0; sb.Len() < n-20; i++ {
			fmt.Fprintf(&sb, "~h%05d.example|", i)
		}
		sb.WriteString("victim.com")

		return sb.String()
	case 2:
		return "example.org##." + pad(n-len("example.org##."))
	case 3:
		return "0.0.0.0 " + pad(60) + ".org # " + pad(n-80)
	case 4:
		return "! " + pad(n-2)
	default:
		// n bytes of rule, surrounded by blanks the retrieval has to trim
		return "  ||" + pad(n-len("||.org^")) + ".org^ \t"
	}
}

func randContent(r *rng) string { return randContentHuge(r, false) }

func randContentHuge(r *rng, huge bool) string {
	var sb strings.Builder
	nl := r.n(13)
	if r.chance(1, 12) && !huge {
		nl = 0
	}
	if huge && nl < 3 {
		nl = 3
	}
	hugeAt := -1
	if huge {
		hugeAt = r.n(nl)
	}
	eol := pick(r, []string{"\n", "\n", "\r\n"})
	long := r.chance(1, 3)
	for i := 0; i < nl; i++ {
		switch {
		case i == hugeAt:
			sb.WriteString(hugeLine(r))
		case i == 0 && r.chance(1, 4):
			// R2: the list starts with a multi-byte sequence (UTF-8 byte order mark, non-ASCII title)
			sb.WriteString(r2FirstLine(r))
		case r.chance(1, 8):
			// R2: a network rule with `#?` / `#@` / `#%` / `#$` inside (no cosmetic marker): IgnoreCosmetic must keep it
			sb.WriteString(r2NearCosmeticLine(r))
		case long && r.chance(1, 5):
			sb.WriteString(longLine(r))
		case r.chance(1, 25):
			sb.WriteString(randTrimInput(r) + pick(r, c11Lines))
		case r.chance(1, 30):
			sb.WriteString(strings.ReplaceAll(randTrimInput(r), "\n", " "))
		default:
			sb.WriteString(pick(r, c11Lines))
		}
		e := eol
		if r.chance(1, 10) {
			e = pick(r, []string{"\n", "\r\n", "\n\n", "\r\r\n", " \n", "\v\n", "\u00a0\n"})
		}
		if i == nl-1 && r.chance(1, 3) {
			e = pick(r, []string{"", "", "\r", " "})
		}
		sb.WriteString(e)
	}

	return sb.String()
}

type c11List struct {
	id      int
	ign     bool
	content string
}

func randListID(r *rng) int { return int(randInt32(r)) }

func ruleKind(f rules.Rule) string {
	switch f.(type) {
	case *rules.NetworkRule:
		return "N"
	case *rules.HostRule:
		return "H"
	case *rules.CosmeticRule:
		return "C"
	default:
		return "?"
	}
}

func isNilRule(f rules.Rule) bool {
	if f == nil {
		return true
	}
	v := reflect.ValueOf(f)

	return v.Kind() == reflect.Ptr && v.IsNil()
}

// oracleOf is rules.NewRule's outcome on a (trimmed) line.
func oracleOf(line string) string {
	return guardStr(func() string {
		f, err := rules.NewRule(line, 7)
		switch {
		case err != nil:
			return "err"
		case isNilRule(f):
			return "none"
		default:
			return ruleKind(f)
		}
	})
}

func showRule(f rules.Rule) string {
	return fmt.Sprintf("%s:%s:%d", ruleKind(f), wb(f.Text()), f.GetFilterListID())
}

func showRetrieved(f rules.Rule, err error) string {
	switch {
	case f == nil && err != nil:
		return "err"
	case f == nil:
		return "none"
	case isNilRule(f) && err != nil:
		return "bad"
	case isNilRule(f):
		return "nilrule"
	case err != nil:
		return "rule+err"
	default:
		return showRule(f)
	}
}

// makeStorages builds the String-backed and the File-backed storage of the same lists.
func makeStorages(lists []c11List, dir string) (ss, fs *filterlist.RuleStorage, serr, ferr error) {
	var sl, fl []filterlist.RuleList
	for i, l := range lists {
		sl = append(sl, &filterlist.StringRuleList{ID: l.id, RulesText: l.content, IgnoreCosmetic: l.ign})
		path := filepath.Join(dir, fmt.Sprintf("list%d.txt", i))
		if err := os.WriteFile(path, []byte(l.content), 0o600); err != nil {
			panic(err)
		}
		f, err := filterlist.NewFileRuleList(l.id, path, l.ign)
		if err != nil {
			panic(err)
		}
		fl = append(fl, f)
	}
	ss, serr = filterlist.NewRuleStorage(sl)
	fs, ferr = filterlist.NewRuleStorage(fl)
	if ferr != nil {
		for _, f := range fl {
			_ = f.Close()
		}
	}

	return ss, fs, serr, ferr
}

type yielded struct {
	idx  int64
	show string
}

func scanAll(s *filterlist.RuleStorage) (out []yielded) {
	sc := s.NewRuleStorageScanner()
	for sc.Scan() {
		f, idx := sc.Rule()
		out = append(out, yielded{idx, showRule(f)})
	}

	return out
}

func showYielded(ys []yielded) string {
	items := make([]string, len(ys))
	for i, y := range ys {
		items[i] = fmt.Sprintf("%d/%s", y.idx, y.show)
	}

	return wanswers(items)
}

func both(a, b string) string {
	if a == b {
		return a
	}

	return "BACKING-MISMATCH[string=" + strings.ReplaceAll(a, " ", ",") + "/file=" + strings.ReplaceAll(b, " ", ",") + "]"
}

func genC11Store(r *rng, n int, w *bufio.Writer) {
	dir, err := os.MkdirTemp("", "verif-c11-")
	if err != nil {
		panic(err)
	}
	defer func() { _ = os.RemoveAll(dir) }()

	for it := 0; it < n; it++ {
		nl := 1 + r.n(4)
		if r.chance(1, 3) {
			nl = 1
		}
		lists := make([]c11List, nl)
		used := map[int]bool{}
		for i := range lists {
			id := randListID(r)
			for used[id] {
				id = randListID(r)
			}
			used[id] = true
			lists[i] = c11List{id: id, ign: r.chance(1, 3), content: randContent(r)}
		}
		if it%12 == 5 {
			// one list with a 64..200 KiB line (retrieved by its index below like every other rule; the rules
			// after it too)
			k := r.n(nl)
			lists[k].content = randContentHuge(r, true)
		}
		dup := nl > 1 && r.chance(1, 10)
		if dup {
			lists[1+r.n(nl-1)].id = lists[0].id
		}

		// candidate storage indices: every yielded one (found below), off-by-one, garbage
		need := map[string]bool{}
		addLine := func(s string) { need[strings.TrimSpace(s)] = true }
		for _, l := range lists {
			for _, ln := range strings.Split(l.content, "\n") {
				addLine(ln)
			}
		}

		wl := make([]string, len(lists))
		for i, l := range lists {
			wl[i] = wlist(fmt.Sprint(l.id), wbool(l.ign), wb(l.content))
		}
		note := fmt.Sprintf("lists=%d ids=%v longest line=%d bytes", len(lists), func() (ids []int) {
			for _, l := range lists {
				ids = append(ids, l.id)
			}

			return ids
		}(), func() (m int) {
			for _, l := range lists {
				for _, ln := range strings.Split(l.content, "\n") {
					m = max(m, len(ln))
				}
			}

			return m
		}())

		ss, fs, serr, ferr := makeStorages(lists, dir)
		if serr != nil || ferr != nil {
			ans := both(fmt.Sprint(serr != nil), fmt.Sprint(ferr != nil))
			if ans == "true" {
				ans = "err"
			}
			fmt.Fprintf(w, "c11.scan %s %s = %s ## duplicate ids; %s\n", wlist(wl...), oracleTable(need), ans, note)

			continue
		}

		ys := scanAll(ss)
		yf := scanAll(fs)
		fmt.Fprintf(w, "c11.scan %s %s = %s ## %s\n", wlist(wl...), oracleTable(need), both(showYielded(ys), showYielded(yf)), note)

		// retrieval: every yielded index, neighbours, garbage; some twice (cache)
		var idxs []int64
		for _, y := range ys {
			idxs = append(idxs, y.idx)
			if r.chance(1, 4) {
				idxs = append(idxs, y.idx+int64(r.n(3))-1)
			}
			if r.chance(1, 4) {
				idxs = append(idxs, y.idx)
			}
		}
		for k := r.n(6); k > 0; k-- {
			l := pick(r, lists)
			var off int32
			switch r.n(7) {
			case 0:
				off = int32(len(l.content))
			case 1:
				off = int32(len(l.content)) - 1
			case 2:
				off = int32(len(l.content)) + 1
			case 3:
				off = randInt32(r)
			default:
				off = int32(r.n(len(l.content) + 1))
			}
			id := int32(l.id)
			if r.chance(1, 6) {
				id = randInt32(r)
			}
			idx := filterlist.VerifStorageIdx(id, off)
			idxs = append(idxs, idx)
			if r.chance(1, 2) {
				idxs = append(idxs, idx)
			}
		}
		shuffle(r, idxs)
		byID := map[int]string{}
		for _, l := range lists {
			byID[l.id] = l.content
		}
		if len(idxs) > 40 {
			// keep the indices of very long lines when the sample is cut
			isHuge := func(idx int64) bool {
				id, off := filterlist.VerifRuleListIdx(idx)
				c, ok := byID[int(id)]
				if !ok || off < 0 || int(off) >= len(c) {
					return false
				}
				e := strings.IndexByte(c[off:], '\n')

				return e < 0 && len(c)-int(off) > 60000 || e > 60000
			}
			sort.SliceStable(idxs, func(a, b int) bool { return isHuge(idxs[a]) && !isHuge(idxs[b]) })
			idxs = idxs[:40]
		}
		// what the lists will be asked to parse
		for _, idx := range idxs {
			id, off := filterlist.VerifRuleListIdx(idx)
			c, ok := byID[int(id)]
			if !ok || off < 0 || int(off) >= len(c) {
				continue
			}
			rest := c[off:]
			if e := strings.IndexByte(rest, '\n'); e >= 0 {
				rest = rest[:e]
			}
			addLine(rest)
		}
		ans := make([]string, len(idxs))
		widx := make([]string, len(idxs))
		for i, idx := range idxs {
			widx[i] = fmt.Sprint(idx)
			a := guardStr(func() string { return showRetrieved(ss.RetrieveRule(idx)) })
			b := guardStr(func() string { return showRetrieved(fs.RetrieveRule(idx)) })
			ans[i] = both(a, b)
		}
		fmt.Fprintf(w, "c11.retrieve %s %s %s = %s ## %s\n", wlist(wl...), oracleTable(need), wlist(widx...), wanswers(ans), note)
		_ = fs.Close()
	}
}

// wanswers joins answer items without blanks (the Go answer must be one token).
func wanswers(items []string) string { return "(" + strings.Join(items, ",") + ")" }

func oracleTable(need map[string]bool) string {
	keys := make([]string, 0, len(need))
	for k := range need {
		if k != "" {
			keys = append(keys, k)
		}
	}
	sort.Strings(keys)
	items := make([]string, len(keys))
	for i, k := range keys {
		items[i] = wlist(wb(k), oracleOf(k))
	}

	return wlist(items...)
}

package main

// Op families of C05 (the shortcut never rejects what the pattern accepts).
//
//	c05.tree <ctree> x<subject> = T|F
//	    ctree = Go's own regexp/syntax parse tree of the text the rule compiles (with the `(?i)`
//	    prefix unless $match-case), converted to `Re`.  Go: regexp.Compile(text).MatchString(subject);
//	    model: `search` over ctree.  Validates the tree conversion and the regex semantics the C05
//	    theorems are about.
//	c05.shortcut <tree> <ctree> x<shortcut> = T      ## rule text
//	    tree = syntax.Parse(text between the slashes, syntax.Perl) – the very tree findRegexpShortcut
//	    consults; shortcut = rule.Shortcut.  Model: `shortcutJustified shortcut tree` (what the Go
//	    filter establishes by construction); spec: `shortcutJustified shortcut ctree` – empty, or
//	    contained in a merged literal run required by the COMPILED expression, which by theorem `c05_justified_runs`
//	    makes it a factor of every accepted URL.  F = a rule whose shortcut the theorem does not cover
//	    (for the D4 defect: one that some accepted URL lacks).
//	c05.url <ctree> x<shortcut> x<url> = T|F        ## rule text, URL
//	    Go: rule.Match(NewRequest(url)) for a rule without modifiers (other than $match-case);
//	    model: contains(lower(url), shortcut) && search(ctree, url); spec: search(ctree, url) – Match
//	    with the shortcut test removed.  URLs are members of L(ctree).
//	c05.mask x<pattern> = x<shortcut>
//	    Go: VerifFindShortcut(pattern); model: the IndexAny loop (PANIC if a slice fails);
//	    spec: the first longest separator-free run.  Exhaustive over short token strings, sampled beyond.
//	assert c05.maskurl x<rule> x<url> = T|F
//	    Go-only law on mask rules: the compiled pattern accepts url => lower(url) contains Shortcut.

import (
	"bufio"
	"fmt"
	"regexp"
	"regexp/syntax"
	"strings"

	"github.com/AdguardTeam/urlfilter/rules"
)

func init() {
	gens["c05.tree"] = genC05Tree
	gens["c05.shortcut"] = genC05Shortcut
	gens["c05.url"] = genC05URL
	gens["c05.mask"] = genC05Mask
	gens["c05.maskurl"] = genC05MaskURL
}

// wtree renders a regexp/syntax tree in wire form; ok=false when the tree is
// outside the modelled domain (non-ASCII literals, multi-line anchors).
func wtree(re *syntax.Regexp) (s string, ok bool) {
	subs := func(name string) (string, bool) {
		items := []string{name}
		for _, sub := range re.Sub {
			t, ok := wtree(sub)
			if !ok {
				return "", false
			}
			items = append(items, t)
		}

		return wlist(items...), true
	}
	switch re.Op {
	case syntax.OpNoMatch:
		return "nomatch", true
	case syntax.OpEmptyMatch:
		return "empty", true
	case syntax.OpLiteral:
		b := make([]byte, 0, len(re.Rune))
		for _, c := range re.Rune {
			if c > 127 {
				return "", false
			}
			b = append(b, byte(c))
		}

		return wlist("lit", wb(string(b)), wbool(re.Flags&syntax.FoldCase != 0)), true
	case syntax.OpCharClass:
		items := []string{"cls"}
		for i := 0; i+1 < len(re.Rune); i += 2 {
			lo, hi := re.Rune[i], re.Rune[i+1]
			if lo > 255 {
				continue
			}
			if hi > 255 {
				hi = 255
			}
			items = append(items, wlist(fmt.Sprint(lo), fmt.Sprint(hi)))
		}

		return wlist(items...), true
	case syntax.OpAnyCharNotNL:
		return "any", true
	case syntax.OpAnyChar:
		return "anynl", true
	case syntax.OpBeginText:
		return "bol", true
	case syntax.OpEndText:
		return "eol", true
	case syntax.OpWordBoundary:
		return "wb", true
	case syntax.OpNoWordBoundary:
		return "nwb", true
	case syntax.OpCapture:
		return subs("cap")
	case syntax.OpStar:
		return subs("star")
	case syntax.OpPlus:
		return subs("plus")
	case syntax.OpQuest:
		return subs("quest")
	case syntax.OpRepeat:
		t, ok := wtree(re.Sub[0])
		if !ok {
			return "", false
		}
		mx := "_"
		if re.Max >= 0 {
			mx = fmt.Sprint(re.Max)
		}

		return wlist("rep", t, fmt.Sprint(re.Min), mx), true
	case syntax.OpConcat:
		return subs("cat")
	case syntax.OpAlternate:
		return subs("alt")
	default:
		return "", false
	}
}

// ---------------------------------------------------------------------------
// regex rules: a grammar aimed at shortcuts, plus the bundled lists

var c05Words = []string{"ad", "ads", "banner", "track", "foo", "bar", "baz", "pixel", "img", "js", "Ad", "BANNER", "x", "click", "stat"}

func genRuleRegexAtom(r *rng, d int) string {
	k := r.n(30)
	switch {
	case k < 10:
		return pick(r, c05Words)
	case k < 12:
		return pick(r, []string{`\.`, `\/`, `\-`, `_`, `-`, `\.com`, `\/\/`, `:\/\/`, `=`, `&`, `%`})
	case k < 14:
		return pick(r, []string{`\d`, `\w`, `\s`, `\d+`, `\w+`, `\w*`, `\D`, `\b`, `\B`})
	case k < 16:
		w := pick(r, c05Words)
		i := r.n(len(w))

		return w[:i] + fmt.Sprintf(`\x%02x`, w[i]) + w[i+1:]
	case k < 19:
		return pick(r, []string{"[0-9]", "[a-z]", "[a-z0-9]", "[^/]", "[0-9a-f]", "[_-]", "[A-Za-z0-9_%]", `[\w.]`, `[^\s]`})
	case k < 21:
		return pick(r, []string{".", ".*", ".+"})
	case k < 22:
		return pick(r, []string{"^", "$", `^https?:\/\/`, "^http"})
	case k < 27 && d > 0:
		n := 1 + r.n(3)
		parts := make([]string, n)
		for i := range parts {
			parts[i] = genRuleRegexSeq(r, d-1, 1+r.n(2))
		}
		open := "("
		if r.chance(1, 12) {
			open = "(?:"
		}

		return open + strings.Join(parts, "|") + ")"
	default:
		return pick(r, c05Words) + pick(r, c05Words)
	}
}

func genRuleRegexSeq(r *rng, d, n int) string {
	var sb strings.Builder
	for i := 0; i < n; i++ {
		sb.WriteString(genRuleRegexAtom(r, d))
		switch r.n(16) {
		case 0:
			sb.WriteString("*")
		case 1:
			sb.WriteString("+")
		case 2:
			sb.WriteString(fmt.Sprintf("{%d}", r.n(3)))
		case 3:
			sb.WriteString(fmt.Sprintf("{%d,}", r.n(3)))
		case 4:
			a := r.n(3)
			sb.WriteString(fmt.Sprintf("{%d,%d}", a, a+r.n(3)))
		case 5:
			if r.chance(1, 6) {
				sb.WriteString("?")
			}
		}
	}

	return sb.String()
}

// genRegexRule returns a parsed regex rule without modifiers other than
// $match-case, and its text.
func genRegexRule(r *rng) (f *rules.NetworkRule) {
	for {
		var re string
		switch r.n(12) {
		case 0:
			re = pick(r, []string{`foo|barbaz`, `a\dvert`, `ba\x41nner`, `ab*cd`, `bad{0,2}ge`, `(foo|bar)baz`, `(ads){0,2}track`,
				`banner{2,}`, `foo\.bar\d+`, `ad[0-9]+banner`, `x+yz+`, `(pixel)+\.gif`, `img(\/ads){1,}x`, `\bads\b`, `stat\Bistics`,
				`ads|`, `|ads`, `(|ads)track`, `^ads$|^banner$`, `tr\w{0}ack`, `[a]dserver`, `ads{0}erver`, `(?:ads|ads)erver`})
		case 1:
			re = genRegexText(r)
		case 2:
			// group P3: the shapes on which parser.factor mixes up fold flags; $match-case more often
			re = genQuirkText(r)
			if r.chance(1, 2) {
				re = pick(r, []string{"", "ads", `\/`, "x"}) + "(" + re + ")" + pick(r, []string{"", "banner", `\.js`, "y"})
			}
			qt := "/" + re + "/"
			if r.chance(2, 3) {
				qt += "$match-case"
			}
			if g, err := guardRule(qt, 1); err == nil && g != nil && g.IsRegexRule() {
				return g
			}

			continue
		default:
			re = genRuleRegexSeq(r, 2, 1+r.n(4))
			if r.chance(1, 4) {
				re += "|" + genRuleRegexSeq(r, 1, 1+r.n(2))
			}
		}
		text := "/" + re + "/"
		if r.chance(1, 4) {
			if r.chance(1, 2) {
				// a case-sensitive rule written with upper-case letters (its shortcut is lower-cased, the URL is not)
				for _, w := range c05Words {
					if len(w) >= 3 && w == strings.ToLower(w) && r.chance(1, 2) {
						re = strings.ReplaceAll(re, w, pick(r, []string{strings.ToUpper(w), strings.ToUpper(w[:1]) + w[1:]}))
					}
				}
				text = "/" + re + "/"
			}
			text += "$match-case"
		}
		var err error
		func() {
			defer func() {
				if recover() != nil {
					f = nil
				}
			}()
			f, err = rules.NewNetworkRule(text, 1)
		}()
		if err == nil && f != nil && f.IsRegexRule() {
			return f
		}
	}
}

// pickRegexRule: one rule in four comes from the bundled lists.
func pickRegexRule(r *rng) *rules.NetworkRule {
	if rs := bundledRegexRules(); len(rs) > 0 && r.chance(1, 4) {
		return pick(r, rs)
	}

	return genRegexRule(r)
}

func ruleInner(f *rules.NetworkRule) string {
	p := f.VerifRaw().Pattern

	return p[1 : len(p)-1]
}

func plainRule(f *rules.NetworkRule) bool {
	v := f.VerifRaw()

	return len(v.PermittedDomains) == 0 && len(v.RestrictedDomains) == 0 && len(v.DenyAllowDomains) == 0 &&
		len(v.PermittedDNSTypes) == 0 && len(v.RestrictedDNSTypes) == 0 && len(v.PermittedClientTags) == 0 &&
		len(v.RestrictedClientTags) == 0 && v.PermittedClients == nil && v.RestrictedClients == nil &&
		v.EnabledOptions&^rules.OptionMatchCase == 0 && v.DisabledOptions == 0 &&
		v.PermittedRequestTypes == 0 && v.RestrictedRequestTypes == 0
}

func genC05Tree(r *rng, n int, w *bufio.Writer) {
	r = remix(r)
	for i := 0; i < n; {
		f := pickRegexRule(r)
		text := ruleRegexText(f)
		tree, err := syntax.Parse(text, syntax.Perl)
		if err != nil {
			continue
		}
		wt, ok := wtree(tree)
		if !ok {
			wt = "_"
		}
		re, err := regexp.Compile(text)
		if err != nil {
			continue
		}
		for _, s := range reSubjects(r, tree, 3+r.n(3), 6+r.n(100)) {
			if r.chance(1, 4) {
				s = flipCase(r, s)
			}
			fmt.Fprintf(w, "c05.tree %s %s = %s ## %q %q\n", wt, wb(s), wbool(re.MatchString(s)), text, s)
			i++
		}
	}
}

func emitC05Shortcut(w *bufio.Writer, f *rules.NetworkRule) bool {
	tree, err := syntax.Parse(ruleInner(f), syntax.Perl)
	if err != nil {
		// findRegexpShortcut accepts nothing then; the rule never matches anyway
		return false
	}
	ctree, err := syntax.Parse(ruleRegexText(f), syntax.Perl)
	if err != nil {
		return false
	}
	wt, ok := wtree(tree)
	wc, okc := wtree(ctree)
	if !ok || !okc {
		wt, wc = "_", "_"
	}
	fmt.Fprintf(w, "c05.shortcut %s %s %s = T ## %q shortcut=%q\n", wt, wc, wb(f.Shortcut), f.RuleText, f.Shortcut)

	return true
}

func genC05Shortcut(r *rng, n int, w *bufio.Writer) {
	r = remix(r)
	i := 0
	// every regex rule of the bundled lists first
	for _, f := range bundledRegexRules() {
		if i >= n {
			return
		}
		if emitC05Shortcut(w, f) {
			i++
		}
	}
	for i < n {
		if emitC05Shortcut(w, genRegexRule(r)) {
			i++
		}
	}
}

func genC05URL(r *rng, n int, w *bufio.Writer) {
	r = remix(r)
	for i := 0; i < n; {
		f := pickRegexRule(r)
		if !plainRule(f) {
			continue
		}
		tree, err := syntax.Parse(ruleRegexText(f), syntax.Perl)
		if err != nil {
			continue
		}
		wt, ok := wtree(tree)
		if !ok {
			wt = "_"
		}
		for k, m := 0, 2+r.n(3); k < m; k++ {
			var sb strings.Builder
			sampleRe(r, tree, &sb, 6+r.n(100))
			u := sb.String()
			switch r.n(6) {
			case 0:
				// the bare member
			case 1:
				u = "https://example.org/" + u + "?x=1"
			case 2:
				u = pick(r, poolSchemes) + "://" + pick(r, poolDomains) + "/" + flipCase(r, u)
			default:
				u = pick(r, poolSchemes) + "://" + pick(r, poolDomains) + "/" + u
			}
			if (r.chance(1, 8) || (f.IsOptionEnabled(rules.OptionMatchCase) && r.chance(1, 3))) && strings.Contains(u, "://") {
				// URL LENGTH: log-scale filler between the host and the member (8 bytes .. beyond the 4 KiB cap)
				u = nLongURL(r, u, nPadLog(r, 8, 5000))
			}
			if len(u) == 0 || strings.ContainsAny(u, "\n\r") {
				continue
			}
			req := rules.NewRequest(u, "", rules.TypeOther)
			ans := guardStr(func() string { return wbool(f.Match(req)) })
			fmt.Fprintf(w, "c05.url %s %s %s = %s ## %q shortcut=%q url=%q\n", wt, wb(f.Shortcut), wb(req.URL), ans,
				f.RuleText, f.Shortcut, req.URL)
			i++
		}
	}
}

// ---------------------------------------------------------------------------
// mask patterns

func genC05Mask(r *rng, n int, w *bufio.Writer) {
	r = remix(r)
	emit := func(p string) {
		ans := guardStr(func() string { return wb(rules.VerifFindShortcut(p)) })
		fmt.Fprintf(w, "c05.mask %s = %s ## %q\n", wb(p), ans, p)
	}
	toks := []string{"a", "b", "*", "^", "|", ".", "/"}
	i := 0
	// exhaustive over token strings of length 0..L while at most half of n is used
	total, pow := 0, 1
	maxLen := 0
	for l := 0; l <= 6; l++ {
		if total+pow > n/2+1 {
			break
		}
		total += pow
		pow *= len(toks)
		maxLen = l
	}
	var rec func(prefix string, l int)
	rec = func(prefix string, l int) {
		if l == 0 {
			emit(prefix)
			i++

			return
		}
		for _, t := range toks {
			rec(prefix+t, l-1)
		}
	}
	for l := 0; l <= maxLen; l++ {
		rec("", l)
	}
	rich := []string{"a", "b", "c", "ad", "banner", "example.org", "*", "^", "|", "||", ".", "/", "?", "=", "A", "B", "$", "\\", "(", "[", "+", " ", "%20", "é"}
	for i < n {
		var sb strings.Builder
		if r.chance(1, 4) {
			sb.WriteString(genPattern(r))
		}
		for k, m := 0, nCount(r, r.n(9), 12, 9, 400); k < m; k++ { // 1 pattern in 12: log-scale up to 400 tokens
			sb.WriteString(pick(r, rich))
		}
		emit(sb.String())
		i++
	}
}

// c05PlainTwin: the pattern of f as a rule without modifiers other than $match-case (nil if that text is not a
// valid rule, e.g. too wide without the modifiers).
func c05PlainTwin(f *rules.NetworkRule) *rules.NetworkRule {
	p := f.VerifRaw().Pattern
	text := p
	if f.IsOptionEnabled(rules.OptionMatchCase) {
		text += "$match-case"
	}
	pp, _, wl, err := rules.VerifParseRuleText(text)
	if err != nil || wl || pp != p {
		return nil
	}
	g, err := guardRule(text, 1)
	if err != nil || g == nil || !plainRule(g) {
		return nil
	}

	return g
}

func genC05MaskURL(r *rng, n int, w *bufio.Writer) {
	r = remix(r)
	for i := 0; i < n; {
		f, text := genValidNetRule(r, false)
		var sides []string
		if r.chance(1, 4) {
			// a literal pipe INSIDE the pattern (no leading pipe): were it ever read as an alternation, a URL with
			// only one side would be accepted although the shortcut comes from the other side
			a, b := pick(r, c05Words), pick(r, c05Words)+"_"+pick(r, c05Words)
			if r.chance(1, 2) {
				a, b = b, a
			}
			text = a + "|" + b + pick(r, []string{"", "^", "$domain=example.org", "$script"})
			var err error
			if f, err = rules.NewNetworkRule(text, 1); err != nil {
				continue
			}
			sides = []string{a, b}
		}
		if f.IsRegexRule() {
			continue
		}
		if sides == nil && r.chance(1, 6) {
			// the cross product case-sensitive rule x letter case of the pattern: the same pattern written in mixed case
			// under $match-case (the shortcut is lower-cased at parse time, the URL the pattern sees is not)
			t2 := mutateCase(r, f.VerifRaw().Pattern) + "$match-case"
			if g, err := guardRule(t2, 1); err == nil && g != nil && !g.IsRegexRule() {
				f, text = g, t2
			}
		}
		re, status := f.VerifPrepared()
		for k := 0; k < 3; k++ {
			u := urlAround(r, f.VerifRaw().Pattern)
			if sides != nil && k > 0 {
				u = "http://" + pick(r, poolDomains) + "/" + sides[k-1] + pick(r, []string{"", "/", "?x=1"})
			}
			if sides == nil && k == 2 && r.chance(1, 6) {
				// longer than the 4 KiB cap, the part the pattern needs lying beyond (or straddling) the cap: the URL
				// the pattern sees and the lower-cased URL the shortcut test sees must be the SAME capped string
				pad := 4096 - len("http://x.example/") - r.n(12)
				u = "http://x.example/" + strings.Repeat("p", pad) + strings.TrimPrefix(u, "http://")
			}
			if r.chance(1, 6) {
				// URL LENGTH on a log scale (8 bytes .. beyond the 4 KiB cap): filler between the host and what the pattern is
				// about (this op is evaluated in Go alone, so the full range costs nothing on the Lean side)
				u = nLongURL(r, u, nLog(r, 8, 5000))
			}
			if r.chance(1, 4) {
				u = mutateCase(r, u)
			}
			req := rules.NewRequest(u, "", rules.TypeOther)
			accepts := status == 0 || (status == 1 && re.MatchString(req.URL))
			law := !accepts || strings.Contains(req.URLLowerCase, f.Shortcut)
			fmt.Fprintf(w, "assert c05.maskurl %s %s = %s ## %q shortcut=%q url=%q accepts=%v\n", wb(text), wb(req.URL), wbool(law),
				text, f.Shortcut, req.URL, accepts)
			i++
			// the same through Match itself ("a rule's match result is the same as it would be with the shortcut test
			// removed"): the rule's pattern alone (plus $match-case if the rule has it) as a rule of its own -- its Match
			// has nothing to test but the shortcut and the pattern, so it must equal the pattern's verdict
			if g := c05PlainTwin(f); g != nil && !strings.ContainsAny(req.URL, "\n\r") {
				gre, gst := g.VerifPrepared()
				gacc := gst == 0 || (gst == 1 && gre.MatchString(req.URL))
				m := guardStr(func() string { return wbool(g.Match(req)) })
				fmt.Fprintf(w, "assert c05.matchurl %s %s = %s ## %q shortcut=%q url=%q (%d bytes) pattern accepts=%v Match=%s\n", wb(g.RuleText), wb(req.URL),
					wbool(m == wbool(gacc)), g.RuleText, g.Shortcut, req.URL, len(req.URL), gacc, m)
				i++
			}
		}
	}
}

package main

// Generated facts of work group F (C13, C14), computed from the SOURCE TREE this
// binary was built from (go/parser + go/ast) and from reflection:
//
//   requestFields            field names of rules.Request (reflect), sorted
//   requestAssignedOnRefill  fields DEFINITELY assigned by getRequestFromPool
//                            (incl. its call of FillRequestForHostname), sorted
//   lockTable                every access to RuleStorage.cache, FileRuleList.File,
//                            FileRuleList.buffer, NetworkRule.regex, NetworkRule.invalid
//                            through the method receiver, with read/write and
//                            the lock held at that point
//
// "Definitely assigned": assignments in straight-line code, plus the
// intersection of both branches of an if/else; nothing from loops, switches or
// an if without else.

import (
	"fmt"
	"go/ast"
	"go/parser"
	"go/token"
	"os"
	"path/filepath"
	"reflect"
	"runtime"
	"sort"
	"strings"

	"github.com/AdguardTeam/urlfilter"
	"github.com/AdguardTeam/urlfilter/rules"
)

func init() { factSections = append(factSections, fFactsSection) }

// fRepoDir is the directory of the urlfilter module this binary was compiled
// from (follows the replace directive of go.mod).
func fRepoDir() string {
	f := runtime.FuncForPC(reflect.ValueOf(urlfilter.NewDNSEngine).Pointer())
	file, _ := f.FileLine(f.Entry())

	return filepath.Dir(file)
}

func fParseDir(dir string) (fset *token.FileSet, files []*ast.File) {
	fset = token.NewFileSet()
	ents, err := os.ReadDir(dir)
	if err != nil {
		panic(err)
	}
	for _, e := range ents {
		n := e.Name()
		if !strings.HasSuffix(n, ".go") || strings.HasSuffix(n, "_test.go") || strings.HasPrefix(n, "verif_") {
			continue
		}
		f, perr := parser.ParseFile(fset, filepath.Join(dir, n), nil, 0)
		if perr != nil {
			panic(perr)
		}
		files = append(files, f)
	}

	return fset, files
}

func fFindFunc(files []*ast.File, recv, name string) *ast.FuncDecl {
	for _, f := range files {
		for _, d := range f.Decls {
			fd, ok := d.(*ast.FuncDecl)
			if !ok || fd.Name.Name != name {
				continue
			}
			if fRecvType(fd) == recv {
				return fd
			}
		}
	}

	return nil
}

func fRecvType(fd *ast.FuncDecl) string {
	if fd.Recv == nil || len(fd.Recv.List) == 0 {
		return ""
	}
	t := fd.Recv.List[0].Type
	if s, ok := t.(*ast.StarExpr); ok {
		t = s.X
	}
	if id, ok := t.(*ast.Ident); ok {
		return id.Name
	}

	return ""
}

func fRecvName(fd *ast.FuncDecl) string {
	if fd.Recv == nil || len(fd.Recv.List) == 0 || len(fd.Recv.List[0].Names) == 0 {
		return ""
	}

	return fd.Recv.List[0].Names[0].Name
}

// ---- definite assignment of fields of one variable -------------------------

func fUnion(a, b map[string]bool) map[string]bool {
	for k := range b {
		a[k] = true
	}

	return a
}

// fAssigned returns the fields of variable v definitely assigned by stmts;
// calls maps "pkg.Func"/"Func" whose FIRST argument is v to the fields that
// function definitely assigns through its first parameter.
func fAssigned(stmts []ast.Stmt, v string, calls map[string]map[string]bool) map[string]bool {
	out := map[string]bool{}
	for _, st := range stmts {
		switch s := st.(type) {
		case *ast.AssignStmt:
			for _, l := range s.Lhs {
				if se, ok := l.(*ast.SelectorExpr); ok {
					if id, ok2 := se.X.(*ast.Ident); ok2 && id.Name == v {
						out[se.Sel.Name] = true
					}
				}
			}
		case *ast.ExprStmt:
			if c, ok := s.X.(*ast.CallExpr); ok && len(c.Args) > 0 {
				if id, ok2 := c.Args[0].(*ast.Ident); ok2 && id.Name == v {
					name := ""
					switch f := c.Fun.(type) {
					case *ast.Ident:
						name = f.Name
					case *ast.SelectorExpr:
						name = f.Sel.Name
					}
					if fs, ok3 := calls[name]; ok3 {
						fUnion(out, fs)
					}
				}
			}
		case *ast.BlockStmt:
			fUnion(out, fAssigned(s.List, v, calls))
		case *ast.IfStmt:
			if s.Else != nil {
				a := fAssigned(s.Body.List, v, calls)
				var b map[string]bool
				switch e := s.Else.(type) {
				case *ast.BlockStmt:
					b = fAssigned(e.List, v, calls)
				default:
					b = fAssigned([]ast.Stmt{e}, v, calls)
				}
				for k := range a {
					if b[k] {
						out[k] = true
					}
				}
			}
		}
	}

	return out
}

func fSortedKeys(m map[string]bool) []string {
	ks := make([]string, 0, len(m))
	for k := range m {
		ks = append(ks, k)
	}
	sort.Strings(ks)

	return ks
}

func fLeanStrings(ss []string) string {
	qs := make([]string, len(ss))
	for i, s := range ss {
		qs[i] = fmt.Sprintf("%q", s)
	}

	return "[" + strings.Join(qs, ", ") + "]"
}

// ---- lock regions -----------------------------------------------------------

type fAccess struct{ fn, field, rw, lock string }

var fGuarded = map[string]map[string]bool{
	"RuleStorage":  {"cache": true},
	"FileRuleList": {"File": true, "buffer": true},
	"NetworkRule":  {"regex": true, "invalid": true},
}

type fLockWalker struct {
	recv   string
	fields map[string]bool
	fn     string
	out    *[]fAccess
}

func fLockName(held []string) string {
	if len(held) == 0 {
		return "none"
	}

	return strings.Join(held, "+")
}

// lockCall recognises `<recv>.Lock()`, `<recv>.<mu>.RLock()` … and returns the
// lock token ("Lock(recv)", "RLock(cacheMu)") and whether it acquires.
func (w *fLockWalker) lockCall(e ast.Expr) (tok string, acquire, ok bool) {
	c, isCall := e.(*ast.CallExpr)
	if !isCall {
		return "", false, false
	}
	sel, isSel := c.Fun.(*ast.SelectorExpr)
	if !isSel {
		return "", false, false
	}
	var mode string
	switch sel.Sel.Name {
	case "Lock":
		mode, acquire = "Lock", true
	case "RLock":
		mode, acquire = "RLock", true
	case "Unlock":
		mode = "Lock"
	case "RUnlock":
		mode = "RLock"
	default:
		return "", false, false
	}
	switch x := sel.X.(type) {
	case *ast.Ident:
		if x.Name == w.recv {
			return mode + "(recv)", acquire, true
		}
	case *ast.SelectorExpr:
		if id, isID := x.X.(*ast.Ident); isID && id.Name == w.recv {
			return mode + "(" + x.Sel.Name + ")", acquire, true
		}
	}

	return "", false, false
}

func (w *fLockWalker) record(e ast.Expr, held []string, write bool) {
	ast.Inspect(e, func(n ast.Node) bool {
		switch x := n.(type) {
		case *ast.FuncLit:
			// an immediately invoked or deferred closure: its body runs with the locks held here
			w.block(x.Body.List, append([]string{}, held...))

			return false
		case *ast.SelectorExpr:
			if id, ok := x.X.(*ast.Ident); ok && id.Name == w.recv && w.fields[x.Sel.Name] {
				rw := "r"
				if write {
					rw = "w"
				}
				*w.out = append(*w.out, fAccess{fn: w.fn, field: x.Sel.Name, rw: rw, lock: fLockName(held)})
			}
		}

		return true
	})
}

// lhsBase strips index expressions: `s.cache[i] = r` writes s.cache.
func fLhsBase(e ast.Expr) ast.Expr {
	for {
		ix, ok := e.(*ast.IndexExpr)
		if !ok {
			return e
		}
		e = ix.X
	}
}

func (w *fLockWalker) block(stmts []ast.Stmt, held []string) {
	for _, st := range stmts {
		switch s := st.(type) {
		case *ast.ExprStmt:
			if tok, acq, ok := w.lockCall(s.X); ok {
				if acq {
					held = append(held, tok)
				} else {
					for i := len(held) - 1; i >= 0; i-- {
						if held[i] == tok {
							held = append(held[:i:i], held[i+1:]...)

							break
						}
					}
				}

				continue
			}
			w.record(s.X, held, false)
		case *ast.DeferStmt:
			if _, _, ok := w.lockCall(s.Call); ok {
				continue // deferred unlock: held until the function returns
			}
			w.record(s.Call, held, false)
		case *ast.AssignStmt:
			for _, l := range s.Lhs {
				base := fLhsBase(l)
				w.record(base, held, true)
				if ix, ok := l.(*ast.IndexExpr); ok {
					w.record(ix.Index, held, false)
				}
			}
			for _, r := range s.Rhs {
				w.record(r, held, false)
			}
		case *ast.BlockStmt:
			w.block(s.List, append([]string{}, held...))
		case *ast.IfStmt:
			if s.Init != nil {
				w.block([]ast.Stmt{s.Init}, append([]string{}, held...))
			}
			w.record(s.Cond, held, false)
			w.block(s.Body.List, append([]string{}, held...))
			if s.Else != nil {
				w.block([]ast.Stmt{s.Else}, append([]string{}, held...))
			}
		case *ast.SwitchStmt:
			if s.Init != nil {
				w.block([]ast.Stmt{s.Init}, append([]string{}, held...))
			}
			if s.Tag != nil {
				w.record(s.Tag, held, false)
			}
			for _, c := range s.Body.List {
				cc := c.(*ast.CaseClause)
				for _, e := range cc.List {
					w.record(e, held, false)
				}
				w.block(cc.Body, append([]string{}, held...))
			}
		case *ast.ForStmt:
			if s.Cond != nil {
				w.record(s.Cond, held, false)
			}
			w.block(s.Body.List, append([]string{}, held...))
		case *ast.RangeStmt:
			w.record(s.X, held, false)
			w.block(s.Body.List, append([]string{}, held...))
		case *ast.ReturnStmt:
			for _, e := range s.Results {
				w.record(e, held, false)
			}
		case *ast.DeclStmt, *ast.IncDecStmt, *ast.BranchStmt, *ast.EmptyStmt:
		default:
			// anything else: record reads conservatively
			ast.Inspect(st, func(n ast.Node) bool {
				if e, ok := n.(ast.Expr); ok {
					w.record(e, held, false)

					return false
				}

				return true
			})
		}
	}
}

func fLockTable(dirs ...string) (rows []fAccess) {
	for _, dir := range dirs {
		_, files := fParseDir(dir)
		for _, f := range files {
			for _, d := range f.Decls {
				fd, ok := d.(*ast.FuncDecl)
				if !ok || fd.Body == nil {
					continue
				}
				rt := fRecvType(fd)
				fields, guarded := fGuarded[rt]
				if !guarded || fRecvName(fd) == "" {
					continue
				}
				w := &fLockWalker{recv: fRecvName(fd), fields: fields, fn: rt + "." + fd.Name.Name, out: &rows}
				w.block(fd.Body.List, nil)
			}
		}
	}
	// dedup + sort
	seen := map[fAccess]bool{}
	var out []fAccess
	for _, r := range rows {
		if !seen[r] {
			seen[r] = true
			out = append(out, r)
		}
	}
	sort.Slice(out, func(i, j int) bool {
		a, b := out[i], out[j]
		if a.fn != b.fn {
			return a.fn < b.fn
		}
		if a.field != b.field {
			return a.field < b.field
		}
		if a.rw != b.rw {
			return a.rw < b.rw
		}

		return a.lock < b.lock
	})

	return out
}


// ---- construction-time ("frozen") fields -------------------------------------
//
// The Prog model treats the lookup tables, the request pool pointer, the list
// directory of the storage and the engine's sub-engines as IMMUTABLE after
// construction (Env).  fFieldWriters lists, by go/ast over the current tree,
// every function of the packages urlfilter, lookup and filterlist that WRITES a
// field of one of the frozen struct types:
//
//	x.f = v, x.f[k] = v, x.f op= v, x.f++ / --, delete(x.f, k), clear(x.f),
//	writes through a local alias (m := x.f; m[k] = v; delete(m, k)), and the
//	keyed fields of a composite literal T{f: v} / &T{f: v}
//
// together with two flags computed on the (name-based, over-approximating) call
// graph of these packages:
//
//	query  "q" if the function is reachable from a query entry point (an
//	       exported function or method that is neither a constructor New* nor the
//	       construction-time API AddRule / TryAdd), "-" otherwise;
//	ctor   "c" if the function is a constructor New*/new*, or has at least one
//	       caller and all its callers are "c" (least fixed point), "-" otherwise.
//
// RuleStorage.cache is not in this table: it is mutable by design and covered
// by the lock table above.

var fFrozenTypes = map[string]string{ // type -> package directory ("" = module root)
	"DNSEngine":           "",
	"NetworkEngine":       "",
	"Engine":              "",
	"CosmeticEngine":      "",
	"cosmeticLookupTable": "",
	"ShortcutsTable":      "lookup",
	"DomainsTable":        "lookup",
	"SeqScanTable":        "lookup",
	"RuleStorage":         "filterlist",
}

// fields of frozen types that are mutable by design (guarded by a lock, see fGuarded)
var fFrozenExempt = map[string]bool{"RuleStorage.cache": true}

type fWriterRow struct{ fn, field, query, ctor string }

type fFuncInfo struct {
	name    string // "Type.Method" or "Func"
	short   string // method or function name alone (what call sites show)
	decl    *ast.FuncDecl
	imports map[string]bool
	calls   map[string]bool // short names of callees
	writes  map[string]bool // field labels
}

func fFuncName(fd *ast.FuncDecl) string {
	if rt := fRecvType(fd); rt != "" {
		return rt + "." + fd.Name.Name
	}

	return fd.Name.Name
}

func fBaseSelector(e ast.Expr) (sel *ast.SelectorExpr, ident *ast.Ident) {
	for {
		switch x := e.(type) {
		case *ast.IndexExpr:
			e = x.X
		case *ast.ParenExpr:
			e = x.X
		case *ast.StarExpr:
			e = x.X
		case *ast.SliceExpr:
			e = x.X
		case *ast.SelectorExpr:
			return x, nil
		case *ast.Ident:
			return nil, x
		default:
			return nil, nil
		}
	}
}

func fCompositeType(e ast.Expr) string {
	if u, ok := e.(*ast.UnaryExpr); ok && u.Op == token.AND {
		e = u.X
	}
	cl, ok := e.(*ast.CompositeLit)
	if !ok || cl.Type == nil {
		return ""
	}
	switch t := cl.Type.(type) {
	case *ast.Ident:
		return t.Name
	case *ast.SelectorExpr:
		return t.Sel.Name
	}

	return ""
}

// fFieldWriters computes the rows, the frozen types found and all their fields.
func fFieldWriters(repo string) (rows []fWriterRow, typesFound []string, fieldsFound []string) {
	// 1. struct fields of the frozen types: field name -> owner types
	owners := map[string][]string{}
	var funcs []*fFuncInfo
	dirs := []string{"", "lookup", "filterlist"}
	for _, dir := range dirs {
		_, files := fParseDir(filepath.Join(repo, dir))
		for _, f := range files {
			imports := map[string]bool{}
			for _, im := range f.Imports {
				path := strings.Trim(im.Path.Value, "\"")
				name := path[strings.LastIndex(path, "/")+1:]
				if im.Name != nil {
					name = im.Name.Name
				}
				imports[name] = true
			}
			for _, d := range f.Decls {
				switch x := d.(type) {
				case *ast.GenDecl:
					for _, sp := range x.Specs {
						ts, ok := sp.(*ast.TypeSpec)
						if !ok {
							continue
						}
						st, ok := ts.Type.(*ast.StructType)
						if pd, frozen := fFrozenTypes[ts.Name.Name]; !ok || !frozen || pd != dir {
							continue
						}
						typesFound = append(typesFound, ts.Name.Name)
						for _, fl := range st.Fields.List {
							for _, n := range fl.Names {
								if fFrozenExempt[ts.Name.Name+"."+n.Name] {
									continue
								}
								owners[n.Name] = append(owners[n.Name], ts.Name.Name)
								fieldsFound = append(fieldsFound, ts.Name.Name+"."+n.Name)
							}
						}
					}
				case *ast.FuncDecl:
					if x.Body != nil {
						funcs = append(funcs, &fFuncInfo{name: fFuncName(x), short: x.Name.Name, decl: x, imports: imports,
							calls: map[string]bool{}, writes: map[string]bool{}})
					}
				}
			}
		}
	}
	sort.Strings(typesFound)
	sort.Strings(fieldsFound)
	label := func(field, inType string) string {
		os := owners[field]
		if len(os) == 0 {
			return ""
		}
		for _, o := range os {
			if o == inType {
				return o + "." + field
			}
		}
		cp := append([]string{}, os...)
		sort.Strings(cp)

		return strings.Join(cp, "/") + "." + field
	}
	// 2. writes and calls of every function
	for _, fi := range funcs {
		recvT, recvN := fRecvType(fi.decl), fRecvName(fi.decl)
		alias := map[string]string{} // local identifier -> field label
		fieldOf := func(e ast.Expr) string {
			sel, id := fBaseSelector(e)
			if sel != nil {
				if x, ok := sel.X.(*ast.Ident); ok {
					if fi.imports[x.Name] && x.Obj == nil {
						return "" // pkg.Name
					}
					if x.Name == recvN && recvN != "" {
						return label(sel.Sel.Name, recvT)
					}
				}

				return label(sel.Sel.Name, "")
			}
			if id != nil {
				return alias[id.Name]
			}

			return ""
		}
		ast.Inspect(fi.decl.Body, func(n ast.Node) bool {
			switch x := n.(type) {
			case *ast.AssignStmt:
				for i, l := range x.Lhs {
					if _, isIdent := l.(*ast.Ident); isIdent {
						// alias: m := x.f (the RHS is exactly a field)
						if len(x.Rhs) == len(x.Lhs) {
							if sel, ok := x.Rhs[i].(*ast.SelectorExpr); ok {
								if lb := fieldOf(sel); lb != "" {
									alias[l.(*ast.Ident).Name] = lb
								}
							}
						}

						continue
					}
					if lb := fieldOf(l); lb != "" {
						fi.writes[lb] = true
					}
				}
			case *ast.IncDecStmt:
				if _, isIdent := x.X.(*ast.Ident); !isIdent {
					if lb := fieldOf(x.X); lb != "" {
						fi.writes[lb] = true
					}
				}
			case *ast.CallExpr:
				switch f := x.Fun.(type) {
				case *ast.Ident:
					if (f.Name == "delete" || f.Name == "clear") && len(x.Args) > 0 {
						if lb := fieldOf(x.Args[0]); lb != "" {
							fi.writes[lb] = true
						}
					}
					fi.calls[f.Name] = true
				case *ast.SelectorExpr:
					fi.calls[f.Sel.Name] = true
				}
			case *ast.CompositeLit:
				tn := ""
				switch t := x.Type.(type) {
				case *ast.Ident:
					tn = t.Name
				case *ast.SelectorExpr:
					tn = t.Sel.Name
				}
				if _, frozen := fFrozenTypes[tn]; frozen {
					for _, el := range x.Elts {
						if kv, ok := el.(*ast.KeyValueExpr); ok {
							if k, ok2 := kv.Key.(*ast.Ident); ok2 {
								if lb := label(k.Name, tn); lb != "" && !fFrozenExempt[tn+"."+k.Name] {
									fi.writes[lb] = true
								}
							}
						}
					}
				}
			}

			return true
		})
	}
	// 3. call graph flags (by short name)
	isCtor := func(fi *fFuncInfo) bool {
		return strings.HasPrefix(fi.short, "New") || strings.HasPrefix(fi.short, "new")
	}
	isEntry := func(fi *fFuncInfo) bool {
		return ast.IsExported(fi.short) && !isCtor(fi) && fi.short != "AddRule" && fi.short != "TryAdd" &&
			(fRecvType(fi.decl) == "" || ast.IsExported(fRecvType(fi.decl)) || true)
	}
	byShort := map[string][]*fFuncInfo{}
	for _, fi := range funcs {
		byShort[fi.short] = append(byShort[fi.short], fi)
	}
	onQuery := map[*fFuncInfo]bool{}
	var work []*fFuncInfo
	for _, fi := range funcs {
		if isEntry(fi) {
			onQuery[fi] = true
			work = append(work, fi)
		}
	}
	for len(work) > 0 {
		fi := work[len(work)-1]
		work = work[:len(work)-1]
		for c := range fi.calls {
			for _, g := range byShort[c] {
				// the construction-time API is not followed from query code: a call of it there is reported
				// as a write of the caller instead (see below)
				if !onQuery[g] && !isCtor(g) && g.short != "AddRule" && g.short != "TryAdd" {
					onQuery[g] = true
					work = append(work, g)
				}
			}
		}
	}
	callers := map[*fFuncInfo][]*fFuncInfo{}
	for _, fi := range funcs {
		for c := range fi.calls {
			for _, g := range byShort[c] {
				callers[g] = append(callers[g], fi)
			}
		}
	}
	ctor := map[*fFuncInfo]bool{}
	for _, fi := range funcs {
		if isCtor(fi) {
			ctor[fi] = true
		}
	}
	for changed := true; changed; {
		changed = false
		for _, fi := range funcs {
			if ctor[fi] || len(callers[fi]) == 0 {
				continue
			}
			all := true
			for _, g := range callers[fi] {
				if g != fi && !ctor[g] {
					all = false
				}
			}
			if all {
				ctor[fi] = true
				changed = true
			}
		}
	}
	flag := func(b bool, t string) string {
		if b {
			return t
		}

		return "-"
	}
	for _, fi := range funcs {
		for lb := range fi.writes {
			rows = append(rows, fWriterRow{fn: fi.name, field: lb, query: flag(onQuery[fi], "q"), ctor: flag(ctor[fi], "c")})
		}
		// query code calling the construction-time API writes the tables
		if onQuery[fi] {
			for c := range fi.calls {
				if c == "AddRule" || c == "TryAdd" {
					rows = append(rows, fWriterRow{fn: fi.name, field: "call:" + c, query: "q", ctor: flag(ctor[fi], "c")})
				}
			}
		}
	}
	sort.Slice(rows, func(i, j int) bool {
		if rows[i].fn != rows[j].fn {
			return rows[i].fn < rows[j].fn
		}

		return rows[i].field < rows[j].field
	})

	return rows, typesFound, fieldsFound
}

func fFactsSection(p func(format string, a ...any)) {
	repo := fRepoDir()
	p("-- group F (C13): fields of rules.Request (reflect) and the fields definitely assigned when a pooled request is refilled")
	var fields []string
	rt := reflect.TypeOf(rules.Request{})
	for i := 0; i < rt.NumField(); i++ {
		fields = append(fields, rt.Field(i).Name)
	}
	sort.Strings(fields)
	p("def requestFields : List String := %s", fLeanStrings(fields))

	_, rulesFiles := fParseDir(filepath.Join(repo, "rules"))
	_, rootFiles := fParseDir(repo)
	assigned := map[string]bool{}
	if fill := fFindFunc(rulesFiles, "", "FillRequestForHostname"); fill != nil && len(fill.Type.Params.List) > 0 &&
		len(fill.Type.Params.List[0].Names) > 0 {
		fillSet := fAssigned(fill.Body.List, fill.Type.Params.List[0].Names[0].Name, nil)
		if get := fFindFunc(rootFiles, "DNSEngine", "getRequestFromPool"); get != nil {
			v := "req"
			if get.Type.Results != nil && len(get.Type.Results.List) > 0 && len(get.Type.Results.List[0].Names) > 0 {
				v = get.Type.Results.List[0].Names[0].Name
			}
			assigned = fAssigned(get.Body.List, v, map[string]map[string]bool{"FillRequestForHostname": fillSet})
		}
	}
	p("def requestAssignedOnRefill : List String := %s", fLeanStrings(fSortedKeys(assigned)))
	p("")
	p("-- group F (C14): accesses to the guarded fields through the method receiver: (function, field, r/w, lock held)")
	rows := fLockTable(filepath.Join(repo, "filterlist"), filepath.Join(repo, "rules"))
	p("def lockTable : List (String × String × String × String) := [")
	for i, r := range rows {
		sep := ","
		if i == len(rows)-1 {
			sep = ""
		}
		p("  (%q, %q, %q, %q)%s", r.fn, r.field, r.rw, r.lock, sep)
	}
	p("]")
	p("")
	p("-- group J (C14): writers of the fields the model treats as immutable after construction:")
	p("-- (function, field, on a query path q/-, constructor-only c/-); the frozen struct types found; all their fields")
	wrows, types, fields := fFieldWriters(repo)
	p("def fieldWriters : List (String × String × String × String) := [")
	for i, r := range wrows {
		sep := ","
		if i == len(wrows)-1 {
			sep = ""
		}
		p("  (%q, %q, %q, %q)%s", r.fn, r.field, r.query, r.ctor, sep)
	}
	p("]")
	p("def frozenTypes : List String := %s", fLeanStrings(types))
	// the frozen types at least one field of which is written by a constructor-only function
	written := map[string]bool{}
	for _, r := range wrows {
		if r.ctor != "c" {
			continue
		}
		owner := r.field
		if i := strings.LastIndex(owner, "."); i >= 0 {
			owner = owner[:i]
		}
		for _, t := range strings.Split(owner, "/") {
			written[t] = true
		}
	}
	p("def ctorWrittenTypes : List String := %s", fLeanStrings(fSortedKeys(written)))
	p("def frozenFields : List String := %s", fLeanStrings(fields))
}

package main

// C08 (integration group L) -- the VALUE-ORDER inconsistency of the twin relation.
//
//	assert l.c08order <kind> <base text> <near-twin text> = T|F
//
// The base rule is `||host^$<mod>=v1|v2|…` (2-4 distinct values, some of them
// `~`-negated where the modifier allows it), the near-twin carries the same
// values in PERMUTED order plus `badfilter`.  The lemmas of
// lean/UF/Props/C08Order.lean say what the code does:
//
//	$ctag, $client                 (sorted at parse time)   twin negates the base rule, whatever the order
//	$domain, $denyallow, $dnstype  (written order kept)     negates iff the permitted values and the restricted
//	                                                        values come in the same order in both texts
//
// The answer is T iff (1) VerifNegatesBadfilter gives exactly that, (2) the base
// rule alone decides a request built to match it, and (3) with the near-twin
// in the same engine the base rule is disabled exactly when (1) says "negates"
// (DNSEngine for $denyallow/$dnstype/$ctag/$client, NetworkEngine for $domain).
// The driver answers `T T` to every assert line.

import (
	"bufio"
	"fmt"
	"net/netip"
	"strings"

	"github.com/AdguardTeam/urlfilter"
	"github.com/AdguardTeam/urlfilter/filterlist"
	"github.com/AdguardTeam/urlfilter/rules"
)

func init() {
	gens["l.c08order"] = lGenC08Order
}

type lC08Val struct {
	text string // the value as written (without `~`)
	// a request datum that makes a rule permitting this value match
	name string     // client name / ctag / source host
	ip   netip.Addr // client address
	rr   uint16     // DNS record type
}

var lC08Hosts = []string{"e.com", "ads.example.org", "sub.t.net", "x.e.com"}

var lC08Pool = map[string][]lC08Val{
	"domain": {
		{text: "a.com", name: "a.com"}, {text: "b.com", name: "b.com"}, {text: "site.org", name: "www.site.org"},
		{text: "news.*", name: "news.co.uk"}, {text: "c.b.com", name: "c.b.com"}, {text: "xn--e1afmkfd.net", name: "xn--e1afmkfd.net"},
	},
	"denyallow": {
		{text: "a.com"}, {text: "b.com"}, {text: "site.org"}, {text: "c.b.com"}, {text: "cdn.*"}, {text: "z.net"},
	},
	"dnstype": {
		{text: "A", rr: 1}, {text: "AAAA", rr: 28}, {text: "cname", rr: 5}, {text: "Mx", rr: 15}, {text: "HTTPS", rr: 65},
		{text: "srv", rr: 33}, {text: "PTR", rr: 12},
	},
	"ctag": {
		{text: "x", name: "x"}, {text: "y", name: "y"}, {text: "device_pc", name: "device_pc"}, {text: "os_linux", name: "os_linux"},
		{text: "user_child", name: "user_child"}, {text: "a1", name: "a1"},
	},
	"client": {
		{text: "laptop", name: "laptop"}, {text: "'Kids-PC'", name: "Kids-PC"}, {text: "Phone", name: "Phone"}, {text: "tv", name: "tv"},
		{text: "\"Mary's\"", name: "Mary's"},
		{text: "10.0.0.1", ip: netip.MustParseAddr("10.0.0.1")}, {text: "192.168.1.7", ip: netip.MustParseAddr("192.168.1.7")},
		{text: "fe80::1", ip: netip.MustParseAddr("fe80::1")},
		{text: "10.0.0.0/8", ip: netip.MustParseAddr("10.9.8.7")}, {text: "192.168.0.0/16", ip: netip.MustParseAddr("192.168.200.1")},
		{text: "2001:db8::/32", ip: netip.MustParseAddr("2001:db8::5")}, {text: "10.0.0.1/32", ip: netip.MustParseAddr("10.0.0.1")},
		{text: "172.16.5.4/12", ip: netip.MustParseAddr("172.20.0.1")},
	},
}

var lC08Kinds = []string{"domain", "denyallow", "dnstype", "ctag", "client"}

type lC08Item struct {
	v   lC08Val
	neg bool
}

// key identifies the parsed value: the record type number for $dnstype (the
// case of the name is irrelevant), the text otherwise.
func (it lC08Item) key() string {
	if it.v.rr != 0 {
		return fmt.Sprint(it.v.rr)
	}

	return it.v.text
}

func (it lC08Item) String() string {
	if it.neg {
		return "~" + it.v.text
	}

	return it.v.text
}

func lC08Join(items []lC08Item) string {
	var ss []string
	for _, it := range items {
		ss = append(ss, it.String())
	}

	return strings.Join(ss, "|")
}

// lC08SameOrder: the permitted values come in the same order in both lists,
// and so do the restricted values.
func lC08SameOrder(a, b []lC08Item) bool {
	sub := func(items []lC08Item, neg bool) (s []string) {
		for _, it := range items {
			if it.neg == neg {
				s = append(s, it.key())
			}
		}

		return s
	}

	return strings.Join(sub(a, false), "|") == strings.Join(sub(b, false), "|") &&
		strings.Join(sub(a, true), "|") == strings.Join(sub(b, true), "|")
}

func lC08Engines(texts []string) (*urlfilter.DNSEngine, *urlfilter.NetworkEngine) {
	s, err := filterlist.NewRuleStorage([]filterlist.RuleList{
		&filterlist.StringRuleList{ID: 1, RulesText: strings.Join(texts, "\n") + "\n"},
	})
	if err != nil {
		panic(err)
	}

	return urlfilter.NewDNSEngine(s), urlfilter.NewNetworkEngine(s)
}

// lC08Decides: does an engine over `texts` return a network rule for the
// request built to match the base rule?
func lC08Decides(kind, host string, items []lC08Item, texts []string) bool {
	var first *lC08Val
	for i := range items {
		if !items[i].neg {
			first = &items[i].v

			break
		}
	}
	de, ne := lC08Engines(texts)
	if kind == "domain" {
		src := "http://unrelated.zz/"
		if first != nil {
			src = "http://" + first.name + "/page"
		}
		f, ok := ne.Match(rules.NewRequest("http://"+host+"/x", src, rules.TypeScript))

		return ok && f != nil
	}
	q := &urlfilter.DNSRequest{Hostname: host, DNSType: 1}
	switch kind {
	case "dnstype":
		q.DNSType = 16 // TXT: not in the pool
		if first != nil {
			q.DNSType = first.rr
		}
	case "ctag":
		q.SortedClientTags = []string{"zz_none"}
		if first != nil {
			q.SortedClientTags = []string{first.name}
		}
	case "client":
		q.ClientName = "nobody"
		q.ClientIP = netip.MustParseAddr("8.8.8.8")
		if first != nil {
			if first.name != "" {
				q.ClientName = first.name
			} else {
				q.ClientIP = first.ip
			}
		}
	}
	res, ok := de.MatchRequest(q)

	return ok && res.NetworkRule != nil
}

func lGenC08Order(r *rng, n int, w *bufio.Writer) {
	emit := func(kind, host string, base, twin []lC08Item, extra string, front bool) {
		mod := kind + "=" + lC08Join(base)
		modT := kind + "=" + lC08Join(twin)
		if extra != "" {
			mod += "," + extra
			modT = extra + "," + modT
		}
		t1 := "||" + host + "^$" + mod
		t2 := "||" + host + "^$" + modT + ",badfilter"
		if front {
			t2 = "||" + host + "^$badfilter," + modT
		}
		want := true
		if kind == "domain" || kind == "denyallow" || kind == "dnstype" {
			want = lC08SameOrder(base, twin)
		}
		detail := ""
		ans := guardStr(func() string {
			f1, err := rules.NewNetworkRule(t1, 1)
			if err != nil {
				detail = "base rejected: " + err.Error()

				return "F"
			}
			f2, err := rules.NewNetworkRule(t2, 1)
			if err != nil {
				detail = "twin rejected: " + err.Error()

				return "F"
			}
			neg := f2.VerifNegatesBadfilter(f1)
			alone := lC08Decides(kind, host, base, []string{t1})
			both := lC08Decides(kind, host, base, []string{t1, t2})
			if r.chance(1, 2) {
				both = lC08Decides(kind, host, base, []string{t2, t1})
			}
			detail = fmt.Sprintf("negates=%v expected=%v base-alone-decides=%v with-twin-decides=%v", neg, want, alone, both)

			return wbool(neg == want && alone && both == !want)
		})
		fmt.Fprintf(w, "assert l.c08order %s %s %s = %s ## %s  vs  %s : %s\n", wb(kind), wb(t1), wb(t2), ans, t1, t2, detail)
	}
	mk := func(ss ...string) (items []lC08Item) {
		for _, s := range ss {
			items = append(items, lC08Item{v: lC08Val{text: s, name: s}})
		}

		return items
	}
	// the reviewer's four texts first
	emit("domain", "e.com", mk("a.com", "b.com"), mk("b.com", "a.com"), "", false)
	emit("ctag", "e.com", mk("x", "y"), mk("y", "x"), "", false)
	for i := 0; i < n; i++ {
		kind := pick(r, lC08Kinds)
		host := pick(r, lC08Hosts)
		pool := append([]lC08Val(nil), lC08Pool[kind]...)
		shuffle(r, pool)
		k := 2 + r.n(3)
		if kind != "dnstype" && r.chance(1, 10) {
			// N2: MANY values (5, 9, 17, 33, 41, 65 … up to 70): the pool is extended by generated values
			k = n2Count(r, 1, nil, 5, 70)
			for j := 0; len(pool) < k; j++ {
				var v lC08Val
				switch kind {
				case "domain":
					v = lC08Val{text: fmt.Sprintf("d%d.net", j), name: fmt.Sprintf("d%d.net", j)}
				case "denyallow":
					v = lC08Val{text: fmt.Sprintf("h%d.org", j)}
				case "ctag":
					v = lC08Val{text: fmt.Sprintf("tag_%d", j), name: fmt.Sprintf("tag_%d", j)}
				default:
					if j%2 == 0 {
						v = lC08Val{text: fmt.Sprintf("pc%d", j), name: fmt.Sprintf("pc%d", j)}
					} else {
						ip := fmt.Sprintf("10.7.%d.1", j%256)
						v = lC08Val{text: ip, ip: netip.MustParseAddr(ip)}
					}
				}
				pool = append(pool, v)
			}
			shuffle(r, pool)
		}
		var base []lC08Item
		for _, v := range pool[:k] {
			neg := kind != "denyallow" && r.chance(1, 5)
			if kind == "dnstype" && r.chance(1, 3) {
				// case of the type name is irrelevant
				if r.chance(1, 2) {
					v.text = strings.ToLower(v.text)
				} else {
					v.text = strings.ToUpper(v.text)
				}
			}
			base = append(base, lC08Item{v: v, neg: neg})
		}
		if !lC08Decides(kind, host, base, []string{"||" + host + "^$" + kind + "=" + lC08Join(base)}) {
			// a restricted value covers the datum of the first permitted one: no negations
			for j := range base {
				base[j].neg = false
			}
		}
		twin := append([]lC08Item(nil), base...)
		if !r.chance(1, 4) {
			// a non-identity permutation
			for same := true; same; {
				shuffle(r, twin)
				same = lC08Join(twin) == lC08Join(base)
			}
		}
		if kind == "dnstype" && r.chance(1, 3) {
			for j := range twin {
				twin[j].v.text = strings.ToLower(twin[j].v.text)
			}
		}
		extra := ""
		if r.chance(1, 4) {
			extra = "important"
		}
		emit(kind, host, base, twin, extra, r.chance(1, 3))
	}
}

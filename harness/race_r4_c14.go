package main

// C14, dynamic part, DENSE worlds (group R4).
//
// The worlds of fGenWorld take their rules from a pool of long domain names, so the buckets of the shortcuts table hold
// one or two indexes each, a hostname hits one or two buckets and every rule line is far shorter than any buffer.  A
// dense world (every fourth round of c14sc / c14race, see fConcRound) has
//
//   * BUCKETS WITH SEVERAL ENTRIES: 1..3 groups of 2..9 rules whose shortcut is ONE five-byte label (`adsrv$client=a`,
//     `||adsrv^$ctag=b`, `@@adsrv$important` ... all land in the bucket of "adsrv"; a slice built by append has spare
//     capacity for 3, 5, 6, 7, 9 entries), rules on several short domains (`||alpha1.com^` ...), and rules on the
//     subdomains `blockN.<domain>`;
//   * HOSTNAMES AND URLS COMPOSED OF SEVERAL INDEXED LABELS (`adsrv.alpha1.bravo2.com`, `adsrv.bravo2.com`,
//     `track.adsrv.charlie3.net` ...): one query walks 2..5 non-empty buckets, and many queries of the pool START with
//     the same bucket and continue with different ones;
//   * LONG RULE LINES: 0..6 rules of 500..700 bytes (around a 512-byte read), 1000..3000 bytes and 4000..7000 bytes (around
//     and beyond the 4 KiB line buffer of a list) made of long `$client=` / `$domain=` / `$denyallow=` / `$ctag=` value
//     lists whose LAST value decides: the pool asks about each of them with the deciding value and with another one, so
//     a line whose tail is wrong gives a wrong answer.  Two thirds of the dense worlds are File-backed (cold cache
//     first).
//
// Each concurrent answer is compared with the sequential one, exactly as in the ordinary rounds.

import (
	"fmt"
	"net/netip"
	"strings"

	"github.com/AdguardTeam/urlfilter"
	"github.com/AdguardTeam/urlfilter/rules"
)

var r4Labels5 = []string{"adsrv", "track", "pixel", "stats", "click", "cdnzz", "beaco"}
var r4Domains = []string{"alpha1.com", "bravo2.com", "charlie3.net", "delta4.org", "echo55.io", "fox66.com"}

// r4LongValues makes a `|`-separated value list of about n bytes that ends with last.
func r4LongValues(r *rng, prefix string, n int, last string) string {
	var sb strings.Builder
	for i := 0; sb.Len()+len(last) < n; i++ {
		fmt.Fprintf(&sb, "%s%02d-%x|", prefix, i, r.n(1<<16))
	}
	sb.WriteString(last)

	return sb.String()
}

func r4GenDenseWorld(r *rng) (w *fWorld, pool []*fQuery, kind string) {
	w = &fWorld{}
	labels := append([]string(nil), r4Labels5...)
	shuffle(r, labels)
	labels = labels[:1+r.n(3)]
	doms := append([]string(nil), r4Domains...)
	shuffle(r, doms)
	doms = doms[:2+r.n(3)]
	fileMode := pick(r, []int{0, 1, 1})
	nl := 1 + r.n(2)
	ids := []int{1, 2, 7, 1000, -3}
	shuffle(r, ids)
	lines := make([][]string, nl)
	add := func(line string) {
		li := r.n(nl)
		lines[li] = append(lines[li], line)
		w.ruleTexts = append(w.ruleTexts, line)
	}
	// groups of rules sharing one five-byte shortcut; all rules of a group in one list and in list order (the bucket is
	// built by appending in scan order) or spread over the lists
	var groupSizes []string
	for _, x := range labels {
		k := pick(r, []int{3, 3, 5, 6, 7, 2, 4, 9})
		groupSizes = append(groupSizes, fmt.Sprintf("%s x%d", x, k))
		li := r.n(nl)
		spread := r.chance(1, 3)
		for j := 0; j < k; j++ {
			pat := pick(r, []string{"||" + x + "^", x, "||" + x, "|" + x, x + "^"})
			var mod string
			uniq := fmt.Sprintf(",client=~nobody%d", j)
			switch r.n(8) {
			case 0:
				mod = "$important" + uniq
			case 1:
				mod = fmt.Sprintf("$ctag=%s", pick(r, poolTags)) + uniq
			case 2:
				mod = fmt.Sprintf("$dnstype=%s", pick(r, []string{"A", "AAAA", "~A", "TXT"})) + uniq
			case 3:
				mod = fmt.Sprintf("$denyallow=%s|d%d.example", pick(r, doms), j)
			case 4:
				mod = fmt.Sprintf("$dnsrewrite=10.0.%d.%d", j, r.n(250))
			default:
				mod = fmt.Sprintf("$client=%s|host%d", pick(r, []string{"laptop", "phone", "tv", "10.0.0.5", "192.168.1.0/24"}), j)
			}
			line := pat + mod
			if r.chance(1, 6) {
				line = "@@" + line
			}
			if spread {
				li = r.n(nl)
			}
			lines[li] = append(lines[li], line)
			w.ruleTexts = append(w.ruleTexts, line)
		}
	}
	for _, d := range doms {
		for k := 1 + r.n(3); k > 0; k-- {
			add(pick(r, []string{"||" + d + "^", "||" + d + "^$important", "@@||" + d + "^$client=laptop", "||" + d + "^$dnsrewrite=1.2.3.4",
				"||" + d + "^$client=phone", "||" + d + "^$dnstype=AAAA", "@@||" + d + "^$ctag=device_pc", "||" + d + "/path", "|http://" + d + "^$domain=" + pick(r, doms)}))
		}
	}
	// long lines whose LAST value decides
	type longRule struct {
		host, mod, last string
	}
	var longs []longRule
	nLong := r.n(7)
	var longSizes []int
	for j := 0; j < nLong; j++ {
		var n int
		switch r.n(6) {
		case 0:
			n = 505 + r.n(16) // around 512
		case 1, 2:
			n = 520 + r.n(200)
		case 3:
			n = 1000 + r.n(2000)
		case 4:
			n = 4080 + r.n(32) // around 4096
		default:
			n = 4100 + r.n(3000)
		}
		host := fmt.Sprintf("block%d.%s", j, pick(r, doms))
		mod := pick(r, []string{"client", "client", "domain", "denyallow", "ctag"})
		var last, vals string
		switch mod {
		case "client":
			last = fmt.Sprintf("user%d", j)
			vals = r4LongValues(r, fmt.Sprintf("dev%d-", j), n, last)
		case "ctag":
			last = pick(r, poolTags)
			vals = strings.ReplaceAll(r4LongValues(r, fmt.Sprintf("tag%d_", j), n, last), "-", "_")
		default:
			last = fmt.Sprintf("site%d.example", j)
			vals = r4LongValues(r, fmt.Sprintf("s%d-", j), n, last)
			vals = strings.ReplaceAll(vals, "|"+last, ".example|"+last)
			vals = strings.ReplaceAll(vals, "-", "x")
			vals = strings.ReplaceAll(vals, "|s", ".example|s")
		}
		line := "||" + host + "^$" + mod + "=" + vals
		if mod == "denyallow" {
			// every host under the domain but the hosts of the list, the LAST of which is blockN.<domain>
			d := host[strings.IndexByte(host, '.')+1:]
			last = host
			vals = vals[:strings.LastIndexByte(vals, '|')+1] + last
			line = "||" + d + "^$denyallow=" + vals + fmt.Sprintf(",domain=src%d.example", j)
		}
		longs = append(longs, longRule{host: host, mod: mod, last: last})
		longSizes = append(longSizes, len(line))
		add(line)
	}
	// a little of everything else
	for k := r.n(6); k > 0; k-- {
		switch r.n(4) {
		case 0:
			line, names := fGenHostsLine(r)
			li := r.n(nl)
			lines[li] = append(lines[li], line)
			w.hostNames = append(w.hostNames, names...)
		case 1:
			li := r.n(nl)
			lines[li] = append(lines[li], fGenCosmeticLine(r))
		case 2:
			li := r.n(nl)
			lines[li] = append(lines[li], pick(r, []string{"! comment", "", "# comment"}))
		default:
			add(genNetRuleText(r, true))
		}
	}
	for li := 0; li < nl; li++ {
		// the groups stay in order; the position of the rest does not matter
		text := strings.Join(lines[li], pick(r, []string{"\n", "\n", "\r\n"}))
		if r.chance(3, 4) {
			text += "\n"
		}
		w.specs = append(w.specs, fListSpec{id: ids[li], text: text, file: fileMode == 1})
	}
	w.domains = append(w.domains, doms...)

	// ---- the query pool ----
	compose := func(first string) string {
		// first label, then 1..3 further indexed labels / domains, ending in a domain
		parts := []string{first}
		for k := r.n(3); k > 0; k-- {
			if r.chance(1, 3) {
				parts = append(parts, pick(r, labels))
			} else {
				d := pick(r, doms)
				parts = append(parts, d[:strings.IndexByte(d, '.')])
			}
		}
		parts = append(parts, pick(r, doms))

		return strings.Join(parts, ".")
	}
	client := func(d *urlfilter.DNSRequest) {
		if r.chance(2, 3) {
			d.ClientName = pick(r, []string{"", "laptop", "phone", "tv"})
			d.SortedClientTags = genSortedTags(r)
			if r.chance(1, 2) {
				d.ClientIP = netip.MustParseAddr(pick(r, []string{"10.0.0.5", "192.168.1.7", "127.0.0.1"}))
			}
			d.DNSType = pick(r, []uint16{1, 28, 16})
		}
	}
	for _, x := range labels {
		// several queries that START with the bucket of x and go on differently
		for k := 3 + r.n(5); k > 0; k-- {
			h := compose(x)
			d := &urlfilter.DNSRequest{Hostname: h}
			client(d)
			switch r.n(4) {
			case 0:
				pool = append(pool, &fQuery{kind: "all", web: hostnameRequest(d)})
			case 1:
				q := rules.NewRequest("http://"+h+pick(r, []string{"/", "/path", "/" + pick(r, labels) + "/x.js"}), "http://"+pick(r, doms)+"/", pick(r, poolReqTypes))
				pool = append(pool, &fQuery{kind: pick(r, []string{"all", "web"}), web: q})
			default:
				pool = append(pool, &fQuery{kind: "dns", dns: d})
			}
		}
		if r.chance(1, 2) {
			pool = append(pool, &fQuery{kind: "dns", dns: &urlfilter.DNSRequest{Hostname: x}})
		}
	}
	for k := 1 + r.n(3); k > 0; k-- {
		d := pick(r, doms)
		h := compose(d[:strings.IndexByte(d, '.')])
		pool = append(pool, &fQuery{kind: "dns", dns: &urlfilter.DNSRequest{Hostname: h}})
	}
	for _, l := range longs {
		// with the deciding value, and with another one
		for pass := 0; pass < 2; pass++ {
			val := l.last
			if pass == 1 {
				if r.chance(1, 2) {
					continue
				}
				val = "other" + l.last
			}
			switch l.mod {
			case "client":
				d := &urlfilter.DNSRequest{Hostname: l.host, ClientName: val, DNSType: 1}
				if r.chance(1, 3) {
					pool = append(pool, &fQuery{kind: "all", web: hostnameRequest(d)})
				} else {
					pool = append(pool, &fQuery{kind: "dns", dns: d})
				}
			case "ctag":
				d := &urlfilter.DNSRequest{Hostname: l.host, SortedClientTags: []string{val}, DNSType: 1}
				pool = append(pool, &fQuery{kind: "dns", dns: d})
			case "denyallow":
				// val is the request's host here: the last host of the list (exempt) or another host of the domain
				j := strings.TrimPrefix(l.host[:strings.IndexByte(l.host, '.')], "block")
				q := rules.NewRequest("http://"+val+"/ad.js", "http://src"+j+".example/page", rules.TypeScript)
				pool = append(pool, &fQuery{kind: pick(r, []string{"all", "web"}), web: q})
			default:
				q := rules.NewRequest("http://"+l.host+"/ad.js", "http://"+val+"/page", rules.TypeScript)
				pool = append(pool, &fQuery{kind: pick(r, []string{"all", "web"}), web: q})
			}
		}
	}
	for k := r.n(4); k > 0; k-- {
		pool = append(pool, &fQuery{kind: "cos", host: pick(r, doms), opt: rules.CosmeticOption(r.n(8))})
	}
	kind = fmt.Sprintf("DENSE world: groups sharing a 5-byte shortcut %v, domains %v, %d long lines %v bytes", groupSizes, doms, nLong, longSizes)

	return w, pool, kind
}

package main

// op `c02.dns` (C02): the real DNSEngine.MatchRequest vs the model DNS engine vs
// the reference scan over all rules.
//   c02.dns ((idx R|H|K)…) Q psl addrs (pat…) <basic: _ | x<text of Go's NetworkRule>>
//        = (netTexts…)|<class of NetworkRule: _ = nil, else <exception><important>>|(v4…)|(v6…)|<matched>
// Which of several tied rules GetDNSBasicRule picks belongs to C06/C07; here Go's choice is an
// input of the MODEL (which checks that it is one of the candidates); the reference computes the
// basic rule itself, and its nil-ness and exception/important CLASS are compared (C02's text).

import (
	"bufio"
	"fmt"
	"sort"
	"strings"
	"sync"

	"github.com/AdguardTeam/urlfilter"
	"github.com/AdguardTeam/urlfilter/filterlist"
	"github.com/AdguardTeam/urlfilter/filterutil"
	"github.com/AdguardTeam/urlfilter/rules"
)

func init() { gens["c02.dns"] = c02Gen }

// c02HostCollisions returns pairs of distinct short host names with equal FastHash
// (found once by a deterministic birthday search).
var (
	c02HostCollisionsOnce  sync.Once
	c02HostCollisionsCache [][2]string
)

func c02HostCollisions() [][2]string {
	c02HostCollisionsOnce.Do(func() {
		seen := map[uint32]string{}
		letters := "abcdefghijklmnopqrstuvwxyz"
		x := uint64(12345)
		for i := 0; i < 600000 && len(c02HostCollisionsCache) < 12; i++ {
			b := make([]byte, 7)
			for j := range b {
				x = x*6364136223846793005 + 1442695040888963407
				b[j] = letters[(x>>33)%26]
			}
			n := string(b) + ".io"
			h := filterutil.FastHash(n)
			if o, ok := seen[h]; ok && o != n {
				c02HostCollisionsCache = append(c02HostCollisionsCache, [2]string{o, n})
			} else {
				seen[h] = n
			}
		}
	})

	return c02HostCollisionsCache
}

func c02Names(r *rng) []string {
	names := append([]string{}, poolDomains...)
	for _, p := range c02HostCollisions() {
		names = append(names, p[0], p[1])
	}
	// host names with non-ASCII labels (IDN in Unicode form): the lookup keys are hashes of BYTES
	names = append(names, mIDNNames...)
	// real domain names spelled only with the characters of IP literals (hex digits, dots)
	names = append(names, r1HexNames...)
	_ = r

	return names
}

func c02GenLine(r *rng, names []string) string {
	d := pick(r, names)
	if r.chance(1, 8) {
		return r1DenyAllowLine(r, names, d)
	}
	switch r.n(16) {
	case 0, 1:
		return pick(r, []string{"0.0.0.0", "127.0.0.1", "10.0.0.1", "::", "::1", "2001:db8::1", "::ffff:1.2.3.4"}) + " " + d
	case 2:
		// names per line: mostly 2..4; 1 line in 8 has MANY (log-scale up to 260, i.e. lines longer than the 4 KiB read buffer: generated names among the scenario's,
		// so that the name a request asks for may be the 7th, the 40th or the last of its line)
		n := nCount(r, 2+r.n(3), 8, 5, 260)
		hs := make([]string, n)
		for i := range hs {
			hs[i] = pick(r, names)
			if n > 4 && r.chance(3, 4) {
				hs[i] = fmt.Sprintf("m%03d.%s", r.n(1000), pick(r, poolDomains))
			}
		}
		if r.chance(1, 3) {
			hs[n-1] = hs[0] // a name listed twice on one line
		}

		return pick(r, []string{"0.0.0.0", "::1", "1.2.3.4"}) + pick(r, []string{" ", "\t", "  "}) + strings.Join(hs, " ") + pick(r, []string{"", " # note", " #x"})
	case 3:
		if r.chance(1, 3) {
			// (used with its neighbours) a rule, its $badfilter twin and a survivor on the same name
			return pick(r, []string{"||" + d + "^", "||" + d + "^$badfilter", "||" + d + "^$important", "@@||" + d + "^", "||" + d + "^$important,badfilter"})
		}

		return d // bare domain
	case 4:
		return pick(r, []string{"# comment", "! comment", "", d + "##.banner", "##.ad"})
	case 5, 6:
		return pick(r, []string{"||", "|", "", "://", "||www."}) + d + pick(r, []string{"^", "", "^|", "|"})
	case 7:
		return "@@||" + d + "^" + pick(r, []string{"", "$important", "$badfilter"})
	case 8:
		return "||" + d + "^$" + pick(r, []string{"important", "badfilter", "important,badfilter", "dnstype=A", "dnstype=~AAAA", "dnstype=" + mDNSTypeConflict(r), "dnstype=" + mDNSTypeConflict(r), "dnstype=" + mDNSTypeValue(r), "client=127.0.0.1", "ctag=device_pc", "denyallow=" + pick(r, names), "dnsrewrite=1.2.3.4", "dnsrewrite=REFUSED"})
	case 9: // browser-only modifiers: must be ignored by the DNS engine
		return "||" + d + "^$" + pick(r, []string{"third-party", "~third-party", "script", "~script", "script,~image", "domain=" + pick(r, poolDomains), "domain=~" + pick(r, poolDomains), "match-case", "popup", "important,third-party", "document", "image,important"})
	case 10:
		return "@@||" + d + "^$" + pick(r, []string{"elemhide", "document", "genericblock", "urlblock", "script", "domain=" + pick(r, poolDomains)})
	case 11:
		return "/" + strings.ReplaceAll(d, ".", `\.`) + "/" + pick(r, []string{"", "$important", "$script"})
	case 12:
		return strings.Split(d, ".")[0] + pick(r, []string{"", ".", "*", "^"})
	case 13:
		return genNetRuleText(r, false)
	default:
		return genNetRuleText(r, true)
	}
}

func c02HostRuleSet(hs []*rules.HostRule) string {
	seen := map[string]bool{}
	var u []string
	for _, h := range hs {
		k := fmt.Sprintf("%d:%s", h.FilterListID, h.RuleText)
		if !seen[k] {
			seen[k] = true
			u = append(u, k)
		}
	}
	sort.Strings(u)
	items := make([]string, len(u))
	for i, t := range u {
		items[i] = wb(t)
	}

	return "(" + strings.Join(items, ",") + ")"
}

func c02Gen(r *rng, n int, w *bufio.Writer) {
	bReseed(r)
	names := c02Names(r)
	for i := 0; i < n; {
		// sizes: mostly small; 1 scenario in 16 has MANY lists, 1 in 12 MANY lines (both log-scale)
		nLists := nCount(r, 1+r.n(3), 16, 4, 80)
		nLines := 1 + r.n(14)
		if r.chance(1, 5) {
			nLines = 1 + r.n(50)
		}
		if r.chance(1, 12) {
			nLines = nLog(r, 50, 400)
		}
		ids := append([]int{}, c01ListIDs...)
		shuffle(r, ids)
		for k := 0; len(ids) < nLists+2; k++ {
			ids = append(ids, 10+37*k)
		}
		bodies := make([][]string, nLists)
		// a few names per scenario, shared by the lines and the requests, so that most requests hit
		focus := subset(r, names, 4)
		if r.chance(1, 3) {
			// names that look like IP literals but are not (only 0-9 a-f and dots)
			focus = append(focus, pick(r, r1HexNames), pick(r, r1HexNames))
		}
		if cs := c02HostCollisions(); len(cs) > 0 && r.chance(1, 2) {
			p := pick(r, cs)
			focus = append(focus, p[0], p[1])
		}
		if len(focus) < 2 {
			focus = append(focus, pick(r, poolDomains), pick(r, poolDomains))
		}
		if r.chance(1, 4) {
			// LONG names (log-scale total length up to the 253-byte limit, few long labels or many short ones) among
			// the names the scenario is about: listed in hosts lines, named by rules, and asked for
			for k := 1 + r.n(2); k > 0; k-- {
				focus = append(focus, nLongHost(r, pick(r, poolDomains)))
			}
		}
		var all, used []string
		for j := 0; j < nLines; j++ {
			pool := focus
			if r.chance(1, 8) {
				pool = names
			}
			t := c02GenLine(r, pool)
			for _, nm := range names {
				if strings.Contains(t, nm) {
					used = append(used, nm)
				}
			}
			if len(all) > 0 && r.chance(1, 10) {
				t = pick(r, all)
			}
			all = append(all, t)
			l := r.n(nLists)
			bodies[l] = append(bodies[l], t)
		}
		if r.chance(1, 8) {
			// a CROWD on one name: a log-scale number (up to 300) of distinct lines that all apply to it -- hosts lines
			// (one bucket of the host table, both address families), DNS network rules of every class (many candidates
			// for the basic rule, the deciding one anywhere among them), or both
			d := pick(r, focus)
			k := nLog(r, 7, 300)
			kind := r.n(3)
			hi := r.n(k) // where the few rules of a higher class go
			for j := 0; j < k; j++ {
				var t string
				if kind == 0 || (kind == 2 && r.chance(1, 2)) {
					ip := fmt.Sprintf("10.%d.%d.%d", j/65536, j/256%256, j%256)
					if r.chance(1, 3) {
						ip = fmt.Sprintf("2001:db8::%x", j+1)
					}
					t = ip + " " + d
					if r.chance(1, 6) {
						t = ip + " " + fmt.Sprintf("m%03d.example.net ", j) + d
					}
				} else {
					t = "||" + d + "^$" + pick(r, []string{fmt.Sprintf("ctag=~tag_%04d", j), fmt.Sprintf("client=~10.%d.%d.%d", j/65536, j/256%256, j%256),
						fmt.Sprintf("denyallow=m%04d.example.net", j), fmt.Sprintf("dnstype=~TXT,ctag=~t%d", j)})
					if j == hi || r.chance(1, 40) {
						t = pick(r, []string{"@@" + t, t + ",important", "@@" + t + ",important", t + ",badfilter"})
					}
				}
				all = append(all, t)
				l := r.n(nLists)
				bodies[l] = append(bodies[l], t)
			}
			used = append(used, d, d, d)
		}
		if r.chance(1, 4) {
			// a rule, its $badfilter twin, and AFTER them (in one list, so in match order) the only survivor
			d := pick(r, focus)
			l := r.n(nLists)
			surv := pick(r, []string{"||" + d + "^$important", "@@||" + d + "^", "||" + d + "^$dnstype=~TXT", "||" + d + "^$dnstype=" + mDNSTypeConflict(r)})
			for _, t := range []string{"||" + d + "^", "||" + d + "^$badfilter", surv} {
				all = append(all, t)
				bodies[l] = append(bodies[l], t)
			}
			used = append(used, d)
		}
		// lists that yield no rule (empty, comments, rejected lines, ignored cosmetic rules) among the others
		mb := make([]mBody, len(bodies))
		for j, b := range bodies {
			mb[j] = mBody{lines: b}
		}
		if r.chance(1, 3) {
			mb = mInsertRuleLess(r, bodies, len(ids))
		}
		var lists []filterlist.RuleList
		var note []string
		for j, b := range mb {
			text := strings.Join(b.lines, "\n") + "\n"
			if b.lines == nil && r.chance(1, 2) {
				text = ""
			}
			ign := r.chance(1, 2)
			if b.ign != nil {
				ign = *b.ign
			}
			lists = append(lists, &filterlist.StringRuleList{ID: ids[j], RulesText: text, IgnoreCosmetic: ign})
			note = append(note, fmt.Sprintf("[%d] %s", ids[j], strings.Join(b.lines, " ¶ ")))
		}
		s, err := filterlist.NewRuleStorage(lists)
		if err != nil {
			panic(err)
		}
		engine := urlfilter.NewDNSEngine(s)
		// the reference rule set is read list by list, not through the storage scanner the engine is built from
		var items []string
		var nets []*rules.NetworkRule
		var hostnames []string
		for _, sr := range mScanLists(lists) {
			f, idx := sr.rule, sr.idx
			items = append(items, wlist(fmt.Sprint(idx), wrule(f)))
			switch f := f.(type) {
			case *rules.NetworkRule:
				nets = append(nets, f)
			case *rules.HostRule:
				hostnames = append(hostnames, f.Hostnames...)
			}
		}
		rulesW := wlist(items...)
		qtypes := mDNSTypesOf(nets)
		for j := 0; j < 6 && i < n; j, i = j+1, i+1 {
			d := genDNSRequest(r, all)
			if len(qtypes) > 0 && r.chance(1, 2) {
				d.DNSType = pick(r, qtypes) // a record type some rule's $dnstype names (permitted, restricted or both)
			}
			switch r.n(10) {
			case 4, 5, 6, 7, 8: // a name the scenario is about, or a subdomain of it
				d.Hostname = pick(r, []string{"", "", "", "www.", "sub."}) + pick(r, focus)
			case 9:
				if len(used) > 0 {
					d.Hostname = pick(r, []string{"", "", "www.", "sub."}) + pick(r, used)
				}
			case 0:
				if len(hostnames) > 0 {
					d.Hostname = pick(r, hostnames)
				}
			case 1:
				d.Hostname = pick(r, names)
				if len(hostnames) > 30 {
					d.Hostname = pick(r, hostnames) // a scenario with many-name lines: ask for any of the listed names
				}
			case 2:
				if cs := c02HostCollisions(); len(cs) > 0 {
					d.Hostname = pick(r, cs)[r.n(2)]
				}
			case 3:
				if r.chance(1, 4) {
					d.Hostname = ""
				}
			}
			q := hostnameRequest(d)
			basic := "_"
			ans := guardStr(func() string {
				res, matched := engine.MatchRequest(d)
				if res.NetworkRule != nil {
					basic = wb(res.NetworkRule.RuleText)
				}

				cls := "_"
				if res.NetworkRule != nil {
					cls = wbool(res.NetworkRule.Whitelist) + wbool(res.NetworkRule.IsOptionEnabled(rules.OptionImportant))
				}
				a := fmt.Sprintf("%s|%s|%s|%s|%s", bSortedTextSet(texts(res.NetworkRules)), cls,
					c02HostRuleSet(res.HostRulesV4), c02HostRuleSet(res.HostRulesV6), wbool(matched))
				if a == "()|_|()|()|F" {
					a = "()" // the all-empty answer (counted as trivial by vcheck)
				}

				return a
			})
			var pats []string
			for _, f := range nets {
				if p := wpat(f, q.URL, q.Hostname); p != "" && !nSeenPat(&pats, p) {
					pats = append(pats, p)
				}
			}
			fmt.Fprintf(w, "c02.dns %s %s %s %s (%s) %s = %s ## host=%q type=%d client=%q/%v tags=%v lists: %s\n",
				rulesW, wrequest(q), wpsl(q.Hostname, q.SourceHostname), waddrs(q.Hostname),
				strings.Join(pats, " "), basic, ans, d.Hostname, d.DNSType, d.ClientName, d.ClientIP, d.SortedClientTags,
				strings.ReplaceAll(strings.Join(note, " ‖ "), "\t", "\\t"))
		}
	}
}

package main

// C09 -- effective DNS rewrites.
//
//	c09.rewrites (<R>…) = (<idx>,…)      res.NetworkRules -> indexes of DNSRewrites(), in order
//	c09.batch (<R alphabet>…) (-<seq> -<seq> …) = o:<positions>.<positions>…
//	                                     many sequences over one alphabet in one line (exhaustive tiers)
//	assert c08.rewrites … = T|F           DNSRewrites(L + {x, x$badfilter}) == DNSRewrites(L) through the DNSEngine
//
// The rules of a c09.rewrites line come either from
// (&urlfilter.DNSResult{NetworkRules: …}) built by hand or from a real DNSEngine
// (MatchRequest on rule lines; the engine decides the order of NetworkRules).

import (
	"bufio"
	"fmt"
	"strings"

	"github.com/AdguardTeam/urlfilter"
	"github.com/AdguardTeam/urlfilter/filterlist"
	"github.com/AdguardTeam/urlfilter/rules"
)

func init() {
	gens["c09.rewrites"] = genC09Rewrites
	gens["c09.batch"] = genC09Batch
	gens["c08.rewrites"] = genC08Rewrites
}

// c09Core is the 24-shape alphabet of the exhaustive tiers.
func c09Core() (texts []string) {
	for _, v := range []string{"1.2.3.4", "new.e.org", "NXDOMAIN", "NOERROR;MX;10 m.e.org"} {
		for _, imp := range []string{"", ",important"} {
			for _, exc := range []string{"", "@@"} {
				texts = append(texts, exc+"||e.org^$dnsrewrite="+v+imp)
			}
		}
	}
	for _, v := range []string{"NOERROR;TXT;hello", "NOERROR;HTTPS;1 . alpn=h3", "NOERROR;SRV;1 2 80 s.e.org"} {
		texts = append(texts, "||e.org^$dnsrewrite="+v, "@@||e.org^$dnsrewrite="+v)
	}
	texts = append(texts, "@@||e.org^$dnsrewrite", "@@||e.org^$dnsrewrite,important")

	return texts
}

var c09Values = []string{
	"1.2.3.4", "1.2.3.5", "::1", "NOERROR;A;1.2.3.4", "NOERROR;AAAA;::1", "new.e.org", "other.e.org",
	"NOERROR;CNAME;new.e.org", "NXDOMAIN", "REFUSED", "SERVFAIL;;", "NOERROR;TXT;hello", "NOERROR;TXT;new.e.org",
	"NOERROR;MX;10 m.e.org", "NOERROR;MX;20 m.e.org", "NOERROR;SRV;1 2 80 s.e.org", "NOERROR;SRV;1 2 81 s.e.org",
	"NOERROR;HTTPS;1 . alpn=h3", "NOERROR;HTTPS;1 . alpn=h2", "NOERROR;HTTPS;1 .", "NOERROR;SVCB;1 . alpn=h3",
	"NOERROR;PTR;host.e.org.", "", "NOERROR;;",
}

// c09NoHandlerValues are NOERROR rewrites of record types that have NO value
// parser in dnsRewriteRRHandlers: the parser keeps the type and leaves the value
// nil (RCode 0, RRType t, Value nil).  As exceptions they disable only the
// rewrites of the same type (all such values are nil, hence equal); they are NOT
// the empty "disable everything" value.
var c09NoHandlerValues = []string{
	"NOERROR;NS;ns1.e.org", "NOERROR;NS;ns2.e.org", "NOERROR;ns;", "NOERROR;SOA;ns.e.org. root.e.org. 1 2 3 4 5",
	"NOERROR;CAA;0 issue ca.e.org", "NOERROR;NAPTR;", "NOERROR;DS;x", "NOERROR;DNAME;new.e.org", "NOERROR;ANY;",
	"NOERROR;SPF;hello", "NOERROR;TLSA;", "NOERROR;LOC;1.2.3.4", "noerror;Null;x",
}

func c09RuleText(r *rng) string {
	v := pick(r, c09Values)
	if r.chance(1, 6) {
		v = pick(r, c09NoHandlerValues)
	} else if r.chance(1, 3) {
		// generated (gen_n2.go): every shape, numeric fields up to 65535, hosts differing in letter case, 0-9 SVCB parameters
		v = n2GenRewrite(r)
	}

	return c09RuleOf(r, v)
}

// c09NearText: the rule text t with ONE component of its $dnsrewrite value changed (another letter case of the CNAME /
// exchange / target, another priority, weight, port, preference, parameter, address group, record type, rcode spelling),
// as a rule or as an exception, with or without $important.
func c09NearText(r *rng, t string) string {
	body := strings.TrimPrefix(t, "@@")
	body = strings.TrimSuffix(body, ",important")
	i := strings.Index(body, "$dnsrewrite")
	if i < 0 {
		return t
	}
	v := strings.TrimPrefix(body[i+len("$dnsrewrite"):], "=")
	for try := 0; try < 6; try++ {
		w := n2MutRewrite(r, v)
		nt := c09RuleOf(r, w)
		if _, err := rules.NewNetworkRule(nt, 1); err == nil && w != v {
			return nt
		}
	}

	return c09RuleOf(r, v)
}

func c09RuleOf(r *rng, v string) string {
	t := "||e.org^$dnsrewrite"
	if v != "" || r.chance(1, 2) {
		t += "=" + v
	}
	if r.chance(1, 3) {
		t = "@@" + t
	}
	if r.chance(1, 4) {
		t += ",important"
	}

	return t
}

func c09Indexes(all, out []*rules.NetworkRule) string {
	var idx []string
	pos := 0
	for _, o := range out {
		found := -1
		for j := pos; j < len(all); j++ {
			if all[j] == o {
				found = j

				break
			}
		}
		if found < 0 {
			for j := range all {
				if all[j] == o {
					found = j

					break
				}
			}
			idx = append(idx, fmt.Sprintf("!%d", found))

			continue
		}
		idx = append(idx, fmt.Sprint(found))
		pos = found + 1
	}

	return "(" + strings.Join(idx, ",") + ")"
}

func c09Emit(w *bufio.Writer, nrs []*rules.NetworkRule, via string) {
	enc := make([]string, len(nrs))
	ts := make([]string, len(nrs))
	for i, f := range nrs {
		enc[i] = wnetrule(f)
		ts[i] = f.RuleText
	}
	ans := guardStr(func() string {
		res := &urlfilter.DNSResult{NetworkRules: append([]*rules.NetworkRule(nil), nrs...)}

		return c09Indexes(nrs, res.DNSRewrites())
	})
	fmt.Fprintf(w, "c09.rewrites %s = %s ## %s: %s\n", wlist(enc...), ans, via, strings.Join(ts, "  ;  "))
}

func c09Engine(texts []string) (nrs []*rules.NetworkRule, res *urlfilter.DNSResult) {
	s, err := filterlist.NewRuleStorage([]filterlist.RuleList{
		&filterlist.StringRuleList{ID: 1, RulesText: strings.Join(texts, "\n") + "\n"},
	})
	if err != nil {
		panic(err)
	}
	e := urlfilter.NewDNSEngine(s)
	res, _ = e.MatchRequest(&urlfilter.DNSRequest{Hostname: "e.org", DNSType: 1})

	return res.NetworkRules, res
}

func genC09Rewrites(r *rng, n int, w *bufio.Writer) {
	parse := func(ts []string) (out []*rules.NetworkRule) {
		for _, t := range ts {
			f, err := rules.NewNetworkRule(t, 1)
			if err != nil {
				continue
			}
			out = append(out, f)
		}

		return out
	}
	// D8 replays first
	c09Emit(w, parse([]string{"||e.org^$dnsrewrite=1.1.1.1", "@@||e.org^$dnsrewrite=1.1.1.1", "@@||e.org^$dnsrewrite=2.2.2.2", "||e.org^$dnsrewrite=2.2.2.2"}), "direct")
	c09Emit(w, parse([]string{"||e.org^$dnsrewrite=NOERROR;MX;10 mail.e.org", "@@||e.org^$dnsrewrite=NOERROR;MX;10 mail.e.org"}), "direct")
	c09Emit(w, nil, "direct")
	// an exception whose value is a record type WITHOUT a value parser (type set, value nil) is an exception with a
	// value: it disables the rewrites of that type only
	c09Emit(w, parse([]string{"||e.org^$dnsrewrite=1.2.3.4", "||e.org^$dnsrewrite=NOERROR;TXT;hello", "||e.org^$dnsrewrite=new.e.org", "||e.org^$dnsrewrite=REFUSED",
		"||e.org^$dnsrewrite=NOERROR;NS;ns1.e.org", "||e.org^$dnsrewrite=1.2.3.5,important", "@@||e.org^$dnsrewrite=NOERROR;NS;ns2.e.org"}), "direct")
	c09Emit(w, parse([]string{"@@||e.org^$dnsrewrite=NOERROR;CAA;0 issue ca.e.org,important", "||e.org^$dnsrewrite=1.2.3.4", "||e.org^$dnsrewrite=NOERROR;CAA;x,important",
		"||e.org^$dnsrewrite=NOERROR;;", "||e.org^$dnsrewrite=1.2.3.5,important"}), "direct")
	nrsNS, _ := c09Engine([]string{"||e.org^$dnsrewrite=1.2.3.4", "@@||e.org^$dnsrewrite=NOERROR;SOA;x", "||e.org^$dnsrewrite=NXDOMAIN", "||e.org^$dnsrewrite=NOERROR;SOA;y"})
	c09Emit(w, nrsNS, "DNSEngine")
	for i := 0; i < n; i++ {
		k := r.n(7)
		if r.chance(1, 5) {
			k = 7 + r.n(8)
		}
		if r.chance(1, 25) {
			// N2: MANY rewrite rules and exceptions for one host (more than 16 / 32 / 40 / 64)
			k = n2Count(r, 1, nil, 16, 90)
		}
		var ts []string
		for j := 0; j < k; j++ {
			switch {
			case r.chance(1, 12):
				// a rule without $dnsrewrite (must be ignored)
				ts = append(ts, pick(r, []string{"||e.org^", "@@||e.org^", "||e.org^$important", "@@||e.org^$important"}))
			case len(ts) > 0 && r.chance(1, 5):
				// a near-twin of an earlier element: ONE component of the value differs
				ts = append(ts, c09NearText(r, pick(r, ts)))
			case len(ts) > 0 && r.chance(1, 3):
				// the exception / rule counterpart of an earlier element
				t := pick(r, ts)
				if strings.HasPrefix(t, "@@") {
					t = t[2:]
				} else {
					t = "@@" + t
				}
				ts = append(ts, t)
			default:
				ts = append(ts, c09RuleText(r))
			}
		}
		if r.chance(1, 2) {
			c09Emit(w, parse(ts), "direct")
		} else {
			nrs, _ := c09Engine(ts)
			c09Emit(w, nrs, "DNSEngine")
		}
	}
}

func c09Letter(i int) byte {
	if i < 26 {
		return byte('a' + i)
	}

	return byte('A' + i - 26)
}

// genC09Batch enumerates ALL sequences of length 0..n over the 24-shape
// alphabet (n is the maximal length, capped at 5), and for n >= 5 all
// sequences of length 6 over a 12-shape sub-alphabet, 1000 sequences per line.
func genC09Batch(r *rng, n int, w *bufio.Writer) {
	_ = r
	if n > 5 {
		n = 5
	}
	run := func(texts []string, minLen, maxLen int) {
		var alpha []*rules.NetworkRule
		var enc []string
		for _, t := range texts {
			f := mustRule(t)
			alpha = append(alpha, f)
			enc = append(enc, wnetrule(f))
		}
		k := len(alpha)
		var seqs, outs []string
		flush := func() {
			if len(seqs) == 0 {
				return
			}
			fmt.Fprintf(w, "c09.batch %s (-%s) = o:%s ## %d sequences over the alphabet [%s], first: %q\n", wlist(enc...),
				strings.Join(seqs, " -"), strings.Join(outs, "."), len(seqs), strings.Join(texts, "  ;  "), seqs[0])
			seqs, outs = nil, nil
		}
		idx := make([]int, 0, 8)
		var rec func(depth, length int)
		eval := func() {
			nrs := make([]*rules.NetworkRule, len(idx))
			sb := make([]byte, len(idx))
			for i, a := range idx {
				nrs[i] = alpha[a]
				sb[i] = c09Letter(a)
			}
			out := guardStr(func() string {
				res := &urlfilter.DNSResult{NetworkRules: nrs}
				got := res.DNSRewrites()
				// positions by scanning (the same rule may occur several times)
				var ob []byte
				pos := 0
				for _, o := range got {
					found := -1
					for j := pos; j < len(nrs); j++ {
						if nrs[j] == o {
							found = j

							break
						}
					}
					if found < 0 {
						return "X"
					}
					ob = append(ob, byte('0'+found))
					pos = found + 1
				}

				return string(ob)
			})
			seqs = append(seqs, string(sb))
			outs = append(outs, out)
			if len(seqs) >= 1000 {
				flush()
			}
		}
		rec = func(depth, length int) {
			if depth == length {
				eval()

				return
			}
			for a := 0; a < k; a++ {
				idx = append(idx, a)
				rec(depth+1, length)
				idx = idx[:len(idx)-1]
			}
		}
		for l := minLen; l <= maxLen; l++ {
			idx = idx[:0]
			rec(0, l)
		}
		flush()
	}
	core := c09Core()
	run(core, 0, n)
	if n >= 5 {
		// length 6 over 12 shapes: A and MX values x {rule, important rule, exception, important exception},
		// CNAME rule/exception, the two empty exceptions
		sub := []string{core[0], core[1], core[2], core[3], core[12], core[13], core[14], core[15], core[4], core[5], core[22], core[23]}
		run(sub, 6, 6)
	}
}

// genC08Rewrites: twin pairs of $dnsrewrite rules through the real DNSEngine:
// DNSRewrites(L + {x, x$badfilter}) == DNSRewrites(L) as sequences of texts, and
// no badfilter rule is returned.
func genC08Rewrites(r *rng, n int, w *bufio.Writer) {
	rewritesOf := func(texts []string) (out []string, bad bool) {
		_, res := c09Engine(texts)
		for _, f := range res.DNSRewrites() {
			out = append(out, f.RuleText)
			if f.IsOptionEnabled(rules.OptionBadfilter) {
				bad = true
			}
		}

		return out, bad
	}
	for i := 0; i < n; i++ {
		var base []string
		used := map[string]bool{}
		nb := r.n(6)
		if r.chance(1, 25) {
			nb = n2Count(r, 1, nil, 8, 70) // N2: many rewrite rules in the base list
		}
		for j := nb; j > 0; j-- {
			t := c09RuleText(r)
			if r.chance(1, 8) {
				t += ",badfilter"
			}
			base = append(base, t)
			used[c08Fields(mustRule(strings.TrimSuffix(t, ",badfilter")))] = true
		}
		ext := append([]string{}, base...)
		for k := 1 + r.n(3); k > 0; k-- {
			x := c09RuleText(r)
			if r.chance(1, 3) {
				x += ",dnstype=A"
			}
			if used[c08Fields(mustRule(x))] {
				continue
			}
			for _, t := range []string{x, x + ",badfilter"} {
				pos := r.n(len(ext) + 1)
				ext = append(ext[:pos], append([]string{t}, ext[pos:]...)...)
			}
		}
		var want, got []string
		var bad bool
		ans := guardStr(func() string {
			want, _ = rewritesOf(base)
			got, bad = rewritesOf(ext)
			// the engine may return the rules in another order; compare as sequences after the
			// stable order of the base list is known to be kept for equal lists only -- so compare
			// as multisets of texts plus "no badfilter rule returned"
			a := append([]string{}, want...)
			b := append([]string{}, got...)
			sortStrings(a)
			sortStrings(b)

			return wbool(strings.Join(a, "\n") == strings.Join(b, "\n") && !bad)
		})
		fmt.Fprintf(w, "assert c08.rewrites %s %s = %s ## L=[%s] -> %q ; L+twins=[%s] -> %q\n", wstrs(base), wstrs(ext), ans,
			strings.Join(base, "  ;  "), want, strings.Join(ext, "  ;  "), got)
	}
}

func sortStrings(a []string) {
	for i := 1; i < len(a); i++ {
		for j := i; j > 0 && a[j] < a[j-1]; j-- {
			a[j], a[j-1] = a[j-1], a[j]
		}
	}
}

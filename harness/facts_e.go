package main

// Generated facts of work group E: the dns name tables used by $dnstype /
// $dnsrewrite and the cosmetic markers in their run-time order.

import (
	"fmt"
	"sort"
	"strings"

	"github.com/AdguardTeam/urlfilter/rules"
	"github.com/miekg/dns"
)

func init() {
	factSections = append(factSections, func(p func(format string, a ...any)) {
		p("-- miekg/dns: StringToType sorted by name (used by rules.strToRRType)")
		names := make([]string, 0, len(dns.StringToType))
		for k := range dns.StringToType {
			names = append(names, k)
		}
		sort.Strings(names)
		items := make([]string, len(names))
		for i, k := range names {
			items[i] = fmt.Sprintf("(%s, %d)", leanBytes(k), dns.StringToType[k])
		}
		p("def dnsStringToType : List (Bytes × Nat) := [\n  %s]", strings.Join(items, ",\n  "))
		p("")
		p("-- miekg/dns: StringToRcode sorted by name")
		names = names[:0]
		for k := range dns.StringToRcode {
			names = append(names, k)
		}
		sort.Strings(names)
		items = make([]string, len(names))
		for i, k := range names {
			items[i] = fmt.Sprintf("(%s, %d)", leanBytes(k), dns.StringToRcode[k])
		}
		p("def dnsStringToRcode : List (Bytes × Nat) := [\n  %s]", strings.Join(items, ",\n  "))
		p("")
		p("-- rules/cosmetic.go: cosmeticRulesMarkers in their RUN-TIME order (after the init() sort) and their first characters")
		ms, fc := rules.VerifCosmeticMarkers()
		items = make([]string, len(ms))
		for i, m := range ms {
			items[i] = leanBytes(m)
		}
		p("def cosmeticMarkers : List Bytes := [%s]", strings.Join(items, ", "))
		p("def cosmeticFirstChars : Bytes := %s", leanBytes(string(fc)))
	})
}

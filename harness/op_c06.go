package main

// C06 -- the verdict class follows the documented precedence in any order.
//
//	c06.result (<R rules>…) (<R source rules>…) = block|allow|none   NewMatchingResult(...).GetBasicResult()
//	c06.dnsbasic (<R>…) = block|allow|none                              GetDNSBasicRule
//	c06.pick (<R rules>…) (<R source rules>…) = b<idx>|d<idx>|none      which rule GetBasicResult returns (model only)
//	c06.dnspick (<R>…) = b<idx>|none
//	assert c06.perm … = T|F                                              all permutations / splits agree (computed in Go)
//
// Rule lists are multisets over a pool realising all combinations of
// {exception, $important, $domain-specific, document-level modifier,
// $dnsrewrite, $badfilter (twins), $stealth}; half of the lines come from real
// engines (Engine.MatchRequest / DNSEngine.MatchRequest over rule texts, split
// over several lists), the other half from the functions called directly.
// $replace/$cookie/$csp cannot be set from rule text on this tree.

import (
	"bufio"
	"fmt"
	"strings"
	"sync"

	"github.com/AdguardTeam/urlfilter"
	"github.com/AdguardTeam/urlfilter/filterlist"
	"github.com/AdguardTeam/urlfilter/rules"
)

func init() {
	gens["c06.result"] = genC06Result
	gens["c06.dnsbasic"] = genC06DNS
	gens["c06.engine"] = genC06Engine
	gens["c06.pairs"] = genC06Pairs
}

// c06Pool returns rule texts over pattern pat; source selects the referrer
// flavour (document-level modifiers make sense on exceptions only).
func c06Pool(pat string, dns bool) (texts []string) {
	return c06PoolDoms(pat, dns, []string{"", "domain=site.com", "domain=~other.org"})
}

// c06PoolDoms: the pool over pattern pat with the given `$domain` modifiers ("" = none).
func c06PoolDoms(pat string, dns bool, doms []string) (texts []string) {
	seen := map[string]bool{}
	for _, exc := range []bool{false, true} {
		for _, imp := range []bool{false, true} {
			for _, dom := range doms {
				for _, doc := range []string{"", "document", "urlblock", "genericblock", "elemhide", "urlblock,genericblock"} {
					for _, rw := range []bool{false, true} {
						for _, bad := range []bool{false, true} {
							for _, st := range []bool{false, true} {
								if !exc && (doc != "" || st) {
									continue
								}
								if dns && (dom != "" || doc != "" || st) {
									continue
								}
								var mods []string
								if imp {
									mods = append(mods, "important")
								}
								if dom != "" {
									// "~other.org": only negated entries -- still a GENERIC rule
									mods = append(mods, dom)
								}
								if doc != "" {
									mods = append(mods, doc)
								}
								if rw {
									mods = append(mods, "dnsrewrite=1.2.3.4")
								}
								if st {
									mods = append(mods, "stealth")
								}
								if bad {
									mods = append(mods, "badfilter")
								}
								t := pat
								if exc {
									t = "@@" + t
								}
								if len(mods) > 0 {
									t += "$" + strings.Join(mods, ",")
								}
								if _, err := rules.NewNetworkRule(t, 1); err != nil || seen[t] {
									continue
								}
								seen[t] = true
								texts = append(texts, t)
							}
						}
					}
				}
			}
		}
	}
	// a few extras: more modifiers (priority within a class), content types
	for _, t := range []string{pat + "$script", pat + "$script,third-party", "@@" + pat + "$script", pat + "$important,script", "@@" + pat + "$important,script",
		pat + "$ctag=a", pat + "$client=a", pat + "$denyallow=x.com", pat + "$dnstype=A", "@@" + pat + "$ctag=a", pat + "$ctag=a,badfilter"} {
		if _, err := rules.NewNetworkRule(t, 1); err == nil && !seen[t] && (!dns || !strings.Contains(t, "third-party")) {
			seen[t] = true
			texts = append(texts, t)
		}
	}

	return texts
}

// c06PoolOver is the union of the pools over several patterns: the verdict and the selection must not read the
// pattern, so rules of one class and modifier set come over nested prefixes (`||e.org^` / `||e.org/` / `||e.org/ad`),
// over unrelated patterns (`/ad/`, a regexp rule without a shortcut: another lookup table) and over equal patterns.
func c06PoolOver(dns bool, pats ...string) (texts []string) {
	for _, p := range pats {
		texts = append(texts, c06Pool(p, dns)...)
	}

	return texts
}

var (
	// every one of them matches the request http://e.org/ad.js, the referrer http://site.com/page, the host name e.org
	c06WebPats = []string{"||e.org^", "||e.org/", "||e.org/ad", "/ad/"}
	c06SrcPats = []string{"||site.com^", "||site.com/", "||site.com/page"}
	c06DNSPats = []string{"||e.org^", "||e.org", "e.org", `/e\.org/`}
	// referrer patterns covering the referrer's path, in lower and in mixed case
	c06LandPats = []string{"||site.com/landing", "||Site.com/Landing"}
)

func c06Parse(ts []string) (out []*rules.NetworkRule) {
	for _, t := range ts {
		out = append(out, mustRule(t))
	}

	return out
}

func c06Enc(rs []*rules.NetworkRule) string {
	enc := make([]string, len(rs))
	for i, f := range rs {
		enc[i] = wnetrule(f)
	}

	return wlist(enc...)
}

func c06Texts(rs []*rules.NetworkRule) string { return strings.Join(texts(rs), "  ;  ") }

func c06IndexOf(rs []*rules.NetworkRule, f *rules.NetworkRule) int {
	for i, x := range rs {
		if x == f {
			return i
		}
	}

	return -1
}

func c06EmitWeb(w *bufio.Writer, rs, src []*rules.NetworkRule, via string, got *rules.NetworkRule, have bool) {
	var res *rules.NetworkRule
	cls := guardStr(func() string {
		if have {
			res = got
		} else {
			res = rules.NewMatchingResult(append([]*rules.NetworkRule(nil), rs...), append([]*rules.NetworkRule(nil), src...)).GetBasicResult()
		}

		return c08Class(res)
	})
	fmt.Fprintf(w, "c06.result %s %s = %s ## %s: rules [%s] source [%s]\n", c06Enc(rs), c06Enc(src), cls, via, c06Texts(rs), c06Texts(src))
	pick := "none"
	if res != nil {
		if i := c06IndexOf(rs, res); i >= 0 {
			pick = fmt.Sprintf("b%d", i)
		} else if i := c06IndexOf(src, res); i >= 0 {
			pick = fmt.Sprintf("d%d", i)
		} else {
			pick = "foreign"
		}
	}
	if cls != "PANIC" {
		fmt.Fprintf(w, "c06.pick %s %s = %s ## %s: rules [%s] source [%s]\n", c06Enc(rs), c06Enc(src), pick, via, c06Texts(rs), c06Texts(src))
	}
}

func c06EmitDNS(w *bufio.Writer, rs []*rules.NetworkRule, via string, got *rules.NetworkRule, have bool) {
	var res *rules.NetworkRule
	cls := guardStr(func() string {
		if have {
			res = got
		} else {
			res = rules.GetDNSBasicRule(append([]*rules.NetworkRule(nil), rs...))
		}

		return c08Class(res)
	})
	fmt.Fprintf(w, "c06.dnsbasic %s = %s ## %s: [%s]\n", c06Enc(rs), cls, via, c06Texts(rs))
	pick := "none"
	if res != nil {
		pick = fmt.Sprintf("b%d", c06IndexOf(rs, res))
	}
	if cls != "PANIC" {
		fmt.Fprintf(w, "c06.dnspick %s = %s ## %s: [%s]\n", c06Enc(rs), pick, via, c06Texts(rs))
	}
}

func c06Multiset(r *rng, pool []string, maxN int) (ts []string) {
	// how many rules: 0..maxN mostly; 1 multiset in 12 is LARGE (log-scale up to 40x maxN, i.e. hundreds of
	// candidates on the request side and about a hundred on the referrer side), the deciding rule anywhere in it
	k := nCount(r, r.n(maxN+1), 12, maxN+1, 40*maxN)
	for i := 0; i < k; i++ {
		if len(ts) > 0 && r.chance(1, 4) {
			// the badfilter twin of an earlier rule
			t := pick(r, ts)
			if !strings.Contains(t, "badfilter") {
				if strings.Contains(t, "$") {
					t += ",badfilter"
				} else {
					t += "$badfilter"
				}
			}
			ts = append(ts, t)

			continue
		}
		if len(ts) > 0 && r.chance(1, 5) {
			// an earlier rule over another pattern of its family (nested prefix, unrelated, …): same class, same modifiers
			ts = append(ts, c06SwapPattern(r, pick(r, ts)))

			continue
		}
		ts = append(ts, c06Pick(r, pool))
	}

	return ts
}

// c06PatFamilies: sets of patterns that all match the request of their scenarios.
var c06PatFamilies = [][]string{c06WebPats, c06SrcPats, c06DNSPats, c06LandPats}

// c06SwapPattern returns rule text t over another pattern of the family its pattern belongs to (t itself if the
// pattern is unknown or the result is not a valid rule).
func c06SwapPattern(r *rng, t string) string {
	head, body := "", t
	if strings.HasPrefix(body, "@@") {
		head, body = "@@", body[2:]
	}
	pat, rest := body, ""
	if i := strings.IndexByte(body, '$'); i >= 0 {
		pat, rest = body[:i], body[i:]
	}
	for _, fam := range c06PatFamilies {
		for _, p := range fam {
			if p == pat {
				t2 := head + pick(r, fam) + rest
				if _, err := rules.NewNetworkRule(t2, 1); err == nil {
					return t2
				}

				return t
			}
		}
	}

	return t
}

// c06Pick draws from the pool with a bias against the features that make a
// rule ineffective (otherwise most verdicts would be "none").
func c06Pick(r *rng, pool []string) string {
	for {
		t := pick(r, pool)
		if strings.Contains(t, "dnsrewrite") && !r.chance(1, 5) {
			continue
		}
		if strings.Contains(t, "badfilter") && !r.chance(1, 5) {
			continue
		}
		if strings.Contains(t, "stealth") && !r.chance(1, 3) {
			continue
		}

		return t
	}
}

func genC06Result(r *rng, n int, w *bufio.Writer) {
	pool := c06PoolOver(false, c06WebPats...)
	spool := c06PoolOver(false, c06SrcPats...)
	// D5 replay first
	b := c06Parse([]string{"||ads.com^$domain=site.com"})
	gu := c06Parse([]string{"@@||site.com^$genericblock", "@@||site.com^$urlblock"})
	c06EmitWeb(w, b, gu, "direct", nil, false)
	c06EmitWeb(w, b, []*rules.NetworkRule{gu[1], gu[0]}, "direct", nil, false)
	c06EmitWeb(w, nil, nil, "direct", nil, false)
	for i := 0; i < n; i++ {
		rs := c06Parse(c06Multiset(r, pool, 6))
		src := c06Parse(c06Multiset(r, spool, 3))
		perms := 1 + r.n(3)
		var classes []string
		for p := 0; p < perms; p++ {
			c06EmitWeb(w, rs, src, "direct", nil, false)
			classes = append(classes, c08Class(rules.NewMatchingResult(append([]*rules.NetworkRule(nil), rs...), append([]*rules.NetworkRule(nil), src...)).GetBasicResult()))
			shuffle(r, rs)
			shuffle(r, src)
		}
		ok := true
		for _, c := range classes {
			if c != classes[0] {
				ok = false
			}
		}
		fmt.Fprintf(w, "assert c06.perm %s %s = %s ## classes of %d permutations %v: rules [%s] source [%s]\n", wstrs(texts(rs)), wstrs(texts(src)), wbool(ok), perms, classes, c06Texts(rs), c06Texts(src))
	}
}

func genC06DNS(r *rng, n int, w *bufio.Writer) {
	pool := c06PoolOver(false, c06WebPats...)
	c06EmitDNS(w, nil, "direct", nil, false)
	for i := 0; i < n; i++ {
		rs := c06Parse(c06Multiset(r, pool, 6))
		perms := 1 + r.n(3)
		var classes []string
		for p := 0; p < perms; p++ {
			c06EmitDNS(w, rs, "direct", nil, false)
			classes = append(classes, c08Class(rules.GetDNSBasicRule(append([]*rules.NetworkRule(nil), rs...))))
			shuffle(r, rs)
		}
		ok := true
		for _, c := range classes {
			if c != classes[0] {
				ok = false
			}
		}
		fmt.Fprintf(w, "assert c06.dnsperm %s = %s ## classes of %d permutations %v: [%s]\n", wstrs(texts(rs)), wbool(ok), perms, classes, c06Texts(rs))
	}
}

// c06Assign deals the texts over 1..3 rule lists (the order inside a list is the order of ts).
func c06Assign(r *rng, ts []string) [][]string {
	k := 1 + r.n(3)
	parts := make([][]string, k)
	for _, t := range ts {
		j := r.n(k)
		parts[j] = append(parts[j], t)
	}

	return parts
}

// c06Mirror is the exact reverse of a storage order: the lists in reverse order, each list reversed.
func c06Mirror(parts [][]string) [][]string {
	out := make([][]string, 0, len(parts))
	for i := len(parts) - 1; i >= 0; i-- {
		p := make([]string, 0, len(parts[i]))
		for j := len(parts[i]) - 1; j >= 0; j-- {
			p = append(p, parts[i][j])
		}
		out = append(out, p)
	}

	return out
}

func c06Storage(parts [][]string) *filterlist.RuleStorage {
	var lists []filterlist.RuleList
	for i, p := range parts {
		lists = append(lists, &filterlist.StringRuleList{ID: i + 1, RulesText: strings.Join(p, "\n") + "\n"})
	}
	s, err := filterlist.NewRuleStorage(lists)
	if err != nil {
		panic(err)
	}

	return s
}

// c06Linear parses every text of the lists (storage order) and keeps the rules accepted by keep: the reference
// candidate set of a request, obtained without any lookup table.
func c06Linear(parts [][]string, keep func(f *rules.NetworkRule) bool) (out []*rules.NetworkRule) {
	for i, p := range parts {
		for _, t := range p {
			// as the list scanner does: a bare host name is a hosts-syntax line, not a network rule
			x, err := rules.NewRule(t, i+1)
			if f, isNet := x.(*rules.NetworkRule); err == nil && isNet && keep(f) {
				out = append(out, f)
			}
		}
	}

	return out
}

func c06PartsNote(parts [][]string) string {
	var ls []string
	for _, p := range parts {
		ls = append(ls, strings.Join(p, "  ;  "))
	}

	return strings.Join(ls, "  ‖  ")
}

func c06PartsWire(parts [][]string) string {
	var ls []string
	for _, p := range parts {
		ls = append(ls, wstrs(p))
	}

	return wlist(ls...)
}

// c06Scenario: rule texts plus the request they are queried with.
type c06Scenario struct {
	ts     []string
	web    bool
	url    string // web: request URL
	src    string // web: referrer URL
	host   string // dns: host name
	client string // client name of the request ("" = none)
	note   string
	// mirror: the second storage order is the exact reverse of the first one (every pair of rules is met in both orders)
	mirror bool
}

func (sc *c06Scenario) webReq() *rules.Request {
	q := rules.NewRequest(sc.url, sc.src, rules.TypeScript)
	q.ClientName = sc.client

	return q
}

func (sc *c06Scenario) dnsReq() *urlfilter.DNSRequest {
	return &urlfilter.DNSRequest{Hostname: sc.host, DNSType: 1, ClientName: sc.client}
}

func c06Tied(a, b *rules.NetworkRule) bool {
	if a == nil || b == nil {
		return a == nil && b == nil
	}

	return a.Whitelist == b.Whitelist && !a.IsHigherPriority(b) && !b.IsHigherPriority(a)
}

func c06Name(f *rules.NetworkRule) string {
	if f == nil {
		return "none"
	}

	return f.RuleText
}

// c06RunScenario runs the scenario through the real engines in `perms` storage orders / splits into lists.
//
// Per order: the verdict of the engine against (i) the rules the engine's own MatchAll returned and (ii) ALL rules of
// the lists that match the request, found by a linear scan without lookup tables (a rule lost by a table shows here);
// then the orders must agree.  With sel (the C07 view) also: the direct selection function over all matching rules
// (c06.pick / c06.dnspick against the model), and the rule selected by the engine must be tied with it and with the
// rule selected for every other order.
func c06RunScenario(r *rng, w *bufio.Writer, sc c06Scenario, perms int, sel bool) {
	var classes []string
	var picked []*rules.NetworkRule
	var parts [][]string
	ts := append([]string(nil), sc.ts...)
	selOK, selWhy := true, ""
	selFail := func(why string) {
		if selOK {
			selOK, selWhy = false, why
		}
	}
	for p := 0; p < perms; p++ {
		if p == 1 && sc.mirror {
			parts = c06Mirror(parts)
		} else {
			if p > 0 {
				shuffle(r, ts)
			}
			parts = c06Assign(r, ts)
		}
		s := c06Storage(parts)
		lists := c06PartsNote(parts)
		if sc.web {
			e := urlfilter.NewEngine(s)
			ne := urlfilter.NewNetworkEngine(s)
			q := sc.webReq()
			srcQ := rules.NewRequest(q.SourceURL, "", rules.TypeDocument)
			rs := ne.MatchAll(q)
			src := ne.MatchAll(srcQ)
			lin := c06Linear(parts, func(f *rules.NetworkRule) bool { return f.Match(q) })
			linSrc := c06Linear(parts, func(f *rules.NetworkRule) bool { return f.Match(srcQ) })
			var got *rules.NetworkRule
			cls := guardStr(func() string {
				got = e.MatchRequest(sc.webReq()).GetBasicResult()

				return c08Class(got)
			})
			if cls != "PANIC" {
				fmt.Fprintf(w, "c06.result %s %s = %s ## Engine.MatchRequest(url=%q, referrer=%q, script) over lists [%s]: rules [%s] source [%s]\n", c06Enc(rs), c06Enc(src), cls,
					sc.url, sc.src, lists, c06Texts(rs), c06Texts(src))
				fmt.Fprintf(w, "c06.result %s %s = %s ## Engine.MatchRequest(url=%q, referrer=%q, script) client=%q over lists [%s] against ALL matching rules of the lists (linear scan): rules [%s] source [%s]%s\n",
					c06Enc(lin), c06Enc(linSrc), cls, sc.url, sc.src, sc.client, lists, c06Texts(lin), c06Texts(linSrc), sc.note)
			} else {
				fmt.Fprintf(w, "assert c06.enginepanic %s %s %s = F ## Engine.MatchRequest(url=%q, referrer=%q) panicked over [%s]\n", c06PartsWire(parts), wb(sc.url), wb(sc.src), sc.url, sc.src, lists)
			}
			// NetworkEngine.Match: the verdict over the matching rules alone (no referrer rules)
			var ngot *rules.NetworkRule
			ncls := guardStr(func() string {
				nr, ok := ne.Match(sc.webReq())
				if ok != (nr != nil) {
					return "BADFLAG"
				}
				ngot = nr

				return c08Class(nr)
			})
			fmt.Fprintf(w, "c06.result %s () = %s ## NetworkEngine.Match(url=%q, referrer=%q, script) over lists [%s]: rules [%s]\n", c06Enc(rs), ncls, sc.url, sc.src, lists, c06Texts(rs))
			fmt.Fprintf(w, "c06.result %s () = %s ## NetworkEngine.Match(url=%q, referrer=%q, script) client=%q over lists [%s] against ALL matching rules of the lists (linear scan): rules [%s]%s\n",
				c06Enc(lin), ncls, sc.url, sc.src, sc.client, lists, c06Texts(lin), sc.note)
			classes = append(classes, cls)
			picked = append(picked, got)
			if sel && cls != "PANIC" {
				c06EmitWeb(w, lin, linSrc, "direct, all matching rules of lists ["+lists+"]", nil, false)
				ref := rules.NewMatchingResult(append([]*rules.NetworkRule(nil), lin...), append([]*rules.NetworkRule(nil), linSrc...)).GetBasicResult()
				if !c06Tied(got, ref) {
					selFail(fmt.Sprintf("order [%s]: Engine.MatchRequest selected %s, the selection over all matching rules is %s (not tied)", lists, c06Name(got), c06Name(ref)))
				}
				nref := rules.NewMatchingResult(append([]*rules.NetworkRule(nil), lin...), nil).GetBasicResult()
				if !c06Tied(ngot, nref) {
					selFail(fmt.Sprintf("order [%s]: NetworkEngine.Match selected %s, the selection over all matching rules is %s (not tied)", lists, c06Name(ngot), c06Name(nref)))
				}
			}
		} else {
			e := urlfilter.NewDNSEngine(s)
			var res *urlfilter.DNSResult
			cls := guardStr(func() string {
				res, _ = e.MatchRequest(sc.dnsReq())

				return c08Class(res.NetworkRule)
			})
			if cls == "PANIC" {
				fmt.Fprintf(w, "assert c06.enginepanic %s = F ## DNSEngine.MatchRequest panicked over [%s]\n", c06PartsWire(parts), lists)
				classes = append(classes, cls)
				picked = append(picked, nil)

				continue
			}
			q := hostnameRequest(sc.dnsReq())
			lin := c06Linear(parts, func(f *rules.NetworkRule) bool { return f.IsHostLevelNetworkRule() && f.Match(q) })
			c06EmitDNS(w, res.NetworkRules, "DNSEngine.MatchRequest", res.NetworkRule, true)
			fmt.Fprintf(w, "c06.dnsbasic %s = %s ## DNSEngine.MatchRequest %s client=%q over lists [%s] against ALL matching rules of the lists (linear scan): [%s]%s\n",
				c06Enc(lin), cls, sc.host, sc.client, lists, c06Texts(lin), sc.note)
			classes = append(classes, cls)
			picked = append(picked, res.NetworkRule)
			if sel {
				c06EmitDNS(w, lin, "direct, all matching rules of lists ["+lists+"]", nil, false)
				ref := rules.GetDNSBasicRule(append([]*rules.NetworkRule(nil), lin...))
				if !c06Tied(res.NetworkRule, ref) {
					selFail(fmt.Sprintf("order [%s]: DNSEngine.MatchRequest selected %s, the selection over all matching rules is %s (not tied)", lists, c06Name(res.NetworkRule), c06Name(ref)))
				}
			}
		}
	}
	ok := true
	for _, c := range classes {
		if c != classes[0] {
			ok = false
		}
	}
	name, what := "c06.engineperm", fmt.Sprintf("Engine.MatchRequest(url=%q, referrer=%q)", sc.url, sc.src)
	if !sc.web {
		name, what = "c06.dnsengineperm", "DNSEngine"
	}
	fmt.Fprintf(w, "assert %s %s %s = %s ## %s classes of %d permutations/splits %v: [%s]%s\n", name, wstrs(ts), wb(sc.url+sc.host+"|"+sc.src+"|"+sc.client), wbool(ok), what, perms, classes,
		strings.Join(ts, "  ;  "), sc.note)
	if sel {
		for i := range picked {
			if !c06Tied(picked[0], picked[i]) {
				selFail(fmt.Sprintf("the selected rule depends on the order of the lists: %s vs %s (not tied)", c06Name(picked[0]), c06Name(picked[i])))
			}
		}
		fmt.Fprintf(w, "assert c07.engsel %s %s = %s ## %s: the rule selected for every storage order is tied with the selection over ALL matching rules and with the other orders: [%s]%s %s\n",
			wstrs(ts), wb(sc.url+sc.host+"|"+sc.src+"|"+sc.client), wbool(selOK), what, strings.Join(ts, "  ;  "), sc.note, selWhy)
	}
}

// c06EnginePools: the pools of the engine scenarios over the patterns pats (request side: document-level rules kept rare,
// they apply to document requests only and would not match the script request).
func c06RequestPool(pool []string) (rpool []string) {
	for _, t := range pool {
		if !strings.Contains(t, "block") && !strings.Contains(t, "document") && !strings.Contains(t, "elemhide") {
			rpool = append(rpool, t, t, t)
		} else if strings.Contains(t, "urlblock,genericblock") {
			rpool = append(rpool, t)
		}
	}

	return rpool
}

// c06StdScenario: multisets over the pools of e.org / site.com.
func c06StdInit() {
	c06StdOnce.Do(func() {
		c06StdR = c06RequestPool(c06PoolOver(false, c06WebPats...))
		c06StdS = c06PoolOver(false, c06SrcPats...)
		c06StdD = c06PoolOver(true, c06DNSPats...)
		// referrer-level exceptions whose pattern (hence lookup shortcut) covers the referrer's PATH, as written in
		// lower and in mixed case; the referrer URL itself comes in mixed case too (host and path): the engine must
		// find the exception through the lower-cased referrer URL
		c06StdSPath = c06Pool(c06LandPats[0], false)
		c06StdSPathMixed = c06Pool(c06LandPats[1], false)
	})
}

func c06StdScenario(r *rng, web bool) c06Scenario {
	c06StdInit()
	if web {
		sc := c06Scenario{web: true, url: "http://e.org/ad.js", src: "http://site.com/page"}
		sp := c06StdS
		if r.chance(1, 2) {
			sc.url = pick(r, []string{"http://e.org/ad.js", "http://E.org/Ad.js", "HTTP://E.ORG/AD.JS", "http://e.Org/ad.js"})
			sc.src = pick(r, []string{"http://site.com/Landing/page.html", "http://SITE.com/page", "https://Site.Com/Landing/Page.html",
				"http://site.com/landing/page.html", "http://sitE.com/LANDING", "HTTP://SITE.COM/Page", "http://site.Com/page"})
			sp = pick(r, [][]string{c06StdS, c06StdSPath, c06StdSPathMixed})
		}
		sc.ts = append(c06Multiset(r, c06StdR, 6), c06Multiset(r, sp, 3)...)

		return sc
	}

	return c06Scenario{host: "e.org", ts: c06Multiset(r, c06StdD, 6)}
}

var (
	c06StdOnce                    sync.Once
	c06StdR, c06StdS, c06StdD     []string
	c06StdSPath, c06StdSPathMixed []string
)

// genC06Engine: the multisets through the real engines, in several permutations and splits into lists.  Each engine
// run yields c06.result / c06.dnsbasic lines (rules = what MatchAll returned, and = all matching rules of the lists
// by a linear scan; answer = the engine's verdict) and the permutations must agree (assert).  Every fifth scenario
// contains two DIFFERENT rules whose full texts collide under the 32-bit hash (m2CollScenario): tables that key
// anything by a hash of the text lose or confuse one of them, depending on the order.
func genC06Engine(r *rng, n int, w *bufio.Writer) {
	for i := 0; i < n; i++ {
		web := r.chance(1, 2)
		if r.chance(1, 5) {
			if sc, ok := m2CollScenario(r, web); ok {
				c06RunScenario(r, w, sc, 2+r.n(2), false)

				continue
			}
		}
		if web && r.chance(1, 3) {
			// the page lives below a public suffix, `$domain` values name the suffix, patterns without a lookup shortcut
			c06RunScenario(r, w, r1C06SuffixScenario(r), 1+r.n(3), false)

			continue
		}
		c06RunScenario(r, w, c06StdScenario(r, web), 1+r.n(3), false)
	}
}


// genC06Pairs: all singletons and all pairs -- (rule, source rule) for web,
// (rule, rule) for DNS -- of the pools (seed-independent).  With n below the
// number of pairs, n pairs are sampled.
func genC06Pairs(r *rng, n int, w *bufio.Writer) {
	pool := c06Pool("||e.org^", false)
	spool := c06Pool("||site.com^", false)
	type pr struct{ a, b int }
	var pairs []pr
	for i := range pool {
		for j := range spool {
			pairs = append(pairs, pr{i, j})
		}
	}
	all := n >= len(pairs)
	if !all {
		shuffle(r, pairs)
		pairs = pairs[:n]
	}
	if all {
		for _, t := range pool {
			c06EmitWeb(w, c06Parse([]string{t}), nil, "direct", nil, false)
			c06EmitDNS(w, c06Parse([]string{t}), "direct", nil, false)
		}
	}
	for _, p := range pairs {
		c06EmitWeb(w, c06Parse([]string{pool[p.a]}), c06Parse([]string{spool[p.b]}), "direct", nil, false)
		if p.b < len(pool) {
			c06EmitDNS(w, c06Parse([]string{pool[p.a], pool[p.b]}), "direct", nil, false)
		}
	}
}

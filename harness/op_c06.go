package main

// C06 -- the verdict class follows the documented precedence in any order.
//
//	c06.result (<R rules>…) (<R source rules>…) = block|allow|none   NewMatchingResult(...).GetBasicResult()
//	c06.dnsbasic (<R>…) = block|allow|none                              GetDNSBasicRule
//	c06.pick (<R rules>…) (<R source rules>…) = b<idx>|d<idx>|none      which rule GetBasicResult returns (model only)
//	c06.dnspick (<R>…) = b<idx>|none
//	assert c06.perm … = T|F                                              all permutations / splits agree (computed in Go)
//
// Rule lists are multisets over a pool realising all combinations of
// {exception, $important, $domain-specific, document-level modifier,
// $dnsrewrite, $badfilter (twins), $stealth}; half of the lines come from real
// engines (Engine.MatchRequest / DNSEngine.MatchRequest over rule texts, split
// over several lists), the other half from the functions called directly.
// $replace/$cookie/$csp cannot be set from rule text on this tree.

import (
	"bufio"
	"fmt"
	"strings"

	"github.com/AdguardTeam/urlfilter"
	"github.com/AdguardTeam/urlfilter/filterlist"
	"github.com/AdguardTeam/urlfilter/rules"
)

func init() {
	gens["c06.result"] = genC06Result
	gens["c06.dnsbasic"] = genC06DNS
	gens["c06.engine"] = genC06Engine
	gens["c06.pairs"] = genC06Pairs
}

// c06Pool returns rule texts over pattern pat; source selects the referrer
// flavour (document-level modifiers make sense on exceptions only).
func c06Pool(pat string, dns bool) (texts []string) {
	seen := map[string]bool{}
	for _, exc := range []bool{false, true} {
		for _, imp := range []bool{false, true} {
			for _, dom := range []string{"", "domain=site.com", "domain=~other.org"} {
				for _, doc := range []string{"", "document", "urlblock", "genericblock", "elemhide", "urlblock,genericblock"} {
					for _, rw := range []bool{false, true} {
						for _, bad := range []bool{false, true} {
							for _, st := range []bool{false, true} {
								if !exc && (doc != "" || st) {
									continue
								}
								if dns && (dom != "" || doc != "" || st) {
									continue
								}
								var mods []string
								if imp {
									mods = append(mods, "important")
								}
								if dom != "" {
									// "~other.org": only negated entries -- still a GENERIC rule
									mods = append(mods, dom)
								}
								if doc != "" {
									mods = append(mods, doc)
								}
								if rw {
									mods = append(mods, "dnsrewrite=1.2.3.4")
								}
								if st {
									mods = append(mods, "stealth")
								}
								if bad {
									mods = append(mods, "badfilter")
								}
								t := pat
								if exc {
									t = "@@" + t
								}
								if len(mods) > 0 {
									t += "$" + strings.Join(mods, ",")
								}
								if _, err := rules.NewNetworkRule(t, 1); err != nil || seen[t] {
									continue
								}
								seen[t] = true
								texts = append(texts, t)
							}
						}
					}
				}
			}
		}
	}
	// a few extras: more modifiers (priority within a class), content types
	for _, t := range []string{pat + "$script", pat + "$script,third-party", "@@" + pat + "$script", pat + "$important,script", "@@" + pat + "$important,script",
		pat + "$ctag=a", pat + "$client=a", pat + "$denyallow=x.com", pat + "$dnstype=A", "@@" + pat + "$ctag=a", pat + "$ctag=a,badfilter"} {
		if _, err := rules.NewNetworkRule(t, 1); err == nil && !seen[t] && (!dns || !strings.Contains(t, "third-party")) {
			seen[t] = true
			texts = append(texts, t)
		}
	}

	return texts
}

func c06Parse(ts []string) (out []*rules.NetworkRule) {
	for _, t := range ts {
		out = append(out, mustRule(t))
	}

	return out
}

func c06Enc(rs []*rules.NetworkRule) string {
	enc := make([]string, len(rs))
	for i, f := range rs {
		enc[i] = wnetrule(f)
	}

	return wlist(enc...)
}

func c06Texts(rs []*rules.NetworkRule) string { return strings.Join(texts(rs), "  ;  ") }

func c06IndexOf(rs []*rules.NetworkRule, f *rules.NetworkRule) int {
	for i, x := range rs {
		if x == f {
			return i
		}
	}

	return -1
}

func c06EmitWeb(w *bufio.Writer, rs, src []*rules.NetworkRule, via string, got *rules.NetworkRule, have bool) {
	var res *rules.NetworkRule
	cls := guardStr(func() string {
		if have {
			res = got
		} else {
			res = rules.NewMatchingResult(append([]*rules.NetworkRule(nil), rs...), append([]*rules.NetworkRule(nil), src...)).GetBasicResult()
		}

		return c08Class(res)
	})
	fmt.Fprintf(w, "c06.result %s %s = %s ## %s: rules [%s] source [%s]\n", c06Enc(rs), c06Enc(src), cls, via, c06Texts(rs), c06Texts(src))
	pick := "none"
	if res != nil {
		if i := c06IndexOf(rs, res); i >= 0 {
			pick = fmt.Sprintf("b%d", i)
		} else if i := c06IndexOf(src, res); i >= 0 {
			pick = fmt.Sprintf("d%d", i)
		} else {
			pick = "foreign"
		}
	}
	if cls != "PANIC" {
		fmt.Fprintf(w, "c06.pick %s %s = %s ## %s: rules [%s] source [%s]\n", c06Enc(rs), c06Enc(src), pick, via, c06Texts(rs), c06Texts(src))
	}
}

func c06EmitDNS(w *bufio.Writer, rs []*rules.NetworkRule, via string, got *rules.NetworkRule, have bool) {
	var res *rules.NetworkRule
	cls := guardStr(func() string {
		if have {
			res = got
		} else {
			res = rules.GetDNSBasicRule(append([]*rules.NetworkRule(nil), rs...))
		}

		return c08Class(res)
	})
	fmt.Fprintf(w, "c06.dnsbasic %s = %s ## %s: [%s]\n", c06Enc(rs), cls, via, c06Texts(rs))
	pick := "none"
	if res != nil {
		pick = fmt.Sprintf("b%d", c06IndexOf(rs, res))
	}
	if cls != "PANIC" {
		fmt.Fprintf(w, "c06.dnspick %s = %s ## %s: [%s]\n", c06Enc(rs), pick, via, c06Texts(rs))
	}
}

func c06Multiset(r *rng, pool []string, maxN int) (ts []string) {
	// how many rules: 0..maxN mostly; 1 multiset in 12 is LARGE (log-scale up to 40x maxN, i.e. hundreds of
	// candidates on the request side and about a hundred on the referrer side), the deciding rule anywhere in it
	k := nCount(r, r.n(maxN+1), 12, maxN+1, 40*maxN)
	for i := 0; i < k; i++ {
		if len(ts) > 0 && r.chance(1, 4) {
			// the badfilter twin of an earlier rule
			t := pick(r, ts)
			if !strings.Contains(t, "badfilter") {
				if strings.Contains(t, "$") {
					t += ",badfilter"
				} else {
					t += "$badfilter"
				}
			}
			ts = append(ts, t)

			continue
		}
		ts = append(ts, c06Pick(r, pool))
	}

	return ts
}

// c06Pick draws from the pool with a bias against the features that make a
// rule ineffective (otherwise most verdicts would be "none").
func c06Pick(r *rng, pool []string) string {
	for {
		t := pick(r, pool)
		if strings.Contains(t, "dnsrewrite") && !r.chance(1, 5) {
			continue
		}
		if strings.Contains(t, "badfilter") && !r.chance(1, 5) {
			continue
		}
		if strings.Contains(t, "stealth") && !r.chance(1, 3) {
			continue
		}

		return t
	}
}

func genC06Result(r *rng, n int, w *bufio.Writer) {
	pool := c06Pool("||e.org^", false)
	spool := c06Pool("||site.com^", false)
	// D5 replay first
	b := c06Parse([]string{"||ads.com^$domain=site.com"})
	gu := c06Parse([]string{"@@||site.com^$genericblock", "@@||site.com^$urlblock"})
	c06EmitWeb(w, b, gu, "direct", nil, false)
	c06EmitWeb(w, b, []*rules.NetworkRule{gu[1], gu[0]}, "direct", nil, false)
	c06EmitWeb(w, nil, nil, "direct", nil, false)
	for i := 0; i < n; i++ {
		rs := c06Parse(c06Multiset(r, pool, 6))
		src := c06Parse(c06Multiset(r, spool, 3))
		perms := 1 + r.n(3)
		var classes []string
		for p := 0; p < perms; p++ {
			c06EmitWeb(w, rs, src, "direct", nil, false)
			classes = append(classes, c08Class(rules.NewMatchingResult(append([]*rules.NetworkRule(nil), rs...), append([]*rules.NetworkRule(nil), src...)).GetBasicResult()))
			shuffle(r, rs)
			shuffle(r, src)
		}
		ok := true
		for _, c := range classes {
			if c != classes[0] {
				ok = false
			}
		}
		fmt.Fprintf(w, "assert c06.perm %s %s = %s ## classes of %d permutations %v: rules [%s] source [%s]\n", wstrs(texts(rs)), wstrs(texts(src)), wbool(ok), perms, classes, c06Texts(rs), c06Texts(src))
	}
}

func genC06DNS(r *rng, n int, w *bufio.Writer) {
	pool := c06Pool("||e.org^", false)
	c06EmitDNS(w, nil, "direct", nil, false)
	for i := 0; i < n; i++ {
		rs := c06Parse(c06Multiset(r, pool, 6))
		perms := 1 + r.n(3)
		var classes []string
		for p := 0; p < perms; p++ {
			c06EmitDNS(w, rs, "direct", nil, false)
			classes = append(classes, c08Class(rules.GetDNSBasicRule(append([]*rules.NetworkRule(nil), rs...))))
			shuffle(r, rs)
		}
		ok := true
		for _, c := range classes {
			if c != classes[0] {
				ok = false
			}
		}
		fmt.Fprintf(w, "assert c06.dnsperm %s = %s ## classes of %d permutations %v: [%s]\n", wstrs(texts(rs)), wbool(ok), perms, classes, c06Texts(rs))
	}
}

// c06Lists splits texts into 1..3 rule lists at random points.
func c06Lists(r *rng, ts []string) *filterlist.RuleStorage {
	k := 1 + r.n(3)
	parts := make([][]string, k)
	for _, t := range ts {
		j := r.n(k)
		parts[j] = append(parts[j], t)
	}
	var lists []filterlist.RuleList
	for i, p := range parts {
		lists = append(lists, &filterlist.StringRuleList{ID: i + 1, RulesText: strings.Join(p, "\n") + "\n"})
	}
	s, err := filterlist.NewRuleStorage(lists)
	if err != nil {
		panic(err)
	}

	return s
}

// genC06Engine: the same multisets through the real engines, in several
// permutations and splits into lists.  Each engine run yields a c06.result /
// c06.dnsbasic line (rules = what MatchAll returned, answer = the engine's
// verdict) and the permutations must agree (assert).
func genC06Engine(r *rng, n int, w *bufio.Writer) {
	pool := c06Pool("||e.org^", false)
	spool := c06Pool("||site.com^", false)
	dpool := c06Pool("||e.org^", true)
	// rules with document-level modifiers apply to document requests only and would not match the
	// script request below: keep them rare on the request side
	var rpool []string
	for _, t := range pool {
		if !strings.Contains(t, "block") && !strings.Contains(t, "document") && !strings.Contains(t, "elemhide") {
			rpool = append(rpool, t, t, t)
		} else if strings.Contains(t, "urlblock,genericblock") {
			rpool = append(rpool, t)
		}
	}
	// referrer-level exceptions whose pattern (hence lookup shortcut) covers the referrer's PATH, as written in
	// lower and in mixed case; the referrer URL itself comes in mixed case too (host and path): the engine must
	// find the exception through the lower-cased referrer URL
	spoolPath := c06Pool("||site.com/landing", false)
	spoolPathMixed := c06Pool("||Site.com/Landing", false)
	reqURL, reqSrc := "http://e.org/ad.js", "http://site.com/page"
	req := func() *rules.Request {
		return rules.NewRequest(reqURL, reqSrc, rules.TypeScript)
	}
	for i := 0; i < n; i++ {
		reqURL, reqSrc = "http://e.org/ad.js", "http://site.com/page"
		if r.chance(1, 2) {
			sp := spool
			if r.chance(1, 2) {
				reqURL = pick(r, []string{"http://e.org/ad.js", "http://E.org/Ad.js", "HTTP://E.ORG/AD.JS", "http://e.Org/ad.js"})
				reqSrc = pick(r, []string{"http://site.com/Landing/page.html", "http://SITE.com/page", "https://Site.Com/Landing/Page.html",
					"http://site.com/landing/page.html", "http://sitE.com/LANDING", "HTTP://SITE.COM/Page", "http://site.Com/page"})
				sp = pick(r, [][]string{spool, spoolPath, spoolPathMixed})
			}
			ts := append(c06Multiset(r, rpool, 6), c06Multiset(r, sp, 3)...)
			perms := 1 + r.n(3)
			var classes []string
			for p := 0; p < perms; p++ {
				s := c06Lists(r, ts)
				e := urlfilter.NewEngine(s)
				ne := urlfilter.NewNetworkEngine(s)
				q := req()
				rs := ne.MatchAll(q)
				src := ne.MatchAll(rules.NewRequest(q.SourceURL, "", rules.TypeDocument))
				var got *rules.NetworkRule
				cls := guardStr(func() string {
					got = e.MatchRequest(req()).GetBasicResult()

					return c08Class(got)
				})
				// the engine holds its own rule objects: map the result to the MatchAll objects by text
				var mapped *rules.NetworkRule
				if got != nil {
					for _, x := range append(append([]*rules.NetworkRule{}, rs...), src...) {
						if x.RuleText == got.RuleText {
							mapped = x

							break
						}
					}
				}
				if cls != "PANIC" {
					fmt.Fprintf(w, "c06.result %s %s = %s ## Engine.MatchRequest(url=%q, referrer=%q, script) over lists [%s]: rules [%s] source [%s]\n", c06Enc(rs), c06Enc(src), cls,
						reqURL, reqSrc, strings.Join(ts, "  ;  "), c06Texts(rs), c06Texts(src))
				} else {
					fmt.Fprintf(w, "assert c06.enginepanic %s %s %s = F ## Engine.MatchRequest(url=%q, referrer=%q) panicked over [%s]\n", wstrs(ts), wb(reqURL), wb(reqSrc), reqURL, reqSrc, strings.Join(ts, "  ;  "))
				}
				_ = mapped
				// NetworkEngine.Match: the verdict over the matching rules alone (no referrer rules)
				ncls := guardStr(func() string {
					nr, ok := ne.Match(req())
					if ok != (nr != nil) {
						return "BADFLAG"
					}

					return c08Class(nr)
				})
				fmt.Fprintf(w, "c06.result %s () = %s ## NetworkEngine.Match(url=%q, referrer=%q, script) over lists [%s]: rules [%s]\n", c06Enc(rs), ncls,
					reqURL, reqSrc, strings.Join(ts, "  ;  "), c06Texts(rs))
				classes = append(classes, cls)
				shuffle(r, ts)
			}
			ok := true
			for _, c := range classes {
				if c != classes[0] {
					ok = false
				}
			}
			fmt.Fprintf(w, "assert c06.engineperm %s %s %s = %s ## Engine.MatchRequest(url=%q, referrer=%q) classes of %d permutations/splits %v: [%s]\n", wstrs(ts), wb(reqURL), wb(reqSrc), wbool(ok), reqURL, reqSrc, perms, classes, strings.Join(ts, "  ;  "))
		} else {
			ts := c06Multiset(r, dpool, 6)
			perms := 1 + r.n(3)
			var classes []string
			for p := 0; p < perms; p++ {
				s := c06Lists(r, ts)
				e := urlfilter.NewDNSEngine(s)
				res, _ := e.MatchRequest(&urlfilter.DNSRequest{Hostname: "e.org", DNSType: 1})
				c06EmitDNS(w, res.NetworkRules, "DNSEngine.MatchRequest", res.NetworkRule, true)
				classes = append(classes, c08Class(res.NetworkRule))
				shuffle(r, ts)
			}
			ok := true
			for _, c := range classes {
				if c != classes[0] {
					ok = false
				}
			}
			fmt.Fprintf(w, "assert c06.dnsengineperm %s = %s ## DNSEngine classes of %d permutations/splits %v: [%s]\n", wstrs(ts), wbool(ok), perms, classes, strings.Join(ts, "  ;  "))
		}
	}
}

// genC06Pairs: all singletons and all pairs -- (rule, source rule) for web,
// (rule, rule) for DNS -- of the pools (seed-independent).  With n below the
// number of pairs, n pairs are sampled.
func genC06Pairs(r *rng, n int, w *bufio.Writer) {
	pool := c06Pool("||e.org^", false)
	spool := c06Pool("||site.com^", false)
	type pr struct{ a, b int }
	var pairs []pr
	for i := range pool {
		for j := range spool {
			pairs = append(pairs, pr{i, j})
		}
	}
	all := n >= len(pairs)
	if !all {
		shuffle(r, pairs)
		pairs = pairs[:n]
	}
	if all {
		for _, t := range pool {
			c06EmitWeb(w, c06Parse([]string{t}), nil, "direct", nil, false)
			c06EmitDNS(w, c06Parse([]string{t}), "direct", nil, false)
		}
	}
	for _, p := range pairs {
		c06EmitWeb(w, c06Parse([]string{pool[p.a]}), c06Parse([]string{spool[p.b]}), "direct", nil, false)
		if p.b < len(pool) {
			c06EmitDNS(w, c06Parse([]string{pool[p.a], pool[p.b]}), "direct", nil, false)
		}
	}
}

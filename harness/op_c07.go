package main

// C07 -- IsHigherPriority is a strict weak order.
//
//	c07.prio <R a> <R b> = T|F            one ordered pair, a.IsHigherPriority(b)
//	c07.matrix (<R>…) (<R>…) = TFFT…      the matrix of a block of rows against a block of columns
//	assert c07.<law> … = T|F              laws computed in Go over the pool
//
// The pool realises every combination of the features IsHigherPriority reads
// that can be produced from rule text: exception, $important, $domain
// (none/permitted/restricted), content types (none/1/3/negated), options
// (none/enabled/disabled+enabled), $dnstype, $ctag, $client, $denyallow:
// 2*2*3*4*3*2*2*2*2 = 2304 rules.  $redirect is read by the function but
// cannot be set from rule text on this tree (loadOption has no case for it);
// the Lean theorems cover it, the correspondence cannot.

import (
	"bufio"
	"fmt"
	"strings"

	"github.com/AdguardTeam/urlfilter/rules"
)

func init() {
	gens["c07.prio"] = genC07Prio
	gens["c07.matrix"] = genC07Matrix
	gens["c07.laws"] = genC07Laws
}

type c07Rule struct {
	f    *rules.NetworkRule
	mods []string // modifier names present (for the add-modifier law)
	exc  bool
	pat  string // the pattern ("" = c07DefaultPattern)
}

const c07DefaultPattern = "||e.org^"

// c07Patterns: the pattern varies INDEPENDENTLY of the modifiers.  The order must not read the pattern at all, so the
// pool holds chains of nested prefixes (`||e.org` < `||e.org/` < `||e.org/ads/` < `||e.org/ads/banner`, `||e.org` <
// `||e.org^`), patterns unrelated to them as strings (`/ads/` -- a regexp rule --, `ads`, `e.org`), patterns of equal
// length, and (through the product pool) equal patterns.  The first seven are dealt over the product pool.
var c07Patterns = []string{
	"||e.org^", "||e.org/ads/", "||e.org/", "/ads/", "||e.org", "ads", "||e.org/ads/banner",
	"e.org", "|http://e.org/ads", "||e.org/ads/*", "/ads/banner", "||f.org^", "||e.org/adz/", "/e\\.org/", "||e.org/ads",
}

const c07PoolPatterns = 7

func c07Text(exc bool, mods []string) string { return c07TextP(c07DefaultPattern, exc, mods) }

func c07TextP(pat string, exc bool, mods []string) string {
	t := pat
	if t == "" {
		t = c07DefaultPattern
	}
	if exc {
		t = "@@" + t
	}
	if len(mods) > 0 {
		t += "$" + strings.Join(mods, ",")
	}

	return t
}

func c07Mk(exc bool, mods []string) c07Rule { return c07MkP(c07DefaultPattern, exc, mods) }

// c07MkP builds the rule over pattern pat; if the text is rejected with this pattern, over the default one.
func c07MkP(pat string, exc bool, mods []string) c07Rule {
	f, err := rules.NewNetworkRule(c07TextP(pat, exc, mods), 1)
	if err != nil && pat != c07DefaultPattern {
		pat = c07DefaultPattern
		f, err = rules.NewNetworkRule(c07TextP(pat, exc, mods), 1)
	}
	if err != nil {
		panic(c07TextP(pat, exc, mods) + ": " + err.Error())
	}

	return c07Rule{f: f, mods: append([]string(nil), mods...), exc: exc, pat: pat}
}

// c07Repat returns rule a over another pattern (same class, same modifiers).
// (memoised per rule object and pattern: the law loops call it millions of times in the thorough tier)
func c07Repat(a c07Rule, pat string) c07Rule {
	if pat == a.pat {
		return a
	}
	k := c07RepKey{a.f, pat}
	if b, ok := c07RepCache[k]; ok {
		return b
	}
	b := c07MkP(pat, a.exc, a.mods)
	if len(c07RepCache) < 400000 {
		c07RepCache[k] = b
	}

	return b
}

type c07RepKey struct {
	f   *rules.NetworkRule
	pat string
}

var c07RepCache = map[c07RepKey]c07Rule{}

var c07PoolCache []c07Rule

// c07Pool is deterministic (no randomness): the full feature product.
func c07Pool() []c07Rule {
	if c07PoolCache != nil {
		return c07PoolCache
	}
	var pool []c07Rule
	for _, exc := range []bool{false, true} {
		for _, imp := range []string{"", "important"} {
			for _, dom := range []string{"", "domain=e.org", "domain=~e.org"} {
				for _, ct := range []string{"", "script", "script,image,media", "~image"} {
					for _, opt := range []string{"", "third-party", "~third-party,match-case"} {
						for _, dt := range []string{"", "dnstype=A"} {
							for _, tag := range []string{"", "ctag=a"} {
								for _, cl := range []string{"", "client=a"} {
									for _, da := range []string{"", "denyallow=a.com"} {
										var mods []string
										for _, m := range []string{imp, dom, ct, opt, dt, tag, cl, da} {
											if m != "" {
												mods = append(mods, strings.Split(m, ",")...)
											}
										}
										// the pattern walks through the first c07PoolPatterns patterns (7 is coprime to every factor of
										// the product, so each modifier combination meets each pattern of a neighbour combination)
										pool = append(pool, c07MkP(c07Patterns[len(pool)%c07PoolPatterns], exc, mods))
									}
								}
							}
						}
					}
				}
			}
		}
	}
	c07PoolCache = pool

	return pool
}

// c07Extras are rules outside the product: exception-only and block-only
// options, negated and multi-valued lists, $dnsrewrite, $badfilter.
func c07Extras() (out []c07Rule) {
	for _, t := range []struct {
		exc  bool
		mods string
	}{
		{true, "urlblock"}, {true, "genericblock"}, {true, "document"}, {true, "elemhide,jsinject"},
		{true, "stealth"}, {true, "important,urlblock,domain=e.org"}, {true, "content,extension,generichide"},
		{false, "popup"}, {false, "empty"}, {false, "mp4,important"}, {false, "popup,domain=a.com|b.com"},
		{false, "ctag=~a"}, {false, "ctag=a|b|c"}, {false, "dnstype=~A"}, {false, "dnstype=A|AAAA"},
		{false, "client=~a"}, {false, "client=10.0.0.0/8"}, {false, "client=a|127.0.0.1|~b"},
		{false, "denyallow=a.com|b.com"}, {false, "domain=a.com|~b.com"}, {false, "domain=example.*"},
		{false, "dnsrewrite=1.2.3.4"}, {true, "dnsrewrite"}, {false, "badfilter"}, {true, "badfilter,important"},
		{false, "~script,~image,~media,~font"}, {false, "script,stylesheet,object,image,xmlhttprequest,media,font,websocket,ping,other"},
		{false, "first-party"}, {false, "~match-case"}, {false, "third-party,match-case,important,popup"},
		{false, "all"}, {false, "subdocument,~third-party"}, {true, "document,important,domain=e.org,ctag=a,client=a,denyallow=a.com,dnstype=A"},
		// LONG value lists (each list still counts as ONE modifier, whatever its length)
		{false, "domain=" + strings.Join(nWideValues(70, nil), "|")}, {false, "domain=~" + strings.Join(nWideValues(130, nil), "|~")},
		{false, "ctag=" + strings.Join(nWideValues(40, poolTags), "|")}, {false, "denyallow=" + strings.Join(nWideValues(65, nil), "|")},
		{false, "dnstype=" + strings.Join(nWideValues(33, poolDNSTypes), "|")}, {true, "client=" + strings.Join(nWideValues(20, nil), "|") + ",important"},
		{true, "domain=" + strings.Join(nWideValues(100, nil), "|") + ",ctag=" + strings.Join(nWideValues(17, poolTags), "|")},
	} {
		pat := c07Patterns[len(out)%len(c07Patterns)]
		f, err := rules.NewNetworkRule(c07TextP(pat, t.exc, strings.Split(t.mods, ",")), 1)
		if err != nil {
			pat = c07DefaultPattern
			if f, err = rules.NewNetworkRule(c07TextP(pat, t.exc, strings.Split(t.mods, ",")), 1); err != nil {
				continue
			}
		}
		out = append(out, c07Rule{f: f, mods: strings.Split(t.mods, ","), exc: t.exc, pat: pat})
	}

	return out
}

// c07Addable lists modifiers that can be added to rule r (not present yet, in
// the sense of "a new modifier", not a further value of a present one).
func c07Addable(r c07Rule) (out []string) {
	has := func(prefix string) bool {
		for _, m := range r.mods {
			if m == prefix || strings.HasPrefix(m, prefix+"=") {
				return true
			}
		}

		return false
	}
	hasAny := func(names ...string) bool {
		for _, n := range names {
			if has(n) {
				return true
			}
		}

		return false
	}
	if !has("important") {
		out = append(out, "important")
	}
	if !has("domain") {
		out = append(out, "domain=f.org", "domain=~f.org")
	}
	if !hasAny("script", "~script", "all") {
		out = append(out, "script", "~script")
	}
	if !hasAny("font", "~font", "all") {
		out = append(out, "font")
	}
	if !hasAny("third-party", "~third-party", "first-party") {
		out = append(out, "third-party", "~third-party")
	}
	if !hasAny("match-case", "~match-case") {
		out = append(out, "match-case", "~match-case")
	}
	if !has("dnstype") {
		out = append(out, "dnstype=AAAA", "dnstype=~AAAA")
	}
	if !has("ctag") {
		out = append(out, "ctag=b", "ctag=~b")
	}
	if !has("client") {
		out = append(out, "client=b", "client=~10.0.0.1")
	}
	if !has("denyallow") {
		out = append(out, "denyallow=b.com")
	}
	// Document-only options ($popup, $elemhide, …) make loadOptions overwrite the
	// permitted content types with TypeDocument, i.e. they REPLACE the content
	// type modifiers of the rule instead of being added to them; they are pure
	// additions only for rules without permitted content types.
	noPermTypes := !hasAny("script", "image", "media", "all", "font", "stylesheet", "object", "xmlhttprequest", "websocket", "ping", "other", "subdocument")
	docOnly := hasAny("elemhide", "document", "popup", "jsinject", "content", "urlblock", "genericblock", "generichide", "extension")
	if r.exc && noPermTypes && !docOnly {
		out = append(out, "elemhide")
	}
	if !r.exc && noPermTypes && !docOnly {
		out = append(out, "popup")
	}
	if docOnly {
		// content types of a document-only rule are overwritten: not additions
		var keep []string
		for _, m := range out {
			switch m {
			case "script", "font":
			default:
				keep = append(keep, m)
			}
		}
		out = keep
	}

	return out
}

func c07All() []c07Rule { return append(append([]c07Rule{}, c07Pool()...), c07Extras()...) }

func hp(a, b *rules.NetworkRule) string {
	return guardStr(func() string { return wbool(a.IsHigherPriority(b)) })
}

func genC07Prio(r *rng, n int, w *bufio.Writer) {
	all := c07All()
	emit := func(a, b *rules.NetworkRule) {
		fmt.Fprintf(w, "c07.prio %s %s = %s ## %s  >?  %s\n", wnetrule(a), wnetrule(b), hp(a, b), a.RuleText, b.RuleText)
	}
	// the D6 replay pairs first
	for _, p := range [][2]string{
		{"||e^$script,image,media", "||e^$domain=e.org"}, {"||e^$domain=e.org", "||e^$script,image,media"},
		{"||e^$client=a", "||e^$dnstype=A"}, {"||e^$dnstype=A", "||e^$client=a"},
		{"||e^$denyallow=a.com", "||e^$ctag=a"}, {"||e^$ctag=a", "||e^$denyallow=a.com"},
	} {
		emit(mustRule(p[0]), mustRule(p[1]))
	}
	for i := 0; i < n; i++ {
		a := pick(r, all)
		switch r.n(10) {
		case 0:
			emit(a.f, a.f)
		case 1, 2:
			// the rule and the rule with one more modifier, in both directions
			adds := c07Addable(a)
			if len(adds) == 0 {
				emit(a.f, a.f)

				continue
			}
			// (over the same pattern or over another one: the pattern must not matter)
			bp := a.pat
			if r.chance(1, 3) {
				bp = pick(r, c07Patterns)
			}
			b := c07MkP(bp, a.exc, append(append([]string{}, a.mods...), pick(r, adds)))
			if r.chance(1, 2) {
				emit(b.f, a.f)
			} else {
				emit(a.f, b.f)
			}
		case 3:
			// a randomly generated rule against a pool rule
			f, _ := genValidNetRule(r, r.chance(1, 2))
			if r.chance(1, 2) {
				emit(f, a.f)
			} else {
				emit(a.f, f)
			}
		case 4, 5:
			// the same class and modifiers (or modifiers of the same number) over two patterns, in both directions:
			// nested prefixes, unrelated patterns, equal patterns
			b := a
			if r.chance(1, 2) {
				b = pick(r, all)
			}
			a2, b2 := c07Repat(a, pick(r, c07Patterns)), c07Repat(b, pick(r, c07Patterns))
			emit(a2.f, b2.f)
			emit(b2.f, a2.f)
		default:
			b := pick(r, all)
			emit(a.f, b.f)
			if r.chance(1, 3) {
				emit(b.f, a.f)
			}
		}
	}
}

const c07Block = 48

func genC07Matrix(r *rng, n int, w *bufio.Writer) {
	pool := c07Pool()
	nb := (len(pool) + c07Block - 1) / c07Block
	type bp struct{ i, j int }
	var pairs []bp
	for i := 0; i < nb; i++ {
		for j := 0; j < nb; j++ {
			pairs = append(pairs, bp{i, j})
		}
	}
	if n < len(pairs) {
		shuffle(r, pairs)
		pairs = pairs[:n]
	}
	enc := make([]string, len(pool))
	for i, p := range pool {
		enc[i] = wnetrule(p.f)
	}
	block := func(i int) (lo, hi int) {
		lo, hi = i*c07Block, (i+1)*c07Block
		if hi > len(pool) {
			hi = len(pool)
		}

		return lo, hi
	}
	for _, p := range pairs {
		alo, ahi := block(p.i)
		blo, bhi := block(p.j)
		var sb strings.Builder
		for a := alo; a < ahi; a++ {
			for b := blo; b < bhi; b++ {
				sb.WriteString(hp(pool[a].f, pool[b].f))
			}
		}
		fmt.Fprintf(w, "c07.matrix %s %s = %s ## rows pool[%d:%d] (%s …) x columns pool[%d:%d] (%s …)\n",
			wlist(enc[alo:ahi]...), wlist(enc[blo:bhi]...), sb.String(), alo, ahi, pool[alo].f.RuleText, blo, bhi, pool[blo].f.RuleText)
	}
}

// genC07Laws checks the laws on the Go side.  With n >= 1000000 (thorough)
// irreflexivity and asymmetry are checked for ALL ordered pairs of the pool and
// add-modifier for every rule and every addable modifier; otherwise sampled.
func genC07Laws(r *rng, n int, w *bufio.Writer) {
	all := c07All()
	exhaustive := n >= 1000000
	// irreflexivity: always exhaustive (cheap)
	bad := ""
	for _, a := range all {
		if a.f.IsHigherPriority(a.f) {
			bad = a.f.RuleText

			break
		}
	}
	fmt.Fprintf(w, "assert c07.irrefl %d = %s ## no a>a over %d rules %s\n", len(all), wbool(bad == ""), len(all), bad)

	// asymmetry
	bad = ""
	checked := 0
	if exhaustive {
	outer:
		for _, a := range all {
			for _, b := range all {
				checked++
				if a.f.IsHigherPriority(b.f) && b.f.IsHigherPriority(a.f) {
					bad = a.f.RuleText + "  <>  " + b.f.RuleText

					break outer
				}
			}
		}
	} else {
		for i := 0; i < n*20 && bad == ""; i++ {
			a, b := pick(r, all), pick(r, all)
			checked++
			if a.f.IsHigherPriority(b.f) && b.f.IsHigherPriority(a.f) {
				bad = a.f.RuleText + "  <>  " + b.f.RuleText
			}
		}
	}
	fmt.Fprintf(w, "assert c07.asymm %d = %s ## no a>b && b>a over %d ordered pairs %s\n", checked, wbool(bad == ""), checked, bad)

	// the pattern is not read: a rule is tied with itself over any other pattern, for every ordered pair of patterns
	// (nested prefixes, unrelated, equal length); sampled rules, all rules in the exhaustive tier
	bad = ""
	checked = 0
	np := n / 10
	if exhaustive || np > len(all) {
		np = len(all)
	}
	for i := 0; i < np && bad == ""; i++ {
		a := all[i]
		if !exhaustive {
			a = pick(r, all)
		}
		for _, p1 := range c07Patterns {
			for _, p2 := range c07Patterns {
				x, y := c07Repat(a, p1), c07Repat(a, p2)
				checked++
				if x.f.IsHigherPriority(y.f) {
					bad = x.f.RuleText + "  >  " + y.f.RuleText
				}
			}
		}
	}
	fmt.Fprintf(w, "assert c07.patblind %d = %s ## a rule over pattern p never outranks the same rule over pattern q, %d ordered pairs %s\n", checked, wbool(bad == ""), checked, bad)

	// transitivity of > and of ties: sampled triples, biased to related rules
	bad = ""
	checked = 0
	nt := n * 50
	if exhaustive {
		nt = 20000000
	}
	gt := func(a, b c07Rule) bool { return a.f.IsHigherPriority(b.f) }
	tie := func(a, b c07Rule) bool { return !gt(a, b) && !gt(b, a) }
	for i := 0; i < nt && bad == ""; i++ {
		a, b, c := pick(r, all), pick(r, all), pick(r, all)
		switch i % 4 {
		case 1:
			// one rule over three patterns: the three must be mutually tied whatever the patterns are
			b, c = c07Repat(a, pick(r, c07Patterns)), c07Repat(a, pick(r, c07Patterns))
		case 2:
			// rules differing in one added modifier, each over its own pattern (parses a rule: every 8th triple of this kind only)
			if adds := c07Addable(a); len(adds) > 0 && i%32 == 2 {
				b = c07MkP(pick(r, c07Patterns), a.exc, append(append([]string{}, a.mods...), pick(r, adds)))
			}
			c = c07Repat(c, pick(r, c07Patterns))
		case 3:
			a, b, c = c07Repat(a, pick(r, c07Patterns)), c07Repat(b, pick(r, c07Patterns)), c07Repat(c, pick(r, c07Patterns))
		}
		if i%8 >= 4 {
			a, b, c = b, c, a
		}
		checked++
		if gt(a, b) && gt(b, c) && !gt(a, c) {
			bad = "a>b>c but not a>c: " + a.f.RuleText + " , " + b.f.RuleText + " , " + c.f.RuleText
		}
		if tie(a, b) && tie(b, c) && !tie(a, c) {
			bad = "a~b~c but not a~c: " + a.f.RuleText + " , " + b.f.RuleText + " , " + c.f.RuleText
		}
	}
	fmt.Fprintf(w, "assert c07.trans %d = %s ## transitivity of > and of ties over %d sampled triples %s\n", checked, wbool(bad == ""), checked, bad)

	// adding a modifier makes the rule strictly higher
	type am struct {
		a   c07Rule
		mod string
	}
	var cases []am
	for _, a := range all {
		for _, m := range c07Addable(a) {
			cases = append(cases, am{a, m})
		}
	}
	if !exhaustive && n < len(cases) {
		shuffle(r, cases)
		cases = cases[:n]
	}
	for i, c := range cases {
		// the richer rule over the same pattern, and (every 3rd case) over another pattern
		bp := c.a.pat
		if i%3 == 2 {
			bp = c07Patterns[(i/3)%len(c07Patterns)]
		}
		b := c07MkP(bp, c.a.exc, append(append([]string{}, c.a.mods...), c.mod))
		ok := b.f.IsHigherPriority(c.a.f) && !c.a.f.IsHigherPriority(b.f)
		if exhaustive && ok && i%50 != 0 {
			// keep the thorough stream short: print every 50th passing case, every failing one
			continue
		}
		fmt.Fprintf(w, "assert c07.addmod %s %s = %s ## %s  must outrank  %s\n", wb(c.a.f.RuleText), wb(c.mod), wbool(ok), b.f.RuleText, c.a.f.RuleText)
	}

	// the selected rule is maximal and has the same rank for every permutation
	ns := n
	if exhaustive {
		ns = 200000
	}
	for i := 0; i < ns/10+1; i++ {
		k := nCount(r, 1+r.n(7), 10, 8, 600) // candidates: 1..7 mostly, 1 list in 10 log-scale up to 600
		cand := make([]c07Rule, k)
		for j := range cand {
			cand[j] = pick(r, all)
		}
		switch i % 3 {
		case 1:
			// candidates of one class and modifier set over different patterns, plus strangers
			for j := range cand {
				if j == 0 || r.chance(2, 3) {
					cand[j] = c07Repat(cand[0], pick(r, c07Patterns))
				}
			}
		case 2:
			for j := range cand {
				cand[j] = c07Repat(cand[j], pick(r, c07Patterns))
			}
		}
		sel := func(cs []c07Rule) c07Rule {
			best := cs[0]
			for _, c := range cs[1:] {
				if c.f.IsHigherPriority(best.f) {
					best = c
				}
			}

			return best
		}
		w0 := sel(cand)
		ok := true
		for _, c := range cand {
			if c.f.IsHigherPriority(w0.f) {
				ok = false
			}
		}
		var ts []string
		for _, c := range cand {
			ts = append(ts, c.f.RuleText)
		}
		for p := 0; p < 4 && ok; p++ {
			shuffle(r, cand)
			w1 := sel(cand)
			if !tie(w0, w1) {
				ok = false
			}
		}
		// in a strict weak order every winner outranks every candidate outside the top class: a candidate that loses to
		// the winner of one ordering loses to the winner of every ordering
		why := ""
		for p := 0; p < 4 && ok; p++ {
			shuffle(r, cand)
			w1 := sel(cand)
			for _, c := range cand {
				if gt(w0, c) != gt(w1, c) {
					ok = false
					why = " (winner " + w1.f.RuleText + " of another ordering ranks " + c.f.RuleText + " differently)"
				}
			}
		}
		// the REAL selection loop (GetDNSBasicRule) over the candidates it does not filter out, in several orderings
		var live []*rules.NetworkRule
		for _, c := range cand {
			if !c.f.IsOptionEnabled(rules.OptionBadfilter) && c.f.DNSRewrite == nil && !c.f.IsOptionEnabled(rules.OptionStealth) {
				live = append(live, c.f)
			}
		}
		for p := 0; p < 3 && ok && len(live) > 0; p++ {
			got := rules.GetDNSBasicRule(append([]*rules.NetworkRule(nil), live...))
			if got == nil {
				ok, why = false, " (GetDNSBasicRule returned nil)"

				break
			}
			for _, c := range live {
				if c.IsHigherPriority(got) {
					ok = false
					why = " (GetDNSBasicRule selected " + got.RuleText + ", outranked by " + c.RuleText + ")"
				}
			}
			if got.IsHigherPriority(w0.f) || w0.f.IsHigherPriority(got) {
				if c06IndexOf(live, w0.f) >= 0 {
					ok = false
					why = " (GetDNSBasicRule selected " + got.RuleText + ", not tied with the winner)"
				}
			}
			shuffle(r, live)
		}
		if exhaustive && ok && i%100 != 0 {
			continue
		}
		fmt.Fprintf(w, "assert c07.select %s = %s ## winner %s of %s%s\n", wstrs(ts), wbool(ok), w0.f.RuleText, strings.Join(ts, " , "), why)
	}
}

package main

// Group P3 (REVIEW2 F3): the shapes on which Go's regexp/syntax does not implement the textbook
// semantics of the expression it is given.  parser.factor (round 2) merges the leading one-rune
// literals of adjacent alternation branches with Regexp.Equal, which ignores the fold-case flag, and
// keeps the node of the first: `A.|[aA]` is compiled as `A(?:.|(?:))`, `[aA]b|A.` as `(?i:A)(?:b|.)`.
//
//	genQuirkText    X.|[xX], [xX]y|X., X[^x]|[Xx]x, (?i:x)y|X., longer common prefixes (round 1 first),
//	                fixed repeats X{2}|[xX]{2}, one-character classes [X], \x58, k/s (no folded literal),
//	                capture groups, nested alternations, (?:…) (outside the modelled domain when a folded
//	                literal can arise: the driver must answer ood)
//	quirkSubjects   members of the case-SENSITIVE tree, of the case-insensitive one, their case flips and
//	                every short string over the letters of the expression
//
// Families: `re.quirk` (op `re`), `i2.quirk` (ops `i2.pat`, `i2.reshortcut`: /…/ rules with and without
// $match-case).  The same texts are mixed into genRegexText / genRegexRule / i2ReTricky, i.e. into the
// families re, i2.pat, i2.match, i2.textmatch, i2.reshortcut, c05.tree, c05.url, c05.shortcut.

import (
	"bufio"
	"fmt"
	"regexp/syntax"
	"strings"

	"github.com/AdguardTeam/urlfilter/rules"
)

func init() {
	gens["re.quirk"] = genReQuirk
	gens["i2.quirk"] = genI2Quirk
}

// quirkFixed: the witnesses of the review and their neighbours.
var quirkFixed = []string{
	`A.|[aA]`, `[aA]b|A.`, `A[^a]|[Aa]a`, `(?i:a)y|A.`, `Ab|Ac|[aA]d`, `AB.|A[bB]`, `A{2}x|[aA]{2}y`, `A{2}?x|[aA]{2}y`,
	`(?:a|A)b|A.`, `A.|(?:a|A)b`, `X(?:A.)|[xX]y`, `XA.|[xX]y`, `(?:[0-9]A)b|[0-9][aA]c`, `[0-9]Ab|[0-9][aA]c`,
	`a.|[aA]`, `K.|[kK]`, `S.|[sS]`, `A|[aA]b`, `x|A|[aA]b`, `(A.|[aA])`, `(A).|[aA]`, `[A].|[aA]`, `\x41.|[aA]`, `A.|[a\x41]`,
	`A+|[aA]`, `A.|[aA]+`, `A{1}.|[aA]{1}`, `A{1}.|[aA]`, `ABX|AB[xX]`, `[aA]x|A|A`, `A|A|[aA]x`, `[aA]x|Ab|Ac`, `Ab|[aA]c|Ad`,
	`(a|A)b|A.`, `A.|(a|A)b`, `x(A.|[aA])y`, `(A.|[aA])+`, `(A.|[aA]b|[aA])`, `A.|[aA]b|[aA]`, `[aA]x|A.|[aA]`, `A.|[aA]x|[aA]`,
	`[0-9]A.|[0-9][aA]`, `\dA.|\d[aA]`, `.A.|.[aA]`, `[^\n]|.A.|.[aA]`, `.A.|[^\n][aA]`, `A[bB]|A.|[aA]B`, `AB|A[bB]c|[aA]Bd`,
	`ads[A]x|ads[aA]y`, `adsA\d|ads[aA]x`, `ad[sS]A|adSB|ad[sS]`, `Ad.|[aA]d`, `[aA]d|Ad.`, `Ads|[aA]ds\d`, `[aA]ds\d|Ads`,
	`^A.|^[aA]`, `A.$|[aA]$`, `\bA.|\b[aA]`, `A.|[aA]|B.|[bB]`, `A.|B.|[aA]|[bB]`, `[aA]|A.`, `[aA]|A`, `A|[aA]`, `A|a`, `A|a|A.`,
	`Z.|[zZ]`, `[zZ]9|Z.`, `B[^b]|[Bb]b`, `(B.|[bB])|(A.|[aA])`, `((A.|[aA]))`, `(x|A.|[aA])`, `(A.|[aA]|x)`, `A.|[aA]|`, `|A.|[aA]`,
	`A.||[aA]`, `A\.|[aA]`, `A.|[aA]\.`, `A.|[a-aA-A]`, `A.|[Aa-a]`, `A.|[^\x00-@B-\x60b-\x7f]`, `A.|[aAa]`, `A.|[aAb]`, `A.|[aB]`,
	`[aA][bB]|A.`, `A.|[aA][bB]`, `[aA][bB]x|AB.`, `AB.|[aA][bB]x`, `[aA]B.|A[bB]x`, `A[bB]x|[aA]B.`,
}

var quirkLetters = []string{"A", "A", "A", "B", "Z", "X", "K", "S", "D"}

func quirkLower(x string) string { return strings.ToLower(x) }

// quirkLead: an expression that Go's parser pushes as a one-rune literal of the letter x (or that looks like one).
func quirkLead(r *rng, x string) string {
	l := quirkLower(x)
	switch k := r.n(48); {
	case k < 14:
		return x
	case k < 26:
		return pick(r, []string{"[" + l + x + "]", "[" + x + l + "]"})
	case k < 30:
		return l
	case k < 32:
		return "[" + x + "]"
	case k < 34:
		return fmt.Sprintf(`\x%02x`, x[0])
	case k < 36:
		return pick(r, []string{"[" + l + fmt.Sprintf(`\x%02x`, x[0]) + "]", "[" + x + "-" + x + l + "-" + l + "]", "[" + l + x + l + "]"})
	case k < 37:
		return "(?i:" + l + ")"
	case k < 39:
		return pick(r, []string{"(" + l + "|" + x + ")", "(" + x + "|" + l + ")", "(" + l + "|" + x + ")", "(" + x + "|" + l + ")", "(?:" + l + "|" + x + ")", "(?:" + x + "|" + l + ")"})
	case k < 42:
		return pick(r, []string{x + "{2}", "[" + l + x + "]{2}", x + "{2}", "[" + l + x + "]{2}", x + "{2}?", "[" + l + x + "]{2,2}", x + "{1}", "[" + x + l + "]{1}", x + "{0}", x + "{3}"})
	case k < 44:
		return pick(r, []string{x + "*", "[" + l + x + "]+", x + "?", "(" + x + ")", "([" + l + x + "])"})
	case k < 46:
		return "[" + l + "]"
	default:
		return pick(r, []string{"[" + l + x + "b]", "[^" + l + "]", "."})
	}
}

func quirkTail(r *rng, x string, d int) string {
	l := quirkLower(x)
	var sb strings.Builder
	for i, n := 0, r.n(3); i < n; i++ {
		switch k := r.n(20); {
		case k < 4:
			sb.WriteString(".")
		case k < 6:
			sb.WriteString("[^" + l + "]")
		case k < 8:
			sb.WriteString(pick(r, []string{`\d`, "[0-9]", `\w`}))
		case k < 11:
			sb.WriteString(pick(r, []string{"b", "c", "d", "x", "y", "1", `\.`}))
		case k < 14:
			// the same game one level down (after the prefix is factored out)
			y := pick(r, quirkLetters)
			sb.WriteString(quirkLead(r, y))
		case k < 15:
			sb.WriteString(quirkLead(r, x))
		case k < 16:
			sb.WriteString(pick(r, []string{"$", `\b`, "^"}))
		case k < 18 && d > 0:
			sb.WriteString("(" + quirkAlt(r, d-1) + ")" + pick(r, []string{"", "", "+", "?", "*", "{2}"}))
		case k < 19 && d > 0 && r.chance(1, 3):
			sb.WriteString("(?:" + quirkAlt(r, d-1) + ")")
		default:
			sb.WriteString(pick(r, []string{"s", "ds", "banner", "B", "[bB]"}))
		}
	}

	return sb.String()
}

// quirkAlt: an alternation whose branches start (after a shared prefix) with one-rune literals of the
// same letter in different guises.
func quirkAlt(r *rng, d int) string {
	x := pick(r, quirkLetters)
	pre := pick(r, []string{"", "", "", "", "P", "ad", "[0-9]", `\d`, ".", "[pP]", "Ad", "p", x, "[" + quirkLower(x) + x + "]", "^", `\/`})
	n := 2 + r.n(3)
	bs := make([]string, n)
	for i := range bs {
		y := x
		if r.chance(1, 6) {
			y = pick(r, quirkLetters)
		}
		p := pre
		if r.chance(1, 8) {
			p = pick(r, []string{"", "P", "[0-9]", "p"})
		}
		if r.chance(1, 40) {
			p = "(?:" + p
			bs[i] = p + quirkLead(r, y) + ")" + quirkTail(r, y, d)
		} else {
			bs[i] = p + quirkLead(r, y) + quirkTail(r, y, d)
		}
		if r.chance(1, 14) {
			bs[i] = pick(r, []string{"", "q", x, quirkLower(x), "."})
		}
	}

	return strings.Join(bs, "|")
}

// genQuirkText: one expression of the quirk grammar (no flag prefix).
func genQuirkText(r *rng) string {
	switch k := r.n(12); {
	case k < 3:
		return pick(r, quirkFixed)
	case k < 4:
		// a witness with its letter changed
		p := pick(r, quirkFixed)
		x := pick(r, []string{"B", "Z", "X", "K", "S", "E"})
		p = strings.ReplaceAll(p, "A", "\x00")
		p = strings.ReplaceAll(p, "a", quirkLower(x))
		p = strings.ReplaceAll(p, "\x00", x)

		return p
	case k < 10:
		s := quirkAlt(r, 1+r.n(2))
		switch r.n(16) {
		case 0, 2:
			s = pick(r, []string{"x", "", "^", `\/`, "ads"}) + "(" + s + ")" + pick(r, []string{"y", "", "$", "+", `\.js`, "{2}"})
		case 1:
			s = "(?:" + s + ")" + pick(r, []string{"y", "", "+", "|" + quirkAlt(r, 0)})
		case 3, 4:
			s = s + "|" + quirkAlt(r, 1)
		}

		return s
	default:
		return quirkAlt(r, 0) + "|" + genReConcat(r, 1)
	}
}

// quirkSubjects: subjects that tell the textbook reading of p from Go's.
func quirkSubjects(r *rng, p string, k int) []string {
	var out []string
	for _, text := range []string{p, "(?i)" + p} {
		tree, err := syntax.Parse(text, syntax.Perl)
		if err != nil {
			continue
		}
		for _, s := range reSubjects(r, tree, k, 4) {
			out = append(out, s)
			if r.chance(1, 2) {
				out = append(out, flipCase(r, s))
			}
		}
	}
	// short strings over the letters of the expression
	var letters []byte
	seen := map[byte]bool{}
	for i := 0; i < len(p); i++ {
		c := p[i]
		if c >= 'a' && c <= 'z' || c >= 'A' && c <= 'Z' {
			for _, d := range []byte{c | 0x20, c &^ 0x20} {
				if !seen[d] {
					seen[d] = true
					letters = append(letters, d)
				}
			}
		}
	}
	letters = append(letters, '0', '.')
	for i := 0; i < k; i++ {
		n := 1 + r.n(4)
		b := make([]byte, n)
		for j := range b {
			b[j] = letters[r.n(len(letters))]
		}
		out = append(out, string(b))
	}

	return out
}

func genReQuirk(r *rng, n int, w *bufio.Writer) {
	r = remix(r)
	for i := 0; i < n; {
		p := genQuirkText(r)
		subs := quirkSubjects(r, p, 3+r.n(3))
		if r.chance(1, 8) {
			p = "(?i)" + p
		}
		if len(subs) == 0 {
			subs = []string{""}
		}
		for _, s := range subs {
			if i >= n {
				break
			}
			emitRe(w, p, s)
			i++
		}
	}
}

// genI2Quirk: the same expressions as /…/ rules, with and without $match-case: the pattern answer
// (i2.pat) and the shortcut from the text (i2.reshortcut).
func genI2Quirk(r *rng, n int, w *bufio.Writer) {
	r = remix(r)
	for i := 0; i < n; {
		p := genQuirkText(r)
		pattern := "/" + p + "/"
		ans := guardStr(func() string { return wb(rules.VerifFindRegexpShortcut(pattern)) })
		fmt.Fprintf(w, "i2.reshortcut %s = %s ## %s\n", wb(pattern), ans, noteStr(pattern))
		i++
		text := pattern
		if r.chance(2, 3) {
			text += "$match-case"
		}
		f, err := guardRule(text, 1)
		if err != nil || f == nil || !f.IsRegexRule() {
			continue
		}
		mc := f.IsOptionEnabled(rules.OptionMatchCase)
		for _, s := range quirkSubjects(r, p, 2+r.n(2)) {
			if i >= n {
				break
			}
			u := s
			switch r.n(3) {
			case 0:
				u = "http://h/" + s
			case 1:
				u = pick(r, poolSchemes) + "://" + pick(r, poolDomains) + "/" + s + "?x=1"
			}
			g, err := guardRule(text, 1)
			if err != nil || g == nil {
				g = f
			}
			fmt.Fprintf(w, "i2.pat %s %s %s = %s ## %s on %s\n", wb(f.VerifRaw().Pattern), wbool(mc), wb(u), i2PatAnswer(g, u),
				noteStr(text), noteStr(u))
			i++
		}
	}
}

// genQuirkRule: a /…/ rule of the quirk grammar ($match-case two times in three).
func genQuirkRule(r *rng) *rules.NetworkRule {
	for k := 0; k < 50; k++ {
		re := genQuirkText(r)
		if r.chance(1, 3) {
			re = pick(r, []string{"", "ads", `\/`, "x"}) + "(" + re + ")" + pick(r, []string{"", "banner", `\.js`, "y"})
		}
		t := "/" + re + "/"
		if r.chance(2, 3) {
			t += "$match-case"
		}
		if g, err := guardRule(t, 1); err == nil && g != nil && g.IsRegexRule() {
			return g
		}
	}

	return genRegexRule(r)
}

// quirkTwoCase: does the text contain a class of the two cases of a letter?
func quirkTwoCase(p string) bool {
	for i := 0; i+3 < len(p); i++ {
		if p[i] == '[' && p[i+3] == ']' && p[i+1] != p[i+2] && p[i+1]|0x20 == p[i+2]|0x20 && (p[i+1]|0x20) >= 'a' && (p[i+1]|0x20) <= 'z' {
			return true
		}
	}

	return false
}

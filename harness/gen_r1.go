package main

// Shared generator helpers of group R1 (strengthening round after seed round 5):
//
//   - r1FileList: a FILE-backed rule list (filterlist.FileRuleList over a real temporary file), so
//     that rule retrieval runs through FileRuleList.RetrieveRule / readLine and not through the
//     in-memory string list.  The file is unlinked right after it has been opened (the list keeps
//     the descriptor), descriptors are closed a few scenarios later.
//   - r1LongRuleTexts: rule lines much longer than the 4096-byte read buffer of the lists (4–20 KiB):
//     long `$domain` / `$denyallow` / `$client` / `$ctag` lists and long paths, landing in each of
//     the three lookup tables.
//   - r1NoETLD1Hosts / r1HexNames / r1SuffixDomains: host-name pools for the boundaries that the
//     ordinary pools under-sample: hosts WITHOUT a registrable domain (single label, trailing dot,
//     bare public suffix), names spelled only with hex digits (they look like IP literals), and
//     public suffixes used as `$domain` values together with hosts living below them.

import (
	"fmt"
	"os"
	"path/filepath"
	"strings"
	"unicode/utf8"

	"github.com/AdguardTeam/urlfilter/filterlist"
)

var r1OpenFiles []*filterlist.FileRuleList

// r1KeepOpen: how many file lists stay open; a scenario has at most 9 lists and generators hold
// one scenario (a few at most) at a time.
const r1KeepOpen = 96

// r1FileList writes text to a fresh temporary file and returns the FileRuleList reading it.
func r1FileList(id int, text string, ign bool) filterlist.RuleList {
	dir, err := os.MkdirTemp("", "verif-r1-")
	if err != nil {
		panic(err)
	}
	defer func() { _ = os.RemoveAll(dir) }()
	path := filepath.Join(dir, "list.txt")
	if err = os.WriteFile(path, []byte(text), 0o600); err != nil {
		panic(err)
	}
	l, err := filterlist.NewFileRuleList(id, path, ign)
	if err != nil {
		panic(err)
	}
	r1OpenFiles = append(r1OpenFiles, l)
	for len(r1OpenFiles) > r1KeepOpen {
		_ = r1OpenFiles[0].Close()
		r1OpenFiles = r1OpenFiles[1:]
	}

	return l
}

// r1NewList: a string list or (fileBacked) a file list with the same contents.
func r1NewList(id int, text string, ign, fileBacked bool) filterlist.RuleList {
	if fileBacked {
		return r1FileList(id, text, ign)
	}

	return &filterlist.StringRuleList{ID: id, RulesText: text, IgnoreCosmetic: ign}
}

// r1LongList: `n` bytes (about) of distinct names below the pool's domains, the LAST item being tail:
// a request aimed at the tail needs the whole line.
func r1LongList(r *rng, bytes int, sep, tail string, dot string) string {
	var sb strings.Builder
	for k := 0; sb.Len() < bytes; k++ {
		d := fmt.Sprintf("d%04d.%s", k, pick(r, poolDomains))
		if dot != "." {
			d = strings.NewReplacer(".", dot, "-", dot).Replace(d)
		}
		sb.WriteString(d)
		sb.WriteString(sep)
	}
	sb.WriteString(tail)

	return sb.String()
}

// r1LongRule is a rule line longer than the lists' read buffer together with what a request needs
// in order to satisfy its long modifier.
type r1LongRule struct {
	text   string
	source string // a source host permitted by the long `$domain` list ("" = none needed)
	client string // a client name accepted by the long `$client` list
	tag    string // a client tag accepted by the long `$ctag` list
	urlFor string // the text to build the URL around
}

// r1LongRuleTexts returns 1..3 long rule lines; short are pattern texts without a usable
// shortcut (domains table / sequential table), stems pattern texts with one (shortcuts table).
func r1LongRuleTexts(r *rng, short, stems []string, longPath bool) (out []r1LongRule) {
	size := func() int {
		if r.chance(1, 6) {
			return pick(r, []int{12300, 16400, 20000}) + r.n(300)
		}

		return pick(r, []int{4097, 4100, 4200, 4500, 5000, 6000, 8192, 8300}) + r.n(200)
	}
	tail := pick(r, poolDomains)
	exc := func() string {
		if r.chance(1, 5) {
			return "@@"
		}

		return ""
	}
	kinds := []int{0, 1, 2, 3, 4, 5, 6}
	shuffle(r, kinds)
	for _, k := range kinds[:1+r.n(3)/2] {
		if k == 4 && (!longPath || r.chance(2, 3)) { // (the window model is slow on very long shortcuts)
			k = 1
		}
		switch k {
		case 0: // domains table: short pattern + long $domain list
			p := pick(r, short)
			out = append(out, r1LongRule{text: exc() + p + "$domain=" + r1LongList(r, size(), "|", tail, "."), source: tail, urlFor: p})
		case 1: // shortcuts table: long shortcut + long $domain list
			p := pick(r, stems)
			out = append(out, r1LongRule{text: exc() + p + "$" + pick(r, []string{"", "script,", "important,"}) + "domain=" + r1LongList(r, size(), "|", tail, "."), source: tail, urlFor: p})
		case 2: // sequential table: short pattern + long $client list
			p := pick(r, short)
			out = append(out, r1LongRule{text: exc() + p + "$client=" + r1LongList(r, size(), "|", "tailclient", "-"), client: "tailclient", urlFor: p})
		case 3: // sequential table: short pattern + long $ctag list
			p := pick(r, short)
			out = append(out, r1LongRule{text: p + "$ctag=" + r1LongList(r, size(), "|", "tailtag", "_"), tag: "tailtag", urlFor: p})
		case 4: // shortcuts table: a long path
			n := 4090 + r.n(600)
			p := pick(r, stems) + "/" + strings.Repeat(pick(r, []string{"seg/", "a1b2c3d4/", "0123456789abcdef"}), n/8)
			if len(p) > n {
				p = p[:n]
			}
			p += "/end.js"
			out = append(out, r1LongRule{text: exc() + "||" + pick(r, poolDomains) + p + pick(r, []string{"", "$script", "$important"}), urlFor: p})
		case 5: // shortcuts table: host pattern + long $denyallow list (a request host outside of it matches)
			d := pick(r, poolDomains)
			out = append(out, r1LongRule{text: exc() + "/banner$denyallow=" + r1LongList(r, size(), "|", "tail.example", ".") + ",domain=" + d, source: d, urlFor: "/banner"})
		default: // domains table: the permitted domain FIRST, a long list of restricted ones after it
			p := pick(r, short)
			out = append(out, r1LongRule{text: exc() + p + "$domain=" + tail + "|~" + r1LongList(r, size(), "|~", "zz."+tail, "."), source: tail, urlFor: p})
		}
	}

	return out
}

// Hosts without a registrable domain (eTLD+1): single labels, bare public suffixes, names with a
// trailing dot.  rules.NewRequest falls back to the whole host name for them.
var r1NoETLD1Hosts = []string{
	"localhost", "nas", "printer", "router", "intranet", "com", "org", "co.uk", "uk", "github.io", "blogspot.com",
	"kawasaki.jp", "www.example.org.", "example.org.", "tracker.io.", "localhost.", "nas.", "cdn.site.com.",
}

// r1HexNames: real domain names spelled only with the characters of IP literals (0-9 a-f . :).
var r1HexNames = []string{
	"cafe.de", "bad.cafe", "dead.beef.ee", "00.de", "ace.de", "fa.ace.de", "abc.de", "beef.cc", "f00d.ee", "face.cafe",
	"a.b.c.d", "1.2.3.de", "1.2.3.4.cc", "dead.beef", "ee", "c0ffee.be", "add.ac", "e.ee", "10.0.0.de", "deaf.dad.be",
}

// r1SuffixDomains: public suffixes of the PSL (ICANN multi-label, private section) usable as `$domain`
// values, and r1UnderSuffix: hosts living directly or deeper below them.
var r1SuffixDomains = []string{"github.io", "co.uk", "blogspot.com", "kawasaki.jp", "city.kawasaki.jp", "com.au", "herokuapp.com", "org.uk", "appspot.com", "io", "uk", "com"}

func r1UnderSuffix(r *rng, suffix string) string {
	return pick(r, []string{"user.", "shop.", "www.user.", "a.b.", "x."}) + suffix
}

// r1ShortNote abbreviates over-long rule texts in the human-readable note of an op line (the wire
// values carry the full rules).
func r1ShortNote(s string) string {
	const keep = 1200
	if len(s) <= keep {
		return s
	}
	i, j := keep/2, len(s)-keep/2
	for i > 0 && !utf8.RuneStart(s[i]) {
		i--
	}
	for j < len(s) && !utf8.RuneStart(s[j]) {
		j++
	}

	return fmt.Sprintf("%s …[%d bytes]… %s", s[:i], j-i, s[j:])
}

// r1DenyAllowLine: a DNS-applicable rule with `$denyallow`: wide patterns (`*`, a TLD, a parent domain) whose
// reach is cut by the listed names; d is the name the line is about.
func r1DenyAllowLine(r *rng, names []string, d string) string {
	parent := d
	if i := strings.IndexByte(d, '.'); i > 0 && i+1 < len(d) {
		parent = d[i+1:]
	}
	var pat string
	switch r.n(6) {
	case 0, 1:
		pat = "*"
	case 2:
		pat = "||" + d + "^"
	case 3:
		pat = "||" + parent + "^"
	case 4:
		pat = "." + parent + "^"
	default:
		pat = pick(r, []string{"", "|", "||", "://"}) + d
	}
	var da []string
	for k := 1 + r.n(3); k > 0; k-- {
		x := pick(r, names)
		switch r.n(5) {
		case 0:
			x = "sub." + x
		case 1:
			x = d
		case 2:
			x = pick(r, []string{"www.", "a."}) + d
		}
		da = append(da, x)
	}
	t := pat + "$denyallow=" + strings.Join(da, "|")
	if r.chance(1, 4) {
		t += pick(r, []string{",important", ",dnstype=A", ",dnstype=~AAAA", ",client=127.0.0.1", ",ctag=device_pc", ",badfilter"})
	}
	if r.chance(1, 4) {
		t = "@@" + t
	}

	return t
}

// r1DotSuffixes: every proper dot-suffix of the names ("co.uk" and "uk" for "test.co.uk"): parents of the
// hosts, among them the public suffixes they live under.  A `$domain` value may be any of them.
func r1DotSuffixes(names []string) (out []string) {
	seen := map[string]bool{}
	for _, n := range names {
		for i := 0; i < len(n); i++ {
			if n[i] == '.' && i+1 < len(n) && !seen[n[i+1:]] && !strings.HasSuffix(n, ".*") {
				seen[n[i+1:]] = true
				out = append(out, n[i+1:])
			}
		}
	}

	return out
}

package main

import (
	"fmt"
	"os"
)

func main() {
	if len(os.Args) < 2 {
		fmt.Fprintln(os.Stderr, "usage: harness <cmd> ...")
		os.Exit(2)
	}

	switch os.Args[1] {
	case "defects":
		if runDefects() > 0 {
			os.Exit(1)
		}
	default:
		fmt.Fprintln(os.Stderr, "unknown command", os.Args[1])
		os.Exit(2)
	}
}

package main

import (
	"bufio"
	"fmt"
	"os"
	"strconv"
)

// generators of op lines, by op family.
// (each op_*.go registers its families from an init function)
var gens = map[string]func(r *rng, n int, w *bufio.Writer){}

// subcmds are further sub-commands (child-process entry points of families that isolate trials in a process of their
// own).  They are dispatched from main, i.e. after EVERY init function of the package has run, so that a child
// generates exactly the world its parent generated.
var subcmds = map[string]func(){}

func main() {
	if len(os.Args) < 2 {
		fmt.Fprintln(os.Stderr, "usage: harness defects | harness gen <family> <seed> <n>")
		os.Exit(2)
	}

	switch os.Args[1] {
	case "defects":
		if runDefects() > 0 {
			os.Exit(1)
		}
	case "facts":
		writeFacts()
	case "gen":
		if len(os.Args) < 5 {
			fmt.Fprintln(os.Stderr, "usage: harness gen <family> <seed> <n>")
			os.Exit(2)
		}
		g, ok := gens[os.Args[2]]
		if !ok {
			fmt.Fprintln(os.Stderr, "unknown family", os.Args[2])
			os.Exit(2)
		}
		seed, _ := strconv.ParseUint(os.Args[3], 10, 64)
		n, _ := strconv.Atoi(os.Args[4])
		w := bufio.NewWriterSize(os.Stdout, 1<<20)
		g(newRng(seed), n, w)
		_ = w.Flush()
	default:
		if f, ok := subcmds[os.Args[1]]; ok {
			f()

			return
		}
		fmt.Fprintln(os.Stderr, "unknown command", os.Args[1])
		os.Exit(2)
	}
}

package main

import (
	"bufio"
	"fmt"
	"os"
	"strconv"
)

// generators of op lines, by op family.
// (each op_*.go registers its families from an init function)
var gens = map[string]func(r *rng, n int, w *bufio.Writer){}

func main() {
	if len(os.Args) < 2 {
		fmt.Fprintln(os.Stderr, "usage: harness defects | harness gen <family> <seed> <n>")
		os.Exit(2)
	}

	switch os.Args[1] {
	case "defects":
		if runDefects() > 0 {
			os.Exit(1)
		}
	case "facts":
		writeFacts()
	case "gen":
		if len(os.Args) < 5 {
			fmt.Fprintln(os.Stderr, "usage: harness gen <family> <seed> <n>")
			os.Exit(2)
		}
		g, ok := gens[os.Args[2]]
		if !ok {
			fmt.Fprintln(os.Stderr, "unknown family", os.Args[2])
			os.Exit(2)
		}
		seed, _ := strconv.ParseUint(os.Args[3], 10, 64)
		n, _ := strconv.Atoi(os.Args[4])
		w := bufio.NewWriterSize(os.Stdout, 1<<20)
		g(newRng(seed), n, w)
		_ = w.Flush()
	default:
		fmt.Fprintln(os.Stderr, "unknown command", os.Args[1])
		os.Exit(2)
	}
}

package main

// Generators of group R2 (fifth round of seeded changes): input classes that no family had.
//
//   - network rule texts whose PATTERN holds escaped special characters (`\$` -- the options delimiter --, `\,`, `\/`,
//     `\|`), most importantly WITHOUT a modifier list: such a text and its `$badfilter` twin take different branches of
//     parseRuleText (no delimiter found / regexp fast path versus delimiter found);
//   - modifier lists with STRAY COMMAS (leading, doubled, trailing: empty items, which the parser drops) in lines without
//     any backslash (the splitting function then has nothing to unescape);
//   - near-cosmetic NETWORK rules: a `#` directly followed by one of `# @ ? $ %` that does not form a cosmetic marker
//     (`||spa.example.org/#?ref=ad`, `/banner#%21ad/`);
//   - multi-byte first lines of a list (UTF-8 byte order mark, non-ASCII comment, NBSP), so that an offset error of the
//     first line shifts every rule index of the list.

import "strings"

var r2EscPieces = []string{`\$`, `\$`, `\$`, `\,`, `\/`, `\|`, `\$\$`, `\\`, `\~`, `\=`}

// r2EscPattern: a basic pattern or a /regexp/ with 1-2 escaped characters inside (never at the very end: a pattern
// ending in `$` followed by `$mods` would hold the HTML-rule marker `$$`).
func r2EscPattern(r *rng) string {
	d := pick(r, poolDomains)
	e := pick(r, r2EscPieces)
	w := pick(r, []string{"id", "x", "ref", "pay", "a1"})
	switch r.n(8) {
	case 0:
		return "||" + d + "/pay" + e + w
	case 1:
		return "/" + strings.ReplaceAll(d, ".", `\.`) + `\/pay` + e + w + "/"
	case 2:
		return "|" + pick(r, poolSchemes) + "://" + d + "/" + w + e + "v" + pick(r, r2EscPieces) + w
	case 3:
		return "/" + w + e + "[a-z]+/"
	case 4:
		return d + e + w + "^"
	case 5:
		return "/^https?:\\/\\/" + strings.ReplaceAll(d, ".", `\.`) + `\/` + w + "(" + e + "|-)" + w + "/"
	case 6:
		return "*" + e + w + "*"
	default:
		return "||" + d + "^*" + e + w
	}
}

// r2EscNetText: half of the texts have NO modifier list, a quarter a single plain modifier, the rest any modifiers.
func r2EscNetText(r *rng) string {
	wl := r.chance(1, 4)
	t := r2EscPattern(r)
	if wl {
		t = "@@" + t
	}
	switch r.n(8) {
	case 0, 1, 2, 3:
	case 4:
		t += "$badfilter"
	case 5:
		t += "$" + pick(r, []string{"important", "script", "match-case", "third-party", "domain=example.org", "~image"})
	default:
		if mods := eGenModifiers(r, wl); len(mods) > 0 {
			t += "$" + strings.Join(mods, ",")
		}
	}

	return t
}

// r2JoinStray joins the modifiers with commas and puts 1-3 stray commas in: leading, doubled, trailing.
func r2JoinStray(r *rng, mods []string) string {
	var sb strings.Builder
	k := 1 + r.n(3)
	slots := make([]int, len(mods)+1) // slot i: in front of modifier i; the last one: behind the list
	for j := 0; j < k; j++ {
		slots[r.n(len(slots))]++
	}
	if len(mods) > 0 && r.chance(1, 2) {
		// the commonest slip: a comma left at the end of the list
		slots[len(mods)]++
	}
	for i, m := range mods {
		if i > 0 {
			sb.WriteByte(',')
		}
		sb.WriteString(strings.Repeat(",", slots[i]))
		sb.WriteString(m)
	}
	sb.WriteString(strings.Repeat(",", slots[len(mods)]))

	return sb.String()
}

// r2PlainModifiers: modifiers without any backslash (eGenModifiers quotes client names with `\'` now and then).
func r2PlainModifiers(r *rng, wl bool) []string {
	for {
		mods := eGenModifiers(r, wl)
		if !strings.Contains(strings.Join(mods, ","), `\`) {
			return mods
		}
	}
}

// r2StrayCommaText: a network rule text without a backslash whose modifier list has empty items.
func r2StrayCommaText(r *rng) string {
	wl := r.chance(1, 3)
	p := genPattern(r)
	if strings.Contains(p, `\`) || r.chance(1, 3) {
		p = "||" + pick(r, poolDomains) + "^"
	}
	if wl {
		p = "@@" + p
	}
	var mods []string
	switch {
	case wl && r.chance(1, 2):
		mods = subsetAtLeastOne(r, poolWhiteOpts, 3)
	case r.chance(1, 3):
		mods = []string{pick(r, []string{"important", "script", "third-party", "domain=example.org|~a.example.org", "dnstype=A", "ctag=a|b", "client=laptop", "badfilter", "dnsrewrite=1.2.3.4"})}
	default:
		mods = r2PlainModifiers(r, wl)
	}

	return p + "$" + r2JoinStray(r, mods)
}

// r2NearCosmeticTexts: NETWORK rules (and a few rejected lines) with a `#` followed by a marker-like byte that is not a
// cosmetic marker; the scanner must treat them like any other network rule, whatever IgnoreCosmetic says.
var r2NearCosmeticTexts = []string{
	"||spa.example.org/#?ref=ad", "||spa.example.org/app#@campaign", "/banner#%21ad/", "||example.org/page#$top", "||example.org/#%21/ads",
	"||example.org/a#?b$script", "@@||example.org/#@x$document", "|https://example.com/#?", "example.org/#@", "||test.com/x#%", "/ads#[?@$%]x/",
	"||example.org/#$", "||example.org^#?x=1$third-party", "||a.example.org/#@ #?#", "||example.net/#%#", "||example.net/#?#x", "example.org/path#?q=1$important",
	"||example.org/ #?x", "||example.org/\t#@y", "||ads.example.org/#?utm=1$badfilter", "||ads.example.org/#?utm=1",
}

// r2NearCosmeticLine: one of the fixed texts, or `<pattern>#<c><word>` over the usual patterns, sometimes with modifiers.
func r2NearCosmeticLine(r *rng) string {
	if r.chance(1, 2) {
		return pick(r, r2NearCosmeticTexts)
	}
	c := pick(r, []string{"#?", "#@", "#%", "#$", "#?", "#@", "#%"})
	w := pick(r, []string{"ref=ad", "x", "21ad", "top", "", "a=1&b=2", "!"})
	var t string
	switch r.n(4) {
	case 0:
		t = "||" + pick(r, poolDomains) + "/" + c + w
	case 1:
		t = "||" + pick(r, poolDomains) + pick(r, poolPaths) + c + w
	case 2:
		t = "/" + pick(r, []string{"banner", "ads?", `track\.`}) + c + w + "/"
	default:
		t = pick(r, poolDomains) + pick(r, poolPaths) + c + w
	}
	if r.chance(1, 4) {
		t += "$" + pick(r, []string{"important", "script", "third-party", "domain=example.org", "badfilter", "image,~script"})
	}
	if r.chance(1, 5) {
		t = "@@" + t
	}

	return t
}

// r2FirstLines: first lines of a list that start with (or hold) multi-byte sequences.  Every one of them is a line the
// parser accepts as a comment, rejects, or reads as a junk rule -- what matters is the byte length in front of line 2.
var r2FirstLines = []string{
	"\xef\xbb\xbf! Title: test list", "\xef\xbb\xbf", "\xef\xbb\xbf||example.org^", "\xef\xbb\xbf[Adblock Plus 2.0]", "\xef\xbb\xbf# hosts",
	"\xef\xbb\xbf\xef\xbb\xbf! twice", "\xef\xbb! cut mark", "\xef\xbb\xbf0.0.0.0 example.org", "\xef\xbb\xbf! Title\r", "\xfe\xff! utf-16 mark", "\xff\xfe",
	"! Заголовок: список", "\xc2\xa0! nbsp", "　! wide blank", "! caf\xc3\xa9", "\xe2\x80\x8b||example.org^", "\xef\xbb\xbfexample.org##.banner",
}

// r2FirstLine picks a multi-byte first line.
func r2FirstLine(r *rng) string {
	if r.chance(1, 2) {
		// the byte order mark proper, in front of any usual first line
		return "\xef\xbb\xbf" + pick(r, []string{"! Title: test list", "", "! comment", "[Adblock Plus 2.0]", "||example.org^", "# c", "0.0.0.0 example.org", "! x\r"})
	}

	return pick(r, r2FirstLines)
}

// r2FirstLineInert: multi-byte first lines that are NOT network rules (a network rule with a non-ASCII pattern puts a
// scenario outside the domain on which the engine families' models of ToLower / pattern matching are exact): the mark in
// front of a cosmetic rule, of a line with an unknown modifier, of a title with a `$` in it.
func r2FirstLineInert(r *rng, names []string) string {
	nm := "example.org"
	if len(names) > 0 {
		nm = pick(r, names)
	}

	return "\xef\xbb\xbf" + pick(r, []string{nm + "##.banner", "! Title: deals from $5", "||" + nm + "^$unknown", "! Homepage: http://" + nm + "/?a=1$x",
		"##.ad-box", "! Title: " + nm + " $ list", nm + "#@#.banner"})
}

package main

// Shared generator helpers of group M1 (strengthening round after seed round 4):
//
//   - mScanLists: the rules of a set of lists obtained list by list (one RuleScanner per list,
//     storage index = listID<<32 | offset), i.e. WITHOUT the RuleStorageScanner that the engines
//     use: a reference rule set taken from the storage scanner inherits its omissions.
//   - mRuleLessBody / mInsertRuleLess: lists that yield no rule at all (empty text, comments,
//     blank lines, unparsable lines, cosmetic rules under IgnoreCosmetic), placed between lists
//     that do.
//   - mDNSTypeValue: `$dnstype` values; a good share name ONE record type on both sides.
//   - mIDNNames: host names with non-ASCII labels (the lookup model is byte-exact for them).
//   - mCaseAt / mUpperWindow: upper-case letters placed exactly where a 5-byte window of a
//     rule's shortcut begins in a URL.

import (
	"strings"

	"github.com/AdguardTeam/urlfilter/filterlist"
	"github.com/AdguardTeam/urlfilter/rules"
)

type mScanned struct {
	rule rules.Rule
	idx  int64
}

// mStorageIdx is the documented packing of (list id, offset in the list) into a storage index.
func mStorageIdx(listID, ruleIdx int) int64 {
	return int64(int32(listID))<<32 | int64(int32(ruleIdx))&0xFFFFFFFF
}

// mScanLists scans every list with its own scanner, in list order.
func mScanLists(lists []filterlist.RuleList) (out []mScanned) {
	for _, l := range lists {
		sc := l.NewScanner()
		for sc.Scan() {
			f, idx := sc.Rule()
			if f == nil {
				continue
			}
			out = append(out, mScanned{rule: f, idx: mStorageIdx(l.GetID(), idx)})
		}
	}

	return out
}

// mRuleLessBody returns the lines of a list that yields no rule, and whether the list needs
// IgnoreCosmetic for that.
func mRuleLessBody(r *rng) (lines []string, needIgn bool) {
	switch r.n(7) {
	case 0:
		return nil, false // empty text
	case 1:
		return []string{"! only a comment"}, false
	case 2:
		return []string{"# comment", "", "! another", "   ", "\t"}, false
	case 3:
		return []string{"||example.org^$unknownmodifier", "@@", "||x^$domain="}, false // rejected lines
	case 4:
		return []string{"example.org##.banner", "##.ad", "e.org#@#.ad"}, true // cosmetic rules, ignored
	case 5:
		return []string{"", "", ""}, false
	default:
		return []string{"[Adblock Plus 2.0]", "! Title: nothing"}, false
	}
}

type mBody struct {
	lines []string
	ign   *bool // forced IgnoreCosmetic, nil = caller's choice
}

// mInsertRuleLess puts 1..2 rule-less lists into bodies, never after the last list that has
// lines when avoidable (a rule-less list in the LAST position hides nothing).
func mInsertRuleLess(r *rng, bodies [][]string, maxLists int) (out []mBody) {
	for _, b := range bodies {
		out = append(out, mBody{lines: b})
	}
	k := 1 + r.n(2)
	for j := 0; j < k && len(out) < maxLists; j++ {
		lines, ign := mRuleLessBody(r)
		nb := mBody{lines: lines}
		if ign {
			t := true
			nb.ign = &t
		}
		// positions 0..last: before an existing list (so something follows it)
		last := len(out) - 1
		pos := 0
		if last > 0 {
			pos = r.n(last + 1)
			if pos == 0 && r.chance(2, 3) {
				pos = 1 + r.n(last) // a middle position, after at least one list
			}
		}
		out = append(out[:pos], append([]mBody{nb}, out[pos:]...)...)
	}

	return out
}

var mDNSNames = []string{"A", "AAAA", "CNAME", "HTTPS", "TXT", "MX", "PTR", "SRV"}

// mDNSTypeConflict: a `$dnstype` value in which one record type is both permitted and restricted
// (the restricted side wins), in either order, alone or among other types, in either letter case.
func mDNSTypeConflict(r *rng) string {
	t := mDNSNames[0]
	if !r.chance(1, 2) {
		t = pick(r, mDNSNames[:5])
	}
	u := pick(r, mDNSNames)
	for u == t {
		u = pick(r, mDNSNames)
	}
	t2 := t
	if r.chance(1, 5) {
		t2 = strings.ToLower(t)
	}
	switch r.n(7) {
	case 0:
		return t + "|~" + t2
	case 1:
		return "~" + t + "|" + t2
	case 2:
		return u + "|" + t + "|~" + t2
	case 3:
		return t + "|~" + t2 + "|~" + u
	case 4:
		return "~" + t2 + "|" + u + "|" + t
	case 5:
		return t + "|" + u + "|~" + u + "|~" + t2
	default:
		return "~" + u + "|~" + t + "|" + t2
	}
}

// mDNSTypeValue: a `$dnstype` value; one in three is a conflict value.
func mDNSTypeValue(r *rng) string {
	if r.chance(1, 3) {
		return mDNSTypeConflict(r)
	}

	return genList(r, poolDNSTypes, 4, true, "|")
}

// mDNSTypesOf returns the record types named (on either side) by the rules.
func mDNSTypesOf(nets []*rules.NetworkRule) (out []uint16) {
	seen := map[uint16]bool{}
	for _, f := range nets {
		v := f.VerifRaw()
		for _, t := range append(append([]uint16{}, v.PermittedDNSTypes...), v.RestrictedDNSTypes...) {
			if !seen[t] {
				seen[t] = true
				out = append(out, t)
			}
		}
	}

	return out
}

// mIDNNames: host names written in Unicode form (non-ASCII bytes in the first window of the
// shortcut, in a later window, in every label, straddling a window boundary).
var mIDNNames = []string{
	"bücher.example", "münchen.de", "ü.io", "exämple.org", "пример.рф", "日本語.jp", "café-ads.fr", "ads.bücher.example",
	"tracker-ñ.net",
}

func mIsLetter(c byte) bool { return (c >= 'a' && c <= 'z') || (c >= 'A' && c <= 'Z') }

// mCaseAt upper-cases the ASCII letters of u at the given byte positions.
func mCaseAt(u string, pos ...int) string {
	b := []byte(u)
	for _, p := range pos {
		if p >= 0 && p < len(b) && b[p] >= 'a' && b[p] <= 'z' {
			b[p] -= 32
		}
	}

	return string(b)
}

// mUpperWindow rewrites the letter case of URL u around an occurrence of the (lower-case)
// shortcut s so that upper-case letters sit where windows of s begin:
//
//	mode 0: exactly ONE upper-case letter, at the start of window k of the occurrence
//	mode 1: every letter of the occurrence upper-case (every window start that is a letter)
//	mode 2: the first letter of every `win`-byte window start, i.e. positions 0..len(s)-win
//	mode 3: only the letter right BEFORE / right AFTER a window start (controls)
//
// u must be ASCII around the occurrence for the byte positions of u and of its lower-case form
// to coincide; the caller passes ASCII URLs.  Returns u unchanged if s does not occur.
func mUpperWindow(r *rng, u, s string, win int) string {
	if s == "" {
		return u
	}
	low := strings.ToLower(u)
	if len(low) != len(u) {
		return u
	}
	var occ []int
	for from := 0; from < len(low); {
		i := strings.Index(low[from:], s)
		if i < 0 {
			break
		}
		occ = append(occ, from+i)
		from += i + 1
	}
	if len(occ) == 0 {
		return u
	}
	starts := len(s) - win + 1
	if starts < 1 {
		starts = 1
	}
	mode := r.n(8)
	for _, p := range occ {
		switch mode {
		case 0, 1, 2, 3:
			u = mCaseAt(u, p+r.n(starts))
		case 4, 5:
			for k := 0; k < len(s); k++ {
				u = mCaseAt(u, p+k)
			}
		case 6:
			for k := 0; k < starts; k++ {
				u = mCaseAt(u, p+k)
			}
		default:
			k := r.n(starts)
			u = mCaseAt(u, p+k-1, p+k+1)
		}
	}

	return u
}

package main

// C14, dynamic part, NEVER-SEEN-BEFORE names (group M4).
//
// The rounds of race_c14.go draw their hostnames from a fixed pool, so anything
// the process remembers per hostname / URL / source URL (a package-level memo, a
// sync.Pool of prepared requests, an interning table ...) is warm after the
// first round and is only ever READ afterwards.  The trials of this file make
// every query about names that did not exist in the process before:
//
//   * every name carries the token of the run, the trial number, the pass, the
//     goroutine number and a counter, in several positions (a new subdomain of a
//     domain the rules mention, a new registrable domain under an ordinary, a
//     multi-label, a wildcard and an exception public suffix, a new single
//     label, a new IP-like name), in the hostname of DNS queries, in the URL and
//     in the SOURCE URL of web requests and in the hostname of cosmetic queries;
//   * the requests are BUILT inside the goroutines (rules.NewRequest is part of
//     what a caller does concurrently);
//   * the CONCURRENT phase runs first, on a new engine; the sequential reference
//     is computed afterwards on another new engine;
//   * a second pass mixes names that are warm by then (asked by ANOTHER goroutine
//     in the first pass) with new ones, and a few names are shared by all
//     goroutines of a pass (two first-time computations of one name at once).
//
// Front ends:
//   * `harness gen c14fresh <seed> <n>`: every trial runs in a CHILD PROCESS
//     (`harness c14freshtrial <subseed> <trial>`), so that all process-global
//     state is cold in every trial and a Go runtime `fatal error: concurrent map
//     ...` (which cannot be recovered) becomes the answer F of that trial's
//     `assert` line -- a concrete failing input with its own replay command;
//   * `harness-race c14race ...` runs the same trials in-process after its
//     ordinary rounds (names stay new because of the trial counter).

import (
	"bufio"
	"bytes"
	"context"
	"fmt"
	"net/netip"
	"os"
	"os/exec"
	"strconv"
	"strings"
	"sync"
	"time"

	"github.com/AdguardTeam/urlfilter"
	"github.com/AdguardTeam/urlfilter/rules"
)

func init() {
	gens["c14fresh"] = c14GenFresh
	subcmds["c14freshtrial"] = func() {
		if len(os.Args) < 4 {
			os.Exit(2)
		}
		sub, _ := strconv.ParseUint(os.Args[2], 10, 64)
		trial, _ := strconv.Atoi(os.Args[3])
		fSilenceLogs()
		w := bufio.NewWriter(os.Stdout)
		// the description goes out BEFORE the queries run: the parent needs it if this process is killed
		fFreshAnnounce = func(desc string) {
			fmt.Fprintln(w, "DESC "+strings.ReplaceAll(desc, "\n", "\\n"))
			_ = w.Flush()
		}
		fFreshLine(w, sub, trial, fFreshTrial(newRng(sub), fFreshToken(sub), trial))
		_ = w.Flush()
		os.Exit(0)
	}
}

var fFreshDebug = os.Getenv("VERIF_DEBUG_FRESH") != ""

var fFreshAnnounce func(desc string)

func fFreshToken(sub uint64) string { return fmt.Sprintf("n%06x", sub&0xffffff) }

// fFreshSpec is a query as DATA; the request objects are built by the goroutine
// that asks.
type fFreshSpec struct {
	kind  string // "dns", "web", "all", "cos"
	host  string
	url   string
	src   string
	rt    rules.RequestType
	tags  []string
	cname string
	ip    netip.Addr
	qtype uint16
	opt   rules.CosmeticOption
}

func (s *fFreshSpec) build() *fQuery {
	switch s.kind {
	case "dns":
		return &fQuery{kind: "dns", dns: &urlfilter.DNSRequest{Hostname: s.host, SortedClientTags: s.tags, ClientName: s.cname,
			ClientIP: s.ip, DNSType: s.qtype}}
	case "cos":
		return &fQuery{kind: "cos", host: s.host, opt: s.opt}
	default:
		q := rules.NewRequest(s.url, s.src, s.rt)
		if s.cname != "" {
			q.ClientName = s.cname
			q.SortedClientTags = s.tags
			q.ClientIP = s.ip
		}

		return &fQuery{kind: s.kind, web: q}
	}
}

func (s *fFreshSpec) String() string {
	switch s.kind {
	case "dns":
		return fmt.Sprintf("dns{%s tags=%v name=%q ip=%v type=%d}", s.host, s.tags, s.cname, s.ip, s.qtype)
	case "cos":
		return fmt.Sprintf("cos{%s %d}", s.host, s.opt)
	default:
		return fmt.Sprintf("%s{%s src=%s type=%d}", s.kind, s.url, s.src, s.rt)
	}
}

// the domains the added list speaks about, and public suffixes of every kind of the list (ordinary, multi-label,
// wildcard `*.kawasaki.jp`, exception `!city.kawasaki.jp`, private, unknown TLD)
var (
	fFreshRuleDomains = []string{"blocked.example.org", "tracker.example.com", "cdn.site.com", "rw.example.net", "hosts.example.net", "ads.co.uk"}
	fFreshSuffixes    = []string{"com", "org", "co.uk", "github.io", "kawasaki.jp", "city.kawasaki.jp", "blogspot.com", "unknowntld", "xn--p1ai", "example.org"}
)

// fFreshList is the list added to the generated world: rules that new names under the rule domains hit, rules whose
// verdict depends on the registrable domains of the request and of its source ($third-party, $domain, $denyallow), and
// generic rules that any new name hits.
func fFreshList(r *rng, hostsNames []string) string {
	lines := []string{
		"||blocked.example.org^",
		"@@||ok.blocked.example.org^",
		"||tracker.example.com^$third-party",
		"||tracker.example.com/first^$~third-party",
		"||cdn.site.com^$domain=example.org|~sub.example.org",
		"/ads/banner^$third-party",
		"/ads/banner^$~third-party,important",
		"||rw.example.net^$dnsrewrite=1.2.3.4",
		"||rw.example.net^$dnsrewrite=NOERROR;CNAME;new.example.net",
		"@@||x.rw.example.net^$dnsrewrite",
		"||ads.co.uk^$denyallow=ok.ads.co.uk",
		"||ads.co.uk^$client=laptop",
		"||ads.co.uk^$ctag=device_pc,dnstype=AAAA",
		"@@||docs.blocked.example.org^$document",
		"@@||*.github.io^$elemhide,jsinject",
		"||kawasaki.jp^$important",
		"/^https?:\\/\\/[a-z0-9-]+\\.unknowntld\\//",
		"blocked.example.org##.banner",
		"example.org,~sub.example.org##.ad",
		"##.generic",
		"co.uk#@#.generic",
		"github.io#%#window.x = 1;",
	}
	shuffle(r, lines)
	lines = lines[:len(lines)-r.n(6)]
	for _, h := range hostsNames {
		lines = append(lines, pick(r, fHostIPs)+" "+h)
	}
	shuffle(r, lines)

	return strings.Join(lines, "\n") + "\n"
}

// fFreshName makes a hostname around the never-used label `lab`.
func fFreshName(r *rng, lab string) string {
	switch r.n(12) {
	case 0, 1, 2, 3, 10, 11:
		return lab + "." + pick(r, fFreshRuleDomains)
	case 4:
		return pick(r, []string{"www.", "ok.", "x.", "docs."}) + lab + "." + pick(r, fFreshRuleDomains)
	case 5, 6:
		return lab + "." + pick(r, fFreshSuffixes)
	case 7:
		return pick(r, []string{"www.", "a.b.", "ok."}) + lab + "." + pick(r, fFreshSuffixes)
	case 8:
		return lab
	default:
		return pick(r, []string{"ok.", "x.", "docs."}) + pick(r, fFreshRuleDomains)[:3] + lab + "." + pick(r, fFreshRuleDomains)
	}
}

func fFreshQuerySpec(r *rng, lab string, hostsNames []string) *fFreshSpec {
	path := pick(r, []string{"/", "/ads/banner.png", "/ads/banner.png", "/first/x.js", "", "/page?u=1"})
	switch k := r.n(10); {
	case k < 4:
		s := &fFreshSpec{kind: "dns", host: fFreshName(r, lab)}
		if len(hostsNames) > 0 && r.chance(1, 6) {
			s.host = pick(r, hostsNames)
		}
		if r.chance(1, 2) {
			s.tags = genSortedTags(r)
			s.cname = pick(r, append([]string{""}, poolClientNames...))
			s.ip = genClientIP(r)
			s.qtype = pick(r, poolDNSQTypes)
		}

		return s
	case k < 8:
		s := &fFreshSpec{kind: "web", url: pick(r, poolSchemes) + "://" + fFreshName(r, lab) + path, rt: pick(r, poolReqTypes)}
		switch r.n(6) {
		case 0:
			// no source at all
		case 1:
			// a new first-party source (another new subdomain of the same registrable domain)
			h := rules.NewRequest(s.url, "", s.rt).Hostname
			s.src = "https://src" + lab + "." + h + "/index.html"
		case 2:
			// a warm URL with a NEW source: only the source goes through the per-name computations
			s.url = "http://" + pick(r, fFreshRuleDomains) + path
			s.src = "http://" + fFreshName(r, "s"+lab) + "/"
		case 3:
			// a new source under a domain the $domain rules name
			s.src = "http://s" + lab + pick(r, []string{".example.org", ".sub.example.org", ".site.com"}) + "/"
		default:
			s.src = "http://" + fFreshName(r, "s"+lab) + pick(r, []string{"/", "/index.html", ""})
		}
		if r.chance(1, 6) {
			s.kind = "all"
		}
		if r.chance(1, 8) {
			s.cname = pick(r, poolClientNames)
			s.tags = genSortedTags(r)
			s.ip = genClientIP(r)
		}

		return s
	case k < 9:
		return &fFreshSpec{kind: "all", url: "http://" + fFreshName(r, lab) + path, src: "http://" + fFreshName(r, "s"+lab) + "/", rt: pick(r, poolReqTypes)}
	default:
		return &fFreshSpec{kind: "cos", host: fFreshName(r, lab), opt: rules.CosmeticOption(r.n(8))}
	}
}

// fFreshTrial: one world, two passes of (concurrent queries about new names, then the sequential reference).
func fFreshTrial(r *rng, tok string, trial int) (res fRoundResult) {
	var world *fWorld
	if trial%4 == 3 {
		world = fGenWorld(r, 24, trial%3)
	} else {
		// a tiny world: the per-name prologue of a query then dominates its running time
		world = &fWorld{}
	}
	defer world.cleanup()
	var hostsNames []string
	for i := r.n(4); i > 0; i-- {
		hostsNames = append(hostsNames, fmt.Sprintf("%s-t%d-h%d.hosts.example.net", tok, trial, i))
	}
	world.specs = append(world.specs, fListSpec{id: 4242, text: fFreshList(r, hostsNames), file: trial%3 == 1})
	g := pick(r, []int{2, 3, 4, 8, 8, 16, 2 + r.n(30)})
	per := 20 + r.n(180)
	res.desc = fmt.Sprintf("fresh trial %d (token %s): %d goroutines x %d never-seen names, concurrent run first; %s", trial, tok, g, per, world.describe())
	if fFreshAnnounce != nil {
		fFreshAnnounce(res.desc)
	}
	var prev [][]*fFreshSpec
	for pass := 0; pass < 2; pass++ {
		plan := make([][]*fFreshSpec, g)
		shared := make([]*fFreshSpec, 1+r.n(4))
		for j := range shared {
			shared[j] = fFreshQuerySpec(r, fmt.Sprintf("%s-t%d-p%d-all%d", tok, trial, pass, j), hostsNames)
		}
		for k := 0; k < g; k++ {
			for i := 0; i < per; i++ {
				switch {
				case r.chance(1, 12):
					plan[k] = append(plan[k], pick(r, shared))
				case pass == 1 && r.chance(1, 3):
					other := prev[(k+1+r.n(g-1))%g]
					plan[k] = append(plan[k], pick(r, other))
				default:
					plan[k] = append(plan[k], fFreshQuerySpec(r, fmt.Sprintf("%s-t%d-p%d-g%d-q%d", tok, trial, pass, k, i), hostsNames))
				}
			}
		}
		prev = plan
		// concurrent phase FIRST
		cs := world.storage(nil, false)
		cg := fBuild(cs)
		gotSet := make([][]string, g)
		gotExact := make([][]string, g)
		fSetHooks(true)
		var wg sync.WaitGroup
		start := make(chan struct{})
		for k := 0; k < g; k++ {
			gotSet[k] = make([]string, per)
			gotExact[k] = make([]string, per)
			wg.Add(1)
			go func(k int) {
				defer wg.Done()
				<-start
				for i, s := range plan[k] {
					gotSet[k][i], gotExact[k][i] = fSetAnswer(cg, s.build())
				}
			}(k)
		}
		close(start)
		wg.Wait()
		fSetHooks(false)
		_ = cs.Close()
		// sequential reference afterwards, on a new engine
		ss := world.storage(nil, false)
		sg := fBuild(ss)
		for k := 0; k < g; k++ {
			for i, s := range plan[k] {
				wantSet, wantExact := fSetAnswer(sg, s.build())
				res.evals++
				if fFreshDebug {
					fmt.Fprintf(os.Stderr, "%s => %s\n", s, wantSet)
				}
				if !strings.Contains(wantSet, "[]") || strings.Contains(wantSet, "rule=-") {
					res.nontrivial++
				}
				if gotSet[k][i] != wantSet {
					res.mismatches = append(res.mismatches, fmt.Sprintf("pass %d, %d goroutines, goroutine %d, query %s: concurrent %q, sequential %q",
						pass, g, k, s, gotSet[k][i], wantSet))
				} else if gotExact[k][i] != wantExact {
					res.dupOnly++
					if len(res.dupSamples) < 2 {
						res.dupSamples = append(res.dupSamples, fmt.Sprintf("%d goroutines, query %s: concurrent %q, sequential %q", g, s, gotExact[k][i], wantExact))
					}
				}
			}
		}
		_ = ss.Close()
	}

	return res
}

func fFreshLine(w *bufio.Writer, sub uint64, trial int, res fRoundResult) {
	ans := "T"
	note := res.desc
	if len(res.mismatches) > 0 {
		ans = "F"
		note = "FIRST DIFFERENCE: " + res.mismatches[0] + "; " + note
	} else if len(res.dupSamples) > 0 {
		ans = "F"
		note = "EQUAL ONLY AS SETS (a rule reported twice): " + res.dupSamples[0] + "; " + note
	}
	fmt.Fprintf(w, "assert c14fresh %d %d %d %d = %s ## %s\n", sub, trial, res.evals, res.nontrivial, ans, strings.ReplaceAll(note, "\n", "\\n"))
}

// fCrashSummary extracts what killed a child from its stderr: the `fatal error:` / `panic:` / race-report line and
// the first frames below it that are in the library.
func fCrashSummary(stderr string) string {
	lines := strings.Split(stderr, "\n")
	first := -1
	for i, l := range lines {
		if strings.HasPrefix(l, "fatal error:") || strings.HasPrefix(l, "panic:") || strings.Contains(l, "WARNING: DATA RACE") {
			first = i

			break
		}
	}
	if first < 0 {
		if len(stderr) > 400 {
			stderr = stderr[len(stderr)-400:]
		}

		return strings.TrimSpace(strings.ReplaceAll(stderr, "\n", " | "))
	}
	out := []string{strings.TrimSpace(lines[first])}
	for _, l := range lines[first+1:] {
		l = strings.TrimSpace(l)
		if strings.HasPrefix(l, "github.com/AdguardTeam/urlfilter") && !strings.Contains(l, "/harness") {
			out = append(out, l)
			if len(out) >= 6 {
				break
			}
		}
	}

	return strings.Join(out, " | ")
}

func c14GenFresh(r *rng, n int, w *bufio.Writer) {
	fSilenceLogs()
	self, err := os.Executable()
	if err != nil {
		self = os.Args[0]
	}
	for i := 0; i < n; i++ {
		sub := r.u64() >> 1
		ctx, cancel := context.WithTimeout(context.Background(), 180*time.Second)
		cmd := exec.CommandContext(ctx, self, "c14freshtrial", strconv.FormatUint(sub, 10), strconv.Itoa(i))
		cmd.Env = append(os.Environ(), "VERIF_GEN_FAMILY=c14fresh")
		var so, se bytes.Buffer
		cmd.Stdout, cmd.Stderr = &so, &se
		runErr := cmd.Start()
		if os.Getenv("VERIF_C14FRESH_INPROCESS") != "" && runErr == nil {
			// (testing aid: exercise the in-process path, where a fatal error of the runtime kills the whole harness)
			_ = cmd.Process.Kill()
			_ = cmd.Wait()
			runErr = fmt.Errorf("VERIF_C14FRESH_INPROCESS is set")
		}
		if runErr != nil {
			// no child processes in this environment: run the trial here (names stay new because of the trial counter)
			cancel()
			fmt.Fprintln(os.Stderr, "c14fresh: cannot start a child process, running the trial in-process:", runErr)
			fFreshLine(w, sub, i, fFreshTrial(newRng(sub), fFreshToken(sub), i))

			continue
		}
		runErr = cmd.Wait()
		cancel()
		desc, line := "", ""
		for _, l := range strings.Split(so.String(), "\n") {
			if strings.HasPrefix(l, "DESC ") {
				desc = l[5:]
			} else if strings.HasPrefix(l, "assert c14fresh ") {
				line = l
			}
		}
		if runErr == nil && line != "" {
			fmt.Fprintln(w, line)

			continue
		}
		fmt.Fprintf(w, "assert c14fresh %d %d 0 0 = F ## THE PROCESS DIED during this trial (%v): %s; replay: harness c14freshtrial %d %d; %s\n",
			sub, i, runErr, fCrashSummary(se.String()), sub, i, desc)
	}
}

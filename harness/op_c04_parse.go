package main

// ops `c04.parse` and `c04.textmatch` (C04): the model of NewNetworkRule must
// reproduce Go's parsed rule field by field; the end-to-end reference of the
// property is computed from the rule TEXT.
//   c04.parse <text> <listID> <addrs> <prefixes> <rewrites> <reshortcuts> = <R record>|err
//   c04.textmatch <text> <listID> <addrs> <prefixes> <rewrites> <reshortcuts> <Q> <psl> (<pat>…) = T|F|err

import (
	"bufio"
	"fmt"
	"net/netip"
	"strings"

	"github.com/AdguardTeam/urlfilter/rules"
)

func init() {
	gens["c04.parse"] = genC04Parse
	gens["c04.textmatch"] = genC04TextMatch
}

// wprefixes renders the netip.ParsePrefix(+Masked) oracle table.
func wprefixes(ss ...string) string {
	seen := map[string]bool{}
	var items []string
	for _, s := range ss {
		if seen[s] {
			continue
		}
		seen[s] = true
		p, err := netip.ParsePrefix(s)
		if err != nil {
			items = append(items, wlist(wb(s), "_"))
		} else {
			items = append(items, wlist(wb(s), wprefix(p.Masked())))
		}
	}

	return wlist(items...)
}

// eParseOracles returns the oracle tables a parse of text can ask about.  The
// candidate strings are obtained with Go's own splitting functions; a model
// that splits differently misses the table and the disagreement shows.
func eParseOracles(text string) (addrs []string, tables string) {
	var clients, rewrites []string
	reTable := ""
	func() {
		defer func() { _ = recover() }()
		pattern, options, _, err := rules.VerifParseRuleText(text)
		if err != nil {
			return
		}
		if len(pattern) > 1 && pattern[0] == '/' && pattern[len(pattern)-1] == '/' {
			reTable = wlist(wb(pattern), wb(rules.VerifFindRegexpShortcut(pattern)))
		}
		for _, o := range rules.VerifSplitWithEscapeCharacter(options, ',', '\\', false) {
			name, value := o, ""
			if eq := strings.IndexByte(o, '='); eq > 0 {
				name, value = o[:eq], o[eq+1:]
			}
			switch name {
			case "dnsrewrite":
				rewrites = append(rewrites, value)
			case "client":
				for _, s := range rules.VerifSplitWithEscapeCharacter(value, '|', '\\', false) {
					c := strings.TrimPrefix(s, "~")
					clients = append(clients, s, c)
					quoted := len(c) >= 2 && (c[0] == '\'' || c[0] == '"') && c[0] == c[len(c)-1]
					q := ""
					if quoted {
						q = string(c[0])
						c = c[1 : len(c)-1]
					}
					c = strings.ReplaceAll(c, "\\,", ",")
					clients = append(clients, c)
					if quoted {
						c = strings.ReplaceAll(c, "\\"+q, q)
						clients = append(clients, c)
					}
				}
			}
		}
	}()
	var rw []string
	seen := map[string]bool{}
	for _, v := range rewrites {
		if seen[v] {
			continue
		}
		seen[v] = true
		d, err := rules.VerifLoadDNSRewrite(v)
		if err != nil || d == nil {
			rw = append(rw, wlist(wb(v), "err"))
		} else {
			rw = append(rw, wlist(wb(v), wrewrite(d)))
		}
	}

	return clients, wprefixes(clients...) + " " + wlist(rw...) + " " + wlist(reTable)
}

var eTrickyTexts = []string{
	`||example.org^$client='Frank\'s laptop'`, `||example.org^$client="a\,b"|~'x\|y'`, `||e.org^$client=~10.0.0.0/8|127.0.0.1|::1/128`,
	`/reg\$ex/$domain=example.org`, `/regex/`, `/regex$domain=a.com/`, `/replace=x/$domain=a.com`, `||a.com^$replace=/a/b/`,
	`||a.com/path\$x$domain=a.com`, `||a.com\$a\$b$domain=a.com|b\$.com`, `a$domain=a.com`, `$domain=a.com`, `@@`, `@@$`, `$`, `$$`,
	`||a.com^$`, `||a.com^$,`, `||a.com^$,,important,`, `||a.com^$=x`, `||a.com^$domain`, `||a.com^$domain=`, `||a.com^$domain=|`,
	`||a.com^$domain=~`, `||a.com^$domain=a.com|~`, `||a.com^$domain=~a.com`, `||a.com^$denyallow=~a.com`, `||a.com^$denyallow=a.*`,
	`||a.com^$ctag=`, `||a.com^$ctag=a|`, `||a.com^$ctag=~|a`, `||a.com^$ctag=b|a|~d|~c|a`, `||a.com^$ctag=A`, `||a.com^$ctag=é`,
	`||a.com^$dnstype=`, `||a.com^$dnstype=~`, `||a.com^$dnstype=|A`, `||a.com^$dnstype=A|~AAAA|a`, `||a.com^$dnstype=none`,
	`||a.com^$dnstype=NoNe`, `||a.com^$dnstype=reſerved`, `||a.com^$dnstype=ſrv`, `||a.com^$dnstype=tı`, `||a.com^$dnstype=TYPE65`,
	`||a.com^$dnstype=~~A`, `@@||a.com^$document`, `||a.com^$document`, `@@||a.com^$document,~extension`, `@@||a.com^$~extension,document`,
	`@@||a.com^$~extension`, `||a.com^$~extension`, `@@||a.com^$popup`, `||a.com^$popup`, `||a.com^$popup,script`, `@@||a.com^$elemhide,image`,
	`||a.com^$~script,script`, `||a.com^$~~script`, `||a.com^$~`, `||a.com^$script=1`, `||a.com^$important=1`, `||a.com^$first-party,~first-party`,
	`||a.com/*`, `/*`, `//*`, `*/*$domain=a.com`, `||$domain=a.com`, `|$ctag=a`, `*$client=a`, `ab$dnstype=A`, `ab`, `abc`, `ab$important`,
	`||a.com^$client=`, `||a.com^$client=|`, `||a.com^$client=''`, `||a.com^$client='`, `||a.com^$client=~`, `||a.com^$client=~''`,
	`||a.com^$client='a'b'`, `||a.com^$client="a\"b"`, `||a.com^$client=a\\|b`, `||a.com^$client=\`, `||a.com^$client=é|ü`, `||a.com^$client=1.2.3.4/`,
	`||a.com^$client=ab|ff|::|1.2.3.999`, `||a.com^$client=10.0.0.5/8|10.0.0.0/8`, `||a.com^$client=::ffff:1.2.3.4|1.2.3.4`,
	`||a.com^$domain=xn--abc.xn--abcd|x.xn--wwww|1.2.3.4|a.b1|a-.com|a.-b.com`, `||a.com^$domain=A.COM|a..com|.com|com|a.c`,
	`||a.com^$dnsrewrite=1.2.3.4`, `||a.com^$dnsrewrite=`, `||a.com^$dnsrewrite`, `||a.com^$dnsrewrite=a;b`, `||a.com^$dnsrewrite=NOERROR;TXT;a\,b\$c`,
	`||a.com^$domain=a.com\,b.com`, `||a.com^$domain=a.com,\,important`, `||É.com^`, "||a.com^\xff\xfe", "||a.com^$client=\xc3\xa9\xc3|x", `|http://a*b^c|d`, `a|b*cd^efg`,
}

var eMutAlphabet = []byte("$,\\|~=/*^'\". @#!-_a9A\t\r\xc3\xa9\xc5\xbf\xff\x80\x00")

func eMutate(r *rng, s string) string {
	b := []byte(s)
	k := 1 + r.n(3)
	for j := 0; j < k; j++ {
		switch r.n(6) {
		case 0:
			if len(b) > 0 {
				b[r.n(len(b))] = pick(r, eMutAlphabet)
			}
		case 1:
			i := r.n(len(b) + 1)
			b = append(b[:i], append([]byte{pick(r, eMutAlphabet)}, b[i:]...)...)
		case 2:
			if len(b) > 0 {
				i := r.n(len(b))
				b = append(b[:i], b[i+1:]...)
			}
		case 3:
			if len(b) > 0 {
				b = b[:r.n(len(b)+1)]
			}
		case 4:
			if len(b) > 1 {
				i := r.n(len(b))
				j := i + r.n(len(b)-i)
				b = append(b[:j], append(append([]byte{}, b[i:j]...), b[j:]...)...)
			}
		default:
			if len(b) > 0 {
				b[r.n(len(b))] ^= byte(1 << r.n(8))
			}
		}
	}

	return string(b)
}

// eRealNetLine picks a line of the bundled lists that NewRule reads as a network rule
// (or an error), i.e. not a comment, cosmetic rule or hosts line.
func eRealNetLine(r *rng) string {
	lines := eTestdataLines()
	for k := 0; k < 50; k++ {
		l := strings.TrimSpace(pick(r, lines))
		if l == "" || l[0] == '!' || l[0] == '#' {
			continue
		}
		if idx, _ := rules.VerifFindCosmeticRuleMarker(l); idx != -1 {
			continue
		}
		if _, err := rules.NewHostRule(l, 0); err == nil && r.chance(9, 10) {
			continue
		}

		return l
	}

	return "||example.org^"
}

func eGenParseText(r *rng) string {
	switch r.n(23) {
	case 20:
		// R2: escaped characters in the PATTERN, mostly without a modifier list
		return r2EscNetText(r)
	case 21:
		// R2: stray commas in the modifier list of a line without a backslash
		return r2StrayCommaText(r)
	case 22:
		// R2: a `#` followed by a marker-like byte in a network rule
		return r2NearCosmeticLine(r)
	case 0, 1, 2, 3, 4, 5, 6:
		return eGenNetRuleText(r)
	case 7, 8, 9, 10:
		return eMutate(r, eGenNetRuleText(r))
	case 11, 12, 13, 14:
		return eRealNetLine(r)
	case 15, 16:
		return eMutate(r, eRealNetLine(r))
	case 17:
		return eMutate(r, pick(r, eTrickyTexts))
	default:
		return pick(r, eTrickyTexts)
	}
}

func eListID(r *rng) int {
	if r.chance(1, 10) {
		return pick(r, []int{0, -1, 2147483647, -2147483648, 7})
	}

	return 1 + r.n(3)
}

func genC04Parse(r *rng, n int, w *bufio.Writer) {
	r = eReseed(r)
	for i := 0; i < n; i++ {
		t := eGenParseText(r)
		id := eListID(r)
		ans := guardStr(func() string {
			f, err := rules.NewNetworkRule(t, id)
			if err != nil {
				return "err"
			}

			return strings.ReplaceAll(wnetrule(f), " ", ",") // one token without blanks
		})
		addrs, tables := eParseOracles(t)
		fmt.Fprintf(w, "c04.parse %s %d %s %s = %s ## %s\n", wb(t), id, waddrs(addrs...), tables, ans, noteStr(t))
	}
}

func genC04TextMatch(r *rng, n int, w *bufio.Writer) {
	r = eReseed(r)
	for i := 0; i < n; i++ {
		var t string
		var f *rules.NetworkRule
		var err error
		id := eListID(r)
		// mostly valid texts (the request generator needs the parsed rule), some arbitrary ones
		for k := 0; ; k++ {
			if r.chance(1, 8) {
				t = eGenParseText(r)
			} else {
				t = eGenNetRuleText(r)
			}
			f, err = guardRule(t, id)
			if err == nil || r.chance(1, 12) || k > 50 {
				break
			}
		}
		var q *rules.Request
		if f != nil {
			q = eAimedRequest(r, f, t)
			if r.chance(1, 2) {
				for k := 0; k < 12 && guardStr(func() string { return wbool(f.Match(q)) }) != "T"; k++ {
					q = eAimedRequest(r, f, t)
				}
			}
		} else {
			q = genRequest(r, []string{t})
		}
		ans := "err"
		pats := ""
		if f != nil {
			ans = guardStr(func() string { return wbool(f.Match(q)) })
			pats = guardStr(func() string { return wpat(f, q.URL, q.Hostname) })
		}
		addrs, tables := eParseOracles(t)
		addrs = append(addrs, q.Hostname)
		fmt.Fprintf(w, "c04.textmatch %s %d %s %s %s %s (%s) = %s ## %s | %s src=%s host=%s type=%d dns=%d tags=%q client=%q/%s\n",
			wb(t), id, waddrs(addrs...), tables, wrequest(q), wpsl(q.Hostname, q.SourceHostname), pats, ans,
			noteStr(t), noteStr(q.URL), noteStr(q.SourceHostname), noteStr(q.Hostname), q.RequestType, q.DNSType,
			q.SortedClientTags, q.ClientName, q.ClientIP)
	}
}

// guardRule is NewNetworkRule with a panic turned into an error.
func guardRule(t string, id int) (f *rules.NetworkRule, err error) {
	defer func() {
		if v := recover(); v != nil {
			f, err = nil, fmt.Errorf("panic: %v", v)
		}
	}()

	return rules.NewNetworkRule(t, id)
}

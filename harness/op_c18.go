package main

// Op family `c18` (C18): hosts-file lines.
//
//   c18.hostline <line> <addr table> <dn table> = err|PANIC|<H record>      rules.NewHostRule
//   c18.newrule  <line> <addr table> <dn table> = skip|cos|net|<H record>   rules.NewRule
//   c18.dns      <line> <addr table> <dn table> (<queries>) = nohost|(<v4><v6>…)
//        a real DNSEngine over a one-line list; every listed name, an unlisted one and near misses
//        are queried; per query: is the rule in HostRulesV4 / HostRulesV6.
//
// <dn table> is the oracle table of filterutil.IsDomainName (the model of that function belongs to
// another work group).  Lines come from the grammar of the property
//     IP (sp|tab)+ name ((sp|tab)+ name)* [ws* '#' any]   |   name [ws* '#' any]
// (IPv4 / IPv6 / IPv4-mapped / zoned / invalid addresses, 1..8 names, space/tab runs, comments with
// and without a preceding blank incl. tab, trailing blanks; comment texts containing `x$$y`, `x$@$y`,
// ` $$`, `#@#` / `#?#` / `##` after a blank or inside a word -- the D16 shapes), plus a byte-mutation
// stream.

import (
	"bufio"
	"fmt"
	"strings"

	"github.com/AdguardTeam/urlfilter"
	"github.com/AdguardTeam/urlfilter/filterlist"
	"github.com/AdguardTeam/urlfilter/filterutil"
	"github.com/AdguardTeam/urlfilter/rules"
)

func init() { gens["c18"] = genC18 }

var (
	c18IPs = []string{"0.0.0.0", "127.0.0.1", "1.2.3.4", "192.168.0.1", "255.255.255.255", "::", "::1", "2001:db8::1", "2000::1",
		"::ffff:1.2.3.4", "::ffff:102:304", "fe80::1%eth0", "fe80::1%1", "0:0:0:0:0:0:0:1", "1.2.3.4",
		"[::1]", "1.2.3", "999.1.1.1", "example.org", "01.2.3.4", "1.2.3.4.", "::g", "0.0.0.0"}
	c18OddNames = []string{"EXAMPLE.org", "a", "localhost", "x$y", "a!b", "!bang", "na$$me", "do$@$llar", "ex\xc3\xa4mple.org", "-", "*.example.org",
		"a_b.example", "example.or", "broadcasthost", "ip6-localhost", "1.2.3.4", "::1", "xn--e1afmkfd.xn--p1ai", "a.b.c.d.e.f", "$$", "$x"}
	c18Blank    = []string{" ", " ", " ", "\t", "\t", "  ", "\t\t", " \t", "\t ", "   "}
	c18PreCmt   = []string{"", "", " ", " ", "\t", "\t", "  ", " \t", "\t "}
	c18Comments = []string{"", " note", "note", "# phishing", "#", "@#x", "?#sel", "$#x", "%#//scriptlet('a')", "@$#b", "@%#c", "@?#d", "?$#e", "@?$#f",
		" 0.0.0.0 other.com", " $$script", "$@$", " a$$b", " !x", "#.banner", " ## x", "\xc2\xa0", " trailing  ", " tab\t", "\xff\x00", " x # y # z",
		" \xe2\x80\x83", "@", "@#", "?", " $", "$", "#@#.x",
		// D16: cosmetic markers inside the comment never make the line cosmetic
		" costs$$5", " costs $$5", " x$$y", " x$@$y", " a$@$b", " $$", " $@$", "$$", "$$x", "x$$", " #@#.x", " #?#sel", " #$#body{}", " #%#js", " ##.banner",
		"\t$$", " a##b", " a#@#b", " a#?#b", "x##y", " $$ ## $@$", " 100$$ or 200$@$", "#$$", "#$@$", "@#$$", " see example.org##.banner"}
)

// c18DeepName (N2): a valid name with MANY labels: 5, 6, 7, 9, 17, 33, 41, 65 … up to 120 (short labels, at most 253
// bytes in all), or few LONG labels (up to 63 bytes each); the last label is an alphabetic TLD.
func c18DeepName(r *rng) string {
	k := n2Count(r, 3, func() int { return 5 + r.n(4) }, 5, 120)
	labels := []string{"a", "b", "w", "x1", "0", "cdn", "www", "ad-s", "m", "s3", "eu", "xn--80ak6aa92e", "A", "z9"}
	tail := pick(r, []string{"example.org", "test.co.uk", "e.org", "site.com", "city.kawasaki.jp", "example.museum"})
	var parts []string
	n := len(tail)
	for i := strings.Count(tail, ".") + 1; i < k; i++ {
		l := pick(r, labels)
		if k > 40 {
			l = l[:1]
		}
		if r.chance(1, 12) && k < 12 {
			l = strings.Repeat(pick(r, []string{"q", "ab", "x-y"}), 63)[:1+r.n(63)]
			l = strings.TrimRight(l, "-") + "e"
			if len(l) > 63 {
				l = l[:63]
			}
		}
		if n+len(l)+1 > 253 {
			break
		}
		parts = append(parts, l)
		n += len(l) + 1
	}
	parts = append(parts, tail)

	return strings.Join(parts, ".")
}

func c18Name(r *rng) string {
	if r.chance(1, 10) {
		return c18DeepName(r)
	}
	if r.chance(1, 5) {
		return pick(r, c18OddNames)
	}
	if cs := c02HostCollisions(); len(cs) > 0 && r.chance(1, 8) {
		// a name whose 32-bit hash equals that of another name (which is then queried, see genC18)
		return pick(r, cs)[r.n(2)]
	}

	return pick(r, []string{"", "", "www.", "ads."}) + pick(r, poolDomains)
}

// c18Line builds a line and returns it with the names the grammar intends.
func c18Line(r *rng) (line string, names []string) {
	var sb strings.Builder
	if r.chance(1, 25) {
		sb.WriteString(pick(r, c18Blank))
	}
	if r.chance(1, 5) {
		// bare domain
		n := c18Name(r)
		names = []string{n}
		sb.WriteString(n)
	} else {
		if r.chance(5, 6) {
			sb.WriteString(c18IPs[r.n(15)]) // the valid ones
		} else {
			sb.WriteString(pick(r, c18IPs))
		}
		k := 1 + r.n(8)
		if r.chance(1, 2) {
			k = 1 + r.n(2)
		}
		if r.chance(1, 20) {
			// N2: MANY names on one line (9, 17, 33, 41, 65, 101, 256 … up to 300)
			k = n2Count(r, 1, nil, 9, 300)
		}
		for i := 0; i < k; i++ {
			n := c18Name(r)
			if i > 0 && r.chance(1, 6) {
				n = names[r.n(len(names))] // a repeated name
			}
			names = append(names, n)
			sb.WriteString(pick(r, c18Blank))
			sb.WriteString(n)
		}
	}
	if r.chance(1, 2) {
		sb.WriteString(pick(r, c18PreCmt))
		sb.WriteString("#")
		sb.WriteString(pick(r, c18Comments))
	} else if r.chance(1, 3) {
		sb.WriteString(pick(r, c18Blank))
	}

	return sb.String(), names
}

func blankFields(s string) []string {
	return strings.FieldsFunc(s, func(c rune) bool { return c == ' ' || c == '\t' })
}

// c18Cands lists every string the model may hand to the two oracles.
func c18Cands(line string) (cands []string) {
	cands = []string{""}
	for _, l := range []string{line, strings.TrimSpace(line)} {
		cands = append(cands, blankFields(l)...)
		if i := strings.IndexByte(l, '#'); i > 0 {
			cands = append(cands, blankFields(l[:i])...)
		}
	}

	return cands
}

func wdn(ss ...string) string {
	seen := map[string]bool{}
	var items []string
	for _, s := range ss {
		if seen[s] {
			continue
		}
		seen[s] = true
		items = append(items, wlist(wb(s), wbool(filterutil.IsDomainName(s))))
	}

	return wlist(items...)
}

func c18Kind(line string) string {
	return guardStr(func() string {
		r, err := rules.NewRule(line, 1)
		if r == nil && err == nil {
			return "skip"
		}
		idx, _ := rules.VerifFindCosmeticRuleMarker(strings.TrimSpace(line))
		switch r := r.(type) {
		case *rules.HostRule:
			return tok(whostrule(r))
		case *rules.CosmeticRule:
			if idx == -1 {
				return "COSMETIC-WITHOUT-MARKER"
			}

			return "cos"
		case *rules.NetworkRule:
			if idx != -1 {
				return "NETWORK-WITH-MARKER"
			}

			return "net"
		}
		// an error: from NewCosmeticRule iff a marker was found
		if idx != -1 {
			return "cos"
		}

		return "net"
	})
}

// c18Side is a list standing next to the list under test in the storage of c18DNS.  It never lists a queried
// name: it yields no rule at all (empty, comments, rejected lines, ignored cosmetic rules) or only rules
// about names of its own, so the answers are those of the one-line list alone -- however the lists are split.
type c18Side struct {
	text   string
	ign    bool
	file   bool
	before bool
}

// c18Sides draws 0..4 side lists; mostly at least one rule-less list BEFORE the list under test (a
// list that yields nothing must not hide the lists after it), often after another list.
func c18Sides(r *rng) (out []c18Side, note string) {
	if r.chance(2, 5) {
		return nil, ""
	}
	n := 1 + r.n(4)
	var notes []string
	for i := 0; i < n; i++ {
		var sd c18Side
		if r.chance(2, 3) {
			lines, ign := mRuleLessBody(r)
			sd.text = strings.Join(lines, "\n")
			if lines != nil && r.chance(2, 3) {
				sd.text += "\n"
			}
			sd.ign = ign
		} else {
			sd.text = fmt.Sprintf("0.0.0.0 side%d.invalid www.side%d.invalid\n# end\n||net-side%d.invalid^\n", i, i, i)
			if r.chance(1, 3) {
				sd.text = fmt.Sprintf("side%d.invalid", i) // a single bare name, no line break
			}
			sd.ign = r.chance(1, 2)
		}
		sd.before = r.chance(3, 4)
		sd.file = r.chance(1, 4)
		out = append(out, sd)
		pos := "after"
		if sd.before {
			pos = "before"
		}
		notes = append(notes, fmt.Sprintf("%s:%q", pos, sd.text))
	}

	return out, " side lists (each group in this order) [" + strings.Join(notes, " ") + "]"
}

func c18DNS(line string, queries []string, sides ...c18Side) string {
	return guardStr(func() string {
		r, _ := rules.NewRule(line, 1)
		if _, ok := r.(*rules.HostRule); !ok {
			return "nohost"
		}
		var list filterlist.RuleList = &filterlist.StringRuleList{ID: 1, RulesText: line + "\n"}
		if c18ListHook != nil {
			// family c18chunk (op_m4_readers.go): the same line served by a reader with short reads
			list = c18ListHook(line)
		}
		var before, after []filterlist.RuleList
		for i, sd := range sides {
			l := r1NewList(2+i, sd.text, sd.ign, sd.file)
			if sd.before {
				before = append(before, l)
			} else {
				after = append(after, l)
			}
		}
		s, err := filterlist.NewRuleStorage(append(append(before, list), after...))
		if err != nil {
			return "storage-error"
		}
		e := urlfilter.NewDNSEngine(s)
		items := make([]string, len(queries))
		for i, q := range queries {
			res, _ := e.Match(q)
			items[i] = wbool(len(res.HostRulesV4) > 0) + wbool(len(res.HostRulesV6) > 0)
			// a name listed twice on the line yields the rule twice: compared as a set (DESIGN §6)
			if res.NetworkRule != nil || len(res.NetworkRules) > 0 {
				items[i] = "UNEXPECTED"
			}
		}

		return tok(wlist(items...))
	})
}

// c18LongName builds a syntactically valid domain name of exactly n bytes (labels of at most 63 letters).
func c18LongName(n int) string {
	var sb strings.Builder
	for sb.Len() < n {
		left := n - sb.Len()
		l := 63
		if left < 64 {
			l = left
		} else if left == 64 {
			l = 62 // leave room for a dot and at least one more letter
		}
		sb.WriteString(strings.Repeat("a", l))
		if sb.Len() < n {
			sb.WriteByte('.')
		}
	}

	return sb.String()
}

func genC18(r *rng, n int, w *bufio.Writer) {
	for i := 0; i < n; i++ {
		line, names := c18Line(r)
		if r.chance(1, 8) {
			line = mutateBytes(r, line)
		}
		var extraQueries []string
		switch {
		case r.chance(1, 25):
			// a bare domain at the length limit of IsDomainName (253) and next to it
			nm := c18LongName(250 + r.n(6))
			line, names = nm+pick(r, []string{"", " ", " # c", "\t#c"}), []string{nm}
		case r.chance(1, 25):
			// a comment running past the scanner's 4096-byte read buffer whose text from byte 4096 on looks
			// like a hosts line of its own: it must stay a comment
			tail := fmt.Sprintf("remark%d.example", r.n(100))
			head := pick(r, []string{"0.0.0.0 ", "::1 ", "10.0.0.1\t"}) + strings.Join(names, " ")
			if len(names) == 0 || strings.ContainsAny(head, "#\n\r") || len(head) > 3000 {
				head, names = "0.0.0.0 listed.example", []string{"listed.example"}
			}
			head += " # "
			line = head + strings.Repeat(pick(r, []string{"x", "-", "c "}), 4096)[:4096-len(head)] + tail
			extraQueries = []string{tail}
		}
		cands := c18Cands(line)
		tables := waddrs(cands...) + " " + wdn(cands...)
		host := guardStr(func() string {
			h, err := rules.NewHostRule(line, 1)
			if err != nil {
				return "err"
			}

			return tok(whostrule(h))
		})
		fmt.Fprintf(w, "c18.hostline %s %s = %s ## %q\n", wb(line), tables, host, line)
		fmt.Fprintf(w, "c18.newrule %s %s = %s ## %q\n", wb(line), tables, c18Kind(line), line)
		if strings.ContainsAny(line, "\n\r") {
			continue
		}
		// queries: intended names, what the implementation listed, near misses, an unlisted name
		qs := append([]string{}, names...)
		if h, err := rules.NewHostRule(strings.TrimSpace(line), 1); err == nil {
			qs = append(qs, h.Hostnames...)
		}
		for _, nm := range names {
			if len(nm) > 1 && r.chance(1, 2) {
				qs = append(qs, nm[:len(nm)-1])
			}
			if r.chance(1, 4) {
				qs = append(qs, nm+"x", strings.ToUpper(nm), "sub."+nm)
			}
		}
		qs = append(qs, "unlisted.example")
		qs = append(qs, extraQueries...)
		for _, p := range c02HostCollisions() {
			for _, nm := range names {
				if nm == p[0] {
					qs = append(qs, p[1])
				} else if nm == p[1] {
					qs = append(qs, p[0])
				}
			}
		}
		seen := map[string]bool{"": true}
		var uq []string
		for _, q := range qs {
			if !seen[q] {
				seen[q] = true
				uq = append(uq, q)
			}
		}
		sides, sideNote := c18Sides(r)
		fmt.Fprintf(w, "c18.dns %s %s %s = %s ## %q%s\n", wb(line), tables, wstrs(uq), c18DNS(line, uq, sides...), line, sideNote)
	}
}

package main

// Generated facts of work group B (C01/C02/C15).

import "github.com/AdguardTeam/urlfilter/lookup"

func init() {
	factSections = append(factSections, func(p func(format string, a ...any)) {
		p("-- lookup/shortcutstable.go")
		p("def shortcutLength : Nat := %d", lookup.VerifShortcutLength)
	})
}

package main

// Generated facts of work group B (C01/C02/C15).

import "github.com/AdguardTeam/urlfilter/lookup"

func init() {
	factSections = append(factSections, func(p func(format string, a ...any)) {
		p("-- lookup/shortcutstable.go")
		p("def shortcutLength : Nat := %d", lookup.VerifShortcutLength)
	})
}

// bReseed decorrelates the streams of nearby seeds: newRng(seed) and
// newRng(seed+1000) are the same splitmix64 stream shifted by 1000 draws, and
// the thorough tier uses seeds seed+1000*k.  After this the state is a mixed
// function of the seed.
func bReseed(r *rng) { r.s = r.u64() }

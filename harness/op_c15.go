package main

// op `c15.cosm` (C15): the real CosmeticEngine.Match vs the model lookup table
// vs the reference (CosmeticRule.Match over all rules).
//   c15.cosm (K…) host css js generic psl = (generic selectors…)|(specific selectors…)

import (
	"bufio"
	"fmt"
	"strings"

	"github.com/AdguardTeam/urlfilter"
	"github.com/AdguardTeam/urlfilter/filterlist"
	"github.com/AdguardTeam/urlfilter/rules"
)

func init() { gens["c15.cosm"] = c15Gen }

var (
	c15Selectors = []string{".banner", "#ad", ".ad-box", "div[id^=\"ad\"]", ".x", "a[href*=\"track\"]", ".sponsor", "#top > .ad"}
	c15Domains   = []string{
		"example.org", "example.com", "sub.example.org", "a.b.example.org", "notexample.org", "google.com",
		"google.co.uk", "www.google.de", "site.com", "cdn.site.com", "test.co.uk", "e.org", "org", "localhost",
	}
	c15Wild = []string{"example.*", "google.*", "www.google.*", "site.*", "sub.example.*"}
)

func c15GenRule(r *rng) string {
	sel := pick(r, c15Selectors)
	dom := func() string {
		n := 1 + r.n(3)
		var ds []string
		for i := 0; i < n; i++ {
			d := pick(r, c15Domains)
			if r.chance(1, 5) {
				d = pick(r, c15Wild)
			}
			if r.chance(1, 4) {
				d = "~" + d
			}
			ds = append(ds, d)
		}
		if r.chance(1, 8) {
			// N2: MANY domains (4, 5, 9, 17, 33, 41, 65 … up to 80): the aimed names above plus filler names, at random positions
			total := n2Count(r, 1, nil, 4, 80)
			off := r.n(500)
			for k := 0; len(ds) < total; k++ {
				f := fmt.Sprintf("shop%03d.example.net", off+k)
				if r.chance(1, 10) {
					f = "~" + f
				}
				pos := r.n(len(ds) + 1)
				ds = append(ds[:pos:pos], append([]string{f}, ds[pos:]...)...)
			}
		}

		return strings.Join(ds, ",")
	}
	switch r.n(10) {
	case 0, 1:
		return "##" + sel
	case 2, 3, 4, 5:
		return dom() + "##" + sel
	case 6, 7:
		return dom() + "#@#" + sel
	case 8:
		return "~" + pick(r, c15Domains) + "##" + sel // generic with an exclusion
	default:
		return pick(r, []string{"#@#" + sel, dom() + "#?#" + sel, dom() + "#$#" + sel + " { color: red }", "! c", "||x.com^", dom() + "## " + sel + " "})
	}
}

// c15LongRule is a hiding rule or an exception whose domain list has a few hundred
// names, so that the LINE is longer than the 4096-byte read buffer of the list
// scanner (lengths around 4096 and 8192 and in between / beyond).  A handful of
// the names are domains the requests are aimed at (c15Domains / c15Wild, each at
// most once), spread over the whole line: a line reader that cuts, drops or
// re-splits the line changes the answer for some of them.
func c15LongRule(r *rng) string {
	sel := pick(r, c15Selectors)
	marker := pick(r, []string{"##", "##", "#@#"})
	target := pick(r, []int{4000, 4090, 4094, 4095, 4096, 4097, 4098, 4100, 4200, 5000, 6000, 8190, 8191, 8192, 8193, 8194, 8200, 9000, 12288, 12300})
	target += r.n(5) - 2
	budget := target - len(marker) - len(sel)
	// filler names until the budget is used up
	var ds []string
	used := 0
	for k := 0; ; k++ {
		d := fmt.Sprintf("shop%03d-%s.com", k, pick(r, []string{"example", "ex", "store-example"}))
		if r.chance(1, 9) {
			d = "~" + d
		}
		if used+len(d)+1 > budget-40 {
			break
		}
		ds = append(ds, d)
		used += len(d) + 1
	}
	// the aimed names, at random positions (begin, middle, end all likely)
	aimed := subset(r, append(append([]string{}, c15Domains...), c15Wild...), 8)
	for len(aimed) < 3 {
		aimed = append(aimed, pick(r, c15Domains))
	}
	seen := map[string]bool{}
	for _, a := range aimed {
		if seen[a] {
			continue
		}
		seen[a] = true
		if r.chance(1, 8) {
			a = "~" + a
		}
		pos := r.n(len(ds) + 1)
		switch r.n(5) {
		case 0:
			pos = r.n(3)
		case 1:
			pos = len(ds) - r.n(3)
		}
		if pos < 0 {
			pos = 0
		}
		if used+len(a)+1 > budget {
			continue
		}
		ds = append(ds[:pos], append([]string{a}, ds[pos:]...)...)
		used += len(a) + 1
	}
	// pad the last filler so that the line has exactly the aimed length
	list := strings.Join(ds, ",")
	if pad := budget - len(list) - 1; pad > 4 {
		list += "," + strings.Repeat("p", pad-4) + ".com"
	}

	return list + marker + sel
}

func c15Host(r *rng) string {
	d := pick(r, c15Domains)
	switch r.n(10) {
	case 0, 1, 2:
		return d
	case 3, 4:
		return pick(r, []string{"www.", "sub.", "a.b.", "x-"}) + d
	case 5:
		return pick(r, []string{"my", "not"}) + d // sibling sharing a textual suffix
	case 6:
		return strings.TrimSuffix(pick(r, c15Wild), "*") + pick(r, []string{"com", "co.uk", "de", "notatld", "blogspot.com", "org"})
	case 7:
		return "www." + strings.TrimSuffix(pick(r, c15Wild), "*") + pick(r, []string{"com", "co.uk", "org"})
	case 8:
		return pick(r, []string{"", "unrelated.net", "org", "com", ".", "example.org.", ".example.org", "a..example.org"})
	default:
		return "deep.er.sub." + d
	}
}

// c15ShortNote abbreviates the long domain lists of c15LongRule in a note.
func c15ShortNote(s string) string {
	if len(s) <= 3000 {
		return s
	}
	fields := strings.Split(s, ",")
	var out []string
	skipped := 0
	for _, f := range fields {
		if (strings.HasPrefix(f, "shop") || strings.HasPrefix(f, "~shop")) && !strings.ContainsAny(f, "#¶‖ ") {
			skipped++

			continue
		}
		if skipped > 0 {
			out = append(out, fmt.Sprintf("…%d filler names…", skipped))
			skipped = 0
		}
		out = append(out, f)
	}

	return fmt.Sprintf("%s (line lengths abbreviated; total %d bytes)", strings.Join(out, ","), len(s))
}

func c15SelSet(ss ...[]string) string {
	var all []string
	for _, s := range ss {
		all = append(all, s...)
	}

	return bSortedTextSet(all)
}

func c15Gen(r *rng, n int, w *bufio.Writer) {
	bReseed(r)
	for i := 0; i < n; {
		nLists := 1 + r.n(2)
		nLines := 1 + r.n(12)
		if r.chance(1, 5) {
			nLines = 1 + r.n(40)
		}
		// N2: once in 20 scenarios MANY rules in one engine (more than 40 / 64 / 100 / 255 …), most of them generic rules
		// with selectors of their own (the answer is a set of selectors), with exceptions and exclusions for some of them
		many := r.chance(1, 20)
		if many {
			nLines = n2Count(r, 1, nil, 41, 280)
		}
		bodies := make([][]string, nLists)
		var all []string
		for j := 0; j < nLines; j++ {
			t := c15GenRule(r)
			if r.chance(1, 40) {
				t = c15LongRule(r)
			}
			if many && r.chance(5, 6) {
				sel := fmt.Sprintf(".g%d", r.n(nLines))
				switch r.n(12) {
				case 0:
					t = pick(r, c15Domains) + "#@#" + sel
				case 1:
					t = "~" + pick(r, c15Domains) + "##" + sel
				case 2:
					t = pick(r, c15Domains) + "##" + sel
				default:
					t = "##" + sel
				}
			}
			if len(all) > 0 && r.chance(1, 8) {
				t = pick(r, all)
			}
			all = append(all, t)
			l := r.n(nLists)
			bodies[l] = append(bodies[l], t)
		}
		if r.chance(1, 3) {
			// several generic rules, some of them excluded (`~d##sel`) or excepted (`d#@#sel`) for one domain: the GENERIC
			// part of the answer then differs from hostname to hostname
			sels := subset(r, c15Selectors, 6)
			for k, sel := range sels {
				t := "##" + sel
				switch r.n(4) {
				case 0:
					t = "~" + pick(r, c15Domains) + "##" + sel
				case 1:
					e := pick(r, c15Domains) + "#@#" + sel
					all = append(all, e)
					l := r.n(nLists)
					bodies[l] = append(bodies[l], e)
				}
				all = append(all, t)
				l := (k + r.n(2)) % nLists
				bodies[l] = append(bodies[l], t)
			}
		}
		var lists []filterlist.RuleList
		var note []string
		for j, b := range bodies {
			lists = append(lists, &filterlist.StringRuleList{ID: j + 1, RulesText: strings.Join(b, "\n") + "\n"})
			note = append(note, fmt.Sprintf("[%d] %s", j+1, strings.Join(b, " ¶ ")))
		}
		s, err := filterlist.NewRuleStorage(lists)
		if err != nil {
			panic(err)
		}
		engine := urlfilter.NewCosmeticEngine(s)
		full := urlfilter.NewEngine(s)
		// the rules of the scenario are the LINES parsed one by one (not what the list scanner hands out: the
		// engine under test is built through the scanner, the model and the reference are not)
		var items []string
		for j, b := range bodies {
			for _, t := range b {
				f, perr := rules.NewRule(strings.TrimSpace(t), j+1)
				if c, ok := f.(*rules.CosmeticRule); ok && perr == nil && c != nil {
					items = append(items, wcosrule(c))
				}
			}
		}
		rulesW := wlist(items...)
		// The results of ALL queries of the scenario are kept and serialised a second time after the last call: a
		// result handed out must not change when the engine is asked about another hostname (collect, then compare).
		type held struct {
			prefix, note, first string
			res                 urlfilter.CosmeticResult
		}
		var helds []held
		ser := func(res urlfilter.CosmeticResult) string {
			extra := len(res.CSS.Generic) + len(res.CSS.Specific) + len(res.CSS.GenericExtCSS) + len(res.CSS.SpecificExtCSS) +
				len(res.JS.Generic) + len(res.JS.Specific)
			if extra != 0 {
				return "unexpected-css-or-js-result"
			}

			a := c15SelSet(res.ElementHiding.Generic, res.ElementHiding.GenericExtCSS) + "|" +
				c15SelSet(res.ElementHiding.Specific, res.ElementHiding.SpecificExtCSS)
			if a == "()|()" {
				a = "()" // the all-empty answer (counted as trivial by vcheck)
			}

			return a
		}
		nHosts := 2
		if r.chance(1, 3) {
			nHosts = 3 + r.n(2)
		}
		for j := 0; j < nHosts && i < n; j++ {
			host := c15Host(r)
			if r.chance(2, 3) { // a domain some rule of the scenario names, or a subdomain / concrete TLD of it
				var used []string
				for _, d := range append(append([]string{}, c15Domains...), c15Wild...) {
					if strings.Contains(strings.Join(all, "\n"), d) {
						used = append(used, d)
					}
				}
				if len(used) > 0 {
					host = pick(r, used)
					if strings.HasSuffix(host, ".*") {
						host = strings.TrimSuffix(host, "*") + pick(r, []string{"com", "co.uk", "de", "org", "notatld"})
					}
					host = pick(r, []string{"", "", "www.", "a.b.", "my"}) + host
				}
			}
			// the 8 flag combinations, in ascending or (so that the full result is not the last one asked) another order
			order := []int{0, 1, 2, 3, 4, 5, 6, 7}
			if r.chance(1, 3) {
				shuffle(r, order)
			}
			for oi := 0; oi < 8 && i < n; oi, i = oi+1, i+1 {
				flags := order[oi]
				css, js, gen := flags&1 != 0, flags&2 != 0, flags&4 != 0
				viaEngine := r.chance(1, 2)
				var kept urlfilter.CosmeticResult
				ans := guardStr(func() string {
					res := engine.Match(host, css, js, gen)
					if viaEngine {
						// the same question through Engine.GetCosmeticResult, which decodes the three flags from the option
						var opt rules.CosmeticOption
						if css {
							opt |= rules.CosmeticOptionCSS
						}
						if js {
							opt |= rules.CosmeticOptionJS
						}
						if gen {
							opt |= rules.CosmeticOptionGenericCSS
						}
						res = full.GetCosmeticResult(host, opt)
					}
					kept = res

					return ser(res)
				})
				helds = append(helds, held{res: kept, first: ans,
					prefix: fmt.Sprintf("c15.cosm %s %s %s %s %s %s", rulesW, wb(host), wbool(css), wbool(js), wbool(gen), wpsl(host)),
					note: fmt.Sprintf("host=%q css=%v js=%v generic=%v lists: %s", host, css, js, gen, map[bool]string{true: "via Engine.GetCosmeticResult; ", false: ""}[viaEngine]+c15ShortNote(strings.Join(note, " ‖ ")))})
			}
		}
		for k, h := range helds {
			ans, nt := h.first, h.note
			if ans != "PANIC" {
				if now := guardStr(func() string { return ser(h.res) }); now != h.first {
					ans = "HELD-RESULT-CHANGED:" + now
					nt = fmt.Sprintf("THE RESULT CHANGED AFTER IT WAS RETURNED: right after the call (query %d of %d on this engine) it was %s, after the later calls of the scenario it is %s; %s",
						k+1, len(helds), h.first, now, nt)
				}
			}
			fmt.Fprintf(w, "%s = %s ## %s\n", h.prefix, ans, nt)
		}
	}
}

package main

// op `c15.cosm` (C15): the real CosmeticEngine.Match vs the model lookup table
// vs the reference (CosmeticRule.Match over all rules).
//   c15.cosm (K…) host css js generic psl = (generic selectors…)|(specific selectors…)

import (
	"bufio"
	"fmt"
	"strings"

	"github.com/AdguardTeam/urlfilter"
	"github.com/AdguardTeam/urlfilter/filterlist"
	"github.com/AdguardTeam/urlfilter/rules"
)

func init() { gens["c15.cosm"] = c15Gen }

var (
	c15Selectors = []string{".banner", "#ad", ".ad-box", "div[id^=\"ad\"]", ".x", "a[href*=\"track\"]", ".sponsor", "#top > .ad"}
	c15Domains   = []string{
		"example.org", "example.com", "sub.example.org", "a.b.example.org", "notexample.org", "google.com",
		"google.co.uk", "www.google.de", "site.com", "cdn.site.com", "test.co.uk", "e.org", "org", "localhost",
	}
	c15Wild = []string{"example.*", "google.*", "www.google.*", "site.*", "sub.example.*"}
)

func c15GenRule(r *rng) string {
	sel := pick(r, c15Selectors)
	dom := func() string {
		n := 1 + r.n(3)
		var ds []string
		for i := 0; i < n; i++ {
			d := pick(r, c15Domains)
			if r.chance(1, 5) {
				d = pick(r, c15Wild)
			}
			if r.chance(1, 4) {
				d = "~" + d
			}
			ds = append(ds, d)
		}

		return strings.Join(ds, ",")
	}
	switch r.n(10) {
	case 0, 1:
		return "##" + sel
	case 2, 3, 4, 5:
		return dom() + "##" + sel
	case 6, 7:
		return dom() + "#@#" + sel
	case 8:
		return "~" + pick(r, c15Domains) + "##" + sel // generic with an exclusion
	default:
		return pick(r, []string{"#@#" + sel, dom() + "#?#" + sel, dom() + "#$#" + sel + " { color: red }", "! c", "||x.com^", dom() + "## " + sel + " "})
	}
}

func c15Host(r *rng) string {
	d := pick(r, c15Domains)
	switch r.n(10) {
	case 0, 1, 2:
		return d
	case 3, 4:
		return pick(r, []string{"www.", "sub.", "a.b.", "x-"}) + d
	case 5:
		return pick(r, []string{"my", "not"}) + d // sibling sharing a textual suffix
	case 6:
		return strings.TrimSuffix(pick(r, c15Wild), "*") + pick(r, []string{"com", "co.uk", "de", "notatld", "blogspot.com", "org"})
	case 7:
		return "www." + strings.TrimSuffix(pick(r, c15Wild), "*") + pick(r, []string{"com", "co.uk", "org"})
	case 8:
		return pick(r, []string{"", "unrelated.net", "org", "com", ".", "example.org.", ".example.org", "a..example.org"})
	default:
		return "deep.er.sub." + d
	}
}

func c15SelSet(ss ...[]string) string {
	var all []string
	for _, s := range ss {
		all = append(all, s...)
	}

	return bSortedTextSet(all)
}

func c15Gen(r *rng, n int, w *bufio.Writer) {
	bReseed(r)
	for i := 0; i < n; {
		nLists := 1 + r.n(2)
		nLines := 1 + r.n(12)
		if r.chance(1, 5) {
			nLines = 1 + r.n(40)
		}
		bodies := make([][]string, nLists)
		var all []string
		for j := 0; j < nLines; j++ {
			t := c15GenRule(r)
			if len(all) > 0 && r.chance(1, 8) {
				t = pick(r, all)
			}
			all = append(all, t)
			l := r.n(nLists)
			bodies[l] = append(bodies[l], t)
		}
		var lists []filterlist.RuleList
		var note []string
		for j, b := range bodies {
			lists = append(lists, &filterlist.StringRuleList{ID: j + 1, RulesText: strings.Join(b, "\n") + "\n"})
			note = append(note, fmt.Sprintf("[%d] %s", j+1, strings.Join(b, " ¶ ")))
		}
		s, err := filterlist.NewRuleStorage(lists)
		if err != nil {
			panic(err)
		}
		engine := urlfilter.NewCosmeticEngine(s)
		full := urlfilter.NewEngine(s)
		scan := s.NewRuleStorageScanner()
		var items []string
		for scan.Scan() {
			f, _ := scan.Rule()
			if c, ok := f.(*rules.CosmeticRule); ok {
				items = append(items, wcosrule(c))
			}
		}
		rulesW := wlist(items...)
		for j := 0; j < 2 && i < n; j++ {
			host := c15Host(r)
			if r.chance(2, 3) { // a domain some rule of the scenario names, or a subdomain / concrete TLD of it
				var used []string
				for _, d := range append(append([]string{}, c15Domains...), c15Wild...) {
					if strings.Contains(strings.Join(all, "\n"), d) {
						used = append(used, d)
					}
				}
				if len(used) > 0 {
					host = pick(r, used)
					if strings.HasSuffix(host, ".*") {
						host = strings.TrimSuffix(host, "*") + pick(r, []string{"com", "co.uk", "de", "org", "notatld"})
					}
					host = pick(r, []string{"", "", "www.", "a.b.", "my"}) + host
				}
			}
			for flags := 0; flags < 8 && i < n; flags, i = flags+1, i+1 {
				css, js, gen := flags&1 != 0, flags&2 != 0, flags&4 != 0
				viaEngine := r.chance(1, 2)
				ans := guardStr(func() string {
					res := engine.Match(host, css, js, gen)
					if viaEngine {
						// the same question through Engine.GetCosmeticResult, which decodes the three flags from the option
						var opt rules.CosmeticOption
						if css {
							opt |= rules.CosmeticOptionCSS
						}
						if js {
							opt |= rules.CosmeticOptionJS
						}
						if gen {
							opt |= rules.CosmeticOptionGenericCSS
						}
						res = full.GetCosmeticResult(host, opt)
					}
					extra := len(res.CSS.Generic) + len(res.CSS.Specific) + len(res.CSS.GenericExtCSS) + len(res.CSS.SpecificExtCSS) +
						len(res.JS.Generic) + len(res.JS.Specific)
					if extra != 0 {
						return "unexpected-css-or-js-result"
					}

					a := c15SelSet(res.ElementHiding.Generic, res.ElementHiding.GenericExtCSS) + "|" +
						c15SelSet(res.ElementHiding.Specific, res.ElementHiding.SpecificExtCSS)
					if a == "()|()" {
						a = "()" // the all-empty answer (counted as trivial by vcheck)
					}

					return a
				})
				fmt.Fprintf(w, "c15.cosm %s %s %s %s %s %s = %s ## host=%q css=%v js=%v generic=%v lists: %s\n",
					rulesW, wb(host), wbool(css), wbool(js), wbool(gen), wpsl(host), ans, host, css, js, gen, map[bool]string{true: "via Engine.GetCosmeticResult; ", false: ""}[viaEngine]+strings.Join(note, " ‖ "))
			}
		}
	}
}

package main

// op `c01.matchall` (C01): the real NetworkEngine.MatchAll over generated rule
// lists vs the model engine (three lookup tables) vs the linear scan.
//   c01.matchall ((idx R)…) Q psl addrs (pat…) = (text…)   (sorted, de-duplicated rule texts)
// Every line carries the whole scenario: the parsed network rules in storage
// order with their storage indexes, the request and the oracle tables.

import (
	"bufio"
	"fmt"
	"net/netip"
	"sort"
	"strings"
	"sync"

	"github.com/AdguardTeam/urlfilter"
	"github.com/AdguardTeam/urlfilter/filterlist"
	"github.com/AdguardTeam/urlfilter/filterutil"
	"github.com/AdguardTeam/urlfilter/lookup"
	"github.com/AdguardTeam/urlfilter/rules"
)

func init() { gens["c01.matchall"] = c01Gen }

var (
	c01ListIDs = []int{1, 2, 3, 7, 1000, 2147483647}
	// stems sharing many 5-byte windows, so that the histogram decides the bucket
	c01Stems = []string{
		"/banner", "/banners/", "banner_ad", "/adbanner", "adbanner.", "/ads/banner", "-banner-", "banner1",
		"/advert", "advertising", "/adverts/", "_advert_", "tracking", "/tracker", "track.js", "/pixel.gif",
		"/banneradvert", "advertbanner",
	}
	c01Short = []string{"ad", "/ad", "ads", "/a/", "^ad^", "x", "_", "/b?", ".js", "pop", "|ws", "ws:", "wss:", "|http", "http", "|https://", "|http://", "https:/", "|ws://", "ws://", "|wss:/"}
)

// c01WindowCollisions returns pairs of distinct 5-letter strings with equal
// FastHash (found once by a deterministic birthday search): a rule whose whole
// shortcut is one of them shares its bucket with URLs containing the other.
var (
	c01CollOnce  sync.Once
	c01CollCache [][2]string
)

func c01WindowCollisions() [][2]string {
	c01CollOnce.Do(func() {
		seen := map[uint32]string{}
		letters := "abcdefghijklmnopqrstuvwxyz"
		x := uint64(987654321)
		n := lookup.VerifShortcutLength
		for i := 0; i < 900000 && len(c01CollCache) < 16; i++ {
			b := make([]byte, n)
			for j := range b {
				x = x*6364136223846793005 + 1442695040888963407
				b[j] = letters[(x>>33)%26]
			}
			w := string(b)
			h := filterutil.FastHash(w)
			if o, ok := seen[h]; ok && o != w {
				c01CollCache = append(c01CollCache, [2]string{o, w})
			} else {
				seen[h] = w
			}
		}
	})

	return c01CollCache
}

// c01TextCollisions returns pairs of distinct sequential-table rule texts whose
// FULL TEXTS have equal FastHash (deterministic birthday search): any index
// keyed by a 32-bit hash of the rule text would confuse them.
var (
	c01TextCollOnce  sync.Once
	c01TextCollCache [][2]string
)

func c01TextCollisions() [][2]string {
	c01TextCollOnce.Do(func() {
		seen := map[uint32]string{}
		x := uint64(123456789)
		for i := 0; i < 1500000 && len(c01TextCollCache) < 12; i++ {
			x = x*6364136223846793005 + 1442695040888963407
			a, b, c := (x>>40)%256, (x>>48)%256, (x>>56)%256
			var t string
			if i%2 == 0 {
				t = fmt.Sprintf("||t.co^$client=10.%d.%d.%d", a, b, c)
			} else {
				t = fmt.Sprintf("ad$ctag=t%d_%d_%d", a, b, c)
			}
			h := filterutil.FastHash(t)
			if o, ok := seen[h]; ok && o != t && o[:2] == t[:2] {
				c01TextCollCache = append(c01TextCollCache, [2]string{o, t})
			} else {
				seen[h] = t
			}
		}
	})

	return c01TextCollCache
}

// c01GenRuleText: the rule kinds named by the property.
func c01GenRuleText(r *rng) string {
	d := pick(r, poolDomains)
	switch r.n(12) {
	case 0, 1: // shared-window long shortcuts
		s := pick(r, c01Stems)
		switch r.n(4) {
		case 0:
			return s
		case 1:
			return "||" + d + s
		case 2:
			return s + "*" + pick(r, c01Stems)
		default:
			return "@@" + s + "$" + pick(r, []string{"script", "image", "important", "~third-party"})
		}
	case 2, 3: // $domain rules with short patterns (domains table), incl. wildcard TLD
		pool := append(append([]string{}, poolDomains...), poolWildDomains...)
		if r.chance(1, 3) {
			// the value is a PARENT of the pages' hosts, often a public suffix (co.uk, blogspot.com, kawasaki.jp, org)
			pool = r1DotSuffixes(poolDomains)
		}
		pat := pick(r, c01Short)
		if r.chance(1, 4) {
			pat = pick(r, c01Stems) // long shortcut AND $domain: shortcuts table wins
		}
		t := pat + "$domain=" + genList(r, pool, 4, r.chance(1, 3), "|")
		if r.chance(1, 4) {
			t += "," + pick(r, []string{"script", "image", "third-party", "important"})
		}

		return t
	case 4, 5: // sequential-table rules: short patterns, protocol prefixes
		t := pick(r, c01Short)
		if r.chance(1, 3) {
			t += pick(r, []string{"$script", "$image", "$third-party", "$important", "$~script"})
		}
		if r.chance(1, 5) {
			t = "@@" + t
		}

		return t
	case 7: // a rule whose only window collides (djb2) with an unrelated window
		if cs := c01WindowCollisions(); len(cs) > 0 {
			return pick(r, cs)[r.n(2)] + pick(r, []string{"", "$script", "$domain=example.org"})
		}

		return "/banner"
	case 8: // non-ASCII text in the shortcut (IDN written in Unicode form; windows that cut a UTF-8 sequence)
		n := pick(r, mIDNNames)
		switch r.n(5) {
		case 0:
			return "||" + n + "^"
		case 1:
			return "||" + n + pick(r, c01Stems)
		case 2:
			return pick(r, []string{"/bücher/", "/реклама", "ad_ü_banner", "/ünit", "bannerü"}) + pick(r, []string{"", "$script", "$image"})
		case 3:
			return "@@||" + n + "^" + pick(r, []string{"", "$important", "$script"})
		default:
			return pick(r, c01Short) + "$domain=" + n
		}
	case 6: // regex rules (with and without usable shortcut)
		return pick(r, []string{"/banner[0-9]+/", "/ad[0-9]+|banner/", `/advert\.js/`, "/^https?:\\/\\/ads\\./", "/x/"})
	default:
		return genNetRuleText(r, r.chance(1, 4))
	}
}

// c01Crowd returns k distinct rule texts that all land in the same lookup structure of the network engine and
// (mostly) match the same requests, so that the k-th entry of a table / bucket / candidate list is exercised:
//
//	kind 0  sequential table: a short pattern (no 5-byte shortcut) and no PERMITTED domain
//	kind 1  one bucket of the $domain table: a short pattern and a shared permitted domain (plus own ones)
//	kind 2  one bucket of the shortcuts table: a shortcut of exactly one window, or one stem
//	kind 3  a mix of the three
func c01Crowd(r *rng, k int) (out []string) {
	kind := r.n(4)
	short := pick(r, []string{"ad", "/ad", "ads", "/a/", ".js", "pop", "x", "_"})
	key := pick(r, []string{"abcde", "track", "/ads/", "/banner", "advertising"})
	shared := pick(r, poolDomains)
	for i := 0; i < k; i++ {
		own := fmt.Sprintf("v%04d.example.net", i)
		kd := kind
		if kd == 3 {
			kd = r.n(3)
		}
		var variant string
		switch r.n(5) {
		case 0:
			variant = "$domain=~" + own
		case 1:
			variant = fmt.Sprintf("$ctag=~tag_%04d", i)
		case 2:
			variant = fmt.Sprintf("$client=~10.%d.%d.%d", i/65536, i/256%256, i%256)
		case 3:
			variant = "$denyallow=" + own
		default:
			variant = fmt.Sprintf("$dnstype=~A,ctag=~t%d", i)
		}
		switch kd {
		case 0:
			out = append(out, short+variant)
		case 1:
			ds := []string{shared, own}
			if r.chance(1, 2) {
				ds = []string{own, shared}
			}
			if r.chance(1, 4) {
				ds = []string{shared}
				variant = strings.Replace(variant, "$domain=~"+own, fmt.Sprintf("$ctag=~u%d", i), 1)
			}
			v := "$domain=" + strings.Join(ds, "|")
			if !strings.HasPrefix(variant, "$domain=") {
				v += "," + variant[1:]
			}
			out = append(out, short+v)
		default:
			out = append(out, key+variant)
		}
		if r.chance(1, 12) {
			out[len(out)-1] = "@@" + out[len(out)-1]
		}
	}

	return out
}

type c01Scenario struct {
	storage *filterlist.RuleStorage
	engine  *urlfilter.NetworkEngine
	rulesW  string // wire list of (idx R)
	nets    []*rules.NetworkRule
	texts   []string
	note    string
	coll    []string     // texts of a text-hash collision pair present in the scenario
	long    []r1LongRule // rule lines longer than the lists' read buffer
}

func c01BuildScenario(r *rng) *c01Scenario { return c01BuildScenarioWith(r, c01GenRuleText) }

// c01BuildScenarioWith: the scenario builder over any rule text generator.
func c01BuildScenarioWith(r *rng, genText func(*rng) string) *c01Scenario {
	// sizes: mostly small; 1 scenario in 16 has MANY lists (log-scale up to 80), 1 in 10 is CROWDED (see c01Crowd)
	nLists := nCount(r, 1+r.n(4), 16, 5, 80)
	nRules := 1 + r.n(12)
	if r.chance(1, 4) {
		nRules = 1 + r.n(60)
	}
	ids := append([]int{}, c01ListIDs...)
	shuffle(r, ids)
	for k := 0; len(ids) < nLists+2; k++ {
		ids = append(ids, 10+37*k) // more lists than the fixed ids: generated distinct ids
	}
	bodies := make([][]string, nLists)
	var all []string
	if r.chance(1, 10) {
		// a CROWDED table: a log-scale number (up to 400) of distinct rules that all land in ONE lookup structure
		// (the sequential table / one $domain bucket / one shortcut bucket), spread over the lists among the others
		for _, t := range c01Crowd(r, nLog(r, 9, 400)) {
			if _, err := rules.NewNetworkRule(t, 1); err != nil {
				continue
			}
			all = append(all, t)
			l := r.n(nLists)
			bodies[l] = append(bodies[l], t)
		}
	}
	for i := 0; i < nRules; i++ {
		var t string
		if len(all) > 0 && r.chance(1, 8) {
			t = pick(r, all) // duplicate rule text (same or another list)
		} else {
			t = genText(r)
		}
		if _, err := rules.NewNetworkRule(t, 1); err != nil {
			i--

			continue
		}
		all = append(all, t)
		l := r.n(nLists)
		bodies[l] = append(bodies[l], t)
	}
	var long []r1LongRule
	if r.chance(1, 4) {
		// rule lines longer than the 4096-byte read buffer of the scanner and of FileRuleList.RetrieveRule (4-20 KiB:
		// long $domain / $client / $ctag / $denyallow lists, long paths), landing in each of the three tables
		for _, lr := range r1LongRuleTexts(r, c01Short, c01Stems, len(all) <= 10) {
			if _, err := rules.NewNetworkRule(lr.text, 1); err == nil {
				long = append(long, lr)
				all = append(all, lr.text)
				l := r.n(nLists)
				// anywhere in the list: first line, between short rules, last line
				pos := r.n(len(bodies[l]) + 1)
				bodies[l] = append(bodies[l][:pos], append([]string{lr.text}, bodies[l][pos:]...)...)
			}
		}
	}
	var coll []string
	if cs := c01TextCollisions(); len(cs) > 0 && r.chance(1, 6) {
		// two different sequential-table rules whose texts collide under the 32-bit hash
		pair := pick(r, cs)
		coll = pair[:]
		for _, t := range pair {
			all = append(all, t)
			l := r.n(nLists)
			bodies[l] = append(bodies[l], t)
		}
	}
	// "any split into lists": lists that yield NO rule (empty, comments only, rejected lines, ignored cosmetic
	// rules) between, before and after the lists that do
	mb := make([]mBody, len(bodies))
	for i, b := range bodies {
		mb[i] = mBody{lines: b}
	}
	if r.chance(1, 2) {
		mb = mInsertRuleLess(r, bodies, len(ids))
	}
	var lists []filterlist.RuleList
	var note []string
	// FILE-backed lists (real temporary files): retrieval goes through FileRuleList.RetrieveRule; all lists, or a mix
	fileMode := r.n(4) // 0,1: strings only; 2: files only; 3: mixed
	if len(long) > 0 && r.chance(1, 2) {
		fileMode = 2
	}
	for i, b := range mb {
		text := strings.Join(b.lines, "\n") + "\n"
		if b.lines == nil && r.chance(1, 2) {
			text = ""
		}
		ign := r.chance(1, 2)
		if b.ign != nil {
			ign = *b.ign
		}
		if r.chance(1, 8) && b.lines != nil {
			text = strings.TrimSuffix(text, "\n") // the last line without a line break
		}
		fileBacked := fileMode == 2 || (fileMode == 3 && r.chance(1, 2))
		lists = append(lists, r1NewList(ids[i], text, ign, fileBacked))
		kind := ""
		if fileBacked {
			kind = " file"
		}
		note = append(note, fmt.Sprintf("[%d%s] %s", ids[i], kind, r1ShortNote(strings.Join(b.lines, " ¶ "))))
	}
	s, err := filterlist.NewRuleStorage(lists)
	if err != nil {
		panic(err)
	}
	sc := &c01Scenario{storage: s, engine: urlfilter.NewNetworkEngine(s), note: strings.Join(note, " ‖ "), coll: coll, long: long}
	// the reference rule set is read list by list (one scanner per list), NOT through the storage scanner the
	// engine is built from: what the storage scanner skips must show up as a difference
	var items []string
	for _, sr := range mScanLists(lists) {
		if nr, ok := sr.rule.(*rules.NetworkRule); ok {
			sc.nets = append(sc.nets, nr)
			sc.texts = append(sc.texts, nr.RuleText)
			items = append(items, wlist(fmt.Sprint(sr.idx), wnetrule(nr)))
		}
	}
	sc.rulesW = wlist(items...)

	return sc
}

// c01URL builds URLs aimed at the window loop: shortcut only in the LAST
// window, repeated windows, upper case, plus the generic URL generator.
func c01URL(r *rng, sc *c01Scenario) string {
	lit := func() string {
		f := pick(r, sc.nets)
		s := f.Shortcut
		if s == "" {
			s = strings.Trim(f.VerifRaw().Pattern, "|^*")
		}

		return s
	}
	host := pick(r, poolDomains)
	if r.chance(1, 10) {
		host = pick(r, mIDNNames)
	}
	switch r.n(8) {
	case 0: // shortcut is the very end of the URL
		if r.chance(1, 3) {
			// an upper-case letter whose lower-case form has another UTF-8 length: len(URL) != len(URLLowerCase)
			return pick(r, poolSchemes) + "://" + host + "/q" + pick(r, []string{"\u023a", "\u023e\u023a", "\u0130", "\u212a", "\u0130\u0130\u0130"}) + "?" + lit()
		}

		if r.chance(1, 3) {
			// ... of a LONG URL: the only occurrence of the shortcut lies hundreds or thousands of bytes in (log-scale,
			// up to beyond the 4 KiB cap where it is cut off or cut in two)
			return pick(r, poolSchemes) + "://" + host + "/q" + nPad(r, nPadLen(r)) + "?" + lit() + pick(r, []string{"", "", "&x=1"})
		}

		return pick(r, poolSchemes) + "://" + host + "/q?" + lit()
	case 1: // repeated windows
		l := lit()

		return "http://" + host + "/" + l + l + "/" + l
	case 2:
		return "https://" + host + "/" + strings.ToUpper(lit())
	case 3:
		return "http://" + host + pick(r, c01Stems) + pick(r, c01Stems) + pick(r, []string{"", ".js", "/ad", "?ads=1"})
	case 4:
		return pick(r, poolSchemes) + "://" + host + "/" + pick(r, c01Short) + pick(r, []string{"", "/", "s.js"})
	case 5: // shorter than one window
		return pick(r, []string{"", "a", "ws:", "http", "ad/x"})
	default:
		return genURL(r, sc.texts)
	}
}

// c01Source picks a source URL; for a rule with permitted domains mostly one
// of them, a subdomain of one, or a concrete TLD for a wildcard domain.
func c01Source(r *rng, f *rules.NetworkRule) string {
	pd := f.GetPermittedDomains()
	if len(pd) == 0 || r.chance(1, 4) {
		return genSourceURL(r)
	}
	d := pick(r, pd)
	if strings.HasSuffix(d, ".*") {
		d = strings.TrimSuffix(d, "*") + pick(r, []string{"com", "co.uk", "de", "org", "notatld"})
	}

	if r.chance(1, 3) {
		// a host of the pool living below the permitted domain (the value is its parent / its public suffix)
		var below []string
		for _, h := range poolDomains {
			if strings.HasSuffix(h, "."+d) {
				below = append(below, h)
			}
		}
		if len(below) > 0 {
			d = pick(r, below)
		}
	}
	if r.chance(1, 6) {
		d = mutateCase(r, d) // the source host as written: it is not lower-cased for the $domain tests
	}
	if r.chance(1, 14) {
		// a long / deep source host (up to 253 bytes, up to a hundred labels) under the permitted domain
		return pick(r, []string{"http://", "https://"}) + nLongHost(r, d) + pick(r, []string{"", "/", "/page"})
	}

	return pick(r, []string{"http://", "https://"}) + pick(r, []string{"", "", "www.", "a.b."}) + d + pick(r, []string{"", "/", "/page"})
}

// c01AimAt builds a request that satisfies the $client / $ctag value of a
// text-collision rule (see c01TextCollisions).
func c01AimAt(r *rng, text string) *rules.Request {
	var q *rules.Request
	if strings.HasPrefix(text, "||t.co^$client=") {
		if r.chance(1, 2) {
			q = rules.NewRequestForHostname("t.co")
		} else {
			q = rules.NewRequest("https://t.co/x", "", pick(r, poolReqTypes))
		}
		q.ClientIP = netip.MustParseAddr(strings.TrimPrefix(text, "||t.co^$client="))
	} else {
		q = rules.NewRequest("http://"+pick(r, poolDomains)+"/ad", "", pick(r, poolReqTypes))
		q.SortedClientTags = []string{strings.TrimPrefix(text, "ad$ctag=")}
	}

	return q
}

// c01AimAtLong builds a request that satisfies the long modifier of a long rule line (mostly its LAST list
// item, which only a complete read of the line delivers).
func c01AimAtLong(r *rng, sc *c01Scenario, lr r1LongRule) *rules.Request {
	var u string
	switch r.n(4) {
	case 0:
		u = c01URL(r, sc)
	default:
		u = urlAround(r, lr.urlFor)
	}
	src := genSourceURL(r)
	if lr.source != "" && r.chance(5, 6) {
		src = pick(r, []string{"http://", "https://"}) + pick(r, []string{"", "", "www.", "d0001."}) + lr.source + pick(r, []string{"", "/", "/page"})
	}
	q := rules.NewRequest(u, src, pick(r, poolReqTypes))
	if lr.client != "" && r.chance(5, 6) {
		q.ClientName = pick(r, []string{lr.client, lr.client, "d0000-example-org", "d0001-" + strings.ReplaceAll(pick(r, poolDomains), ".", "-")})
	}
	if lr.tag != "" && r.chance(5, 6) {
		q.SortedClientTags = []string{pick(r, []string{lr.tag, lr.tag, "d0000_example_org"})}
	}

	return q
}

func c01Request(r *rng, sc *c01Scenario) *rules.Request {
	if len(sc.coll) > 0 && r.chance(1, 2) {
		return c01AimAt(r, pick(r, sc.coll))
	}
	if r.chance(1, 6) {
		return hostnameRequest(genDNSRequest(r, sc.texts))
	}
	if len(sc.long) > 0 && r.chance(1, 2) {
		return c01AimAtLong(r, sc, pick(r, sc.long))
	}
	f := pick(r, sc.nets)
	var u string
	switch r.n(5) {
	case 0, 1:
		t := f.RuleText
		if i := strings.LastIndex(t, "$"); i > 0 {
			t = t[:i]
		}
		u = urlAround(r, t)
	case 2:
		if cs := c01WindowCollisions(); len(cs) > 0 && r.chance(1, 3) {
			p := pick(r, cs)
			u = "http://" + pick(r, poolDomains) + "/" + p[r.n(2)] + pick(r, []string{"", "/", p[r.n(2)]})

			break
		}
		u = c01URL(r, sc)
	default:
		u = c01URL(r, sc)
	}
	if r.chance(1, 12) {
		// a LONG URL (log-scale filler after the host, up to beyond the 4 KiB cap): the windows that index the rules
		// lie far from the start of the URL
		u = nLongURL(r, u, nPadLen(r))
	}
	q := rules.NewRequest(u, c01Source(r, f), pick(r, poolReqTypes))
	if r.chance(1, 6) {
		q.SortedClientTags = genSortedTags(r)
		q.ClientName = pick(r, append([]string{""}, poolClientNames...))
		q.ClientIP = genClientIP(r)
		q.DNSType = pick(r, poolDNSQTypes)
	}

	return q
}

func bSortedTextSet(ts []string) string {
	seen := map[string]bool{}
	var u []string
	for _, t := range ts {
		if !seen[t] {
			seen[t] = true
			u = append(u, t)
		}
	}
	sort.Strings(u)
	items := make([]string, len(u))
	for i, t := range u {
		items[i] = wb(t)
	}

	return "(" + strings.Join(items, ",") + ")"
}

func c01Gen(r *rng, n int, w *bufio.Writer) {
	bReseed(r)
	for i := 0; i < n; {
		sc := c01BuildScenario(r)
		if len(sc.nets) == 0 {
			continue
		}
		for j := 0; j < 6 && i < n; j, i = j+1, i+1 {
			q := c01Request(r, sc)
			ans := guardStr(func() string { return bSortedTextSet(texts(sc.engine.MatchAll(q))) })
			var pats []string
			for _, f := range sc.nets {
				if p := wpat(f, q.URL, q.Hostname); p != "" && !nSeenPat(&pats, p) {
					pats = append(pats, p)
				}
			}
			fmt.Fprintf(w, "c01.matchall %s %s %s %s (%s) = %s ## url=%q src=%q type=%d host=%v lists: %s\n",
				sc.rulesW, wrequest(q), wpsl(q.Hostname, q.SourceHostname), waddrs(q.Hostname),
				strings.Join(pats, " "), ans, q.URL, q.SourceURL, q.RequestType, q.IsHostnameRequest, sc.note)
		}
	}
}

// op `c01.hash`: filterutil.FastHash / FastHashBetween vs the model (the lookup
// answers do not depend on the hash values, so the hash model needs its own tie).
//
//	c01.hash x<s> i j = <FastHash(s)>:<FastHashBetween(s,i,j) | PANIC>
func init() { gens["c01.hash"] = c01HashGen }

func c01HashGen(r *rng, n int, w *bufio.Writer) {
	bReseed(r)
	for k := 0; k < n; k++ {
		var s string
		switch r.n(4) {
		case 0:
			s = pick(r, []string{"", "a", "ab", "/banner", "example.org", "\x00\xff\x80", "bücher.example", "ü", "büche", "\xbccher", "пример.рф", "日本語.jp",
				"http://bücher.example/реклама?ü=1", "\u0130", "a\u212a", "\U0001F600.example"})
		case 1:
			b := make([]byte, nCount(r, r.n(40), 8, 40, 6000)) // 1 string in 8: log-scale length up to 6000 bytes
			for i := range b {
				b[i] = byte(r.n(256))
			}
			s = string(b)
		default:
			s = genURL(r, nil)
		}
		i, j := r.n(len(s)+2), r.n(len(s)+3)
		if r.chance(2, 3) && len(s) >= lookup.VerifShortcutLength {
			i = r.n(len(s) - lookup.VerifShortcutLength + 1)
			j = i + lookup.VerifShortcutLength
		}
		hb := guardStr(func() string { return fmt.Sprint(filterutil.FastHashBetween(s, i, j)) })
		fmt.Fprintf(w, "c01.hash %s %d %d = %d:%s ## %q[%d:%d]\n", wb(s), i, j, filterutil.FastHash(s), hb, s, i, j)
	}
}

package main

// Family `c20html.big` (group N2, C20): the ops of c20html (`c20.html`, same model and reference in the Lean driver:
// out = body[:i] ++ tag ++ body[i:], ContentLength = len(out), no Content-Encoding, CSP headers dropped iff injected) on
// BIG bodies: 20 KB … 1.2 MiB, two thirds of them just above 64 KiB / 256 KiB / 1 MiB, plain and gzip-compressed, with the
// marker inside the 16 KiB window (early, in the middle, at its very end, after a run of high bytes), beyond it, or
// absent; the rest of the body is text, arbitrary bytes, high bytes or further markers.  Every byte of the output is
// compared.  (A separate file: op_c20.go is being extended by another group.)

import (
	"bufio"
	"bytes"
	"compress/gzip"
	"fmt"
	"net/http"

	"github.com/AdguardTeam/urlfilter/proxy"
)

func init() { gens["c20html.big"] = genC20HtmlBig }

func n2C20Fill(r *rng, n int) []byte {
	b := make([]byte, n)
	mode := r.n(5)
	var x uint64
	for i := range b {
		if i%8 == 0 {
			x = r.u64()
		}
		c := byte(x >> (8 * uint(i%8)))
		switch mode {
		case 0: // all byte values
		case 1: // high bytes only
			c |= 0x80
		case 2: // text
			c = "abcdefghijklmnopqrstuvwxyz (>/=\"\n\t!-HTMLDOCTYPE bodydivspan&;"[int(c)%60]
		case 3: // a repetitive page (compresses well)
			c = "<div class=\"row\"><span>item</span></div>\n"[i%41]
		default:
			if c&1 == 0 {
				c |= 0x80
			} else {
				c = 0x20 + c%0x5f
			}
		}
		// no accidental markers: break (almost) every '<' that could start one
		if c == '<' && mode != 3 {
			c = '('
		}
		b[i] = c
	}

	return b
}

func n2C20Gzip(b []byte, level int) []byte {
	var buf bytes.Buffer
	zw, err := gzip.NewWriterLevel(&buf, level)
	if err != nil {
		panic(err)
	}
	_, _ = zw.Write(b)
	_ = zw.Close()

	return buf.Bytes()
}

func genC20HtmlBig(r *rng, n int, w *bufio.Writer) {
	r = eReseed(r)
	window := proxy.VerifHeadBufferSize
	// the eight marker placements in a shuffled cycle, gzip on every other op (shifted by one after each cycle): a quick
	// run of ten ops has every placement and five compressed bodies, whatever the seed
	kinds := []int{0, 1, 2, 3, 4, 5, 6, 7}
	shuffle(r, kinds)
	g0 := r.n(2)
	for i := 0; i < n; i++ {
		size := n2Above(r, 65536, 1200000)
		if i%3 == 0 {
			size = n2LogSize(r, 20000, 1200000)
		}
		if size <= 65536 && r.chance(2, 3) {
			size += 1 + r.n(4096)
		}
		m := randCase(r, pick(r, c20Markers))
		var pos int
		var note string
		switch kinds[i%8] {
		case 0:
			pos, note = -1, "no marker"
		case 1:
			pos, note = window+1+r.n(size-window-20), "marker beyond the window only"
		case 2:
			pos, note = window-len(m)-1+r.n(3), "marker at the end of the window"
		case 3:
			pos, note = window/2+r.n(200), "marker after a run of high bytes"
		case 4:
			pos, note = 0, "marker at byte 0"
		default:
			pos, note = r.n(window-16), "marker inside the window"
		}
		var body []byte
		if pos < 0 {
			body = n2C20Fill(r, size)
			if body[0] == '<' {
				body[0] = 'x'
			}
			for j := 0; j+1 < len(body) && j < window+8; j++ {
				if body[j] == '<' {
					body[j] = '('
				}
			}
		} else {
			head := n2C20Fill(r, pos)
			if note == "marker after a run of high bytes" {
				for j := range head {
					head[j] |= 0x80
				}
			}
			for j := range head {
				if head[j] == '<' {
					head[j] = '('
				}
			}
			body = append(head, []byte(m+">")...)
			if rest := size - len(body); rest > 0 {
				tail := n2C20Fill(r, rest)
				if r.chance(1, 2) {
					// further markers later in the body (only the first one counts)
					for k := 1 + r.n(4); k > 0; k-- {
						at := r.n(len(tail))
						copy(tail[at:], randCase(r, pick(r, c20Markers)))
					}
				}
				body = append(body, tail...)
			}
		}
		useGz := (i+i/8+g0)%2 == 0
		host := pick(r, []string{"example.org", "a.b.example.com", "localhost"})
		h := http.Header{}
		h.Set("Content-Type", "text/html")
		h.Set("Content-Security-Policy", "default-src 'self'")
		h.Set("Content-Security-Policy-Report-Only", "default-src 'self'")
		in := body
		if useGz {
			in = n2C20Gzip(body, pick(r, []int{gzip.BestSpeed, gzip.DefaultCompression, gzip.NoCompression, gzip.HuffmanOnly}))
			h.Set("Content-Encoding", "gzip")
		}
		var tag string
		ans := guardStr(func() string {
			out, oh, cl, t, err := proxy.VerifFilterHTML(in, h, host)
			tag = t
			if err != nil {
				return "err"
			}
			_, ce := oh["Content-Encoding"]
			_, c1 := oh["Content-Security-Policy"]
			_, c2 := oh["Content-Security-Policy-Report-Only"]
			csp := wbool(c1)
			if c1 != c2 {
				csp = "MIXED"
			}

			return fmt.Sprintf("%s|%d|%s|%s", wb(string(out)), cl, wbool(ce), csp)
		})
		fmt.Fprintf(w, "c20.html %s %s %s = %s ## BIG body len=%d gzip=%v (%d bytes on the wire) %s %q at %d\n", wb(string(body)), wbool(useGz), wb(tag), ans,
			len(body), useGz, len(in), note, m, pos)
	}
}

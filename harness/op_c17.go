package main

// Op family `c17` (C17): request fields vs net/url and the Public Suffix List.
//
//   c17.req <url> <src> <type> <psl table> = <Q record>        rules.NewRequest
//   c17.hostreq <hostname> <psl table>     = <Q record>        rules.NewRequestForHostname
//   c17.etld <hostname> <psl table>        = x<domain>         effectiveTLDPlusOne
//   assert c17.<law> <args> = T|F                              Go-side reference columns:
//        hostname == net/url's, domain == publicsuffix.EffectiveTLDPlusOne (or the host when it
//        errors), third-party symmetric, lower-casing of the capped URL -- on the well-formed URL
//        grammar of the property (fragment directly after the host excluded, hosts lower-case).
//
// Hostnames are drawn from the PSL's own rule shapes: multi-level suffixes, wildcard and exception
// rules, private suffixes, single labels, unknown TLDs, IPv4 literals.

import (
	"bufio"
	"fmt"
	"net/url"
	"strings"

	"github.com/AdguardTeam/urlfilter/rules"
	"golang.org/x/net/publicsuffix"
)

func init() { gens["c17"] = genC17 }

var (
	c17Suffixes = []string{"com", "org", "co.uk", "uk", "kawasaki.jp", "city.kawasaki.jp", "bar.kawasaki.jp", "jp", "ck", "www.ck", "foo.ck",
		"blogspot.com", "github.io", "s3.amazonaws.com", "compute.amazonaws.com", "unknowntld", "de", "com.au", "pvt.k12.ma.us", "xn--p1ai",
		"gov.uk", "ac.jp", "tokyo.jp", "metro.tokyo.jp", "appspot.com", "local", "a.b.unknowntld", "mm", "c.mm", "nom.br", "x.nom.br"}
	c17Labels  = []string{"example", "www", "a", "b", "sub", "x-y", "cdn1", "ads", "xn--80ak6aa92e", "0", "example2"}
	c17IPs     = []string{"1.2.3.4", "127.0.0.1", "10.0.0.5", "0.0.0.0", "255.255.255.255"}
	c17Schemes = []string{"http", "https", "ws", "wss", "ftp", "h2+x.y-z", "a"}
	c17Ports   = []string{"80", "8080", "443", "0", "65535", ""}
	c17Paths   = []string{"/", "/a/b.js", "/a//b", "/x:y/z", "/?q=1", "/p?u=http://other.com/x", "/@user", "/a#frag", "/ADS/Banner.PNG", "/a%20b",
		"/a?b#c", "/x;y=z", "/~u/", "/a:80/"}
	c17Queries = []string{"?", "?q=1", "?u=http://other.example/", "?a:b", "?x#y", "?A=B&C=D", "?//x"}
	c17Odd     = []string{"", ":", "a:b", "stun:example.org", "stun:example.org:3478", "mailto:user@example.org", "//example.org/x", "example.org/x",
		"http:/example.org", "http:///path", "http://", "http://example.org#frag", "http://user:pw@example.org/", "http://user@example.org",
		"http://[::1]:80/", "http://[2001:db8::1]/x", "HTTP://EXAMPLE.ORG/Path", "http://Example.Co.UK/", "://example.org", ":example.org",
		"x", "//", "///", "a//b.example.org/c", "http://example.org.", "http://.example.org/", "http://a..b.example.org/", "data:text/html,<a>//x",
		"about:blank", "blob:https://example.org/uuid", "view-source:http://example.org/", "http://example.org:", "http://:80/", "http://?q"}
)

func c17Host(r *rng) string {
	switch r.n(12) {
	case 0:
		return pick(r, c17IPs)
	case 1:
		// the suffix itself
		return pick(r, c17Suffixes)
	case 2:
		return pick(r, poolDomains)
	default:
		k := 1 + r.n(3)
		if r.chance(1, 10) {
			k = 4 + r.n(4)
		}
		parts := make([]string, k)
		for i := range parts {
			parts[i] = pick(r, c17Labels)
		}

		return strings.Join(parts, ".") + "." + pick(r, c17Suffixes)
	}
}

func c17URL(r *rng, host string) string {
	var sb strings.Builder
	sb.WriteString(pick(r, c17Schemes))
	sb.WriteString("://")
	sb.WriteString(host)
	if r.chance(1, 4) {
		sb.WriteString(":" + pick(r, c17Ports))
	}
	switch r.n(6) {
	case 0:
	case 1:
		sb.WriteString(pick(r, c17Queries))
	default:
		sb.WriteString(pick(r, c17Paths))
	}
	if r.chance(1, 25) {
		// beyond the 4 KiB cap
		sb.WriteString("/" + strings.Repeat(pick(r, []string{"a", "A", "aB/"}), 1400+r.n(1400)))
	}

	return sb.String()
}

// c17WellFormed builds a URL of the property's grammar.
func c17WellFormed(r *rng) (u, host string) {
	host = c17Host(r)

	return c17URL(r, host), host
}

func c17AnyURL(r *rng) (u string, wellFormed bool) {
	switch r.n(12) {
	case 0:
		return pick(r, c17Odd), false
	case 1:
		u, _ = c17WellFormed(r)

		return mutateBytes(r, u), false
	case 2:
		u, _ = c17WellFormed(r)

		return mutateCase(r, u), false
	case 3:
		if !r.chance(1, 2) {
			return pick(r, c17Odd), false
		}
		// host straddling the cap
		h := c17Host(r)

		return "http://" + strings.Repeat("a", 4096-7-r.n(12)) + "." + h + "/x", false
	case 5:
		if !r.chance(1, 2) {
			u, _ = c17WellFormed(r)

			return u, true
		}
		// longer than the cap, with letters whose lower-case form has another UTF-8 length before the cap and a
		// multi-byte rune straddling it: "lower-case of the capped URL" and "cap of the lower-cased URL" differ
		u, _ = c17WellFormed(r)
		special := []string{"\u212a", "\u0130", "\u023a", "\u212b", "\u00c4"}
		var sb strings.Builder
		sb.WriteString(u + "/")
		for sb.Len() < 4096+r.n(40) {
			if r.chance(1, 30) {
				sb.WriteString(pick(r, special))
			} else {
				sb.WriteByte("abcXYZ/-_0"[r.n(10)])
			}
		}
		sb.WriteString(pick(r, special) + "/adbanner")

		return sb.String(), false
	case 4:
		// host with empty labels (outside the hostname domain of the property)
		h := c17Host(r)

		return "https://" + pick(r, []string{"." + h, h + ".", "a.." + h}) + "/", false
	default:
		u, _ = c17WellFormed(r)

		return u, true
	}
}

func refDomainGo(host string) string {
	d, err := publicsuffix.EffectiveTLDPlusOne(host)
	if err != nil {
		return host
	}

	return d
}

func capStr(s string) string {
	if len(s) > rules.VerifMaxURLLength {
		return s[:rules.VerifMaxURLLength]
	}

	return s
}

func genC17(r *rng, n int, w *bufio.Writer) {
	for i := 0; i < n; i++ {
		u, wf := c17AnyURL(r)
		var src string
		swf := true
		switch r.n(5) {
		case 0:
			src = ""
		case 1:
			// same registrable domain, other subdomain
			if q := rules.NewRequest(u, "", rules.TypeOther); q.Domain != "" && !strings.ContainsAny(q.Domain, "/:?#@") {
				src = "https://" + pick(r, []string{"", "www.", "m.x."}) + q.Domain + pick(r, c17Paths)
			} else {
				src, swf = c17AnyURL(r)
			}
		default:
			src, swf = c17AnyURL(r)
		}
		ty := pick(r, poolReqTypes)
		var q *rules.Request
		ans := guardStr(func() string {
			q = rules.NewRequest(u, src, ty)

			return tok(wrequest(q))
		})
		hosts := []string{""}
		if q != nil {
			hosts = append(hosts, q.Hostname, q.SourceHostname)
		}
		for _, x := range []string{capStr(u), capStr(src)} {
			if pu, err := url.Parse(x); err == nil {
				hosts = append(hosts, pu.Hostname())
			}
			// the grammar's own reading: between "://" and the next of "/:?"
			if k := strings.Index(x, "://"); k >= 0 {
				rest := x[k+3:]
				if j := strings.IndexAny(rest, "/:?"); j >= 0 {
					rest = rest[:j]
				}
				hosts = append(hosts, rest)
			}
		}
		fmt.Fprintf(w, "c17.req %s %s %d %s = %s ## %q %q\n", wb(u), wb(src), uint32(ty), wpsl(hosts...), ans, clip(u), clip(src))
		if q == nil {
			continue
		}
		// Go-side reference columns on the well-formed grammar
		if wf {
			pu, err := url.Parse(capStr(u))
			ok := err == nil && pu.Hostname() == q.Hostname
			fmt.Fprintf(w, "assert c17.hostname-neturl %s = %s ## %q: url.Parse gives %q, request has %q\n", wb(clip(u)), wbool(ok), clip(u), hostOf(pu), q.Hostname)
			ok = q.Domain == refDomainGo(q.Hostname)
			fmt.Fprintf(w, "assert c17.domain-psl %s = %s ## %q: publicsuffix gives %q, request has %q\n", wb(clip(q.Hostname)), wbool(ok), q.Hostname, refDomainGo(q.Hostname), q.Domain)
		}
		{
			// for EVERY url: the lower-cased URL is the lower-casing of the capped URL
			ok := q.URLLowerCase == strings.ToLower(capStr(u)) && q.URL == capStr(u)
			fmt.Fprintf(w, "assert c17.lower-capped %s = %s ## %q\n", wb(clip(u)), wbool(ok), clip(u))
		}
		if wf && swf && src != "" {
			back := rules.NewRequest(src, u, ty)
			ok := back.ThirdParty == q.ThirdParty && q.ThirdParty == (q.SourceDomain != q.Domain)
			fmt.Fprintf(w, "assert c17.third-party-symm %s %s = %s ## %q %q\n", wb(clip(u)), wb(clip(src)), wbool(ok), clip(u), clip(src))
		}
		if r.chance(1, 3) {
			h := c17Host(r)
			switch r.n(8) {
			case 0:
				h = pick(r, []string{"", ".", "a.", ".a", "a..b", "..", "com.", ".com", "localhost", "a"})
			case 1:
				h = mutateBytes(r, h)
			}
			var hq *rules.Request
			ans := guardStr(func() string {
				hq = rules.NewRequestForHostname(h)

				return tok(wrequest(hq))
			})
			fmt.Fprintf(w, "c17.hostreq %s %s = %s ## %q\n", wb(h), wpsl(h), ans, h)
			ans = guardStr(func() string { return wb(rules.VerifEffectiveTLDPlusOne(h)) })
			fmt.Fprintf(w, "c17.etld %s %s = %s ## %q\n", wb(h), wpsl(h), ans, h)
			if hq != nil && !strings.Contains("."+h+".", "..") {
				ok := hq.Domain == refDomainGo(h)
				fmt.Fprintf(w, "assert c17.hostreq-domain-psl %s = %s ## %q: publicsuffix gives %q, request has %q\n", wb(h), wbool(ok), h, refDomainGo(h), hq.Domain)
			}
		}
	}
}

func hostOf(u *url.URL) string {
	if u == nil {
		return "<parse error>"
	}

	return u.Hostname()
}

func clip(s string) string {
	if len(s) > 120 {
		return s[:100] + fmt.Sprintf("…(%d bytes)", len(s))
	}

	return s
}

package main

// op family `c04.units` (C04/C12): the text-level helpers one by one.
//   c04.domainname <name>                 = T|F        filterutil.IsDomainName (state machine)
//   c04.split <str> <sep> <esc> <T|F>     = (parts…)   splitWithEscapeCharacter
//   c04.ruletext <text>                   = err|(pattern,options,whitelist)   parseRuleText
//   c04.shortcut <pattern>                = <shortcut> findShortcut

import (
	"bufio"
	"fmt"
	"strings"

	"github.com/AdguardTeam/urlfilter/filterutil"
	"github.com/AdguardTeam/urlfilter/rules"
)

func init() { gens["c04.units"] = genC04Units }

func eGenLabel(r *rng) string {
	switch r.n(12) {
	case 0:
		return pick(r, []string{"xn--", "xn--a", "xn--abcd", "xn--wwww", "xN--abcd", "Xn--abcde", "xn-a", "xn---", "x", "xn", "xnn--abcd", "xn--ab-d"})
	case 1:
		return strings.Repeat(pick(r, []string{"a", "9", "x"}), pick(r, []int{62, 63, 64}))
	case 2:
		return pick(r, []string{"-a", "a-", "-", "a-b", "a--b", "1", "12", "1a", "a1", ""})
	case 3:
		return pick(r, []string{"com", "org", "co", "c", "uk", "COM", "c0m", "123"})
	default:
		n := 1 + r.n(8)
		b := make([]byte, n)
		for i := range b {
			b[i] = pick(r, []byte("abcxyzABX019-n"))
		}

		return string(b)
	}
}

func eGenDomainName(r *rng) string {
	n := 1 + r.n(4)
	labels := make([]string, n)
	for i := range labels {
		labels[i] = eGenLabel(r)
	}
	s := strings.Join(labels, ".")
	switch r.n(12) {
	case 0:
		// around the 253 limit
		for len(s) < 240 {
			s = "abcdefghi." + s
		}
		if k := pick(r, []int{252, 253, 254}) - len(s); k > 0 {
			s = strings.Repeat("a", k) + s
		}
	case 1:
		s = eMutate(r, s)
	case 2:
		s += "."
	}

	return s
}

func genC04Units(r *rng, n int, w *bufio.Writer) {
	r = eReseed(r)
	for i := 0; i < n; i++ {
		switch r.n(4) {
		case 0:
			s := eGenDomainName(r)
			ans := guardStr(func() string { return wbool(filterutil.IsDomainName(s)) })
			fmt.Fprintf(w, "c04.domainname %s = %s ## %s\n", wb(s), ans, noteStr(s))
		case 1:
			var s string
			switch r.n(3) {
			case 0:
				s = eGenClientValue(r)
			case 1:
				s = strings.Join(eGenModifiers(r, r.chance(1, 2)), ",")
			default:
				s = eMutate(r, pick(r, []string{`a\,b,c`, `\\,`, `a\`, `,,a,,`, `\|`, `a\\b|c`, `x\y,z`, `é\,ü,日本`, "", `,`, `\`}))
			}
			sep, esc := pick(r, []byte(",|")), pick(r, []byte("\\\\\\~"))
			pres := r.chance(1, 3)
			ans := guardStr(func() string {
				return strings.ReplaceAll(wstrs(rules.VerifSplitWithEscapeCharacter(s, sep, esc, pres)), " ", ",")
			})
			fmt.Fprintf(w, "c04.split %s %d %d %s = %s ## %s\n", wb(s), sep, esc, wbool(pres), ans, noteStr(s))
		case 2:
			s := eGenParseText(r)
			ans := guardStr(func() string {
				p, o, wl, err := rules.VerifParseRuleText(s)
				if err != nil {
					return "err"
				}

				return "(" + wb(p) + "," + wb(o) + "," + wbool(wl) + ")"
			})
			fmt.Fprintf(w, "c04.ruletext %s = %s ## %s\n", wb(s), ans, noteStr(s))
		default:
			s := genPattern(r)
			if r.chance(1, 2) {
				s = eMutate(r, s)
			}
			ans := guardStr(func() string { return wb(rules.VerifFindShortcut(s)) })
			fmt.Fprintf(w, "c04.shortcut %s = %s ## %s\n", wb(s), ans, noteStr(s))
		}
	}
}

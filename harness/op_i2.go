package main

// Ops of integration group I2: the models composed, no Go-supplied pattern oracle.
//   i2.pat <stored pattern> <matchCase> <target> = T|F
//        Go: the rule's own preparePattern (VerifPrepared) + MatchString; Lean: modelPat
//        (group A's regexPat for /regex/ rules, group G's compiledAccepts otherwise).
//   i2.match <R> <Q> <psl> <addrs> = T|F
//        like the core op `match` but WITHOUT the pattern table: the driver evaluates the whole
//        of NetworkRule.Match in the model.

import (
	"bufio"
	"fmt"
	"regexp/syntax"
	"strings"

	"github.com/AdguardTeam/urlfilter/rules"
)

func init() {
	gens["i2.pat"] = genI2Pat
	gens["i2.match"] = genI2Match
}

// i2PatAnswer is what matchPattern answers for target.
func i2PatAnswer(f *rules.NetworkRule, target string) string {
	return guardStr(func() string {
		re, status := f.VerifPrepared()
		switch status {
		case 0:
			return "T"
		case -1:
			return "F"
		}

		return wbool(re.MatchString(target))
	})
}

func i2IsRegexRule(f *rules.NetworkRule) bool { return f.IsRegexRule() }

// i2RegexTargets derives targets from Go's own parse tree of the compiled text.
func i2RegexTargets(r *rng, f *rules.NetworkRule, k int) []string {
	tree, err := syntax.Parse(ruleRegexText(f), syntax.Perl)
	if err != nil {
		return []string{"", "http://example.org/", "x"}
	}
	var out []string
	subs := reSubjects(r, tree, k, 6+r.n(60))
	if inner := ruleInner(f); quirkTwoCase(inner) {
		// group P3: subjects that tell Go's reading of the expression from the textbook one
		if qs := quirkSubjects(r, inner, 2); len(qs) > 0 {
			for i := range subs {
				if r.chance(2, 3) {
					subs[i] = pick(r, qs)
				}
			}
		}
	}
	for _, s := range subs {
		switch r.n(4) {
		case 0:
			s = pick(r, poolSchemes) + "://" + pick(r, poolDomains) + "/" + s
		case 1:
			s = "http://example.org/" + s + "?x=1"
		}
		out = append(out, s)
	}

	return out
}

// i2MaskRule builds a mask rule around pattern p (nil if the text does not carry p).
func i2MaskRule(p string, mc bool) (f *rules.NetworkRule, text string) {
	text = p + "$domain=example.org"
	if mc {
		text += ",match-case"
	}
	pp, _, wl, err := rules.VerifParseRuleText(text)
	if err != nil || wl || pp != p {
		return nil, text
	}
	f, err = guardRule(text, 1)
	if err != nil {
		return nil, text
	}

	return f, text
}

func i2Spoil(r *rng, s string) string {
	b := []byte(s)
	i := r.n(len(b) + 1)
	ins := pick(r, []string{"\n", "\xc3\xa9", "\xe2\x84\xaa", "\xff", "\x00", "\x7f", "\r", "\xc5\xbf"})

	return string(b[:i]) + ins + string(b[i:])
}

func genI2Pat(r *rng, n int, w *bufio.Writer) {
	r = remix(r)
	emit := func(f *rules.NetworkRule, u string) {
		stored := f.VerifRaw().Pattern
		mc := f.IsOptionEnabled(rules.OptionMatchCase)
		// a fresh rule: the first-Match path (compile under the lock) is the one observed
		g, err := guardRule(f.RuleText, 1)
		if err != nil || g == nil {
			g = f
		}
		fmt.Fprintf(w, "i2.pat %s %s %s = %s ## %s on %s\n", wb(stored), wbool(mc), wb(u), i2PatAnswer(g, u),
			noteStr(f.RuleText), noteStr(u))
	}
	rounds := 0
	for i := 0; i < n; {
		var f *rules.NetworkRule
		var targets []string
		switch k := r.n(16); {
		case k < 3:
			// every regex rule of the bundled lists in turn, then sampled
			rs := bundledRegexRules()
			if len(rs) == 0 {
				continue
			}
			f = rs[rounds%len(rs)]
			rounds++
			targets = i2RegexTargets(r, f, 2+r.n(2))
		case k < 5:
			f = genRegexRule(r)
			targets = i2RegexTargets(r, f, 2+r.n(3))
		case k < 6:
			f = genQuirkRule(r)
			targets = i2RegexTargets(r, f, 2+r.n(3))
		case k < 11:
			// mask patterns of group G's generator, subjects derived from the stored pattern
			f, _ = i2MaskRule(c03AccPattern(r), r.chance(1, 3))
			if f == nil || f.IsRegexRule() {
				continue
			}
			stored := f.VerifRaw().Pattern
			for j, m := 0, 2+r.n(3); j < m; j++ {
				switch r.n(6) {
				case 0:
					targets = append(targets, c03RandPrintable(r, 12))
				case 1, 2:
					targets = append(targets, c03Subject(r, stored, 0))
				case 3, 4:
					targets = append(targets, c03Subject(r, stored, 1+r.n(2)))
				default:
					targets = append(targets, c03Subject(r, stored, 4))
				}
			}
		case k < 14:
			// rules of the modifier grammar (mask and regex patterns), URL and hostname targets
			var t string
			f, t = genValidNetRule(r, r.chance(1, 3))
			q := genRequest(r, []string{t})
			targets = []string{q.URL, q.Hostname}
		default:
			// real-list network rules
			l := eRealNetLine(r)
			g, err := guardRule(l, 1)
			if err != nil || g == nil {
				continue
			}
			f = g
			q := genRequest(r, []string{l})
			targets = []string{q.URL, q.Hostname, urlAround(r, l)}
		}
		for _, u := range targets {
			if i >= n {
				break
			}
			if r.chance(1, 40) {
				u = i2Spoil(r, u) // outside the domain (non-ASCII, LF): the driver must say ood or agree
			}
			emit(f, u)
			i++
		}
	}
}

func genI2Match(r *rng, n int, w *bufio.Writer) {
	r = remix(r)
	for i := 0; i < n; i++ {
		var f *rules.NetworkRule
		var t string
		var q *rules.Request
		switch k := r.n(10); {
		case k < 2:
			// regex rules: bundled or generated, request sampled from the parse tree
			f = pickRegexRule(r)
			if r.chance(1, 3) {
				f = genQuirkRule(r)
			}
			t = f.RuleText
			u := pick(r, i2RegexTargets(r, f, 1))
			if !strings.Contains(u, "://") && r.chance(2, 3) {
				u = pick(r, poolSchemes) + "://" + pick(r, poolDomains) + "/" + u
			}
			if r.chance(1, 4) {
				q = genRequest(r, []string{t})
			} else {
				q = rules.NewRequest(u, genSourceURL(r), pick(r, poolReqTypes))
			}
		case k < 5:
			f, t = eGenValidNetRule(r)
			q = eAimedRequest(r, f, t)
			if r.chance(1, 2) {
				for j := 0; j < 12 && guardStr(func() string { return wbool(f.Match(q)) }) != "T"; j++ {
					q = eAimedRequest(r, f, t)
				}
			}
		case k < 6:
			l := eRealNetLine(r)
			g, err := guardRule(l, 1+r.n(3))
			if err != nil || g == nil {
				f, t = genValidNetRule(r, false)
			} else {
				f, t = g, l
			}
			q = genRequest(r, []string{t})
		default:
			f, t = genValidNetRule(r, r.chance(1, 3))
			q = genRequest(r, []string{t})
		}
		ans := guardStr(func() string { return wbool(f.Match(q)) })
		fmt.Fprintf(w, "i2.match %s %s %s %s = %s ## %s | %s src=%s host=%s hostreq=%v type=%d\n", wnetrule(f), wrequest(q),
			wpsl(q.Hostname, q.SourceHostname), waddrs(q.Hostname), ans,
			noteStr(t), noteStr(q.URL), noteStr(q.SourceHostname), noteStr(q.Hostname), q.IsHostnameRequest, q.RequestType)
	}
}

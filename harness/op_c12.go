package main

// ops of C12 (parsing and matching never crash; comments and rejected lines are inert):
//   c12.newrule <line> <listID> <trim table> <H|err> <addrs> <prefixes> <rewrites> <reshortcuts>
//        = none|err|<kind>:<text hex>:<listID>|PANIC          (model of rules.NewRule)
//   c12.crash : assert c12.crash <list hex> = T               (no panic in NewRule / Match / engines)
//   c12.inert : assert c12.inert <L hex> <L+noise hex> = T    (results(L) == results(L+N), CRLF)

import (
	"bufio"
	"fmt"
	"net/netip"
	"os"
	"path/filepath"
	"strings"

	"github.com/AdguardTeam/urlfilter"
	"github.com/AdguardTeam/urlfilter/filterlist"
	"github.com/AdguardTeam/urlfilter/rules"
)

func init() {
	gens["c12.newrule"] = genC12NewRule
	gens["c12.crash"] = genC12Crash
	gens["c12.inert"] = genC12Inert
}

var eCosmeticTexts = []string{
	"##.banner", "example.org##.banner", "example.org,~sub.example.org##.ad", "example.org#@#.banner", "#@#.banner",
	"example.*##.x", "~example.org##.y", "example.org#$#body { }", "example.org#?#.x:has(a)", "example.org#%#alert(1)",
	"example.org$$script[data-src]", "example.org$@$script", "example.org#@$?#x", "example.org##", "example.org## ", "bad domain##.x",
	",##.x", "example.org,##.x", "a.com,b.com##.ads > div", "example.org #@#.x", "0.0.0.0 example.org ## note",
	"0.0.0.0 example.org\t## note", "0.0.0.0 example.org## note", "example.org##.a##.b", "$$", "#", "##", "#@", "#$", "a#", "a$", "$@$x", "x$@", "#@$?", "#@$?#",
}

var eHostTexts = []string{
	"0.0.0.0 example.org", "127.0.0.1 localhost localhost.localdomain", "::1 ip6-localhost # comment", "example.org", "0.0.0.0 example.org#note",
	"0.0.0.0\texample.org", "  0.0.0.0   a.com   b.com  ", "1.2.3.4", "1.2.3.999 a.com", "fe80::1%eth0 a.com", "a.com b.com", "example.org # c", "xn--e1afmkfd.xn--p1ai",
}

var eCommentTexts = []string{"", " ", "\t", "! comment", "# comment", "#", "!", "#comment ## x", "! ||example.org^", "# 0.0.0.0 a.com", " ", "\u3000!x", " \r", "\ufeff! bom"}

func eGenLine(r *rng) string {
	var l string
	switch r.n(17) {
	case 16:
		// N2: a LONG line (comment, valid rule with a long literal run / many tokens / a long list, rejected line, cosmetic,
		// hosts): 64 bytes … 9 KiB (comments: 70 KB, lists: 2.6 KB), half of the time just above 255 / 256 / 300 / 1024 / 4096 / 8192 … bytes
		l = n2GenLongLine(r, "")
	case 0, 1, 2, 3:
		l = eGenParseText(r)
	case 4, 5:
		l = pick(r, eCosmeticTexts)
	case 6:
		l = eMutate(r, pick(r, eCosmeticTexts))
	case 7, 8:
		l = pick(r, eHostTexts)
	case 9:
		l = eMutate(r, pick(r, eHostTexts))
	case 10:
		l = pick(r, eCommentTexts)
	case 11, 12, 13:
		l = pick(r, eTestdataLines())
	default:
		l = eMutate(r, pick(r, eTestdataLines()))
	}
	if r.chance(1, 6) {
		l = pick(r, []string{" ", "\t", "  ", " ", "\r", "\x00"}) + l
	}
	if r.chance(1, 6) {
		l += pick(r, []string{" ", "\t", "\r", "\r\n", " \t ", " ", "\xa0"})
	}

	return l
}

func wtrims(ss ...string) string {
	seen := map[string]bool{}
	var items []string
	for _, s := range ss {
		if seen[s] {
			continue
		}
		seen[s] = true
		items = append(items, wlist(wb(s), wb(strings.TrimSpace(s))))
	}

	return wlist(items...)
}

func c12RuleKind(r rules.Rule) string {
	switch r.(type) {
	case *rules.NetworkRule:
		return "net"
	case *rules.HostRule:
		return "host"
	case *rules.CosmeticRule:
		return "cos"
	default:
		return "unknown"
	}
}

func genC12NewRule(r *rng, n int, w *bufio.Writer) {
	r = eReseed(r)
	for i := 0; i < n; i++ {
		line := eGenLine(r)
		id := eListID(r)
		ans := guardStr(func() string {
			rule, err := rules.NewRule(line, id)
			switch {
			case err != nil:
				return "err"
			case rule == nil:
				return "none"
			default:
				return fmt.Sprintf("%s:%s:%d", c12RuleKind(rule), wb(rule.Text()), rule.GetFilterListID())
			}
		})
		trimmed := strings.TrimSpace(line)
		trims := []string{line, trimmed}
		guardStr(func() string {
			if idx, m := rules.VerifFindCosmeticRuleMarker(trimmed); idx != -1 {
				trims = append(trims, trimmed[idx+len(m):])
			}

			return ""
		})
		host := guardStr(func() string {
			h, err := rules.NewHostRule(trimmed, id)
			if err != nil {
				return "err"
			}

			return whostrule(h)
		})
		addrs, tables := eParseOracles(trimmed)
		fmt.Fprintf(w, "c12.newrule %s %d %s %s %s %s = %s ## %s\n", wb(line), id, wtrims(trims...), host,
			waddrs(addrs...), tables, ans, noteStr(line))
	}
}

// eBatch builds the batch of requests for a list: web requests and DNS requests around its rules.
func eBatch(r *rng, lines []string, n int) (web []*rules.Request, dns []*urlfilter.DNSRequest, hosts []string) {
	var texts []string
	for _, l := range lines {
		if f, err := guardRule(strings.TrimSpace(l), 1); err == nil && f != nil {
			texts = append(texts, strings.TrimSpace(l))
		}
	}
	for i := 0; i < n; i++ {
		web = append(web, genWebRequest(r, texts))
		dns = append(dns, genDNSRequest(r, texts))
		hosts = append(hosts, genHostname(r, texts))
	}

	return web, dns, hosts
}

func ruleID(f rules.Rule) string {
	if f == nil {
		return "-"
	}

	return fmt.Sprintf("%d:%q", f.GetFilterListID(), f.Text())
}

func netIDs(fs []*rules.NetworkRule) string {
	var sb strings.Builder
	for _, f := range fs {
		sb.WriteString(ruleID(f) + ";")
	}

	return sb.String()
}

// eResults runs the real engines built from content on the batch and renders every result.
// eListHook, when set, builds the in-memory list of eResultsOn.
var eListHook func(content string) filterlist.RuleList

func eResults(content string, web []*rules.Request, dns []*urlfilter.DNSRequest, hosts []string) (out []string) {
	return eResultsOn("", content, web, dns, hosts)
}

// eResultsOn: with a non-empty path the list is FILE-backed (the content is written to path first).
func eResultsOn(path, content string, web []*rules.Request, dns []*urlfilter.DNSRequest, hosts []string) (out []string) {
	if path != "" {
		if err := os.WriteFile(path, []byte(content), 0o600); err != nil {
			panic(err)
		}
	}
	var opened []*filterlist.RuleStorage
	defer func() {
		for _, s := range opened {
			_ = s.Close()
		}
	}()
	mk := func() *filterlist.RuleStorage {
		var l filterlist.RuleList = &filterlist.StringRuleList{ID: 1, RulesText: content}
		if path == "" && eListHook != nil {
			// family c12.inertchunk (op_m4_readers.go): the same content served by a reader with short reads
			l = eListHook(content)
		}
		if path != "" {
			fl, err := filterlist.NewFileRuleList(1, path, false)
			if err != nil {
				panic(err)
			}
			l = fl
		}
		s, err := filterlist.NewRuleStorage([]filterlist.RuleList{l})
		if err != nil {
			panic(err)
		}
		opened = append(opened, s)

		return s
	}
	de := urlfilter.NewDNSEngine(mk())
	en := urlfilter.NewEngine(mk())
	ne := urlfilter.NewNetworkEngine(mk())
	for _, q := range web {
		cp := *q
		res := en.MatchRequest(&cp)
		var basic rules.Rule
		if b := res.GetBasicResult(); b != nil {
			basic = b
		}
		doc, st := "-", "-"
		if res.DocumentRule != nil {
			doc = ruleID(res.DocumentRule)
		}
		if res.StealthRule != nil {
			st = ruleID(res.StealthRule)
		}
		cp2 := *q
		out = append(out, fmt.Sprintf("web %q: basic=%s doc=%s stealth=%s opt=%d all=%s", q.URL, ruleID(basic), doc, st,
			res.GetCosmeticOption(), netIDs(ne.MatchAll(&cp2))))
	}
	for _, d := range dns {
		cp := *d
		res, ok := de.MatchRequest(&cp)
		s := fmt.Sprintf("dns %q: %v net=%s all=%s v4=", d.Hostname, ok, ruleID(ruleOrNil(res.NetworkRule)), netIDs(res.NetworkRules))
		for _, h := range res.HostRulesV4 {
			s += ruleID(h) + ";"
		}
		s += " v6="
		for _, h := range res.HostRulesV6 {
			s += ruleID(h) + ";"
		}
		s += fmt.Sprintf(" rw=%d", len(res.DNSRewrites()))
		out = append(out, s)
	}
	for _, h := range hosts {
		out = append(out, fmt.Sprintf("cos %q: %v", h, en.GetCosmeticResult(h, rules.CosmeticOptionAll)))
	}

	return out
}

func ruleOrNil(f *rules.NetworkRule) rules.Rule {
	if f == nil {
		return nil
	}

	return f
}

func genC12Crash(r *rng, n int, w *bufio.Writer) {
	r = eReseed(r)
	for i := 0; i < n; i++ {
		nl := 3 + r.n(30)
		if r.chance(1, 12) {
			nl = n2Count(r, 1, nil, 33, 400) // N2: long lists (more than 40 / 64 / 256 / 300 lines)
		}
		lines := make([]string, nl)
		for j := range lines {
			lines[j] = eGenLine(r)
		}
		var aimed *urlfilter.DNSRequest
		if r.chance(1, 3) {
			// a rule, and a $badfilter rule that differs from it by one more list-valued modifier ($client,
			// $ctag, $dnstype, $denyallow, $domain) -- not twins, and comparing them must not crash -- with a
			// request that satisfies both
			h := pick(r, poolDomains)
			extra := pick(r, []string{"client=127.0.0.1", "client=~10.9.9.9", "client=laptop", "ctag=a", "dnstype=A", "denyallow=zz.example"})
			pair := []string{"||" + h + "^", "||" + h + "^$" + extra + ",badfilter"}
			if r.chance(1, 2) {
				pair[0], pair[1] = pair[1], pair[0]
			}
			at := r.n(len(lines) + 1)
			lines = append(lines[:at], append(pair, lines[at:]...)...)
			aimed = &urlfilter.DNSRequest{Hostname: h, DNSType: 1, ClientIP: netip.MustParseAddr("127.0.0.1"), ClientName: "laptop", SortedClientTags: []string{"a"}}
		}
		content := strings.Join(lines, pick(r, []string{"\n", "\n", "\r\n"}))
		if r.chance(1, 2) {
			content += "\n"
		}
		web, dns, hosts := eBatch(r, lines, 6)
		if aimed != nil {
			dns = append(dns, aimed)
			web = append(web, hostnameRequest(aimed))
		}
		where := ""
		ans := guardStr(func() string {
			// every line alone: NewRule, then Match / Match(hostname) of what it yields
			for _, l := range lines {
				where = "NewRule/Match " + noteStr(l)
				rule, err := rules.NewRule(l, 1)
				if err != nil || rule == nil {
					continue
				}
				switch f := rule.(type) {
				case *rules.NetworkRule:
					for _, q := range web {
						f.Match(q)
					}
					for _, d := range dns {
						f.Match(hostnameRequest(d))
					}
				case *rules.HostRule:
					for _, h := range hosts {
						f.Match(h)
					}
				case *rules.CosmeticRule:
					for _, h := range hosts {
						f.Match(h)
					}
				}
			}
			where = "engines"
			eResults(content, web, dns, hosts)

			return "T"
		})
		if ans == "T" {
			where = ""
		}
		fmt.Fprintf(w, "assert c12.crash %s = %s ## %d lines %s\n", wb(content), ans, nl, where)
	}
}

// n2LongNoise: a LONG line that yields no rule (comment, or rejected: unknown modifier, invalid domain list, invalid
// cosmetic domains), written about host h.
func n2LongNoise(r *rng, h string) string {
	for {
		kind := pick(r, []string{"comment!", "comment#", "rejected-mod", "rejected-mod", "rejected-domain", "rejected-domain", "cosmetic-rejected", "regex"})
		max := 200000
		if kind == "rejected-domain" || kind == "cosmetic-rejected" {
			max = 40000
		}
		n := n2Above(r, 200, max)
		if r.chance(1, 3) {
			n = n2LogSize(r, 200, max)
		}
		l := n2LongLine(r, kind, n, h)
		ok := guardStr(func() string {
			rule, err := rules.NewRule(l, 1)
			if rule == nil || err != nil {
				return "T"
			}

			return "F"
		})
		if ok == "T" {
			return l
		}
	}
}

// eNoiseLine returns a line that yields no rule: blank, comment or rejected.
func eNoiseLine(r *rng) string {
	for {
		var l string
		switch r.n(5) {
		case 0:
			l = pick(r, []string{"", " ", "\t", "   "})
		case 1:
			l = "! " + eGenNetRuleText(r)
		case 2:
			l = "# " + pick(r, eHostTexts)
		case 3:
			l = pick(r, eCommentTexts)
		default:
			l = eMutate(r, eGenLine(r))
		}
		if strings.ContainsAny(l, "\n") {
			continue
		}
		ok := guardStr(func() string {
			rule, err := rules.NewRule(l, 1)
			if rule == nil || err != nil {
				return "T"
			}

			return "F"
		})
		if ok == "T" {
			return l
		}
	}
}

func genC12Inert(r *rng, n int, w *bufio.Writer) {
	r = eReseed(r)
	for i := 0; i < n; i++ {
		nl := 4 + r.n(24)
		if r.chance(1, 15) {
			nl = n2Count(r, 1, nil, 28, 300) // N2: long lists (more than 40 / 64 / 256 lines)
		}
		var lines []string
		for len(lines) < nl {
			l := eGenLine(r)
			if strings.ContainsAny(l, "\n\r") {
				continue
			}
			lines = append(lines, l)
		}
		// R2: one list in three STARTS with a multi-byte sequence (UTF-8 byte order mark as written by Windows editors,
		// a non-ASCII title, NBSP): on the unchanged tree the mark is part of the first line (a comment becomes a junk
		// rule) in L and in L+N alike; a scanner that treats the start of the list specially must keep the offsets of
		// all the rules behind it right, with and without lines inserted in front
		markFirst := false
		if t := r2FirstLine(r); r.chance(1, 3) && !strings.ContainsAny(t, "\n\r") {
			lines = append([]string{t}, lines...)
			markFirst = true
		}
		web, dns, hosts := eBatch(r, lines, 8)
		// N2: LIVE rules for queried hosts, each directly behind a LONG inert line (comment or rejected line of 200 bytes …
		// 200 KB: above 255 / 300 / 1024 / the 4 KiB read buffer / 64 KiB) -- a scanner that mistreats the long line (takes
		// it for a rule, drops the line after it, loses its place) changes the answers for that host
		pre := make([]string, len(lines))
		if r.chance(1, 2) {
			var qhosts []string
			for _, h := range hosts {
				if h != "" {
					qhosts = append(qhosts, h)
				}
			}
			for _, d := range dns {
				if d.Hostname != "" {
					qhosts = append(qhosts, d.Hostname)
				}
			}
			for _, q := range web {
				if q.Hostname != "" {
					qhosts = append(qhosts, q.Hostname)
				}
			}
			for k := 1 + r.n(3); k > 0 && len(qhosts) > 0; k-- {
				h := pick(r, qhosts)
				live := pick(r, []string{"||" + h + "^$important", "@@||" + h + "^$important", "0.0.0.0 " + h, h + "##.n2live", "||" + h + "^$dnsrewrite=1.2.3.4",
					"||" + h + "^", "@@||" + h + "^$elemhide,important", h, "#@#.banner", "##.n2generic"})
				if f, err := guardRule(live, 1); err != nil || f == nil {
					continue
				}
				at := r.n(len(lines) + 1)
				lines = append(lines[:at:at], append([]string{live}, lines[at:]...)...)
				pre = append(pre[:at:at], append([]string{n2LongNoise(r, h)}, pre[at:]...)...)
			}
		}
		// noise insertions
		var noisy []string
		for i, l := range lines {
			if i == 0 && markFirst && r.chance(1, 2) {
				noisy = append(noisy, eNoiseLine(r))
			}
			for r.chance(1, 3) {
				noisy = append(noisy, eNoiseLine(r))
			}
			if pre[i] != "" {
				noisy = append(noisy, pre[i])
			}
			noisy = append(noisy, l)
		}
		for r.chance(1, 2) {
			noisy = append(noisy, eNoiseLine(r))
		}
		sep := "\n"
		if r.chance(1, 2) {
			sep = "\r\n"
		}
		a := strings.Join(lines, "\n")
		if r.chance(1, 3) {
			// noise lines longer than the scanner's read buffer whose tail, were it ever read as a line of
			// its own, would be a live rule for one of the queried hosts
			h := hosts[0]
			if len(dns) > 0 && dns[0].Hostname != "" {
				h = dns[0].Hostname
			}
			for _, tail := range []string{"||" + h + "^$important", "@@||" + h + "^$important", "0.0.0.0 " + h} {
				fill := strings.Repeat(pick(r, []string{"x", "-", "ab ", "é"}), 4200+r.n(300))
				long := pick(r, []string{"! ", "# ", "!"}) + fill[:4090+r.n(20)] + tail
				at := r.n(len(noisy) + 1)
				noisy = append(noisy[:at], append([]string{long}, noisy[at:]...)...)
			}
		}
		b := strings.Join(noisy, sep)
		if r.chance(1, 2) {
			b += sep
		}
		diff := ""
		ans := guardStr(func() string {
			ra := eResults(a, web, dns, hosts)
			rb := eResults(b, web, dns, hosts)
			for k := range ra {
				if ra[k] != rb[k] {
					diff = ra[k] + " <> " + rb[k]

					return "F"
				}
			}
			if i%3 == 0 {
				// the same two lists FILE-backed (real temp files): still the same results
				dir, err := os.MkdirTemp("", "verif-inert")
				if err != nil {
					return "T"
				}
				defer os.RemoveAll(dir)
				fa := eResultsOn(filepath.Join(dir, "a.txt"), a, web, dns, hosts)
				fb := eResultsOn(filepath.Join(dir, "b.txt"), b, web, dns, hosts)
				for k := range ra {
					if ra[k] != fa[k] || ra[k] != fb[k] {
						diff = "file-backed: " + ra[k] + " <> " + fa[k] + " <> " + fb[k]

						return "F"
					}
				}
			}

			return "T"
		})
		fmt.Fprintf(w, "assert c12.inert %s %s = %s ## %d lines, %d with noise, sep %q %s\n", wb(a), wb(b), ans,
			len(lines), len(noisy), sep, noteStr(diff))
	}
}

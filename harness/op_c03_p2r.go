package main

// ops `c03.p2r` / `c03.p2rx` (C03): exact text equality between the real
// patternToRegexp and the Lean model of the text rewriting.
//   c03.p2r <pattern> = <regex text>|PANIC
// c03.p2rx is the exhaustive part: every pattern of <= 2 printable ASCII
// characters and every token string of <= n tokens (n = 3 if not given, at
// most 5) over an alphabet with every regex metacharacter, the pipe, `*`, `^`,
// letters, a digit and `/` (so pipes in every position and the `/*` tail are
// covered).  c03.p2r is the sampled part beyond that bound.

import (
	"bufio"
	"fmt"
	"strings"

	"github.com/AdguardTeam/urlfilter/rules"
)

func init() {
	gens["c03.p2r"] = genC03P2R
	gens["c03.p2rx"] = genC03P2RX
}

// c03Alphabet has every byte of the escape table, the three mask characters
// and representatives of the literal classes.
var c03Alphabet = []string{
	".", "+", "?", "$", "{", "}", "(", ")", "[", "]", "/", `\`,
	"|", "*", "^", "a", "Z", "0", "-", ":", "%", "_",
}

func c03EmitP2R(w *bufio.Writer, op, pattern string) {
	ans := guardStr(func() string { return wb(rules.VerifPatternToRegexp(pattern)) })
	fmt.Fprintf(w, "%s %s = %s ## %q\n", op, wb(pattern), ans, pattern)
}

func genC03P2RX(r *rng, n int, w *bufio.Writer) {
	if n <= 0 {
		n = 3
	}
	if n > 5 {
		n = 5
	}
	seen := map[string]bool{}
	emit := func(p string) {
		if !seen[p] {
			seen[p] = true
			c03EmitP2R(w, "c03.p2rx", p)
		}
	}
	emit("")
	for a := 32; a < 127; a++ {
		emit(string([]byte{byte(a)}))
		for b := 32; b < 127; b++ {
			emit(string([]byte{byte(a), byte(b)}))
		}
	}
	var rec func(prefix string, k int)
	rec = func(prefix string, k int) {
		emit(prefix)
		if k == 0 {
			return
		}
		for _, t := range c03Alphabet {
			rec(prefix+t, k-1)
		}
	}
	rec("", n)
	_ = r
}

// c03GenMaskPattern returns a random mask pattern biased to the boundaries of
// patternToRegexp: pipes in every position, metacharacters, `*`, `^`, the
// `/*` tail, very short patterns.
func c03GenMaskPattern(r *rng) string {
	var sb strings.Builder
	switch r.n(8) {
	case 0:
		sb.WriteString("||")
	case 1:
		sb.WriteString("|")
	case 2:
		sb.WriteString("|||")
	}
	n := r.n(10)
	if r.chance(1, 8) {
		n = 6 + r.n(20)
	}
	for i := 0; i < n; i++ {
		switch r.n(10) {
		case 0, 1, 2, 3:
			sb.WriteString(pick(r, c03Alphabet))
		case 4:
			sb.WriteString("|")
		case 5:
			sb.WriteString(pick(r, []string{"*", "^", "^*", "*^", "^^", "**"}))
		case 6:
			sb.WriteString(pick(r, poolDomains))
		case 7:
			sb.WriteString(pick(r, poolPaths))
		default:
			sb.WriteByte(byte(32 + r.n(95)))
		}
	}
	switch r.n(8) {
	case 0:
		sb.WriteString("|")
	case 1:
		sb.WriteString("/*")
	case 2:
		sb.WriteString("||")
	case 3:
		sb.WriteString("^")
	}

	return sb.String()
}

func genC03P2R(r *rng, n int, w *bufio.Writer) {
	r = &rng{s: r.u64()} // decorrelate neighbouring seeds (streams of seed k and k+1 are shifted copies)
	for i := 0; i < n; i++ {
		var p string
		switch r.n(10) {
		case 0:
			p = genPattern(r)
		case 1:
			// arbitrary bytes: the rewriting is byte-wise
			k := 1 + r.n(6)
			b := make([]byte, k)
			for j := range b {
				b[j] = byte(r.n(256))
			}
			p = string(b)
		case 2:
			// short strings over the alphabet beyond the exhaustive bound
			k := 4 + r.n(4)
			for j := 0; j < k; j++ {
				p += pick(r, c03Alphabet)
			}
		default:
			p = c03GenMaskPattern(r)
		}
		c03EmitP2R(w, "c03.p2r", p)
	}
}

package main

// op `c04.match`: Go NetworkRule.Match vs the model of Match vs the spec
// computed from the rule's modifier values (C04).
//   c04.match <R> <Q> <psl> <addrs> (<pat>…) = T|F

import (
	"bufio"
	"fmt"
)

func init() { gens["c04.match"] = genC04Match }

func genC04Match(r *rng, n int, w *bufio.Writer) {
	r = eReseed(r)
	for i := 0; i < n; i++ {
		f, t := eGenValidNetRule(r)
		q := eAimedRequest(r, f, t)
		// the conjunction of many modifiers rarely holds for one random request: half of the
		// time look (with a bounded number of draws) for a request the rule accepts
		if r.chance(1, 2) {
			for k := 0; k < 12 && guardStr(func() string { return wbool(f.Match(q)) }) != "T"; k++ {
				q = eAimedRequest(r, f, t)
			}
		}
		ans := guardStr(func() string { return wbool(f.Match(q)) })
		fmt.Fprintf(w, "c04.match %s %s %s %s (%s) = %s ## %s | %s src=%s host=%s type=%d dns=%d tags=%q client=%q/%s\n",
			wnetrule(f), wrequest(q),
			wpsl(q.Hostname, q.SourceHostname), waddrs(q.Hostname), wpat(f, q.URL, q.Hostname), ans,
			noteStr(t), noteStr(q.URL), noteStr(q.SourceHostname), noteStr(q.Hostname), q.RequestType, q.DNSType,
			q.SortedClientTags, q.ClientName, q.ClientIP)
	}
}

// noteStr makes a string safe for the free-text note (no line breaks, no " = " or " ## ").
func noteStr(s string) string {
	b := []byte(fmt.Sprintf("%q", s))

	return string(b)
}

package main

// Shared size helpers of group N1 (strengthening round after the review with fresh mutations):
// the generators used to draw every COUNT and LENGTH from a small range (1..6 values per list,
// 1..14 lines per list, names of 5..25 bytes, URLs of 20..80 bytes), so a change that only
// misbehaves above a small constant (the 7th name of a hosts line, the 9th candidate, the 65th
// rule of a table, a host name longer than 40 / 60 bytes, a URL longer than 64 / 1500 bytes, a
// public suffix of three labels) was invisible.  Every generator feeding C01, C02, C04, C05,
// C06, C07 now takes, once in 10..30 draws, a LOG-SCALE value that reaches well beyond the
// powers of two and round numbers a maintainer might hard-code (8, 16, 32, 64, 100, 128, 255,
// 256, 1024, 4096).
//
//   - nLog(r, lo, hi): log-uniform integer in [lo, hi]: as many draws in 8..16 as in 128..256.
//   - nCount(r, small, den, hi): `small` most of the time, 1 in den an nLog value up to hi.
//   - nLabel / nHostOfLen / nLongHost: valid host names of a chosen total length (labels of at
//     most 63 bytes, total at most 253), ending in a given name.
//   - nPad: URL filler of a chosen length that contains no run a rule shortcut could hit.
//   - nNames: k distinct generated names under a suffix.
//   - nDeepSuffixes: ICANN public suffixes of 1, 2, 3 and 4 labels.

import (
	"fmt"
	"os"
	"sort"
	"strings"

	"github.com/miekg/dns"
)

// nLog returns a log-uniformly distributed integer in [lo, hi] (lo >= 1).
func nLog(r *rng, lo, hi int) int {
	if lo < 1 {
		lo = 1
	}
	if hi <= lo {
		return lo
	}
	// choose the octave uniformly, then a value inside it uniformly
	var octs [][2]int
	for a := lo; a <= hi; a *= 2 {
		b := a*2 - 1
		if b > hi {
			b = hi
		}
		octs = append(octs, [2]int{a, b})
	}
	o := pick(r, octs)

	return o[0] + r.n(o[1]-o[0]+1)
}

// nCount returns small, except 1 time in den when it returns a log-scale value in [lo, hi].
func nCount(r *rng, small, den, lo, hi int) int {
	if r.chance(1, den) {
		return nLog(r, lo, hi)
	}

	return small
}

const nLabelChars = "abcdefghijklmnopqrstuvwxyz0123456789"

// nLabel returns a host label of exactly n bytes (1 <= n <= 63): letters and digits, a hyphen
// now and then in the middle.
func nLabel(r *rng, n int) string {
	if n < 1 {
		n = 1
	}
	if n > 63 {
		n = 63
	}
	b := make([]byte, n)
	for i := range b {
		b[i] = nLabelChars[r.n(len(nLabelChars))]
		if i > 0 && i < n-1 && b[i-1] != '-' && r.chance(1, 12) {
			b[i] = '-'
		}
	}
	if b[0] >= '0' && b[0] <= '9' {
		b[0] = 'h'
	}

	return string(b)
}

// nHostOfLen prepends labels to name until the result has exactly total bytes (if total is
// larger than len(name)+1; otherwise name is returned).  Labels are at most 63 bytes long.
func nHostOfLen(r *rng, name string, total int) string {
	if total > 253 {
		total = 253
	}
	deep := r.chance(1, 3) // many short labels instead of few long ones
	for len(name)+2 <= total {
		room := total - len(name) - 1 // bytes available for the next label
		n := room
		if deep && n > 3 {
			n = 1 + r.n(3)
			if room-n == 1 {
				n++
			}
		}
		if n > 63 {
			n = 1 + r.n(63)
			if room-n == 1 { // would leave room for a dot only
				n--
			}
			if n < 1 {
				n = 1
			}
		}
		name = nLabel(r, n) + "." + name
	}

	return name
}

// nLongHost: name with generated labels in front, of a log-scale total length between a little
// above len(name) and the 253-byte limit (boundary values 63/64, 127/128, 253 included now and then).
func nLongHost(r *rng, name string) string {
	lo := len(name) + 2
	if lo > 253 {
		return name
	}
	total := nLog(r, lo, 253)
	if r.chance(1, 5) {
		total = pick(r, []int{41, 61, 64, 65, 100, 127, 128, 129, 200, 252, 253})
		if total < lo {
			total = lo
		}
	}

	if nTextLevel && total > 64 {
		// the Lean regex model backtracks: a pattern with k consecutive `*` costs about n^k steps on a subject of n
		// bytes, so the text-level families (which run compiled patterns in the model) keep their long hosts short;
		// the full lengths are exercised by the wire-level families and the Go-only asserts
		total = 64
		if total < lo {
			total = lo
		}
	}

	return nHostOfLen(r, name, total)
}

// nPad returns n bytes of URL filler: digits and the letters q, z in groups cut by '-', '_' and '/';
// no rule of the generators has a shortcut made of these.
func nPad(r *rng, n int) string {
	const chars = "0123456789qz"
	b := make([]byte, n)
	for i := range b {
		switch {
		case i%9 == 8:
			b[i] = "-_/"[r.n(3)]
		default:
			b[i] = chars[r.n(len(chars))]
		}
	}

	return string(b)
}

// The Lean driver evaluates the model on every op line.  For the WIRE-level families (parsed rule records and the
// pattern oracle on the line: match, c04.match, c01.matchall, c02.dns, c06.*, c07.*, scale.*) its cost is linear
// in the sizes drawn here.  The TEXT-level families make it parse rule texts and run compiled patterns itself
// (i1.*, i2.*, i3.*, l.*, c04.parse, c04.textmatch, c05.*, re*): the text parsers are quadratic in the length of
// a rule text (0.35 s for a 300-value list) and the regex model is quadratic in the URL length (minutes for
// `*banner^` on an 8 KiB URL).  For those families the wide draws are capped: value lists at 48 (1 wide draw in
// 16 goes to the full range), URL filler at 160 bytes; the full ranges are exercised by the wire-level families
// and by the Go-only `assert` ops of the same properties.
var nTextLevel = func() bool {
	// the family being generated: `harness gen <family> …`, or, in a child process started by a family that isolates
	// its trials (c13hist.fresh, c14fresh), the family of the parent (VERIF_GEN_FAMILY) -- parent and child must
	// draw the same sizes, or the child would rebuild another world than the one its parent asked about
	family := os.Getenv("VERIF_GEN_FAMILY")
	if len(os.Args) >= 3 && os.Args[1] == "gen" {
		family = os.Args[2]
	}
	if family == "" {
		return false
	}
	// the families measured to be linear on the Lean side; every other family (also those of other properties that
	// merely share the generators of gen.go / gen_e.go) gets the capped sizes
	for _, p := range []string{"match", "c04.match", "c04.perm", "c04.collide", "c01.matchall", "c01.hash", "c01.real", "c02.dns", "c05.engine",
		"c05.maskurl", "c06.", "c07.", "scale"} {
		if family == p || (strings.HasSuffix(p, ".") && strings.HasPrefix(family, p)) {
			return false
		}
	}

	return true
}()

// nValueCount: a log-scale number of values of one modifier list in [lo, hi] (capped for text-level families).
func nValueCount(r *rng, lo, hi int) int {
	if nTextLevel && hi > 48 && !r.chance(1, 16) {
		hi = 48
	}

	return nLog(r, lo, hi)
}

// nPadLog: a log-scale URL filler length in [lo, hi] (capped for text-level families).
func nPadLog(r *rng, lo, hi int) int {
	if nTextLevel && hi > 160 {
		hi = 160
	}

	return nLog(r, lo, hi)
}

// nPadLen: a log-scale filler length reaching beyond the 4 KiB URL cap (landmark values now and then).
func nPadLen(r *rng) int {
	if !nTextLevel && r.chance(1, 6) {
		return pick(r, []int{64, 100, 128, 255, 256, 1000, 1024, 1500, 2048, 4000, 4096, 4200})
	}

	return nPadLog(r, 32, 5000)
}

// nLongURL inserts filler into the path of u (directly after the host part) so that what used to
// be near the start of the URL lies far from it; the scheme and the host stay where they are.
func nLongURL(r *rng, u string, pad int) string {
	i := strings.Index(u, "://")
	if i < 0 {
		return u
	}
	rest := u[i+3:]
	j := strings.IndexAny(rest, "/?")
	if j < 0 {
		return u + "/" + nPad(r, pad)
	}
	return u[:i+3] + rest[:j] + "/" + nPad(r, pad) + rest[j:]
}

// nNames returns k distinct generated names under suffix ("n0007.suffix").
func nNames(k int, prefix, suffix string) []string {
	out := make([]string, k)
	for i := range out {
		out[i] = fmt.Sprintf("%s%04d.%s", prefix, i, suffix)
	}

	return out
}

// nDeepSuffixes: ICANN public suffixes by number of labels (checked against the bundled list by
// the callers through the psl oracle; the model never consults a list of its own).
var nDeepSuffixes = []string{
	"com", "jp", "de", // 1 label
	"co.uk", "com.au", "kawasaki.jp", // 2 labels ("kawasaki.jp" itself is `*.kawasaki.jp`: 3-label suffixes below it)
	"foo.kawasaki.jp", "k12.ca.us", "ac.gov.br", "tsukuba.ibaraki.jp", "gov.nc.tr", "a.sch.uk", "c.kobe.jp", // 3 labels
	"pvt.k12.ma.us", // 4 labels
}

// nWideValues returns k generated list values of the same KIND as the pool's values: DNS record type
// names for a pool of record types (at most as many as package dns knows), tag-shaped words for a pool of
// client tags, host names ("v0017.example.net") otherwise.  Every fifth value is a pool value, so that long
// lists still mention what the requests are aimed at.
func nWideValues(k int, pool []string) []string {
	kind := 0
	for _, p := range pool {
		switch p {
		case "AAAA", "CNAME":
			kind = 1
		case "device_pc", "os_linux":
			kind = 2
		}
	}
	var types []string
	if kind == 1 {
		for name := range dns.StringToType {
			if name != "None" && name != "Reserved" {
				types = append(types, name)
			}
		}
		sort.Strings(types)
		if k > len(types) {
			k = len(types)
		}
	}
	out := make([]string, 0, k)
	for i := 0; i < k; i++ {
		switch {
		case len(pool) > 0 && i%5 == 4:
			out = append(out, pool[(i/5)%len(pool)])
		case kind == 1:
			out = append(out, types[(i*7)%len(types)])
		case kind == 2:
			out = append(out, fmt.Sprintf("tag_%04d", i))
		default:
			out = append(out, fmt.Sprintf("v%04d.example.net", i))
		}
	}

	return out
}

// nSpread inserts the items of base at random positions of wide (the few values a request is aimed at end up
// anywhere in the long list: first, 9th, 65th, last).
func nSpread(r *rng, base, wide []string) []string {
	out := append([]string{}, wide...)
	for _, b := range base {
		pos := r.n(len(out) + 1)
		if r.chance(1, 3) {
			pos = len(out) // the very end
		}
		out = append(out[:pos], append([]string{b}, out[pos:]...)...)
	}

	return out
}

// nSeenPat reports whether the pattern-oracle entry p is already in pats (rules sharing a pattern and the
// $match-case flag share their oracle entries; crowded scenarios would repeat them hundreds of times).
func nSeenPat(pats *[]string, p string) bool {
	for _, x := range *pats {
		if x == p {
			return true
		}
	}

	return false
}

// nOpsFor: how many requests to run against one scenario built from list BYTES (i1.*, i3.*).  The driver parses
// every line of the scenario again for every op, and its text parsers are quadratic in the line length: a
// scenario with a line longer than the 4 KiB read buffer costs 1.5..2 s per op, one with a hundred lines about as
// much.  Such scenarios get 2 requests instead of the usual 5 or 6.
func nOpsFor(sc *i1Scenario, usual int) int {
	total := 0
	for _, t := range sc.all {
		total += len(t)
		if len(t) > 3000 {
			return 2
		}
	}
	if total > 6000 {
		return 2
	}

	return usual
}

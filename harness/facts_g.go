package main

// Generated facts of work group G (C03): the mask / regex constants of
// rules/regex.go as byte lists and the escape table of specialCharReplacer,
// obtained by feeding every one of the 256 bytes through the real replacer.

import (
	"fmt"
	"strings"

	"github.com/AdguardTeam/urlfilter/rules"
)

func init() {
	factSections = append(factSections, func(p func(format string, a ...any)) {
		p("-- rules/regex.go: mask syntax and the regex text each mask element expands to")
		for _, c := range []struct{ n, v string }{
			{"MaskStartURL", rules.MaskStartURL}, {"MaskPipe", rules.MaskPipe},
			{"MaskSeparator", rules.MaskSeparator}, {"MaskAnyCharacter", rules.MaskAnyCharacter},
			{"RegexAnyCharacter", rules.RegexAnyCharacter}, {"RegexSeparator", rules.RegexSeparator},
			{"RegexStartURL", rules.RegexStartURL}, {"RegexEndString", rules.RegexEndString},
			{"RegexStartString", rules.RegexStartString},
		} {
			p("def %s : Bytes := %s  -- %q", c.n, leanBytes(c.v), c.v)
		}
		p("")
		p("-- rules/regex.go: specialCharReplacer, every byte b with Replace(string(b)) != string(b)")
		var items []string
		for b := 0; b < 256; b++ {
			in := string([]byte{byte(b)})
			out := rules.VerifEscapeSpecial(in)
			if out != in {
				items = append(items, fmt.Sprintf("(%d, %s)", b, leanBytes(out)))
			}
		}
		p("def escapeTable : List (UInt8 × Bytes) := [%s]", strings.Join(items, ", "))
	})
}

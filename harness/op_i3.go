package main

// op families of integration group I3: the PUBLIC ENTRY POINTS from RAW inputs.
//
//	i3.web ((id ign content)…) <url> <src> <type> <cosHost> psl addrs prefixes
//	       = class|basicText|cosmeticOption|documentText|(generic selectors)|(specific selectors)|hostname,domain,srcHostname,srcDomain,thirdParty
//	    Go: urlfilter.NewEngine(storage).MatchRequest(rules.NewRequest(url, src, type)) → GetBasicResult
//	    class, BasicRule / DocumentRule texts, GetCosmeticOption, Engine.GetCosmeticResult(cosHost, option).
//	    Lean: engineMatchRequest (NewRequest model → storage scan with the modelled NewRule → engine →
//	    MatchAll twice → NewMatchingResult) — NO pattern / rewrite / shortcut tables, only psl + netip.
//	i3.dns ((id ign content)…) (D hostname dnsType clientName clientIP (tags)) psl addrs prefixes
//	       = class|(network rule texts)|(v4)|(v6)|matched|(effective rewrite texts)
//	    class: b / a (+ "!" if important) = NetworkRule; h = host rules only; r = effective rewrites only;
//	    m = matching network rules but nothing else; n = nothing.
//	    Go: urlfilter.NewDNSEngine(storage).MatchRequest(dReq) + res.DNSRewrites(), several requests on
//	    ONE engine so that the request pool really recycles.
//
// The generators aim requests at the rules: hosts of the URL and of the source URL are drawn from the
// few names the lists are written about, so that `$domain`, document-level exceptions on the referrer
// (`@@||site.com^$genericblock` / `$urlblock` / `$elemhide` …), important / exception / block mixes,
// `$badfilter` twins and `$dnsrewrite` rules with their exceptions all decide answers.

import (
	"bufio"
	"fmt"
	"net/netip"
	"strings"

	"github.com/AdguardTeam/urlfilter"
	"github.com/AdguardTeam/urlfilter/filterlist"
	"github.com/AdguardTeam/urlfilter/rules"
)

func init() {
	gens["i3.web"] = i3GenWeb
	gens["i3.dns"] = i3GenDNS
}

var (
	i3Paths     = []string{"/ads/banner.png", "/ad", "/banner", "/x/y.js?z=1", "/", "", "/AD/Img.GIF", "/page", "/ws"}
	i3Patterns  = []string{"/banner", "/ads/", "/ad", "-ads-", "banner.png", "/x/*.js", "|http://", "/page"}
	i3DocMods   = []string{"elemhide", "generichide", "jsinject", "document", "urlblock", "genericblock", "content", "extension", "important"}
	i3Selectors = []string{".banner", "#ad", ".ad-box", ".x", ".sponsor"}
	i3Rewrites  = []string{"1.2.3.4", "1.2.3.5", "::1", "new.example.net", "NXDOMAIN", "REFUSED", "NOERROR;A;1.2.3.4",
		"NOERROR;TXT;hello", "NOERROR;MX;10 mail.example.net", "NOERROR;CNAME;new.example.net", "noerror;a;1.2.3.4",
		// record types without a value parser: type kept, value nil (an exception with such a value disables
		// only rewrites of that type, it is not the empty value)
		"NOERROR;NS;ns1.example.net", "NOERROR;NS;", "noerror;caa;0 issue ca.example.net", "NOERROR;SOA;x", "NOERROR;DNAME;new.example.net",
		// N2: near-twins of the values above, differing in ONE component (letter case of the new CNAME / exchange, preference,
		// SRV priority / weight / port, one SVCB parameter)
		"New.example.net", "NEW.EXAMPLE.NET", "NOERROR;CNAME;new.Example.net", "NOERROR;MX;10 Mail.example.net", "NOERROR;MX;266 mail.example.net",
		"NOERROR;TXT;Hello", "NOERROR;SRV;1 2 80 s.example.net", "NOERROR;SRV;257 2 80 s.example.net", "NOERROR;SRV;1 3 80 s.example.net",
		"NOERROR;SRV;1 2 8080 s.example.net", "NOERROR;HTTPS;1 . alpn=h3", "NOERROR;HTTPS;1 . alpn=h2", "NOERROR;HTTPS;1 . alpn=h3 port=443",
		"NOERROR;HTTPS;2 . alpn=h3", "NOERROR;SVCB;1 . alpn=h3", "NOERROR;PTR;new.example.net", "NOERROR;PTR;new.example.net.", "2001:db8::1", "2001:db8::2"}
)

func i3Mods(r *rng, pool []string, maxN int) string {
	m := subset(r, pool, maxN)
	if len(m) == 0 {
		return ""
	}
	shuffle(r, m)

	return "$" + strings.Join(m, ",")
}

// i3WebLine: one line of a web filter list written about the given names.
func i3WebLine(r *rng, names []string) string {
	nm := pick(r, names)
	site := func() string {
		return pick(r, []string{"||" + nm + "^", "||" + nm + "^", "||" + nm + pick(r, i3Paths), "|http://" + nm, nm, "://" + nm + "/"})
	}
	switch r.n(24) {
	case 0, 1, 2, 3: // blocking rule on a site
		return site() + i3Mods(r, []string{"important", "script", "image", "third-party", "~third-party", "domain=" + pick(r, names), "domain=~" + pick(r, names)}, 2)
	case 4, 5: // generic blocking rule on a path
		return pick(r, i3Patterns) + i3Mods(r, []string{"important", "script", "image", "third-party", "match-case"}, 2)
	case 6, 7: // specific ($domain) blocking rule on a path
		if r.chance(1, 3) {
			// the value is a PARENT of the names (often the public suffix they live under), the pattern mostly too short
			// for a lookup shortcut; blocking rule or exception
			return pick(r, []string{"", "", "@@"}) + pick(r, []string{"/ad", "/ad", "*", "/pa", ".js", "|http", pick(r, i3Patterns)}) + "$domain=" + genList(r, r1DotSuffixes(names), 2, r.chance(1, 6), "|") +
				pick(r, []string{"", "", ",important", ",script"})
		}

		return pick(r, i3Patterns) + "$domain=" + genList(r, append(append([]string{}, names...), "example.*", "site.*"), 3, r.chance(1, 4), "|") +
			pick(r, []string{"", "", ",important", ",script"})
	case 8, 9, 10, 11: // document-level exception on a site (decides cosmetic options and the referrer flags)
		if r.chance(1, 4) {
			// R2: stray commas in the modifier list (empty items are dropped by the parser)
			return "@@" + site() + "$" + r2JoinStray(r, subsetAtLeastOne(r, i3DocMods, 3))
		}

		return "@@" + site() + i3Mods(r, i3DocMods, 3)
	case 12: // plain exception
		return "@@" + pick(r, []string{site(), pick(r, i3Patterns)}) + i3Mods(r, []string{"important", "script", "domain=" + pick(r, names)}, 2)
	case 13: // $badfilter twin of another shape
		return pick(r, []string{"", "@@"}) + "||" + nm + "^" + pick(r, []string{"$badfilter", "$important,badfilter", "$badfilter,elemhide", "$genericblock,badfilter", "$urlblock,badfilter"})
	case 14: // special-purpose and rewrite rules never decide a web verdict
		return pick(r, []string{"@@||" + nm + "^$stealth", "@@||" + nm + "^$stealth,urlblock", "||" + nm + "^$dnsrewrite=1.2.3.4", "||" + nm + "^$popup", "@@||" + nm + "^$dnsrewrite"})
	case 15, 16: // cosmetic rules
		return pick(r, []string{"", "", nm, nm + "," + pick(r, names), "~" + nm, "example.*"}) + pick(r, []string{"##", "##", "#@#"}) + pick(r, i3Selectors)
	case 17:
		return c01GenRuleText(r)
	case 18:
		return genNetRuleText(r, false)
	case 19:
		return pick(r, []string{"/banner[0-9]*/", "/ads?\\//$important", "@@/ban+er/$elemhide", `/\/page$/`, "/(ad|banner)\\.png/$image"})
	case 20:
		return c15GenRule(r)
	default:
		return i1Line(r, names, false)
	}
}

// i3DNSLine: one line of a DNS filter list written about the given names.
func i3DNSLine(r *rng, names []string) string {
	nm := pick(r, names)
	switch r.n(24) {
	case 0, 1, 2:
		return "||" + nm + "^" + i3Mods(r, []string{"important", "dnstype=A", "dnstype=~AAAA", "ctag=device_pc", "client=laptop", "client=10.0.0.0/8", "denyallow=" + pick(r, names)}, 2)
	case 3, 4:
		return "@@||" + nm + "^" + i3Mods(r, []string{"important", "dnstype=A", "ctag=~device_phone", "client=~phone"}, 2)
	case 5, 6, 7, 8: // rewrite rules
		return pick(r, []string{"||", "||", "|", ""}) + nm + "^$dnsrewrite=" + pick(r, i3Rewrites) + pick(r, []string{"", "", ",important", ",dnstype=A"})
	case 9, 10, 11: // rewrite exceptions: empty value, a value, important
		return "@@||" + nm + "^$dnsrewrite" + pick(r, []string{"", "=", "=" + pick(r, i3Rewrites), "=" + pick(r, i3Rewrites)}) + pick(r, []string{"", "", ",important"})
	case 12: // $badfilter twins
		return pick(r, []string{"", "@@"}) + "||" + nm + "^$" + pick(r, []string{"badfilter", "important,badfilter", "dnsrewrite=" + pick(r, i3Rewrites) + ",badfilter", "badfilter,dnsrewrite=" + pick(r, i3Rewrites)})
	case 13, 14, 15: // hosts lines
		return pick(r, []string{"0.0.0.0", "127.0.0.1", "::1", "1.2.3.4", "::", "2001:db8::1"}) + pick(r, []string{" ", "\t"}) + nm +
			pick(r, []string{"", "", " " + pick(r, names), " # c"})
	case 16:
		return pick(r, []string{nm, "www." + nm, nm + " # note"}) // bare domain
	case 17:
		return pick(r, []string{nm, "." + nm, "*." + nm, "|" + nm + "|", "://" + nm}) + pick(r, []string{"", "^", "$important"})
	case 18:
		return pick(r, []string{"||" + nm + "^$script", "||" + nm + "^$domain=" + pick(r, names), "||" + nm + "^$third-party", "||" + nm + "^$elemhide", "/" + strings.ReplaceAll(nm, ".", "\\.") + "$/"})
	case 19, 20:
		return c02GenLine(r, names)
	default:
		return i1Line(r, names, true)
	}
}

// i3Build assembles 1–3 lists from a line generator (contents, ids, line ends as in i1Build).
func i3Build(r *rng, names []string, line func(*rng, []string) string) *i1Scenario {
	nLists := 1 + r.n(3)
	nLines := 6 + r.n(12)
	if r.chance(1, 6) {
		nLines = 1 + r.n(30)
	}
	if r.chance(1, 30) {
		nLines = nLog(r, 31, 130) // MANY lines (the driver parses every line of every op: kept rare)
	}
	ids := append([]int{}, i1ListIDs...)
	shuffle(r, ids)
	bodies := make([][]string, nLists)
	sc := &i1Scenario{}
	for j := 0; j < nLines; j++ {
		t := strings.NewReplacer("\n", "", "\r", "").Replace(line(r, names))
		if len(sc.all) > 0 && r.chance(1, 8) {
			t = pick(r, sc.all)
		}
		if r.chance(1, 12) {
			t = pick(r, []string{" ", "\t"}) + t + pick(r, []string{"", " ", "\t"})
		}
		sc.all = append(sc.all, t)
		l := r.n(nLists)
		bodies[l] = append(bodies[l], t)
	}
	// R2: withdrawn rules -- a network rule of the scenario (or a fresh document-level exception about the same names) gets
	// its `$badfilter` twin, in front of it or behind it, in the same list or in another one; the pair must not change what
	// the OTHER rules decide, wherever it comes in the engine's match order
	for k := r.n(3); k > 0 && r.chance(2, 3); k-- {
		x := strings.TrimSpace(pick(r, sc.all))
		if r.chance(1, 3) {
			x = "@@||" + pick(r, names) + "^" + i3Mods(r, i3DocMods, 2)
		}
		f, err := rules.NewRule(x, 1)
		nf, ok := f.(*rules.NetworkRule)
		if err != nil || !ok || nf.IsOptionEnabled(rules.OptionBadfilter) {
			continue
		}
		twin := x + "$badfilter"
		if _, opts, _, perr := rules.VerifParseRuleText(x); perr == nil && opts != "" {
			twin = x + ",badfilter"
		}
		pair := []string{x, twin}
		if r.chance(1, 3) {
			pair = []string{twin, x}
		}
		if r.chance(1, 2) {
			// the rule itself is already in a list: add the twin only
			pair = []string{twin}
		}
		for _, t := range pair {
			l := r.n(nLists)
			pos := r.n(len(bodies[l]) + 1)
			bodies[l] = append(bodies[l][:pos:pos], append([]string{t}, bodies[l][pos:]...)...)
			sc.all = append(sc.all, t)
		}
	}
	for l := range bodies {
		if r.chance(1, 5) {
			// R2: a multi-byte first line (UTF-8 byte order mark, non-ASCII title)
			t := r2FirstLineInert(r, names)
			if r.chance(1, 8) {
				t = r2FirstLine(r)
			}
			bodies[l] = append([]string{t}, bodies[l]...)
			sc.all = append(sc.all, t)
		}
	}
	var ls []filterlist.RuleList
	var note []string
	for j, b := range bodies {
		eol := pick(r, []string{"\n", "\n", "\r\n"})
		content := strings.Join(b, eol)
		if r.chance(2, 3) {
			content += eol
		}
		l := c11List{id: ids[j], ign: r.chance(1, 6), content: content}
		sc.lists = append(sc.lists, l)
		ls = append(ls, &filterlist.StringRuleList{ID: l.id, RulesText: l.content, IgnoreCosmetic: l.ign})
		note = append(note, fmt.Sprintf("[%d ign=%v] %q", l.id, l.ign, l.content))
	}
	s, err := filterlist.NewRuleStorage(ls)
	if err != nil {
		panic(err)
	}
	sc.storage = s
	sc.note = strings.Join(note, " ‖ ")
	// the rules the requests are aimed at are read list by list, not through the storage scanner under test
	for _, sr := range mScanLists(ls) {
		switch f := sr.rule.(type) {
		case *rules.NetworkRule:
			sc.nets = append(sc.nets, f)
			sc.texts = append(sc.texts, f.RuleText)
		case *rules.HostRule:
			sc.hosts = append(sc.hosts, f.Hostnames...)
		}
	}

	return sc
}

// i3Oracles: the netip tables for every string a parse of a line of the scenario can ask about (hosts
// syntax fields, `$client` items, `$dnsrewrite` values and their third field — obtained with Go's own
// splitting functions, see i1Fields / i2Oracles) plus the given extra strings (request hostnames).
func i3Oracles(sc *i1Scenario, extra ...string) (addrs, prefixes string) {
	cands := append([]string{}, extra...)
	for _, l := range sc.lists {
		for _, raw := range strings.Split(l.content, "\n") {
			t := strings.TrimSpace(raw)
			if t == "" {
				continue
			}
			cands = append(cands, i1Fields(t)...)
			cands = append(cands, i2Oracles(t)...)
		}
	}

	return waddrs(cands...), wprefixes(cands...)
}

func i3Names(r *rng) []string {
	all := append([]string{}, poolDomains...)
	shuffle(r, all)
	names := all[:2+r.n(2)]
	if r.chance(1, 3) {
		// a host directly below a multi-label / private public suffix (its registrable domain is the host itself)
		names = append(names, r1UnderSuffix(r, pick(r, r1SuffixDomains[:9])))
	}

	return names
}

func i3Text(f *rules.NetworkRule) string {
	if f == nil {
		return "_"
	}

	return wb(f.RuleText)
}

func i3URL(r *rng, names []string, sc *i1Scenario) string {
	switch r.n(24) {
	case 0:
		if len(sc.texts) > 0 {
			return genURL(r, sc.texts)
		}

		fallthrough
	case 1:
		return pick(r, poolSchemes) + "://" + pick(r, poolDomains) + pick(r, poolPaths)
	case 2:
		return pick(r, []string{"", "about:blank", "data:text/html,x", "http://", "//" + pick(r, names) + "/ad", "HTTP://" + strings.ToUpper(pick(r, names)) + "/Banner"})
	default:
		return pick(r, []string{"http", "https", "http", "ws"}) + "://" + pick(r, []string{"", "", "www.", "sub."}) + pick(r, names) +
			pick(r, []string{"", "", ":8080"}) + pick(r, i3Paths)
	}
}

func i3Source(r *rng, names []string) string {
	switch r.n(8) {
	case 0, 1:
		return ""
	case 2:
		return genSourceURL(r)
	default:
		host := pick(r, []string{"", "", "www."}) + pick(r, names)
		path := pick(r, []string{"", "/", "/page", "/banner"})
		if r.chance(1, 3) {
			// the referrer as a browser may hand it over: upper-case letters in the host and in the path (the engine
			// matches referrer-level exceptions against the LOWER-CASED referrer URL)
			switch r.n(4) {
			case 0:
				host = strings.ToUpper(host)
			case 1:
				host = mutateCase(r, host)
			case 2:
				path = pick(r, []string{"/Page", "/BANNER", "/AD/Img.GIF", "/Ads/Banner.png", "/Banner"})
			default:
				host, path = mutateCase(r, host), strings.ToUpper(path)
			}
		}

		return pick(r, []string{"http://", "https://"}) + host + path
	}
}

func i3GenWeb(r *rng, n int, w *bufio.Writer) {
	bReseed(r)
	for i := 0; i < n; {
		names := i3Names(r)
		sc := i3Build(r, names, i3WebLine)
		engine := urlfilter.NewEngine(sc.storage)
		ls := sc.wlists()
		for j := 0; j < nOpsFor(sc, 6) && i < n; j, i = j+1, i+1 {
			u, src, typ := i3URL(r, names, sc), i3Source(r, names), pick(r, poolReqTypes)
			if r.chance(1, 2) {
				typ = rules.TypeDocument
			}
			req := rules.NewRequest(u, src, typ)
			host := req.Hostname
			if r.chance(1, 5) {
				host = pick(r, []string{req.SourceHostname, pick(r, names), "www." + pick(r, names)})
			}
			ans := guardStr(func() string {
				res := engine.MatchRequest(req)
				class := "n"
				if b := res.GetBasicResult(); b != nil {
					class = "b"
					if b.Whitelist {
						class = "a"
					}
				}
				opt := res.GetCosmeticOption()
				cres := engine.GetCosmeticResult(host, opt)
				extra := len(cres.CSS.Generic) + len(cres.CSS.Specific) + len(cres.CSS.GenericExtCSS) + len(cres.CSS.SpecificExtCSS) +
					len(cres.JS.Generic) + len(cres.JS.Specific)
				if extra != 0 {
					return "unexpected-css-or-js-result"
				}
				sel := c15SelSet(cres.ElementHiding.Generic, cres.ElementHiding.GenericExtCSS) + "|" +
					c15SelSet(cres.ElementHiding.Specific, cres.ElementHiding.SpecificExtCSS)
				if sel == "()|()" {
					sel = "()"
				}

				fields := fmt.Sprintf("%s,%s,%s,%s,%s", wb(req.Hostname), wb(req.Domain), wb(req.SourceHostname), wb(req.SourceDomain), wbool(req.ThirdParty))

				return fmt.Sprintf("%s|%s|%d|%s|%s|%s", class, i3Text(res.BasicRule), uint32(opt), i3Text(res.DocumentRule), sel, fields)
			})
			addrs, prefixes := i3Oracles(sc, req.Hostname, req.SourceHostname)
			fmt.Fprintf(w, "i3.web %s %s %s %d %s %s %s %s = %s ## url=%q src=%q type=%d coshost=%q lists: %s\n",
				ls, wb(u), wb(src), uint32(typ), wb(host), wpsl(req.Hostname, req.SourceHostname, host, ""), addrs, prefixes,
				ans, u, src, typ, host, sc.note)
		}
	}
}

func i3GenDNS(r *rng, n int, w *bufio.Writer) {
	bReseed(r)
	for i := 0; i < n; {
		names := i3Names(r)
		sc := i3Build(r, names, i3DNSLine)
		engine := urlfilter.NewDNSEngine(sc.storage)
		ls := sc.wlists()
		for j := 0; j < nOpsFor(sc, 6) && i < n; j, i = j+1, i+1 {
			d := genDNSRequest(r, sc.all)
			switch r.n(8) {
			case 0, 1, 2, 3, 4:
				d.Hostname = pick(r, []string{"", "", "", "www.", "sub."}) + pick(r, names)
			case 5:
				if len(sc.hosts) > 0 {
					d.Hostname = pick(r, sc.hosts)
				}
			case 6:
				if r.chance(1, 3) {
					d.Hostname = ""
				}
			}
			if r.chance(1, 3) {
				d.ClientName = pick(r, []string{"laptop", "phone", ""})
				d.ClientIP = netip.MustParseAddr(pick(r, []string{"10.0.0.5", "192.168.1.7", "::1"}))
			}
			ans := guardStr(func() string {
				res, matched := engine.MatchRequest(d)
				rewrites := res.DNSRewrites()
				cls := "n" // nothing at all
				switch {
				case res.NetworkRule != nil:
					cls = "b"
					if res.NetworkRule.Whitelist {
						cls = "a"
					}
					if res.NetworkRule.IsOptionEnabled(rules.OptionImportant) {
						cls += "!"
					}
				case matched:
					cls = "h" // host rules only
				case len(rewrites) > 0:
					cls = "r" // effective rewrites only
				case len(res.NetworkRules) > 0:
					cls = "m" // matching network rules, none of them basic or an effective rewrite
				}

				return fmt.Sprintf("%s|%s|%s|%s|%s|%s", cls, bSortedTextSet(texts(res.NetworkRules)),
					c02HostRuleSet(res.HostRulesV4), c02HostRuleSet(res.HostRulesV6), wbool(matched),
					bSortedTextSet(texts(rewrites)))
			})
			addrs, prefixes := i3Oracles(sc, d.Hostname)
			fmt.Fprintf(w, "i3.dns %s %s %s %s %s = %s ## host=%q type=%d client=%q/%v tags=%v lists: %s\n",
				ls, wlist("D", wb(d.Hostname), fmt.Sprint(d.DNSType), wb(d.ClientName), waddr(d.ClientIP), wstrs(d.SortedClientTags)),
				wpsl(d.Hostname, ""), addrs, prefixes, ans, d.Hostname, d.DNSType, d.ClientName, d.ClientIP, d.SortedClientTags, sc.note)
		}
	}
}

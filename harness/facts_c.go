package main

// Generated facts of work group C (go/ast over /repo's current rules/network.go):
// the field list of rules.NetworkRule and which fields / methods of each operand
// negatesBadfilter and IsHigherPriority read.  The Lean side has `decide`d
// obligations on them (UF/Props/C07.lean, C08.lean): IsHigherPriority reads the
// same things from both operands; negatesBadfilter reads every matching-relevant
// field of NetworkRule from both operands.

import (
	"go/ast"
	"go/parser"
	"go/token"
	"path/filepath"
	"runtime/debug"
	"sort"
	"strings"
)

func init() { factSections = append(factSections, factsC) }

// repoDir is the directory the urlfilter module was built from (the target of
// the `replace` directive of the harness module).
func repoDir() string {
	if bi, ok := debug.ReadBuildInfo(); ok {
		for _, d := range bi.Deps {
			if d.Path == "github.com/AdguardTeam/urlfilter" && d.Replace != nil && d.Replace.Path != "" {
				return d.Replace.Path
			}
		}
	}

	return "/repo"
}

func leanStrings(ss []string) string {
	q := make([]string, len(ss))
	for i, s := range ss {
		q[i] = `"` + s + `"`
	}

	return "[" + strings.Join(q, ", ") + "]"
}

func factsC(p func(format string, a ...any)) {
	fset := token.NewFileSet()
	file, err := parser.ParseFile(fset, filepath.Join(repoDir(), "rules", "network.go"), nil, 0)
	if err != nil {
		p("-- group C: cannot parse rules/network.go: %v", err)

		return
	}
	var fields []string
	reads := map[string][2][]string{}
	for _, d := range file.Decls {
		switch d := d.(type) {
		case *ast.GenDecl:
			for _, sp := range d.Specs {
				ts, ok := sp.(*ast.TypeSpec)
				if !ok || ts.Name.Name != "NetworkRule" {
					continue
				}
				st, ok := ts.Type.(*ast.StructType)
				if !ok {
					continue
				}
				for _, f := range st.Fields.List {
					if len(f.Names) == 0 {
						// embedded field: its type name
						switch t := f.Type.(type) {
						case *ast.SelectorExpr:
							fields = append(fields, t.Sel.Name)
						case *ast.Ident:
							fields = append(fields, t.Name)
						}
					}
					for _, n := range f.Names {
						fields = append(fields, n.Name)
					}
				}
			}
		case *ast.FuncDecl:
			if d.Recv == nil || len(d.Recv.List) != 1 || len(d.Recv.List[0].Names) != 1 {
				continue
			}
			if d.Name.Name != "negatesBadfilter" && d.Name.Name != "IsHigherPriority" {
				continue
			}
			if d.Type.Params == nil || len(d.Type.Params.List) != 1 || len(d.Type.Params.List[0].Names) != 1 {
				continue
			}
			recv := d.Recv.List[0].Names[0].Name
			arg := d.Type.Params.List[0].Names[0].Name
			sets := [2]map[string]bool{{}, {}}
			ast.Inspect(d.Body, func(n ast.Node) bool {
				se, ok := n.(*ast.SelectorExpr)
				if !ok {
					return true
				}
				if id, ok := se.X.(*ast.Ident); ok {
					switch id.Name {
					case recv:
						sets[0][se.Sel.Name] = true
					case arg:
						sets[1][se.Sel.Name] = true
					}
				}

				return true
			})
			var out [2][]string
			for i := range sets {
				for k := range sets[i] {
					out[i] = append(out[i], k)
				}
				sort.Strings(out[i])
			}
			reads[d.Name.Name] = out
		}
	}
	p("-- rules/network.go (go/ast): NetworkRule fields; what negatesBadfilter / IsHigherPriority read from each operand")
	p("def networkRuleFields : List String := %s", leanStrings(fields))
	p("def negatesBadfilterReadsF : List String := %s", leanStrings(reads["negatesBadfilter"][0]))
	p("def negatesBadfilterReadsR : List String := %s", leanStrings(reads["negatesBadfilter"][1]))
	p("def higherPriorityReadsF : List String := %s", leanStrings(reads["IsHigherPriority"][0]))
	p("def higherPriorityReadsR : List String := %s", leanStrings(reads["IsHigherPriority"][1]))
}

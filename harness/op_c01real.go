package main

// op family `c01.real` (C01, Go only, a search aid): the real NetworkEngine over
// the bundled real lists (testdata/easylist.txt) against rule.Match over ALL of
// its network rules, on the bundled requests (testdata/requests.json).
//   assert x<url> = T|F ## details

import (
	"bufio"
	"encoding/json"
	"fmt"
	"os"
	"sort"
	"strings"

	"github.com/AdguardTeam/urlfilter"
	"github.com/AdguardTeam/urlfilter/filterlist"
	"github.com/AdguardTeam/urlfilter/rules"
)

func init() { gens["c01.real"] = c01RealGen }

func c01RepoDir() string {
	if d := os.Getenv("VERIF_REPO"); d != "" {
		return d
	}

	return "/repo"
}

func c01ReqType(cpt string) rules.RequestType {
	switch cpt {
	case "document":
		return rules.TypeDocument
	case "sub_frame", "subdocument":
		return rules.TypeSubdocument
	case "script":
		return rules.TypeScript
	case "stylesheet":
		return rules.TypeStylesheet
	case "image", "imageset":
		return rules.TypeImage
	case "xmlhttprequest":
		return rules.TypeXmlhttprequest
	case "media":
		return rules.TypeMedia
	case "font":
		return rules.TypeFont
	case "websocket":
		return rules.TypeWebsocket
	case "ping", "beacon":
		return rules.TypePing
	case "object":
		return rules.TypeObject
	default:
		return rules.TypeOther
	}
}

func c01RealGen(r *rng, n int, w *bufio.Writer) {
	bReseed(r)
	list, err := os.ReadFile(c01RepoDir() + "/testdata/easylist.txt")
	if err != nil {
		fmt.Fprintf(w, "assert x = T ## testdata/easylist.txt not available: %v\n", err)

		return
	}
	reqData, err := os.ReadFile(c01RepoDir() + "/testdata/requests.json")
	if err != nil {
		fmt.Fprintf(w, "assert x = T ## testdata/requests.json not available: %v\n", err)

		return
	}
	s, err := filterlist.NewRuleStorage([]filterlist.RuleList{&filterlist.StringRuleList{ID: 1, RulesText: string(list), IgnoreCosmetic: true}})
	if err != nil {
		panic(err)
	}
	engine := urlfilter.NewNetworkEngine(s)
	var all []*rules.NetworkRule
	scan := s.NewRuleStorageScanner()
	for scan.Scan() {
		f, _ := scan.Rule()
		if nr, ok := f.(*rules.NetworkRule); ok {
			all = append(all, nr)
		}
	}
	lines := strings.Split(string(reqData), "\n")
	for i := 0; i < n; i++ {
		var rq struct {
			URL      string `json:"url"`
			FrameURL string `json:"frameUrl"`
			Cpt      string `json:"cpt"`
		}
		if json.Unmarshal([]byte(pick(r, lines)), &rq) != nil || rq.URL == "" {
			rq.URL, rq.FrameURL, rq.Cpt = genURL(r, nil), genSourceURL(r), "script"
		}
		q := rules.NewRequest(rq.URL, rq.FrameURL, c01ReqType(rq.Cpt))
		detail := ""
		ans := guardStr(func() string {
			got := map[string]bool{}
			for _, f := range engine.MatchAll(q) {
				got[f.RuleText] = true
			}
			want := map[string]bool{}
			for _, f := range all {
				if f.Match(q) {
					want[f.RuleText] = true
				}
			}
			var diff []string
			for t := range want {
				if !got[t] {
					diff = append(diff, "missing:"+t)
				}
			}
			for t := range got {
				if !want[t] {
					diff = append(diff, "extra:"+t)
				}
			}
			sort.Strings(diff)
			detail = fmt.Sprintf("matching=%d %s", len(want), strings.Join(diff, " "))

			return wbool(len(diff) == 0)
		})
		fmt.Fprintf(w, "assert %s = %s ## easylist (%d network rules) url=%q frame=%q cpt=%s %s\n", wb(rq.URL), ans, len(all), rq.URL, rq.FrameURL, rq.Cpt, detail)
	}
}

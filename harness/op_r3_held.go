package main

// Group R3, family `c15.held` (C15 and C13; Go-only law, `assert` lines):
//
//	assert c15.held <hash> <n queries> = T|F
//
// One scenario = 1..2 lists of cosmetic rules (element hiding, CSS injection, scriptlets/JS; generic rules, generic
// rules with `~domain` exclusions, `#@#` / `#@$#` / `#@%#` exceptions for single domains, domain-specific rules) and
// 4..24 consecutive queries on ONE engine (CosmeticEngine.Match or Engine.GetCosmeticResult) for different hostnames
// and flag combinations.  ALL results are kept; after the last call
//   - every kept result must serialise (all eight selector/script lists) exactly as it did right after its own call,
//   - and must equal the answer of a NEW engine asked this one question.
// A check that looks at each result only right after the call that produced it cannot see a result that shares
// memory with the engine.

import (
	"bufio"
	"fmt"
	"strings"

	"github.com/AdguardTeam/urlfilter"
	"github.com/AdguardTeam/urlfilter/filterlist"
	"github.com/AdguardTeam/urlfilter/rules"
)

func init() { gens["c15.held"] = r3GenHeld }

func r3GenHeld(r *rng, n int, w *bufio.Writer) {
	for i := 0; i < n; i++ {
		doms := subset(r, c15Domains, 5)
		for len(doms) < 2 {
			doms = append(doms, pick(r, c15Domains))
		}
		nLists := 1 + r.n(2)
		bodies := make([][]string, nLists)
		add := func(t string) { l := r.n(nLists); bodies[l] = append(bodies[l], t) }
		markers := []struct{ rule, exc, body string }{
			{"##", "#@#", ""}, {"##", "#@#", ""}, {"##", "#@#", ""},
			{"#$#", "#@$#", " { display: none !important; }"},
			{"#%#", "#@%#", ""},
		}
		nGen := 2 + r.n(7)
		for k := 0; k < nGen; k++ {
			m := pick(r, markers)
			content := pick(r, c15Selectors) + m.body
			if m.rule == "#%#" {
				content = fmt.Sprintf("window.__x%d = %d;", r.n(4), r.n(3))
			} else if r.chance(1, 3) {
				content = fmt.Sprintf(".g%d", k) + m.body
			}
			switch r.n(5) {
			case 0:
				add("~" + pick(r, doms) + m.rule + content)
			case 1:
				add(m.rule + content)
				add(pick(r, doms) + m.exc + content)
			case 2:
				add(pick(r, doms) + "," + pick(r, doms) + m.rule + content)
			default:
				add(m.rule + content)
			}
		}
		for k := r.n(4); k > 0; k-- {
			add(c15GenRule(r))
		}
		var lists []filterlist.RuleList
		var note []string
		for j, b := range bodies {
			shuffle(r, b)
			lists = append(lists, &filterlist.StringRuleList{ID: j + 1, RulesText: strings.Join(b, "\n") + "\n"})
			note = append(note, fmt.Sprintf("[%d] %s", j+1, strings.Join(b, " ¶ ")))
		}
		mk := func() (*urlfilter.CosmeticEngine, *urlfilter.Engine) {
			s, err := filterlist.NewRuleStorage(lists)
			if err != nil {
				panic(err)
			}

			return urlfilter.NewCosmeticEngine(s), urlfilter.NewEngine(s)
		}
		ce, fe := mk()
		ask := func(ce *urlfilter.CosmeticEngine, fe *urlfilter.Engine, via bool, host string, opt rules.CosmeticOption) urlfilter.CosmeticResult {
			if via {
				return fe.GetCosmeticResult(host, opt)
			}

			return ce.Match(host, opt&rules.CosmeticOptionCSS != 0, opt&rules.CosmeticOptionJS != 0, opt&rules.CosmeticOptionGenericCSS != 0)
		}
		type held struct {
			desc, first string
			via         bool
			host        string
			opt         rules.CosmeticOption
			res         urlfilter.CosmeticResult
		}
		var helds []held
		diff := ""
		nq := 4 + r.n(21)
		via := r.chance(1, 2) // one engine object per scenario (sometimes both, alternating)
		both := r.chance(1, 4)
		for k := 0; k < nq && diff == ""; k++ {
			host := pick(r, doms)
			switch r.n(6) {
			case 0:
				host = pick(r, []string{"www.", "sub.", "my"}) + host
			case 1:
				host = pick(r, []string{"unrelated.net", "other.example.net", c15Host(r)})
			}
			opt := rules.CosmeticOption(pick(r, []int{7, 7, 7, 5, 5, 3, 1, 6, 4, 2, 0}))
			if both {
				via = !via
			}
			h := held{via: via, host: host, opt: opt, desc: fmt.Sprintf("query %d host=%q option=%03b%s", k, host, int(opt), map[bool]string{true: " via Engine.GetCosmeticResult", false: ""}[via])}
			if p := guardStr(func() string { h.res = ask(ce, fe, via, host, opt); h.first = fSerCosmetic(h.res); return "" }); p != "" {
				diff = h.desc + ": PANIC"
			}
			helds = append(helds, h)
		}
		for _, h := range helds {
			if diff != "" {
				break
			}
			now := guardStr(func() string { return fSerCosmetic(h.res) })
			if now != h.first {
				diff = fmt.Sprintf("the result of %s CHANGED after later calls: right after the call %s, after the last call of the scenario %s", h.desc, h.first, now)

				break
			}
			nce, nfe := mk()
			if fresh := guardStr(func() string { return fSerCosmetic(ask(nce, nfe, h.via, h.host, h.opt)) }); fresh != h.first {
				diff = fmt.Sprintf("%s: after the history %s, a new engine answers %s", h.desc, h.first, fresh)
			}
		}
		text := strings.Join(note, " ‖ ")
		fmt.Fprintf(w, "assert c15.held %s %d = %s ## %d consecutive cosmetic queries on one engine, all results kept and compared after the last call; %slists: %s\n",
			fHash(text+fmt.Sprint(i)), nq, wbool(diff == ""), nq, map[bool]string{true: "", false: "FIRST DIFFERENCE: " + diff + "; "}[diff == ""], strings.ReplaceAll(text, "\n", "\\n"))
	}
}

package main

// Generated facts of work group D (C11, C20): buffer and window sizes.

import (
	"github.com/AdguardTeam/urlfilter/filterlist"
	"github.com/AdguardTeam/urlfilter/proxy"
)

func init() {
	factSections = append(factSections, func(p func(format string, a ...any)) {
		p("-- filterlist/rulelist.go: readerBufferSize; proxy/htmlfilter.go: headBufferSize")
		p("def readerBufferSize : Nat := %d", filterlist.VerifReaderBufferSize)
		p("def headBufferSize : Nat := %d", proxy.VerifHeadBufferSize)
	})
}

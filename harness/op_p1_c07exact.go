package main

// Group P1 (second adversarial review, F7) -- C07 at TEXT level, the cases group L's family did not append:
// `document`, `~extension`, a repeated modifier, a list-valued modifier written again, one more VALUE in a
// list-valued modifier.  The lines are part of the family `l.c07text` (Go-side asserts; the driver answers `T T`):
//
//	assert l.c07text <kind> <t> <t'> = T|F
//
// T iff (t'.IsHigherPriority(t), t.IsHigherPriority(t')) is what the theorems of
// lean/UF/Props/C07TextExact.lean say.  The expected pair is a DIRECT TRANSCRIPTION of the right-hand side of the
// theorem named next to each case below, evaluated on the fields of the two parsed rules (VerifRaw) exactly as the
// theorem's right-hand side reads them (popCount = bits.OnesCount, docBits = the five option bits of `$document`).

import (
	"bufio"
	"fmt"
	"math/bits"

	"github.com/AdguardTeam/urlfilter/rules"
)

// docBits of UF/Compose5/Effect.lean.
const p1DocBits = rules.OptionElemhide | rules.OptionJsinject | rules.OptionUrlblock | rules.OptionContent |
	rules.OptionExtension

// E.documentOnlyOptions of the parser model (rules/network.go: the options that force `document`).
var p1DocOnly = []rules.NetworkRuleOption{rules.OptionJsinject, rules.OptionElemhide, rules.OptionContent,
	rules.OptionUrlblock, rules.OptionGenericblock, rules.OptionGenerichide, rules.OptionExtension, rules.OptionPopup}

func p1PopOpt(o rules.NetworkRuleOption) int { return bits.OnesCount64(uint64(o)) }
func p1PopType(t rules.RequestType) int      { return bits.OnesCount64(uint64(t)) }

func p1IsDocOnly(f *rules.NetworkRule) bool {
	for _, o := range p1DocOnly {
		if f.IsOptionEnabled(o) {
			return true
		}
	}

	return false
}

var p1OptBit = map[string]rules.NetworkRuleOption{
	"important": rules.OptionImportant, "badfilter": rules.OptionBadfilter, "matchCase": rules.OptionMatchCase,
	"elemhide": rules.OptionElemhide, "generichide": rules.OptionGenerichide, "genericblock": rules.OptionGenericblock,
	"jsinject": rules.OptionJsinject, "urlblock": rules.OptionUrlblock, "content": rules.OptionContent,
	"extension": rules.OptionExtension, "popup": rules.OptionPopup, "stealth": rules.OptionStealth,
	"empty": rules.OptionEmpty, "mp4": rules.OptionMp4,
}

var p1TypeBit = map[string]rules.RequestType{
	"script": rules.TypeScript, "stylesheet": rules.TypeStylesheet, "subdocument": rules.TypeSubdocument,
	"object": rules.TypeObject, "image": rules.TypeImage, "xmlhttprequest": rules.TypeXmlhttprequest,
	"media": rules.TypeMedia, "font": rules.TypeFont, "websocket": rules.TypeWebsocket, "ping": rules.TypePing,
	"other": rules.TypeOther,
}

// p1CarriedBy transcribes `Mod.carriedBy` (UF/Compose5/AppendX.lean) for the bare modifiers.
func p1CarriedBy(f *rules.NetworkRule, m lMod) bool {
	raw := f.VerifRaw()
	switch m.kind {
	case "opt":
		return f.IsOptionEnabled(p1OptBit[m.word])
	case "tp":
		return f.IsOptionEnabled(rules.OptionThirdParty)
	case "fp":
		return f.IsOptionDisabled(rules.OptionThirdParty)
	case "nmc":
		return f.IsOptionDisabled(rules.OptionMatchCase)
	case "doc":
		return raw.EnabledOptions&p1DocBits == p1DocBits
	case "ct":
		b := p1TypeBit[m.word]
		if m.neg {
			return raw.RestrictedRequestTypes&b == b
		}

		return p1IsDocOnly(f) || raw.PermittedRequestTypes&b == b
	}

	return false
}

var p1NotExtension = lMod{kind: "opt", word: "notExtension", text: "~extension"}

func p1PosCount(vs []lVal) (n int) {
	for _, v := range vs {
		if !v.neg {
			n++
		}
	}

	return n
}

func p1IsList(kind string) bool {
	switch kind {
	case "domain", "denyallow", "dnstype", "ctag", "client":
		return true
	}

	return false
}

func p1Pool(kind string) []string {
	return map[string][]string{"domain": lPoolDomains, "dnstype": lPoolDNS, "ctag": lPoolTags,
		"client": lPoolClients, "denyallow": lPoolDomains[:4]}[kind]
}

// p1Base builds the modifiers of the original text: group L's generator, or a shape aimed at a boundary of the
// theorems (k content types and a few of the option bits the comparison counts); `~extension` may already occur.
func p1Base(r *rng, exc bool) (ms []lMod) {
	switch r.n(4) {
	case 0:
		ms = lGenMods(r, exc)
	default:
		for _, c := range subset(r, lCTypes, 8) {
			ms = append(ms, lMod{kind: "ct", word: c, text: c})
		}
		if exc && r.chance(1, 2) {
			for _, o := range subset(r, lOpts[3:10], 6) { // elemhide … extension
				if r.chance(1, 2) {
					ms = append(ms, lMod{kind: "opt", word: o[0], text: o[1]})
				}
			}
			if r.chance(1, 4) {
				ms = append(ms, lMod{kind: "doc"})
			}
		} else if !exc && r.chance(1, 4) {
			ms = append(ms, lMod{kind: "opt", word: "popup", text: "popup"})
		}
		if r.chance(1, 4) {
			k := pick(r, []string{"domain", "ctag", "client", "dnstype", "denyallow"})
			ms = append(ms, lMod{kind: k, vals: lGenVals(r, p1Pool(k), k != "denyallow")})
		}
		shuffle(r, ms)
	}
	if r.chance(1, 6) {
		// `~extension` somewhere in the original text (the extended grammar of the theorems)
		j := r.n(len(ms) + 1)
		ms = append(ms[:j:j], append([]lMod{p1NotExtension}, ms[j:]...)...)
	}

	return ms
}

// p1C07Exact writes one line; false = the drawn case does not apply (try again).
func p1C07Exact(r *rng, w *bufio.Writer) bool {
	exc := r.chance(2, 3)
	pat := pick(r, lPoolPatterns)
	ms := p1Base(r, exc)
	ms2 := append([]lMod{}, ms...)
	var kind string
	// what the theorem's right-hand side needs besides the two parsed rules
	var want func(f, f2 *rules.NetworkRule) (w [2]bool, ok bool)
	tie := [2]bool{false, false}
	switch r.n(9) {
	case 0, 1:
		// c07_text_document_iff:
		//   (decide (popCount r.permTypes + popCount (r.enabled &&& docBits) < 6),
		//    decide (popCount r.permTypes + popCount (r.enabled &&& docBits) > 6))
		if !exc {
			return false
		}
		ms2 = append(ms2, lMod{kind: "doc"})
		kind = "document"
		want = func(f, _ *rules.NetworkRule) ([2]bool, bool) {
			raw := f.VerifRaw()
			n := p1PopType(raw.PermittedRequestTypes) + p1PopOpt(raw.EnabledOptions&p1DocBits)
			kind = fmt.Sprintf("document-on-%d", n)

			return [2]bool{n < 6, n > 6}, true
		}
	case 2, 3:
		// c07_text_not_extension_iff:
		//   r.isEnabled OptionExtension = false → (decide (popCount r.permTypes < 2), decide (popCount r.permTypes > 2))
		//   r.isEnabled OptionExtension = true  → (decide (popCount r'.permTypes > 2), decide (popCount r'.permTypes < 2))
		ms2 = append(ms2, p1NotExtension)
		want = func(f, f2 *rules.NetworkRule) ([2]bool, bool) {
			if !f.IsOptionEnabled(rules.OptionExtension) {
				n := p1PopType(f.VerifRaw().PermittedRequestTypes)
				kind = fmt.Sprintf("~extension-sets-on-%d", n)

				return [2]bool{n < 2, n > 2}, true
			}
			n := p1PopType(f2.VerifRaw().PermittedRequestTypes)
			kind = fmt.Sprintf("~extension-clears-to-%d", n)

			return [2]bool{n > 2, n < 2}, true
		}
	case 4:
		// c07_text_repeat_tie: Mod.carriedBy r m = true → (false, false)
		var bare []lMod
		for _, m := range ms {
			if !p1IsList(m.kind) && m.word != "notExtension" {
				bare = append(bare, m)
			}
		}
		if len(bare) == 0 {
			return false
		}
		m := pick(r, bare)
		if (m.kind == "tp" || m.kind == "fp") && r.chance(1, 2) {
			m.alt = !m.alt // the other spelling of the same modifier
		}
		ms2 = append(ms2, m)
		kind = "repeat-" + m.kind
		want = func(f, _ *rules.NetworkRule) ([2]bool, bool) { return tie, p1CarriedBy(f, m) }
	case 5, 6:
		// a list-valued modifier written again.
		// c07_text_domain_again_iff (hhas: the rule has `$domain`):
		//   (r.isGeneric && !(posVals vs).isEmpty, !r.isGeneric && (posVals vs).isEmpty)
		// c07_text_list_again_tie (hhas: the rule counts the modifier): (false, false)
		var have []string
		for _, m := range ms {
			if p1IsList(m.kind) {
				have = append(have, m.kind)
			}
		}
		if len(have) == 0 {
			return false
		}
		k := pick(r, have)
		vs := lGenVals(r, p1Pool(k), k != "denyallow")
		ms2 = append(ms2, lMod{kind: k, vals: vs})
		kind = "again-" + k
		want = func(f, _ *rules.NetworkRule) ([2]bool, bool) {
			raw := f.VerifRaw()
			switch k {
			case "domain":
				hhas := len(raw.PermittedDomains) != 0 || len(raw.RestrictedDomains) != 0
				posEmpty := p1PosCount(vs) == 0

				return [2]bool{f.IsGeneric() && !posEmpty, !f.IsGeneric() && posEmpty}, hhas
			case "denyallow":
				return tie, len(raw.DenyAllowDomains) != 0
			case "dnstype":
				return tie, len(raw.PermittedDNSTypes) != 0 || len(raw.RestrictedDNSTypes) != 0
			case "ctag":
				return tie, len(raw.PermittedClientTags) != 0 || len(raw.RestrictedClientTags) != 0
			default:
				cl := func(c *rules.VerifClients) int {
					if c == nil {
						return 0
					}

					return len(c.Hosts) + len(c.Nets)
				}

				return tie, cl(raw.PermittedClients) != 0 || cl(raw.RestrictedClients) != 0
			}
		}
	default:
		// c07_text_add_value_iff:
		//   (decide (k = .domain) && (posVals (a ++ b)).isEmpty && !v.1 && !post.any XMod.isDomain, false)
		var idx []int
		for j, m := range ms {
			if p1IsList(m.kind) {
				idx = append(idx, j)
			}
		}
		if len(idx) == 0 {
			return false
		}
		if r.chance(1, 5) {
			// a later `$domain` in both texts (erases the generic/specific difference)
			d := lMod{kind: "domain", vals: lGenVals(r, lPoolDomains, true)}
			ms = append(ms, d)
			ms2 = append(ms2, d)
		}
		j := pick(r, idx)
		k := ms[j].kind
		old := ms[j].vals
		v := lVal{v: pick(r, p1Pool(k))}
		if k != "denyallow" {
			v.neg = r.chance(1, 2)
		}
		at := r.n(len(old) + 1)
		nv := append(append(append([]lVal{}, old[:at]...), v), old[at:]...)
		ms2[j] = lMod{kind: k, vals: nv}
		postHasDomain := false
		for _, m := range ms[j+1:] {
			if m.kind == "domain" {
				postHasDomain = true
			}
		}
		kind = "addvalue-" + k
		want = func(_, _ *rules.NetworkRule) ([2]bool, bool) {
			return [2]bool{k == "domain" && p1PosCount(old) == 0 && !v.neg && !postHasDomain, false}, true
		}
	}
	t, t2 := lRender(exc, pat, ms), lRender(exc, pat, ms2)
	f, err := guardRule(t, 1)
	f2, err2 := guardRule(t2, 2)
	if err != nil || err2 != nil || f == nil || f2 == nil {
		return false
	}
	wnt, ok := want(f, f2)
	if !ok {
		return false
	}
	got := [2]bool{f2.IsHigherPriority(f), f.IsHigherPriority(f2)}
	fmt.Fprintf(w, "assert l.c07text %s %s %s = %s ## %s: %s  ->  %s  got=%v want=%v\n", wb(kind), wb(t), wb(t2),
		wbool(got == wnt), kind, noteStr(t), noteStr(t2), got, wnt)

	return true
}

package main

// Group L, C09 -- the relation "exception disables rewrite" from the property text
// (lean/UF/Props/C09Text.lean), aimed at MIXED pairs: CNAME exceptions against
// rcode-only / bare NOERROR / other-CNAME / A rewrites and the other way round.
//
//	l.c09mixed (<R>…) = (<idx>,…)      res.NetworkRules -> indexes of DNSRewrites(), in order
//	                                   (same format as c09.rewrites; the driver's spec token is the
//	                                   text-level reference specRewritesText, not specRewrites)
//	assert l.c09naive <texts> = T|F    the NAIVE reading of the text ("same new CNAME, OR same rcode …")
//	                                   is refuted by the real code: the CNAME exception does not disable
//	                                   the bare NOERROR rewrite nor a rewrite to another CNAME
//
// Half of the l.c09mixed lines go through a real DNSEngine (c09Engine).

import (
	"bufio"
	"fmt"
	"strings"

	"github.com/AdguardTeam/urlfilter"
	"github.com/AdguardTeam/urlfilter/rules"
)

func init() {
	gens["l.c09mixed"] = lGenC09Mixed
}

// lC09Bare are the values that parse to rcode 0, no type, no value, no CNAME
// (the empty DNSRewrite) although the rule "has a value".
var lC09Bare = []string{"NOERROR", "NOERROR;;"}

// lC09CNAMEs are spellings of CNAME values: short form and full form of the
// same names.
// (N2: names that differ in letter case only are DIFFERENT new CNAMEs.)
var lC09CNAMEs = []string{"x.net", "y.net", "NOERROR;CNAME;x.net", "NOERROR;CNAME;y.net", "X.net", "x.NET", "NOERROR;CNAME;X.net", "noerror;cname;x.net"}

// lC09Rcodes are rcode-only values, keyword and full forms.
var lC09Rcodes = []string{"NXDOMAIN", "REFUSED", "SERVFAIL", "NXDOMAIN;;", "REFUSED;;", "SERVFAIL;;"}

// lC09Records are successful responses with a record; the TXT/PTR values
// repeat the CNAME names so that "same value" and "same new CNAME" are told apart.
var lC09Records = []string{
	"1.2.3.4", "NOERROR;A;1.2.3.4", "1.2.3.5", "::1", "NOERROR;AAAA;::1",
	"NOERROR;TXT;x.net", "NOERROR;PTR;x.net.", "NOERROR;MX;10 x.net", "NOERROR;MX;10 y.net",
	// N2: values differing in ONE component (letter case, preference, priority / weight / port, one parameter, trailing dot)
	"NOERROR;TXT;X.net", "NOERROR;PTR;X.net.", "NOERROR;PTR;x.net", "NOERROR;MX;10 X.net", "NOERROR;MX;266 x.net", "NOERROR;MX;11 x.net",
	"NOERROR;SRV;1 2 80 x.net", "NOERROR;SRV;2 2 80 x.net", "NOERROR;SRV;1 258 80 x.net", "NOERROR;SRV;1 2 8080 x.net", "NOERROR;SRV;1 2 80 X.net",
	"NOERROR;HTTPS;1 x.net alpn=h3", "NOERROR;HTTPS;2 x.net alpn=h3", "NOERROR;HTTPS;1 x.net alpn=h2", "NOERROR;HTTPS;1 x.net alpn=h3 port=443",
	"NOERROR;HTTPS;1 x.net", "NOERROR;SVCB;1 x.net alpn=h3", "NOERROR;HTTPS;1 X.net alpn=h3", "2001:db8::1", "2001:db8::2", "NOERROR;AAAA;2001:db8::1",
}

// lC09NoHandler are successful responses of record types WITHOUT a value parser
// (the parsed value is nil whatever the text says): as exceptions they are
// "exceptions with a value" that disable the rewrites of the same type only --
// not the bare NOERROR rewrite, not records of other types, and they are not the
// empty disable-everything value.
var lC09NoHandler = []string{
	"NOERROR;NS;x.net", "NOERROR;NS;y.net", "NOERROR;SOA;x.net", "NOERROR;CAA;0 issue x.net", "NOERROR;NAPTR;",
	"NOERROR;DS;", "NOERROR;DNAME;x.net", "NOERROR;ANY;x",
}

func lC09Value(r *rng) string {
	if r.chance(1, 8) {
		return pick(r, lC09NoHandler)
	}
	switch r.n(10) {
	case 0, 1:
		return pick(r, lC09Bare)
	case 2, 3, 4:
		return pick(r, lC09CNAMEs)
	case 5, 6:
		return pick(r, lC09Rcodes)
	default:
		return pick(r, lC09Records)
	}
}

func lC09Rule(r *rng, exc bool, v string, impNum, impDen int) string {
	t := "||e.org^$dnsrewrite"
	if v != "" {
		t += "=" + v
	}
	if exc {
		t = "@@" + t
	}
	if r.chance(impNum, impDen) {
		t += ",important"
	}

	return t
}

// lC09Pair returns a rewrite and an exception built to be a MIXED pair.
func lC09Pair(r *rng) (rw, exc string) {
	imp := func() (int, int) { return 1, 6 }
	n, d := imp()
	switch r.n(24) {
	case 20, 21:
		// a record type without a value parser as exception (value nil, type set) against anything:
		// disables only rewrites of the same type
		return lC09Rule(r, false, lC09Value(r), n, d), lC09Rule(r, true, pick(r, lC09NoHandler), n, d)
	case 22:
		// the same as rewrite, against bare NOERROR / empty / same-type / other-type exceptions
		return lC09Rule(r, false, pick(r, lC09NoHandler), n, d), lC09Rule(r, true, pick(r, append(append([]string{""}, lC09Bare...), lC09NoHandler...)), n, d)
	case 23:
		// no-parser types against each other (NS x.net / NS y.net are the SAME value: nil)
		return lC09Rule(r, false, pick(r, lC09NoHandler), 1, 2), lC09Rule(r, true, pick(r, lC09NoHandler), 1, 2)
	case 0, 1, 2:
		// the review's edge case: bare NOERROR rewrite, CNAME exception
		return lC09Rule(r, false, pick(r, lC09Bare), n, d), lC09Rule(r, true, pick(r, lC09CNAMEs), n, d)
	case 3:
		// the other way round: CNAME rewrite, NOERROR exception (= the empty value: disables)
		return lC09Rule(r, false, pick(r, lC09CNAMEs), n, d), lC09Rule(r, true, pick(r, lC09Bare), n, d)
	case 4, 5, 6:
		// CNAME against CNAME: same / other name, short / full form
		return lC09Rule(r, false, pick(r, lC09CNAMEs), n, d), lC09Rule(r, true, pick(r, lC09CNAMEs), n, d)
	case 7, 8:
		// record rewrite, CNAME exception (TXT x.net / PTR x.net. / MX … x.net carry the name as VALUE)
		return lC09Rule(r, false, pick(r, lC09Records), n, d), lC09Rule(r, true, pick(r, lC09CNAMEs), n, d)
	case 9:
		// CNAME rewrite, record exception
		return lC09Rule(r, false, pick(r, lC09CNAMEs), n, d), lC09Rule(r, true, pick(r, lC09Records), n, d)
	case 10, 11:
		// rcode-only against each other
		return lC09Rule(r, false, pick(r, lC09Rcodes), n, d), lC09Rule(r, true, pick(r, lC09Rcodes), n, d)
	case 12:
		// rcode-only rewrite, CNAME exception and vice versa
		if r.chance(1, 2) {
			return lC09Rule(r, false, pick(r, lC09Rcodes), n, d), lC09Rule(r, true, pick(r, lC09CNAMEs), n, d)
		}

		return lC09Rule(r, false, pick(r, lC09CNAMEs), n, d), lC09Rule(r, true, pick(r, lC09Rcodes), n, d)
	case 13, 14:
		// bare NOERROR against rcode-only / records, both directions
		if r.chance(2, 3) {
			return lC09Rule(r, false, pick(r, lC09Bare), n, d), lC09Rule(r, true, pick(r, append(append([]string{}, lC09Rcodes...), lC09Records...)), n, d)
		}

		return lC09Rule(r, false, pick(r, append(append([]string{}, lC09Rcodes...), lC09Records...)), n, d), lC09Rule(r, true, pick(r, lC09Bare), n, d)
	case 15, 16:
		// records against records (same / other value, short / full form)
		return lC09Rule(r, false, pick(r, lC09Records), n, d), lC09Rule(r, true, pick(r, lC09Records), n, d)
	case 17:
		// empty-valued exception against anything, importance on either side often
		return lC09Rule(r, false, lC09Value(r), 1, 2), lC09Rule(r, true, "", 1, 2)
	default:
		// importance on either side of an otherwise matching pair
		v := lC09Value(r)

		return lC09Rule(r, false, v, 1, 2), lC09Rule(r, true, v, 1, 2)
	}
}

func lC09Emit(w *bufio.Writer, nrs []*rules.NetworkRule, via string) {
	enc := make([]string, len(nrs))
	ts := make([]string, len(nrs))
	for i, f := range nrs {
		enc[i] = wnetrule(f)
		ts[i] = f.RuleText
	}
	ans := guardStr(func() string {
		res := &urlfilter.DNSResult{NetworkRules: append([]*rules.NetworkRule(nil), nrs...)}

		return c09Indexes(nrs, res.DNSRewrites())
	})
	fmt.Fprintf(w, "l.c09mixed %s = %s ## %s: %s\n", wlist(enc...), ans, via, strings.Join(ts, "  ;  "))
}

func lC09Parse(ts []string) (out []*rules.NetworkRule) {
	for _, t := range ts {
		f, err := rules.NewNetworkRule(t, 1)
		if err != nil {
			panic(fmt.Sprintf("l.c09mixed: %q: %v", t, err))
		}
		out = append(out, f)
	}

	return out
}

// lC09Naive checks on the real code that the naive reading is wrong: in
// [rewrite, CNAME exception] with rewrite = bare NOERROR or a rewrite to another
// name the rewrite stays effective (through DNSResult and through a DNSEngine).
func lC09Naive(w *bufio.Writer, rw, exc string) {
	ts := []string{rw, exc}
	var got1, got2 []string
	ans := guardStr(func() string {
		nrs := lC09Parse(ts)
		for _, f := range (&urlfilter.DNSResult{NetworkRules: nrs}).DNSRewrites() {
			got1 = append(got1, f.RuleText)
		}
		_, res := c09Engine(ts)
		for _, f := range res.DNSRewrites() {
			got2 = append(got2, f.RuleText)
		}

		return wbool(len(got1) == 1 && got1[0] == rw && len(got2) == 1 && got2[0] == rw)
	})
	fmt.Fprintf(w, "assert l.c09naive %s = %s ## [%s] -> DNSResult %q, DNSEngine %q (the naive reading of C09 would return nothing)\n",
		wstrs(ts), ans, strings.Join(ts, "  ;  "), got1, got2)
}

func lGenC09Mixed(r *rng, n int, w *bufio.Writer) {
	// fixed lines first: the edge case of the review and its relatives
	lC09Naive(w, "||e.org^$dnsrewrite=NOERROR", "@@||e.org^$dnsrewrite=x.net")
	lC09Naive(w, "||e.org^$dnsrewrite=NOERROR;;", "@@||e.org^$dnsrewrite=NOERROR;CNAME;x.net")
	lC09Naive(w, "||e.org^$dnsrewrite=y.net", "@@||e.org^$dnsrewrite=x.net")
	lC09Naive(w, "||e.org^$dnsrewrite=NOERROR;CNAME;y.net", "@@||e.org^$dnsrewrite=x.net")
	lC09Emit(w, lC09Parse([]string{"||e.org^$dnsrewrite=NOERROR", "@@||e.org^$dnsrewrite=x.net"}), "direct")
	lC09Emit(w, lC09Parse([]string{"||e.org^$dnsrewrite=x.net", "@@||e.org^$dnsrewrite=NOERROR"}), "direct")
	lC09Emit(w, lC09Parse([]string{"||e.org^$dnsrewrite=x.net", "@@||e.org^$dnsrewrite=NOERROR;CNAME;x.net"}), "direct")
	lC09Emit(w, lC09Parse([]string{"||e.org^$dnsrewrite=y.net", "@@||e.org^$dnsrewrite=x.net", "||e.org^$dnsrewrite=NOERROR;;", "||e.org^$dnsrewrite=NOERROR;TXT;x.net"}), "direct")
	for i := 0; i < n; i++ {
		k := 2 + r.n(5)
		var ts []string
		for len(ts) < k {
			switch {
			case len(ts)+2 <= k && r.chance(3, 4):
				rw, exc := lC09Pair(r)
				if r.chance(1, 2) {
					ts = append(ts, rw, exc)
				} else {
					ts = append(ts, exc, rw)
				}
			case r.chance(1, 10):
				// a rule without $dnsrewrite (ignored by DNSRewritesAll)
				ts = append(ts, pick(r, []string{"||e.org^", "@@||e.org^", "@@||e.org^$important"}))
			default:
				exc, v := r.chance(2, 5), lC09Value(r)
				if exc && (v == "NOERROR" || v == "NOERROR;;") && r.chance(2, 3) {
					// a bare NOERROR exception is the empty value and disables everything: keep it rare
					v = pick(r, lC09CNAMEs)
				}
				ts = append(ts, lC09Rule(r, exc, v, 1, 5))
			}
		}
		if r.chance(1, 3) {
			shuffle(r, ts)
		}
		if r.chance(1, 2) {
			lC09Emit(w, lC09Parse(ts), "direct")
		} else {
			nrs, _ := c09Engine(ts)
			lC09Emit(w, nrs, "DNSEngine")
		}
		if i%50 == 49 {
			// the naive reading, refuted on generated pairs too
			bare := lC09Rule(r, false, pick(r, append(append([]string{}, lC09Bare...), "y.net", "NOERROR;CNAME;y.net")), 0, 1)
			exc := lC09Rule(r, true, pick(r, []string{"x.net", "NOERROR;CNAME;x.net"}), 1, 2)
			lC09Naive(w, bare, exc)
		}
	}
}

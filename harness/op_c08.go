package main

// C08 -- $badfilter disables exactly its twins.
//
//	c08.negates <R b> <R r> = T|F            b.negatesBadfilter(r)
//	c08.removebad (<R>…) = (<idx>…)          indexes of the survivors of removeBadfilterRules, in order
//	assert c08.web … = T|F                   verdict(L + twins) == verdict(L) through NetworkEngine.Match
//	assert c08.dns … = T|F                   … through DNSEngine.MatchRequest (res.NetworkRule)
//
// Rules are built from a modifier map over one pattern so that twins, and
// near-twins differing in exactly one modifier value, can be constructed.

import (
	"bufio"
	"fmt"
	"sort"
	"strings"

	"github.com/AdguardTeam/urlfilter"
	"github.com/AdguardTeam/urlfilter/filterlist"
	"github.com/AdguardTeam/urlfilter/rules"
)

func init() {
	gens["c08.negates"] = genC08Negates
	gens["c08.removebad"] = genC08RemoveBad
	gens["c08.engine"] = genC08Engine
}

type c08Spec struct {
	exc  bool
	pat  string
	mods map[string]string // modifier group -> value text ("" never stored)
}

// modifier groups and their alternative values; a value is the literal text
// put into the rule (possibly several comma-separated modifiers).
var c08Values = map[string][]string{
	"important": {"important"},
	"party":     {"third-party", "~third-party"},
	"case":      {"match-case"},
	"ct":        {"script", "image", "script,image", "~media", "script,~media"},
	"domain":    {"domain=site.com", "domain=site.com|other.org", "domain=other.org|site.com", "domain=~other.org", "domain=other.org"},
	"denyallow": {"denyallow=a.com", "denyallow=b.com", "denyallow=a.com|b.com"},
	"dnstype":   {"dnstype=A", "dnstype=AAAA", "dnstype=~AAAA", "dnstype=A|AAAA", "dnstype=AAAA|A"},
	"ctag":      {"ctag=a", "ctag=a|b", "ctag=b|a", "ctag=~c", "ctag=b"},
	"client": {"client=a", "client=a|b", "client=b|a", "client=10.0.0.0/8", "client=~b", "client=a|10.0.0.0/8", "client=10.0.0.0/8|a",
		"client=Laptop", "client=laptop", "client=~Laptop", "client=~laptop", "client='Kids-PC'|Laptop", "client='Kids-PC'|laptop"},
	"dnsrewrite": {"dnsrewrite=1.2.3.4", "dnsrewrite=1.2.3.5", "dnsrewrite=NOERROR;MX;10 m.e.org", "dnsrewrite=NOERROR;MX;20 m.e.org", "dnsrewrite=NOERROR;HTTPS;1 . alpn=h3", "dnsrewrite=NOERROR;HTTPS;1 . alpn=h2", "dnsrewrite=NOERROR;HTTPS;1 .", "dnsrewrite=NOERROR;SRV;1 2 80 s.e.org", "dnsrewrite=NXDOMAIN", "dnsrewrite=REFUSED", "dnsrewrite=new.e.org", "dnsrewrite=NOERROR;TXT;hello", "dnsrewrite=::1",
		"dnsrewrite=NOERROR;TXT;v=spf1;include-a", "dnsrewrite=NOERROR;TXT;v=spf1;include-b"},
	"wl": {"urlblock", "genericblock", "elemhide", "stealth"},
	"bl": {"popup"},
}

var c08GroupsWeb = []string{"important", "party", "case", "ct", "domain", "denyallow", "dnstype", "ctag", "client", "dnsrewrite", "wl", "bl"}
var c08GroupsDNS = []string{"important", "ct", "denyallow", "dnstype", "ctag", "client", "dnsrewrite"}
var c08Patterns = []string{"||e.org^", "||e.org^", "||e.org^", "e.org", "|http://e.org/"}

// canon identifies the parsed rule up to text: groups whose values are sorted
// by the parser ($ctag, $client) are compared as sets.
func (s c08Spec) canon() string {
	var parts []string
	for g, v := range s.mods {
		if g == "ctag" || g == "client" {
			eq := strings.IndexByte(v, '=')
			vals := strings.Split(v[eq+1:], "|")
			sort.Strings(vals)
			v = v[:eq+1] + strings.Join(vals, "|")
		}
		if g == "ct" {
			vals := strings.Split(v, ",")
			sort.Strings(vals)
			v = strings.Join(vals, ",")
		}
		parts = append(parts, v)
	}
	sort.Strings(parts)

	return fmt.Sprintf("%v|%s|%s", s.exc, s.pat, strings.Join(parts, ","))
}

func (s c08Spec) text(r *rng, bad bool) string {
	var mods []string
	for _, g := range sortedKeys(s.mods) {
		mods = append(mods, s.mods[g])
	}
	if bad {
		mods = append(mods, "badfilter")
	}
	if r != nil {
		shuffle(r, mods)
	}
	t := s.pat
	if s.exc {
		t = "@@" + t
	}
	if len(mods) > 0 {
		t += "$" + strings.Join(mods, ",")
	}

	return t
}

func sortedKeys(m map[string]string) (ks []string) {
	for k := range m {
		ks = append(ks, k)
	}
	sort.Strings(ks)

	return ks
}

func (s c08Spec) clone() c08Spec {
	m := map[string]string{}
	for k, v := range s.mods {
		m[k] = v
	}

	return c08Spec{exc: s.exc, pat: s.pat, mods: m}
}

func (s c08Spec) valid() bool {
	_, err := rules.NewNetworkRule(s.text(nil, false), 1)

	return err == nil
}

func c08Groups(dns bool) []string {
	if dns {
		return c08GroupsDNS
	}

	return c08GroupsWeb
}

func genC08Spec(r *rng, dns bool) c08Spec {
	for {
		s := c08Spec{exc: r.chance(1, 3), pat: pick(r, c08Patterns), mods: map[string]string{}}
		if dns {
			s.pat = "||e.org^"
		}
		for _, g := range c08Groups(dns) {
			p := 5
			if g == "wl" || g == "bl" || g == "dnsrewrite" {
				p = 10
			}
			if r.chance(1, p) {
				if (g == "wl" && !s.exc) || (g == "bl" && s.exc) {
					continue
				}
				s.mods[g] = pick(r, c08Values[g])
			}
		}
		if s.valid() {
			return s
		}
	}
}

// nearTwin changes exactly one modifier group of s (other value, removal or
// addition), or the exception flag, or the pattern.
func c08NearTwin(r *rng, s c08Spec, dns bool) c08Spec {
	for {
		t := s.clone()
		switch r.n(12) {
		case 0:
			if dns {
				continue
			}
			t.pat = pick(r, c08Patterns)
		case 1:
			t.exc = !t.exc
			delete(t.mods, "wl")
			delete(t.mods, "bl")
		default:
			g := pick(r, c08Groups(dns))
			if (g == "wl" && !t.exc) || (g == "bl" && t.exc) {
				continue
			}
			if _, ok := t.mods[g]; ok && r.chance(1, 3) {
				delete(t.mods, g)
			} else {
				t.mods[g] = pick(r, c08Values[g])
			}
		}
		if t.canon() != s.canon() && t.valid() {
			return t
		}
	}
}

// c08Fields renders every parsed field of f except the text, the list id, the
// shortcut and the badfilter bit: two rules are "structurally distinct" iff
// these differ.  (Computed from the field dump, not with negatesBadfilter.)
func c08Fields(f *rules.NetworkRule) string {
	v := f.VerifRaw()

	return wlist(wbool(f.Whitelist), wb(v.Pattern),
		wstrs(v.PermittedDomains), wstrs(v.RestrictedDomains), wstrs(v.DenyAllowDomains),
		wu16s(v.PermittedDNSTypes), wu16s(v.RestrictedDNSTypes),
		wstrs(v.PermittedClientTags), wstrs(v.RestrictedClientTags),
		wclients(v.PermittedClients), wclients(v.RestrictedClients),
		fmt.Sprint(uint64(v.EnabledOptions&^rules.OptionBadfilter)), fmt.Sprint(uint64(v.DisabledOptions)),
		fmt.Sprint(uint32(v.PermittedRequestTypes)), fmt.Sprint(uint32(v.RestrictedRequestTypes)),
		wrewrite(f.DNSRewrite))
}

func c08Parse(t string) *rules.NetworkRule {
	f, err := rules.NewNetworkRule(t, 1)
	if err != nil {
		panic(t + ": " + err.Error())
	}

	return f
}

func genC08Negates(r *rng, n int, w *bufio.Writer) {
	emit := func(b, x *rules.NetworkRule) {
		ans := guardStr(func() string { return wbool(b.VerifNegatesBadfilter(x)) })
		fmt.Fprintf(w, "c08.negates %s %s = %s ## %s  negates?  %s\n", wnetrule(b), wnetrule(x), ans, b.RuleText, x.RuleText)
	}
	// D7 replay
	emit(c08Parse("||e.org^$denyallow=b.com,badfilter"), c08Parse("||e.org^$denyallow=a.com"))
	emit(c08Parse("||e.org^$dnstype=A,badfilter"), c08Parse("||e.org^$dnstype=AAAA"))
	emit(c08Parse("||e.org^$dnsrewrite=1.2.3.4,badfilter"), c08Parse("||e.org^$dnsrewrite=1.2.3.5"))
	emit(c08Parse("||e.org^$dnsrewrite=NOERROR;MX;10 m.e.org,badfilter"), c08Parse("||e.org^$dnsrewrite=NOERROR;MX;10 m.e.org"))
	emit(c08Parse("||e.org^$dnsrewrite=NOERROR;HTTPS;1 . alpn=h3,badfilter"), c08Parse("||e.org^$dnsrewrite=NOERROR;HTTPS;1 . alpn=h3"))
	emit(c08Parse("||e.org^$dnsrewrite=NOERROR;HTTPS;1 . alpn=h3,badfilter"), c08Parse("||e.org^$dnsrewrite=NOERROR;HTTPS;1 ."))
	for i := 0; i < n; i++ {
		dns := r.chance(1, 3)
		x := genC08Spec(r, dns)
		switch r.n(8) {
		case 0, 1:
			emit(c08Parse(x.text(r, true)), c08Parse(x.text(r, false)))
		case 2, 3, 4:
			y := c08NearTwin(r, x, dns)
			if r.chance(1, 2) {
				emit(c08Parse(x.text(r, true)), c08Parse(y.text(r, false)))
			} else {
				emit(c08Parse(y.text(r, true)), c08Parse(x.text(r, false)))
			}
		case 5:
			// not a badfilter rule on the left / badfilter on both sides / reversed
			switch r.n(3) {
			case 0:
				emit(c08Parse(x.text(r, false)), c08Parse(x.text(r, false)))
			case 1:
				emit(c08Parse(x.text(r, true)), c08Parse(x.text(r, true)))
			default:
				emit(c08Parse(x.text(r, false)), c08Parse(x.text(r, true)))
			}
		default:
			y := genC08Spec(r, dns)
			emit(c08Parse(y.text(r, true)), c08Parse(x.text(r, false)))
		}
	}
}

// c08List builds base rules, near-twins and k twin pairs; returns the texts of
// the base list and of the extended list (twins inserted at random positions).
func c08List(r *rng, dns bool, strict bool) (base, ext []string) {
	var specs []c08Spec
	nb := r.n(6)
	for i := 0; i < nb; i++ {
		specs = append(specs, genC08Spec(r, dns))
	}
	k := 1 + r.n(4)
	var xs []c08Spec
	for i := 0; i < k; i++ {
		var x c08Spec
		if len(specs) > 0 && r.chance(1, 2) {
			x = c08NearTwin(r, pick(r, specs), dns)
		} else {
			x = genC08Spec(r, dns)
		}
		xs = append(xs, x)
		// near-twins of x in the base list, with and without badfilter
		for j := r.n(3); j > 0; j-- {
			specs = append(specs, c08NearTwin(r, x, dns))
		}
	}
	used := map[string]bool{}
	for _, s := range specs {
		bad := r.chance(1, 6)
		base = append(base, s.text(r, bad))
		used[c08Fields(c08Parse(s.text(nil, false)))] = true
	}
	shuffle(r, base)
	ext = append(ext, base...)
	for _, x := range xs {
		if strict && used[c08Fields(c08Parse(x.text(nil, false)))] {
			// not structurally distinct from a rule of L: skip this pair
			continue
		}
		for _, t := range []string{x.text(r, false), x.text(r, true)} {
			pos := r.n(len(ext) + 1)
			ext = append(ext[:pos], append([]string{t}, ext[pos:]...)...)
		}
	}

	return base, ext
}

func genC08RemoveBad(r *rng, n int, w *bufio.Writer) {
	emit := func(texts []string) {
		var rs []*rules.NetworkRule
		var enc []string
		for _, t := range texts {
			f := c08Parse(t)
			rs = append(rs, f)
			enc = append(enc, wnetrule(f))
		}
		ans := guardStr(func() string {
			in := append([]*rules.NetworkRule(nil), rs...)
			out := rules.VerifRemoveBadfilterRules(in)
			var idx []string
			pos := 0
			for _, o := range out {
				// survivors are a subsequence: find the next position holding this pointer
				found := -1
				for j := pos; j < len(rs); j++ {
					if rs[j] == o {
						found = j

						break
					}
				}
				if found < 0 {
					// out of order or duplicated: report the first index of the pointer, marked
					for j := range rs {
						if rs[j] == o {
							found = j

							break
						}
					}
					idx = append(idx, fmt.Sprintf("!%d", found))

					continue
				}
				idx = append(idx, fmt.Sprint(found))
				pos = found + 1
			}

			return "(" + strings.Join(idx, ",") + ")"
		})
		fmt.Fprintf(w, "c08.removebad %s = %s ## %s\n", wlist(enc...), ans, strings.Join(texts, "  ;  "))
	}
	// D7 replay first
	emit([]string{"||e.org^", "||e.org^$badfilter", "||e.org^$image", "||e.org^$image,badfilter"})
	emit([]string{"||e.org^$denyallow=a.com", "||e.org^$denyallow=b.com,badfilter"})
	emit(nil)
	for i := 0; i < n; i++ {
		dns := r.chance(1, 3)
		base, ext := c08List(r, dns, false)
		if r.chance(1, 4) {
			emit(base)
		}
		emit(ext)
	}
}

func c08Class(f *rules.NetworkRule) string {
	switch {
	case f == nil:
		return "none"
	case f.Whitelist:
		return "allow"
	default:
		return "block"
	}
}

func c08Storage(texts []string, split int) *filterlist.RuleStorage {
	// the rules are split into two lists at position `split`
	if split > len(texts) {
		split = len(texts)
	}
	s, err := filterlist.NewRuleStorage([]filterlist.RuleList{
		&filterlist.StringRuleList{ID: 1, RulesText: strings.Join(texts[:split], "\n") + "\n"},
		&filterlist.StringRuleList{ID: 2, RulesText: strings.Join(texts[split:], "\n") + "\n"},
	})
	if err != nil {
		panic(err)
	}

	return s
}

func genC08Engine(r *rng, n int, w *bufio.Writer) {
	webReqs := []*rules.Request{
		rules.NewRequest("http://e.org/ad.js", "http://site.com/page", rules.TypeScript),
		rules.NewRequest("http://e.org/ad.png", "http://other.org/", rules.TypeImage),
		rules.NewRequest("http://e.org/", "", rules.TypeDocument),
		rules.NewRequest("https://sub.e.org/x", "http://e.org/", rules.TypeMedia),
	}
	dnsReqs := []*urlfilter.DNSRequest{
		{Hostname: "e.org", DNSType: 1},
		{Hostname: "e.org", DNSType: 28, ClientName: "a", SortedClientTags: []string{"a"}},
		{Hostname: "sub.e.org", DNSType: 1, ClientName: "b", SortedClientTags: []string{"b", "c"}},
		{Hostname: "a.com", DNSType: 1},
	}
	for i := 0; i < n; i++ {
		dns := r.chance(1, 2)
		base, ext := c08List(r, dns, true)
		var got, want []string
		ans := guardStr(func() string {
			if dns {
				e0 := urlfilter.NewDNSEngine(c08Storage(base, r.n(len(base)+1)))
				e1 := urlfilter.NewDNSEngine(c08Storage(ext, r.n(len(ext)+1)))
				for _, q := range dnsReqs {
					r0, _ := e0.MatchRequest(q)
					r1, _ := e1.MatchRequest(q)
					want = append(want, c08Class(r0.NetworkRule))
					got = append(got, c08Class(r1.NetworkRule))
				}
			} else {
				e0 := urlfilter.NewNetworkEngine(c08Storage(base, r.n(len(base)+1)))
				e1 := urlfilter.NewNetworkEngine(c08Storage(ext, r.n(len(ext)+1)))
				for _, q := range webReqs {
					r0, _ := e0.Match(q)
					r1, _ := e1.Match(q)
					want = append(want, c08Class(r0))
					got = append(got, c08Class(r1))
				}
			}

			return wbool(strings.Join(got, ",") == strings.Join(want, ","))
		})
		kind := "web"
		if dns {
			kind = "dns"
		}
		fmt.Fprintf(w, "assert c08.%s %s %s = %s ## L=[%s] verdicts %v ; L+twins=[%s] verdicts %v\n", kind, wstrs(base), wstrs(ext), ans,
			strings.Join(base, "  ;  "), want, strings.Join(ext, "  ;  "), got)
	}
}

package main

// C08 -- $badfilter disables exactly its twins.
//
//	c08.negates <R b> <R r> = T|F            b.negatesBadfilter(r)
//	c08.removebad (<R>…) = (<idx>…)          indexes of the survivors of removeBadfilterRules, in order
//	assert c08.web … = T|F                   verdict(L + twins) == verdict(L) through NetworkEngine.Match
//	assert c08.dns … = T|F                   … through DNSEngine.MatchRequest (res.NetworkRule)
//
// Rules are built from a modifier map over one pattern so that twins, and
// near-twins differing in exactly one modifier value, can be constructed.

import (
	"bufio"
	"fmt"
	"net/netip"
	"sort"
	"strings"

	"github.com/AdguardTeam/urlfilter"
	"github.com/AdguardTeam/urlfilter/filterlist"
	"github.com/AdguardTeam/urlfilter/rules"
)

func init() {
	gens["c08.negates"] = genC08Negates
	gens["c08.removebad"] = genC08RemoveBad
	gens["c08.engine"] = genC08Engine
}

type c08Spec struct {
	exc  bool
	pat  string
	mods map[string]string // modifier group -> value text ("" never stored)
}

// modifier groups and their alternative values; a value is the literal text
// put into the rule (possibly several comma-separated modifiers).
var c08Values = map[string][]string{
	"important": {"important"},
	"party":     {"third-party", "~third-party"},
	"case":      {"match-case"},
	"ct":        {"script", "image", "script,image", "~media", "script,~media"},
	"domain":    {"domain=site.com", "domain=site.com|other.org", "domain=other.org|site.com", "domain=~other.org", "domain=other.org"},
	"denyallow": {"denyallow=a.com", "denyallow=b.com", "denyallow=a.com|b.com"},
	"dnstype":   {"dnstype=A", "dnstype=AAAA", "dnstype=~AAAA", "dnstype=A|AAAA", "dnstype=AAAA|A"},
	"ctag":      {"ctag=a", "ctag=a|b", "ctag=b|a", "ctag=~c", "ctag=b"},
	"client": {"client=a", "client=a|b", "client=b|a", "client=10.0.0.0/8", "client=~b", "client=a|10.0.0.0/8", "client=10.0.0.0/8|a",
		"client=Laptop", "client=laptop", "client=~Laptop", "client=~laptop", "client='Kids-PC'|Laptop", "client='Kids-PC'|laptop"},
	"dnsrewrite": {"dnsrewrite=1.2.3.4", "dnsrewrite=1.2.3.5", "dnsrewrite=NOERROR;MX;10 m.e.org", "dnsrewrite=NOERROR;MX;20 m.e.org", "dnsrewrite=NOERROR;HTTPS;1 . alpn=h3", "dnsrewrite=NOERROR;HTTPS;1 . alpn=h2", "dnsrewrite=NOERROR;HTTPS;1 .", "dnsrewrite=NOERROR;SRV;1 2 80 s.e.org", "dnsrewrite=NXDOMAIN", "dnsrewrite=REFUSED", "dnsrewrite=new.e.org", "dnsrewrite=NOERROR;TXT;hello", "dnsrewrite=::1",
		"dnsrewrite=NOERROR;TXT;v=spf1;include-a", "dnsrewrite=NOERROR;TXT;v=spf1;include-b"},
	"wl": {"urlblock", "genericblock", "elemhide", "stealth"},
	"bl": {"popup"},
}

var c08GroupsWeb = []string{"important", "party", "case", "ct", "domain", "denyallow", "dnstype", "ctag", "client", "dnsrewrite", "wl", "bl"}
var c08GroupsDNS = []string{"important", "ct", "denyallow", "dnstype", "ctag", "client", "dnsrewrite"}
var c08Patterns = []string{"||e.org^", "||e.org^", "||e.org^", "e.org", "|http://e.org/"}

// c08EscPatterns: patterns with ESCAPED special characters (`\$` -- the options delimiter --, `\,`, `\/`, `\|`), as basic
// patterns and as /regexp/ rules.  The text of a rule WITHOUT modifiers and the text of its twin (`<rule>$badfilter`) go
// through different branches of parseRuleText (no delimiter found / regexp fast path versus delimiter found); both
// must yield the same pattern.  (No pattern ends in `$`: `…$$badfilter` would hold the marker `$$` of an HTML filtering
// rule and NewRule reads the line as a cosmetic rule.)  Every pattern is hit by one of c08WebReqs (c08EscDNSPatterns: by the DNS requests).
var c08EscPatterns = []string{`||e.org/pay\$id`, `/e\.org\/pay\$id/`, `||e.org/a\,b`, `/e\.org\/a\,b/`, `/e\.org\/(ad|pay\$id)/`,
	`|http://e.org/pay\$id`, `e.org/pay\$i`, `/^https?:\/\/e\.org\/[a-z]+\$/`, `/e\.org\/ad\.(js|png)(\$x)?/`, `||e.org^*\$id`, `/\$id$/`, `/e\.org\/x\|y/`}
var c08EscDNSPatterns = []string{`/e\.org(\$x)?/`, `/^(sub\.)?e\.org(\,|\$)?$/`, `/e\.org\/?/`}

// c08Pattern: one of the plain patterns, or (3 times in 10) one with escaped characters.
func c08Pattern(r *rng, dns bool) string {
	if r.chance(3, 10) {
		if dns {
			return pick(r, c08EscDNSPatterns)
		}

		return pick(r, c08EscPatterns)
	}
	if dns {
		return "||e.org^"
	}

	return pick(r, c08Patterns)
}

// canon identifies the parsed rule up to text: groups whose values are sorted
// by the parser ($ctag, $client) are compared as sets.
func (s c08Spec) canon() string {
	var parts []string
	for g, v := range s.mods {
		if g == "ctag" || g == "client" {
			eq := strings.IndexByte(v, '=')
			vals := strings.Split(v[eq+1:], "|")
			sort.Strings(vals)
			v = v[:eq+1] + strings.Join(vals, "|")
		}
		if g == "ct" {
			vals := strings.Split(v, ",")
			sort.Strings(vals)
			v = strings.Join(vals, ",")
		}
		parts = append(parts, v)
	}
	sort.Strings(parts)

	return fmt.Sprintf("%v|%s|%s", s.exc, s.pat, strings.Join(parts, ","))
}

func (s c08Spec) text(r *rng, bad bool) string {
	var mods []string
	for _, g := range sortedKeys(s.mods) {
		mods = append(mods, s.mods[g])
	}
	if bad {
		mods = append(mods, "badfilter")
	}
	if r != nil {
		shuffle(r, mods)
	}
	t := s.pat
	if s.exc {
		t = "@@" + t
	}
	if len(mods) > 0 {
		t += "$" + strings.Join(mods, ",")
	}

	return t
}

func sortedKeys(m map[string]string) (ks []string) {
	for k := range m {
		ks = append(ks, k)
	}
	sort.Strings(ks)

	return ks
}

func (s c08Spec) clone() c08Spec {
	m := map[string]string{}
	for k, v := range s.mods {
		m[k] = v
	}

	return c08Spec{exc: s.exc, pat: s.pat, mods: m}
}

func (s c08Spec) valid() bool {
	_, err := rules.NewNetworkRule(s.text(nil, false), 1)

	return err == nil
}

// c08ListGroups are the groups whose value is a `|`-separated list with generated variants (gen_n2.go).
var c08ListGroups = map[string]bool{"domain": true, "denyallow": true, "dnstype": true, "ctag": true, "client": true}

// c08PickValue: a value of group g -- from the fixed table, or (list groups, $dnsrewrite, content types, document-level
// options) generated: 1-3 items, sometimes a long list (more than 4 / 8 / 16 / 32 / 40 / 64 items), structured rewrite
// values with every numeric field drawn from a pool that reaches 65535.
func c08PickValue(r *rng, g string) string {
	if r.chance(1, 2) {
		return pick(r, c08Values[g])
	}
	switch {
	case c08ListGroups[g]:
		return n2GenListValue(r, g, 80)
	case g == "dnsrewrite":
		return "dnsrewrite=" + n2GenRewrite(r)
	case g == "ct":
		k := n2Count(r, 8, func() int { return 1 + r.n(2) }, 3, len(poolContent))
		items := append([]string(nil), poolContent...)
		shuffle(r, items)
		items = items[:k]
		for i := range items {
			items[i] = negate(r, items[i], 1, 4)
		}

		return strings.Join(items, ",")
	case g == "party":
		return pick(r, []string{"third-party", "~third-party", "first-party", "~first-party"})
	case g == "case":
		return pick(r, []string{"match-case", "~match-case"})
	case g == "wl":
		return strings.Join(subsetAtLeastOne(r, []string{"urlblock", "genericblock", "elemhide", "stealth", "generichide", "jsinject", "content", "extension", "document"}, 3), ",")
	case g == "bl":
		return pick(r, []string{"popup", "empty", "mp4"})
	}

	return pick(r, c08Values[g])
}

func subsetAtLeastOne(r *rng, xs []string, maxN int) []string {
	out := subset(r, xs, maxN)
	if len(out) == 0 {
		out = []string{pick(r, xs)}
	}

	return out
}

// c08MutValue: the value v of group g with exactly ONE component changed (one item of a list replaced by a sibling --
// another prefix length, another octet, another letter case --, one `~` toggled, one item more or less; one field of a
// structured $dnsrewrite value; one content type toggled).  The result may be invalid or equal: callers check.
func c08MutValue(r *rng, g, v string) string {
	switch {
	case c08ListGroups[g]:
		return n2MutListValue(r, v)
	case g == "dnsrewrite":
		return "dnsrewrite=" + n2MutRewrite(r, strings.TrimPrefix(v, "dnsrewrite="))
	case g == "ct" || g == "wl":
		items := strings.Split(v, ",")
		i := r.n(len(items))
		pool := poolContent
		if g == "wl" {
			pool = []string{"urlblock", "genericblock", "elemhide", "stealth", "generichide", "jsinject", "content", "extension"}
		}
		switch {
		case g == "ct" && r.chance(1, 3):
			if strings.HasPrefix(items[i], "~") {
				items[i] = items[i][1:]
			} else {
				items[i] = "~" + items[i]
			}
		case len(items) > 1 && r.chance(1, 3):
			items = append(items[:i:i], items[i+1:]...)
		case r.chance(1, 2):
			items = append(items, pick(r, pool))
		default:
			items[i] = pick(r, pool)
		}

		return strings.Join(items, ",")
	}

	return c08PickValue(r, g)
}

// c08FieldGroups: the groups of c08FieldTwin, weighted by the number of components their values have.
var c08FieldGroupsWeb = []string{"dnsrewrite", "dnsrewrite", "dnsrewrite", "dnsrewrite", "dnsrewrite", "dnsrewrite", "client", "client", "client", "client",
	"domain", "domain", "denyallow", "denyallow", "dnstype", "dnstype", "ctag", "ctag", "ct", "ct", "party", "case", "important", "wl", "bl"}
var c08FieldGroupsDNS = []string{"dnsrewrite", "dnsrewrite", "dnsrewrite", "dnsrewrite", "dnsrewrite", "dnsrewrite", "client", "client", "client", "client",
	"denyallow", "denyallow", "dnstype", "dnstype", "ctag", "ctag", "ct", "important"}

// c08FieldTwin returns two valid specs that differ ONLY inside the value of one modifier group g (one component of the
// value: one item, one `~`, one number, one letter), g drawn from the weighted list; all other modifiers are shared.
func c08FieldTwin(r *rng, dns bool) (x, y c08Spec) {
	for {
		x = genC08Spec(r, dns)
		groups := c08FieldGroupsWeb
		if dns {
			groups = c08FieldGroupsDNS
		}
		g := pick(r, groups)
		if (g == "wl" && !x.exc) || (g == "bl" && x.exc) {
			continue
		}
		switch {
		case g == "dnsrewrite" && r.chance(1, 2):
			x.mods[g] = "dnsrewrite=" + n2GenRewriteStructured(r)
		case c08ListGroups[g] && r.chance(1, 4):
			// a long list: the twin differs in one item, most of the time far behind the first few
			x.mods[g] = n2GenListValueK(r, g, n2Above(r, 4, 80))
		case x.mods[g] == "" || r.chance(1, 2):
			x.mods[g] = c08PickValue(r, g)
		}
		if !x.valid() {
			continue
		}
		for try := 0; try < 8; try++ {
			y = x.clone()
			y.mods[g] = c08MutValue(r, g, x.mods[g])
			if y.mods[g] != x.mods[g] && y.valid() {
				return x, y
			}
		}
	}
}

func c08Groups(dns bool) []string {
	if dns {
		return c08GroupsDNS
	}

	return c08GroupsWeb
}

func genC08Spec(r *rng, dns bool) c08Spec {
	for {
		s := c08Spec{exc: r.chance(1, 3), pat: c08Pattern(r, dns), mods: map[string]string{}}
		// one spec in six has NO modifier at all (its twin is then `<pattern>$badfilter`: the only rule text of the
		// pair with an options delimiter), one in six exactly one
		few := r.n(6)
		for _, g := range c08Groups(dns) {
			p := 5
			if g == "wl" || g == "bl" || g == "dnsrewrite" {
				p = 10
			}
			if few == 0 || (few == 1 && len(s.mods) > 0) {
				break
			}
			if r.chance(1, p) {
				if (g == "wl" && !s.exc) || (g == "bl" && s.exc) {
					continue
				}
				s.mods[g] = c08PickValue(r, g)
			}
		}
		if s.valid() {
			return s
		}
	}
}

// nearTwin changes exactly one modifier group of s (other value, removal or
// addition), or the exception flag, or the pattern.
func c08NearTwin(r *rng, s c08Spec, dns bool) c08Spec {
	for {
		t := s.clone()
		switch r.n(12) {
		case 0:
			t.pat = c08Pattern(r, dns)
		case 1:
			t.exc = !t.exc
			delete(t.mods, "wl")
			delete(t.mods, "bl")
		default:
			g := pick(r, c08Groups(dns))
			if present := sortedKeys(t.mods); len(present) > 0 && r.chance(1, 2) {
				// half of the time a modifier the rule HAS: its twin then differs inside that modifier's value
				g = pick(r, present)
			}
			if (g == "wl" && !t.exc) || (g == "bl" && t.exc) {
				continue
			}
			if v, ok := t.mods[g]; ok && r.chance(1, 3) {
				delete(t.mods, g)
			} else if ok && r.chance(2, 3) {
				// the same modifier with ONE component of its value changed
				t.mods[g] = c08MutValue(r, g, v)
			} else {
				t.mods[g] = c08PickValue(r, g)
			}
		}
		if t.canon() != s.canon() && t.valid() {
			return t
		}
	}
}

// c08Fields renders every parsed field of f except the text, the list id, the
// shortcut and the badfilter bit: two rules are "structurally distinct" iff
// these differ.  (Computed from the field dump, not with negatesBadfilter.)
func c08Fields(f *rules.NetworkRule) string {
	v := f.VerifRaw()

	return wlist(wbool(f.Whitelist), wb(v.Pattern),
		wstrs(v.PermittedDomains), wstrs(v.RestrictedDomains), wstrs(v.DenyAllowDomains),
		wu16s(v.PermittedDNSTypes), wu16s(v.RestrictedDNSTypes),
		wstrs(v.PermittedClientTags), wstrs(v.RestrictedClientTags),
		wclients(v.PermittedClients), wclients(v.RestrictedClients),
		fmt.Sprint(uint64(v.EnabledOptions&^rules.OptionBadfilter)), fmt.Sprint(uint64(v.DisabledOptions)),
		fmt.Sprint(uint32(v.PermittedRequestTypes)), fmt.Sprint(uint32(v.RestrictedRequestTypes)),
		wrewrite(f.DNSRewrite))
}

func c08Parse(t string) *rules.NetworkRule {
	f, err := rules.NewNetworkRule(t, 1)
	if err != nil {
		panic(t + ": " + err.Error())
	}

	return f
}

func genC08Negates(r *rng, n int, w *bufio.Writer) {
	emit := func(b, x *rules.NetworkRule) {
		ans := guardStr(func() string { return wbool(b.VerifNegatesBadfilter(x)) })
		fmt.Fprintf(w, "c08.negates %s %s = %s ## %s  negates?  %s\n", wnetrule(b), wnetrule(x), ans, b.RuleText, x.RuleText)
	}
	// the twin relation stated on the rule TEXTS (the parsed records above are compared field by field, so a parser that
	// reads the pattern or a value of `x` and of `x$badfilter` differently is invisible there): the text of a valid
	// rule with `badfilter` added to its modifier list (as the only modifier if it has none) must negate it
	emitTextTwin := func(x c08Spec) {
		t1, t2 := x.text(r, false), x.text(r, true)
		detail := ""
		ans := guardStr(func() string {
			f1, err1 := rules.NewNetworkRule(t1, 1)
			f2, err2 := rules.NewNetworkRule(t2, 2)
			if err1 != nil || err2 != nil {
				detail = fmt.Sprintf("rejected: %v / %v", err1, err2)

				return "F"
			}
			detail = fmt.Sprintf("patterns %q / %q", f1.VerifRaw().Pattern, f2.VerifRaw().Pattern)

			return wbool(f2.VerifNegatesBadfilter(f1) && !f1.VerifNegatesBadfilter(f2))
		})
		fmt.Fprintf(w, "assert c08.texttwin %s %s = %s ## %s  must be negated by  %s : %s\n", wb(t1), wb(t2), ans, t1, t2, detail)
	}
	// D7 replay
	emit(c08Parse("||e.org^$denyallow=b.com,badfilter"), c08Parse("||e.org^$denyallow=a.com"))
	emit(c08Parse("||e.org^$dnstype=A,badfilter"), c08Parse("||e.org^$dnstype=AAAA"))
	emit(c08Parse("||e.org^$dnsrewrite=1.2.3.4,badfilter"), c08Parse("||e.org^$dnsrewrite=1.2.3.5"))
	emit(c08Parse("||e.org^$dnsrewrite=NOERROR;MX;10 m.e.org,badfilter"), c08Parse("||e.org^$dnsrewrite=NOERROR;MX;10 m.e.org"))
	emit(c08Parse("||e.org^$dnsrewrite=NOERROR;HTTPS;1 . alpn=h3,badfilter"), c08Parse("||e.org^$dnsrewrite=NOERROR;HTTPS;1 . alpn=h3"))
	emit(c08Parse("||e.org^$dnsrewrite=NOERROR;HTTPS;1 . alpn=h3,badfilter"), c08Parse("||e.org^$dnsrewrite=NOERROR;HTTPS;1 ."))
	for i := 0; i < n; i++ {
		dns := r.chance(1, 3)
		x := genC08Spec(r, dns)
		switch r.n(10) {
		case 8, 9:
			// twins differing in ONE component of ONE modifier value (every group in turn)
			a, b := c08FieldTwin(r, dns)
			if r.chance(1, 2) {
				a, b = b, a
			}
			emit(c08Parse(a.text(r, true)), c08Parse(b.text(r, false)))
		case 0, 1:
			emit(c08Parse(x.text(r, true)), c08Parse(x.text(r, false)))
			emitTextTwin(x)
		case 2, 3, 4:
			y := c08NearTwin(r, x, dns)
			if r.chance(1, 2) {
				emit(c08Parse(x.text(r, true)), c08Parse(y.text(r, false)))
			} else {
				emit(c08Parse(y.text(r, true)), c08Parse(x.text(r, false)))
			}
		case 5:
			// not a badfilter rule on the left / badfilter on both sides / reversed
			switch r.n(3) {
			case 0:
				emit(c08Parse(x.text(r, false)), c08Parse(x.text(r, false)))
			case 1:
				emit(c08Parse(x.text(r, true)), c08Parse(x.text(r, true)))
			default:
				emit(c08Parse(x.text(r, false)), c08Parse(x.text(r, true)))
			}
		default:
			y := genC08Spec(r, dns)
			emit(c08Parse(y.text(r, true)), c08Parse(x.text(r, false)))
		}
	}
}

// c08List builds base rules, near-twins and k twin pairs; returns the texts of
// the base list and of the extended list (twins inserted at random positions).
func c08List(r *rng, dns bool, strict bool) (base, ext []string) {
	var specs []c08Spec
	nb := r.n(6)
	k := 1 + r.n(4)
	if r.chance(1, 25) {
		// N2: MANY rules and MANY twin pairs in one list (more than 8 / 16 / 32 / 40 / 64 rules, several $badfilter rules each
		// of which must disable exactly its own twins)
		nb = n2Count(r, 1, nil, 8, 70)
		k = 1 + r.n(1+nb/3)
	}
	for i := 0; i < nb; i++ {
		specs = append(specs, genC08Spec(r, dns))
	}
	var xs []c08Spec
	for i := 0; i < k; i++ {
		var x c08Spec
		if len(specs) > 0 && r.chance(1, 2) {
			x = c08NearTwin(r, pick(r, specs), dns)
		} else {
			x = genC08Spec(r, dns)
		}
		xs = append(xs, x)
		// near-twins of x in the base list, with and without badfilter
		for j := r.n(3); j > 0; j-- {
			specs = append(specs, c08NearTwin(r, x, dns))
		}
	}
	used := map[string]bool{}
	for _, s := range specs {
		bad := r.chance(1, 6)
		base = append(base, s.text(r, bad))
		used[c08Fields(c08Parse(s.text(nil, false)))] = true
	}
	shuffle(r, base)
	ext = append(ext, base...)
	for _, x := range xs {
		if strict && used[c08Fields(c08Parse(x.text(nil, false)))] {
			// not structurally distinct from a rule of L: skip this pair
			continue
		}
		for _, t := range []string{x.text(r, false), x.text(r, true)} {
			pos := r.n(len(ext) + 1)
			ext = append(ext[:pos], append([]string{t}, ext[pos:]...)...)
		}
	}

	return base, ext
}

func genC08RemoveBad(r *rng, n int, w *bufio.Writer) {
	emit := func(texts []string) {
		var rs []*rules.NetworkRule
		var enc []string
		for _, t := range texts {
			f := c08Parse(t)
			rs = append(rs, f)
			enc = append(enc, wnetrule(f))
		}
		ans := guardStr(func() string {
			in := append([]*rules.NetworkRule(nil), rs...)
			out := rules.VerifRemoveBadfilterRules(in)
			var idx []string
			pos := 0
			for _, o := range out {
				// survivors are a subsequence: find the next position holding this pointer
				found := -1
				for j := pos; j < len(rs); j++ {
					if rs[j] == o {
						found = j

						break
					}
				}
				if found < 0 {
					// out of order or duplicated: report the first index of the pointer, marked
					for j := range rs {
						if rs[j] == o {
							found = j

							break
						}
					}
					idx = append(idx, fmt.Sprintf("!%d", found))

					continue
				}
				idx = append(idx, fmt.Sprint(found))
				pos = found + 1
			}

			return "(" + strings.Join(idx, ",") + ")"
		})
		fmt.Fprintf(w, "c08.removebad %s = %s ## %s\n", wlist(enc...), ans, strings.Join(texts, "  ;  "))
	}
	// D7 replay first
	emit([]string{"||e.org^", "||e.org^$badfilter", "||e.org^$image", "||e.org^$image,badfilter"})
	emit([]string{"||e.org^$denyallow=a.com", "||e.org^$denyallow=b.com,badfilter"})
	emit(nil)
	for i := 0; i < n; i++ {
		dns := r.chance(1, 3)
		base, ext := c08List(r, dns, false)
		if r.chance(1, 4) {
			emit(base)
		}
		emit(ext)
	}
}

func c08Class(f *rules.NetworkRule) string {
	switch {
	case f == nil:
		return "none"
	case f.Whitelist:
		return "allow"
	default:
		return "block"
	}
}

func c08Storage(texts []string, split int) *filterlist.RuleStorage {
	// the rules are split into two lists at position `split`
	if split > len(texts) {
		split = len(texts)
	}
	s, err := filterlist.NewRuleStorage([]filterlist.RuleList{
		&filterlist.StringRuleList{ID: 1, RulesText: strings.Join(texts[:split], "\n") + "\n"},
		&filterlist.StringRuleList{ID: 2, RulesText: strings.Join(texts[split:], "\n") + "\n"},
	})
	if err != nil {
		panic(err)
	}

	return s
}

func genC08Engine(r *rng, n int, w *bufio.Writer) {
	webReqs := []*rules.Request{
		rules.NewRequest("http://e.org/ad.js", "http://site.com/page", rules.TypeScript),
		rules.NewRequest("http://e.org/ad.png", "http://other.org/", rules.TypeImage),
		rules.NewRequest("http://e.org/", "", rules.TypeDocument),
		rules.NewRequest("https://sub.e.org/x", "http://e.org/", rules.TypeMedia),
		// hit by the patterns with escaped characters (c08EscPatterns)
		rules.NewRequest("http://e.org/pay$id", "http://site.com/page", rules.TypeScript),
		rules.NewRequest("http://e.org/pay\\$id", "", rules.TypeImage),
		rules.NewRequest("http://e.org/a,b", "http://other.org/", rules.TypeScript),
		rules.NewRequest("http://e.org/a\\,b", "http://site.com/", rules.TypeImage),
		rules.NewRequest("http://e.org/x|y", "http://site.com/", rules.TypeScript),
	}
	dnsReqs := []*urlfilter.DNSRequest{
		{Hostname: "e.org", DNSType: 1},
		{Hostname: "e.org", DNSType: 28, ClientName: "a", SortedClientTags: []string{"a"}},
		{Hostname: "sub.e.org", DNSType: 1, ClientName: "b", SortedClientTags: []string{"b", "c"}},
		{Hostname: "a.com", DNSType: 1},
		{Hostname: "e.org", DNSType: 1, ClientName: "Laptop", ClientIP: netip.MustParseAddr("10.0.0.1"), SortedClientTags: []string{"device_pc"}},
		{Hostname: "e.org", DNSType: 65, ClientIP: netip.MustParseAddr("2001:db8::5")},
		{Hostname: "E.org", DNSType: 5, ClientName: "Kids-PC", ClientIP: netip.MustParseAddr("192.168.1.7"), SortedClientTags: []string{"os_linux", "tag_7"}},
	}
	for i := 0; i < n; i++ {
		dns := r.chance(1, 2)
		base, ext := c08List(r, dns, true)
		var got, want []string
		ans := guardStr(func() string {
			if dns {
				e0 := urlfilter.NewDNSEngine(c08Storage(base, r.n(len(base)+1)))
				e1 := urlfilter.NewDNSEngine(c08Storage(ext, r.n(len(ext)+1)))
				for _, q := range dnsReqs {
					r0, _ := e0.MatchRequest(q)
					r1, _ := e1.MatchRequest(q)
					want = append(want, c08Class(r0.NetworkRule))
					got = append(got, c08Class(r1.NetworkRule))
				}
			} else {
				e0 := urlfilter.NewNetworkEngine(c08Storage(base, r.n(len(base)+1)))
				e1 := urlfilter.NewNetworkEngine(c08Storage(ext, r.n(len(ext)+1)))
				for _, q := range webReqs {
					r0, _ := e0.Match(q)
					r1, _ := e1.Match(q)
					want = append(want, c08Class(r0))
					got = append(got, c08Class(r1))
				}
			}

			return wbool(strings.Join(got, ",") == strings.Join(want, ","))
		})
		kind := "web"
		if dns {
			kind = "dns"
		}
		fmt.Fprintf(w, "assert c08.%s %s %s = %s ## L=[%s] verdicts %v ; L+twins=[%s] verdicts %v\n", kind, wstrs(base), wstrs(ext), ans,
			strings.Join(base, "  ;  "), want, strings.Join(ext, "  ;  "), got)
	}
}

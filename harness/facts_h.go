package main

// Generated facts of work group H (C10, C17, C18):
//   - dns.StringToRcode / dns.StringToType as sorted association lists;
//   - the $dnsrewrite keyword list and the key set of the handler map, both obtained by PROBING
//     the real loadDNSRewrite (no unexported access needed);
//   - the record type numbers the model dispatches on;
//   - the cosmetic markers in their RUN-TIME order and the list of their first characters.

import (
	"sort"
	"strings"

	"github.com/AdguardTeam/urlfilter/rules"
	"github.com/miekg/dns"
)

// dnsRewriteKeywords probes the shorthand form with every all-uppercase
// candidate (every rcode name, every type name and a few extras).
func dnsRewriteKeywords() (kws []string) {
	cands := map[string]bool{"NOERROR": true, "SERVFAIL": true, "NXDOMAIN": true, "REFUSED": true, "OK": true, "NONE": true}
	for k := range dns.StringToRcode {
		cands[k] = true
	}
	for k := range dns.StringToType {
		cands[k] = true
	}
	for k := range cands {
		upper := k != ""
		for i := 0; i < len(k); i++ {
			if k[i] < 'A' || k[i] > 'Z' {
				upper = false
			}
		}
		if !upper {
			continue
		}
		if rw, err := rules.VerifLoadDNSRewrite(k); err == nil && rw != nil {
			kws = append(kws, k)
		}
	}
	sort.Strings(kws)

	return kws
}

// dnsRewriteHandlerTypes probes the normal form with an empty value for every
// known type: a type without a handler yields a value-less rewrite of that
// type; every handler either rejects the empty value or returns a non-nil
// value (TXT: the empty string).
func dnsRewriteHandlerTypes() (types []int) {
	for name, t := range dns.StringToType {
		if strings.EqualFold(name, "none") || strings.EqualFold(name, "reserved") {
			continue
		}
		rw, err := rules.VerifLoadDNSRewrite("NOERROR;" + name + ";")
		if err != nil || rw.Value != nil || rw.NewCNAME != "" {
			types = append(types, int(t))
		}
	}
	sort.Ints(types)

	return types
}

func init() {
	factSections = append(factSections, func(p func(format string, a ...any)) {
		p("-- facts of work group H live in their own namespace (UF.Facts.H) to avoid clashes")
		p("namespace H")
		p("-- miekg/dns: StringToRcode (sorted by name)")
		var names []string
		for k := range dns.StringToRcode {
			names = append(names, k)
		}
		sort.Strings(names)
		items := make([]string, len(names))
		for i, k := range names {
			items[i] = "(" + leanBytes(k) + ", " + itoa(dns.StringToRcode[k]) + ")"
		}
		p("def dnsRcodeTable : List (Bytes × Nat) := [\n  %s]", strings.Join(items, ",\n  "))
		p("")
		p("-- miekg/dns: StringToType (sorted by name)")
		names = names[:0]
		for k := range dns.StringToType {
			names = append(names, k)
		}
		sort.Strings(names)
		items = make([]string, len(names))
		for i, k := range names {
			items[i] = "(" + leanBytes(k) + ", " + itoa(int(dns.StringToType[k])) + ")"
		}
		p("def dnsTypeTable : List (Bytes × Nat) := [\n  %s]", strings.Join(items, ",\n  "))
		p("")
		p("-- rules/dnsrewrite.go: shorthand keywords (probed through loadDNSRewrite)")
		kws := dnsRewriteKeywords()
		items = make([]string, len(kws))
		for i, k := range kws {
			items[i] = leanBytes(k)
		}
		p("def dnsRewriteKeywords : List Bytes := [%s]", strings.Join(items, ", "))
		p("-- rules/dnsrewrite.go: key set of dnsRewriteRRHandlers (probed through loadDNSRewrite)")
		hts := dnsRewriteHandlerTypes()
		items = make([]string, len(hts))
		for i, t := range hts {
			items[i] = itoa(t)
		}
		p("def dnsRewriteHandlerTypes : List Nat := [%s]", strings.Join(items, ", "))
		p("def RcodeSuccess : Nat := %d", dns.RcodeSuccess)
		p("def DnsTypeA : Nat := %d", dns.TypeA)
		p("def DnsTypeAAAA : Nat := %d", dns.TypeAAAA)
		p("def DnsTypeCNAME : Nat := %d", dns.TypeCNAME)
		p("def DnsTypeMX : Nat := %d", dns.TypeMX)
		p("def DnsTypePTR : Nat := %d", dns.TypePTR)
		p("def DnsTypeTXT : Nat := %d", dns.TypeTXT)
		p("def DnsTypeHTTPS : Nat := %d", dns.TypeHTTPS)
		p("def DnsTypeSVCB : Nat := %d", dns.TypeSVCB)
		p("def DnsTypeSRV : Nat := %d", dns.TypeSRV)
		p("")
		p("-- rules/cosmetic.go: markers in run-time order (after the init() sort) and their first characters")
		markers, firsts := rules.VerifCosmeticMarkers()
		items = make([]string, len(markers))
		for i, m := range markers {
			items[i] = leanBytes(m)
		}
		p("def cosmeticMarkers : List Bytes := [%s]", strings.Join(items, ", "))
		p("def cosmeticMarkerFirstChars : List UInt8 := %s", leanBytes(string(firsts)))
		p("end H")
	})
}

func itoa(n int) string {
	if n < 0 {
		panic("negative fact")
	}
	s := ""
	if n == 0 {
		return "0"
	}
	for n > 0 {
		s = string(rune('0'+n%10)) + s
		n /= 10
	}

	return s
}

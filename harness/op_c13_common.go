package main

// Shared machinery of work group F (C13, C14, C19): generated "worlds" of rule
// lists (String- and File-backed), a spying RuleList wrapper that makes the
// candidate indices of a query observable, canonical serialisations of the
// results of the three engines, and the abstract trace ("entries") that drives
// the Lean Prog model.
//
// All top-level identifiers are prefixed with f (c13, c14, c19 for the generators) to stay clear of the other groups.

import (
	"fmt"
	"hash/fnv"
	"io"
	"log/slog"
	"os"
	"path/filepath"
	"sort"
	"strings"

	"github.com/AdguardTeam/urlfilter"
	"github.com/AdguardTeam/urlfilter/filterlist"
	"github.com/AdguardTeam/urlfilter/rules"
)

// fSilenceLogs sends slog output (RetrieveNetworkRule logs every failed
// retrieval) to nowhere.
func fSilenceLogs() {
	slog.SetDefault(slog.New(slog.NewTextHandler(io.Discard, nil)))
}

// ---------------------------------------------------------------- worlds ----

type fListSpec struct {
	id   int
	text string
	file bool
	path string
}

// fWorld is a set of rule lists from which any number of independent
// storages/engines can be built.
type fWorld struct {
	memo      map[string]*fEntry // entry templates by request
	specs     []fListSpec
	dir       string
	ruleTexts []string // network rule texts, for request generators
	hostNames []string // names occurring in hosts-style lines
	domains   []string // pool domains mentioned anywhere in the lists
	docSites  []string // hosts covered by a document-level exception with cosmetic modifiers
	must      []string // hostnames every query pool asks about (the names of the hosts clusters)
	extra     []*fQuery // queries every query pool contains (aimed at the clusters added by fAddDomainCluster)
}

var fHostIPs = []string{"0.0.0.0", "127.0.0.1", "::", "::1", "10.1.2.3", "2001:db8::5"}

func fGenHostsLine(r *rng) (line string, names []string) {
	n := 1 + r.n(3)
	for i := 0; i < n; i++ {
		names = append(names, pick(r, []string{"", "www.", "sub."})+pick(r, poolDomains))
	}
	if r.chance(1, 5) {
		return names[0], names[:1]
	}
	sep := pick(r, []string{" ", "\t", "  "})
	line = pick(r, fHostIPs) + sep + strings.Join(names, sep)
	if r.chance(1, 5) {
		line += " # note"
	}

	return line, names
}

func fGenCosmeticLine(r *rng) string {
	sel := pick(r, []string{".banner", "#ad", "div[class^=\"ad\"]", ".x > .y", ".generic"})
	switch r.n(5) {
	case 0:
		return "##" + sel
	case 1:
		return pick(r, poolDomains) + "#@#" + sel
	case 2:
		return pick(r, poolWildDomains) + "##" + sel
	case 3:
		return pick(r, poolDomains) + ",~" + pick(r, poolDomains) + "##" + sel
	default:
		return pick(r, poolDomains) + "##" + sel
	}
}

// fGenWorld generates 1..3 lists of 4..maxLines lines each.  fileMode: 0 all
// String-backed, 1 all File-backed, 2 mixed.
func fGenWorld(r *rng, maxLines int, fileMode int) *fWorld {
	w := &fWorld{}
	nl := 1 + r.n(3)
	ids := []int{1, 2, 7, 1000, -3}
	shuffle(r, ids)
	for li := 0; li < nl; li++ {
		var sb strings.Builder
		n := 4 + r.n(maxLines-3)
		for i := 0; i < n; i++ {
			var line string
			switch k := r.n(20); {
			case k < 9:
				line = genNetRuleText(r, true)
				w.ruleTexts = append(w.ruleTexts, line)
			case k < 13:
				line = genNetRuleText(r, false)
				w.ruleTexts = append(w.ruleTexts, line)
			case k < 16:
				var names []string
				line, names = fGenHostsLine(r)
				w.hostNames = append(w.hostNames, names...)
			case k < 18:
				line = fGenCosmeticLine(r)
			case k < 19:
				line = pick(r, []string{"! comment", "# comment", "", "   "})
			default:
				// a few rules that are certain to share requests: same pattern, different modifiers
				d := pick(r, poolDomains)
				line = pick(r, []string{"||" + d + "^", "@@||" + d + "^", "||" + d + "^$important",
					"||" + d + "^$dnsrewrite=1.2.3.4", "||" + d + "^$dnsrewrite=NOERROR;CNAME;x." + d,
					"@@||" + d + "^$dnsrewrite=1.2.3.4", "||" + d + "^$client=laptop", "||" + d + "^$dnstype=AAAA",
					"||" + d + "^$ctag=device_pc", "||" + d + "^$badfilter"})
				w.ruleTexts = append(w.ruleTexts, line)
			}
			for _, d := range poolDomains {
				if strings.Contains(strings.ToLower(line), d) {
					w.domains = append(w.domains, d)
				}
			}
			sb.WriteString(line)
			if i < n-1 || r.chance(3, 4) {
				sb.WriteString(pick(r, []string{"\n", "\n", "\n", "\r\n"}))
			}
		}
		if r.chance(1, 3) {
			// a host ALL of whose matching rules are $dnsrewrite rules, exceptions included (results for
			// it are then made of rewrite rules only, so slices derived from them alias the result)
			h := "rwonly" + fmt.Sprint(li) + ".example.net"
			pool := []string{"||" + h + "^$dnsrewrite=1.2.3.4", "@@||" + h + "^$dnsrewrite=1.2.3.4",
				"||" + h + "^$dnsrewrite=5.6.7.8", "||" + h + "^$dnsrewrite=NOERROR;TXT;hi", "@@||" + h + "^$dnsrewrite=NOERROR;TXT;hi",
				"||" + h + "^$dnsrewrite=9.9.9.9,important", "@@||" + h + "^$dnsrewrite"}
			for _, line := range subset(r, pool, 5) {
				if sb.Len() > 0 && !strings.HasSuffix(sb.String(), "\n") {
					sb.WriteString("\n")
				}
				sb.WriteString(line + "\n")
				w.ruleTexts = append(w.ruleTexts, line)
			}
			w.domains = append(w.domains, h, h, h)
			w.hostNames = append(w.hostNames, h)
		}
		if r.chance(1, 2) {
			// a hosts cluster: two or three multi-name lines that share ONE name, so that the bucket of the shared
			// name holds several indexes of which a history may have materialised only the later ones (the nil
			// check of matchLookupTable must SKIP an unreadable candidate, not stop at it); likewise for the
			// network tables: two rules indexed under the same shortcut window
			sh := "shared" + fmt.Sprint(li) + ".example.net"
			own := []string{"left" + fmt.Sprint(li) + ".example.net", "right" + fmt.Sprint(li) + ".example.net", "mid" + fmt.Sprint(li) + ".example.net"}
			k := 2 + r.n(2)
			for j := 0; j < k; j++ {
				names := []string{own[j], sh}
				if r.chance(1, 2) {
					names = []string{sh, own[j]}
				}
				if sb.Len() > 0 && !strings.HasSuffix(sb.String(), "\n") {
					sb.WriteString("\n")
				}
				sb.WriteString(pick(r, fHostIPs) + " " + strings.Join(names, " ") + "\n")
				w.hostNames = append(w.hostNames, own[j], own[j])
			}
			w.hostNames = append(w.hostNames, sh, sh)
			w.must = append(w.must, own[k-1], sh)
			if r.chance(1, 2) {
				for j := 0; j < 2; j++ {
					line := "||" + sh + "/path" + fmt.Sprint(j) + pick(r, []string{"", "^", "$important"})
					sb.WriteString(line + "\n")
					w.ruleTexts = append(w.ruleTexts, line)
				}
				w.domains = append(w.domains, sh)
			}
		}
		if r.chance(1, 2) {
			// N2: generic cosmetic rules (and an exception for one site), so that the generic-CSS bit of a cosmetic query
			// decides something for EVERY host
			if sb.Len() > 0 && !strings.HasSuffix(sb.String(), "\n") {
				sb.WriteString("\n")
			}
			sb.WriteString(fmt.Sprintf("##.generic%d\n", li))
			if r.chance(1, 2) {
				sb.WriteString(fmt.Sprintf("%s#@#.generic%d\n", pick(r, poolDomains), li))
			}
			if r.chance(1, 2) {
				sb.WriteString(fmt.Sprintf("~%s##.generic%db\n", pick(r, poolDomains), li))
			}
		}
		if r.chance(1, 4) {
			// a rule the parser accepts but regexp.Compile rejects (look-ahead): Match marks it invalid on first use
			d := pick(r, poolDomains)
			line := "/^https?:\\/\\/(?!www\\.)" + strings.ReplaceAll(d, ".", "\\.") + "/"
			if sb.Len() > 0 && !strings.HasSuffix(sb.String(), "\n") {
				sb.WriteString("\n")
			}
			sb.WriteString(line + "\n")
			w.ruleTexts = append(w.ruleTexts, line)
			w.domains = append(w.domains, d)
		}
		if r.chance(1, 3) {
			// a referrer covered by a document-level exception with cosmetic modifiers, and nothing for the
			// pages it requests: the verdict then falls back to the document rule
			h := "docsite" + fmt.Sprint(li) + ".example.net"
			line := "@@||" + h + "^$" + pick(r, []string{"document", "urlblock,elemhide", "genericblock,jsinject", "urlblock,generichide"})
			if sb.Len() > 0 && !strings.HasSuffix(sb.String(), "\n") {
				sb.WriteString("\n")
			}
			sb.WriteString(line + "\n")
			w.ruleTexts = append(w.ruleTexts, line)
			w.docSites = append(w.docSites, h)
		}
		file := fileMode == 1 || (fileMode == 2 && r.chance(1, 2))
		w.specs = append(w.specs, fListSpec{id: ids[li], text: sb.String(), file: file})
	}

	return w
}

// materialise writes the File-backed lists to a fresh temp directory.
func (w *fWorld) materialise() {
	for i := range w.specs {
		s := &w.specs[i]
		if !s.file || s.path != "" {
			continue
		}
		if w.dir == "" {
			d, err := os.MkdirTemp("", "gf-lists-")
			if err != nil {
				panic(err)
			}
			w.dir = d
		}
		s.path = filepath.Join(w.dir, fmt.Sprintf("list%d.txt", i))
		if err := os.WriteFile(s.path, []byte(s.text), 0o600); err != nil {
			panic(err)
		}
	}
}

func (w *fWorld) cleanup() {
	if w.dir != "" {
		_ = os.RemoveAll(w.dir)
		w.dir = ""
	}
}

// fHash is a short content hash (makes the op lines of different worlds distinct).
func fHash(s string) string {
	h := fnv.New64a()
	_, _ = h.Write([]byte(s))

	return fmt.Sprintf("h%x", h.Sum64())
}

// describe is the human-readable note of a world.
func (w *fWorld) describe() string {
	var parts []string
	for _, s := range w.specs {
		kind := "string"
		if s.file {
			kind = "file"
		}
		parts = append(parts, fmt.Sprintf("list %d (%s): %q", s.id, kind, s.text))
	}

	return strings.Join(parts, "; ")
}

// ------------------------------------------------------------------ spy ----

type fRead struct {
	idx   int64
	rule  rules.Rule // what the storage got
	under rules.Rule // what the real list returned
	err   error
}

// fSpyList wraps a real RuleList and records every RetrieveRule call, i.e.
// every cache miss of the storage above it.
type fSpyList struct {
	filterlist.RuleList
	log *[]fRead
	// hostsOnly, if not empty, is what NewScanner scans instead of the real
	// content: the same bytes with every line that is not a hosts-style rule
	// blanked out, so that the rule indices (byte offsets) stay the same.
	hostsOnly string
}

// NewScanner implements filterlist.RuleList.
func (s *fSpyList) NewScanner() *filterlist.RuleScanner {
	if s.hostsOnly != "" {
		return filterlist.NewRuleScanner(strings.NewReader(s.hostsOnly), s.GetID(), false)
	}

	return s.RuleList.NewScanner()
}

// fMaskNonHosts blanks out every line that is not a hosts-style rule.
func fMaskNonHosts(text string, id int) string {
	b := []byte(text)
	for start := 0; start < len(b); {
		end := start
		for end < len(b) && b[end] != '\n' {
			end++
		}
		line := strings.TrimSpace(string(b[start:end]))
		keep := false
		if line != "" {
			if r, err := rules.NewRule(line, id); err == nil {
				_, keep = r.(*rules.HostRule)
			}
		}
		if !keep {
			for i := start; i < end; i++ {
				b[i] = ' '
			}
		}
		start = end + 1
	}

	return string(b)
}

func (s *fSpyList) RetrieveRule(ruleIdx int) (r rules.Rule, err error) {
	r, err = s.RuleList.RetrieveRule(ruleIdx)
	under := r
	*s.log = append(*s.log, fRead{idx: filterlist.VerifStorageIdx(int32(s.GetID()), int32(ruleIdx)), rule: r, under: under, err: err})

	return r, err
}

// lists builds fresh RuleList values (new file handles for File-backed ones).
func (w *fWorld) lists(spy *[]fRead, hostsOnly bool) (ls []filterlist.RuleList) {
	w.materialise()
	for _, s := range w.specs {
		var l filterlist.RuleList
		if s.file {
			fl, err := filterlist.NewFileRuleList(s.id, s.path, false)
			if err != nil {
				panic(err)
			}
			l = fl
		} else {
			l = &filterlist.StringRuleList{ID: s.id, RulesText: s.text}
		}
		if spy != nil {
			sl := &fSpyList{RuleList: l, log: spy}
			if hostsOnly {
				// the DNS engine built over this list knows hosts-style rules only
				sl.hostsOnly = fMaskNonHosts(s.text, s.id) + " "
			}
			l = sl
		}
		ls = append(ls, l)
	}

	return ls
}

func (w *fWorld) storage(spy *[]fRead, hostsOnly bool) *filterlist.RuleStorage {
	s, err := filterlist.NewRuleStorage(w.lists(spy, hostsOnly))
	if err != nil {
		panic(err)
	}

	return s
}

// ------------------------------------------------------- canonical texts ----

func fRuleKey(r rules.Rule) string {
	if r == nil {
		return "nil"
	}
	// a typed nil pointer inside the interface (e.g. a zeroed slice element of a result)
	switch v := r.(type) {
	case *rules.NetworkRule:
		if v == nil {
			return "nil"
		}
	case *rules.HostRule:
		if v == nil {
			return "nil"
		}
	case *rules.CosmeticRule:
		if v == nil {
			return "nil"
		}
	}

	return fmt.Sprintf("%d:%s", r.GetFilterListID(), r.Text())
}

func fNetKey(r *rules.NetworkRule) string {
	if r == nil {
		return "nil"
	}

	return fRuleKey(r)
}

func fNetKeys(rs []*rules.NetworkRule) string {
	ks := make([]string, len(rs))
	for i, r := range rs {
		ks[i] = fNetKey(r)
	}

	return "[" + strings.Join(ks, " | ") + "]"
}

func fHostKeys(rs []*rules.HostRule) string {
	ks := make([]string, len(rs))
	for i, r := range rs {
		ks[i] = fRuleKey(r)
	}

	return "[" + strings.Join(ks, " | ") + "]"
}

// fSerDNS serialises a DNS result completely, including both rewrite views.
func fSerDNS(res *urlfilter.DNSResult, matched bool) string {
	return fmt.Sprintf("matched=%v rule=%s all=%s v4=%s v6=%s rwAll=%s rw=%s", matched, fNetKey(res.NetworkRule),
		fNetKeys(res.NetworkRules), fHostKeys(res.HostRulesV4), fHostKeys(res.HostRulesV6),
		fNetKeys(res.DNSRewritesAll()), fNetKeys(res.DNSRewrites()))
}

// fSerDNSRaw serialises only the stored fields (no derived calls).
func fSerDNSRaw(res *urlfilter.DNSResult) string {
	return fmt.Sprintf("rule=%s all=%s v4=%s v6=%s", fNetKey(res.NetworkRule),
		fNetKeys(res.NetworkRules), fHostKeys(res.HostRulesV4), fHostKeys(res.HostRulesV6))
}

func fSerMatchingRaw(m *rules.MatchingResult) string {
	return fmt.Sprintf("basic=%s doc=%s stealth=%s csp=%s cookie=%s replace=%s", fNetKey(m.BasicRule),
		fNetKey(m.DocumentRule), fNetKey(m.StealthRule), fNetKeys(m.CspRules), fNetKeys(m.CookieRules),
		fNetKeys(m.ReplaceRules))
}

func fSerMatching(m *rules.MatchingResult) string {
	return fSerMatchingRaw(m) + fmt.Sprintf(" result=%s cosopt=%d", fNetKey(m.GetBasicResult()), uint32(m.GetCosmeticOption()))
}

func fSerCosmetic(c urlfilter.CosmeticResult) string {
	return fmt.Sprintf("eh=%q/%q/%q/%q css=%q/%q js=%q/%q", c.ElementHiding.Generic, c.ElementHiding.Specific,
		c.ElementHiding.GenericExtCSS, c.ElementHiding.SpecificExtCSS, c.CSS.Generic, c.CSS.Specific, c.JS.Generic, c.JS.Specific)
}

// fSortedSet canonicalises a result as a set (used where the scheduler or a
// fault may legitimately change multiplicities, see DESIGN.md section 6).
func fSortedSet(ks []string) []string {
	m := map[string]bool{}
	for _, k := range ks {
		m[k] = true
	}
	out := make([]string, 0, len(m))
	for k := range m {
		out = append(out, k)
	}
	sort.Strings(out)

	return out
}

// -------------------------------------------------------------- queries ----

// fQuery is one query of a history.
type fQuery struct {
	kind string // "dns", "web", "all", "cos"
	dns  *urlfilter.DNSRequest
	web  *rules.Request
	host string
	opt  rules.CosmeticOption
	// fam groups a query with its one-field variants (N2): same hostname / URL, ONE other datum
	fam int
}

func (q *fQuery) String() string {
	switch q.kind {
	case "dns":
		return fmt.Sprintf("dns{%s tags=%v name=%q ip=%v type=%d}", q.dns.Hostname, q.dns.SortedClientTags, q.dns.ClientName, q.dns.ClientIP, q.dns.DNSType)
	case "cos":
		return fmt.Sprintf("cos{%s %d}", q.host, q.opt)
	default:
		return fmt.Sprintf("%s{%s src=%s type=%d}", q.kind, q.web.URL, q.web.SourceURL, q.web.RequestType)
	}
}

// fGenQueryPool generates the pool of queries a history draws from (with
// repeats): DNS queries come in families that share the hostname and differ in
// the client fields.
func fGenQueryPool(r *rng, w *fWorld, n int) (qs []*fQuery) {
	defer func() {
		// N2: families of one-field variants.  Every query drawn below founds a family (its old-style siblings included);
		// a third of the families get 1-3 variants that differ from a member in exactly ONE datum (client name, tags,
		// address, record type; cosmetic option bit; referrer, request type), so that an answer cached under a key that
		// ignores that datum is asked for again with the datum changed.
		fam := 0
		for i, q := range qs {
			if q.fam == 0 {
				fam++
				q.fam = fam
				for j := i + 1; j < len(qs) && qs[j].kind == q.kind && fSameSubject(q, qs[j]); j++ {
					qs[j].fam = fam
				}
			}
		}
		base := len(qs)
		for i := 0; i < base; i++ {
			if qs[i].kind != "cos" && !r.chance(1, 3) {
				continue
			}
			cur := qs[i]
			for k := 1 + r.n(3); k > 0; k-- {
				v := fOneFieldVariant(r, cur)
				qs = append(qs, v)
				if r.chance(1, 2) {
					cur = v // chains: each differs from the previous one in one datum
				}
			}
		}
	}()
	for _, h := range w.must {
		qs = append(qs, &fQuery{kind: "dns", dns: &urlfilter.DNSRequest{Hostname: h}})
	}
	qs = append(qs, w.extra...)
	n += len(qs)
	for len(qs) < n {
		switch k := r.n(10); {
		case k < 5:
			d := genDNSRequest(r, w.ruleTexts)
			if len(w.hostNames) > 0 && r.chance(1, 3) {
				d.Hostname = pick(r, w.hostNames)
			} else if len(w.domains) > 0 && r.chance(1, 2) {
				d.Hostname = pick(r, []string{"", "", "www.", "sub."}) + pick(r, w.domains)
			}
			qs = append(qs, &fQuery{kind: "dns", dns: d})
			// siblings: same name, other client identity
			for j := r.n(3); j > 0; j-- {
				e := *d
				e.SortedClientTags = genSortedTags(r)
				e.ClientName = pick(r, append([]string{""}, poolClientNames...))
				e.ClientIP = genClientIP(r)
				e.DNSType = pick(r, poolDNSQTypes)
				qs = append(qs, &fQuery{kind: "dns", dns: &e})
			}
		case k < 7:
			q := genWebRequest(r, w.ruleTexts)
			if len(w.docSites) > 0 && r.chance(1, 3) {
				q = rules.NewRequest("http://norules.example.net/page"+fmt.Sprint(r.n(3)), "http://"+pick(r, w.docSites)+"/index.html", pick(r, poolReqTypes))
			}
			if len(w.domains) > 0 && r.chance(1, 3) {
				q = rules.NewRequest(pick(r, poolSchemes)+"://"+pick(r, w.domains)+pick(r, poolPaths), genSourceURL(r), pick(r, poolReqTypes))
			}
			qs = append(qs, &fQuery{kind: "web", web: q})
		case k < 9:
			q := genWebRequest(r, w.ruleTexts)
			if r.chance(1, 3) {
				q = hostnameRequest(genDNSRequest(r, w.ruleTexts))
			} else if len(w.domains) > 0 && r.chance(1, 2) {
				q = rules.NewRequest(pick(r, poolSchemes)+"://"+pick(r, w.domains)+pick(r, poolPaths), genSourceURL(r), pick(r, poolReqTypes))
			}
			qs = append(qs, &fQuery{kind: "all", web: q})
		default:
			qs = append(qs, &fQuery{kind: "cos", host: pick(r, []string{"", "www.", "sub."}) + pick(r, poolDomains),
				opt: rules.CosmeticOption(r.n(8))})
		}
	}

	return qs
}

func fSameSubject(a, b *fQuery) bool {
	switch a.kind {
	case "dns":
		return a.dns.Hostname == b.dns.Hostname
	case "cos":
		return a.host == b.host
	default:
		return a.web.URL == b.web.URL
	}
}

// fOneFieldVariant: a copy of q (same family) with exactly ONE datum changed.
func fOneFieldVariant(r *rng, q *fQuery) *fQuery {
	v := *q
	switch q.kind {
	case "dns":
		d := *q.dns
		switch r.n(5) {
		case 0:
			// one tag more / less / another set
			tags := append([]string(nil), d.SortedClientTags...)
			switch {
			case len(tags) > 0 && r.chance(1, 2):
				i := r.n(len(tags))
				tags = append(tags[:i:i], tags[i+1:]...)
			default:
				t := pick(r, poolTags)
				has := false
				for _, x := range tags {
					has = has || x == t
				}
				if !has {
					tags = append(tags, t)
					sort.Strings(tags)
				} else {
					tags = genSortedTags(r)
				}
			}
			d.SortedClientTags = tags
		case 1, 2:
			names := append([]string{""}, poolClientNames...)
			for try := 0; try < 4; try++ {
				if n := pick(r, names); n != d.ClientName {
					d.ClientName = n

					break
				}
			}
		case 3:
			for try := 0; try < 4; try++ {
				if ip := genClientIP(r); ip != d.ClientIP {
					d.ClientIP = ip

					break
				}
			}
		default:
			for try := 0; try < 4; try++ {
				if t := pick(r, poolDNSQTypes); t != d.DNSType {
					d.DNSType = t

					break
				}
			}
		}
		v.dns = &d
	case "cos":
		// the generic-CSS bit half of the time (with the CSS bit set it decides whether generic rules are returned)
		bit := pick(r, []rules.CosmeticOption{rules.CosmeticOptionGenericCSS, rules.CosmeticOptionGenericCSS, rules.CosmeticOptionCSS, rules.CosmeticOptionJS})
		v.opt = q.opt ^ bit
		if bit == rules.CosmeticOptionGenericCSS && r.chance(1, 2) {
			v.opt |= rules.CosmeticOptionCSS
		}
	default:
		w := q.web
		var n *rules.Request
		if w.IsHostnameRequest {
			d := &urlfilter.DNSRequest{Hostname: w.Hostname, SortedClientTags: w.SortedClientTags, ClientName: w.ClientName, ClientIP: w.ClientIP, DNSType: w.DNSType}

			return &fQuery{kind: q.kind, web: hostnameRequest(fOneFieldVariant(r, &fQuery{kind: "dns", dns: d}).dns), fam: q.fam}
		}
		switch r.n(3) {
		case 0:
			n = rules.NewRequest(w.URL, w.SourceURL, pick(r, poolReqTypes))
		case 1:
			n = rules.NewRequest(w.URL, genSourceURL(r), w.RequestType)
		default:
			// another PAGE of the same referrer site / no referrer
			src := ""
			if w.SourceURL == "" {
				src = genSourceURL(r)
			} else if i := strings.Index(w.SourceURL, "://"); i > 0 && r.chance(2, 3) {
				rest := w.SourceURL[i+3:]
				if j := strings.IndexByte(rest, '/'); j >= 0 {
					rest = rest[:j]
				}
				src = w.SourceURL[:i+3] + rest + pick(r, []string{"/", "/other-page", "/index.html?x=1"})
			}
			n = rules.NewRequest(w.URL, src, w.RequestType)
		}
		n.SortedClientTags, n.ClientName, n.ClientIP, n.DNSType = w.SortedClientTags, w.ClientName, w.ClientIP, w.DNSType
		v.web = n
	}

	return &v
}

// fLawMarker flags an answer that violates a Go-only law of the property.
const fLawMarker = "LAW-VIOLATION"

// fEngines are the three engines over ONE shared storage.
type fEngines struct {
	s *filterlist.RuleStorage
	n *urlfilter.NetworkEngine
	d *urlfilter.DNSEngine
	e *urlfilter.Engine
}

func fBuild(s *filterlist.RuleStorage) *fEngines {
	return &fEngines{s: s, n: urlfilter.NewNetworkEngine(s), d: urlfilter.NewDNSEngine(s), e: urlfilter.NewEngine(s)}
}

// fAnswer runs q and returns the canonical complete answer plus the result
// object (for later re-serialisation).
func (g *fEngines) answer(q *fQuery) (ans string, obj any) {
	switch q.kind {
	case "dns":
		res, matched := g.d.MatchRequest(q.dns)

		return fSerDNS(res, matched), res
	case "web":
		m := g.e.MatchRequest(q.web)
		// evaluating derived results (verdict, cosmetic option) must not alter the result object, and the
		// cosmetic option must not depend on whether the verdict was evaluated first
		raw := fSerMatchingRaw(m)
		optFirst := uint32(m.GetCosmeticOption())
		ser := fSerMatching(m)
		law := ""
		if after := fSerMatchingRaw(m); after != raw {
			law = " " + fLawMarker + " result object changed by GetBasicResult/GetCosmeticOption: " + raw + " -> " + after
		} else if optAfter := uint32(m.GetCosmeticOption()); optAfter != optFirst {
			law = fmt.Sprintf(" %s cosmetic option %d before and %d after GetBasicResult", fLawMarker, optFirst, optAfter)
		}

		return ser + law, m
	case "all":
		rs := g.n.MatchAll(q.web)
		first := fNetKeys(rs)
		// the caller's slice goes through removeBadfilterRules / removeDNSRewriteRules
		one := rules.NewMatchingResult(rs, nil).GetBasicResult()

		after := fNetKeys(rs)
		law := ""
		if after != first {
			law = " " + fLawMarker + " caller's slice changed by NewMatchingResult: " + after
		}

		return fmt.Sprintf("all=%s match=%s%s", first, fNetKey(one), law), rs
	default:
		c := g.e.GetCosmeticResult(q.host, q.opt)

		return fSerCosmetic(c), c
	}
}

// fReser re-serialises a result object without calling anything on the engine.
func fReser(obj any) string {
	switch o := obj.(type) {
	case *urlfilter.DNSResult:
		return fSerDNSRaw(o)
	case *rules.MatchingResult:
		return fSerMatchingRaw(o)
	case []*rules.NetworkRule:
		return fNetKeys(o)
	case urlfilter.CosmeticResult:
		return fSerCosmetic(o)
	default:
		return "?"
	}
}

// fPoke evaluates derived results on an OLD result object (the property says
// this must alter neither the engine nor previously returned results).
func fPoke(r *rng, obj any) {
	switch o := obj.(type) {
	case *urlfilter.DNSResult:
		switch r.n(3) {
		case 0:
			_ = o.DNSRewrites()
		case 1:
			_ = o.DNSRewritesAll()
		default:
			_ = rules.GetDNSBasicRule(o.NetworkRules)
		}
	case *rules.MatchingResult:
		if r.chance(1, 2) {
			_ = o.GetBasicResult()
		} else {
			_ = o.GetCosmeticOption()
		}
	case []*rules.NetworkRule:
		// the caller's slice goes through removeBadfilterRules / removeDNSRewriteRules
		switch r.n(3) {
		case 0:
			_ = rules.NewMatchingResult(o, o).GetBasicResult()
		case 1:
			_ = rules.GetDNSBasicRule(o)
		default:
			_ = rules.VerifRemoveDNSRewriteRules(o)
		}
	}
}

// ------------------------------------------------- abstract trace (model) ----

// fTruth is the content-determined retrieval function of a world: every
// scanned rule by storage index, as freshly parsed objects that never touch an
// engine under test.
type fTruth struct {
	order []int64
	rule  map[int64]rules.Rule
	rid   map[string]int // (listID,text) -> small number
}

func (w *fWorld) truth() *fTruth {
	t := &fTruth{rule: map[int64]rules.Rule{}, rid: map[string]int{}}
	s := w.storage(nil, false)
	defer func() { _ = s.Close() }()
	sc := s.NewRuleStorageScanner()
	for sc.Scan() {
		f, idx := sc.Rule()
		t.order = append(t.order, idx)
		t.rule[idx] = f
		k := fRuleKey(f)
		if _, ok := t.rid[k]; !ok {
			t.rid[k] = len(t.rid)
		}
	}

	return t
}

func (t *fTruth) ridOf(r rules.Rule) int {
	id, ok := t.rid[fRuleKey(r)]
	if !ok {
		return -1
	}

	return id
}

// fPrepStatus is what preparePattern answers on the (private) truth object of
// a rule: 0 = the pattern matches anything and nothing is stored, 1 = compiled,
// 2 = regexp.Compile failed (invalid).  Rules without a pattern: 0.
func fPrepStatus(r rules.Rule) int {
	nr, ok := r.(*rules.NetworkRule)
	if !ok || nr == nil {
		return 0
	}
	switch _, st := nr.VerifPrepared(); st {
	case 1:
		return 1
	case -1:
		return 2
	default:
		return 0
	}
}

// wire renders ((idx listID rid status)…); status is the lazy-compile class of
// the rule (see fPrepStatus), which the Prog model stores in the rule's cell.
func (t *fTruth) wire() string {
	items := make([]string, len(t.order))
	for i, idx := range t.order {
		l, _ := filterlist.VerifRuleListIdx(idx)
		items[i] = wlist(fmt.Sprint(idx), fmt.Sprint(l), fmt.Sprint(t.ridOf(t.rule[idx])), fmt.Sprint(fPrepStatus(t.rule[idx])))
	}

	return wlist(items...)
}

// fEntry is one abstract query of the Prog model: a loop over candidate
// indices (retrieve through the cache, skip nil, re-Match) followed by the
// matching rules of the in-memory (sequential scan) table.
type fEntry struct {
	pool     bool    // goes through getRequestFromPool
	cands    []int64 // candidate indices in visiting order (first occurrences)
	match    []int   // rids of candidate rules that match the request
	resident []int   // rids of in-memory rules that match the request
	obsAns   string  // observed answer (sorted rids) or "_"
	obsSize  string  // observed cache size after the entry or "_"
}

func fInts(xs []int) string {
	items := make([]string, len(xs))
	for i, x := range xs {
		items[i] = fmt.Sprint(x)
	}

	return wlist(items...)
}

func (e *fEntry) wire() string {
	cs := make([]string, len(e.cands))
	for i, c := range e.cands {
		cs[i] = fmt.Sprint(c)
	}

	return wlist(wbool(e.pool), wlist(cs...), fInts(e.match), fInts(e.resident), wbool(e.obsAns != "_"), wbool(e.obsSize != "_"))
}

func (e *fEntry) observed() string { return e.obsAns + ":" + e.obsSize }

func fDedup(reads []fRead, keep func(rules.Rule) bool) (out []int64) {
	seen := map[int64]bool{}
	for _, rd := range reads {
		if rd.under != nil && !keep(rd.under) {
			continue
		}
		if !seen[rd.idx] {
			seen[rd.idx] = true
			out = append(out, rd.idx)
		}
	}

	return out
}

func fIsNet(r rules.Rule) bool  { _, ok := r.(*rules.NetworkRule); return ok }
func fIsHost(r rules.Rule) bool { _, ok := r.(*rules.HostRule); return ok }

// netEntry observes, on a FRESH engine over spying lists, which indices
// MatchAll(req) visits, and computes the match bits on the truth objects.
func (w *fWorld) netEntry(t *fTruth, req *rules.Request, dnsEngine bool) *fEntry {
	key := fmt.Sprintf("net %v %+v", dnsEngine, *req)
	if e, ok := w.memo[key]; ok {
		c := *e

		return &c
	}
	e := w.netEntry0(t, req, dnsEngine)
	if w.memo == nil {
		w.memo = map[string]*fEntry{}
	}
	w.memo[key] = e
	c := *e

	return &c
}

func (w *fWorld) netEntry0(t *fTruth, req *rules.Request, dnsEngine bool) *fEntry {
	var log []fRead
	s := w.storage(&log, false)
	defer func() { _ = s.Close() }()
	var res []*rules.NetworkRule
	if dnsEngine {
		d := urlfilter.NewDNSEngine(s)
		log = log[:0]
		dr, _ := d.MatchRequest(&urlfilter.DNSRequest{Hostname: req.Hostname, SortedClientTags: req.SortedClientTags,
			ClientIP: req.ClientIP, ClientName: req.ClientName, DNSType: req.DNSType})
		res = dr.NetworkRules
	} else {
		n := urlfilter.NewNetworkEngine(s)
		log = log[:0]
		res = n.MatchAll(req)
	}
	e := &fEntry{obsAns: "_", obsSize: "_"}
	e.cands = fDedup(log, fIsNet)
	fromStorage := map[rules.Rule]bool{}
	for _, rd := range log {
		if rd.rule != nil {
			fromStorage[rd.rule] = true
		}
	}
	for _, idx := range e.cands {
		if nr, ok := t.rule[idx].(*rules.NetworkRule); ok && nr.Match(req) {
			e.match = append(e.match, t.ridOf(nr))
		}
	}
	for _, r := range res {
		if !fromStorage[r] {
			e.resident = append(e.resident, t.ridOf(r))
		}
	}

	return e
}

// hostEntry observes the candidates of the DNS engine's hosts table for a
// hostname, on a fresh engine that was built from the hosts-style lines only (same
// indices), so that the table is always reached.
func (w *fWorld) hostEntry(t *fTruth, hostname string) *fEntry {
	key := "host " + hostname
	if e, ok := w.memo[key]; ok {
		c := *e

		return &c
	}
	e := w.hostEntry0(t, hostname)
	if w.memo == nil {
		w.memo = map[string]*fEntry{}
	}
	w.memo[key] = e
	c := *e

	return &c
}

func (w *fWorld) hostEntry0(t *fTruth, hostname string) *fEntry {
	var log []fRead
	s := w.storage(&log, true)
	defer func() { _ = s.Close() }()
	d := urlfilter.NewDNSEngine(s)
	log = log[:0]
	_, _ = d.MatchRequest(&urlfilter.DNSRequest{Hostname: hostname})
	e := &fEntry{obsAns: "_", obsSize: "_"}
	e.cands = fDedup(log, fIsHost)
	for _, idx := range e.cands {
		if hr, ok := t.rule[idx].(*rules.HostRule); ok && hr.Match(hostname) {
			e.match = append(e.match, t.ridOf(hr))
		}
	}

	return e
}

func fSortedRids(t *fTruth, rs []rules.Rule) string {
	ids := make([]int, len(rs))
	for i, r := range rs {
		ids[i] = t.ridOf(r)
	}
	sort.Ints(ids)
	// as a set: the hosts table and the domains table do not suppress duplicates
	// (a name listed twice on one line), the spy sees first occurrences only
	var items []string
	for i, x := range ids {
		if i == 0 || x != ids[i-1] {
			items = append(items, fmt.Sprint(x))
		}
	}

	return "[" + strings.Join(items, ".") + "]"
}

func fNetAsRules(rs []*rules.NetworkRule) (out []rules.Rule) {
	for _, r := range rs {
		out = append(out, r)
	}

	return out
}

func fHostAsRules(a, b []*rules.HostRule) (out []rules.Rule) {
	for _, r := range a {
		out = append(out, r)
	}
	for _, r := range b {
		out = append(out, r)
	}

	return out
}

// entries translates one executed query (with its result object) into the
// abstract entries of the model, filling in what was observed.
func (w *fWorld) entries(t *fTruth, q *fQuery, obj any, cacheSize int) (es []*fEntry) {
	switch q.kind {
	case "dns":
		if q.dns.Hostname == "" {
			return nil
		}
		res := obj.(*urlfilter.DNSResult)
		req := hostnameRequest(q.dns)
		ne := w.netEntry(t, req, true)
		ne.pool = true
		ne.obsAns = fSortedRids(t, fNetAsRules(res.NetworkRules))
		es = append(es, ne)
		if res.NetworkRule == nil {
			he := w.hostEntry(t, q.dns.Hostname)
			he.obsAns = fSortedRids(t, fHostAsRules(res.HostRulesV4, res.HostRulesV6))
			es = append(es, he)
		}
	case "web":
		es = append(es, w.netEntry(t, q.web, false))
		if q.web.SourceURL != "" {
			es = append(es, w.netEntry(t, rules.NewRequest(q.web.SourceURL, "", rules.TypeDocument), false))
		}
	case "all":
		ne := w.netEntry(t, q.web, false)
		ne.obsAns = fSortedRids(t, fNetAsRules(obj.([]*rules.NetworkRule)))
		es = append(es, ne)
	}
	if len(es) > 0 {
		es[len(es)-1].obsSize = fmt.Sprint(cacheSize)
	}

	return es
}

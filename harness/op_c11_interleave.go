package main

// Family `c11.interleave` (C11): scanning and retrieval INTERLEAVED on the same storage, String vs File backing.
//
//	assert c11.interleave <seed-derived id> = T|F
//
// The storage model of C11 (UF/Model/Storage.lean) makes scanning a pure function of the list contents and retrieval
// a pure function of contents and index; `c11_backing` says the two backings cannot be told apart.  That is only a
// statement about the Go code if a scanner and RetrieveRule do not disturb one another, so this family drives exactly
// that: while a storage scanner is running, rules yielded so far are retrieved (the one just yielded, an earlier one,
// or nothing), a second scanner may be started half-way, and the whole observation -- the sequence of (index, kind,
// text, list id) yielded by every scanner and the result of every retrieval -- must be the same for a File-backed
// storage and a String-backed storage with the same contents, and every retrieval must give back the scanned rule.
// (Found by the second review as a defect of the pinned tree: D17.)

import (
	"bufio"
	"fmt"
	"os"
	"path/filepath"
	"strings"

	"github.com/AdguardTeam/urlfilter/filterlist"
	"github.com/AdguardTeam/urlfilter/rules"
)

func init() {
	gens["c11.interleave"] = genC11Interleave
	defects = append(defects, defect{
		id: "D17", prop: "C11", what: "a FileRuleList scanner shares the file offset with RetrieveRule: retrieving while scanning derails the scan",
		run: func() (bool, string) {
			var sb strings.Builder
			for i := 0; i < 400; i++ {
				fmt.Fprintf(&sb, "||host%04d.example.org^\n", i)
			}
			obsS, _ := c11ilObserve([]string{sb.String()}, false, func(int) int { return 0 }, -1)
			obsF, err := c11ilObserve([]string{sb.String()}, true, func(int) int { return 0 }, -1)
			if err != nil {
				return false, err.Error()
			}

			return obsS == obsF, fmt.Sprintf("string-backed: %d observations, file-backed: %d observations, first difference: %s",
				strings.Count(obsS, "\n"), strings.Count(obsF, "\n"), firstDiffLine(obsS, obsF))
		},
	})
}

func firstDiffLine(a, b string) string {
	as, bs := strings.Split(a, "\n"), strings.Split(b, "\n")
	for i := 0; i < len(as) || i < len(bs); i++ {
		x, y := "<end>", "<end>"
		if i < len(as) {
			x = as[i]
		}
		if i < len(bs) {
			y = bs[i]
		}
		if x != y {
			if len(x) > 160 {
				x = x[:160] + "…"
			}
			if len(y) > 160 {
				y = y[:160] + "…"
			}

			return fmt.Sprintf("#%d %q vs %q", i, x, y)
		}
	}

	return "none"
}

func c11ilRuleKey(f rules.Rule) string {
	if f == nil {
		return "nil"
	}

	return fmt.Sprintf("%T|%d|%s", f, f.GetFilterListID(), f.Text())
}

// c11ilObserve builds a storage over the contents (String- or File-backed), scans it and, after every yielded rule,
// does what choose(step) says: 0 = retrieve the rule just yielded, 1 = retrieve the first rule yielded, 2 = retrieve
// the rule yielded half-way back, 3 = nothing.  If second >= 0 a second storage scanner is started after that many
// rules and run to its end before the first one continues.  Returns the transcript.
func c11ilObserve(contents []string, file bool, choose func(step int) int, second int) (string, error) {
	var lists []filterlist.RuleList
	if file {
		dir, err := os.MkdirTemp("", "verif-c11il")
		if err != nil {
			return "", err
		}
		defer os.RemoveAll(dir)
		for i, c := range contents {
			p := filepath.Join(dir, fmt.Sprintf("l%d.txt", i))
			if err = os.WriteFile(p, []byte(c), 0o600); err != nil {
				return "", err
			}
			l, lerr := filterlist.NewFileRuleList(i+1, p, i%2 == 1)
			if lerr != nil {
				return "", lerr
			}
			lists = append(lists, l)
		}
	} else {
		for i, c := range contents {
			lists = append(lists, &filterlist.StringRuleList{ID: i + 1, RulesText: c, IgnoreCosmetic: i%2 == 1})
		}
	}
	s, err := filterlist.NewRuleStorage(lists)
	if err != nil {
		return "", err
	}
	defer func() { _ = s.Close() }()

	var sb strings.Builder
	var seen []int64
	retrieve := func(idx int64, want string) {
		g, rerr := s.RetrieveRule(idx)
		got := "err"
		if rerr == nil {
			got = guardStr(func() string { return c11ilRuleKey(g) })
		}
		fmt.Fprintf(&sb, "R %d %s same=%v\n", idx, got, want == "" || got == want)
	}
	keys := map[int64]string{}
	sc := s.NewRuleStorageScanner()
	for step := 0; sc.Scan(); step++ {
		f, idx := sc.Rule()
		k := c11ilRuleKey(f)
		fmt.Fprintf(&sb, "S %d %s\n", idx, k)
		seen = append(seen, idx)
		keys[idx] = k
		switch choose(step) {
		case 0:
			retrieve(idx, k)
		case 1:
			retrieve(seen[0], keys[seen[0]])
		case 2:
			retrieve(seen[len(seen)/2], keys[seen[len(seen)/2]])
		}
		if step == second {
			sc2 := s.NewRuleStorageScanner()
			for sc2.Scan() {
				f2, idx2 := sc2.Rule()
				fmt.Fprintf(&sb, "S2 %d %s\n", idx2, c11ilRuleKey(f2))
			}
		}
	}
	// afterwards every yielded index must still give back its rule
	for _, idx := range seen {
		retrieve(idx, keys[idx])
	}

	return sb.String(), nil
}

func genC11Interleave(r *rng, n int, w *bufio.Writer) {
	fSilenceLogs()
	for i := 0; i < n; i++ {
		nLists := 1 + r.n(3)
		contents := make([]string, nLists)
		total := 0
		for j := range contents {
			var sb strings.Builder
			nLines := 20 + r.n(400)
			if r.chance(1, 4) {
				nLines = 1 + r.n(12)
			}
			for k := 0; k < nLines; k++ {
				switch r.n(12) {
				case 0:
					sb.WriteString("! comment " + strings.Repeat("x", r.n(60)))
				case 1:
					sb.WriteString("")
				case 2:
					fmt.Fprintf(&sb, "0.0.0.0 h%d-%d.example.net alias%d.example.net", j, k, k)
				case 3:
					fmt.Fprintf(&sb, "site%d.example##.banner-%d", k, k)
				case 4:
					// a line longer than the 4 KiB read buffers
					fmt.Fprintf(&sb, "||long%d.example^$domain=%s", k, strings.TrimSuffix(strings.Repeat(fmt.Sprintf("d%d.example|", k), 300+r.n(200)), "|"))
				case 5:
					fmt.Fprintf(&sb, "@@||host%04d.example.org^$important", k)
				default:
					fmt.Fprintf(&sb, "||host%04d.example.org^", k)
				}
				if k+1 < nLines || r.chance(2, 3) {
					sb.WriteString(pick(r, []string{"\n", "\n", "\n", "\r\n"}))
				}
			}
			contents[j] = sb.String()
			total += len(contents[j])
		}
		mode := r.n(4)
		plan := make([]int, 4096)
		for k := range plan {
			switch mode {
			case 0:
				plan[k] = 0
			case 1:
				plan[k] = r.n(4)
			case 2:
				plan[k] = 3
				if r.chance(1, 10) {
					plan[k] = r.n(3)
				}
			default:
				plan[k] = 1 + r.n(3)
			}
		}
		choose := func(step int) int { return plan[step%len(plan)] }
		second := -1
		if r.chance(1, 3) {
			second = r.n(40)
		}
		obsS, errS := c11ilObserve(contents, false, choose, second)
		obsF, errF := c11ilObserve(contents, true, choose, second)
		ok := errS == nil && errF == nil && obsS == obsF && !strings.Contains(obsS, "same=false") && !strings.Contains(obsF, "same=false")
		detail := ""
		if !ok {
			detail = fmt.Sprintf("errors %v/%v; first difference String vs File: %s", errS, errF, firstDiffLine(obsS, obsF))
			if obsS == obsF {
				for _, l := range strings.Split(obsF, "\n") {
					if strings.Contains(l, "same=false") {
						detail += "; retrieval differs from the scanned rule: " + l
						break
					}
				}
			}
		}
		fmt.Fprintf(w, "assert c11.interleave %d = %s ## %d lists, %d bytes, retrieval plan mode %d, second scanner after %d: %s\n",
			i, wbool(ok), nLists, total, mode, second, noteStr(detail))
	}
}

package main

// Correspondence for the option bits that cannot be set from rule text on this
// tree ($redirect, $replace, $cookie, $csp): the harness sets them on freshly
// parsed rule objects through reflection (the field is unexported; nothing in
// /repo is changed), so that the arms of IsHigherPriority, of the switch in
// NewMatchingResult, of GetBasicResult and of GetDNSBasicRule that read them are
// compared with the model too.  These inputs are outside what a filter list can
// express, so they are compared with the MODEL only (the driver prints `-` as
// the spec): with an effective $replace rule the code returns nil, which is not
// the precedence the property documents (see UF/Props/C06.lean).
//
//	c06.resultx (<R rules>…) (<R source>…) = <class>:<pick>
//	c06.dnsbasicx (<R>…) = <class>:<pick>
//	c07.priox <R a> <R b> = T|F

import (
	"bufio"
	"fmt"
	"reflect"
	"unsafe"

	"github.com/AdguardTeam/urlfilter/rules"
)

func init() {
	gens["c06.resultx"] = genC06X
	gens["c07.priox"] = genC07X
}

// withOptions parses text again and ORs extra into the enabled options.
func withOptions(text string, extra rules.NetworkRuleOption) *rules.NetworkRule {
	f := mustRule(text)
	v := reflect.ValueOf(f).Elem().FieldByName("enabledOptions")
	p := reflect.NewAt(v.Type(), unsafe.Pointer(v.UnsafeAddr())).Elem()
	p.SetUint(p.Uint() | uint64(extra))

	return f
}

var xBits = []rules.NetworkRuleOption{
	rules.OptionReplace, rules.OptionCookie, rules.OptionCsp, rules.OptionRedirect,
	rules.OptionReplace | rules.OptionCookie, rules.OptionCsp | rules.OptionStealth, rules.OptionRedirect | rules.OptionImportant,
}

func xRule(r *rng, pool []string) *rules.NetworkRule {
	t := c06Pick(r, pool)
	if r.chance(1, 3) {
		return withOptions(t, pick(r, xBits))
	}

	return mustRule(t)
}

func genC06X(r *rng, n int, w *bufio.Writer) {
	pool := c06Pool("||e.org^", false)
	spool := c06Pool("||site.com^", false)
	for i := 0; i < n; i++ {
		var rs, src []*rules.NetworkRule
		for k := nCount(r, r.n(6), 12, 6, 200); k > 0; k-- {
			rs = append(rs, xRule(r, pool))
		}
		for k := nCount(r, r.n(3), 12, 3, 100); k > 0; k-- {
			src = append(src, xRule(r, spool))
		}
		var res *rules.NetworkRule
		cls := guardStr(func() string {
			res = rules.NewMatchingResult(append([]*rules.NetworkRule(nil), rs...), append([]*rules.NetworkRule(nil), src...)).GetBasicResult()

			return c08Class(res)
		})
		pk := "none"
		if res != nil {
			if j := c06IndexOf(rs, res); j >= 0 {
				pk = fmt.Sprintf("b%d", j)
			} else {
				pk = fmt.Sprintf("d%d", c06IndexOf(src, res))
			}
		}
		fmt.Fprintf(w, "c06.resultx %s %s = %s:%s ## rules [%s] source [%s] (option bits set by the harness are visible in the encodings only)\n",
			c06Enc(rs), c06Enc(src), cls, pk, c06Texts(rs), c06Texts(src))
		var dres *rules.NetworkRule
		dcls := guardStr(func() string {
			dres = rules.GetDNSBasicRule(append([]*rules.NetworkRule(nil), rs...))

			return c08Class(dres)
		})
		pk = "none"
		if dres != nil {
			pk = fmt.Sprintf("b%d", c06IndexOf(rs, dres))
		}
		fmt.Fprintf(w, "c06.dnsbasicx %s = %s:%s ## [%s]\n", c06Enc(rs), dcls, pk, c06Texts(rs))
	}
}

func genC07X(r *rng, n int, w *bufio.Writer) {
	all := c07All()
	mk := func() *rules.NetworkRule {
		a := pick(r, all)
		if r.chance(1, 2) {
			return withOptions(a.f.RuleText, pick(r, xBits))
		}

		return a.f
	}
	bad := ""
	for i := 0; i < n; i++ {
		a, b := mk(), mk()
		if r.chance(1, 5) {
			b = withOptions(a.RuleText, rules.OptionRedirect)
		}
		fmt.Fprintf(w, "c07.priox %s %s = %s ## %s (options %d)  >?  %s (options %d)\n", wnetrule(a), wnetrule(b), hp(a, b),
			a.RuleText, uint64(a.VerifRaw().EnabledOptions), b.RuleText, uint64(b.VerifRaw().EnabledOptions))
		fmt.Fprintf(w, "c07.priox %s %s = %s ## %s (options %d)  >?  %s (options %d)\n", wnetrule(b), wnetrule(a), hp(b, a),
			b.RuleText, uint64(b.VerifRaw().EnabledOptions), a.RuleText, uint64(a.VerifRaw().EnabledOptions))
		if a.IsHigherPriority(b) && b.IsHigherPriority(a) || a.IsHigherPriority(a) {
			bad = a.RuleText + " <> " + b.RuleText
		}
	}
	fmt.Fprintf(w, "assert c07.asymmx %d = %s ## no a>a, no a>b && b>a with $redirect/$replace/$cookie/$csp bits %s\n", n, wbool(bad == ""), bad)
}

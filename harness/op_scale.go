package main

// Families that need SCALE to manifest (Go-only law checks, `assert` ops):
//
//	assert scale.dup   = T   after several thousand distinct rules have been retrieved on one engine, a rule whose
//	                         index key occurs twice in the request is still reported once (answer == fresh engine)
//	assert scale.fault = T   after tens of thousands of rules have been retrieved from a file-backed list, closing the
//	                         storage loses none of them (C19: rules already materialised continue to be served)
//	assert c13.srcmemo = T   Engine.MatchRequest on consecutive requests whose referrers are different PAGES of one
//	                         host, only one of which is covered by a document-level exception with a path pattern
//	assert c04.collide = T   rules whose compiled regexp texts collide under the 32-bit hash still match their own hosts
//
// They are cheap (a second or two) because the real engine answers in microseconds.

import (
	"bufio"
	"fmt"
	"os"
	"path/filepath"
	"strings"
	"sync"

	"github.com/AdguardTeam/urlfilter"
	"github.com/AdguardTeam/urlfilter/filterlist"
	"github.com/AdguardTeam/urlfilter/filterutil"
	"github.com/AdguardTeam/urlfilter/rules"
	"golang.org/x/net/publicsuffix"
)

func init() {
	gens["scale"] = genScale
	gens["c13.srcmemo"] = genSrcMemo
	gens["c04.collide"] = genC04Collide
	gens["c13.tail"] = genC13Tail
	gens["scale.hist"] = genScaleHist
	gens["c17.memo"] = genC17Memo
}

// genScaleHist: several hundred rules sharing ONE 5-byte shortcut (the histogram of the shortcuts table counts
// that bucket up) -- every rule must still be found by the engine when its own request comes.
func genScaleHist(r *rng, _ int, w *bufio.Writer) {
	key := pick(r, []string{"abcde", "track", "/ads/"})
	n := 290 + r.n(40)
	var sb strings.Builder
	for i := 0; i < n; i++ {
		fmt.Fprintf(&sb, "%s$domain=site%d.example\n", key, i)
	}
	s, err := filterlist.NewRuleStorage([]filterlist.RuleList{&filterlist.StringRuleList{ID: 1, RulesText: sb.String()}})
	if err != nil {
		panic(err)
	}
	e := urlfilter.NewNetworkEngine(s)
	lost, first := 0, ""
	for i := 0; i < n; i++ {
		q := rules.NewRequest("http://cdn.example/x/"+key+"/1.js", fmt.Sprintf("http://site%d.example/", i), rules.TypeScript)
		want := fmt.Sprintf("%s$domain=site%d.example", key, i)
		found := false
		for _, f := range e.MatchAll(q) {
			if f.RuleText == want {
				found = true
			}
		}
		if !found && mustRule(want).Match(q) {
			lost++
			if first == "" {
				first = want
			}
		}
	}
	fmt.Fprintf(w, "assert scale.hist %d = %s ## %d rules sharing the shortcut %q: %d matching rules not reported by the engine; first: %s\n",
		n, wbool(lost == 0), n, key, lost, noteStr(first))
}

// c17Collisions: pairs of hostnames with equal FastHash whose registrable domains have DIFFERENT lengths.
var (
	c17CollOnce  sync.Once
	c17CollCache [][2]string
)

func c17Collisions() [][2]string {
	c17CollOnce.Do(func() {
		seen := map[uint32]string{}
		x := uint64(1717)
		letters := "abcdefghijklmnopqrstuvwxyz"
		word := func(k int) string {
			b := make([]byte, k)
			for i := range b {
				x = x*6364136223846793005 + 1442695040888963407
				b[i] = letters[(x>>33)%26]
			}

			return string(b)
		}
		for i := 0; i < 900000 && len(c17CollCache) < 10; i++ {
			h := word(3) + "." + word(4) + ".example.org" // eTLD+1 = example.org
			seen[filterutil.FastHash(h)] = h
		}
		for i := 0; i < 900000 && len(c17CollCache) < 10; i++ {
			h := word(8) + "example.org" // eTLD+1 = the whole name
			if o, ok := seen[filterutil.FastHash(h)]; ok {
				c17CollCache = append(c17CollCache, [2]string{o, h})
			}
		}
	})

	return c17CollCache
}

// genC17Memo: consecutive lookups of different hostnames with the same 32-bit hash.
func genC17Memo(r *rng, n int, w *bufio.Writer) {
	cs := c17Collisions()
	for i := 0; i < n && len(cs) > 0; i++ {
		p := pick(r, cs)
		a, b := p[0], p[1]
		if r.chance(1, 2) {
			a, b = b, a
		}
		ref := func(h string) string {
			d, err := publicsuffix.EffectiveTLDPlusOne(h)
			if err != nil {
				return h
			}

			return d
		}
		q := rules.NewRequest("http://"+a+"/x", "https://"+b+"/y", rules.TypeScript)
		h1 := rules.NewRequestForHostname(a)
		h2 := rules.NewRequestForHostname(b)
		ok := q.Domain == ref(a) && q.SourceDomain == ref(b) && q.ThirdParty == (ref(a) != ref(b)) && h1.Domain == ref(a) && h2.Domain == ref(b)
		fmt.Fprintf(w, "assert c17.memo %s %s = %s ## consecutive lookups of %q and %q (same 32-bit hash): domains %q/%q third-party=%v; hostname requests %q/%q; reference %q/%q\n",
			wb(a), wb(b), wbool(ok), a, b, q.Domain, q.SourceDomain, q.ThirdParty, h1.Domain, h2.Domain, ref(a), ref(b))
	}
}

// genC13Tail: a FILE-backed list whose last line has no final newline; rules of the list are retrieved in a
// random order (longer lines before the last one, too); every answer must equal a fresh engine's.
func genC13Tail(r *rng, n int, w *bufio.Writer) {
	fSilenceLogs()
	dir, err := os.MkdirTemp("", "verif-tail")
	if err != nil {
		return
	}
	defer os.RemoveAll(dir)
	for i := 0; i < n; i++ {
		k := 2 + r.n(6)
		var lines, hosts []string
		for j := 0; j < k; j++ {
			h := fmt.Sprintf("t%d%s.example", j, strings.Repeat("x", r.n(30)))
			hosts = append(hosts, h)
			lines = append(lines, pick(r, []string{"||" + h + "^", "0.0.0.0 " + h, "||" + h + "^$important", h}))
		}
		if i%5 == 2 {
			// one LONG line (beyond the 4 KiB read buffer; 1 in 3 of them 64 KiB .. 200 KiB, around the 65536 limit
			// of a standard line scanner): a hosts line naming many hosts, a rule with a long $denyallow list or a
			// hosts line with a long comment
			n := pick(r, []int{4090, 4096, 4100, 8192, 8200, 12000, 30000, 65000})
			if r.chance(1, 3) {
				n = pick(r, []int{65530, 65535, 65536, 65537, 65540, 70000, 131072, 131080, 200000})
			}
			j := r.n(k)
			h := hosts[j]
			var sb strings.Builder
			switch r.n(3) {
			case 0:
				sb.WriteString("0.0.0.0 " + h)
				for m := 0; sb.Len() < n; m++ {
					fmt.Fprintf(&sb, " alias%d.%s", m, h)
				}
			case 1:
				sb.WriteString("||" + h + "^$denyallow=")
				for m := 0; sb.Len() < n; m++ {
					fmt.Fprintf(&sb, "a%d.%s|", m, h)
				}
				sb.WriteString("z." + h)
			default:
				sb.WriteString("0.0.0.0 " + h + " # " + strings.Repeat("c", n))
			}
			lines[j] = sb.String()
		}
		content := strings.Join(lines, pick(r, []string{"\n", "\r\n"})) // no newline after the last line
		path := filepath.Join(dir, fmt.Sprintf("l%d.txt", i))
		if os.WriteFile(path, []byte(content), 0o600) != nil {
			return
		}
		mk := func() (*urlfilter.DNSEngine, *filterlist.RuleStorage) {
			fl, ferr := filterlist.NewFileRuleList(1, path, false)
			if ferr != nil {
				panic(ferr)
			}
			s, _ := filterlist.NewRuleStorage([]filterlist.RuleList{fl})

			return urlfilter.NewDNSEngine(s), s
		}
		e, st := mk()
		order := append([]string{}, hosts...)
		shuffle(r, order)
		order = append(order, hosts[len(hosts)-1], hosts[0])
		// the same content as an in-memory list: "indistinguishable to scanners, retrieval and engines"
		ms, _ := filterlist.NewRuleStorage([]filterlist.RuleList{&filterlist.StringRuleList{ID: 1, RulesText: content}})
		me := urlfilter.NewDNSEngine(ms)
		diff := ""
		for _, h := range order {
			fe, fs := mk()
			got, want, mem := scaleDNSAnswer(e, h), scaleDNSAnswer(fe, h), scaleDNSAnswer(me, h)
			_ = fs.Close()
			if got != want && diff == "" {
				diff = fmt.Sprintf("query %s: after history %s, fresh engine %s", h, c13Short(got), c13Short(want))
			}
			if got != mem && diff == "" {
				diff = fmt.Sprintf("query %s: file-backed list %s, in-memory list of the same content %s", h, c13Short(got), c13Short(mem))
			}
		}
		_ = st.Close()
		fmt.Fprintf(w, "assert c13.tail %s = %s ## file list %s; %s\n", wb(content), wbool(diff == ""), c13Short(fmt.Sprintf("%q", content)), noteStr(diff))
	}
}

// c13Short abbreviates a long text for a note.
func c13Short(s string) string {
	if len(s) <= 600 {
		return s
	}

	return fmt.Sprintf("%s…(%d bytes)…%s", s[:300], len(s), s[len(s)-200:])
}

func scaleDNSAnswer(e *urlfilter.DNSEngine, host string) string {
	return guardStr(func() string {
		res, ok := e.MatchRequest(&urlfilter.DNSRequest{Hostname: host, DNSType: 1})
		var hs []string
		for _, h := range append(append([]*rules.HostRule{}, res.HostRulesV4...), res.HostRulesV6...) {
			hs = append(hs, h.RuleText)
		}
		nr := "nil"
		if res.NetworkRule != nil {
			nr = res.NetworkRule.RuleText
		}

		return fmt.Sprintf("%v|%s|%q|%q", ok, nr, texts(res.NetworkRules), hs)
	})
}

func genScale(r *rng, n int, w *bufio.Writer) {
	fSilenceLogs()
	// --- scale.dup ---------------------------------------------------------------------------------------------
	// The history retrieves MORE distinct rules than any power-of-two bound up to 2^16 (sometimes 2^17) a cache of
	// deserialised rules could have; the probed rules are never asked about (never retrieved) before the probe.
	nRules := 66000 + r.n(4000)
	if r.chance(1, 4) {
		nRules = 131072 + 500 + r.n(3000)
	}
	var sb strings.Builder
	key := pick(r, []string{"abcde", "qwert", "zzyyx"})
	probeRules := []string{"||" + key + ".org^", "||" + key + ".org^$dnsrewrite=1.2.3.4", "||" + key + "." + key + ".org^$important",
		"||" + key + ".org^$cookie=c" + key, "@@||" + key + ".org^$csp=script-src 'none'"}
	at := r.n(3) // the probed rules stand at the start, in the middle or at the end of the list
	for i := 0; i < nRules; i++ {
		if (at == 0 && i == 0) || (at == 1 && i == nRules/2) {
			sb.WriteString(strings.Join(probeRules, "\n") + "\n")
		}
		fmt.Fprintf(&sb, "||h%06d.example^\n", i)
	}
	if at == 2 {
		sb.WriteString(strings.Join(probeRules, "\n") + "\n")
	}
	content := sb.String()
	type scaleEngines struct {
		d *urlfilter.DNSEngine
		n *urlfilter.NetworkEngine
		s *filterlist.RuleStorage
	}
	mk := func() scaleEngines {
		s, err := filterlist.NewRuleStorage([]filterlist.RuleList{&filterlist.StringRuleList{ID: 1, RulesText: content}})
		if err != nil {
			panic(err)
		}

		return scaleEngines{d: urlfilter.NewDNSEngine(s), n: urlfilter.NewNetworkEngine(s), s: s}
	}
	e := mk()
	for i := 0; i < nRules; i++ {
		_, _ = e.d.Match(fmt.Sprintf("h%06d.example", i))
	}
	retrieved := e.s.GetCacheSize()
	fresh := mk()
	target := key + "." + key + ".org" // the 5-byte index key occurs twice in the hostname
	webProbe := func(g scaleEngines) string {
		return guardStr(func() string {
			q := rules.NewRequest("https://"+target+"/"+key+"/x.js?"+key, "https://"+key+".org/", rules.TypeScript)

			return fNetKeys(g.n.MatchAll(q))
		})
	}
	got, want := scaleDNSAnswer(e.d, target), scaleDNSAnswer(fresh.d, target)
	gotW, wantW := webProbe(e), webProbe(fresh)
	// asked again (the rules have been retrieved once by now)
	got2, gotW2 := scaleDNSAnswer(e.d, target), webProbe(e)
	ok := got == want && gotW == wantW && got2 == want && gotW2 == wantW
	fmt.Fprintf(w, "assert scale.dup %d = %s ## after %d distinct rules were retrieved (cache size %d), DNS query %q: %s (again: %s); fresh engine: %s; web request https://%s/%s/x.js?%s MatchAll: %s (again: %s); fresh engine: %s\n",
		nRules, wbool(ok), nRules, retrieved, target, noteStr(got), noteStr(got2), noteStr(want), target, key, key, noteStr(gotW), noteStr(gotW2), noteStr(wantW))

	// --- scale.fault -------------------------------------------------------------------------------------------
	nHosts := 17000 + r.n(2000)
	dir, err := os.MkdirTemp("", "verif-scale")
	if err == nil {
		defer os.RemoveAll(dir)
		var hb strings.Builder
		for i := 0; i < nHosts; i++ {
			fmt.Fprintf(&hb, "0.0.0.0 s%05d.seed.example\n", i)
		}
		path := filepath.Join(dir, "hosts.txt")
		if os.WriteFile(path, []byte(hb.String()), 0o600) == nil {
			fl, ferr := filterlist.NewFileRuleList(1, path, true)
			if ferr == nil {
				s, _ := filterlist.NewRuleStorage([]filterlist.RuleList{fl})
				fe := urlfilter.NewDNSEngine(s)
				before := make([]string, nHosts)
				for i := 0; i < nHosts; i++ {
					before[i] = scaleDNSAnswer(fe, fmt.Sprintf("s%05d.seed.example", i))
				}
				_ = s.Close()
				lost, first := 0, ""
				for i := 0; i < nHosts; i++ {
					h := fmt.Sprintf("s%05d.seed.example", i)
					if after := scaleDNSAnswer(fe, h); after != before[i] {
						lost++
						if first == "" {
							first = h + ": before " + before[i] + " after " + after
						}
					}
				}
				fmt.Fprintf(w, "assert scale.fault %d = %s ## %d host rules retrieved, storage closed, queried again: %d answers changed; first: %s\n",
					nHosts, wbool(lost == 0), nHosts, lost, noteStr(first))
			}
		}
	}
	_ = n
}

// genSrcMemo: consecutive web requests from different pages of one referrer host.
func genSrcMemo(r *rng, n int, w *bufio.Writer) {
	for i := 0; i < n; i++ {
		host := pick(r, []string{"shop.example", "news.example.org", "docpath.example.net"})
		path := pick(r, []string{"/checkout/", "/embed/", "/a/b/"})
		opt := pick(r, []string{"urlblock", "genericblock", "document", "urlblock,elemhide"})
		block := pick(r, []string{"||ads.example^", "||ads.example^$domain=" + host, "/banner"})
		content := "@@||" + host + path + "$" + opt + "\n" + block + "\n||other.example^\n"
		mk := func() *urlfilter.Engine {
			s, err := filterlist.NewRuleStorage([]filterlist.RuleList{&filterlist.StringRuleList{ID: 1, RulesText: content}})
			if err != nil {
				panic(err)
			}

			return urlfilter.NewEngine(s)
		}
		e := mk()
		url := pick(r, []string{"http://ads.example/banner.js", "https://ads.example/x/banner"})
		pages := []string{"http://" + host + path + "x", "http://" + host + "/other", "http://" + host + path, "https://" + host + "/", "http://" + host + path + "y?z"}
		diff := ""
		k := 3 + r.n(6)
		for j := 0; j < k && diff == ""; j++ {
			src := pick(r, pages)
			got := guardStr(func() string { return fSerMatching(e.MatchRequest(rules.NewRequest(url, src, rules.TypeScript))) })
			want := guardStr(func() string { return fSerMatching(mk().MatchRequest(rules.NewRequest(url, src, rules.TypeScript))) })
			if got != want {
				diff = fmt.Sprintf("request %d %s from %s: after history %s, fresh engine %s", j, url, src, got, want)
			}
		}
		fmt.Fprintf(w, "assert c13.srcmemo %s = %s ## list %q; %s\n", wb(content), wbool(diff == ""), content, noteStr(diff))
	}
}

// c04RegexCollisions: pairs of hosts whose `||host^` rules compile to regexp texts with equal FastHash.
var (
	c04CollOnce  sync.Once
	c04CollCache [][2]string
)

func c04RegexCollisions() [][2]string {
	c04CollOnce.Do(func() {
		seen := map[uint32]string{}
		x := uint64(20260926)
		for i := 0; i < 1500000 && len(c04CollCache) < 8; i++ {
			x = x*6364136223846793005 + 1442695040888963407
			host := fmt.Sprintf("%s%d-%s.example.net", []string{"cdn", "stat", "img", "px"}[(x>>20)%4], (x>>33)%1000, []string{"sync", "count", "a", "track"}[(x>>50)%4])
			text := "(?i)" + rules.VerifPatternToRegexp("||"+host+"^")
			h := filterutil.FastHash(text)
			if o, ok := seen[h]; ok && o != host {
				c04CollCache = append(c04CollCache, [2]string{o, host})
			} else {
				seen[h] = host
			}
		}
	})

	return c04CollCache
}

func genC04Collide(r *rng, n int, w *bufio.Writer) {
	cs := c04RegexCollisions()
	for i := 0; i < n && len(cs) > 0; i++ {
		p := pick(r, cs)
		a, b := p[0], p[1]
		if r.chance(1, 2) {
			a, b = b, a
		}
		ra, rb := mustRule("||"+a+"^"), mustRule("||"+b+"^")
		ans := guardStr(func() string {
			qa := rules.NewRequest("https://"+a+"/x", "", rules.TypeScript)
			qb := rules.NewRequest("https://"+b+"/y", "", rules.TypeScript)
			// A first (its pattern is compiled), then B
			v := []bool{ra.Match(qa), rb.Match(qb), rb.Match(qa), ra.Match(qb)}

			return fmt.Sprint(v)
		})
		fmt.Fprintf(w, "assert c04.collide %s %s = %s ## rules ||%s^ and ||%s^ (their compiled texts have the same 32-bit hash): own-host/own-host/cross/cross = %s\n",
			wb(a), wb(b), wbool(ans == "[true true false false]"), a, b, ans)
	}
}

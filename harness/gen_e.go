package main

// Generators of work group E (C04, C12): denser modifier grammar and requests
// aimed at the modifier values of the rule under test.

import (
	"fmt"
	"net/netip"
	"os"
	"sort"
	"strings"

	"github.com/AdguardTeam/urlfilter"
	"github.com/AdguardTeam/urlfilter/rules"
)

var (
	ePoolCIDR = []string{
		"10.0.0.0/8", "10.0.0.5/8", "192.168.1.0/24", "192.168.1.77/24", "2001:db8::/32", "2001:db8::5/64",
		"127.0.0.1/32", "0.0.0.0/0", "::/0", "fe80::/10", "::ffff:10.0.0.0/104", "10.0.0.0/33", "1.2.3.4/", "/8",
	}
	ePoolIPs = []string{
		"127.0.0.1", "10.0.0.5", "10.1.2.3", "192.168.1.7", "192.168.2.7", "::1", "2001:db8::1", "2001:db9::1",
		"::ffff:10.0.0.5", "fe80::1", "1.2.3.999", "ab", "[::1]", "0.0.0.0", "::",
	}
	ePoolNames = []string{"laptop", "phone", "Frank's laptop", "a,b", "tv", "pc|x", "Mary \"the\" PC", "x/y", "ff", "~tilde", "é", "Fränk", "Frank's läptop", "日本", "ſ", "kids,tv|box", "back\\slash",
		// names that begin / end with a quote character: quoted with the same character they end in `\"` + `"` (exactly one pair of
		// quotes is removed, then the escapes are undone), quoted with the other one, or unquoted they stay as they are
		"Bob \"Mac\"", "the kids'", "\"", "'", "\"x", "y'", "''a''", "\"\"b", "'\"", "\"q\" 'r'", "\\'", "a\\\""}
	ePoolTagsX = []string{"device_pc", "device_phone", "device_", "device_pc2", "os_linux", "user_admin", "user_child", "a", "b", "c", "aa", "ab", "z9", "_", "0"}
	ePoolDNS   = []string{"A", "AAAA", "CNAME", "HTTPS", "TXT", "MX", "PTR", "SRV", "SVCB", "a", "aaaa", "Https", "NS", "SOA", "ANY", "TYPE65", "None", "Reserved", "", "A1"}
	// suffixes for `x.*` values: ICANN suffixes of 1, 2, 3 and 4 labels (wildcard rules of the list: "foo.kawasaki.jp" is a
	// suffix because of `*.kawasaki.jp`, "city.kawasaki.jp" is not because of `!city.kawasaki.jp`), private suffixes, non-suffixes
	ePoolSrc = []string{"com", "org", "co.uk", "de", "blogspot.com", "kawasaki.jp", "city.kawasaki.jp", "notgoogle.com", "github.io", "local", "example",
		"foo.kawasaki.jp", "k12.ca.us", "ac.gov.br", "tsukuba.ibaraki.jp", "gov.nc.tr", "a.sch.uk", "c.kobe.jp", "pvt.k12.ma.us", "com.au", "jp"}
)

// eReseed decorrelates the streams of different seeds: newRng(seed) starts the
// splitmix64 counter at seed*gamma, so the streams of seeds k and k+1 are the same
// stream shifted by one draw; generators that consume a variable number of draws per
// op then re-synchronise.  The first OUTPUT is a mixed value, use it as the new state.
func eReseed(r *rng) *rng { return &rng{s: r.u64() ^ 0x5DEECE66D} }

func eQuoteClient(r *rng, c string) string {
	c = strings.ReplaceAll(c, ",", `\,`)
	c = strings.ReplaceAll(c, "|", `\|`)
	if (strings.ContainsAny(c, " '\"") && !r.chance(1, 6)) || r.chance(1, 4) {
		q := pick(r, []string{"'", "\""})
		c = q + strings.ReplaceAll(c, q, `\`+q) + q
	}

	return c
}

func eGenClientValue(r *rng) string {
	n := 1 + r.n(6)
	if r.chance(1, 20) {
		n = nValueCount(r, 7, 150)
	}
	var items []string
	for i := 0; i < n; i++ {
		var c string
		switch r.n(5) {
		case 0:
			c = pick(r, ePoolIPs)
		case 1:
			c = pick(r, ePoolCIDR)
		default:
			c = eQuoteClient(r, pick(r, ePoolNames))
		}
		items = append(items, negate(r, c, 1, 3))
	}

	return strings.Join(items, "|")
}

func eGenDomainList(r *rng, wild bool, neg bool) string {
	pool := append([]string{}, poolDomains...)
	if wild {
		pool = append(pool, poolWildDomains...)
		pool = append(pool, "google.co.*", "*", ".*", "a.*", "notgoogle.*")
	}
	n := 1 + r.n(6)
	items := make([]string, n)
	for i := range items {
		items[i] = pick(r, pool)
		if r.chance(1, 12) {
			items[i] = mutateCase(r, items[i])
		}
	}
	if r.chance(1, 20) {
		// a LONG list (log-scale): the values a request is aimed at lie anywhere among generated ones
		items = nSpread(r, items, nWideValues(nValueCount(r, 7, 300), nil))
	}
	if r.chance(1, 16) {
		// a LONG name as a value (a subdomain chain of up to 253 bytes under a pool name)
		items[r.n(len(items))] = nLongHost(r, pick(r, poolDomains))
	}
	for i := range items {
		if neg {
			items[i] = negate(r, items[i], 1, 3)
		}
	}

	return strings.Join(items, "|")
}

func eGenList(r *rng, pool []string, maxN int, neg bool) string {
	n := 1 + r.n(maxN)
	items := make([]string, n)
	for i := range items {
		items[i] = pick(r, pool)
	}
	if r.chance(1, 20) {
		items = nSpread(r, items, nWideValues(nValueCount(r, maxN+1, 200), pool)) // a LONG list (log-scale)
	}
	for i := range items {
		if neg {
			items[i] = negate(r, items[i], 1, 3)
		}
	}

	return strings.Join(items, "|")
}

// eGenModifiers: any subset of modifiers, 1..6 values each, negations, any order.
func eGenModifiers(r *rng, whitelist bool) (mods []string) {
	if r.chance(1, 4) {
		mods = append(mods, "important")
	}
	if r.chance(1, 3) {
		mods = append(mods, pick(r, []string{"third-party", "~third-party", "first-party", "~first-party"}))
	}
	if r.chance(1, 6) {
		mods = append(mods, pick(r, []string{"match-case", "~match-case"}))
	}
	if r.chance(1, 2) {
		for _, c := range subset(r, poolContent, 4) {
			mods = append(mods, negate(r, c, 1, 3))
		}
	}
	if r.chance(1, 2) {
		mods = append(mods, "domain="+eGenDomainList(r, true, true))
	}
	if whitelist && r.chance(1, 4) {
		mods = append(mods, subset(r, append([]string{"~extension"}, poolWhiteOpts...), 3)...)
	}
	if !whitelist && r.chance(1, 10) {
		mods = append(mods, pick(r, poolBlackOpts))
	}
	if r.chance(1, 3) {
		mods = append(mods, "denyallow="+eGenDomainList(r, r.chance(1, 3), r.chance(1, 12)))
	}
	if r.chance(1, 3) {
		mods = append(mods, "dnstype="+eGenList(r, ePoolDNS[:14], 6, true))
	}
	if r.chance(1, 3) {
		mods = append(mods, "ctag="+eGenList(r, ePoolTagsX, 6, true))
	}
	if r.chance(1, 3) {
		mods = append(mods, "client="+eGenClientValue(r))
	}
	if r.chance(1, 14) {
		mods = append(mods, "dnsrewrite="+pick(r, poolRewrites))
	}
	if r.chance(1, 15) {
		mods = append(mods, "badfilter")
	}
	shuffle(r, mods)

	return mods
}

func eGenNetRuleText(r *rng) string {
	wl := r.chance(1, 4)
	var sb strings.Builder
	if wl {
		sb.WriteString("@@")
	}
	sb.WriteString(genPattern(r))
	mods := eGenModifiers(r, wl)
	if len(mods) > 0 {
		sb.WriteString("$" + strings.Join(mods, ","))
	}

	return sb.String()
}

func eGenValidNetRule(r *rng) (*rules.NetworkRule, string) {
	for {
		t := eGenNetRuleText(r)
		f, err := rules.NewNetworkRule(t, 1+r.n(3))
		if err == nil {
			return f, t
		}
	}
}

// eHostAround returns a host name aimed at the boundaries of a domain value:
// the domain itself, a subdomain, a sibling sharing the suffix without a
// label boundary, a wildcard-TLD instance and its near misses.
func eHostAround(r *rng, d string) string {
	if r.chance(1, 10) {
		// a LONG host (log-scale total length up to 253 bytes): a subdomain chain under the value / under an instance
		// of the wildcard value, or (control) the same labels in front of a name that only ends like the value
		if strings.HasSuffix(d, ".*") {
			d = d[:len(d)-1] + pick(r, ePoolSrc)
		}
		if r.chance(1, 5) {
			return nLongHost(r, "not"+d)
		}

		return nLongHost(r, d)
	}
	if strings.HasSuffix(d, ".*") {
		base := d[:len(d)-2]
		switch r.n(8) {
		case 0:
			return base + "." + pick(r, ePoolSrc)
		case 1:
			return "www." + base + "." + pick(r, ePoolSrc)
		case 2:
			return base + ".not" + base + ".com"
		case 3:
			return "not" + base + "." + pick(r, ePoolSrc)
		case 4:
			return base + "x." + pick(r, ePoolSrc)
		case 5:
			return "a." + base + ".b." + base + ".com"
		case 6:
			return base
		default:
			return base + "." + pick(r, ePoolSrc)
		}
	}
	switch r.n(7) {
	case 0, 1:
		return d
	case 2:
		return pick(r, []string{"www.", "a.b.", "x."}) + d
	case 3:
		return "not" + d
	case 4:
		if i := strings.IndexByte(d, '.'); i >= 0 {
			return d[i+1:]
		}

		return d
	case 5:
		return d + ".evil.com"
	default:
		return mutateCase(r, d)
	}
}

func ePickDomainValue(r *rng, lists ...[]string) (string, bool) {
	var all []string
	for _, l := range lists {
		all = append(all, l...)
	}
	if len(all) == 0 {
		return "", false
	}

	return pick(r, all), true
}

func eAddrIn(r *rng, p netip.Prefix) netip.Addr {
	a := p.Addr()
	if r.chance(1, 2) {
		return a
	}
	// flip a low bit (may stay inside or leave a /32, /128)
	b := a.AsSlice()
	b[len(b)-1] ^= byte(1 << r.n(3))
	if r.chance(1, 4) {
		b[0] ^= 0x40
	}
	out, _ := netip.AddrFromSlice(b)

	return out
}

var eReqTypeByName = map[string]rules.RequestType{
	"script": rules.TypeScript, "stylesheet": rules.TypeStylesheet, "subdocument": rules.TypeSubdocument,
	"object": rules.TypeObject, "image": rules.TypeImage, "xmlhttprequest": rules.TypeXmlhttprequest,
	"media": rules.TypeMedia, "font": rules.TypeFont, "websocket": rules.TypeWebsocket, "ping": rules.TypePing,
	"other": rules.TypeOther,
}

// eAimedRequest builds a request aimed at satisfying (or narrowly missing) the
// modifiers of f.
func eAimedRequest(r *rng, f *rules.NetworkRule, text string) *rules.Request {
	v := f.VerifRaw()
	hostReq := r.chance(1, 3)

	// request host: around $denyallow values, else around the pattern
	var q *rules.Request
	reqURL := genURL(r, []string{text})
	if d, ok := ePickDomainValue(r, v.DenyAllowDomains); ok && r.chance(2, 3) {
		h := eHostAround(r, d)
		if r.chance(1, 4) {
			// IP literals, and names that only LOOK like them (hex digits and dots): `$denyallow` never matches the former
			h = pick(r, append([]string{"1.2.3.4", "::1", "10.0.0.5", "fe", "1.2.3.999", "abc", "dead::beef", "::ffff:1.2.3.4"}, r1HexNames...))
		}
		if hostReq {
			reqURL = h
		} else {
			reqURL = pick(r, poolSchemes) + "://" + h + pick(r, poolPaths)
		}
	} else if hostReq {
		reqURL = genHostname(r, []string{text})
	}

	// source host: around $domain values
	src := genSourceURL(r)
	if d, ok := ePickDomainValue(r, v.PermittedDomains, v.RestrictedDomains); ok && r.chance(5, 6) {
		src = "https://" + eHostAround(r, d) + pick(r, poolPaths)
	}

	// request type: among the rule's types or any
	t := pick(r, poolReqTypes)
	if m := v.PermittedRequestTypes | v.RestrictedRequestTypes; m != 0 && r.chance(3, 4) {
		var in []rules.RequestType
		for _, x := range poolReqTypes {
			if m&x != 0 {
				in = append(in, x)
			}
		}
		t = pick(r, in)
	}

	if hostReq {
		d := &urlfilter.DNSRequest{Hostname: strings.ToLower(reqURL)}
		q = hostnameRequest(d)
		if r.chance(1, 8) {
			// a hostname request carrying source data (C04 quantifies over all fields)
			q.SourceHostname = rules.NewRequest("http://x/", src, t).SourceHostname
		}
	} else {
		q = rules.NewRequest(reqURL, src, t)
	}

	// tags: from the rule's own values and near misses, sorted
	tagSet := map[string]bool{}
	ruleTags := append(append([]string{}, v.PermittedClientTags...), v.RestrictedClientTags...)
	nt := nCount(r, r.n(4), 24, 5, 80)
	for i := 0; i < nt; i++ {
		switch {
		case len(ruleTags) > 0 && r.chance(1, 2):
			tagSet[pick(r, ruleTags)] = true
		case len(ruleTags) > 0 && r.chance(1, 3):
			x := pick(r, ruleTags)
			if r.chance(1, 2) && len(x) > 1 {
				x = x[:len(x)-1]
			} else {
				x += pick(r, []string{"0", "_", "z"})
			}
			tagSet[x] = true
		case nt > 4 && r.chance(2, 3):
			tagSet[pick(r, []string{"a", "device_", "tag_", "z"})+fmt.Sprintf("%03d", r.n(400))] = true // many tags: generated ones around the pool's
		default:
			tagSet[pick(r, ePoolTagsX)] = true
		}
	}
	var tags []string
	for k := range tagSet {
		tags = append(tags, k)
	}
	sort.Strings(tags)
	q.SortedClientTags = tags

	// client
	var hosts []string
	var nets []netip.Prefix
	for _, c := range []*rules.VerifClients{v.PermittedClients, v.RestrictedClients} {
		if c != nil {
			hosts = append(hosts, c.Hosts...)
			nets = append(nets, c.Nets...)
		}
	}
	switch {
	case len(hosts) > 0 && r.chance(2, 3):
		q.ClientName = pick(r, hosts)
		if r.chance(1, 5) {
			q.ClientName += "x"
		}
	case r.chance(1, 2):
		q.ClientName = pick(r, ePoolNames)
	}
	switch {
	case len(nets) > 0 && r.chance(3, 4):
		q.ClientIP = eAddrIn(r, pick(r, nets))
	case r.chance(1, 2):
		q.ClientIP = genClientIP(r)
	}

	// dns type
	q.DNSType = pick(r, poolDNSQTypes)
	if ts := append(append([]rules.RRType{}, v.PermittedDNSTypes...), v.RestrictedDNSTypes...); len(ts) > 0 && r.chance(3, 4) {
		q.DNSType = pick(r, ts)
	}

	return q
}

// eTestdataLines returns the lines of /repo/testdata/*.txt and hosts files (cached).
var eTestdataCache []string

func eTestdataLines() []string {
	if eTestdataCache != nil {
		return eTestdataCache
	}
	for _, name := range []string{"easylist.txt", "adguard_sdn_filter.txt", "hosts"} {
		b, err := os.ReadFile("/repo/testdata/" + name)
		if err != nil {
			continue
		}
		for _, l := range strings.Split(string(b), "\n") {
			eTestdataCache = append(eTestdataCache, strings.TrimRight(l, "\r"))
		}
	}
	if eTestdataCache == nil {
		eTestdataCache = []string{"||example.org^"}
	}

	return eTestdataCache
}

package main

// op `i2.reshortcut` (integration group I2): findRegexpShortcut from the TEXT of a /regex/ pattern.
//   i2.reshortcut <pattern> = x<shortcut>
// Go: rules.VerifFindRegexpShortcut (the heuristics + regexp/syntax); Lean: modelRegexpShortcut
// (the bracket-stripping replacements, the split, literal merging and alternation factoring of Go's
// parser on top of the model's parse tree).

import (
	"bufio"
	"fmt"
	"strings"

	"github.com/AdguardTeam/urlfilter/rules"
)

func init() { gens["i2.reshortcut"] = genI2ReShortcut }

var i2ReTricky = []string{
	`foo|foo`, `foo|foobar`, `foobar|foobaz`, `abc|abd|abe`, `abcx|abcy|abd`, `ads|adv|x`, `x|ads|adv`, `(foo|foobar)baz`, `(abc|abd)`,
	`ab[c]d`, `ab[.]com`, `ab[cC]d`, `[aA][bB]c`, `ab[kK]d`, `ab[sS]d`, `[a]`, `x[ab]y`, `ab[c]d(bc|x)`, `foo[/]bar`, `ad[s]erver`,
	`example\.com\/ads`, `ba\x41nner`, `a\dvert`, `banner{2,}`, `ban{0}ner`, `(ads){2}track`, `(ads){0,2}track`, `foo(bar)+baz`, `foo(bar)*baz`,
	`ads+erver`, `ad(s)erver`, `a{b}c`, `a{1,b}c`, `ab{2}c`, `^ads$`, `^ads$|^ads\.`, `\bads\b`, `ads\B`, `ad.server`, `ad.*server`,
	`(ad)(server)`, `((ad)server)`, `(ad|ad)server`, `(a)|(a)`, `ab|ab`, `ab|abc|abcd`, `abcd|abc|ab`, `ab|`, `|ab`, `ab||ab`, `a|a`,
	`[a-zA-Z]foo`, `foo[a-zA-Z]bar`, `x\[a-zA-Z]y`, `(a(b)c)d`, `a\(b\)c`, `a(b\)c)d`, `a(b)c(d)e`, `a{2}b{3}c`, `a[b]c[d]e`, `a(b]c`,
	"ab(c\nd)ef", "ab(cd\n)ef", "ab(\ncd)ef", "a(b)\n(c)d", `a\\(b)c`, `a\\\(b)c`, `(ab)`, `()ab`, `(a)`, `ab(`, `ab)`, `a[b`, `a]b`,
	`foo.bar|foo.baz`, `foo\.bar|foo\.baz`, `f+oo|f+ob`, `[f]oo|[f]ob`, `fo[o]|fo[b]`, `FOO|FOb`, `foo|FOO`, `[fF]oo|[fF]ob`,
	`A|a`, `a|A`, `a|A|b`, `z|\x5a`, `k|K`, `s|S`, `K|k|x`, `a|b`, `a|b|c`, `a|b|cd`, `ab|a|b`, `x|x|xy`, `a|a`, `[xX]|x`, `.|a`, `a|.`, `\d|a`, `[ab]|c`,
	`\dxx1|\dxx2`, `.ab|.ac`, `[0-9]ab|[0-9]ac`, `[0-9]ab|\dac`, `\Dab|[^0-9]ac`, `\d{2}ab|\d{2}ac`, `\d{2}ab|\d{3}ac`, `a{2}bc|a{2}bd`, `\d+ab|\d+ac`, `\wab|\wac|\wad`,
	`ab1|ab2|cd1|cd2`, `(ab1|ab2)|(ab1|ab2)`, `ab(c|d)|ab(c|d)`, `abc|abd|ab`, `ab|abc|abd`, `xab|xac|xad|x`, `aab|aac|abb|abc`, `a.b|a.c`, `a\.b|a\.c`,
	// group P3: Equal ignores the fold flag in round 2 of parser.factor
	`A.|[aA]`, `[aA]b|A.`, `A[^a]|[Aa]a`, `Ab|Ac|[aA]d`, `AB.|A[bB]`, `A{2}x|[aA]{2}y`, `A.|[aA]b|[aA]`, `AB|A[bB]c|[aA]Bd`, `ads[A]x|ads[aA]y`,
	`Ads|[aA]dserver`, `[aA]dserver|Ads`, `bannerA.|banner[aA]`, `(A.|[aA])banner`, `A|[aA]b`, `[aA]x|A|A`, `[0-9]A.|[0-9][aA]`, `K.|[kK]`, `a.|[aA]`,
	`x(foo|fob)y`, `(foo|fob)+`, `(foo|fob){2}`, `(foo|fob)*z`, `abc|abd|`, `ab\x63|abd`, `a.c|a.d`, `aa|ab|ac`, `a1|a2|b3`,
}

func i2ReText(r *rng) string {
	switch k := r.n(20); {
	case k < 6:
		return pick(r, i2ReTricky)
	case k < 8:
		// mutate a tricky one
		return eMutate(r, pick(r, i2ReTricky))
	case k < 11:
		// branches sharing prefixes
		pre := pick(r, []string{"ad", "ads", "banner", "foo", "a", "track", `ad\.`, "ad[s]", ""})
		n := 2 + r.n(3)
		bs := make([]string, n)
		for i := range bs {
			bs[i] = pre + pick(r, []string{"", "x", "y", "server", "s", `\d`, "[0-9]", "(z)", "s+", "ab", "ac", `\dx`, `\dy`, ".x", ".y", `\d{2}x`, "[ab]", "[aA]", "A", "a"})
			if r.chance(1, 8) {
				bs[i] = pick(r, []string{"q", "", "(ad)"}) + bs[i]
			}
		}
		s := strings.Join(bs, "|")
		if r.chance(1, 3) {
			s = pick(r, []string{"x", "", "^", `\/`}) + "(" + s + ")" + pick(r, []string{"y", "", "$", "+", `\.js`})
		}

		return s
	case k < 15:
		return genRegexText(r)
	default:
		return ruleInner(pickRegexRule(r))
	}
}

func genI2ReShortcut(r *rng, n int, w *bufio.Writer) {
	r = remix(r)
	rs := bundledRegexRules()
	for i := 0; i < n; i++ {
		var p string
		if i < len(rs) && r.chance(1, 2) {
			p = rs[i].VerifRaw().Pattern // every bundled regex rule in turn (first pass)
		} else {
			p = "/" + i2ReText(r) + "/"
		}
		ans := guardStr(func() string { return wb(rules.VerifFindRegexpShortcut(p)) })
		fmt.Fprintf(w, "i2.reshortcut %s = %s ## %s -> %q\n", wb(p), ans, noteStr(p), rules.VerifFindRegexpShortcut(p))
	}
}

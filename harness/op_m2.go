package main

// Group M2: rule texts that collide under the 32-bit hash inside real engines, and the engine-level view of C07.
//
//	m2Preimages      X with FastHash(prefix+X+suffix) = target, by a meet-in-the-middle search (djb2-xor is invertible
//	                 step by step); deterministic, cached
//	m2CollScenario   an engine scenario (web or DNS) that contains a pool rule A and a DIFFERENT rule B of any class
//	                 with FastHash(B.text) = FastHash(A.text), both matching the request, over a short host (no
//	                 shortcut of 5 bytes: the sequential-scan table) -- used by c06.engine and c07.engine
//	c07.engine       the scenarios of c06.engine (plain and colliding) with the C07 checks switched on: direct selection
//	                 over ALL matching rules against the model (c06.pick / c06.dnspick), and `assert c07.engsel`: the rule
//	                 an engine selects is tied with that selection, for every storage order, and across the orders

import (
	"bufio"
	"strings"
	"sync"

	"github.com/AdguardTeam/urlfilter/filterutil"
	"github.com/AdguardTeam/urlfilter/rules"
)

func init() { gens["c07.engine"] = genC07Engine }

const m2Letters = "abcdefghijklmnopqrstuvwxyz"

// m2Inv33 is the inverse of 33 modulo 2^32 (Newton iteration).
var m2Inv33 = func() uint32 {
	x := uint32(33)
	for i := 0; i < 6; i++ {
		x *= 2 - 33*x
	}

	return x
}()

func m2Fold(h uint32, s string) uint32 {
	for i := 0; i < len(s); i++ {
		h = (h * 33) ^ uint32(s[i])
	}

	return h
}

type m2Key struct {
	target         uint32
	prefix, suffix string
}

var (
	m2Mu    sync.Mutex
	m2Cache = map[m2Key][]string{}
	m2Tab   []uint32 // scratch: forward table, 2^20 slots
)

// m2Preimages returns up to 6 strings X of eight lower-case letters with FastHash(prefix+X+suffix) == target
// (about 48 exist on average).  Forward: the states after the first four letters, stored by their low 20 bits;
// backward: the suffix and the last four letters are undone from the target.
func m2Preimages(target uint32, prefix, suffix string) []string {
	m2Mu.Lock()
	defer m2Mu.Unlock()
	k := m2Key{target, prefix, suffix}
	if v, ok := m2Cache[k]; ok {
		return v
	}
	const bits = 20
	const mask = 1<<bits - 1
	if m2Tab == nil {
		m2Tab = make([]uint32, 1<<bits)
	}
	for i := range m2Tab {
		m2Tab[i] = 0
	}
	h0 := m2Fold(5381, prefix)
	fwd := func(idx uint32) uint32 {
		h := h0
		for j := 0; j < 4; j++ {
			h = (h * 33) ^ uint32(m2Letters[idx%26])
			idx /= 26
		}

		return h
	}
	for idx := uint32(0); idx < 26*26*26*26; idx++ {
		m2Tab[fwd(idx)&mask] = idx + 1
	}
	t := target
	for i := len(suffix) - 1; i >= 0; i-- {
		t = (t ^ uint32(suffix[i])) * m2Inv33
	}
	var out []string
search:
	for c8 := 0; c8 < 26; c8++ {
		t8 := (t ^ uint32(m2Letters[c8])) * m2Inv33
		for c7 := 0; c7 < 26; c7++ {
			t7 := (t8 ^ uint32(m2Letters[c7])) * m2Inv33
			for c6 := 0; c6 < 26; c6++ {
				t6 := (t7 ^ uint32(m2Letters[c6])) * m2Inv33
				for c5 := 0; c5 < 26; c5++ {
					t5 := (t6 ^ uint32(m2Letters[c5])) * m2Inv33
					e := m2Tab[t5&mask]
					if e == 0 || fwd(e-1) != t5 {
						continue
					}
					idx := e - 1
					x := make([]byte, 0, 8)
					for j := 0; j < 4; j++ {
						x = append(x, m2Letters[idx%26])
						idx /= 26
					}
					x = append(x, m2Letters[c5], m2Letters[c6], m2Letters[c7], m2Letters[c8])
					if filterutil.FastHash(prefix+string(x)+suffix) == target {
						out = append(out, string(x))
						if len(out) >= 6 {
							break search
						}
					}
				}
			}
		}
	}
	if len(m2Cache) < 20000 {
		m2Cache[k] = out
	}

	return out
}

// m2FreeMods: modifiers with a free value X that leave the rule applicable to the scenario's request: a restricted
// domain / tag / client nobody has, a $denyallow host that is not the request host, or a permitted client name that
// the request then carries.
var m2FreeMods = []struct {
	name, pre, post string
	webOnly, client bool
}{
	{"domain=", "domain=~", ".com", true, false},
	{"ctag=", "ctag=~", "", false, false},
	{"client=", "client=~", "", false, false},
	{"client=", "client=", "", false, true},
	{"denyallow=", "denyallow=", ".net", false, false},
}

// m2Partner builds a rule text B != a from the text t (a rule of the pool) and one free modifier such that
// FastHash(B) == FastHash(a); client is the client name the request must carry for B to apply ("" = any).
func m2Partner(r *rng, a, t string, web bool) (b, client string, ok bool) {
	var cands []int
	for i, m := range m2FreeMods {
		if strings.Contains(t, m.name) || (m.webOnly && !web) {
			continue
		}
		cands = append(cands, i)
	}
	if len(cands) == 0 {
		return "", "", false
	}
	m := m2FreeMods[pick(r, cands)]
	var prefix, suffix string
	switch i := strings.IndexByte(t, '$'); {
	case i < 0:
		prefix, suffix = t+"$"+m.pre, m.post
	case r.chance(1, 2):
		prefix, suffix = t+","+m.pre, m.post
	default:
		prefix, suffix = t[:i+1]+m.pre, m.post+","+t[i+1:]
	}
	xs := m2Preimages(filterutil.FastHash(a), prefix, suffix)
	if len(xs) == 0 {
		return "", "", false
	}
	x := pick(r, xs)
	b = prefix + x + suffix
	if b == a || filterutil.FastHash(b) != filterutil.FastHash(a) {
		return "", "", false
	}
	if _, err := rules.NewNetworkRule(b, 1); err != nil {
		return "", "", false
	}
	if m.client {
		client = x
	}

	return b, client, true
}

var (
	m2PoolMu sync.Mutex
	m2Pools  = map[string][]string{}
)

func m2Pool(key string, build func() []string) []string {
	m2PoolMu.Lock()
	defer m2PoolMu.Unlock()
	if p, ok := m2Pools[key]; ok {
		return p
	}
	p := build()
	m2Pools[key] = p

	return p
}

// m2ShortHosts: `||host^` has no shortcut of 5 bytes, so the rule lands in the sequential-scan table unless it has a
// permitted $domain.
var m2ShortHosts = []string{"t.co", "a.io", "x.de", "g.cn"}

// m2CollScenario: rules over a short host with one colliding pair (A from the pool, B = another pool rule plus a free
// modifier), a badfilter twin now and then, a few more pool rules, and referrer rules for web requests.  The second
// storage order is the exact mirror of the first.
func m2CollScenario(r *rng, web bool) (sc c06Scenario, ok bool) {
	host := pick(r, m2ShortHosts)
	var pool []string
	if web {
		pool = m2Pool("web "+host, func() []string {
			pats := []string{"||" + host + "^", "||" + host + "/", "||" + host + "/ad", `/ad\.js/`}
			c06PatFamilies = append(c06PatFamilies, pats)

			return c06RequestPool(c06PoolOver(false, pats...))
		})
	} else {
		pool = m2Pool("dns "+host, func() []string {
			pats := []string{"||" + host + "^", "||" + host, host}
			c06PatFamilies = append(c06PatFamilies, pats)

			return c06PoolOver(true, pats...)
		})
	}
	var a, b, client string
	for try := 0; try < 8 && !ok; try++ {
		a = c06Pick(r, pool)
		if r.chance(1, 3) {
			a = pick(r, pool) // also $badfilter / $dnsrewrite rules
		}
		b, client, ok = m2Partner(r, a, c06Pick(r, pool), web)
	}
	if !ok {
		return sc, false
	}
	ts := []string{a, b}
	if r.chance(1, 5) {
		t := pick(r, ts)
		if !strings.Contains(t, "badfilter") {
			if strings.Contains(t, "$") {
				t += ",badfilter"
			} else {
				t += "$badfilter"
			}
			ts = append(ts, t)
		}
	}
	ts = append(ts, c06Multiset(r, pool, 3)...)
	sc = c06Scenario{web: web, client: client, mirror: true,
		note: " (texts " + a + " and " + b + " have the same 32-bit hash)"}
	if web {
		c06StdInit()
		ts = append(ts, c06Multiset(r, c06StdS, 2)...)
		sc.url, sc.src = "http://"+host+"/ad.js", "http://site.com/page"
	} else {
		sc.host = host
	}
	shuffle(r, ts)
	sc.ts = ts

	return sc, true
}

// genC07Engine: the engine scenarios with the C07 checks (see c06RunScenario); half of them contain a colliding pair.
func genC07Engine(r *rng, n int, w *bufio.Writer) {
	for i := 0; i < n; i++ {
		web := r.chance(1, 2)
		if r.chance(1, 2) {
			if sc, ok := m2CollScenario(r, web); ok {
				c06RunScenario(r, w, sc, 2+r.n(2), true)

				continue
			}
		}
		c06RunScenario(r, w, c06StdScenario(r, web), 2+r.n(2), true)
	}
}

package main

// Group M4: `c17.many` (C17) -- MANY distinct hostnames through one process.
//
// The families of C17 draw hostnames from small pools, so whatever the process keeps per hostname never grows beyond
// a few thousand entries; a bounded memo (cleared or evicted at 2^13, 2^15 ... entries) never reaches its bound and a
// lookup after an eviction is never made.  One trial = one sequence of 9000..70000 never-repeated hostnames (all PSL
// rule shapes) looked up through NewRequestForHostname and NewRequest (URL and source), each compared at once with
// golang.org/x/net/publicsuffix, with earlier names asked again in between and at the end.
//
//   assert c17.many <n> <token> = T|F

import (
	"bufio"
	"fmt"

	"github.com/AdguardTeam/urlfilter/rules"
)

func init() { gens["c17.many"] = genC17Many }

func genC17Many(r *rng, n int, w *bufio.Writer) {
	for t := 0; t < n; t++ {
		tok := fmt.Sprintf("m%05x", r.n(1<<20))
		total := pick(r, []int{9000, 8192 + r.n(64), 16384 + r.n(64), 20000, 33000 + r.n(3000), 66000 + r.n(3000)})
		names := make([]string, 0, total)
		bad := ""
		check := func(i int, h, other string) bool {
			want, wantOther := refDomainGo(h), refDomainGo(other)
			if q := rules.NewRequestForHostname(h); q.Domain != want || q.Hostname != h {
				bad = fmt.Sprintf("lookup %d: NewRequestForHostname(%q).Domain = %q, publicsuffix gives %q", i, h, q.Domain, want)

				return false
			}
			q := rules.NewRequest("https://"+h+"/p", "http://"+other+"/", rules.TypeScript)
			if q.Domain != want || q.SourceDomain != wantOther || q.ThirdParty != (want != wantOther) {
				bad = fmt.Sprintf("lookup %d: NewRequest(%q, source %q): domain %q source domain %q third-party %v, publicsuffix gives %q and %q",
					i, h, other, q.Domain, q.SourceDomain, q.ThirdParty, want, wantOther)

				return false
			}

			return true
		}
		ok := guardStr(func() string {
			for i := 0; i < total; i++ {
				var h string
				switch r.n(4) {
				case 0:
					h = fmt.Sprintf("%s-%d-%d.%s", tok, t, i, pick(r, c17Suffixes))
				case 1:
					h = fmt.Sprintf("%s.%s-%d-%d.%s", pick(r, c17Labels), tok, t, i, pick(r, c17Suffixes))
				case 2:
					h = fmt.Sprintf("%s-%d-%d.%s.%s", tok, t, i, pick(r, c17Labels), pick(r, c17Suffixes))
				default:
					h = fmt.Sprintf("%s%dx%d", tok, t, i)
				}
				other := h
				if len(names) > 0 && r.chance(2, 3) {
					other = names[r.n(len(names))]
				}
				names = append(names, h)
				if !check(i, h, other) {
					return "F"
				}
				if r.chance(1, 16) {
					// an old name again (after whatever happened to the entries in between)
					if !check(i, names[r.n(len(names))], h) {
						return "F"
					}
				}
			}
			for k := 0; k < 2000; k++ {
				if !check(total+k, names[r.n(len(names))], names[r.n(len(names))]) {
					return "F"
				}
			}

			return "T"
		})
		note := fmt.Sprintf("%d never-repeated hostnames (token %s) in one process, old names asked again", total, tok)
		if bad != "" {
			note = bad + "; " + note
		}
		fmt.Fprintf(w, "assert c17.many %d %s = %s ## %s\n", total, wb(tok), ok, note)
	}
}

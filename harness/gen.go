package main

// Grammar-based generators of rule texts and requests.  Mostly valid inputs;
// requests are built around the rules so that most of them hit something.

import (
	"fmt"
	"net/netip"
	"sort"
	"strings"

	"github.com/AdguardTeam/urlfilter"
	"github.com/AdguardTeam/urlfilter/rules"
)

var (
	poolDomains = []string{
		"example.org", "example.com", "sub.example.org", "a.b.example.org", "notexample.org",
		"test.co.uk", "ads.net", "google.com", "google.co.uk", "www.google.de", "google.notgoogle.com",
		"x.blogspot.com", "foo.city.kawasaki.jp", "bar.kawasaki.jp", "site.com", "cdn.site.com",
		"localhost", "tracker.io", "e.org", "a-b.example.net",
	}
	poolWildDomains = []string{"example.*", "google.*", "site.*", "www.google.*", "kawasaki.*"}
	poolPaths       = []string{"/ads/banner.png", "/ad", "/banner", "/x/y.js?z=1", "/", "", "/AD/Img.GIF", "/foo/bar_baz-1.%20", "/ws"}
	poolSchemes     = []string{"http", "https", "ws", "wss"}
	poolTags        = []string{"device_pc", "device_phone", "os_linux", "user_admin", "a", "b", "c", "z9"}
	poolClientNames = []string{"laptop", "phone", "Frank's laptop", "a,b", "tv", "pc|x"}
	poolClientIPs   = []string{"127.0.0.1", "10.0.0.5", "192.168.1.7", "::1", "2001:db8::1", "::ffff:10.0.0.5", "fe80::1%eth0"}
	poolClientNets  = []string{"10.0.0.0/8", "192.168.1.0/24", "2001:db8::/32", "127.0.0.1/32", "0.0.0.0/0", "::/0"}
	poolDNSTypes    = []string{"A", "AAAA", "CNAME", "HTTPS", "TXT", "MX", "PTR", "SRV", "SVCB", "a", "aaaa"}
	poolDNSQTypes   = []uint16{1, 28, 5, 65, 16, 15, 12, 33, 64, 2}
	poolContent     = []string{"script", "stylesheet", "subdocument", "object", "image", "xmlhttprequest", "media", "font", "websocket", "ping", "other"}
	poolReqTypes    = []rules.RequestType{
		rules.TypeDocument, rules.TypeSubdocument, rules.TypeScript, rules.TypeStylesheet, rules.TypeObject,
		rules.TypeImage, rules.TypeXmlhttprequest, rules.TypeMedia, rules.TypeFont, rules.TypeWebsocket,
		rules.TypePing, rules.TypeOther,
	}
	poolWhiteOpts = []string{"elemhide", "generichide", "genericblock", "jsinject", "urlblock", "content", "extension", "document", "stealth"}
	poolBlackOpts = []string{"popup", "empty", "mp4"}
	poolRewrites  = []string{
		"1.2.3.4", "::1", "example.net", "NXDOMAIN", "REFUSED", "NOERROR;A;1.2.3.4", "NOERROR;AAAA;::2",
		"NOERROR;CNAME;new.example.net", "NOERROR;TXT;hello", "NOERROR;MX;10 mail.example.net",
		"NOERROR;SRV;1 2 80 srv.example.net", "NOERROR;HTTPS;1 . alpn=h3", "NOERROR;PTR;host.example.net.", "",
		"SERVFAIL;;", "NOERROR;;",
	}
)

// genPattern returns a mask (or sometimes regex) pattern together with
// fragments a matching URL could contain.
func genPattern(r *rng) (pattern string) {
	d := pick(r, poolDomains)
	p := pick(r, poolPaths)
	switch r.n(14) {
	case 0:
		return "||" + d + "^"
	case 1:
		return "||" + d + p
	case 2:
		return "|" + pick(r, poolSchemes) + "://" + d + p
	case 3:
		return p + "*"
	case 4:
		return d
	case 5:
		return "||" + d + "^" + strings.TrimPrefix(p, "/") + "|"
	case 6:
		return "*" + p + "^"
	case 7:
		return "/" + strings.ReplaceAll(d, ".", `\.`) + "/"
	case 8:
		return "/ad[0-9]+|banner/"
	case 9:
		return pick(r, []string{"", "*", "|", "||", "a", "ad", "^", "/*", "ws", "http", "|http://", "|https", "://"})
	case 10:
		return "||" + d + "/*"
	case 11:
		return "/" + strings.Split(d, ".")[0] + "."
	case 12:
		return "://" + d
	default:
		return strings.ToUpper(d[:1]) + d[1:] + p
	}
}

func negate(r *rng, s string, num, den int) string {
	if r.chance(num, den) {
		return "~" + s
	}

	return s
}

func genList(r *rng, pool []string, maxN int, neg bool, sep string) string {
	items := subset(r, pool, maxN-1)
	if len(items) == 0 {
		items = []string{pick(r, pool)}
	}
	if r.chance(1, 24) {
		// a LONG value list (log-scale, up to a few hundred values): generated values around the pool's ones, so
		// that the value a request hits may be the 9th, the 70th or the 300th of the list
		items = nSpread(r, items, nWideValues(nValueCount(r, 7, 300), pool))
	}
	for i := range items {
		if neg {
			items[i] = negate(r, items[i], 1, 3)
		}
	}

	return strings.Join(items, sep)
}

func genClientValue(r *rng) string {
	n := 1 + r.n(4)
	if r.chance(1, 24) {
		n = nValueCount(r, 5, 120)
	}
	var items []string
	for i := 0; i < n; i++ {
		var c string
		switch r.n(4) {
		case 0:
			c = pick(r, poolClientIPs)
			if strings.Contains(c, "%") {
				c = "::1"
			}
		case 1:
			c = pick(r, poolClientNets)
		default:
			c = pick(r, poolClientNames)
			c = strings.ReplaceAll(c, ",", `\,`)
			c = strings.ReplaceAll(c, "|", `\|`)
			if strings.ContainsAny(c, " '") || r.chance(1, 4) {
				q := pick(r, []string{"'", "\""})
				c = q + strings.ReplaceAll(c, q, `\`+q) + q
			}
		}
		items = append(items, negate(r, c, 1, 3))
	}

	return strings.Join(items, "|")
}

// genModifiers returns a random list of modifiers; dns restricts them to the
// ones meaningful for DNS filtering.
func genModifiers(r *rng, whitelist, dns bool) (mods []string) {
	if r.chance(1, 3) {
		mods = append(mods, "important")
	}
	if !dns {
		if r.chance(1, 3) {
			mods = append(mods, pick(r, []string{"third-party", "~third-party", "first-party", "~first-party"}))
		}
		if r.chance(1, 6) {
			mods = append(mods, pick(r, []string{"match-case", "~match-case"}))
		}
		if r.chance(1, 2) {
			for _, c := range subset(r, poolContent, 3) {
				mods = append(mods, negate(r, c, 1, 3))
			}
		}
		if r.chance(1, 2) {
			pool := append(append([]string{}, poolDomains...), poolWildDomains...)
			mods = append(mods, "domain="+genList(r, pool, 6, true, "|"))
		}
		if whitelist && r.chance(1, 3) {
			mods = append(mods, subset(r, poolWhiteOpts, 3)...)
		}
		if !whitelist && r.chance(1, 10) {
			mods = append(mods, pick(r, poolBlackOpts))
		}
	}
	if r.chance(1, 4) {
		mods = append(mods, "denyallow="+genList(r, poolDomains, 4, false, "|"))
	}
	if r.chance(1, 4) {
		mods = append(mods, "dnstype="+genList(r, poolDNSTypes, 4, true, "|"))
	}
	if r.chance(1, 4) {
		mods = append(mods, "ctag="+genList(r, poolTags, 6, true, "|"))
	}
	if r.chance(1, 4) {
		mods = append(mods, "client="+genClientValue(r))
	}
	if r.chance(1, 12) {
		mods = append(mods, "dnsrewrite="+pick(r, poolRewrites))
	}
	if r.chance(1, 15) {
		mods = append(mods, "badfilter")
	}
	shuffle(r, mods)

	return mods
}

func genNetRuleText(r *rng, dns bool) string {
	wl := r.chance(1, 4)
	var sb strings.Builder
	if wl {
		sb.WriteString("@@")
	}
	sb.WriteString(genPattern(r))
	mods := genModifiers(r, wl, dns)
	if len(mods) > 0 {
		sb.WriteString("$" + strings.Join(mods, ","))
	}

	return sb.String()
}

// genValidNetRule retries until NewNetworkRule accepts the text.
func genValidNetRule(r *rng, dns bool) (*rules.NetworkRule, string) {
	for {
		t := genNetRuleText(r, dns)
		f, err := rules.NewNetworkRule(t, 1+r.n(3))
		if err == nil {
			return f, t
		}
	}
}

func mutateCase(r *rng, s string) string {
	b := []byte(s)
	for i := range b {
		if r.chance(1, 5) {
			if b[i] >= 'a' && b[i] <= 'z' {
				b[i] -= 32
			} else if b[i] >= 'A' && b[i] <= 'Z' {
				b[i] += 32
			}
		}
	}

	return string(b)
}

// urlAround builds a URL that has a good chance to be accepted by pattern.
func urlAround(r *rng, pattern string) string {
	p := pattern
	p = strings.TrimPrefix(p, "@@")
	if len(p) > 1 && p[0] == '/' && p[len(p)-1] == '/' {
		p = strings.NewReplacer(`\.`, ".", "[0-9]+", "7", "|", "/").Replace(p[1 : len(p)-1])
	}
	hasScheme := strings.HasPrefix(p, "|http") || strings.HasPrefix(p, "|ws")
	p = strings.TrimPrefix(p, "||")
	p = strings.TrimPrefix(p, "|")
	p = strings.TrimSuffix(p, "|")
	p = strings.NewReplacer("^", pick(r, []string{"/", "?", ":", "", "/x"}), "*", pick(r, []string{"", "zz", "/q/"})).Replace(p)
	var u string
	switch {
	case hasScheme || strings.Contains(p, "://"):
		u = p
		if strings.HasPrefix(u, "://") {
			u = pick(r, poolSchemes) + u
		}
	case r.chance(1, 2):
		u = pick(r, poolSchemes) + "://" + pick(r, []string{"", "www.", "sub."}) + p
	default:
		u = pick(r, poolSchemes) + "://" + pick(r, poolDomains) + "/" + strings.TrimPrefix(p, "/")
	}
	if r.chance(1, 5) {
		u = mutateCase(r, u)
	}
	if r.chance(1, 6) {
		u += pick(r, poolPaths)
	}
	switch r.n(20) {
	case 0:
		// a LONG URL (log-scale, up to beyond the 4 KiB cap): filler between the host and the part the pattern is about
		u = nLongURL(r, u, nPadLen(r))
	case 1, 2, 3:
		// a URL of ordinary length for a real page (70..300 bytes; the generated ones are 20..60 bytes long)
		u = nLongURL(r, u, nLog(r, 8, 250))
	}

	return u
}

func genURL(r *rng, ruleTexts []string) string {
	if len(ruleTexts) > 0 && r.chance(3, 4) {
		t := pick(r, ruleTexts)
		if i := strings.LastIndex(t, "$"); i > 0 {
			t = t[:i]
		}

		return urlAround(r, t)
	}

	if r.chance(1, 20) {
		return pick(r, poolSchemes) + "://" + nLongHost(r, pick(r, poolDomains)) + pick(r, poolPaths)
	}

	return pick(r, poolSchemes) + "://" + pick(r, poolDomains) + pick(r, poolPaths)
}

func genSourceURL(r *rng) string {
	if r.chance(1, 24) {
		// a long referrer host (up to 253 bytes) or a long referrer URL
		if r.chance(1, 2) {
			return "https://" + nLongHost(r, pick(r, poolDomains)) + pick(r, poolPaths)
		}

		return nLongURL(r, "http://"+pick(r, poolDomains)+pick(r, poolPaths), nPadLen(r))
	}
	switch r.n(6) {
	case 0:
		return ""
	case 1:
		return "https://" + pick(r, []string{"www.", "", "m."}) + pick(r, poolDomains)
	default:
		return "http://" + pick(r, poolDomains) + pick(r, poolPaths)
	}
}

func genSortedTags(r *rng) []string {
	tags := subset(r, poolTags, 4)
	if r.chance(1, 24) {
		// many client tags (log-scale): the tag a rule names sorts before, between or after generated ones
		seen := map[string]bool{}
		for _, t := range tags {
			seen[t] = true
		}
		for _, t := range nWideValues(nLog(r, 5, 100), poolTags) {
			if !seen[t] {
				seen[t] = true
				tags = append(tags, t)
			}
		}
	}
	sort.Strings(tags)

	return tags
}

func genClientIP(r *rng) netip.Addr {
	if r.chance(1, 3) {
		return netip.Addr{}
	}

	return netip.MustParseAddr(pick(r, poolClientIPs))
}

// genWebRequest builds a web request, sometimes with DNS-ish fields set too.
func genWebRequest(r *rng, ruleTexts []string) *rules.Request {
	q := rules.NewRequest(genURL(r, ruleTexts), genSourceURL(r), pick(r, poolReqTypes))
	if r.chance(1, 4) {
		q.SortedClientTags = genSortedTags(r)
		q.ClientName = pick(r, append([]string{""}, poolClientNames...))
		q.ClientIP = genClientIP(r)
		q.DNSType = pick(r, poolDNSQTypes)
	}

	return q
}

func genHostname(r *rng, ruleTexts []string) string {
	if len(ruleTexts) > 0 && r.chance(1, 2) {
		u := genURL(r, ruleTexts)
		if h := rules.NewRequest(u, "", rules.TypeDocument).Hostname; h != "" {
			return strings.ToLower(h)
		}
	}
	if r.chance(1, 8) {
		return pick(r, []string{"1.2.3.4", "::1", "10.0.0.5", "abc", "fe", "1.2.3.999"})
	}

	if r.chance(1, 20) {
		return nLongHost(r, pick(r, poolDomains)) // a long name (up to 253 bytes) under a pool name
	}

	return pick(r, []string{"", "www.", "sub."}) + pick(r, poolDomains)
}

func genDNSRequest(r *rng, ruleTexts []string) *urlfilter.DNSRequest {
	d := &urlfilter.DNSRequest{Hostname: genHostname(r, ruleTexts)}
	if r.chance(2, 3) {
		d.SortedClientTags = genSortedTags(r)
		d.ClientName = pick(r, append([]string{""}, poolClientNames...))
		d.ClientIP = genClientIP(r)
		d.DNSType = pick(r, poolDNSQTypes)
	}

	return d
}

// hostnameRequest mirrors DNSEngine.getRequestFromPool on a fresh request.
func hostnameRequest(d *urlfilter.DNSRequest) *rules.Request {
	q := rules.NewRequestForHostname(d.Hostname)
	q.SortedClientTags = d.SortedClientTags
	q.ClientIP = d.ClientIP
	q.ClientName = d.ClientName
	q.DNSType = d.DNSType

	return q
}

func genRequest(r *rng, ruleTexts []string) *rules.Request {
	if r.chance(1, 3) {
		return hostnameRequest(genDNSRequest(r, ruleTexts))
	}

	return genWebRequest(r, ruleTexts)
}

// guardStr runs f and converts a panic into the answer "PANIC".
func guardStr(f func() string) (s string) {
	defer func() {
		if v := recover(); v != nil {
			s = "PANIC"
			_ = fmt.Sprint(v)
		}
	}()

	return f()
}

package main

// op family `c19fault` (C19): File-backed (and mixed) lists on real temp files;
// a history q1..qn, a fault before query k (k = 0..n), fault kinds
// {storage.Close(), file handle replaced by a closed descriptor}.
//
// Per scenario (world, history, k, kind) two lines:
//
//	assert c19fault <k> <kind> = T|F
//	    Go-only: for i >= k no panic; every returned rule truly matches the
//	    request (oracle = linear scan over freshly parsed rules) and the
//	    retrieved sets are subsets of the fault-free ones; rules whose index was
//	    retrieved before k are still returned when they match.
//	c19model <truth> <closed lists> <closeAt> <entries> = <observed>
//	    the same scenario as an abstract trace for the Lean Prog model, which
//	    must predict Go's degraded answers and cache sizes exactly.
//
// n is the number of scenarios.  A history with L queries uses all L+1 fault
// points when the remaining budget allows, otherwise a sample.

import (
	"bufio"
	"fmt"
	"os"
	"sort"
	"strings"

	"github.com/AdguardTeam/urlfilter"
	"github.com/AdguardTeam/urlfilter/filterlist"
	"github.com/AdguardTeam/urlfilter/rules"
)

func init() { gens["c19fault"] = c19GenFault }

// fOracle is the set of network rules of the world that truly match req.
func (t *fTruth) oracleNet(req *rules.Request) map[string]bool {
	m := map[string]bool{}
	for _, idx := range t.order {
		if nr, ok := t.rule[idx].(*rules.NetworkRule); ok && nr.Match(req) {
			m[fRuleKey(nr)] = true
		}
	}

	return m
}

func (t *fTruth) oracleHost(hostname string) map[string]bool {
	m := map[string]bool{}
	for _, idx := range t.order {
		if hr, ok := t.rule[idx].(*rules.HostRule); ok && hr.Match(hostname) {
			m[fRuleKey(hr)] = true
		}
	}

	return m
}

func fKeysOfNet(rs []*rules.NetworkRule) (ks []string) {
	for _, r := range rs {
		ks = append(ks, fNetKey(r))
	}

	return ks
}

func fSubset(what string, ks []string, sup map[string]bool) string {
	for _, k := range ks {
		if k == "nil" {
			return what + " contains a nil rule"
		}
		if !sup[k] {
			return fmt.Sprintf("%s returns %q which does not match / is not in the fault-free result", what, k)
		}
	}

	return ""
}

func fSetOf(ks []string) map[string]bool {
	m := map[string]bool{}
	for _, k := range ks {
		m[k] = true
	}

	return m
}

// fCheckDegraded checks one post-fault result object against the oracle and
// the fault-free result object of the same query.
func fCheckDegraded(t *fTruth, q *fQuery, obj, free any) string {
	first := func(ss ...string) string {
		for _, s := range ss {
			if s != "" {
				return s
			}
		}

		return ""
	}
	optional := func(r *rules.NetworkRule) []string {
		if r == nil {
			return nil
		}

		return []string{fNetKey(r)}
	}
	switch q.kind {
	case "dns":
		res, fr := obj.(*urlfilter.DNSResult), free.(*urlfilter.DNSResult)
		if q.dns.Hostname == "" {
			return ""
		}
		on := t.oracleNet(hostnameRequest(q.dns))
		oh := t.oracleHost(q.dns.Hostname)
		var hk []string
		for _, h := range append(append([]*rules.HostRule{}, res.HostRulesV4...), res.HostRulesV6...) {
			hk = append(hk, fRuleKey(h))
		}
		all := fKeysOfNet(res.NetworkRules)

		return first(
			fSubset("NetworkRules vs oracle", all, on),
			fSubset("NetworkRules vs fault-free", all, fSetOf(fKeysOfNet(fr.NetworkRules))),
			fSubset("NetworkRule", optional(res.NetworkRule), fSetOf(all)),
			fSubset("HostRules vs oracle", hk, oh),
			fSubset("DNSRewrites", fKeysOfNet(res.DNSRewrites()), fSetOf(all)),
			fSubset("DNSRewritesAll", fKeysOfNet(res.DNSRewritesAll()), fSetOf(all)),
		)
	case "web":
		m := obj.(*rules.MatchingResult)
		o := t.oracleNet(q.web)
		if q.web.SourceURL != "" {
			for k := range t.oracleNet(rules.NewRequest(q.web.SourceURL, "", rules.TypeDocument)) {
				o[k] = true
			}
		}
		var ks []string
		ks = append(ks, optional(m.BasicRule)...)
		ks = append(ks, optional(m.DocumentRule)...)
		ks = append(ks, optional(m.StealthRule)...)
		ks = append(ks, optional(m.GetBasicResult())...)
		ks = append(ks, fKeysOfNet(m.CspRules)...)
		ks = append(ks, fKeysOfNet(m.CookieRules)...)
		ks = append(ks, fKeysOfNet(m.ReplaceRules)...)

		return fSubset("MatchingResult vs oracle", ks, o)
	case "all":
		rs, fr := obj.([]*rules.NetworkRule), free.([]*rules.NetworkRule)

		return first(
			fSubset("MatchAll vs oracle", fKeysOfNet(rs), t.oracleNet(q.web)),
			fSubset("MatchAll vs fault-free", fKeysOfNet(rs), fSetOf(fKeysOfNet(fr))),
		)
	default:
		if a, b := fSerCosmetic(obj.(urlfilter.CosmeticResult)), fSerCosmetic(free.(urlfilter.CosmeticResult)); a != b {
			return fmt.Sprintf("cosmetic result (held in memory) changed: %q vs fault-free %q", a, b)
		}

		return ""
	}
}

// fFault makes the File-backed lists unreadable.
func fFault(kind int, s *filterlist.RuleStorage, lists []filterlist.RuleList, w *fWorld) {
	if kind == 0 {
		_ = s.Close()

		return
	}
	for i, l := range lists {
		if fl, ok := l.(*filterlist.FileRuleList); ok {
			f, err := os.Open(w.specs[i].path)
			if err != nil {
				panic(err)
			}
			_ = f.Close()
			old := fl.File
			fl.File = f
			_ = old.Close()
		}
	}
}

type fScenarioResult struct {
	diff    string
	entries []*fEntry
	closeAt int
}

// fScenario runs history qs with the fault before query k.
func fScenario(w *fWorld, t *fTruth, qs []*fQuery, free []any, k, kind int) (res fScenarioResult) {
	lists := w.lists(nil, false)
	s, err := filterlist.NewRuleStorage(lists)
	if err != nil {
		panic(err)
	}
	g := fBuild(s)
	defer func() { _ = s.Close() }()
	note := func(f string, a ...any) {
		if res.diff == "" {
			res.diff = fmt.Sprintf(f, a...)
		}
	}
	res.closeAt = -1
	closedLists := map[int]bool{}
	cached := map[int64]bool{} // indices in the cache (harness-side bookkeeping for the "still served" check)
	for i, q := range qs {
		if i == k {
			fFault(kind, s, lists, w)
			res.closeAt = len(res.entries)
			for _, sp := range w.specs {
				if sp.file {
					closedLists[sp.id] = true
				}
			}
		}
		var obj any
		panicked := ""
		func() {
			defer func() {
				if v := recover(); v != nil {
					panicked = fmt.Sprint(v)
				}
			}()
			_, obj = g.answer(q)
			if i >= k {
				if d := fCheckDegraded(t, q, obj, free[i]); d != "" {
					note("query %d %s (fault before %d): %s", i, q, k, d)
				}
			}
		}()
		if panicked != "" {
			note("query %d %s (fault before %d): PANIC %s", i, q, k, panicked)

			return res
		}
		es := w.entries(t, q, obj, s.GetCacheSize())
		for _, e := range es {
			// rules retrieved before the fault are still returned when they match
			if i >= k && e.obsAns != "_" {
				have := fSetOf(strings.Split(strings.Trim(e.obsAns, "[]"), "."))
				for _, idx := range e.cands {
					rid := t.ridOf(t.rule[idx])
					matches := false
					for _, m := range e.match {
						matches = matches || m == rid
					}
					if cached[idx] && matches && !have[fmt.Sprint(rid)] {
						note("query %d %s (fault before %d): rule %q was retrieved before the fault and matches but is not returned",
							i, q, k, fRuleKey(t.rule[idx]))
					}
				}
			}
			for _, idx := range e.cands {
				l, _ := filterlist.VerifRuleListIdx(idx)
				if t.rule[idx] != nil && !closedLists[int(l)] {
					cached[idx] = true
				}
			}
		}
		res.entries = append(res.entries, es...)
	}
	if k >= len(qs) {
		fFault(kind, s, lists, w)
	}

	return res
}

func c19GenFault(r *rng, n int, w *bufio.Writer) {
	fSilenceLogs()
	kinds := []string{"close", "closed-descriptor"}
	for done := 0; done < n; {
		world := fGenWorld(r, 24, 1+r.n(2))
		hasFile := false
		for _, sp := range world.specs {
			hasFile = hasFile || sp.file
		}
		if !hasFile {
			world.specs[0].file = true
		}
		if r.chance(2, 3) {
			// rules living in several buckets of the domains table, queried from each of their domains
			fAddDomainCluster(r, world)
			for i := range world.specs {
				if r.chance(2, 3) {
					world.specs[i].file = true
				}
			}
		}
		world.materialise()
		t := world.truth()
		pool := fGenQueryPool(r, world, 5+r.n(8))
		L := 8 + r.n(33)
		qs := make([]*fQuery, L)
		for i := range qs {
			qs[i] = pick(r, pool)
		}
		// fault-free run (result objects kept for the subset checks)
		fs := world.storage(nil, false)
		fg := fBuild(fs)
		free := make([]any, L)
		for i, q := range qs {
			_, free[i] = fg.answer(q)
		}
		_ = fs.Close()
		// fault points
		var ks []int
		if n-done >= 2*(L+1) {
			for k := 0; k <= L; k++ {
				ks = append(ks, k)
			}
		} else {
			m := (n - done + 1) / 2
			seen := map[int]bool{}
			for len(ks) < m && len(ks) <= L {
				k := r.n(L + 1)
				if !seen[k] {
					seen[k] = true
					ks = append(ks, k)
				}
			}
			sort.Ints(ks)
		}
		var closed []int
		for _, sp := range world.specs {
			if sp.file {
				closed = append(closed, sp.id)
			}
		}
		for _, k := range ks {
			for kind := 0; kind < 2 && done < n; kind++ {
				res := fScenario(world, t, qs, free, k, kind)
				ans := "T"
				note := fmt.Sprintf("fault %s before query %d of %d; %s", kinds[kind], k, L, world.describe())
				if res.diff != "" {
					ans = "F"
					note = "FIRST DIFFERENCE: " + res.diff + "; " + note
				}
				fmt.Fprintf(w, "assert c19fault %d %s %d %s = %s ## %s\n", k, kinds[kind], L, fHash(world.describe()), ans, strings.ReplaceAll(note, "\n", "\\n"))
				fModelLine(w, "c19model", t, closed, res.closeAt, res.entries,
					fmt.Sprintf("abstract trace: fault %s before query %d of %d (entry %d of %d)", kinds[kind], k, L, res.closeAt, len(res.entries)))
				done++
			}
		}
		world.cleanup()
	}
}

package main

// op family `c19fault` (C19): File-backed (and mixed) lists on real temp files;
// a history q1..qn, a fault before query k (k = 0..n), fault kinds
// {storage.Close(), file handle replaced by a closed descriptor}.
//
// Per scenario (world, history, k, kind) two lines:
//
//	assert c19fault <k> <kind> = T|F
//	    Go-only: for i >= k no panic; every returned rule truly matches the
//	    request (oracle = linear scan over freshly parsed rules) and the
//	    retrieved sets are subsets of the fault-free ones; rules whose index was
//	    retrieved before k are still returned when they match.
//	c19model <truth> <closed lists> <closeAt> <entries> = <observed>
//	    the same scenario as an abstract trace for the Lean Prog model, which
//	    must predict Go's degraded answers and cache sizes exactly.
//
// n is the number of scenarios.  A history with L queries uses all L+1 fault
// points when the remaining budget allows, otherwise a sample.

import (
	"bufio"
	"fmt"
	"os"
	"sort"
	"strings"

	"github.com/AdguardTeam/urlfilter"
	"github.com/AdguardTeam/urlfilter/filterlist"
	"github.com/AdguardTeam/urlfilter/rules"
)

func init() { gens["c19fault"] = genC19Fault }

// gfOracle is the set of network rules of the world that truly match req.
func (t *gfTruth) oracleNet(req *rules.Request) map[string]bool {
	m := map[string]bool{}
	for _, idx := range t.order {
		if nr, ok := t.rule[idx].(*rules.NetworkRule); ok && nr.Match(req) {
			m[gfRuleKey(nr)] = true
		}
	}

	return m
}

func (t *gfTruth) oracleHost(hostname string) map[string]bool {
	m := map[string]bool{}
	for _, idx := range t.order {
		if hr, ok := t.rule[idx].(*rules.HostRule); ok && hr.Match(hostname) {
			m[gfRuleKey(hr)] = true
		}
	}

	return m
}

func gfKeysOfNet(rs []*rules.NetworkRule) (ks []string) {
	for _, r := range rs {
		ks = append(ks, gfNetKey(r))
	}

	return ks
}

func gfSubset(what string, ks []string, sup map[string]bool) string {
	for _, k := range ks {
		if k == "nil" {
			return what + " contains a nil rule"
		}
		if !sup[k] {
			return fmt.Sprintf("%s returns %q which does not match / is not in the fault-free result", what, k)
		}
	}

	return ""
}

func gfSetOf(ks []string) map[string]bool {
	m := map[string]bool{}
	for _, k := range ks {
		m[k] = true
	}

	return m
}

// gfCheckDegraded checks one post-fault result object against the oracle and
// the fault-free result object of the same query.
func gfCheckDegraded(t *gfTruth, q *gfQuery, obj, free any) string {
	first := func(ss ...string) string {
		for _, s := range ss {
			if s != "" {
				return s
			}
		}

		return ""
	}
	optional := func(r *rules.NetworkRule) []string {
		if r == nil {
			return nil
		}

		return []string{gfNetKey(r)}
	}
	switch q.kind {
	case "dns":
		res, fr := obj.(*urlfilter.DNSResult), free.(*urlfilter.DNSResult)
		if q.dns.Hostname == "" {
			return ""
		}
		on := t.oracleNet(hostnameRequest(q.dns))
		oh := t.oracleHost(q.dns.Hostname)
		var hk []string
		for _, h := range append(append([]*rules.HostRule{}, res.HostRulesV4...), res.HostRulesV6...) {
			hk = append(hk, gfRuleKey(h))
		}
		all := gfKeysOfNet(res.NetworkRules)

		return first(
			gfSubset("NetworkRules vs oracle", all, on),
			gfSubset("NetworkRules vs fault-free", all, gfSetOf(gfKeysOfNet(fr.NetworkRules))),
			gfSubset("NetworkRule", optional(res.NetworkRule), gfSetOf(all)),
			gfSubset("HostRules vs oracle", hk, oh),
			gfSubset("DNSRewrites", gfKeysOfNet(res.DNSRewrites()), gfSetOf(all)),
			gfSubset("DNSRewritesAll", gfKeysOfNet(res.DNSRewritesAll()), gfSetOf(all)),
		)
	case "web":
		m := obj.(*rules.MatchingResult)
		o := t.oracleNet(q.web)
		if q.web.SourceURL != "" {
			for k := range t.oracleNet(rules.NewRequest(q.web.SourceURL, "", rules.TypeDocument)) {
				o[k] = true
			}
		}
		var ks []string
		ks = append(ks, optional(m.BasicRule)...)
		ks = append(ks, optional(m.DocumentRule)...)
		ks = append(ks, optional(m.StealthRule)...)
		ks = append(ks, optional(m.GetBasicResult())...)
		ks = append(ks, gfKeysOfNet(m.CspRules)...)
		ks = append(ks, gfKeysOfNet(m.CookieRules)...)
		ks = append(ks, gfKeysOfNet(m.ReplaceRules)...)

		return gfSubset("MatchingResult vs oracle", ks, o)
	case "all":
		rs, fr := obj.([]*rules.NetworkRule), free.([]*rules.NetworkRule)

		return first(
			gfSubset("MatchAll vs oracle", gfKeysOfNet(rs), t.oracleNet(q.web)),
			gfSubset("MatchAll vs fault-free", gfKeysOfNet(rs), gfSetOf(gfKeysOfNet(fr))),
		)
	default:
		if a, b := gfSerCosmetic(obj.(urlfilter.CosmeticResult)), gfSerCosmetic(free.(urlfilter.CosmeticResult)); a != b {
			return fmt.Sprintf("cosmetic result (held in memory) changed: %q vs fault-free %q", a, b)
		}

		return ""
	}
}

// gfFault makes the File-backed lists unreadable.
func gfFault(kind int, s *filterlist.RuleStorage, lists []filterlist.RuleList, w *gfWorld) {
	if kind == 0 {
		_ = s.Close()

		return
	}
	for i, l := range lists {
		if fl, ok := l.(*filterlist.FileRuleList); ok {
			f, err := os.Open(w.specs[i].path)
			if err != nil {
				panic(err)
			}
			_ = f.Close()
			old := fl.File
			fl.File = f
			_ = old.Close()
		}
	}
}

type gfScenarioResult struct {
	diff    string
	entries []*gfEntry
	closeAt int
}

// gfScenario runs history qs with the fault before query k.
func gfScenario(w *gfWorld, t *gfTruth, qs []*gfQuery, free []any, k, kind int) (res gfScenarioResult) {
	lists := w.lists(nil, false)
	s, err := filterlist.NewRuleStorage(lists)
	if err != nil {
		panic(err)
	}
	g := gfBuild(s)
	defer func() { _ = s.Close() }()
	note := func(f string, a ...any) {
		if res.diff == "" {
			res.diff = fmt.Sprintf(f, a...)
		}
	}
	res.closeAt = -1
	closedLists := map[int]bool{}
	cached := map[int64]bool{} // indices in the cache (harness-side bookkeeping for the "still served" check)
	for i, q := range qs {
		if i == k {
			gfFault(kind, s, lists, w)
			res.closeAt = len(res.entries)
			for _, sp := range w.specs {
				if sp.file {
					closedLists[sp.id] = true
				}
			}
		}
		var obj any
		panicked := ""
		func() {
			defer func() {
				if v := recover(); v != nil {
					panicked = fmt.Sprint(v)
				}
			}()
			_, obj = g.answer(q)
			if i >= k {
				if d := gfCheckDegraded(t, q, obj, free[i]); d != "" {
					note("query %d %s (fault before %d): %s", i, q, k, d)
				}
			}
		}()
		if panicked != "" {
			note("query %d %s (fault before %d): PANIC %s", i, q, k, panicked)

			return res
		}
		es := w.entries(t, q, obj, s.GetCacheSize())
		for _, e := range es {
			// rules retrieved before the fault are still returned when they match
			if i >= k && e.obsAns != "_" {
				have := gfSetOf(strings.Split(strings.Trim(e.obsAns, "[]"), "."))
				for _, idx := range e.cands {
					rid := t.ridOf(t.rule[idx])
					matches := false
					for _, m := range e.match {
						matches = matches || m == rid
					}
					if cached[idx] && matches && !have[fmt.Sprint(rid)] {
						note("query %d %s (fault before %d): rule %q was retrieved before the fault and matches but is not returned",
							i, q, k, gfRuleKey(t.rule[idx]))
					}
				}
			}
			for _, idx := range e.cands {
				l, _ := filterlist.VerifRuleListIdx(idx)
				if t.rule[idx] != nil && !closedLists[int(l)] {
					cached[idx] = true
				}
			}
		}
		res.entries = append(res.entries, es...)
	}
	if k >= len(qs) {
		gfFault(kind, s, lists, w)
	}

	return res
}

func genC19Fault(r *rng, n int, w *bufio.Writer) {
	gfSilenceLogs()
	kinds := []string{"close", "closed-descriptor"}
	for done := 0; done < n; {
		world := gfGenWorld(r, 24, 1+r.n(2))
		hasFile := false
		for _, sp := range world.specs {
			hasFile = hasFile || sp.file
		}
		if !hasFile {
			world.specs[0].file = true
		}
		world.materialise()
		t := world.truth()
		pool := gfGenQueryPool(r, world, 5+r.n(8))
		L := 8 + r.n(33)
		qs := make([]*gfQuery, L)
		for i := range qs {
			qs[i] = pick(r, pool)
		}
		// fault-free run (result objects kept for the subset checks)
		fs := world.storage(nil, false)
		fg := gfBuild(fs)
		free := make([]any, L)
		for i, q := range qs {
			_, free[i] = fg.answer(q)
		}
		_ = fs.Close()
		// fault points
		var ks []int
		if n-done >= 2*(L+1) {
			for k := 0; k <= L; k++ {
				ks = append(ks, k)
			}
		} else {
			m := (n - done + 1) / 2
			seen := map[int]bool{}
			for len(ks) < m && len(ks) <= L {
				k := r.n(L + 1)
				if !seen[k] {
					seen[k] = true
					ks = append(ks, k)
				}
			}
			sort.Ints(ks)
		}
		var closed []int
		for _, sp := range world.specs {
			if sp.file {
				closed = append(closed, sp.id)
			}
		}
		for _, k := range ks {
			for kind := 0; kind < 2 && done < n; kind++ {
				res := gfScenario(world, t, qs, free, k, kind)
				ans := "T"
				note := fmt.Sprintf("fault %s before query %d of %d; %s", kinds[kind], k, L, world.describe())
				if res.diff != "" {
					ans = "F"
					note = "FIRST DIFFERENCE: " + res.diff + "; " + note
				}
				fmt.Fprintf(w, "assert c19fault %d %s %d %s = %s ## %s\n", k, kinds[kind], L, gfHash(world.describe()), ans, strings.ReplaceAll(note, "\n", "\\n"))
				gfModelLine(w, "c19model", t, closed, res.closeAt, res.entries,
					fmt.Sprintf("abstract trace: fault %s before query %d of %d (entry %d of %d)", kinds[kind], k, L, res.closeAt, len(res.entries)))
				done++
			}
		}
		world.cleanup()
	}
}

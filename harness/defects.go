package main

// Replays of the defects found on the pinned tree (DESIGN.md §5).  Each replay
// runs the real code on the specific failing input and reports whether the
// property-level expectation holds.  `harness defects` prints one line per
// replay: "<id> <property> ok|FAIL <what>".

import (
	"bytes"
	"fmt"
	"net/http"
	"strings"
	"sync/atomic"
	"time"

	"github.com/AdguardTeam/urlfilter"
	"github.com/AdguardTeam/urlfilter/filterlist"
	"github.com/AdguardTeam/urlfilter/proxy"
	"github.com/AdguardTeam/urlfilter/rules"
)

type defect struct {
	id, prop, what string
	run            func() (ok bool, detail string)
}

func storageOf(text string) *filterlist.RuleStorage {
	s, err := filterlist.NewRuleStorage([]filterlist.RuleList{
		&filterlist.StringRuleList{ID: 1, RulesText: text},
	})
	if err != nil {
		panic(err)
	}

	return s
}

func texts(rs []*rules.NetworkRule) (ts []string) {
	for _, r := range rs {
		ts = append(ts, r.RuleText)
	}

	return ts
}

func mustRule(t string) *rules.NetworkRule {
	r, err := rules.NewNetworkRule(t, 1)
	if err != nil {
		panic(fmt.Sprintf("%s: %v", t, err))
	}

	return r
}

func guard(f func() (bool, string)) (ok bool, detail string) {
	defer func() {
		if v := recover(); v != nil {
			ok, detail = false, fmt.Sprintf("PANIC %v", v)
		}
	}()

	return f()
}

var defects = []defect{{
	id: "D1", prop: "C01", what: "wildcard $domain rule filed under literal key in the domains table is never found",
	run: func() (bool, string) {
		e := urlfilter.NewNetworkEngine(storageOf("/ad$domain=example.*\n"))
		q := rules.NewRequest("http://x.com/ad", "http://example.com/", rules.TypeScript)
		got := texts(e.MatchAll(q))
		want := mustRule("/ad$domain=example.*").Match(q)

		return (len(got) == 1) == want, fmt.Sprintf("MatchAll=%q rule.Match=%v", got, want)
	},
}, {
	id: "D2", prop: "C03", what: "1-byte pattern panics in patternToRegexp at first Match",
	run: func() (bool, string) {
		r := mustRule("a$domain=example.org")
		q := rules.NewRequest("http://x.com/a", "http://example.org/", rules.TypeScript)
		m := r.Match(q)
		r2 := mustRule("/*$domain=example.org")
		m2 := r2.Match(q)

		return m && m2, fmt.Sprintf("match=%v match2=%v", m, m2)
	},
}, {
	id: "D3", prop: "C04", what: "$domain=google.* accepts google.notgoogle.com (no label boundary)",
	run: func() (bool, string) {
		r := mustRule("||ads.com^$domain=google.*")
		q := rules.NewRequest("http://ads.com/x", "http://google.notgoogle.com/", rules.TypeScript)
		q2 := rules.NewRequest("http://ads.com/x", "http://www.google.co.uk/", rules.TypeScript)
		m, m2 := r.Match(q), r.Match(q2)

		return !m && m2, fmt.Sprintf("notgoogle=%v google.co.uk=%v", m, m2)
	},
}, {
	id: "D4", prop: "C05", what: "regexp shortcut is not required by the expression",
	run: func() (bool, string) {
		var bad []string
		for _, c := range [][2]string{
			{`/foo|barbaz/`, "http://x.com/foo"},
			{`/a\dvert/`, "http://x.com/a5vert"},
			{`/ba\x41nner/`, "http://x.com/baAnner"},
		} {
			r := mustRule(c[0])
			re, _ := r.VerifPrepared()
			q := rules.NewRequest(c[1], "", rules.TypeScript)
			if re.MatchString(q.URL) && !r.Match(q) {
				bad = append(bad, fmt.Sprintf("%s shortcut=%q misses %s", c[0], r.Shortcut, c[1]))
			}
		}

		return len(bad) == 0, strings.Join(bad, "; ")
	},
}, {
	id: "D5", prop: "C06", what: "verdict depends on the order of $genericblock / $urlblock source exceptions",
	run: func() (bool, string) {
		b := mustRule("||ads.com^$domain=site.com")
		g := mustRule("@@||site.com^$genericblock")
		u := mustRule("@@||site.com^$urlblock")
		cls := func(src []*rules.NetworkRule) string {
			r := rules.NewMatchingResult([]*rules.NetworkRule{b}, src).GetBasicResult()
			switch {
			case r == nil:
				return "none"
			case r.Whitelist:
				return "allow"
			default:
				return "block"
			}
		}
		c1 := cls([]*rules.NetworkRule{g, u})
		c2 := cls([]*rules.NetworkRule{u, g})

		return c1 == c2 && c1 == "allow", fmt.Sprintf("[g,u]=%s [u,g]=%s", c1, c2)
	},
}, {
	id: "D6", prop: "C07", what: "IsHigherPriority is not asymmetric",
	run: func() (bool, string) {
		a := mustRule("||e^$script,image,media")
		b := mustRule("||e^$domain=e.org")
		ab, ba := a.IsHigherPriority(b), b.IsHigherPriority(a)
		c := mustRule("||e^$client=a")
		d := mustRule("||e^$dnstype=A")
		cd, dc := c.IsHigherPriority(d), d.IsHigherPriority(c)

		return !(ab && ba) && cd == dc, fmt.Sprintf("a>b=%v b>a=%v client>dnstype=%v dnstype>client=%v", ab, ba, cd, dc)
	},
}, {
	id: "D7", prop: "C08", what: "several badfilter rules re-add disabled rules; $denyallow ignored by negatesBadfilter",
	run: func() (bool, string) {
		l := []*rules.NetworkRule{
			mustRule("||e.org^"), mustRule("||e.org^$badfilter"),
			mustRule("||e.org^$image"), mustRule("||e.org^$image,badfilter"),
		}
		out := texts(rules.VerifRemoveBadfilterRules(l))
		x := mustRule("||e.org^$denyallow=a.com")
		y := mustRule("||e.org^$denyallow=b.com,badfilter")
		neg := y.VerifNegatesBadfilter(x)

		return len(out) == 0 && !neg, fmt.Sprintf("survivors=%q denyallow-negated=%v", out, neg)
	},
}, {
	id: "D8", prop: "C09", what: "DNSRewrites skips the element after a deleted exception; MX values compared by pointer",
	run: func() (bool, string) {
		mk := func(ts ...string) *urlfilter.DNSResult {
			res := &urlfilter.DNSResult{}
			for _, t := range ts {
				res.NetworkRules = append(res.NetworkRules, mustRule(t))
			}

			return res
		}
		r1 := texts(mk("||e.org^$dnsrewrite=1.1.1.1", "@@||e.org^$dnsrewrite=1.1.1.1",
			"@@||e.org^$dnsrewrite=2.2.2.2", "||e.org^$dnsrewrite=2.2.2.2").DNSRewrites())
		r2 := texts(mk("||e.org^$dnsrewrite=NOERROR;MX;10 mail.e.org",
			"@@||e.org^$dnsrewrite=NOERROR;MX;10 mail.e.org").DNSRewrites())

		return len(r1) == 0 && len(r2) == 0, fmt.Sprintf("r1=%q r2=%q", r1, r2)
	},
}, {
	id: "D9", prop: "C15", what: "cosmetic rules are not returned for subdomains and wildcard TLDs",
	run: func() (bool, string) {
		e := urlfilter.NewCosmeticEngine(storageOf("example.org##.banner\nexample.*##.x\n"))
		a := e.Match("sub.example.org", true, true, true).ElementHiding.Specific
		b := e.Match("example.com", true, true, true).ElementHiding.Specific

		return fmt.Sprint(a) == "[.banner .x]" && fmt.Sprint(b) == "[.x]", fmt.Sprintf("sub.example.org=%q example.com=%q", a, b)
	},
}, {
	id: "D10", prop: "C16", what: "$elemhide,generichide re-enables generic CSS",
	run: func() (bool, string) {
		r := mustRule("@@||e.org^$elemhide,generichide")
		o := (&rules.MatchingResult{BasicRule: r}).GetCosmeticOption()

		return o == rules.CosmeticOptionJS, fmt.Sprintf("option=%d", o)
	},
}, {
	id: "D11", prop: "C18", what: "host comment strip drops the character before '#'; tab before ## rejected",
	run: func() (bool, string) {
		h, err := rules.NewHostRule("0.0.0.0 example.org#note", 1)
		a := err == nil && len(h.Hostnames) == 1 && h.Hostnames[0] == "example.org"
		r, err2 := rules.NewRule("0.0.0.0 example.org\t## note", 1)
		_, isHost := r.(*rules.HostRule)

		return a && err2 == nil && isHost, fmt.Sprintf("names=%v err=%v tabrule=%T err2=%v", h, err, r, err2)
	},
}, {
	id: "D12", prop: "C20", what: "16 KiB window counted on transcoded text",
	run: func() (bool, string) {
		body := append(bytes.Repeat([]byte{0xFF}, 8192), []byte("</head><body></body>")...)
		out, _, cl, tag, err := proxy.VerifFilterHTML(body, http.Header{}, "example.org")
		want := append(append(append([]byte{}, body[:8192]...), tag...), body[8192:]...)

		return err == nil && bytes.Equal(out, want) && cl == int64(len(out)), fmt.Sprintf("len(out)=%d want=%d err=%v", len(out), len(want), err)
	},
}, {
	id: "D13", prop: "C04", what: "non-ASCII bytes of modifier values are dropped by the option splitter",
	run: func() (bool, string) {
		r := mustRule("||example.org^$client='Fr\xc3\xa4nk'")
		q := rules.NewRequestForHostname("example.org")
		q.ClientName = "Fr\xc3\xa4nk"
		m := r.Match(q)
		q.ClientName = "Fr\xc3nk"
		m2 := r.Match(q)

		return m && !m2, fmt.Sprintf("match(Fr\\xc3\\xa4nk)=%v match(Fr\\xc3nk)=%v", m, m2)
	},
}, {
	id: "D14", prop: "C08", what: "DNSRewrites returns $badfilter rules and the rules they disable",
	run: func() (bool, string) {
		s := storageOf("||e.org^$dnsrewrite=1.2.3.4\n||e.org^$dnsrewrite=5.6.7.8\n||e.org^$dnsrewrite=5.6.7.8,badfilter\n")
		e := urlfilter.NewDNSEngine(s)
		res, _ := e.MatchRequest(&urlfilter.DNSRequest{Hostname: "e.org", DNSType: 1})
		got := texts(res.DNSRewrites())

		return fmt.Sprint(got) == "[||e.org^$dnsrewrite=1.2.3.4]", fmt.Sprintf("DNSRewrites=%q", got)
	},
}, {
	id: "D15", prop: "C14", what: "two goroutines missing the cache for one rule get two objects; a concurrent query then reports the rule twice",
	run: func() (bool, string) {
		st := storageOf("/banner\n")
		e := urlfilter.NewNetworkEngineSkipStorageScan(st)
		sc := st.NewRuleStorageScanner()
		for sc.Scan() {
			f, idx := sc.Rule()
			e.AddRule(f.(*rules.NetworkRule), idx)
		}
		// the URL contains the indexed window twice, so one MatchAll looks the rule up twice
		q := func() *rules.Request { return rules.NewRequest("http://x.com/banner/banner", "", rules.TypeScript) }
		seq := len(urlfilter.NewNetworkEngine(storageOf("/banner\n")).MatchAll(q()))

		var miss, compile int32
		g1AtMiss, g1Go := make(chan struct{}), make(chan struct{})
		g2AtCompile, g2Go := make(chan struct{}), make(chan struct{})
		g1Stored := make(chan struct{})
		filterlist.VerifYieldHook = func(point int) {
			if point == 1 && atomic.AddInt32(&miss, 1) == 1 {
				close(g1AtMiss) // goroutine 1 missed the cache: hold it before it reads the list
				<-g1Go
			}
		}
		rules.VerifYieldHook = func(point int) {
			switch atomic.AddInt32(&compile, 1) {
			case 1:
				close(g2AtCompile) // goroutine 2 holds its own object and is about to match it
				<-g2Go
			case 2:
				close(g1Stored) // goroutine 1 stored ITS object and is matching it
			}
		}
		defer func() { filterlist.VerifYieldHook, rules.VerifYieldHook = nil, nil }()

		var n1, n2 int
		done1, done2 := make(chan struct{}), make(chan struct{})
		go func() { n1 = len(e.MatchAll(q())); close(done1) }()
		<-g1AtMiss
		go func() { n2 = len(e.MatchAll(q())); close(done2) }()
		<-g2AtCompile
		close(g1Go) // goroutine 1 parses its own object and stores it
		select {
		case <-g1Stored: // (old code) the cache entry now is goroutine 1's object
		case <-time.After(300 * time.Millisecond): // (repaired code) goroutine 1 waits for the shared object
		}
		close(g2Go) // goroutine 2 continues: its second lookup hits whatever the cache holds now
		<-done1
		<-done2

		return n1 == seq && n2 == seq, fmt.Sprintf("sequential=%d concurrent=%d,%d rules", seq, n1, n2)
	},
}, {
	id: "D16", prop: "C18", what: "a hosts-file comment containing $$ or $@$ turns the line into a rejected cosmetic rule",
	run: func() (bool, string) {
		var bad []string
		for _, line := range []string{"0.0.0.0 example.org # costs$$5", "0.0.0.0 example.org #a$@$b", "0.0.0.0 example.org#x$$y", "example.org # $$"} {
			r, err := rules.NewRule(line, 1)
			h, isHost := r.(*rules.HostRule)
			if err != nil || !isHost || len(h.Hostnames) != 1 || h.Hostnames[0] != "example.org" {
				bad = append(bad, fmt.Sprintf("%q -> %T %v", line, r, err))
			}
		}
		e := urlfilter.NewDNSEngine(storageOf("0.0.0.0 example.org # costs$$5\n"))
		_, matched := e.Match("example.org")
		// genuine cosmetic syntax must stay cosmetic
		c, cerr := rules.NewRule("example.org##a[href$=\"#x\"]", 1)
		_, isCos := c.(*rules.CosmeticRule)
		_, herr := rules.NewRule("example.org$$script[data-src=\"#x\"]", 1)

		return len(bad) == 0 && matched && cerr == nil && isCos && herr != nil,
			fmt.Sprintf("bad=%v engine-blocks=%v cosmetic-kept=%v html-rule-still-unsupported=%v", bad, matched, isCos, herr != nil)
	},
}}

func runDefects() (failed int) {
	for _, d := range defects {
		ok, detail := guard(d.run)
		st := "ok"
		if !ok {
			st = "FAIL"
			failed++
		}
		fmt.Printf("%s %s %s %s -- %s\n", d.id, d.prop, st, d.what, detail)
	}

	return failed
}

package main

// op family `c13hist` (C13): histories of mixed queries on engines that share
// ONE storage (NetworkEngine, DNSEngine, Engine incl. cosmetic), String- and
// File-backed lists.
//
// Per history two lines are printed:
//
//	assert <n queries> = T|F ## note
//	    Go-only: answer(qi after q1..qi-1) == answer(qi on a fresh engine) for
//	    every i, derived-result calls on OLD result objects in between, and at
//	    the end every earlier result object re-serialises to its first serialisation.
//	c13model <truth> <closed> <entries> = <observed>
//	    the abstract trace of the same history for the Lean Prog model:
//	    truth = ((idx listID rid)…), entries = ((pool (cands…) (matching rids…)
//	    (resident rids…) obsAnswer? obsSize?)…); the driver replays the history
//	    sequentially on the model (cache, pool, compile flags) and must print
//	    the observed answers (sorted rids) and cache sizes.

import (
	"bufio"
	"fmt"
	"strings"
)

func init() { gens["c13hist"] = c13GenHist }

type fOld struct {
	obj   any
	first string
	desc  string
}

// fHistory runs one history; returns the first difference ("" if none), the
// abstract entries and the number of queries evaluated.
func fHistory(r *rng, w *fWorld, nq int) (diff string, entries []*fEntry, t *fTruth) {
	t = w.truth()
	np := 6 + r.n(12)
	if r.chance(1, 8) {
		// N2: many DISTINCT queries in one history (more than 40 / 64 / 256 / 300: bounded memos reach their bound)
		np = n2Above(r, 40, 600)
	}
	pool := fGenQueryPool(r, w, np)
	main := fBuild(w.storage(nil, false))
	defer func() { _ = main.s.Close() }()
	var olds []fOld
	note := func(f string, a ...any) {
		if diff == "" {
			diff = fmt.Sprintf(f, a...)
		}
	}
	var prev *fQuery
	for i := 0; i < nq; i++ {
		q := pick(r, pool)
		if prev != nil && r.chance(1, 3) {
			// N2: right after a query, another member of its family (same subject, ONE other datum) -- or the same query again
			var fam []*fQuery
			for _, c := range pool {
				if c.fam == prev.fam {
					fam = append(fam, c)
				}
			}
			q = pick(r, fam)
		}
		prev = q
		ans, obj := main.answer(q)
		size := main.s.GetCacheSize()
		if strings.Contains(ans, fLawMarker) {
			note("query %d %s: %s", i, q, ans)
		}
		// the same query as the first query of a fresh engine
		fs := w.storage(nil, false)
		fresh, _ := fBuild(fs).answer(q)
		_ = fs.Close()
		if fresh != ans {
			note("query %d %s: after history %q, fresh %q", i, q, ans, fresh)
		}
		entries = append(entries, w.entries(t, q, obj, size)...)
		olds = append(olds, fOld{obj: obj, first: fReser(obj), desc: fmt.Sprintf("result of query %d %s", i, q)})
		// evaluate derived results on old result objects
		for j := r.n(3); j > 0; j-- {
			o := pick(r, olds)
			if p := guardStr(func() string { fPoke(r, o.obj); return "" }); p != "" && diff == "" {
				diff = fmt.Sprintf("%s: evaluating derived results on it panics", o.desc)
			}
		}
		if sz := main.s.GetCacheSize(); sz != size {
			note("query %d: derived-result calls changed the cache size %d -> %d", i, size, sz)
		}
	}
	for _, o := range olds {
		if now := guardStr(func() string { return fReser(o.obj) }); now != o.first {
			note("%s changed: first %q, now %q", o.desc, o.first, now)
		}
	}

	return diff, entries, t
}

func fModelLine(w *bufio.Writer, op string, t *fTruth, closed []int, closeAt int, entries []*fEntry, note string) {
	es := make([]string, len(entries))
	obs := make([]string, len(entries))
	for i, e := range entries {
		es[i] = e.wire()
		obs[i] = e.observed()
	}
	fmt.Fprintf(w, "%s %s %s %d %s = %s ## %s\n", op, t.wire(), fInts(closed), closeAt, wlist(es...), strings.Join(obs, ","), note)
}

func c13GenHist(r *rng, n int, w *bufio.Writer) {
	fSilenceLogs()
	// n = total number of queries over all histories
	for done := 0; done < n; {
		nq := 50 + r.n(451)
		if nq > n-done {
			nq = n - done
		}
		if nq < 10 {
			nq = 10
		}
		maxLines := 30
		if r.chance(1, 10) {
			// N2: lists of more than 40 / 64 / 256 / 300 lines (shorter histories: every query also builds a fresh engine)
			maxLines = n2Above(r, 40, 400)
			if nq > 120 {
				nq = 120
			}
		}
		world := fGenWorld(r, maxLines, r.n(3))
		if r.chance(1, 3) {
			fAddDomainCluster(r, world)
		}
		diff, entries, t := fHistory(r, world, nq)
		ans := "T"
		note := fmt.Sprintf("history of %d queries; %s", nq, world.describe())
		if diff != "" {
			ans = "F"
			note = "FIRST DIFFERENCE: " + diff + "; " + note
		}
		fmt.Fprintf(w, "assert c13hist %d %d %s = %s ## %s\n", done, nq, fHash(world.describe()), ans, strings.ReplaceAll(note, "\n", "\\n"))
		fModelLine(w, "c13model", t, nil, -1, entries, fmt.Sprintf("abstract trace of the history above (%d entries)", len(entries)))
		world.cleanup()
		done += nq
	}
}

package main

// Group M4: rule lists served by readers with SHORT READS.
//
// A StringRuleList scans a strings.Reader and a FileRuleList an *os.File: both hand the scanner's buffer everything
// it asks for, so a scanner that relied on full reads would pass every existing family.  m4ReaderList is a RuleList
// whose NewScanner feeds filterlist.NewRuleScanner from a reader that returns 1 byte per call, fixed small/odd sizes
// (7, 1460, 4095, 4096, 4097), random sizes, sprinkles (0, nil) results, and delivers the last bytes either before or
// TOGETHER with io.EOF (all allowed by the io.Reader contract); RetrieveRule is served from the text.
//
//   c11chunk      (C11) the op `c11.scan` of c11store: the storage over StringRuleLists and the storage over
//                 m4ReaderLists of the same contents must yield the same (index, rule) sequence (else the answer is
//                 BACKING-MISMATCH…), and that sequence is compared with the model/spec as for c11store;
//                 for single lists the bare RuleScanner over the reader is compared too
//   c18chunk      (C18) the op `c18.dns` of c18 with the DNS engine built over an m4ReaderList (the line is followed
//                 and preceded by other lines so that it does not start at offset 0)
//   c12.inertchunk (C12) `assert c12.inert` with both lists served by m4ReaderLists

import (
	"bufio"
	"bytes"
	"fmt"
	"io"
	"os"
	"strings"

	"github.com/AdguardTeam/urlfilter/filterlist"
	"github.com/AdguardTeam/urlfilter/rules"
)

func init() {
	gens["c11chunk"] = genC11Chunk
	gens["c18chunk"] = genC18Chunk
	gens["c12.inertchunk"] = genC12InertChunk
}

// m4ChunkReader returns data in pieces decided by its own little generator (so that every NewScanner call on the same
// list sees the same delivery).
type m4ChunkReader struct {
	data    []byte
	off     int
	k       int    // piece size; 0 = random sizes
	s       uint64 // state of the size generator
	eofWith bool   // the last piece comes together with io.EOF
	zeros   bool   // now and then a (0, nil) result (never twice in a row)
	wasZero bool
}

func (c *m4ChunkReader) next(n int) int {
	c.s += 0x9E3779B97F4A7C15
	z := c.s
	z = (z ^ (z >> 30)) * 0xBF58476D1CE4E5B9
	z = (z ^ (z >> 27)) * 0x94D049BB133111EB
	z ^= z >> 31

	return int(z % uint64(n))
}

func (c *m4ChunkReader) Read(p []byte) (n int, err error) {
	if len(p) == 0 {
		return 0, nil
	}
	if c.off >= len(c.data) {
		return 0, io.EOF
	}
	if c.zeros && !c.wasZero && c.next(5) == 0 {
		c.wasZero = true

		return 0, nil
	}
	c.wasZero = false
	k := c.k
	if k == 0 {
		k = 1 + c.next([]int{3, 40, 700, 5000}[c.next(4)])
	}
	if k > len(p) {
		k = len(p)
	}
	if k > len(c.data)-c.off {
		k = len(c.data) - c.off
	}
	copy(p, c.data[c.off:c.off+k])
	c.off += k
	if c.off >= len(c.data) && c.eofWith {
		return k, io.EOF
	}

	return k, nil
}

// m4Delivery describes a reader configuration.
type m4Delivery struct {
	k       int
	seed    uint64
	eofWith bool
	zeros   bool
}

func (d m4Delivery) String() string {
	size := fmt.Sprintf("%d-byte reads", d.k)
	if d.k == 0 {
		size = "reads of random sizes"
	}

	return fmt.Sprintf("%s, last bytes with io.EOF: %v, (0,nil) results: %v", size, d.eofWith, d.zeros)
}

func m4RandDelivery(r *rng) m4Delivery {
	return m4Delivery{k: pick(r, []int{1, 1, 1, 2, 3, 7, 64, 1460, 4095, 4096, 4097, 0, 0}), seed: r.u64(), eofWith: r.chance(1, 2), zeros: r.chance(1, 3)}
}

func (d m4Delivery) reader(content string) io.Reader {
	return &m4ChunkReader{data: []byte(content), k: d.k, s: d.seed, eofWith: d.eofWith, zeros: d.zeros}
}

// m4ReaderList implements filterlist.RuleList.
type m4ReaderList struct {
	str filterlist.StringRuleList
	d   m4Delivery
}

func (l *m4ReaderList) GetID() int { return l.str.ID }

func (l *m4ReaderList) NewScanner() *filterlist.RuleScanner {
	return filterlist.NewRuleScanner(l.d.reader(l.str.RulesText), l.str.ID, l.str.IgnoreCosmetic)
}

func (l *m4ReaderList) RetrieveRule(ruleIdx int) (rules.Rule, error) { return l.str.RetrieveRule(ruleIdx) }

func (l *m4ReaderList) Close() error { return nil }

func m4NewReaderList(id int, text string, ign bool, d m4Delivery) *m4ReaderList {
	return &m4ReaderList{str: filterlist.StringRuleList{ID: id, RulesText: text, IgnoreCosmetic: ign}, d: d}
}

// ---------------------------------------------------------------- c11chunk

func genC11Chunk(r *rng, n int, w *bufio.Writer) {
	for it := 0; it < n; it++ {
		nl := 1 + r.n(3)
		if r.chance(1, 2) {
			nl = 1
		}
		lists := make([]c11List, nl)
		used := map[int]bool{}
		for i := range lists {
			id := randListID(r)
			for used[id] {
				id = randListID(r)
			}
			used[id] = true
			lists[i] = c11List{id: id, ign: r.chance(1, 3), content: randContent(r)}
		}
		need := map[string]bool{}
		for _, l := range lists {
			for _, ln := range strings.Split(l.content, "\n") {
				need[strings.TrimSpace(ln)] = true
			}
		}
		wl := make([]string, len(lists))
		var sl, cl []filterlist.RuleList
		var notes []string
		ds := make([]m4Delivery, len(lists))
		for i, l := range lists {
			wl[i] = wlist(fmt.Sprint(l.id), wbool(l.ign), wb(l.content))
			ds[i] = m4RandDelivery(r)
			sl = append(sl, &filterlist.StringRuleList{ID: l.id, RulesText: l.content, IgnoreCosmetic: l.ign})
			cl = append(cl, m4NewReaderList(l.id, l.content, l.ign, ds[i]))
			notes = append(notes, fmt.Sprintf("list %d (%d bytes): %s", l.id, len(l.content), ds[i]))
		}
		ans := guardStr(func() string {
			ss, serr := filterlist.NewRuleStorage(sl)
			cs, cerr := filterlist.NewRuleStorage(cl)
			if serr != nil || cerr != nil {
				return "err"
			}
			a := both(showYielded(scanAll(ss)), showYielded(scanAll(cs)))
			if len(lists) == 1 && !strings.HasPrefix(a, "BACKING-MISMATCH") {
				// the bare scanner over the reader, indexes packed by hand
				l := lists[0]
				sc := filterlist.NewRuleScanner(ds[0].reader(l.content), l.id, l.ign)
				var ys []yielded
				for sc.Scan() {
					f, idx := sc.Rule()
					ys = append(ys, yielded{filterlist.VerifStorageIdx(int32(l.id), int32(idx)), showRule(f)})
				}
				if sc.Scan() {
					return "SCAN-AFTER-END"
				}
				a = both(a, showYielded(ys))
			}

			return a
		})
		fmt.Fprintf(w, "c11.scan %s %s = %s ## string-backed vs served by short reads: %s\n", wlist(wl...), oracleTable(need), ans, strings.Join(notes, "; "))
	}
}

// ---------------------------------------------------------------- c18chunk

// c18ListHook, when set, builds the list of c18DNS.
var c18ListHook func(line string) filterlist.RuleList

func genC18Chunk(r *rng, n int, w *bufio.Writer) {
	dr := newRng(r.u64())
	var last m4Delivery
	c18ListHook = func(line string) filterlist.RuleList {
		last = m4RandDelivery(dr)
		// comment / blank lines around the line: it neither starts at offset 0 nor ends the content
		text := pick(dr, []string{"", "! title\n", "\n\n", "# hosts\r\n", "!" + strings.Repeat("-", 4100) + "\n"}) + line +
			pick(dr, []string{"\n", "\r\n", "", "\n! end", "\n\n"})

		return m4NewReaderList(1, text, dr.chance(1, 2), last)
	}
	defer func() { c18ListHook = nil }()
	var buf bytes.Buffer
	bw := bufio.NewWriter(&buf)
	for done := 0; done < n; {
		buf.Reset()
		genC18(r, 8, bw)
		_ = bw.Flush()
		for _, l := range strings.Split(buf.String(), "\n") {
			if strings.HasPrefix(l, "c18.dns ") && done < n {
				fmt.Fprintln(w, l+" (list served by short reads)")
				done++
			}
		}
		if buf.Len() == 0 {
			return
		}
	}
}

// ---------------------------------------------------------------- c12.inertchunk

func genC12InertChunk(r *rng, n int, w *bufio.Writer) {
	dr := newRng(r.u64())
	eListHook = func(content string) filterlist.RuleList {
		return m4NewReaderList(1, content, false, m4RandDelivery(dr))
	}
	defer func() { eListHook = nil }()
	var buf bytes.Buffer
	bw := bufio.NewWriter(&buf)
	genC12Inert(r, n, bw)
	_ = bw.Flush()
	for _, l := range strings.Split(buf.String(), "\n") {
		if l != "" {
			fmt.Fprintln(w, l+" (lists served by short reads)")
		}
	}
}

var _ = os.Getenv

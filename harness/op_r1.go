package main

// op family `c04.reqmatch` (group R1, C04): NetworkRule.Match on the request that the real
// rules.NewRequest builds from (URL, source URL, type), against a model/spec that derive host
// names, registrable domains and the third-party flag THEMSELVES from the two URLs (the ops
// `match` / `c04.match` hand the request's derived fields over as Go computed them, so a wrong
// Request.ThirdParty is invisible to them).
//
//	c04.reqmatch <R> <Q> <psl> <addrs> (<pat>…) = T|F
//
// The generator is aimed at `$third-party` / `$~third-party` / `$first-party` / `$~first-party`
// and `$domain` with hosts on BOTH sides of the registrable-domain boundary: same host, sibling
// hosts of one registrable domain, unrelated hosts, and hosts WITHOUT a registrable domain
// (single label such as `localhost` / `nas`, a bare public suffix, a name with a trailing dot) as
// request host, as source host, or as both.

import (
	"bufio"
	"fmt"
	"strings"

	"github.com/AdguardTeam/urlfilter/rules"
)

func init() { gens["c04.reqmatch"] = r1GenC04ReqMatch }

var r1PartyMods = []string{"third-party", "~third-party", "first-party", "~first-party", "3p", "1p", "~3p", "~1p"}

// r1SiteHosts: hosts grouped by registrable domain (or by the lack of one).
var r1SiteHosts = []string{
	"example.org", "www.example.org", "cdn.example.org", "a.b.example.org", "example.com", "tracker.com", "cdn.tracker.com",
	"test.co.uk", "shop.test.co.uk", "other.co.uk", "user.github.io", "www.user.github.io", "other.github.io",
	"x.blogspot.com", "foo.city.kawasaki.jp", "bar.kawasaki.jp", "site.com", "cdn.site.com", "ads.net", "e.org",
	"10.0.0.5", "192.168.1.7", "[::1]",
}

func r1PartyHost(r *rng) string {
	if r.chance(2, 5) {
		return pick(r, r1NoETLD1Hosts)
	}

	return pick(r, r1SiteHosts)
}

// r1RelatedHost: a host that is the same site as h, looks like it, or is unrelated.
func r1RelatedHost(r *rng, h string) string {
	switch r.n(8) {
	case 0, 1:
		return h
	case 2:
		return pick(r, []string{"www.", "cdn.", "a.b."}) + h
	case 3:
		if i := strings.IndexByte(h, '.'); i > 0 && i+1 < len(h) {
			return h[i+1:] // the parent (may be a public suffix, may be empty-labelled)
		}

		return h
	case 4:
		if strings.HasSuffix(h, ".") {
			return strings.TrimSuffix(h, ".")
		}

		return h + "."
	default:
		return r1PartyHost(r)
	}
}

func r1PartyRuleText(r *rng, host string) string {
	var pat string
	switch r.n(6) {
	case 0, 1:
		pat = "||" + strings.TrimSuffix(host, ".") + "^"
	case 2:
		pat = "||" + host
	case 3:
		pat = pick(r, []string{"/pixel.gif", "/ad", "*", "", "|http", "://"})
	case 4:
		pat = "|" + pick(r, []string{"http", "https"}) + "://" + host + "/"
	default:
		pat = host
	}
	mods := []string{pick(r, r1PartyMods)}
	if r.chance(1, 4) {
		mods = append(mods, negate(r, pick(r, poolContent), 1, 3))
	}
	if r.chance(1, 4) {
		mods = append(mods, "domain="+genList(r, append(append([]string{}, r1NoETLD1Hosts[:10]...), r1SiteHosts[:12]...), 4, true, "|"))
	}
	if r.chance(1, 8) {
		mods = append(mods, "important")
	}
	shuffle(r, mods)
	t := pat + "$" + strings.Join(mods, ",")
	if r.chance(1, 5) {
		t = "@@" + t
	}

	return t
}

func r1GenC04ReqMatch(r *rng, n int, w *bufio.Writer) {
	r = eReseed(r)
	for i := 0; i < n; i++ {
		var f *rules.NetworkRule
		var t string
		var q *rules.Request
		if r.chance(1, 4) {
			// the general rule grammar, the request aimed at the rule; only requests built by NewRequest
			f, t = eGenValidNetRule(r)
			q = eAimedRequest(r, f, t)
			for k := 0; k < 8 && q.IsHostnameRequest; k++ {
				q = eAimedRequest(r, f, t)
			}
			if q.IsHostnameRequest {
				i--

				continue
			}
			if r.chance(1, 2) {
				// the same request from a page whose host has no registrable domain / from a related host
				src := pick(r, []string{"http://", "https://"}) + r1RelatedHost(r, q.Hostname) + pick(r, []string{"", "/", ":8080/", "/page?x=1"})
				q2 := rules.NewRequest(q.URL, src, q.RequestType)
				q2.SortedClientTags, q2.ClientName, q2.ClientIP, q2.DNSType = q.SortedClientTags, q.ClientName, q.ClientIP, q.DNSType
				q = q2
			}
		} else {
			host := r1PartyHost(r)
			t = r1PartyRuleText(r, host)
			var err error
			if f, err = rules.NewNetworkRule(t, 1+r.n(3)); err != nil {
				i--

				continue
			}
			reqHost := host
			if r.chance(1, 4) {
				reqHost = r1RelatedHost(r, host)
			}
			u := pick(r, poolSchemes) + "://" + reqHost + pick(r, []string{"", ":8080"}) + pick(r, []string{"/pixel.gif", "/ad", "/", "", "/x/y.js?z=1"})
			src := ""
			if !r.chance(1, 10) {
				sh := r1RelatedHost(r, reqHost)
				if pd := f.GetPermittedDomains(); len(pd) > 0 && r.chance(1, 2) {
					sh = pick(r, []string{"", "www."}) + pick(r, pd)
				}
				src = pick(r, []string{"http://", "https://"}) + sh + pick(r, []string{"", "/", ":8080/", "/page?x=1"})
			}
			ty := pick(r, poolReqTypes)
			q = rules.NewRequest(u, src, ty)
		}
		ans := guardStr(func() string { return wbool(f.Match(q)) })
		fmt.Fprintf(w, "c04.reqmatch %s %s %s %s (%s) = %s ## %s | %s src=%s type=%d tags=%q client=%q/%s (Go: domain=%q sourceDomain=%q thirdParty=%v)\n",
			wnetrule(f), wrequest(q),
			wpsl(q.Hostname, q.SourceHostname), waddrs(q.Hostname), wpat(f, q.URL, q.Hostname), ans,
			noteStr(t), noteStr(q.URL), noteStr(q.SourceURL), q.RequestType,
			q.SortedClientTags, q.ClientName, q.ClientIP, q.Domain, q.SourceDomain, q.ThirdParty)
	}
}

// r1C06SuffixScenario (c06.engine): the request http://e.org/ad.js from a page whose host lives below a public suffix
// (ICANN multi-label, private section, plain TLD).  The `$domain` values of the rules name that SUFFIX, the page's
// host, a sibling, or are negated; the patterns are mostly too short for a lookup shortcut (such rules are indexed by
// their `$domain` values), the others go through the shortcuts table.  Referrer-level exceptions are written on the
// page's host.
func r1C06SuffixScenario(r *rng) c06Scenario {
	suf := pick(r, r1SuffixDomains)
	host := pick(r, []string{"user.", "shop.", "www.user."}) + suf
	pool := m2Pool("r1 suffix "+host, func() []string {
		pats := []string{"/ad.", "*", ".js", "/ad/", "||e.org^"}
		c06PatFamilies = append(c06PatFamilies, pats)
		doms := []string{"", "domain=" + suf, "domain=" + suf + "|other.org", "domain=" + host, "domain=~other.org", "domain=sibling." + suf}
		var ts []string
		for _, p := range pats {
			ts = append(ts, c06PoolDoms(p, false, doms)...)
		}

		return c06RequestPool(ts)
	})
	spool := m2Pool("r1 suffix src "+host, func() []string {
		pats := []string{"||" + host + "^", "||" + host + "/", "||" + host + "/page"}
		c06PatFamilies = append(c06PatFamilies, pats)

		return c06PoolOver(false, pats...)
	})
	sc := c06Scenario{web: true, url: "http://e.org/ad.js", src: pick(r, []string{"http://", "https://"}) + host + "/page"}
	sc.ts = append(c06Multiset(r, pool, 6), c06Multiset(r, spool, 3)...)
	// make sure a `$domain=<suffix>` rule is there most of the time
	if r.chance(2, 3) {
		sc.ts = append(sc.ts, pick(r, []string{"", "", "@@"})+pick(r, []string{"/ad.", "*", ".js", "/ad/"})+"$"+pick(r, []string{"", "script,", "important,"})+"domain="+suf)
	}
	shuffle(r, sc.ts)

	return sc
}

package main

// op `c03.acc` (C03): language of a compiled basic pattern versus the
// documented mask language.
//   c03.acc <pattern as written> <pattern stored in the rule> <matchCase> <subject> = T|F|PANIC
// Go side: the rule text `<pattern>$domain=example.org[,match-case]` goes
// through the real NewNetworkRule; the rule's own preparePattern compiles it
// (VerifPrepared); status 0 => T, -1 => F, otherwise regexp.MatchString(subject).
// Subjects are derived from the pattern: `*` filled with random strings, `^`
// with separators / non-separators / the end, literals kept, case-flipped,
// dropped or doubled, scheme and subdomain variants for `||`, junk before and
// after for the anchors.  Printable ASCII only.

import (
	"bufio"
	"fmt"
	"strings"

	"github.com/AdguardTeam/urlfilter/rules"
)

func init() { gens["c03.acc"] = genC03Acc }

var (
	c03Seps    = []string{"/", ":", "?", "&", "=", "#", "@", "!", "~", "+", ",", ";", "'", "\"", "(", "|", "^", "*", "\\", "$", "[", "{", "<", "`"}
	c03NonSeps = []string{"a", "Z", "0", "9", ".", "%", "_", "-", " ", "m", "Q"}
	c03Schemes = []string{"http", "https", "ws", "wss", "http", "https", "HTTP", "Https", "wS", "ftp", "htt", "httpss", "wsss", "", "xhttp"}
	c03SchSeps = []string{"://", "://", "://", "://", "://", ":/", ":", "//", ":///", "://:"}
	c03Subs    = []string{"", "", "", "x.", "www.", "a.b.", "A.", "WWW.", "a-b_c.1.", "x", "not", ".", "..", "x/.", "a b.", "x:y.", "x%.", "x.y", "-.", "_."}
	c03Junk    = []string{"", "", "", "x", "/", "http://", "a/b?c=", " ", "|", "^", "*", "zz.", "%20", "\\"}
	c03Shorts  = []string{"a", "ab", "abc", "^", "^^", "*^", "^*", "a^", "^a", "a*", "*a", "a|", "|a", "||a", "a||", "|||", "||^", "|^", "^|", "||*", "|*", "*|", "|a|", "||a|", "a|b", ".", "?", "a.b", "\\", "\\|", "|\\", "/*", "a/*", "//*", "||/*", "|/*", "*/*", "^/*", " ", "a ", "%", "-_", "Ab", "aB|", "|Z", "a^|", "||a^|", "(", ")", "[a]", "a+", "a{2}", "$", "a$", "^$",
		"a.*", "a.**", "||a.*", "||cdn.example.*", "|https://ads.*", "/static/v1.**", "a.b.*|", "a\\*", "a.^", "a.*b", "a*.*"}
	c03Literals = "abcxyzABCXYZ019._-%/:?&= "
)

func c03FlipCase(b byte) byte {
	switch {
	case 'a' <= b && b <= 'z':
		return b - 32
	case 'A' <= b && b <= 'Z':
		return b + 32
	}

	return b
}

func c03RandPrintable(r *rng, maxLen int) string {
	k := r.n(maxLen + 1)
	var sb strings.Builder
	for i := 0; i < k; i++ {
		if r.chance(2, 3) {
			sb.WriteByte(c03Literals[r.n(len(c03Literals))])
		} else {
			sb.WriteByte(byte(32 + r.n(95)))
		}
	}

	return sb.String()
}

// c03Subject builds a subject from the stored pattern; mut is the chance (in
// 1/16) of a mutation at each decision point.
func c03Subject(r *rng, stored string, mut int) string {
	var sb strings.Builder
	m := func() bool { return r.chance(mut, 16) }
	body := stored
	switch {
	case strings.HasPrefix(body, "||"):
		body = body[2:]
		if m() {
			sb.WriteString(pick(r, c03Schemes))
			sb.WriteString(pick(r, c03SchSeps))
			sb.WriteString(pick(r, c03Subs))
		} else {
			sb.WriteString(pick(r, poolSchemes))
			sb.WriteString("://")
			sb.WriteString(pick(r, []string{"", "", "x.", "www.", "a.b.", "a-b_c.1."}))
		}
	case strings.HasPrefix(body, "|"):
		body = body[1:]
		if m() {
			sb.WriteString(pick(r, c03Junk))
		}
	default:
		if r.chance(1, 2) {
			sb.WriteString(pick(r, []string{"http://", "https://x.", "a", "/", "x?y=", "ws://"}))
		} else if r.chance(1, 2) {
			sb.WriteString(c03RandPrintable(r, 4))
		}
	}
	endPipe := false
	if strings.HasSuffix(body, "|") {
		endPipe = true
		body = body[:len(body)-1]
	}
	for i := 0; i < len(body); i++ {
		c := body[i]
		switch c {
		case '*':
			if r.chance(1, 3) {
				sb.WriteString(c03RandPrintable(r, 5))
			} else if r.chance(1, 2) {
				sb.WriteString(pick(r, poolPaths))
			}
		case '^':
			switch {
			case m():
				sb.WriteString(pick(r, c03NonSeps))
			case m() || (i == len(body)-1 && r.chance(1, 3)):
				// the end of the subject instead of a separator
				return sb.String()
			default:
				sb.WriteString(pick(r, c03Seps))
			}
		default:
			switch {
			case !m():
				sb.WriteByte(c)
			case r.chance(1, 2):
				sb.WriteByte(c03FlipCase(c))
			case r.chance(1, 3):
				// dropped
			case r.chance(1, 2):
				sb.WriteByte(c)
				sb.WriteByte(c)
			default:
				sb.WriteByte(byte(32 + r.n(95)))
			}
		}
	}
	if endPipe {
		if m() {
			sb.WriteString(pick(r, c03Junk))
		}
	} else if r.chance(1, 2) {
		sb.WriteString(pick(r, []string{"/", "?x=1", "x", ".js", "|", "/a/b"}))
	}

	return sb.String()
}

func c03AccPattern(r *rng) string {
	switch r.n(12) {
	case 0, 1:
		return pick(r, c03Shorts)
	case 2, 3:
		for {
			if p := genPattern(r); !(len(p) > 1 && p[0] == '/' && p[len(p)-1] == '/') {
				return p
			}
		}
	case 4:
		// 1..3 printable characters
		k := 1 + r.n(3)
		b := make([]byte, k)
		for j := range b {
			b[j] = byte(32 + r.n(95))
		}

		return string(b)
	case 5:
		k := 1 + r.n(5)
		p := ""
		for j := 0; j < k; j++ {
			p += pick(r, c03Alphabet)
		}

		return p
	default:
		return c03GenMaskPattern(r)
	}
}

func genC03Acc(r *rng, n int, w *bufio.Writer) {
	r = &rng{s: r.u64()}
	for emitted := 0; emitted < n; {
		p := c03AccPattern(r)
		mc := r.chance(1, 3)
		text := p + "$domain=example.org"
		if mc {
			text += ",match-case"
		}
		if pp, _, wl, err := rules.VerifParseRuleText(text); err != nil || wl || pp != p {
			continue // the rule text would not carry this pattern (`@@` prefix, trailing backslash)
		}
		if len(p) > 1 && p[0] == '/' && p[len(p)-1] == '/' {
			continue // regular-expression rule: not a mask pattern
		}
		f, err := rules.NewNetworkRule(text, 1)
		if err != nil {
			continue
		}
		stored := f.VerifRaw().Pattern
		re, status := f.VerifPrepared()
		k := 3 + r.n(4)
		for j := 0; j < k && emitted < n; j++ {
			var u string
			switch r.n(10) {
			case 0:
				u = c03RandPrintable(r, 12)
			case 1:
				u = pick(r, poolSchemes) + "://" + pick(r, poolDomains) + pick(r, poolPaths)
			case 2, 3, 4:
				u = c03Subject(r, stored, 0)
			case 5, 6, 7:
				u = c03Subject(r, stored, 1+r.n(2))
			default:
				u = c03Subject(r, stored, 4)
			}
			ans := guardStr(func() string {
				// a fresh rule per subject so that the first-Match path (compile under the lock) is the one observed
				g, _ := rules.NewNetworkRule(text, 1)
				re, status = g.VerifPrepared()
				switch status {
				case 0:
					return "T"
				case -1:
					return "F"
				}

				return wbool(re.MatchString(u))
			})
			fmt.Fprintf(w, "c03.acc %s %s %s %s = %s ## %q on %q (status %d)\n", wb(p), wb(stored), wbool(mc), wb(u), ans, text, u, status)
			emitted++
		}
	}
}

package main

// Wire encoding of values for the Lean driver (see lean/UF/Driver/Decode.lean).

import (
	"encoding/hex"
	"fmt"
	"math/big"
	"net/netip"
	"sort"
	"strings"

	"github.com/AdguardTeam/urlfilter/rules"
	"golang.org/x/net/publicsuffix"
)

func wb(s string) string { return "x" + hex.EncodeToString([]byte(s)) }

func wbool(b bool) string {
	if b {
		return "T"
	}

	return "F"
}

func wlist(items ...string) string { return "(" + strings.Join(items, " ") + ")" }

func wstrs(ss []string) string {
	items := make([]string, len(ss))
	for i, s := range ss {
		items[i] = wb(s)
	}

	return wlist(items...)
}

func wu16s(ns []uint16) string {
	items := make([]string, len(ns))
	for i, n := range ns {
		items[i] = fmt.Sprint(n)
	}

	return wlist(items...)
}

func addrVal(a netip.Addr) string {
	if a.Is4() {
		b := a.As4()

		return new(big.Int).SetBytes(b[:]).String()
	}
	b := a.As16()

	return new(big.Int).SetBytes(b[:]).String()
}

func waddr(a netip.Addr) string {
	if !a.IsValid() {
		return "_"
	}

	return wlist(wbool(a.Is4()), addrVal(a), wb(a.Zone()))
}

func wprefix(p netip.Prefix) string {
	return wlist(wbool(p.Addr().Is4()), addrVal(p.Addr()), fmt.Sprint(p.Bits()))
}

func wclients(c *rules.VerifClients) string {
	if c == nil {
		return "_"
	}
	nets := make([]string, len(c.Nets))
	for i, n := range c.Nets {
		nets[i] = wprefix(n)
	}

	return wlist(wstrs(c.Hosts), wlist(nets...))
}

func wvalue(v rules.RRValue) string {
	switch v := v.(type) {
	case nil:
		return "_"
	case netip.Addr:
		return wlist("addr", wbool(v.Is4()), addrVal(v))
	case string:
		return wlist("str", wb(v))
	case *rules.DNSMX:
		return wlist("mx", fmt.Sprint(v.Preference), wb(v.Exchange))
	case *rules.DNSSRV:
		return wlist("srv", fmt.Sprint(v.Priority), fmt.Sprint(v.Weight), fmt.Sprint(v.Port), wb(v.Target))
	case *rules.DNSSVCB:
		params := "_"
		if v.Params != nil {
			keys := make([]string, 0, len(v.Params))
			for k := range v.Params {
				keys = append(keys, k)
			}
			sort.Strings(keys)
			items := make([]string, len(keys))
			for i, k := range keys {
				items[i] = wlist(wb(k), wb(v.Params[k]))
			}
			params = wlist(items...)
		}

		return wlist("svcb", fmt.Sprint(v.Priority), wb(v.Target), params)
	default:
		return wlist("unknown", wb(fmt.Sprintf("%T", v)))
	}
}

func wrewrite(d *rules.DNSRewrite) string {
	if d == nil {
		return "_"
	}

	return wlist(fmt.Sprint(d.RCode), fmt.Sprint(d.RRType), wb(d.NewCNAME), wvalue(d.Value))
}

func wnetrule(f *rules.NetworkRule) string {
	v := f.VerifRaw()

	return wlist("R", wb(f.RuleText), fmt.Sprint(f.FilterListID), wbool(f.Whitelist),
		wb(v.Pattern), wb(f.Shortcut),
		wstrs(v.PermittedDomains), wstrs(v.RestrictedDomains), wstrs(v.DenyAllowDomains),
		wu16s(v.PermittedDNSTypes), wu16s(v.RestrictedDNSTypes),
		wstrs(v.PermittedClientTags), wstrs(v.RestrictedClientTags),
		wclients(v.PermittedClients), wclients(v.RestrictedClients),
		fmt.Sprint(uint64(v.EnabledOptions)), fmt.Sprint(uint64(v.DisabledOptions)),
		fmt.Sprint(uint32(v.PermittedRequestTypes)), fmt.Sprint(uint32(v.RestrictedRequestTypes)),
		wrewrite(f.DNSRewrite))
}

func wrequest(r *rules.Request) string {
	return wlist("Q", wb(r.URL), wb(r.URLLowerCase), wb(r.Hostname), wb(r.Domain),
		wb(r.SourceURL), wb(r.SourceHostname), wb(r.SourceDomain), wstrs(r.SortedClientTags),
		fmt.Sprint(uint32(r.RequestType)), fmt.Sprint(r.DNSType), wbool(r.ThirdParty),
		wbool(r.IsHostnameRequest), wb(r.ClientName), waddr(r.ClientIP))
}

func whostrule(h *rules.HostRule) string {
	return wlist("H", wb(h.RuleText), fmt.Sprint(h.FilterListID), wstrs(h.Hostnames), waddr(h.IP))
}

func wcosrule(c *rules.CosmeticRule) string {
	return wlist("K", wb(c.RuleText), fmt.Sprint(c.FilterListID), wb(c.Content),
		wstrs(c.GetPermittedDomains()), wstrs(c.VerifRestrictedDomains()), wbool(c.Whitelist))
}

func wrule(r rules.Rule) string {
	switch r := r.(type) {
	case *rules.NetworkRule:
		return wnetrule(r)
	case *rules.HostRule:
		return whostrule(r)
	case *rules.CosmeticRule:
		return wcosrule(r)
	default:
		return "_"
	}
}

// wpsl renders the public-suffix oracle table for the given hostnames.
func wpsl(hosts ...string) string {
	seen := map[string]bool{}
	var items []string
	for _, h := range hosts {
		if seen[h] {
			continue
		}
		seen[h] = true
		s, icann := publicsuffix.PublicSuffix(h)
		items = append(items, wlist(wb(h), wb(s), wbool(icann)))
	}

	return wlist(items...)
}

// waddrs renders the netip.ParseAddr oracle table for the given strings.
func waddrs(ss ...string) string {
	seen := map[string]bool{}
	var items []string
	for _, s := range ss {
		if seen[s] {
			continue
		}
		seen[s] = true
		a, err := netip.ParseAddr(s)
		if err != nil {
			a = netip.Addr{}
		}
		items = append(items, wlist(wb(s), waddr(a)))
	}

	return wlist(items...)
}

// wpat renders the pattern oracle: the real engine's verdict of rule f's
// compiled pattern on each target.
func wpat(f *rules.NetworkRule, targets ...string) string {
	var items []string
	re, status := f.VerifPrepared()
	v := f.VerifRaw()
	mc := f.IsOptionEnabled(rules.OptionMatchCase)
	seen := map[string]bool{}
	for _, t := range targets {
		if seen[t] {
			continue
		}
		seen[t] = true
		var ans bool
		switch status {
		case 0:
			ans = true
		case -1:
			ans = false
		default:
			ans = re.MatchString(t)
		}
		items = append(items, wlist(wb(v.Pattern), wbool(mc), wb(t), wbool(ans)))
	}

	return strings.Join(items, " ")
}

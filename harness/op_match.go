package main

// op `match`: Go NetworkRule.Match vs the model of Match (C04 core).
//   match <R> <Q> <psl> <addrs> (<pat>…) = T|F

import (
	"bufio"
	"fmt"
)

func init() { gens["match"] = genMatch }

func genMatch(r *rng, n int, w *bufio.Writer) {
	for i := 0; i < n; i++ {
		f, t := genValidNetRule(r, r.chance(1, 3))
		q := genRequest(r, []string{t})
		ans := guardStr(func() string { return wbool(f.Match(q)) })
		fmt.Fprintf(w, "match %s %s %s %s (%s) = %s\n", wnetrule(f), wrequest(q),
			wpsl(q.Hostname, q.SourceHostname), waddrs(q.Hostname), wpat(f, q.URL, q.Hostname), ans)
	}
}

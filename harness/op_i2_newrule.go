package main

// op `i2.newrule` (integration group I2): the COMPLETE model of rules.NewRule.
//   i2.newrule <line> <listID> <addrs> <prefixes> = none|err|PANIC|<R/H/K record>
// The driver parses the line with the composed model (TrimSpace, comment / cosmetic / hosts /
// network dispatch, every modifier, $dnsrewrite values, IsDomainName) and prints the whole parsed
// record; the only Go-supplied tables are netip.ParseAddr and netip.ParsePrefix (the shortcut of a
// /regex/ pattern comes from the text-level model of findRegexpShortcut).  The candidate strings of the tables are obtained with Go's own splitting
// functions; a model that splits differently misses the table and the disagreement shows.

import (
	"bufio"
	"fmt"
	"strings"

	"github.com/AdguardTeam/urlfilter/rules"
)

func init() { gens["i2.newrule"] = genI2NewRule }

// i2Oracles returns the strings the parse of the (trimmed) line can ask netip about.
func i2Oracles(text string) (addrs []string) {
	// hosts syntax: the first blank-separated token of the line cut at the comment sign
	func() {
		defer func() { _ = recover() }()
		body := text
		if i := strings.IndexByte(body, '#'); i > 0 {
			body = body[:i]
		}
		first, _ := rules.VerifSplitNextByWhitespace(body)
		addrs = append(addrs, first)
	}()
	func() {
		defer func() { _ = recover() }()
		pattern, options, _, err := rules.VerifParseRuleText(text)
		if err != nil {
			return
		}
		_ = pattern
		for _, o := range rules.VerifSplitWithEscapeCharacter(options, ',', '\\', false) {
			name, value := o, ""
			if eq := strings.IndexByte(o, '='); eq > 0 {
				name, value = o[:eq], o[eq+1:]
			}
			switch name {
			case "dnsrewrite":
				addrs = append(addrs, value)
				if parts := strings.SplitN(value, ";", 3); len(parts) == 3 {
					addrs = append(addrs, parts[2])
				}
			case "client":
				for _, s := range rules.VerifSplitWithEscapeCharacter(value, '|', '\\', false) {
					c := strings.TrimPrefix(s, "~")
					addrs = append(addrs, s, c)
					quoted := len(c) >= 2 && (c[0] == '\'' || c[0] == '"') && c[0] == c[len(c)-1]
					q := ""
					if quoted {
						q = string(c[0])
						c = c[1 : len(c)-1]
					}
					c = strings.ReplaceAll(c, "\\,", ",")
					addrs = append(addrs, c)
					if quoted {
						c = strings.ReplaceAll(c, "\\"+q, q)
						addrs = append(addrs, c)
					}
				}
			}
		}
	}()

	return addrs
}

func i2DNSRewriteRule(r *rng) string {
	v := c10Value(r)
	if r.chance(1, 6) {
		v = mutateBytes(r, v)
	}
	v = strings.NewReplacer(",", `\,`, "$", `\$`).Replace(v)
	mods := []string{"dnsrewrite=" + v}
	if r.chance(1, 3) {
		mods = append(mods, pick(r, []string{"important", "dnstype=A", "client=10.0.0.0/8", "ctag=b|a", "badfilter"}))
		shuffle(r, mods)
	}
	wl := ""
	if r.chance(1, 5) {
		wl = "@@"
	}

	return wl + pick(r, []string{"||example.org^", "|example.org|", "example.org", "/ex[a-z]+\\.org/", "||a.b.example.org^"}) + "$" + strings.Join(mods, ",")
}

func i2Line(r *rng) string {
	var l string
	switch k := r.n(24); {
	case k < 10:
		l = eGenLine(r) // group E: network grammar, tricky texts, cosmetic / hosts / comment pools, real-list lines, mutations
	case k < 13:
		l, _ = c18Line(r) // group H: hosts grammar
	case k < 14:
		hl, _ := c18Line(r)
		l = eMutate(r, hl)
	case k < 16:
		l = c15GenRule(r) // cosmetic grammar
	case k < 17:
		l = eMutate(r, c15GenRule(r))
	case k < 20:
		l = i2DNSRewriteRule(r)
	case k < 22:
		// regex rules (the shortcut table is the remaining oracle)
		f := pickRegexRule(r)
		l = f.RuleText
		if r.chance(1, 3) {
			l += pick(r, []string{"$domain=example.org", "$match-case", "$important,script", "$replace=/a/b/"})
		}
	default:
		l = pick(r, eTestdataLines())
	}
	if r.chance(1, 8) {
		l = pick(r, []string{" ", "\t", "  ", " ", "\r", "　", " ", "\x00", "\xc2", "\v\f"}) + l
	}
	if r.chance(1, 8) {
		l += pick(r, []string{" ", "\t", "\r", "\r\n", " \t ", " ", " \n", "\xa0", "\xe2\x80", "\x85"})
	}

	return l
}

func genI2NewRule(r *rng, n int, w *bufio.Writer) {
	r = eReseed(r)
	for i := 0; i < n; i++ {
		line := i2Line(r)
		id := eListID(r)
		ans := guardStr(func() string {
			rule, err := rules.NewRule(line, id)
			switch {
			case err != nil:
				return "err"
			case rule == nil:
				return "none"
			default:
				return strings.ReplaceAll(wrule(rule), " ", ",")
			}
		})
		addrs := i2Oracles(strings.TrimSpace(line))
		fmt.Fprintf(w, "i2.newrule %s %d %s %s = %s ## %s\n", wb(line), id, waddrs(addrs...), wprefixes(addrs...),
			ans, noteStr(line))
	}
}

// op `i2.textmatch`: rule TEXT + request -> Go NewNetworkRule + Match, versus the complete parser
// model + Match over modelPat, versus the reference computed from the parsed values and the mask
// language.  No Go-supplied table but psl / addr / prefix.
//
//	i2.textmatch <text> <listID> <addrs> <prefixes> <Q> <psl> = T|F|err
func init() { gens["i2.textmatch"] = genI2TextMatch }

func genI2TextMatch(r *rng, n int, w *bufio.Writer) {
	r = eReseed(r)
	for i := 0; i < n; i++ {
		var t string
		var f *rules.NetworkRule
		var err error
		id := eListID(r)
		for k := 0; ; k++ {
			switch j := r.n(16); {
			case j < 2:
				t = eGenParseText(r)
			case j < 4:
				t = pickRegexRule(r).RuleText
				if r.chance(1, 3) {
					t = genQuirkRule(r).RuleText
				}
				if r.chance(1, 3) {
					t += "$" + strings.Join(eGenModifiers(r, strings.HasPrefix(t, "@@")), ",")
				}
			case j < 5:
				t = i2DNSRewriteRule(r)
			case j < 7:
				// group G's mask patterns under group E's modifiers
				p := c03AccPattern(r)
				t = p
				if mods := eGenModifiers(r, false); len(mods) > 0 {
					t += "$" + strings.Join(mods, ",")
				} else {
					t += "$domain=example.org|site.com"
				}
			default:
				t = eGenNetRuleText(r)
			}
			f, err = guardRule(t, id)
			if err == nil || r.chance(1, 12) || k > 50 {
				break
			}
		}
		var q *rules.Request
		if f != nil {
			switch {
			case f.IsRegexRule() && r.chance(2, 3):
				u := pick(r, i2RegexTargets(r, f, 1))
				if !strings.Contains(u, "://") {
					u = pick(r, poolSchemes) + "://" + pick(r, poolDomains) + "/" + u
				}
				q = eAimedRequest(r, f, t)
				if !q.IsHostnameRequest {
					q2 := rules.NewRequest(u, q.SourceURL, q.RequestType)
					q2.SortedClientTags, q2.ClientName, q2.ClientIP, q2.DNSType = q.SortedClientTags, q.ClientName, q.ClientIP, q.DNSType
					q = q2
				}
			default:
				q = eAimedRequest(r, f, t)
				if r.chance(1, 2) {
					for k := 0; k < 12 && guardStr(func() string { return wbool(f.Match(q)) }) != "T"; k++ {
						q = eAimedRequest(r, f, t)
					}
				}
			}
		} else {
			q = genRequest(r, []string{t})
		}
		ans := "err"
		if f != nil {
			ans = guardStr(func() string { return wbool(f.Match(q)) })
		}
		addrs := i2Oracles(t)
		addrs = append(addrs, q.Hostname)
		fmt.Fprintf(w, "i2.textmatch %s %d %s %s %s %s = %s ## %s | %s src=%s host=%s hostreq=%v type=%d dns=%d tags=%q client=%q/%s\n",
			wb(t), id, waddrs(addrs...), wprefixes(addrs...), wrequest(q), wpsl(q.Hostname, q.SourceHostname), ans,
			noteStr(t), noteStr(q.URL), noteStr(q.SourceHostname), noteStr(q.Hostname), q.IsHostnameRequest, q.RequestType, q.DNSType,
			q.SortedClientTags, q.ClientName, q.ClientIP)
	}
}

package main

// Group R3, family `c13hist.fresh` (C13; serial: child processes).
//
// `c13hist` compares an engine with a history against a new engine IN THE SAME PROCESS.  Anything the process
// remembers outside the engines (a package-level memo of compiled patterns, an interning table, a pool ...) is then
// equally warm on both sides, and the two answers agree even if both are wrong.  Here the reference answer of every
// query of a history comes from a CHILD PROCESS that does nothing but: start, build the lists of the scenario,
// build new engines, answer THIS ONE query (`harness c13freshq <subseed> <scenario> <mode> <query as JSON>`).
//
//	assert c13hist.fresh <subseed> <scenario> <n queries> <n distinct> = T|F
//
// The line is T iff, for every query of the history (run in the harness process on engines that share one storage,
// after all the earlier scenarios of the run):
//   - the answer (complete serialisation, see fEngines.answer) equals the answer of the query's own child process;
//   - in the child, every rule reported matches by ITS OWN Match, evaluated on newly parsed rule objects (the
//     linear-scan oracle of c19fault), and for NetworkEngine.MatchAll the reported set is exactly the set of rules
//     whose own Match holds when the rules are evaluated in REVERSE list order in yet another new process (mode r):
//     an evaluation-order dependence inside one query shows up as a difference between the two orders.
//
// Worlds: a generated world (fGenWorld) plus a list of GROUPS of rules that have the same pattern or the same regular
// expression and differ only in their options ($match-case, content types, $domain, $third-party, $important, @@);
// the patterns come from a small pool, so that later scenarios of a run meet expressions again that earlier scenarios
// have used with other options.  The URLs of the aimed queries vary in letter case (exact, lower, upper, swapped,
// mixed), request type and referrer.

import (
	"bufio"
	"bytes"
	"context"
	"encoding/json"
	"fmt"
	"net/netip"
	"os"
	"os/exec"
	"sort"
	"strconv"
	"strings"
	"sync"
	"time"

	"github.com/AdguardTeam/urlfilter"
	"github.com/AdguardTeam/urlfilter/rules"
)

func init() {
	gens["c13hist.fresh"] = r3GenFresh
	subcmds["c13freshq"] = func() {
		if len(os.Args) < 6 {
			os.Exit(2)
		}
		sub, _ := strconv.ParseUint(os.Args[2], 10, 64)
		fSilenceLogs()
		w := bufio.NewWriter(os.Stdout)
		var spec r3Spec
		if err := json.Unmarshal([]byte(os.Args[5]), &spec); err != nil {
			fmt.Fprintln(os.Stderr, "c13freshq: bad query:", err)
			os.Exit(2)
		}
		world, _ := r3FreshWorld(newRng(sub))
		if os.Getenv("VERIF_DEBUG_FRESH") != "" {
			fmt.Fprintln(os.Stderr, "WORLD "+world.describe())
		}
		for _, l := range r3ChildAnswer(world, &spec, os.Args[4]) {
			fmt.Fprintln(w, l)
		}
		world.cleanup()
		_ = w.Flush()
		os.Exit(0)
	}
}

// r3Spec is a query as DATA (it travels to the child as JSON; the request object is built by whoever asks).
type r3Spec struct {
	Kind  string     `json:"k"`
	Host  string     `json:"h,omitempty"`
	URL   string     `json:"u,omitempty"`
	Src   string     `json:"s,omitempty"`
	RT    uint32     `json:"t,omitempty"`
	Tags  []string   `json:"g,omitempty"`
	CName string     `json:"c,omitempty"`
	IP    netip.Addr `json:"i"`
	QType uint16     `json:"q,omitempty"`
	Opt   uint32     `json:"o,omitempty"`
}

func (s *r3Spec) build() *fQuery {
	switch s.Kind {
	case "dns":
		return &fQuery{kind: "dns", dns: &urlfilter.DNSRequest{Hostname: s.Host, SortedClientTags: s.Tags, ClientName: s.CName, ClientIP: s.IP, DNSType: s.QType}}
	case "cos":
		return &fQuery{kind: "cos", host: s.Host, opt: rules.CosmeticOption(s.Opt)}
	default:
		q := rules.NewRequest(s.URL, s.Src, rules.RequestType(s.RT))
		q.SortedClientTags, q.ClientName, q.ClientIP, q.DNSType = s.Tags, s.CName, s.IP, s.QType

		return &fQuery{kind: s.Kind, web: q}
	}
}

func r3SpecOf(q *fQuery) *r3Spec {
	switch q.kind {
	case "dns":
		return &r3Spec{Kind: "dns", Host: q.dns.Hostname, Tags: q.dns.SortedClientTags, CName: q.dns.ClientName, IP: q.dns.ClientIP, QType: q.dns.DNSType}
	case "cos":
		return &r3Spec{Kind: "cos", Host: q.host, Opt: uint32(q.opt)}
	default:
		return &r3Spec{Kind: q.kind, URL: q.web.URL, Src: q.web.SourceURL, RT: uint32(q.web.RequestType), Tags: q.web.SortedClientTags,
			CName: q.web.ClientName, IP: q.web.ClientIP, QType: q.web.DNSType}
	}
}

type r3Group struct {
	pat     string
	samples []string // path fragments or complete URLs the pattern accepts as written
}

var (
	r3Groups = []r3Group{
		{`/banner[0-9]+/`, []string{"banner7", "img/banner123.png"}},
		{`/TRACK[0-9]+/`, []string{"TRACK1.js", "x/TRACK99"}},
		{`/pixel_[0-9a-f]+\.gif/`, []string{"pixel_0af3.gif"}},
		{`/\/promo\/[A-Za-z]+/`, []string{"promo/Sale", "promo/x.js"}},
		{`/ad(s|v)?[0-9]*\.js/`, []string{"ads12.js", "lib/ad.js"}},
		{`/^https?:\/\/[a-z.]*tracker\.example\.net\//`, []string{"http://ads.tracker.example.net/t.js", "https://tracker.example.net/"}},
		{`/Widget-[a-z]{3}/`, []string{"Widget-abc", "Widget-xyz.css"}},
		{`||cdn.example.org/Assets/`, []string{"http://cdn.example.org/Assets/x.png", "https://cdn.example.org/Assets/"}},
		{`/AdBanner_`, []string{"AdBanner_1.png", "a/AdBanner_"}},
		{`-Sponsor-`, []string{"img-Sponsor-2.gif"}},
		{`||example.com/API/v1^`, []string{"https://example.com/API/v1/users", "http://example.com/API/v1"}},
		{`/getAd.php?`, []string{"getAd.php?id=1"}},
		{`|https://static.site.com/JS/*.js|`, []string{"https://static.site.com/JS/app.js"}},
	}
	r3Variants = []string{"", "", "match-case", "match-case", "match-case,script", "image", "script", "script,~third-party", "third-party",
		"domain=example.org", "domain=example.org|site.com,match-case", "important", "match-case,important", "~match-case",
		"xmlhttprequest,match-case", "~image", "domain=~example.org"}
	r3Hosts = []string{"x.net", "example.org", "cdn.example.org", "img.site.com", "tracker.example.net"}
	r3Srcs  = []string{"", "http://example.org/", "https://site.com/page", "http://x.net/index.html", "https://news.example.com/a"}
	r3Types = []rules.RequestType{rules.TypeScript, rules.TypeScript, rules.TypeImage, rules.TypeImage, rules.TypeXmlhttprequest,
		rules.TypeDocument, rules.TypeOther, rules.TypeSubdocument, rules.TypeStylesheet}
)

func r3SwapCase(s string, mode int, r *rng) string {
	b := []byte(s)
	for i, c := range b {
		lower, upper := c >= 'a' && c <= 'z', c >= 'A' && c <= 'Z'
		switch mode {
		case 1: // lower
			if upper {
				b[i] = c + 32
			}
		case 2: // upper
			if lower {
				b[i] = c - 32
			}
		case 3: // swapped
			if lower {
				b[i] = c - 32
			} else if upper {
				b[i] = c + 32
			}
		case 4: // mixed
			if r.chance(1, 3) {
				if lower {
					b[i] = c - 32
				} else if upper {
					b[i] = c + 32
				}
			}
		}
	}

	return string(b)
}

// r3FreshWorld: the world of a scenario and the queries aimed at its groups.  It must be a deterministic function of
// the rng (the child regenerates the world from the sub-seed) and must not build requests or match anything.
func r3FreshWorld(r *rng) (w *fWorld, aimed []*r3Spec) {
	if r.chance(1, 2) {
		w = fGenWorld(r, 16, pick(r, []int{0, 0, 2}))
	} else {
		w = &fWorld{}
	}
	var lines []string
	ng := 1 + r.n(3)
	for g := 0; g < ng; g++ {
		grp := pick(r, r3Groups)
		vs := subset(r, r3Variants, 4)
		if len(vs) < 2 || r.chance(1, 2) {
			// at least one pair that differs in $match-case only
			base := pick(r, []string{"", "script", "image", "important", "domain=example.org"})
			other := "match-case"
			if base != "" {
				other = base + ",match-case"
				if r.chance(1, 2) {
					// ... or in $match-case and in the request types they apply to
					other = pick(r, []string{"match-case,script", "match-case,image", "match-case"})
				}
			}
			vs = append(vs, base, other)
		}
		shuffle(r, vs)
		seen := map[string]bool{}
		for _, v := range vs {
			line := grp.pat
			if v != "" {
				line += "$" + v
			}
			if r.chance(1, 8) {
				line = "@@" + line
			}
			if !seen[line] {
				seen[line] = true
				lines = append(lines, line)
			}
		}
		// queries: every sample in several spellings
		for k := 2 + r.n(4); k > 0; k-- {
			s := pick(r, grp.samples)
			var u string
			if strings.Contains(s, "://") {
				i := strings.Index(s, "://") + 3
				j := i + strings.IndexAny(s[i:]+"/", "/")
				u = s[:j] + r3SwapCase(s[j:], pick(r, []int{0, 0, 1, 2, 3, 4}), r)
				if r.chance(1, 8) {
					u = r3SwapCase(s, pick(r, []int{2, 4}), r)
				}
			} else {
				u = pick(r, []string{"http", "https"}) + "://" + pick(r, r3Hosts) + "/" + pick(r, []string{"", "", "x/", "static/"}) +
					r3SwapCase(s, pick(r, []int{0, 0, 1, 2, 3, 4}), r) + pick(r, []string{"", "", "?v=1"})
			}
			aimed = append(aimed, &r3Spec{Kind: pick(r, []string{"web", "web", "all"}), URL: u, Src: pick(r, r3Srcs), RT: uint32(pick(r, r3Types))})
		}
	}
	shuffle(r, lines)
	w.ruleTexts = append(w.ruleTexts, lines...)
	w.specs = append(w.specs, fListSpec{id: 313, text: strings.Join(lines, "\n") + "\n", file: r.chance(1, 4)})

	return w, aimed
}

// r3ReportedOK: every rule of the result matches by its own Match on newly parsed objects (the checks of c19fault with
// the result itself in the place of the fault-free result).
func r3ChildAnswer(w *fWorld, spec *r3Spec, mode string) (out []string) {
	q := spec.build()
	if mode == "r" {
		// the rules whose own Match holds, evaluated from the LAST rule of the lists to the first
		t := w.truth()
		var ks []string
		for i := len(t.order) - 1; i >= 0; i-- {
			if nr, ok := t.rule[t.order[i]].(*rules.NetworkRule); ok && nr.Match(q.web) {
				ks = append(ks, fRuleKey(nr))
			}
		}

		return []string{"ORACLE " + strconv.Quote(strings.Join(fSortedSet(ks), " | "))}
	}
	s := w.storage(nil, false)
	defer func() { _ = s.Close() }()
	var obj any
	ans := guardStr(func() (a string) { a, obj = fBuild(s).answer(q); return a })
	out = append(out, "ANS "+strconv.Quote(ans))
	if ans == "PANIC" {
		return out
	}
	t := w.truth()
	if law := guardStr(func() string { return fCheckDegraded(t, q, obj, obj) }); law != "" {
		out = append(out, "LAW "+strconv.Quote("a reported rule does not match by its own Match (new rule object, same process): "+law))
	}
	if q.kind == "all" {
		// by rule TEXT: the lookup tables keep one rule per text (the sequential table refuses a second rule with the
		// text of one it holds, whatever its list), and C01 compares texts, not list ids (DESIGN §6)
		have := map[string]bool{}
		for _, f := range obj.([]*rules.NetworkRule) {
			have[f.Text()] = true
		}
		var missing []string
		for k := range t.oracleNet(q.web) {
			text := k
			if i := strings.IndexByte(k, ':'); i >= 0 {
				text = k[i+1:]
			}
			if !have[text] {
				missing = append(missing, k)
			}
		}
		sort.Strings(missing)
		if len(missing) > 0 {
			out = append(out, "LAW "+strconv.Quote(fmt.Sprintf("MatchAll does not report %q although its own Match holds (new rule object, same process)", missing)))
		}
		out = append(out, "SET "+strconv.Quote(strings.Join(fSortedSet(fKeysOfNet(obj.([]*rules.NetworkRule))), " | ")))
	}

	return out
}

// r3TextSet reduces a " | "-joined set of `listid:text` keys to the sorted set of rule TEXTS (the lookup tables keep
// one rule per text, whatever its list; C01 compares texts: DESIGN §6).
func r3TextSet(keys string) string {
	if keys == "" {
		return ""
	}
	set := map[string]bool{}
	for _, k := range strings.Split(keys, " | ") {
		if i := strings.IndexByte(k, ':'); i >= 0 {
			k = k[i+1:]
		}
		set[k] = true
	}
	out := make([]string, 0, len(set))
	for k := range set {
		out = append(out, k)
	}
	sort.Strings(out)

	return strings.Join(out, " | ")
}

type r3ChildResult struct {
	lines map[string]string // ANS / LAW / SET / ORACLE -> unquoted text
	err   string
}

func r3RunChild(self string, sub uint64, scen int, mode string, spec *r3Spec, inProcess bool) (res r3ChildResult) {
	res.lines = map[string]string{}
	var lines []string
	js, _ := json.Marshal(spec)
	if inProcess {
		w, _ := r3FreshWorld(newRng(sub))
		lines = r3ChildAnswer(w, spec, mode)
		w.cleanup()
	} else {
		ctx, cancel := context.WithTimeout(context.Background(), 120*time.Second)
		defer cancel()
		cmd := exec.CommandContext(ctx, self, "c13freshq", strconv.FormatUint(sub, 10), strconv.Itoa(scen), mode, string(js))
		cmd.Env = append(os.Environ(), "VERIF_GEN_FAMILY=c13hist.fresh")
		var so, se bytes.Buffer
		cmd.Stdout, cmd.Stderr = &so, &se
		if err := cmd.Run(); err != nil {
			res.err = fmt.Sprintf("the child process failed (%v): %s; replay: harness c13freshq %d %d %s '%s'", err, fCrashSummary(se.String()), sub, scen, mode, js)

			return res
		}
		lines = strings.Split(so.String(), "\n")
	}
	for _, l := range lines {
		if i := strings.Index(l, " "); i > 0 {
			if v, err := strconv.Unquote(l[i+1:]); err == nil {
				if _, dup := res.lines[l[:i]]; !dup {
					res.lines[l[:i]] = v
				}
			}
		}
	}
	if _, ok := res.lines["ANS"]; !ok && mode == "e" && res.err == "" {
		res.err = fmt.Sprintf("the child process printed no answer; replay: harness c13freshq %d %d %s '%s'", sub, scen, mode, js)
	}

	return res
}

func r3GenFresh(r *rng, n int, w *bufio.Writer) {
	fSilenceLogs()
	self, err := os.Executable()
	if err != nil {
		self = os.Args[0]
	}
	inProcess := false
	if probe := exec.Command(self, "gen", "no-such-family", "0", "0"); probe.Start() != nil {
		inProcess = true
		fmt.Fprintln(os.Stderr, "c13hist.fresh: cannot start child processes; the reference answers are computed in-process")
	} else {
		_ = probe.Wait()
	}
	for i := 0; i < n; i++ {
		sub := r.u64() >> 1
		sr := newRng(sub)
		world, pool := r3FreshWorld(sr)
		for _, q := range fGenQueryPool(sr, world, 3+sr.n(6)) {
			pool = append(pool, r3SpecOf(q))
		}
		nq := 12 + sr.n(40)
		hist := make([]int, nq)
		for k := range hist {
			hist[k] = sr.n(len(pool))
		}
		// the history, in this process
		main := fBuild(world.storage(nil, false))
		got := make([]string, nq)
		for k, idx := range hist {
			q := pool[idx].build()
			got[k] = guardStr(func() string { a, _ := main.answer(q); return a })
		}
		_ = main.s.Close()
		// one child process per distinct query (and a second one, evaluating in reverse order, for MatchAll queries)
		type job struct {
			idx  int
			mode string
		}
		var jobs []job
		seen := map[int]bool{}
		for _, idx := range hist {
			if !seen[idx] {
				seen[idx] = true
				jobs = append(jobs, job{idx, "e"})
				if pool[idx].Kind == "all" {
					jobs = append(jobs, job{idx, "r"})
				}
			}
		}
		results := make([]r3ChildResult, len(jobs))
		var wg sync.WaitGroup
		sem := make(chan struct{}, 6)
		for j := range jobs {
			wg.Add(1)
			sem <- struct{}{}
			go func(j int) {
				defer wg.Done()
				results[j] = r3RunChild(self, sub, i, jobs[j].mode, pool[jobs[j].idx], inProcess)
				<-sem
			}(j)
		}
		wg.Wait()
		world.cleanup()
		byIdx := map[int]map[string]r3ChildResult{}
		for j, jb := range jobs {
			if byIdx[jb.idx] == nil {
				byIdx[jb.idx] = map[string]r3ChildResult{}
			}
			byIdx[jb.idx][jb.mode] = results[j]
		}
		diff := ""
		note := func(f string, a ...any) {
			if diff == "" {
				diff = fmt.Sprintf(f, a...)
			}
		}
		nontrivial := 0
		for k, idx := range hist {
			q := pool[idx].build()
			e := byIdx[idx]["e"]
			if e.err != "" {
				note("query %d %s: %s", k, q, e.err)

				continue
			}
			if strings.Contains(got[k], fLawMarker) {
				note("query %d %s: %s", k, q, got[k])
			}
			if e.lines["ANS"] != got[k] {
				note("query %d %s: after the history (this process) %q; as the only query of a new process %q", k, q, got[k], e.lines["ANS"])
			}
			if law, ok := e.lines["LAW"]; ok {
				note("query %d %s, as the only query of a new process: %s; answer %q", k, q, law, e.lines["ANS"])
			}
			if rr, ok := byIdx[idx]["r"]; ok {
				if rr.err != "" {
					note("query %d %s: %s", k, q, rr.err)
				} else if r3TextSet(rr.lines["ORACLE"]) != r3TextSet(e.lines["SET"]) {
					note("query %d %s: MatchAll in a new process reports {%s}; the rules whose own Match holds, evaluated from the last rule to the first in another new process: {%s}",
						k, q, e.lines["SET"], rr.lines["ORACLE"])
				}
			}
			if strings.Contains(got[k], ":") {
				nontrivial++
			}
		}
		ans := "T"
		desc := fmt.Sprintf("history of %d queries (%d distinct, %d with a non-empty answer), every reference answer from a child process of its own (harness c13freshq %d %d e '<query>'); %s",
			nq, len(seen), nontrivial, sub, i, world.describe())
		if diff != "" {
			ans = "F"
			desc = "FIRST DIFFERENCE: " + diff + "; " + desc
		}
		fmt.Fprintf(w, "assert c13hist.fresh %d %d %d %d = %s ## %s\n", sub, i, nq, len(seen), ans, strings.ReplaceAll(desc, "\n", "\\n"))
	}
}

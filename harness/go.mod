module verif/harness

go 1.23.2

require (
	github.com/AdguardTeam/golibs v0.29.0
	github.com/AdguardTeam/gomitmproxy v0.2.1
	github.com/AdguardTeam/urlfilter v0.0.0
	github.com/miekg/dns v1.1.61
	golang.org/x/net v0.29.0
)

require (
	github.com/pkg/errors v0.9.1 // indirect
	golang.org/x/exp v0.0.0-20240909161429-701f63a606c0 // indirect
	golang.org/x/sys v0.25.0 // indirect
	golang.org/x/text v0.18.0 // indirect
)

replace github.com/AdguardTeam/urlfilter => /repo

package main

// Ops of C20 (proxy HTML injection inserts one tag and preserves every byte).
//
//   c20.html <plain body> <gzip T/F> <tag> = <out>|<ContentLength>|<Content-Encoding present>|<CSP present>
//   c20.index <plain body> = findBodyInjectionIndex(DecodeLatin1(body))
//
// through proxy.VerifFilterHTML; with gzip=T the harness compresses the body and sets
// `Content-Encoding: gzip` (the model treats decompression as an oracle).

import (
	"bufio"
	"bytes"
	"compress/gzip"
	"fmt"
	"net/http"
	"strings"

	"github.com/AdguardTeam/urlfilter/proxy"
)

func init() { gens["c20html"] = genC20Html }

var c20Markers = []string{"</head", "<link", "<style", "<script"}

func randCase(r *rng, s string) string {
	b := []byte(s)
	mode := r.n(4)
	for i, c := range b {
		up := mode == 1 || (mode >= 2 && r.chance(1, 2))
		if up && 'a' <= c && c <= 'z' {
			b[i] = c - 32
		}
	}

	return string(b)
}

// nearMarker is something that must NOT be taken for a marker.
func nearMarker(r *rng) string {
	m := pick(r, c20Markers)
	switch r.n(10) {
	case 9: // bit 5 of a non-letter byte flipped ('<' -> 0x1c, '/' -> 0x0f): survives a naive "|0x20" case fold
		b := []byte(m)
		i := 0
		if m[1] == '/' && r.chance(1, 2) {
			i = 1
		}
		b[i] ^= 0x20
		return string(b)
	case 8: // one bit of one marker byte flipped (bit 5 of a letter would only change its case)
		b := []byte(m)
		i := r.n(len(b))
		bit := r.n(8)
		isLetter := (b[i]|0x20) >= 'a' && (b[i]|0x20) <= 'z'
		if isLetter && bit == 5 {
			bit = 6
		}
		b[i] ^= 1 << bit
		return string(b)
	case 0:
		return m[:len(m)-1]
	case 1:
		return m[:1] + " " + m[1:]
	case 2: // one character replaced by a high byte
		i := r.n(len(m))
		return m[:i] + string([]byte{byte(0x80 + r.n(128))}) + m[i+1:]
	case 3: // Kelvin sign / long s as UTF-8 bytes and as the Latin-1 bytes of their low halves
		return pick(r, []string{"<lin\xe2\x84\xaa", "<\xc5\xbftyle", "<\xc5\xbfcript", "<lin\x2a", "<\x7ftyle", "</hea\xc4", "<lin\xcb", "<lin\xeb"})
	case 4: // marker letters with bit 7 set
		b := []byte(m)
		i := 1 + r.n(len(b)-1)
		b[i] |= 0x80
		return string(b)
	case 5:
		return "<" + randCase(r, pick(r, []string{"body", "html", "div", "meta", "/body", "title", "heads"})) + ">"
	case 6: // a high byte glued in front / behind
		return string([]byte{byte(0x80 + r.n(128))}) + m[1:]
	default:
		return m[1:]
	}
}

func filler(r *rng, n int) []byte {
	b := make([]byte, n)
	mode := r.n(5)
	for i := range b {
		switch mode {
		case 0: // all byte values
			b[i] = byte(r.n(256))
		case 1: // high bytes only (the D12 shape)
			b[i] = byte(0x80 + r.n(128))
		case 2: // text
			b[i] = "abcdefghijklmnopqrstuvwxyz <>/=\"\n\t!-HTMLDOCTYPE"[r.n(45)]
		case 3: // one repeated byte
			b[i] = byte(0xFF)
		default: // mixture
			if r.chance(1, 2) {
				b[i] = byte(0x80 + r.n(128))
			} else {
				b[i] = byte(0x20 + r.n(0x5f))
			}
		}
	}
	// do not produce markers by accident in the filler: break every '<'
	for i := range b {
		if b[i] == '<' && r.chance(9, 10) {
			b[i] = '('
		}
	}

	return b
}

func randBody(r *rng, window int) (body []byte, note string) {
	var sb bytes.Buffer
	m := randCase(r, pick(r, c20Markers))
	shape := r.n(13)
	switch shape {
	case 0: // no marker at all
		sb.Write(filler(r, r.n(300)))
		note = "no marker"
	case 1: // marker early
		sb.Write(filler(r, r.n(200)))
		sb.WriteString(m + ">")
		sb.Write(filler(r, r.n(200)))
		note = "early marker"
	case 2, 3: // marker around the end of the window
		pos := window - len(m) + r.n(2*len(m)+3) - 3
		sb.Write(filler(r, pos))
		sb.WriteString(m + ">")
		sb.Write(filler(r, r.n(50)))
		note = fmt.Sprintf("marker %q at %d (window %d)", m, pos, window)
	case 4: // beyond the window
		pos := window + 1 + r.n(3000)
		sb.Write(filler(r, pos))
		sb.WriteString(m + ">")
		note = fmt.Sprintf("marker beyond the window at %d", pos)
	case 5, 6: // D12 shape: many high bytes, then a marker inside the window
		pos := pick(r, []int{window/2 - 3, window / 2, window/2 + 1, window/2 + 100, window - 100, window - len(m) - 1, window/2 - len(m)}) + r.n(3)
		hb := make([]byte, pos)
		for i := range hb {
			hb[i] = byte(0x80 + r.n(128))
		}
		sb.Write(hb)
		sb.WriteString(m + ">")
		sb.Write(filler(r, r.n(50)))
		note = fmt.Sprintf("%d high bytes then %q", pos, m)
	case 7: // several markers, near-markers first
		sb.Write(filler(r, r.n(100)))
		for k := r.n(4); k > 0; k-- {
			sb.WriteString(nearMarker(r))
			sb.Write(filler(r, r.n(40)))
		}
		for k := 1 + r.n(3); k > 0; k-- {
			sb.WriteString(randCase(r, pick(r, c20Markers)))
			sb.Write(filler(r, r.n(40)))
		}
		note = "near-markers, then several markers"
	case 8: // only near-markers
		for k := 1 + r.n(5); k > 0; k-- {
			sb.Write(filler(r, r.n(60)))
			sb.WriteString(nearMarker(r))
		}
		note = "near-markers only"
	case 9: // marker cut by the end of the body / tiny bodies
		sb.Write(filler(r, r.n(5)))
		sb.WriteString(m[:r.n(len(m)+1)])
		note = "cut marker at the end"
	case 10: // marker straddling the window after a high-byte run, near-marker inside the window
		pos := window - 2 - r.n(len(m))
		sb.Write(filler(r, pos-20))
		sb.WriteString(nearMarker(r))
		for sb.Len() < pos {
			sb.WriteByte(0xE9)
		}
		sb.WriteString(m + ">")
		sb.WriteString(randCase(r, pick(r, c20Markers)))
		note = fmt.Sprintf("straddling marker at %d", pos)
	case 11: // a body that is VALID UTF-8 with multi-byte characters: the marker's byte offset is at or beyond the window
		// although fewer than `window` characters precede it (the window is counted in bytes of the body)
		for sb.Len() < window+r.n(64) {
			sb.WriteString(pick(r, []string{"\u00e9", "\u0416", "\u20ac", "a", "\u4e2d"}))
		}
		sb.WriteString(m + ">")
		note = fmt.Sprintf("valid UTF-8 body, marker at byte %d", sb.Len()-len(m)-1)
	default: // html-like page
		sb.WriteString("<!DOCTYPE html><html>")
		sb.Write(filler(r, r.n(50)))
		sb.WriteString(randCase(r, "<head>") + "<meta charset=\"windows-1251\">")
		sb.Write(filler(r, r.n(100)))
		sb.WriteString(m + " x>")
		sb.Write(filler(r, r.n(100)))
		sb.WriteString("</head><body>\xcf\xf0\xe8\xe2\xe5\xf2</body></html>")
		note = "page"
	}

	return sb.Bytes(), note
}

func gz(b []byte) []byte {
	var buf bytes.Buffer
	zw := gzip.NewWriter(&buf)
	_, _ = zw.Write(b)
	_ = zw.Close()

	return buf.Bytes()
}

func genC20Html(r *rng, n int, w *bufio.Writer) {
	window := proxy.VerifHeadBufferSize
	for i := 0; i < n; i++ {
		body, note := randBody(r, window)
		useGz := r.chance(1, 3)
		host := pick(r, []string{"example.org", "a.b.example.com", "xn--e1afmkfd.xn--p1ai", "localhost"})
		h := http.Header{}
		h.Set("Content-Type", "text/html")
		h.Set("Content-Security-Policy", "default-src 'self'")
		h.Set("Content-Security-Policy-Report-Only", "default-src 'self'")
		in := body
		if useGz {
			in = gz(body)
			if r.chance(1, 2) {
				// a gzip stream of several members (group R4, op_r4_c20.go); it decompresses to the same body
				var d string
				in, _, d = gzMembers(r, body, window)
				note += "; " + d
			}
			h.Set("Content-Encoding", "gzip")
		} else if r.chance(1, 4) {
			h.Set("Content-Encoding", "identity")
		}
		var tag string
		ans := guardStr(func() string {
			out, oh, cl, t, err := proxy.VerifFilterHTML(in, h, host)
			tag = t
			if err != nil {
				return "err"
			}
			_, ce := oh["Content-Encoding"]
			_, c1 := oh["Content-Security-Policy"]
			_, c2 := oh["Content-Security-Policy-Report-Only"]
			csp := wbool(c1)
			if c1 != c2 {
				csp = "MIXED"
			}

			return fmt.Sprintf("%s|%d|%s|%s", wb(string(out)), cl, wbool(ce), csp)
		})
		fmt.Fprintf(w, "c20.html %s %s %s = %s ## len=%d gzip=%v %s\n", wb(string(body)), wbool(useGz), wb(tag), ans, len(body), useGz, note)
		if i%5 == 0 {
			// two responses in flight: A is filtered, B is filtered BEFORE A's new body is read; A must still be A
			bodyB, _ := randBody(r, window)
			pair := guardStr(func() string {
				readA, _, _, errA := proxy.VerifFilterHTMLDeferred(body, http.Header{"Content-Type": {"text/html"}}, host)
				readB, _, _, errB := proxy.VerifFilterHTMLDeferred(bodyB, http.Header{"Content-Type": {"text/html"}}, host)
				outA1, _, _, _, errA1 := proxy.VerifFilterHTML(body, http.Header{"Content-Type": {"text/html"}}, host)
				if errA != nil || errB != nil || errA1 != nil {
					return "err"
				}
				outA, e1 := readA()
				_, e2 := readB()
				if e1 != nil || e2 != nil {
					return "err"
				}

				return wbool(bytes.Equal(outA, outA1))
			})
			fmt.Fprintf(w, "assert c20.inflight %s %s = %s ## response A (len %d) filtered, then B (len %d), then A read: A's body must be what filtering A alone gives\n",
				wb(fmt.Sprint(len(body))), wb(fmt.Sprint(len(bodyB))), pair, len(body), len(bodyB))
		}
		if i%4 == 0 {
			// charmap.ISO8859_1 decoding: byte b is the code point U+00bb
			rs := make([]rune, len(body))
			for k, c := range body {
				rs[k] = rune(c)
			}
			fmt.Fprintf(w, "c20.index %s = %d ## len=%d %s\n", wb(string(body)), proxy.VerifFindBodyInjectionIndex(string(rs)), len(body), note)
		}
	}
	_ = strings.ToLower
}

package main

// Op families of group M1.
//
//	c05.engine (C05; lines of op `c01.matchall` + `assert c05.engine`):
//	    the shortcut as the ENGINE uses it.  Scenarios of rules with shortcuts (shared windows, host
//	    patterns, regex rules, mixed-case rule texts, $match-case) in 1-6 lists; the real
//	    NetworkEngine.MatchAll (shortcuts table: 5-byte windows of the lower-cased URL) against the model
//	    engine and the linear scan, on URLs that CONTAIN a rule's shortcut with upper-case letters placed
//	    exactly where a window of the shortcut begins (one letter, every letter, every window start, the
//	    neighbours of a window start).  The assert line states the same in Go alone:
//	    for every rule f of the scenario, f.Match(q) <=> f is in engine.MatchAll(q).
//	    (C05: "a rule's match result is the same as it would be with the shortcut test removed" -- the table
//	    lookup is the second place where the shortcut decides.)

import (
	"bufio"
	"fmt"
	"sort"
	"strings"

	"github.com/AdguardTeam/urlfilter/lookup"
	"github.com/AdguardTeam/urlfilter/rules"
)

func init() { gens["c05.engine"] = m1GenC05Engine }

var (
	m1Words = []string{"adbanner_", "AdBanner_", "/Tracking/Pixel.", "promo", "/Sponsor/", "click-Track", "doubleclick", "Analytics.js", "/static/Ads/",
		"popunder", "BannerFarm", "/img/AD_", "x-Frame", "metrics"}
	m1Regex = []string{`/promo[0-9]+\.gif/`, `/banner[0-9]+/`, `/AdBanner_[a-z]+/`, `/\/tracking\/pixel\./`, `/^https?:\/\/cdn\.example\./`,
		`/(analytics|metrics)\.js/`, `/advert\.js/`, `/[a-z]+\.tracker\.io/`}
)

func m1C05RuleText(r *rng) string {
	d := pick(r, poolDomains)
	mods := func() string {
		switch r.n(8) {
		case 0:
			return "$match-case"
		case 1:
			return "$" + pick(r, []string{"script", "image", "~script", "third-party", "important"})
		case 2:
			return "$domain=" + pick(r, poolDomains)
		default:
			return ""
		}
	}
	switch r.n(12) {
	case 0, 1:
		return pick(r, m1Words) + mods()
	case 2:
		return pick(r, c01Stems) + mods()
	case 3:
		return "||" + pick(r, []string{d, mutateCase(r, d), strings.ToUpper(d)}) + "^" + mods()
	case 4:
		return "||" + d + pick(r, []string{"/Landing", "/ads/", "/AD/Img", "/banner", pick(r, m1Words)}) + mods()
	case 5:
		return pick(r, m1Regex) + mods()
	case 6:
		return "@@" + pick(r, m1Words) + pick(r, []string{"", "$script", "$important", "$match-case"})
	case 7:
		return "|" + pick(r, []string{"http", "https"}) + "://" + d + pick(r, poolPaths) + mods()
	case 8:
		return pick(r, m1Words) + "*" + pick(r, c01Stems) + mods()
	case 9:
		return pick(r, c01Short) + mods() // no table shortcut: control
	case 10:
		return "://" + pick(r, []string{"", "www.", "cdn."}) + d + mods()
	default:
		return c01GenRuleText(r)
	}
}

// m1C05URL: a URL around rule f (so that the pattern has a good chance to accept it) whose letter case
// is then arranged around the occurrences of f's shortcut.
func m1C05URL(r *rng, sc *c01Scenario, f *rules.NetworkRule) string {
	t := f.RuleText
	if i := strings.LastIndex(t, "$"); i > 0 {
		t = t[:i]
	}
	var u string
	switch r.n(4) {
	case 0:
		u = pick(r, poolSchemes) + "://" + pick(r, poolDomains) + "/img/" + strings.Trim(f.Shortcut, "/") + pick(r, []string{"300x250.png", "/x.js", "", "?a=1"})
	case 1:
		u = c01URL(r, sc)
	default:
		u = urlAround(r, t)
	}
	if r.chance(1, 8) || (f.IsOptionEnabled(rules.OptionMatchCase) && r.chance(1, 3)) {
		// URL LENGTH (log-scale filler after the host, from a few bytes to beyond the 4 KiB cap): the shortcut and the
		// letters whose case is arranged below lie 64, 300, 1500, 4000 bytes into the URL
		u = nLongURL(r, u, nPadLog(r, 8, 5000))
	}
	if f.Shortcut == "" || r.chance(1, 10) {
		return u
	}
	if f.IsOptionEnabled(rules.OptionMatchCase) && r.chance(1, 2) {
		return u // a case-sensitive rule: leave the URL as the pattern writes it
	}

	return mUpperWindow(r, u, f.Shortcut, lookup.VerifShortcutLength)
}

func m1GenC05Engine(r *rng, n int, w *bufio.Writer) {
	bReseed(r)
	for i := 0; i < n; {
		sc := c01BuildScenarioWith(r, m1C05RuleText)
		if len(sc.nets) == 0 {
			continue
		}
		for j := 0; j < 8 && i < n; j, i = j+1, i+1 {
			f := pick(r, sc.nets)
			q := rules.NewRequest(m1C05URL(r, sc, f), c01Source(r, f), pick(r, poolReqTypes))
			var found []*rules.NetworkRule
			ans := guardStr(func() string {
				found = sc.engine.MatchAll(q)

				return bSortedTextSet(texts(found))
			})
			var pats []string
			for _, g := range sc.nets {
				if p := wpat(g, q.URL, q.Hostname); p != "" && !nSeenPat(&pats, p) {
					pats = append(pats, p)
				}
			}
			fmt.Fprintf(w, "c01.matchall %s %s %s %s (%s) = %s ## url=%q src=%q type=%d aimed at %q (shortcut %q) lists: %s\n",
				sc.rulesW, wrequest(q), wpsl(q.Hostname, q.SourceHostname), waddrs(q.Hostname),
				strings.Join(pats, " "), ans, q.URL, q.SourceURL, q.RequestType, f.RuleText, f.Shortcut, sc.note)
			// Go alone: the engine's answer is exactly the set of rules whose own Match accepts the request
			in := map[string]bool{}
			for _, g := range found {
				in[g.RuleText] = true
			}
			var diff []string
			seen := map[string]bool{}
			for _, g := range sc.nets {
				m := guardStr(func() string { return wbool(g.Match(q)) })
				if (m == "T") != in[g.RuleText] && !seen[g.RuleText] {
					seen[g.RuleText] = true
					diff = append(diff, fmt.Sprintf("%q (shortcut %q): Match=%s, in MatchAll=%v", g.RuleText, g.Shortcut, m, in[g.RuleText]))
				}
			}
			sort.Strings(diff)
			if ans != "PANIC" {
				fmt.Fprintf(w, "assert c05.engine %s %s %s %d = %s ## url=%q src=%q type=%d: %s ; lists: %s\n",
					wstrs(sc.texts), wb(q.URL), wb(q.SourceURL), uint32(q.RequestType), wbool(len(diff) == 0),
					q.URL, q.SourceURL, q.RequestType, noteStr(strings.Join(diff, " ; ")), sc.note)
			}
		}
	}
}

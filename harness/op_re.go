package main

// Op family `re` (regex core, shared by C03 and C05): the real engine vs the
// Lean model `parseRE` + `search`.
//
//	re x<pattern> x<subject> = T|F|err ## pattern ⏎ subject
//
// Go = regexp.Compile(pattern) + MatchString(subject); `err` if Compile fails.
// Families:
//	re        regexes from a grammar (alternation, groups, classes, escapes
//	          \d \w \s \b \xHH, quantifiers, plus a malformed stream)
//	re.rules  the regex rules `/…/` of the bundled lists, compiled the way a
//	          rule compiles them ((?i) unless $match-case)
// Subjects are derived from the parse tree of the regex: members, near-misses
// (one byte changed, dropped or inserted), case flips, plus short noise.

import (
	"bufio"
	"fmt"
	"os"
	"regexp"
	"regexp/syntax"
	"strings"

	"github.com/AdguardTeam/urlfilter/rules"
)

func init() {
	gens["re"] = genRe
	gens["re.rules"] = genReRules
}

const reAlphabet = "abcdxyzABZ019._-/%: "

// ---------------------------------------------------------------------------
// regex grammar

func genReClass(r *rng) string {
	var sb strings.Builder
	sb.WriteByte('[')
	if r.chance(1, 4) {
		sb.WriteByte('^')
	}
	if r.chance(1, 12) {
		sb.WriteByte(']')
	}
	n := 1 + r.n(4)
	for i := 0; i < n; i++ {
		switch r.n(12) {
		case 0:
			sb.WriteString("a-c")
		case 1:
			sb.WriteString("0-9")
		case 2:
			sb.WriteString("A-Z")
		case 3:
			sb.WriteString(pick(r, []string{`\d`, `\w`, `\s`, `\D`, `\W`, `\S`}))
		case 4:
			sb.WriteString(pick(r, []string{`\.`, `\-`, `\/`, `\]`, `\\`, `\^`, `\n`, `\t`}))
		case 5:
			sb.WriteString(fmt.Sprintf(`\x%02x`, reAlphabet[r.n(len(reAlphabet))]))
		case 6:
			sb.WriteString("-")
		case 7:
			sb.WriteString(pick(r, []string{"a-z0-9-_.", " a-zA-Z0-9.%_-", ".-/", "+--", "x-z", "Y-b", `\x41-\x43`, `a-\x63`, "_-"}))
		case 8:
			// arbitrary range, sometimes reversed (an error)
			a, b := reAlphabet[r.n(len(reAlphabet))], reAlphabet[r.n(len(reAlphabet))]
			if a > b && !r.chance(1, 8) {
				a, b = b, a
			}
			if a != '-' && b != '-' && a != ' ' {
				sb.WriteByte(a)
				sb.WriteByte('-')
				sb.WriteByte(b)
			} else {
				sb.WriteByte('x')
			}
		default:
			c := reAlphabet[r.n(len(reAlphabet))]
			if c == '-' || c == ' ' {
				c = 'y'
			}
			sb.WriteByte(c)
		}
	}
	if r.chance(1, 10) {
		sb.WriteByte('-')
	}
	sb.WriteByte(']')

	return sb.String()
}

func genReAtom(r *rng, d int) string {
	k := r.n(40)
	switch {
	case k < 14:
		c := reAlphabet[r.n(len(reAlphabet))]
		if c == '.' {
			return `\.`
		}

		return string(c)
	case k < 15 && r.chance(1, 3):
		return quirkLead(r, pick(r, quirkLetters))
	case k < 16:
		return pick(r, []string{`\.`, `\/`, `\-`, `\?`, `\|`, `\*`, `\+`, `\(`, `\)`, `\[`, `\]`, `\{`, `\}`, `\^`, `\$`, `\\`, `\_`, `\%`, `\ `, `\:`})
	case k < 18:
		return "."
	case k < 21:
		return pick(r, []string{`\d`, `\w`, `\s`, `\d`, `\w`, `\D`, `\W`, `\S`})
	case k < 23:
		return pick(r, []string{`\b`, `\B`, `\b`})
	case k < 25:
		return fmt.Sprintf(`\x%02x`, reAlphabet[r.n(len(reAlphabet))])
	case k < 30:
		return genReClass(r)
	case k < 31:
		return pick(r, []string{"^", "$", `\A`, `\z`, `\n`, `\t`, "{", "}", "]", "{a}", "{,2}", "{1", "{1,", "{01}", "a{1,02}"})
	case k < 37 && d > 0:
		open := "("
		if r.chance(1, 3) {
			open = "(?:"
		}

		return open + genReAlt(r, d-1) + ")"
	default:
		return string(reAlphabet[r.n(12)])
	}
}

func genReQuant(r *rng) string {
	var q string
	switch r.n(9) {
	case 0, 1:
		q = "*"
	case 2, 3:
		q = "+"
	case 4:
		q = "?"
	case 5:
		q = fmt.Sprintf("{%d}", r.n(4))
	case 6:
		q = fmt.Sprintf("{%d,}", r.n(3))
	default:
		a := r.n(3)
		q = fmt.Sprintf("{%d,%d}", a, a+r.n(3))
	}
	if r.chance(1, 8) {
		q += "?"
	}

	return q
}

func genReConcat(r *rng, d int) string {
	var sb strings.Builder
	n := 1 + r.n(4)
	if r.chance(1, 15) {
		n = 0
	}
	for i := 0; i < n; i++ {
		sb.WriteString(genReAtom(r, d))
		if r.chance(1, 4) {
			sb.WriteString(genReQuant(r))
		}
	}

	return sb.String()
}

func genReAlt(r *rng, d int) string {
	n := 1
	if r.chance(1, 3) {
		n = 2 + r.n(2)
	}
	parts := make([]string, n)
	for i := range parts {
		parts[i] = genReConcat(r, d)
	}

	return strings.Join(parts, "|")
}

// genRegexText returns a regex from the grammar; about one in ten is then
// damaged to exercise the error paths of the parser.
func genRegexText(r *rng) string {
	p := genReAlt(r, 2+r.n(2))
	if r.chance(1, 6) {
		// group P3: case-sensitive literal next to its case-folded twin at the head of alternation branches
		p = genQuirkText(r)
	}
	if r.chance(1, 10) && len(p) > 0 {
		i := r.n(len(p) + 1)
		switch r.n(4) {
		case 0:
			p = p[:i] + pick(r, []string{"*", "+", "?", "(", ")", "[", "]", "{2,1}", "{1001}", `\`, `\q`, `\1`, "(?", "(?P<n>a)", "(?i)", "(?s)", "[[:alpha:]]", `\pL`, `\Qa.b\E`, "**", "+*", "{2}{3}", "[z-a]", "\xc3\xa9", `\x{41}`, `\xg1`, `\C`}) + p[i:]
		case 1:
			if i < len(p) {
				p = p[:i] + p[i+1:]
			}
		case 2:
			p += pick(r, []string{`\`, "(", "[", "[^", "[a-", `[\`, "{", "(?", "|", `\x4`, `\x`})
		default:
			p = pick(r, []string{"*", "+", "?", "{2}", "|", ")", "|*", "(*a)", "(|a)+", "()", "a||b", "^*", `\b+`, "$+a", "(?:)", "a{2}{3}", "(a{20}){20}{3}", "((a{10}){10}){11}", "(a{0}){1001}", "a{1000}", "(a{1,}){1000}", "(?:a{2,}){501}"}) + p[i:]
		}
	}
	if r.chance(3, 10) {
		p = "(?i)" + p
	}

	return p
}

// ---------------------------------------------------------------------------
// subjects from a parse tree

func asciiRange(lo, hi rune) (rune, rune, bool) {
	if lo > 126 {
		return 0, 0, false
	}
	if hi > 126 {
		hi = 126
	}
	if lo < 9 {
		lo = 9
	}

	return lo, hi, lo <= hi
}

// sampleRe appends one string the expression is likely to match (assertions
// are ignored, so it is only likely).
func sampleRe(r *rng, re *syntax.Regexp, sb *strings.Builder, d int) {
	// d = cap on the number of repetitions sampled for {m,n}; the length cap follows it
	if sb.Len() > 10*d {
		return
	}
	switch re.Op {
	case syntax.OpLiteral:
		for _, c := range re.Rune {
			if re.Flags&syntax.FoldCase != 0 && r.chance(1, 2) {
				if c >= 'a' && c <= 'z' {
					c -= 32
				} else if c >= 'A' && c <= 'Z' {
					c += 32
				}
			}
			if c < 128 {
				sb.WriteRune(c)
			}
		}
	case syntax.OpCharClass:
		var cands []rune
		for i := 0; i+1 < len(re.Rune); i += 2 {
			if lo, hi, ok := asciiRange(re.Rune[i], re.Rune[i+1]); ok {
				// prefer printable members; keep the boundaries
				cands = append(cands, lo, hi, lo+rune(r.n(int(hi-lo)+1)))
				for _, c := range reAlphabet {
					if c >= lo && c <= hi {
						cands = append(cands, c)
					}
				}
			}
		}
		if len(cands) > 0 {
			sb.WriteRune(pick(r, cands))
		}
	case syntax.OpAnyCharNotNL, syntax.OpAnyChar:
		sb.WriteByte(reAlphabet[r.n(len(reAlphabet))])
	case syntax.OpCapture:
		sampleRe(r, re.Sub[0], sb, d)
	case syntax.OpConcat:
		for _, s := range re.Sub {
			sampleRe(r, s, sb, d)
		}
	case syntax.OpAlternate:
		sampleRe(r, pick(r, re.Sub), sb, d)
	case syntax.OpStar:
		for i, n := 0, r.n(3); i < n; i++ {
			sampleRe(r, re.Sub[0], sb, d)
		}
	case syntax.OpPlus:
		for i, n := 0, 1+r.n(2); i < n; i++ {
			sampleRe(r, re.Sub[0], sb, d)
		}
	case syntax.OpQuest:
		if r.chance(1, 2) {
			sampleRe(r, re.Sub[0], sb, d)
		}
	case syntax.OpRepeat:
		n := re.Min
		if re.Max < 0 {
			n += r.n(2)
		} else if re.Max > re.Min {
			n += r.n(re.Max - re.Min + 1)
		}
		if n > d {
			n = d
		}
		for i := 0; i < n; i++ {
			sampleRe(r, re.Sub[0], sb, d)
		}
	default:
		// empty match, assertions, no match
	}
}

func flipCase(r *rng, s string) string {
	b := []byte(s)
	for i, c := range b {
		if r.chance(1, 2) {
			if c >= 'a' && c <= 'z' {
				b[i] = c - 32
			} else if c >= 'A' && c <= 'Z' {
				b[i] = c + 32
			}
		}
	}

	return string(b)
}

// reSubjects derives k subjects from the parse tree of pattern.
func reSubjects(r *rng, tree *syntax.Regexp, k, maxRep int) []string {
	out := make([]string, 0, k)
	for len(out) < k {
		var sb strings.Builder
		sampleRe(r, tree, &sb, maxRep)
		m := sb.String()
		switch r.n(10) {
		case 0, 1, 2:
			// the member itself
		case 3:
			m = pick(r, []string{"", "x", "http://", "a ", "-", "_", "/"}) + m + pick(r, []string{"", "y", "/", " b", ".", "_", "\n"})
		case 4:
			if len(m) > 0 {
				i := r.n(len(m))
				m = m[:i] + string(reAlphabet[r.n(len(reAlphabet))]) + m[i+1:]
			}
		case 5:
			if len(m) > 0 {
				i := r.n(len(m))
				m = m[:i] + m[i+1:]
			}
		case 6:
			i := r.n(len(m) + 1)
			m = m[:i] + string(reAlphabet[r.n(len(reAlphabet))]) + m[i:]
		case 7:
			m = flipCase(r, m)
		case 8:
			n := r.n(6)
			b := make([]byte, n)
			for i := range b {
				b[i] = reAlphabet[r.n(len(reAlphabet))]
			}
			m = string(b)
		default:
			if len(m) > 1 {
				m = m[:len(m)-1]
			}
		}
		out = append(out, m)
	}

	return out
}

func emitRe(w *bufio.Writer, pattern, subject string) {
	ans := guardStr(func() string {
		re, err := regexp.Compile(pattern)
		if err != nil {
			return "err"
		}

		return wbool(re.MatchString(subject))
	})
	fmt.Fprintf(w, "re %s %s = %s ## %q %q\n", wb(pattern), wb(subject), ans, pattern, subject)
}

// remix derives an independent stream from r (the streams of newRng(seed) for
// neighbouring seeds are shifts of one another).
func remix(r *rng) *rng {
	a := r.u64()
	for i := 0; i < int(a%7); i++ {
		r.u64()
	}

	return &rng{s: a ^ r.u64()*0xD1342543DE82EF95}
}

func genRe(r *rng, n int, w *bufio.Writer) {
	r = remix(r)
	for i := 0; i < n; {
		p := genRegexText(r)
		tree, err := syntax.Parse(p, syntax.Perl)
		if err != nil {
			emitRe(w, p, "")
			i++

			continue
		}
		subs := reSubjects(r, tree, 4+r.n(4), 6)
		if quirkTwoCase(p) && !strings.HasPrefix(p, "(?i)") {
			// group P3: subjects that tell Go's reading of the expression from the textbook one
			subs = append(subs, quirkSubjects(r, p, 2)...)
		}
		for _, s := range subs {
			if i >= n {
				break
			}
			emitRe(w, p, s)
			i++
		}
	}
}

// ---------------------------------------------------------------------------
// regex rules of the bundled lists

var ruleFiles = []string{
	"/repo/testdata/easylist.txt",
	"/repo/testdata/adguard_sdn_filter.txt",
	"/repo/examples/proxy/adguard_base_filter.txt",
	"/repo/examples/proxy/adguard_russian_filter.txt",
}

var regexRulesCache []*rules.NetworkRule

// bundledRegexRules returns every line of the bundled lists that the library
// parses into a regex rule (pattern `/…/`), without duplicates, in file order.
func bundledRegexRules() []*rules.NetworkRule {
	if regexRulesCache != nil {
		return regexRulesCache
	}
	seen := map[string]bool{}
	for _, fn := range ruleFiles {
		data, err := os.ReadFile(fn)
		if err != nil {
			continue
		}
		for _, line := range strings.Split(string(data), "\n") {
			line = strings.TrimSpace(line)
			if !strings.Contains(line, "/") || seen[line] {
				continue
			}
			if !strings.HasPrefix(line, "/") && !strings.HasPrefix(line, "@@/") {
				continue
			}
			var f *rules.NetworkRule
			func() {
				defer func() { _ = recover() }()
				f, err = rules.NewNetworkRule(line, 1)
			}()
			if err != nil || f == nil || !f.IsRegexRule() {
				continue
			}
			seen[line] = true
			regexRulesCache = append(regexRulesCache, f)
		}
	}

	return regexRulesCache
}

// ruleRegexText is the text preparePattern compiles for a regex rule.
func ruleRegexText(f *rules.NetworkRule) string {
	p := f.VerifRaw().Pattern
	p = p[1 : len(p)-1]
	if !f.IsOptionEnabled(rules.OptionMatchCase) {
		p = "(?i)" + p
	}

	return p
}

func genReRules(r *rng, n int, w *bufio.Writer) {
	r = remix(r)
	rs := bundledRegexRules()
	if len(rs) == 0 {
		return
	}
	// rounds over all the rules until n lines are written
	for i := 0; i < n; {
		for _, f := range rs {
			p := ruleRegexText(f)
			tree, err := syntax.Parse(p, syntax.Perl)
			if err != nil {
				emitRe(w, p, "")
				i++

				continue
			}
			for _, s := range reSubjects(r, tree, 3, 6+r.n(330)) {
				if r.chance(1, 3) {
					s = "http://example.org/" + s
				}
				emitRe(w, p, s)
				i++
			}
		}
	}
}

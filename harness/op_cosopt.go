package main

// op `cosopt` (C16): all 2^9 subsets of the exception modifiers as real rule
// texts through NewMatchingResult(...).GetCosmeticOption() and the flag
// decoding of Engine.GetCosmeticResult; plus non-exception / absent basic rules.
//   cosopt <R|_> (<modifier names>) = <option>:<css><js><generic>

import (
	"bufio"
	"fmt"
	"strings"

	"github.com/AdguardTeam/urlfilter"
	"github.com/AdguardTeam/urlfilter/filterlist"
	"github.com/AdguardTeam/urlfilter/rules"
)

func init() { gens["cosopt"] = genCosopt }

var cosoptMods = []string{"elemhide", "generichide", "jsinject", "document", "urlblock", "genericblock", "content", "extension", "important"}

// cosFlags observes the three flags Engine.GetCosmeticResult derives from the
// option through a real engine holding one generic, one specific and no JS rule.
func cosFlags(opt rules.CosmeticOption) string {
	s, _ := filterlist.NewRuleStorage([]filterlist.RuleList{&filterlist.StringRuleList{
		ID: 1, RulesText: "##.generic\ne.org##.specific\n",
	}})
	e := urlfilter.NewEngine(s)
	res := e.GetCosmeticResult("e.org", opt)
	css := len(res.ElementHiding.Specific) > 0
	gen := len(res.ElementHiding.Generic) > 0
	// JS rules are not loaded by this version of the engine; decode the flag as the engine does.
	js := opt&rules.CosmeticOptionJS == rules.CosmeticOptionJS

	return wbool(css) + wbool(js) + wbool(gen)
}

func genCosopt(r *rng, n int, w *bufio.Writer) {
	// emitSrc: the same rule is also among the rules matching the referrer (a same-site navigation)
	emitSrc := func(f *rules.NetworkRule, names []string, src []*rules.NetworkRule) {
		res := rules.NewMatchingResult([]*rules.NetworkRule{f}, src)
		opt := res.GetCosmeticOption()
		ws := make([]string, len(src))
		ts := make([]string, len(src))
		for i, x := range src {
			ws[i] = wnetrule(x)
			ts[i] = x.RuleText
		}
		fmt.Fprintf(w, "cosopt %s (%s) %s = %d:%s ## %s with referrer rules [%s]\n", wnetrule(f), strings.Join(names, " "), wlist(ws...),
			uint32(opt), cosFlags(opt), f.RuleText, strings.Join(ts, " ; "))
	}
	emit := func(f *rules.NetworkRule, names []string) {
		var res *rules.MatchingResult
		wr := "_"
		if f == nil {
			res = rules.NewMatchingResult(nil, nil)
		} else {
			res = rules.NewMatchingResult([]*rules.NetworkRule{f}, nil)
			wr = wnetrule(f)
		}
		opt := res.GetCosmeticOption()
		fmt.Fprintf(w, "cosopt %s (%s) = %d:%s ## %s\n", wr, strings.Join(names, " "), uint32(opt), cosFlags(opt),
			func() string {
				if f == nil {
					return "no basic rule"
				}

				return f.RuleText
			}())
	}
	// exhaustive part: every subset of the nine modifiers on an exception rule
	for mask := 0; mask < 1<<len(cosoptMods); mask++ {
		var names []string
		for i, m := range cosoptMods {
			if mask&(1<<i) != 0 {
				names = append(names, m)
			}
		}
		shuffle(r, names)
		text := "@@||e.org^"
		if len(names) > 0 {
			text += "$" + strings.Join(names, ",")
		}
		f, err := rules.NewNetworkRule(text, 1)
		if err != nil {
			panic(text + ": " + err.Error())
		}
		emit(f, names)
		// the referrer is covered by the same exception, by a $genericblock one, by a $urlblock one
		switch mask % 4 {
		case 0:
			emitSrc(f, names, []*rules.NetworkRule{f})
		case 1:
			emitSrc(f, names, []*rules.NetworkRule{mustRule("@@||e.org^$genericblock")})
		case 2:
			emitSrc(f, names, []*rules.NetworkRule{mustRule("@@||e.org^$urlblock"), f})
		default:
			emitSrc(f, names, []*rules.NetworkRule{f, mustRule("@@||e.org^$genericblock,urlblock")})
		}
	}
	// non-exception and absent basic rules
	emit(nil, nil)
	for _, t := range []string{"||e.org^", "||e.org^$important", "||e.org^$script,third-party", "||e.org^$popup"} {
		f, err := rules.NewNetworkRule(t, 1)
		if err != nil {
			panic(err)
		}
		emit(f, nil)
	}
	_ = n
}

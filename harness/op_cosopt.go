package main

// op `cosopt` (C16): all 2^9 subsets of the exception modifiers as real rule
// texts through NewMatchingResult(...).GetCosmeticOption() and the flag
// decoding of Engine.GetCosmeticResult; plus non-exception / absent basic rules.
//   cosopt <R|_> (<modifier names>) = <option>:<css><js><generic>

import (
	"bufio"
	"fmt"
	"strings"

	"github.com/AdguardTeam/urlfilter"
	"github.com/AdguardTeam/urlfilter/filterlist"
	"github.com/AdguardTeam/urlfilter/rules"
)

func init() { gens["cosopt"] = genCosopt }

var cosoptMods = []string{"elemhide", "generichide", "jsinject", "document", "urlblock", "genericblock", "content", "extension", "important"}

// cosFlags observes the three flags Engine.GetCosmeticResult derives from the
// option through a real engine holding one generic, one specific and no JS rule.
func cosFlags(opt rules.CosmeticOption) string {
	s, _ := filterlist.NewRuleStorage([]filterlist.RuleList{&filterlist.StringRuleList{
		ID: 1, RulesText: "##.generic\ne.org##.specific\n",
	}})
	e := urlfilter.NewEngine(s)
	res := e.GetCosmeticResult("e.org", opt)
	css := len(res.ElementHiding.Specific) > 0
	gen := len(res.ElementHiding.Generic) > 0
	// JS rules are not loaded by this version of the engine; decode the flag as the engine does.
	js := opt&rules.CosmeticOptionJS == rules.CosmeticOptionJS

	return wbool(css) + wbool(js) + wbool(gen)
}

func cosoptNames(r *rng, mask int) (names []string) {
	for i, m := range cosoptMods {
		if mask&(1<<i) != 0 {
			names = append(names, m)
		}
	}
	shuffle(r, names)

	return names
}

// cosoptWithdrawn: rules that come with their `$badfilter` twin.  None of them is a twin of `@@||e.org^$<subset of the nine>`.
var cosoptWithdrawn = []string{"@@||e.org^$generichide,match-case", "@@||e.org^$elemhide,match-case", "@@||e.org^$match-case,jsinject,important",
	"||e.org^$important,match-case", "@@||e.org^$document,match-case", "||e.org^$match-case", "@@||e.org^$match-case", "@@||e.org^$urlblock,genericblock,match-case",
	"@@|http://e.org^$elemhide", "@@|http://e.org^$generichide,jsinject", "|http://e.org^$important"}

// cosoptWeaker: rules that never beat an exception, and `$badfilter` rules without a partner in the list.
var cosoptWeaker = []string{"||e.org^", "|http://e.org/", "||e.org^$~script", "@@||e.org^$elemhide,match-case,badfilter", "||e.org^$badfilter,match-case", "@@|http://e.org^$badfilter,document"}

// cosoptList emits `cosopt <R> (<names>) () (<R>…)`: the exception `text` inside a list of matched rules.
func cosoptList(r *rng, w *bufio.Writer, text string, names []string) {
	var before, after []string
	add := func(ts ...string) {
		switch r.n(5) {
		case 0:
			after = append(after, ts...)
		case 1:
			// around the exception
			before = append(before, ts[0])
			after = append(after, ts[1:]...)
		default:
			before = append(before, ts...)
		}
	}
	for k := 1 + r.n(2); k > 0; k-- {
		x := pick(r, cosoptWithdrawn)
		twin := x + ",badfilter"
		if r.chance(1, 3) {
			i := strings.IndexByte(x, '$')
			twin = x[:i+1] + "badfilter," + x[i+1:]
		}
		if r.chance(1, 3) {
			add(twin, x)
		} else {
			add(x, twin)
		}
	}
	for k := r.n(3); k > 0; k-- {
		add(pick(r, cosoptWeaker))
	}
	texts := append(append(append([]string{}, before...), text), after...)
	var list []*rules.NetworkRule
	var ws []string
	var f *rules.NetworkRule
	for _, t := range texts {
		x, err := rules.NewNetworkRule(t, 1)
		if err != nil {
			fmt.Fprintf(w, "cosopt _ (%s) = err ## %s REJECTED: %v\n", strings.Join(names, " "), t, err)

			return
		}
		if t == text {
			f = x
		}
		list = append(list, x)
		ws = append(ws, wnetrule(x))
	}
	opt := rules.NewMatchingResult(list, nil).GetCosmeticOption()
	fmt.Fprintf(w, "cosopt %s (%s) () %s = %d:%s ## %s among the matched rules [%s]\n", wnetrule(f), strings.Join(names, " "), wlist(ws...),
		uint32(opt), cosFlags(opt), text, strings.Join(texts, " ; "))
	// the same rules as a filter list (shuffled, with element hiding rules) through a real Engine
	lines := append([]string{"##.generic", "e.org##.specific"}, texts...)
	shuffle(r, lines)
	detail := ""
	ans := guardStr(func() string {
		s, err := filterlist.NewRuleStorage([]filterlist.RuleList{&filterlist.StringRuleList{ID: 1, RulesText: strings.Join(lines, "\n") + "\n"}})
		if err != nil {
			return "err"
		}
		e := urlfilter.NewEngine(s)
		got := e.MatchRequest(rules.NewRequest("http://e.org/", "", rules.TypeDocument)).GetCosmeticOption()
		res := e.GetCosmeticResult("e.org", got)
		flags := wbool(len(res.ElementHiding.Specific) > 0) + wbool(got&rules.CosmeticOptionJS == rules.CosmeticOptionJS) + wbool(len(res.ElementHiding.Generic) > 0)
		detail = fmt.Sprintf("engine %d:%s, NewMatchingResult on the list %d:%s", uint32(got), flags, uint32(opt), cosFlags(opt))

		return wbool(got == opt && flags == cosFlags(opt))
	})
	fmt.Fprintf(w, "assert cosopt.engine %s = %s ## list [%s] document request http://e.org/ : %s\n", wstrs(lines), ans, strings.Join(lines, " ; "), detail)
}

func genCosopt(r *rng, n int, w *bufio.Writer) {
	// emitSrc: the same rule is also among the rules matching the referrer (a same-site navigation)
	emitSrc := func(f *rules.NetworkRule, names []string, src []*rules.NetworkRule) {
		res := rules.NewMatchingResult([]*rules.NetworkRule{f}, src)
		opt := res.GetCosmeticOption()
		ws := make([]string, len(src))
		ts := make([]string, len(src))
		for i, x := range src {
			ws[i] = wnetrule(x)
			ts[i] = x.RuleText
		}
		fmt.Fprintf(w, "cosopt %s (%s) %s = %d:%s ## %s with referrer rules [%s]\n", wnetrule(f), strings.Join(names, " "), wlist(ws...),
			uint32(opt), cosFlags(opt), f.RuleText, strings.Join(ts, " ; "))
	}
	emit := func(f *rules.NetworkRule, names []string) {
		var res *rules.MatchingResult
		wr := "_"
		if f == nil {
			res = rules.NewMatchingResult(nil, nil)
		} else {
			res = rules.NewMatchingResult([]*rules.NetworkRule{f}, nil)
			wr = wnetrule(f)
		}
		opt := res.GetCosmeticOption()
		fmt.Fprintf(w, "cosopt %s (%s) = %d:%s ## %s\n", wr, strings.Join(names, " "), uint32(opt), cosFlags(opt),
			func() string {
				if f == nil {
					return "no basic rule"
				}

				return f.RuleText
			}())
	}
	// exhaustive part: every subset of the nine modifiers on an exception rule
	for mask := 0; mask < 1<<len(cosoptMods); mask++ {
		var names []string
		for i, m := range cosoptMods {
			if mask&(1<<i) != 0 {
				names = append(names, m)
			}
		}
		shuffle(r, names)
		text := "@@||e.org^"
		if len(names) > 0 {
			text += "$" + strings.Join(names, ",")
		}
		f, err := rules.NewNetworkRule(text, 1)
		if err != nil {
			panic(text + ": " + err.Error())
		}
		emit(f, names)
		// the referrer is covered by the same exception, by a $genericblock one, by a $urlblock one
		switch mask % 4 {
		case 0:
			emitSrc(f, names, []*rules.NetworkRule{f})
		case 1:
			emitSrc(f, names, []*rules.NetworkRule{mustRule("@@||e.org^$genericblock")})
		case 2:
			emitSrc(f, names, []*rules.NetworkRule{mustRule("@@||e.org^$urlblock"), f})
		default:
			emitSrc(f, names, []*rules.NetworkRule{f, mustRule("@@||e.org^$genericblock,urlblock")})
		}
	}
	// R2: the same 2^9 subsets written with STRAY COMMAS in the modifier list (leading, doubled, trailing: empty items, which
	// the parser drops; no backslash anywhere in the line): the rule must be accepted and mean the same
	for mask := 0; mask < 1<<len(cosoptMods); mask++ {
		names := cosoptNames(r, mask)
		text := "@@||e.org^$" + r2JoinStray(r, names)
		f, err := rules.NewNetworkRule(text, 1)
		if err != nil {
			fmt.Fprintf(w, "cosopt _ (%s) = err ## %s REJECTED: %v\n", strings.Join(names, " "), text, err)

			continue
		}
		emit(f, names)
	}
	// R2: the exception among OTHER matched rules, in match order: rules withdrawn by their `$badfilter` twin (every one of
	// them differs from the exception in a modifier the exception never has), `$badfilter` rules that negate nothing,
	// weaker (non-important blocking) rules -- in front of the exception, behind it, around it.  NewMatchingResult must
	// select the exception whatever the order; the same list goes through a real Engine (assert cosopt.engine).
	for mask := 0; mask < 1<<len(cosoptMods); mask++ {
		names := cosoptNames(r, mask)
		text := "@@||e.org^"
		if len(names) > 0 {
			text += "$" + strings.Join(names, ",")
			if r.chance(1, 4) {
				text = "@@||e.org^$" + r2JoinStray(r, names)
			}
		}
		cosoptList(r, w, text, names)
	}
	// non-exception and absent basic rules
	emit(nil, nil)
	for _, t := range []string{"||e.org^", "||e.org^$important", "||e.org^$script,third-party", "||e.org^$popup"} {
		f, err := rules.NewNetworkRule(t, 1)
		if err != nil {
			panic(err)
		}
		emit(f, nil)
	}
	_ = n
}

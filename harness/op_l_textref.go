package main

// Integration group L -- C04 at TEXT level.
//
//	l.textref <exception T|F> <pattern> (<mod>…) <text rendered by Go> <listID> <addrs> <prefixes> <Q> <psl>
//	          = T|<T|F|err>
//
// The harness generates STRUCTURED modifiers (the grammar of the property: any subset of modifiers,
// 1..6 values each, negations, any order), renders the rule text ITSELF (lRender, independent of the Lean
// `render`), parses it with the real rules.NewNetworkRule and answers Match on a request aimed at the
// values.  The Lean driver renders the same structure with its own `render` (first column: the two
// renderings are byte-identical), runs the parser + matcher MODELS on the text, and computes the reference
// `specMatchText` from the STRUCTURED modifiers only (theorem c04_text_ref).
//
// Wire form of one modifier:
//
//	(opt <word>) (tp <alt>) (fp <alt>) (nmc) (doc) (ct <neg> <word>)
//	(domain ((<neg> <value>)…)) (denyallow (<value>…)) (dnstype ((<neg> <name>)…))
//	(ctag ((<neg> <value>)…)) (client ((<neg> <value>)…))
//
// Wider grammar (group P2, lean/UF/Compose5/GrammarW.lean): a `$client` list with at least one QUOTED name is
//
//	(clientq ((<neg> <p|s|d> <value or NAME>)…))     p = bare, s = 'name', d = "name" (the name UNESCAPED)
//
// `~extension` is (next), and the pattern may begin with `/` (not a /regex/).

import (
	"bufio"
	"fmt"
	"strings"

	"github.com/AdguardTeam/urlfilter/rules"
)

func init() { gens["l.textref"] = genLTextRef }

type lVal struct {
	neg bool
	v   string
	// quote is 0 for a bare value, '\'' or '"' for a quoted client name (v is the name itself).
	quote byte
}

type lMod struct {
	kind string // opt tp fp nmc doc ct domain denyallow dnstype ctag client next
	word string // option / content-type constructor name
	text string // its spelling
	alt  bool
	neg  bool
	vals []lVal
}

// constructor name in Lean, spelling in a rule text
var lOpts = [][2]string{
	{"important", "important"}, {"badfilter", "badfilter"}, {"matchCase", "match-case"},
	{"elemhide", "elemhide"}, {"generichide", "generichide"}, {"genericblock", "genericblock"},
	{"jsinject", "jsinject"}, {"urlblock", "urlblock"}, {"content", "content"}, {"extension", "extension"},
	{"popup", "popup"}, {"stealth", "stealth"}, {"empty", "empty"}, {"mp4", "mp4"},
}

var lCTypes = []string{"script", "stylesheet", "subdocument", "object", "image", "xmlhttprequest", "media",
	"font", "websocket", "ping", "other"}

var (
	lPoolDomains = []string{"example.org", "site.com", "a.com", "b.a.com", "google.*", "example.*", "co.uk",
		"sub.example.org", "notexample.org", "xn--80ak6aa92e.com", "github.io", "blog.github.io", "e.com", "localhost"}
	lPoolTags    = []string{"device_pc", "device_phone", "device_", "os_linux", "user_admin", "user_child", "a", "b", "aa", "z9", "_", "0"}
	lPoolDNS     = []string{"A", "AAAA", "CNAME", "HTTPS", "TXT", "MX", "PTR", "SRV", "SVCB", "a", "aaaa", "Https", "NS", "SOA", "ANY", "mx"}
	lPoolClients = []string{"laptop", "phone", "tv", "ff", "x/y", "Frank", "pc2", "127.0.0.1", "10.0.0.5", "10.1.2.3",
		"192.168.1.7", "::1", "2001:db8::1", "::ffff:10.0.0.5", "1.2.3.999", "ab", "10.0.0.0/8", "192.168.1.0/24",
		"2001:db8::/32", "127.0.0.1/32", "0.0.0.0/0", "10.0.0.5/8", "10.0.0.0/33", "fe80::/10"}
	lPoolPatterns = []string{"||example.org^", "||site.com/ads", "|https://a.com/", "ads/banner", "example.org",
		"||e.com/*", "*banner^", "||b.a.com^ad|", "://google.com", "||google.com^", "||example.org/x/y.js?z=1", "ws", "a",
		"||sub.example.org^", "|http://", "Example.org/AD"}
)

func lRenderVal(v lVal) string {
	t := v.v
	if v.quote != 0 {
		q := string([]byte{v.quote})
		t = q + strings.ReplaceAll(v.v, q, "\\"+q) + q
	}
	if v.neg {
		return "~" + t
	}

	return t
}

func lHasQuoted(m lMod) bool {
	for _, v := range m.vals {
		if v.quote != 0 {
			return true
		}
	}

	return false
}

func lRenderMod(m lMod) string {
	join := func() string {
		ss := make([]string, len(m.vals))
		for i, v := range m.vals {
			ss[i] = lRenderVal(v)
		}

		return strings.Join(ss, "|")
	}
	switch m.kind {
	case "opt":
		return m.text
	case "tp":
		if m.alt {
			return "~first-party"
		}

		return "third-party"
	case "fp":
		if m.alt {
			return "first-party"
		}

		return "~third-party"
	case "nmc":
		return "~match-case"
	case "doc":
		return "document"
	case "next":
		return "~extension"
	case "ct":
		if m.neg {
			return "~" + m.text
		}

		return m.text
	default:
		return m.kind + "=" + join()
	}
}

func lRender(exc bool, pattern string, ms []lMod) string {
	t := pattern
	if exc {
		t = "@@" + t
	}
	if len(ms) > 0 {
		ss := make([]string, len(ms))
		for i, m := range ms {
			ss[i] = lRenderMod(m)
		}
		t += "$" + strings.Join(ss, ",")
	}

	return t
}

func lWireMod(m lMod) string {
	vals := func() string {
		items := make([]string, len(m.vals))
		for i, v := range m.vals {
			items[i] = wlist(wbool(v.neg), wb(v.v))
		}

		return wlist(items...)
	}
	switch m.kind {
	case "opt":
		return wlist("opt", m.word)
	case "tp", "fp":
		return wlist(m.kind, wbool(m.alt))
	case "nmc", "doc", "next":
		return wlist(m.kind)
	case "client":
		if !lHasQuoted(m) {
			return wlist(m.kind, vals())
		}
		items := make([]string, len(m.vals))
		for i, v := range m.vals {
			k := "p"
			switch v.quote {
			case '\'':
				k = "s"
			case '"':
				k = "d"
			}
			items[i] = wlist(wbool(v.neg), k, wb(v.v))
		}

		return wlist("clientq", wlist(items...))
	case "ct":
		return wlist("ct", wbool(m.neg), m.word)
	case "denyallow":
		items := make([]string, len(m.vals))
		for i, v := range m.vals {
			items[i] = wb(v.v)
		}

		return wlist("denyallow", wlist(items...))
	default:
		return wlist(m.kind, vals())
	}
}

func lGenVals(r *rng, pool []string, allowNeg bool) (out []lVal) {
	n := 1 + r.n(6)
	if r.chance(1, 2) {
		n = 1 + r.n(3)
	}
	negMode := r.n(4) // 0: none negated, 1: all, else mixed
	for i := 0; i < n; i++ {
		v := lVal{v: pick(r, pool)}
		if allowNeg {
			switch negMode {
			case 0:
			case 1:
				v.neg = true
			default:
				v.neg = r.chance(1, 2)
			}
		}
		out = append(out, v)
	}

	return out
}

func lGenMods(r *rng, exc bool) (ms []lMod) {
	if r.chance(1, 12) {
		return nil
	}
	add := func(m lMod) { ms = append(ms, m) }
	// value-carrying modifiers: each at most once
	if r.chance(1, 2) {
		add(lMod{kind: "domain", vals: lGenVals(r, lPoolDomains, true)})
	}
	if r.chance(1, 5) {
		add(lMod{kind: "denyallow", vals: lGenVals(r, lPoolDomains[:4], false)})
	}
	if r.chance(1, 4) {
		add(lMod{kind: "dnstype", vals: lGenVals(r, lPoolDNS, true)})
	}
	if r.chance(1, 3) {
		add(lMod{kind: "ctag", vals: lGenVals(r, lPoolTags, true)})
	}
	if r.chance(1, 3) {
		add(lMod{kind: "client", vals: lGenVals(r, lPoolClients, true)})
	}
	// party
	switch r.n(8) {
	case 0, 1:
		add(lMod{kind: "tp", alt: r.chance(1, 2)})
	case 2:
		add(lMod{kind: "fp", alt: r.chance(1, 2)})
	case 3:
		if r.chance(1, 3) {
			add(lMod{kind: "tp", alt: r.chance(1, 2)})
			add(lMod{kind: "fp", alt: r.chance(1, 2)})
		}
	}
	// content types
	if r.chance(1, 2) {
		k := 1 + r.n(3)
		negAll := r.chance(1, 3)
		for i := 0; i < k; i++ {
			c := pick(r, lCTypes)
			add(lMod{kind: "ct", word: c, text: c, neg: negAll || r.chance(1, 5)})
		}
	}
	// options
	if r.chance(1, 3) {
		o := lOpts[r.n(3)]
		add(lMod{kind: "opt", word: o[0], text: o[1]})
	}
	if r.chance(1, 4) {
		if exc {
			o := lOpts[3+r.n(7)] // elemhide … extension (exception-only)
			add(lMod{kind: "opt", word: o[0], text: o[1]})
		} else {
			o := lOpts[10+r.n(4)] // popup stealth(err) empty mp4
			add(lMod{kind: "opt", word: o[0], text: o[1]})
		}
	}
	if exc && r.chance(1, 8) {
		add(lMod{kind: "doc"})
	}
	if r.chance(1, 10) {
		add(lMod{kind: "nmc"})
	}
	shuffle(r, ms)

	return ms
}

// names written in quotes: blanks, apostrophes, the other quote character, `~`, and names that also occur bare
var lPoolQNames = []string{"Kids-PC", "Frank's phone", "Mary's laptop", `say "hi"`, "~tilde", "x y", "laptop", "tv",
	"'", `"`, `a'b"c`, "10.0.0.5", "x=y", "Frank", "pc2", "''", "2001:db8::1"}

// patterns beginning with `/` that are not /regex/ rules (the last one IS one when modifiers follow)
var lPoolSlashPatterns = []string{"/banner.gif", "/ads/banner", "/x.js?y=1", "/example", "/ad/*", "/banner^", "/ws", "/banner/"}

// lGenModsW widens lGenMods (which l.c07text shares and must keep as it is): some `$client` values become quoted
// names, and `~extension` is sometimes added.
func lGenModsW(r *rng, exc bool) (ms []lMod) {
	ms = lGenMods(r, exc)
	for i := range ms {
		if ms[i].kind != "client" || r.chance(1, 2) {
			continue
		}
		for j := range ms[i].vals {
			if r.chance(1, 2) {
				continue
			}
			v := &ms[i].vals[j]
			v.quote = '\''
			if r.chance(1, 2) {
				v.quote = '"'
			}
			if r.chance(2, 3) {
				v.v = pick(r, lPoolQNames)
			}
			if strings.ContainsAny(v.v, ",|\\$") || v.v == "" {
				v.v = "tv"
			}
		}
	}
	if len(ms) > 0 && r.chance(1, 12) {
		ms = append(ms, lMod{kind: "next"})
		if r.chance(1, 3) {
			ms = append(ms, lMod{kind: "opt", word: "extension", text: "extension"})
		}
		shuffle(r, ms)
	}

	return ms
}

func genLTextRef(r *rng, n int, w *bufio.Writer) {
	r = eReseed(r)
	for i := 0; i < n; i++ {
		exc := r.chance(1, 3)
		pat := pick(r, lPoolPatterns)
		if r.chance(1, 3) {
			pat = genPattern(r)
		}
		if r.chance(1, 8) {
			pat = pick(r, lPoolSlashPatterns)
		}
		// keep to the pattern domain of the reference (mask patterns, no `$`, no backslash, not `@…`; `/…` only when
		// it is not a /regex/)
		if pat == "" || pat[0] == '@' || strings.ContainsAny(pat, "$\\") ||
			(pat[0] == '/' && pat != "/banner/" && strings.HasSuffix(pat, "/")) {
			pat = "||example.org^"
		}
		var ms []lMod
		var f *rules.NetworkRule
		var err error
		var text string
		for k := 0; ; k++ {
			ms = lGenModsW(r, exc)
			text = lRender(exc, pat, ms)
			f, err = guardRule(text, 1)
			if err == nil || r.chance(1, 15) || k > 30 {
				break
			}
		}
		var q *rules.Request
		ans := "err"
		if f != nil && err == nil {
			q = eAimedRequest(r, f, text)
			if r.chance(1, 2) {
				for k := 0; k < 12 && guardStr(func() string { return wbool(f.Match(q)) }) != "T"; k++ {
					q = eAimedRequest(r, f, text)
				}
			}
			ans = guardStr(func() string { return wbool(f.Match(q)) })
		} else {
			q = genRequest(r, []string{text})
		}
		var clientVals []string
		for _, m := range ms {
			if m.kind == "client" {
				for _, v := range m.vals {
					clientVals = append(clientVals, v.v)
				}
			}
		}
		addrs := append(clientVals, q.Hostname)
		wm := make([]string, len(ms))
		for j, m := range ms {
			wm[j] = lWireMod(m)
		}
		fmt.Fprintf(w, "l.textref %s %s %s %s 1 %s %s %s %s = T|%s ## %s | %s src=%s host=%s hostreq=%v type=%d dns=%d tags=%q client=%q/%s 3p=%v\n",
			wbool(exc), wb(pat), wlist(wm...), wb(text), waddrs(addrs...), wprefixes(addrs...), wrequest(q),
			wpsl(q.Hostname, q.SourceHostname), ans,
			noteStr(text), noteStr(q.URL), noteStr(q.SourceHostname), noteStr(q.Hostname), q.IsHostnameRequest, q.RequestType,
			q.DNSType, q.SortedClientTags, q.ClientName, q.ClientIP, q.ThirdParty)
	}
}

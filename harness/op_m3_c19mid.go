package main

// op family `c19fault.midline` (C19, group M3): the list becomes unreadable IN THE MIDDLE of the retrieval of one
// rule -- between two of the buffer-sized reads of a line of a few MiB.
//
//	assert c19fault.midline <engine> <shape> <line bytes> <eol> <before> <after> <chunks> = T|F
//
// One op is one scenario: a FILE-backed list (real temp file) with a few short rules and one LONG rule line (a
// `$domain` / `$denyallow` / `$client` list or a hosts line with thousands of names; the last entry is the one
// the "victim" request depends on), a network engine (MatchAll) or a DNS engine (MatchRequest) built over it,
// and a watcher goroutine that only OBSERVES the file offset of FileRuleList.File (lseek(fd, 0, SEEK_CUR)) and
// calls storage.Close() as soon as the retrieval of the long line has consumed at least <chunks> read buffers
// (and is not yet in the last half of the line).  The attempt is repeated until it is conclusive (the storage was
// closed during the retrieval and the complete rule did not make it into the cache); inconclusive attempts count
// as pass and are reported in the note.
//
// Checked for the query in flight, for the queries after the fault (twice: the storage cache) and for
// RetrieveRule of every index after the fault:
//   - no panic;
//   - every rule RETURNED is genuine: its text is the text of a rule of the list (as scanned from an in-memory
//     list of the same content), and RetrieveRule(idx) returns the rule scanned at idx or nothing;
//   - every rule returned is returned by the fault-free engine (same content, StringRuleList) for that request.
//
// On a correct tree the interrupted retrieval fails ("file already closed"), the rule is absent, the answers are
// subsets.  The family is serial (prefix c19fault): it depends on goroutine timing.

import (
	"bufio"
	"fmt"
	"io"
	"os"
	"path/filepath"
	"sort"
	"strings"
	"sync/atomic"
	"time"

	"github.com/AdguardTeam/urlfilter"
	"github.com/AdguardTeam/urlfilter/filterlist"
	"github.com/AdguardTeam/urlfilter/rules"
)

func init() { gens["c19fault.midline"] = m3GenMidline }

// m3MidQuery is one request of a scenario (web request or DNS request).
type m3MidQuery struct {
	name string
	web  func() *rules.Request
	dns  *urlfilter.DNSRequest
}

type m3MidScenario struct {
	engine  string // "net" | "dns"
	shape   string
	content string
	longOff int // byte offset of the long line in the content
	longLen int // its length (without the line end)
	queries []m3MidQuery
}

// m3LongLine builds the long line of the given shape with about n bytes.  The entries have a fixed width, so that a
// cut at a multiple of the read buffer size leaves a well-formed (shorter) rule in most cases.
func m3LongLine(r *rng, shape string, n int) string {
	var sb strings.Builder
	sb.Grow(n + 64)
	w := pick(r, []int{5, 6, 7, 8, 9, 11})
	label := strings.Repeat("abcdefghijk", 2)[:w]
	switch shape {
	case "domain-excl":
		// applies everywhere except on the listed sites; the LAST exclusion is the victim's
		sb.WriteString("||ads.example^$domain=")
		for i := 0; sb.Len() < n; i++ {
			fmt.Fprintf(&sb, "~h%04d.%s|", i%10000, label)
		}
		sb.WriteString("~victim.com")
	case "domain-perm":
		// applies only on the listed sites; the victim's is the LAST one
		sb.WriteString("||ads.example^$script,domain=")
		for i := 0; sb.Len() < n; i++ {
			fmt.Fprintf(&sb, "s%04d.%s|", i%10000, label)
		}
		sb.WriteString("victim.com")
	case "denyallow":
		sb.WriteString("||ads.example^$denyallow=")
		for i := 0; sb.Len() < n; i++ {
			fmt.Fprintf(&sb, "h%04d.%s|", i%10000, label)
		}
		sb.WriteString("victim.ads.example")
	case "client-excl":
		sb.WriteString("||ads.example^$client=")
		for i := 0; sb.Len() < n; i++ {
			fmt.Fprintf(&sb, "~c%04d-%s|", i%10000, label)
		}
		sb.WriteString("~victim-pc")
	case "hosts":
		sb.WriteString("0.0.0.0 first.hosts.example")
		for i := 0; sb.Len() < n; i++ {
			fmt.Fprintf(&sb, " h%04d.%s", i%10000, label)
		}
		sb.WriteString(" victim.hosts.example")
	default:
		panic("m3LongLine: " + shape)
	}

	return sb.String()
}

func m3MidBuild(r *rng, engine, shape string, n int, eol string, before, after int) *m3MidScenario {
	sc := &m3MidScenario{engine: engine, shape: shape}
	shortNet := []string{"||static.example^", "||ads.example^$third-party", "@@||cdn.example^$script", "||ads.example/banner.js", "! comment",
		"example.org##.banner", "||ads.example^$image"}
	shortDNS := []string{"||static.example^", "||ads.example^$dnstype=A", "0.0.0.0 other.hosts.example", "@@||cdn.example^", "# comment",
		"1.2.3.4 first.hosts.example", "||victim.ads.example^$dnstype=AAAA", "||ads.example^$important,dnstype=TXT"}
	pool := shortNet
	if engine == "dns" {
		pool = shortDNS
	}
	var lines []string
	for i := 0; i < before; i++ {
		lines = append(lines, pick(r, pool))
	}
	long := m3LongLine(r, shape, n)
	sc.longLen = len(long)
	for _, l := range lines {
		sc.longOff += len(l) + len(eol)
	}
	lines = append(lines, long)
	for i := 0; i < after; i++ {
		lines = append(lines, pick(r, pool))
	}
	sc.content = strings.Join(lines, eol)
	if after > 0 || r.chance(2, 3) {
		sc.content += eol
	}

	web := func(url, src string) func() *rules.Request {
		return func() *rules.Request { return rules.NewRequest(url, src, rules.TypeScript) }
	}
	switch shape {
	case "domain-excl", "domain-perm":
		sc.queries = []m3MidQuery{
			{name: "script on ads.example from victim.com", web: web("https://ads.example/banner.js", "https://victim.com/")},
			{name: "script on ads.example from other.com", web: web("https://ads.example/banner.js", "https://other.com/")},
			{name: "script on ads.example from s0000", web: web("https://ads.example/x.js", "https://s0000."+strings.Repeat("abcdefghijk", 2)[:5]+"/")},
		}
	case "denyallow":
		sc.queries = []m3MidQuery{
			{name: "victim.ads.example", dns: &urlfilter.DNSRequest{Hostname: "victim.ads.example", DNSType: 1}},
			{name: "other.ads.example", dns: &urlfilter.DNSRequest{Hostname: "other.ads.example", DNSType: 1}},
		}
	case "client-excl":
		sc.queries = []m3MidQuery{
			{name: "ads.example asked by victim-pc", dns: &urlfilter.DNSRequest{Hostname: "ads.example", DNSType: 1, ClientName: "victim-pc"}},
			{name: "ads.example asked by other-pc", dns: &urlfilter.DNSRequest{Hostname: "ads.example", DNSType: 1, ClientName: "other-pc"}},
		}
	case "hosts":
		sc.queries = []m3MidQuery{
			{name: "victim.hosts.example", dns: &urlfilter.DNSRequest{Hostname: "victim.hosts.example", DNSType: 1}},
			{name: "first.hosts.example", dns: &urlfilter.DNSRequest{Hostname: "first.hosts.example", DNSType: 1}},
		}
	}
	if r.chance(1, 2) {
		// the request that does NOT depend on the tail first / last
		sc.queries[0], sc.queries[1] = sc.queries[1], sc.queries[0]
	}

	return sc
}

// m3MidAsk runs one query on the engine and returns the texts of all rules the answer contains (sorted).
func m3MidAsk(ne *urlfilter.NetworkEngine, de *urlfilter.DNSEngine, q m3MidQuery) (out []string, panicked bool) {
	defer func() {
		if v := recover(); v != nil {
			panicked = true
		}
	}()
	if ne != nil {
		for _, f := range ne.MatchAll(q.web()) {
			out = append(out, f.Text())
		}
		if f, ok := ne.Match(q.web()); ok && f != nil {
			out = append(out, f.Text())
		}
	} else {
		d := *q.dns
		res, _ := de.MatchRequest(&d)
		if res != nil {
			for _, f := range res.NetworkRules {
				out = append(out, f.Text())
			}
			if res.NetworkRule != nil {
				out = append(out, res.NetworkRule.Text())
			}
			for _, h := range res.HostRulesV4 {
				out = append(out, h.Text())
			}
			for _, h := range res.HostRulesV6 {
				out = append(out, h.Text())
			}
		}
	}
	sort.Strings(out)

	return out, false
}

func m3Abbrev(s string) string {
	if len(s) <= 120 {
		return fmt.Sprintf("%q", s)
	}

	return fmt.Sprintf("%q…%q (%d bytes)", s[:60], s[len(s)-40:], len(s))
}

func m3GenMidline(r *rng, n int, w *bufio.Writer) {
	fSilenceLogs()
	dir, err := os.MkdirTemp("", "verif-m3mid-")
	if err != nil {
		panic(err)
	}
	defer func() { _ = os.RemoveAll(dir) }()
	bufSize := filterlist.VerifReaderBufferSize

	netShapes := []string{"domain-excl", "domain-excl", "domain-perm"}
	dnsShapes := []string{"denyallow", "denyallow", "client-excl", "hosts"}
	for it := 0; it < n; it++ {
		engine := "net"
		shape := pick(r, netShapes)
		if it%2 == 1 {
			engine = "dns"
			shape = pick(r, dnsShapes)
		}
		size := pick(r, []int{1 << 20, 3 << 19, 2 << 20, 3 << 20})
		size += r.n(4096)
		eol := pick(r, []string{"\n", "\n", "\r\n"})
		before, after := r.n(4), r.n(3)
		chunks := pick(r, []int{1, 2, 2, 3, 5, 17, 64})
		sc := m3MidBuild(r, engine, shape, size, eol, before, after)

		path := filepath.Join(dir, fmt.Sprintf("list%d.txt", it))
		if werr := os.WriteFile(path, []byte(sc.content), 0o600); werr != nil {
			panic(werr)
		}

		// the fault-free reference: the same content in a list that cannot fail
		ms, merr := filterlist.NewRuleStorage([]filterlist.RuleList{&filterlist.StringRuleList{ID: 1, RulesText: sc.content}})
		if merr != nil {
			panic(merr)
		}
		genuine := map[string]bool{}
		byIdx := map[int64]string{}
		var idxs []int64
		var scanned []rules.Rule
		scan := ms.NewRuleStorageScanner()
		for scan.Scan() {
			f, idx := scan.Rule()
			scanned = append(scanned, f)
			genuine[f.Text()] = true
			byIdx[idx] = f.Text()
			idxs = append(idxs, idx)
		}
		var refNE *urlfilter.NetworkEngine
		var refDE *urlfilter.DNSEngine
		if engine == "net" {
			refNE = urlfilter.NewNetworkEngine(ms)
		} else {
			refDE = urlfilter.NewDNSEngine(ms)
		}
		ref := make([]map[string]bool, len(sc.queries))
		var sanity []string
		for i, q := range sc.queries {
			ts, _ := m3MidAsk(refNE, refDE, q)
			ref[i] = fSetOf(ts)
			if q.dns != nil {
				// an unreadable deciding network rule lets MatchRequest fall through to the hosts table: the host
				// part of a degraded DNS answer is compared with what the list holds for the name
				for _, f := range scanned {
					if hr, ok := f.(*rules.HostRule); ok && hr.Match(q.dns.Hostname) {
						ref[i][hr.Text()] = true
					}
				}
			}
			long := false
			for _, t := range ts {
				long = long || len(t) > bufSize
			}
			sanity = append(sanity, fmt.Sprintf("%s: %d rules, long rule %v", q.name, len(ref[i]), long))
		}

		problem := ""
		check := func(when string, qi int, ts []string, panicked bool) {
			if problem != "" {
				return
			}
			if panicked {
				problem = fmt.Sprintf("%s: query %q panicked", when, sc.queries[qi].name)

				return
			}
			for _, t := range ts {
				switch {
				case !genuine[t]:
					problem = fmt.Sprintf("%s: query %q returned a rule that is not a rule of the list: %s", when, sc.queries[qi].name, m3Abbrev(t))
				case !ref[qi][t]:
					problem = fmt.Sprintf("%s: query %q returned %s, which the fault-free engine does not return for it", when, sc.queries[qi].name, m3Abbrev(t))
				}
			}
		}

		const maxAttempts = 6
		conclusive, attempts := 0, 0
		var closedOffsets []int64
		for attempts < maxAttempts && conclusive < 1 && problem == "" {
			attempts++
			list, ferr := filterlist.NewFileRuleList(1, path, false)
			if ferr != nil {
				panic(ferr)
			}
			storage, serr := filterlist.NewRuleStorage([]filterlist.RuleList{list})
			if serr != nil {
				panic(serr)
			}
			var ne *urlfilter.NetworkEngine
			var de *urlfilter.DNSEngine
			if engine == "net" {
				ne = urlfilter.NewNetworkEngine(storage)
			} else {
				de = urlfilter.NewDNSEngine(storage)
			}

			// the fault: close the storage once at least `chunks` buffers of the long line have been consumed and at
			// least half of the line is still to be read.  The offset is only observed.
			lo := int64(sc.longOff + chunks*bufSize)
			hi := int64(sc.longOff + sc.longLen/2)
			var closedAt atomic.Int64
			stop := make(chan struct{})
			done := make(chan struct{})
			go func() {
				defer close(done)
				for {
					select {
					case <-stop:
						return
					default:
					}
					off, sErr := list.File.Seek(0, io.SeekCurrent)
					if sErr != nil {
						return
					}
					if off >= lo && off < hi {
						_ = storage.Close()
						closedAt.Store(off)

						return
					}
				}
			}()
			time.Sleep(2 * time.Millisecond) // let the watcher start spinning

			// the queries in flight: the first one that needs the long rule is the one interrupted
			for qi, q := range sc.queries {
				ts, p := m3MidAsk(ne, de, q)
				check("while the list was being closed", qi, ts, p)
			}
			close(stop)
			<-done
			at := closedAt.Load()
			_ = storage.Close()

			// after the fault: the same queries twice more (the storage cache), and every index
			for round := 0; round < 2; round++ {
				for qi, q := range sc.queries {
					ts, p := m3MidAsk(ne, de, q)
					check("after the fault", qi, ts, p)
				}
			}
			fullCached := false
			for _, idx := range idxs {
				func() {
					defer func() {
						if v := recover(); v != nil && problem == "" {
							problem = fmt.Sprintf("RetrieveRule(%d) after the fault panicked", idx)
						}
					}()
					f, _ := storage.RetrieveRule(idx)
					if isNilRule(f) {
						return
					}
					if f.Text() != byIdx[idx] && problem == "" {
						problem = fmt.Sprintf("after the fault RetrieveRule(%d) returns %s, the rule scanned at this index is %s", idx, m3Abbrev(f.Text()), m3Abbrev(byIdx[idx]))
					}
					if len(f.Text()) > bufSize && f.Text() == byIdx[idx] {
						fullCached = true
					}
				}()
			}
			if at != 0 && !fullCached {
				conclusive++
				closedOffsets = append(closedOffsets, at-int64(sc.longOff))
			}
		}

		note := fmt.Sprintf("%s engine over a file list with a %d-byte %s line at offset %d (%d short lines before, %d after, eol %q); "+
			"storage closed by a watcher once >= %d read buffers of that line were consumed; attempts=%d conclusive=%d (closed at line offsets %v); "+
			"fault-free reference: %s",
			engine, sc.longLen, shape, sc.longOff, before, after, eol, chunks, attempts, conclusive, closedOffsets, strings.Join(sanity, "; "))
		if conclusive == 0 && problem == "" {
			note += "; INCONCLUSIVE: the storage could not be closed in the middle of the retrieval (counted as pass)"
		}
		if problem != "" {
			note += "; PROBLEM: " + problem
		}
		fmt.Fprintf(w, "assert c19fault.midline %s %s %d %s %d %d %d = %s ## %s\n", engine, shape, sc.longLen, wb(eol), before, after, chunks,
			wbool(problem == ""), note)
	}
}

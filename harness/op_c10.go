package main

// Op family `c10` (C10): parsed $dnsrewrite values.
//
//   c10.dnsrw <value bytes> <addr oracle table> = err|PANIC|<rewrite wire>
//       Go side: rules.VerifLoadDNSRewrite(v) (= loadDNSRewrite) for arbitrary bytes and, whenever
//       v can be written as an option value (no ',' '$' '\\'), also
//       rules.NewNetworkRule("||h^$dnsrewrite="+v, 1).DNSRewrite -- both must agree (for every such v,
//       non-ASCII included), otherwise the answer is NETRULE-MISMATCH.
//   c10.shape <rewrite wire> = T
//       emitted for every value the implementation ACCEPTED: the Lean driver evaluates the
//       published shape predicate on the implementation's own result.
//
// Values come from a grammar around every keyword, record type, field count and numeric bound,
// plus a byte-mutation stream.

import (
	"bufio"
	"fmt"
	"sort"
	"strings"

	"github.com/AdguardTeam/urlfilter/rules"
	"github.com/miekg/dns"
)

func init() { gens["c10"] = genC10 }

var (
	c10Nums = []string{"0", "1", "10", "65535", "65536", "65537", "99999", "4294967296", "18446744073709551616",
		"+1", "-1", "", "007", "00065535", "000065536", "1_0", "0x10", "1e3", " 1", "1.0", "\xef\xbc\x91", "٣",
		// N2: around the 8 / 12 / 15-bit bounds a narrower integer type would impose
		"255", "256", "300", "1024", "4095", "4096", "32767", "32768", "65534"}
	c10Hosts = []string{"example.net", "a", "a.b.c", "mail.example.net", "new-cname.example.org", "xn--e1afmkfd.xn--p1ai",
		"1host.2", "UPPER.Case", "h-", "-h", "a..b", ".a", "a.", ".", "", "a_b.c", "a b", "ex\xc3\xa4mple.org", "a.\xff",
		strings.Repeat("a", 63), strings.Repeat("a", 64), strings.Repeat("a.", 31) + "a", strings.Repeat("a.", 31) + "ab",
		"a-.b", "a.-b", "a--b.c", "a.b-", "host.example.net."}
	c10IPs = []string{"1.2.3.4", "0.0.0.0", "255.255.255.255", "127.0.0.1", "::1", "::", "2001:db8::1", "::ffff:1.2.3.4",
		"::ffff:102:304", "[::1]", "1.2.3", "1.2.3.999", "1.2.3.4.5", "01.2.3.4", "fe80::1%eth0", "abcd", "fe", "1:2:3:4:5:6:7:8",
		"1:2:3:4:5:6:7:8:9", "AB::CD", "..", "::ffff:0:0", "1.2.3.4 ", "::g"}
	c10Rcodes = []string{"NOERROR", "noerror", "NoError", "SERVFAIL", "NXDOMAIN", "REFUSED", "refused", "FORMERR", "NOTIMP",
		"NOTIMPL", "BADCOOKIE", "BADSIG", "BADVERS", "YXDOMAIN", "", "0", "XX", "NOERROR ", "NOERR\xc5\xbfR"}
	c10Keywords = []string{"NOERROR", "SERVFAIL", "NXDOMAIN", "REFUSED", "FORMERR", "NOTIMP", "A", "AAAA", "ABC", "Z", "NOERRORX",
		"noerror", "Refused", "NXDOMAIN1", "SERV-FAIL", "OK"}
	c10Params = []string{"alpn=h3", "alpn=h2", "port=443", "ech=AAAA", "k=", "=v", "=", "k", "k=v=w", "alpn=h3=", "", "ipv4hint=1.2.3.4",
		"no-default-alpn=", "k\xff=v", "a=1", "a=2", "b=1"}
)

var c10Types []string

func c10TypeNames() []string {
	if c10Types == nil {
		for k := range dns.StringToType {
			c10Types = append(c10Types, k)
		}
		sort.Strings(c10Types)
	}

	return c10Types
}

var c10HandlerTypes = []string{"A", "AAAA", "CNAME", "MX", "PTR", "TXT", "HTTPS", "SVCB", "SRV"}

func c10Type(r *rng) string {
	var t string
	switch r.n(10) {
	case 0, 1:
		t = pick(r, c10TypeNames())
	case 2:
		t = pick(r, []string{"none", "NONE", "None", "reserved", "Reserved", "RESERVED", "", "XYZ", "TYPE1", "A ", " A", "a", "Aaaa",
			"re\xc5\xbferved", "NS", "ns", "SOA", "ANY", "OPT", "NSAP-PTR", "nsap-ptr"})
	default:
		t = pick(r, c10HandlerTypes)
	}
	if r.chance(1, 4) {
		t = mutateCase(r, t)
	}

	return t
}

func c10Host(r *rng) string {
	if r.chance(1, 6) {
		// random host around the length bound
		n := 60 + r.n(6)
		var sb strings.Builder
		for sb.Len() < n {
			l := 1 + r.n(12)
			for i := 0; i < l && sb.Len() < n; i++ {
				sb.WriteByte("abcdefghijklmnopqrstuvwxyzABCXYZ0123456789-"[r.n(43)])
			}
			if sb.Len() < n-1 && r.chance(3, 4) {
				sb.WriteByte('.')
			}
		}

		return sb.String()
	}

	if r.chance(1, 2) {
		return c10Hosts[r.n(8)] // the valid ones
	}

	return pick(r, c10Hosts)
}

func c10Target(r *rng) string {
	if r.chance(1, 5) {
		return "."
	}

	return c10Host(r)
}

func c10ValueFor(r *rng, t string) string {
	sp := func() string {
		if r.chance(1, 12) {
			return pick(r, []string{"  ", "\t", ""})
		}

		return " "
	}
	switch strings.ToUpper(t) {
	case "A", "AAAA":
		if r.chance(1, 8) {
			return c10Host(r)
		}

		return pick(r, c10IPs)
	case "CNAME":
		return c10Host(r)
	case "PTR":
		h := c10Host(r)
		if r.chance(1, 2) {
			h += "."
		}
		if r.chance(1, 10) {
			h += "."
		}

		return h
	case "MX":
		switch r.n(8) {
		case 0:
			return pick(r, c10Nums)
		case 1:
			return pick(r, c10Nums) + sp() + c10Host(r) + sp() + "x"
		case 2, 3, 4:
			return pick(r, []string{"0", "10", "65535", "007"}) + sp() + c10Host(r)
		default:
			return pick(r, c10Nums) + sp() + c10Host(r)
		}
	case "SRV":
		n := pick(r, []int{4, 4, 4, 4, 3, 5, 2, 1, 6})
		if r.chance(1, 30) {
			n = n2Above(r, 7, 80) // many surplus fields
		}
		fs := make([]string, n)
		for i := range fs {
			switch {
			case i < 3:
				fs[i] = pick(r, c10Nums)
				if r.chance(2, 3) {
					fs[i] = c10GoodNum(r, []string{"0", "1", "80", "443", "65535"})
				}
			case i == 3:
				fs[i] = c10Target(r)
			default:
				fs[i] = pick(r, []string{"x", "", "1"})
			}
		}

		return strings.Join(fs, " ")
	case "HTTPS", "SVCB":
		n := pick(r, []int{2, 2, 3, 3, 4, 5, 1, 6})
		if r.chance(1, 12) {
			n = 2 + n2Above(r, 4, 80) // many parameters (distinct keys below)
		}
		fs := make([]string, n)
		for i := range fs {
			switch i {
			case 0:
				fs[i] = pick(r, c10Nums)
				if r.chance(2, 3) {
					fs[i] = c10GoodNum(r, []string{"0", "1", "32", "65535"})
				}
			case 1:
				fs[i] = c10Target(r)
			default:
				fs[i] = pick(r, c10Params)
				if r.chance(2, 3) {
					fs[i] = pick(r, []string{"alpn=h3", "alpn=h2", "port=443", "a=1", "a=2", "b=1", "zz=", "=v"})
				}
				if n > 6 && r.chance(3, 4) {
					fs[i] = fmt.Sprintf("key%d=%d", 65000+i, r.n(1000))
				}
			}
		}

		return strings.Join(fs, " ")
	case "TXT":
		if r.chance(1, 10) {
			// a long text (TXT values have no length bound in the rule syntax): just above 255 / 256 / 300 / 1024 / 4096 bytes; in
			// the c10 family itself (linear model of loadDNSRewrite) also above 8192 / 16384 / 65535 bytes, but rarely
			max := c10TxtMax
			if max > 4200 && !r.chance(1, 8) {
				max = 4200
			}

			return c10LongText(r, n2Above(r, 64, max))
		}

		return pick(r, []string{"hello", "", "hello world", "v=spf1 -all", "a;b;c", "\x00\xff", "."})
	default:
		return pick(r, []string{"", "x", "1.2.3.4", "example.net", "a b"})
	}
}

// c10GoodNum: a number every 16-bit field accepts: the family's own few values or one of the N2 pool (0 … 65535, with
// values above 255, 4095 and 32767).
func c10GoodNum(r *rng, own []string) string {
	if r.chance(1, 2) {
		return pick(r, own)
	}

	return n2U16(r)
}

// c10TxtMax bounds the long TXT values: 4200 bytes for every family that embeds c10Value into a rule LINE (the full
// models of NewRule are not linear in the line length); genC10 raises it for its own ops.
var c10TxtMax = 4200

func c10LongText(r *rng, n int) string {
	var sb strings.Builder
	words := []string{"v=spf1", "include:_spf.example.net", "-all", "k=rsa", "p=MIGfMA0GCSqGSIb3DQEBAQUAA4GNADCBiQKBgQC", "hello", "a;b", "="}
	for sb.Len() < n {
		sb.WriteString(pick(r, words))
		sb.WriteByte(' ')
	}

	return sb.String()[:n]
}

func c10Value(r *rng) string {
	switch r.n(20) {
	case 0:
		return ""
	case 1:
		return pick(r, c10Keywords)
	case 2, 3:
		return pick(r, c10IPs)
	case 4, 5:
		return c10Host(r)
	case 6:
		return pick(r, []string{"a;b", ";", "NOERROR;", ";A", "NOERROR;A"})
	case 7:
		// rcode-only and empty forms
		return pick(r, c10Rcodes) + ";" + pick(r, []string{"", "", "A", "TXT"}) + ";" + pick(r, []string{"", "", "x"})
	case 8:
		// non-success rcode with a full record
		t := c10Type(r)

		return pick(r, c10Rcodes) + ";" + t + ";" + c10ValueFor(r, t)
	default:
		t := c10Type(r)
		v := c10ValueFor(r, t)
		if r.chance(1, 15) {
			// value of another type
			v = c10ValueFor(r, pick(r, c10HandlerTypes))
		}
		rc := "NOERROR"
		if r.chance(1, 8) {
			rc = pick(r, c10Rcodes)
		}

		return rc + ";" + t + ";" + v
	}
}

func mutateBytes(r *rng, s string) string {
	b := []byte(s)
	k := 1 + r.n(3)
	special := []byte{';', ' ', '.', '=', '-', 0, 0x80, 0xff, 0xc5, 0xbf, 'A', 'z', '0', '9', ':', '\t', '+', '_'}
	for ; k > 0; k-- {
		switch r.n(4) {
		case 0:
			if len(b) > 0 {
				b[r.n(len(b))] = pick(r, special)
			}
		case 1:
			i := r.n(len(b) + 1)
			b = append(b[:i], append([]byte{pick(r, special)}, b[i:]...)...)
		case 2:
			if len(b) > 0 {
				i := r.n(len(b))
				b = append(b[:i], b[i+1:]...)
			}
		default:
			if len(b) > 0 {
				b[r.n(len(b))] = byte(r.n(256))
			}
		}
	}

	return string(b)
}

// tok turns a wire value into a single blank-free answer token.
func tok(s string) string { return strings.ReplaceAll(s, " ", ",") }

func isASCII(s string) bool {
	for i := 0; i < len(s); i++ {
		if s[i] >= 0x80 {
			return false
		}
	}

	return true
}

// c10Go returns the implementation's answer for v, the rewrite loadDNSRewrite
// returned and the rewrite NewNetworkRule stored (nil if none / not applicable).
func c10Go(v string) (ans string, rw, viaRule *rules.DNSRewrite) {
	ans = guardStr(func() string {
		var err error
		rw, err = rules.VerifLoadDNSRewrite(v)
		if err != nil {
			rw = nil

			return "err"
		}
		if rw == nil {
			return "NIL-WITHOUT-ERROR"
		}

		return tok(wrewrite(rw))
	})
	if ans == "PANIC" || strings.ContainsAny(v, ",$\\") {
		return ans, rw, nil
	}
	// the value on its own and between other modifiers (an error of one modifier must not be lost
	// because a later modifier is fine): every form must give the answer of loadDNSRewrite
	for _, tmpl := range []string{"||h^$dnsrewrite=%s", "||h^$dnsrewrite=%s,important", "||h^$important,dnsrewrite=%s",
		"||h^$dnsrewrite=%s,dnstype=A", "||h^$dnstype=~A,dnsrewrite=%s,ctag=a"} {
		text := fmt.Sprintf(tmpl, v)
		var got *rules.DNSRewrite
		via := guardStr(func() string {
			f, err := rules.NewNetworkRule(text, 1)
			if err != nil {
				return "err"
			}
			got = f.DNSRewrite

			return tok(wrewrite(f.DNSRewrite))
		})
		if viaRule == nil {
			viaRule = got
		}
		// (The option splitter used to drop UTF-8 continuation bytes -- D13, repaired in /repo by
		// 2392f6b -- so the value loadDNSRewrite sees equals v for every v without ',' '$' '\\'.)
		if via != ans {
			return "NETRULE-MISMATCH:" + text + ":" + via + "/" + ans, rw, viaRule
		}
	}

	return ans, rw, viaRule
}

func genC10(r *rng, n int, w *bufio.Writer) {
	c10TxtMax = 70000
	defer func() { c10TxtMax = 4200 }()
	for i := 0; i < n; i++ {
		v := c10Value(r)
		if r.chance(1, 5) {
			v = mutateBytes(r, v)
		}
		ans, rw, viaRule := c10Go(v)
		cands := []string{v}
		if parts := strings.SplitN(v, ";", 3); len(parts) == 3 {
			cands = append(cands, parts[2])
		}
		fmt.Fprintf(w, "c10.dnsrw %s %s = %s ## %q\n", wb(v), waddrs(cands...), ans, v)
		if parts := strings.SplitN(v, ";", 3); len(parts) == 3 && r.chance(1, 3) {
			// the same value text right afterwards under the OTHER structured record types (one process: a value
			// accepted for one type must not change what the next parse of that text under another type gives)
			for _, ty := range []string{"SRV", "SVCB", "HTTPS", "MX", "TXT"} {
				if strings.EqualFold(parts[1], ty) {
					continue
				}
				v2 := parts[0] + ";" + ty + ";" + parts[2]
				ans2, rw2, _ := c10Go(v2)
				fmt.Fprintf(w, "c10.dnsrw %s %s = %s ## %q (right after %q)\n", wb(v2), waddrs(v2, parts[2]), ans2, v2, v)
				if rw2 != nil {
					fmt.Fprintf(w, "c10.shape %s = T ## %q\n", wrewrite(rw2), v2)
				}
			}
		}
		if rw != nil {
			fmt.Fprintf(w, "c10.shape %s = T ## %q\n", wrewrite(rw), v)
		}
		if viaRule != nil && !isASCII(v) && r.chance(1, 4) {
			fmt.Fprintf(w, "c10.shape %s = T ## via NewNetworkRule: %q\n", wrewrite(viaRule), v)
		}
	}
}

package main

// One splitmix64 stream per run; every random choice derives from VERIF_SEED.

type rng struct{ s uint64 }

// newRng mixes the seed first: consecutive seeds must not give shifted copies
// of one stream.
func newRng(seed uint64) *rng {
	r := &rng{s: seed ^ 0xD1B54A32D192ED03}
	r.s = r.u64() ^ (seed << 1)
	r.s = r.u64()

	return r
}

func (r *rng) u64() uint64 {
	r.s += 0x9E3779B97F4A7C15
	z := r.s
	z = (z ^ (z >> 30)) * 0xBF58476D1CE4E5B9
	z = (z ^ (z >> 27)) * 0x94D049BB133111EB

	return z ^ (z >> 31)
}

func (r *rng) n(k int) int {
	if k <= 0 {
		return 0
	}

	return int(r.u64() % uint64(k))
}

func (r *rng) chance(num, den int) bool { return r.n(den) < num }

func pick[T any](r *rng, xs []T) T { return xs[r.n(len(xs))] }

func shuffle[T any](r *rng, xs []T) {
	for i := len(xs) - 1; i > 0; i-- {
		j := r.n(i + 1)
		xs[i], xs[j] = xs[j], xs[i]
	}
}

func subset[T any](r *rng, xs []T, maxN int) (out []T) {
	n := r.n(maxN + 1)
	idx := make([]int, len(xs))
	for i := range idx {
		idx[i] = i
	}
	shuffle(r, idx)
	for i := 0; i < n && i < len(idx); i++ {
		out = append(out, xs[idx[i]])
	}

	return out
}

package main

// C14, dynamic part.  Partitions of a request multiset over 2..32 goroutines on
// COLD (and then warm) String- and File-backed storages shared by a
// NetworkEngine, a DNSEngine and an Engine, with yield perturbation at the four
// hook points (1: after a cache miss, 2: before the cache insert, 3: between
// Seek and readLine, 4: before regexp.Compile).  Each answer is compared with
// the sequential one.
//
// Two front ends:
//   * `harness gen c14sc <seed> <n>`: one `assert` line per round (any build);
//   * `harness-race c14race <seed> <rounds>`: the same rounds in the binary
//     built with `-race -tags verif`; prints a summary that bin/vconfig_groupf.py
//     parses; a race report makes the process exit with code 66.
//
// This is exploration of the schedules the Go scheduler produces, not proof.

import (
	"bufio"
	"fmt"
	"os"
	"runtime"
	"strconv"
	"strings"
	"sync"
	"sync/atomic"
	"time"

	"github.com/AdguardTeam/urlfilter"
	"github.com/AdguardTeam/urlfilter/filterlist"
	"github.com/AdguardTeam/urlfilter/rules"
)

func init() {
	gens["c14sc"] = c14GenSC
	if len(os.Args) >= 2 && os.Args[1] == "c14race" {
		seed, rounds := uint64(1), 20
		if len(os.Args) >= 3 {
			seed, _ = strconv.ParseUint(os.Args[2], 10, 64)
		}
		if len(os.Args) >= 4 {
			rounds, _ = strconv.Atoi(os.Args[3])
		}
		os.Exit(fRaceMain(seed, rounds))
	}
}

// yield perturbation: a lock-free pseudo-random decision per hook call.
var fYieldState atomic.Uint64
var fYieldCalls [5]atomic.Int64

func fYield(point int) {
	if point >= 0 && point < len(fYieldCalls) {
		fYieldCalls[point].Add(1)
	}
	z := fYieldState.Add(0x9E3779B97F4A7C15)
	z = (z ^ (z >> 30)) * 0xBF58476D1CE4E5B9
	z = (z ^ (z >> 27)) * 0x94D049BB133111EB
	z ^= z >> 31
	switch z % 8 {
	case 0, 1, 2:
		runtime.Gosched()
	case 3:
		time.Sleep(time.Duration(1+z>>60) * time.Microsecond)
	case 4:
		for i := 0; i < 3; i++ {
			runtime.Gosched()
		}
	default:
	}
}

func fSetHooks(on bool) {
	if on {
		filterlist.VerifYieldHook = fYield
		rules.VerifYieldHook = fYield
	} else {
		filterlist.VerifYieldHook = nil
		rules.VerifYieldHook = nil
	}
}

// fSetAnswer is the canonical answer of a query as SETS (a rule retrieved by
// two goroutines at once exists as two equal objects, so the pointer-based
// duplicate suppression of the shortcuts table may let a duplicate through;
// DESIGN.md section 6: results are compared as sets).
func fSetAnswer(g *fEngines, q *fQuery) (set string, exact string) {
	set = guardStr(func() string {
		switch q.kind {
		case "dns":
			res, matched := g.d.MatchRequest(q.dns)
			var v4, v6 []string
			for _, h := range res.HostRulesV4 {
				v4 = append(v4, fRuleKey(h))
			}
			for _, h := range res.HostRulesV6 {
				v6 = append(v6, fRuleKey(h))
			}
			exact = fSerDNS(res, matched)

			return fmt.Sprintf("matched=%v rule=%s all=%q v4=%q v6=%q rwAll=%q rw=%q", matched, fNetKey(res.NetworkRule),
				fSortedSet(fKeysOfNet(res.NetworkRules)), fSortedSet(v4), fSortedSet(v6),
				fSortedSet(fKeysOfNet(res.DNSRewritesAll())), fSortedSet(fKeysOfNet(res.DNSRewrites())))
		case "web":
			m := g.e.MatchRequest(q.web)
			exact = fSerMatching(m)

			return exact
		case "all":
			rs := g.n.MatchAll(q.web)
			one, ok := g.n.Match(q.web)
			exact = fmt.Sprintf("all=%s match=%s/%v", fNetKeys(rs), fNetKey(one), ok)

			return fmt.Sprintf("all=%q match=%s/%v", fSortedSet(fKeysOfNet(rs)), fNetKey(one), ok)
		default:
			exact = fSerCosmetic(g.e.GetCosmeticResult(q.host, q.opt))

			return exact
		}
	})
	if set == "PANIC" {
		exact = "PANIC"
	}

	return set, exact
}

type fRoundResult struct {
	evals      int
	mismatches []string
	dupOnly    int
	desc       string
	nontrivial int
	dupSamples []string
}

// fConcRound: one world, one request multiset, sequential reference, then
// concurrent runs (cold, then warm) for a few goroutine counts.
func fConcRound(r *rng, round int) (res fRoundResult) {
	var world *fWorld
	var pool []*fQuery
	kind := ""
	if round%4 == 1 {
		// buckets with several entries, hostnames made of several indexed labels, rule lines longer than the read
		// buffers (group R4, race_r4_c14.go)
		world, pool, kind = r4GenDenseWorld(r)
		kind += "; "
	} else {
		world = fGenWorld(r, 30, round%3)
		pool = fGenQueryPool(r, world, 8+r.n(16))
	}
	defer world.cleanup()
	m := 24 + r.n(72)
	if kind != "" {
		// the pool of a dense world is asked about in short bursts (more cold starts for the time)
		m = 24 + r.n(36)
	}
	qs := make([]*fQuery, m)
	for i := range qs {
		qs[i] = pick(r, pool)
	}
	// the sequential reference (fresh engine, hooks off) is computed AFTER the first concurrent run: computing it
	// first would warm whatever the process remembers per name before any two queries are in flight together
	wantSet := make([]string, m)
	wantExact := make([]string, m)
	haveWant := false
	reference := func() {
		fSetHooks(false)
		ss := world.storage(nil, false)
		sg := fBuild(ss)
		for i, q := range qs {
			wantSet[i], wantExact[i] = fSetAnswer(sg, q)
			if !strings.Contains(wantSet[i], "[]") || strings.Contains(wantSet[i], "rule=-") {
				res.nontrivial++
			}
		}
		_ = ss.Close()
		haveWant = true
	}
	gs := []int{2, 3 + r.n(6), 9 + r.n(24)}
	res.desc = fmt.Sprintf("round %d: %d queries over %v goroutines; %s%s", round, m, gs, kind, world.describe())
	for _, g := range gs {
		cs := world.storage(nil, false)
		cg := fBuild(cs)
		for pass := 0; pass < 2; pass++ { // 0 = cold cache, 1 = warm cache
			// random partition of the multiset
			part := make([][]int, g)
			for i := range qs {
				k := r.n(g)
				part[k] = append(part[k], i)
			}
			gotSet := make([]string, m)
			gotExact := make([]string, m)
			fSetHooks(true)
			var wg sync.WaitGroup
			start := make(chan struct{})
			for k := 0; k < g; k++ {
				wg.Add(1)
				go func(mine []int) {
					defer wg.Done()
					<-start
					for _, i := range mine {
						gotSet[i], gotExact[i] = fSetAnswer(cg, qs[i])
					}
				}(part[k])
			}
			close(start)
			wg.Wait()
			fSetHooks(false)
			if !haveWant {
				reference()
			}
			for i := range qs {
				res.evals++
				if gotSet[i] != wantSet[i] {
					res.mismatches = append(res.mismatches, fmt.Sprintf("%d goroutines, %s cache, query %s: concurrent %q, sequential %q",
						g, []string{"cold", "warm"}[pass], qs[i], gotSet[i], wantSet[i]))
				} else if gotExact[i] != wantExact[i] {
					res.dupOnly++
					if len(res.dupSamples) < 2 {
						res.dupSamples = append(res.dupSamples, fmt.Sprintf("%d goroutines, query %s: concurrent %q, sequential %q", g, qs[i], gotExact[i], wantExact[i]))
					}
				}
			}
		}
		_ = cs.Close()
	}

	return res
}

func c14GenSC(r *rng, n int, w *bufio.Writer) {
	fSilenceLogs()
	for i := 0; i < n; i++ {
		res := fConcRound(r, i)
		ans := "T"
		note := res.desc
		if len(res.mismatches) > 0 {
			ans = "F"
			note = "FIRST DIFFERENCE: " + res.mismatches[0] + "; " + note
		}
		fmt.Fprintf(w, "assert c14sc %d %d %s = %s ## %s\n", i, res.evals, fHash(res.desc), ans, strings.ReplaceAll(note, "\n", "\\n"))
	}
}

func fRaceMain(seed uint64, rounds int) int {
	fSilenceLogs()
	r := newRng(seed)
	t0 := time.Now()
	evals, dup, nontrivial, dupShown := 0, 0, 0, 0
	var mism []string
	for i := 0; i < rounds; i++ {
		res := fConcRound(r, i)
		// a race report of this round stands ABOVE this line in stderr (bin/vconfig_groupf.py names the round with it)
		fmt.Fprintf(os.Stderr, "c14race: end of %s\n", trunc(strings.ReplaceAll(res.desc, "\n", "\\n"), 1800))
		evals += res.evals
		dup += res.dupOnly
		nontrivial += res.nontrivial
		for _, d := range res.dupSamples {
			if dupShown < 3 {
				dupShown++
				fmt.Println("SETS-ONLY " + strings.ReplaceAll(d, "\n", "\\n"))
			}
		}
		for _, m := range res.mismatches {
			if len(mism) < 5 {
				mism = append(mism, m+" ## "+res.desc)
			}
		}
		if len(res.mismatches) > 0 && len(mism) >= 5 {
			break
		}
	}
	// trials about names that never occurred in this process before (race_c14_fresh.go), in-process
	fr := newRng(seed ^ 0x5EED0F2E5)
	tok := fFreshToken(fr.u64())
	for i := 0; i < (rounds+9)/10 && len(mism) < 5; i++ {
		fmt.Fprintf(os.Stderr, "c14race: fresh-name trial %d (token %s)\n", i, tok)
		res := fFreshTrial(fr, tok, i)
		evals += res.evals
		dup += res.dupOnly
		nontrivial += res.nontrivial
		for _, d := range res.dupSamples {
			if dupShown < 3 {
				dupShown++
				fmt.Println("SETS-ONLY " + strings.ReplaceAll(d, "\n", "\\n"))
			}
		}
		for _, m := range res.mismatches {
			if len(mism) < 5 {
				mism = append(mism, m+" ## "+res.desc)
			}
		}
	}
	for _, m := range mism {
		fmt.Println("MISMATCH " + strings.ReplaceAll(m, "\n", "\\n"))
	}
	fmt.Printf("SUMMARY rounds=%d evaluations=%d mismatches=%d duplicates_only=%d nontrivial_sequential=%d yields=%d/%d/%d/%d wall_s=%.1f\n",
		rounds, evals, len(mism), dup, nontrivial, fYieldCalls[1].Load(), fYieldCalls[2].Load(), fYieldCalls[3].Load(),
		fYieldCalls[4].Load(), time.Since(t0).Seconds())
	if len(mism) > 0 {
		return 3
	}

	return 0
}

var _ = urlfilter.NewEngine

import UF.Driver.Dispatch
/- The driver: one op line in, one answer line out. -/
partial def loop (h : IO.FS.Stream) (out : IO.FS.Stream) : IO Unit := do
  let line ← h.getLine
  if line.isEmpty then return ()
  out.putStrLn (UF.handleLine (line.dropEndWhile (· == '\n')).toString)
  loop h out

def main : IO Unit := do
  let stdin ← IO.getStdin
  let stdout ← IO.getStdout
  loop stdin stdout

-- Root of the library: everything that must build (model, specs, proofs, property theorems, driver).
import UF.Driver.Dispatch
import UF.Props.C16

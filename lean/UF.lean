-- Root of the library: everything that must build (model, specs, proofs, property theorems, driver).
import UF.Driver.Dispatch
import UF.Props.C16
import UF.GroupA
import UF.GroupB
import UF.GroupC
import UF.GroupD
import UF.GroupE
import UF.GroupF
import UF.GroupG
import UF.GroupH
import UF.GroupI1
import UF.GroupI2
import UF.GroupI3
import UF.GroupL
import UF.GroupK
import UF.GroupP1

import UF.Basic.Bytes
import UF.Gen.Facts
import UF.Model.Rule
import UF.Model.Match
import UF.Driver.Wire

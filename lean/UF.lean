-- This module serves as the root of the `UF` library.
-- Import modules here that should be built as part of the library.
import UF.Basic

import UF.Compose2.RegexShortcut
import UF.Proofs.Regex
import UF.Proofs.Shortcut
import UF.Proofs.ShortcutBytes
/-
  Integration (group I2), part 9: soundness of the text-level model of `findRegexpShortcut`
  (UF/Compose2/RegexShortcut.lean), first half — the items `goItems` assigns to an expression describe
  every match of it: the lower-cased matched text splits into one piece per item, the piece of a literal
  item being that literal, the piece of any other item containing every literal the item requires (and,
  for a class item, being one character of the class).  Stated for the expression compiled with ANY
  fold flags (`FoldRel`: the rule compiles `(?i)` + text unless `$match-case`, the literals are collected
  from the text as written).
-/
namespace UF.I2
open UF Bytes Re

/-! ### Bytes -/

theorem forall_u8' (P : UInt8 → Prop) (h : ∀ n, n < 256 → P (UInt8.ofNat n)) : ∀ b, P b := by
  intro b
  have := h b.toNat b.toNat_lt
  simpa using this

set_option maxRecDepth 100000 in
theorem lower_lower : ∀ b : UInt8, lowerByte (lowerByte b) = lowerByte b := by
  apply forall_u8'; decide

set_option maxRecDepth 100000 in
theorem lower_upper : ∀ b : UInt8, lowerByte (upperByte b) = lowerByte b := by
  apply forall_u8'; decide

theorem toLower_idem (s : Bytes) : toLower (toLower s) = toLower s := by
  simp [toLower, lower_lower]

/-! ### Same expression, other fold flags -/

inductive FoldRel : Re → Re → Prop
  | empty : FoldRel .empty .empty
  | lit (bs : Bytes) (f f' : Bool) : FoldRel (.lit bs f) (.lit bs f')
  | any : FoldRel .any .any
  | anyNL : FoldRel .anyNL .anyNL
  | cls (neg : Bool) (rs : List (UInt8 × UInt8)) (f f' : Bool) : FoldRel (.cls neg rs f) (.cls neg rs f')
  | bol : FoldRel .bol .bol
  | eol : FoldRel .eol .eol
  | wordB : FoldRel .wordB .wordB
  | nwordB : FoldRel .nwordB .nwordB
  | cat {a a' b b'} : FoldRel a a' → FoldRel b b' → FoldRel (.cat a b) (.cat a' b')
  | alt {a a' b b'} : FoldRel a a' → FoldRel b b' → FoldRel (.alt a b) (.alt a' b')
  | star {a a'} : FoldRel a a' → FoldRel (.star a) (.star a')
  | plus {a a'} : FoldRel a a' → FoldRel (.plus a) (.plus a')
  | quest {a a'} : FoldRel a a' → FoldRel (.quest a) (.quest a')
  | rep {a a'} (m : Nat) (mx : Option Nat) : FoldRel a a' → FoldRel (.rep a m mx) (.rep a' m mx)
  | grp {a a'} : FoldRel a a' → FoldRel (.grp a) (.grp a')
  /-- (group P3) a class of one character, or of the two cases of a letter, compiled as the literal
      `parser.push` makes of it, with whatever flag `parser.factor` left on it
      (UF/Model/RegexQuirk.lean: `[aA]` merged under a case-sensitive `A` is the literal `A`) -/
  | clsLit (neg : Bool) (rs : List (UInt8 × UInt8)) (f : Bool) (c : UInt8) (g f' : Bool) :
      clsLit? neg rs = some (c, g) → FoldRel (.cls neg rs f) (.lit [c] f')

theorem FoldRel.refl (r : Re) : FoldRel r r := by
  induction r with
  | empty => exact .empty
  | lit bs f => exact .lit bs f f
  | any => exact .any
  | anyNL => exact .anyNL
  | cls n rs f => exact .cls n rs f f
  | bol => exact .bol
  | eol => exact .eol
  | wordB => exact .wordB
  | nwordB => exact .nwordB
  | cat a b iha ihb => exact .cat iha ihb
  | alt a b iha ihb => exact .alt iha ihb
  | star a ih => exact .star ih
  | plus a ih => exact .plus ih
  | quest a ih => exact .quest ih
  | rep a m mx ih => exact .rep m mx ih
  | grp a ih => exact .grp ih

theorem FoldRel.foldCase (r : Re) : FoldRel r r.foldCase := by
  induction r with
  | empty => exact .empty
  | lit bs f => exact .lit bs f true
  | any => exact .any
  | anyNL => exact .anyNL
  | cls n rs f => exact .cls n rs f true
  | bol => exact .bol
  | eol => exact .eol
  | wordB => exact .wordB
  | nwordB => exact .nwordB
  | cat a b iha ihb => exact .cat iha ihb
  | alt a b iha ihb => exact .alt iha ihb
  | star a ih => exact .star ih
  | plus a ih => exact .plus ih
  | quest a ih => exact .quest ih
  | rep a m mx ih => exact .rep m mx ih
  | grp a ih => exact .grp ih

/-- Rewriting the fold flags of leaves (`applyFlags`, the shape Go's tree of a case-sensitive
    expression is given in) stays inside the relation, whatever the table. -/
theorem FoldRel.applyFlags (m : FlagMap) (r : Re) : ∀ off, FoldRel r (Re.applyFlags m r off) := by
  induction r with
  | empty => intro _; exact .empty
  | lit bs f =>
    intro off
    simp only [Re.applyFlags, fixLeaf]
    split
    · exact .lit bs f _
    · exact .lit bs f f
  | any => intro _; exact .any
  | anyNL => intro _; exact .anyNL
  | cls n rs f =>
    intro off
    simp only [Re.applyFlags, fixLeaf]
    split
    · rename_i fl c f0 _ hc
      split
      · exact .cls n rs f f
      · exact .clsLit n rs f c f0 fl hc
    · exact .cls n rs f f
  | bol => intro _; exact .bol
  | eol => intro _; exact .eol
  | wordB => intro _; exact .wordB
  | nwordB => intro _; exact .nwordB
  | cat a b iha ihb => intro off; exact .cat (iha _) (ihb _)
  | alt a b iha ihb => intro off; exact .alt (iha _) (ihb _)
  | star a ih => intro off; exact .star (ih _)
  | plus a ih => intro off; exact .plus (ih _)
  | quest a ih => intro off; exact .quest (ih _)
  | rep a mn mx ih => intro off; exact .rep mn mx (ih _)
  | grp a ih => intro off; exact .grp (ih _)

/-- Go's tree of a case-sensitive expression is the textbook tree up to the fold flags of its leaves. -/
theorem FoldRel.goTree {p : Bytes} {t c : Re} (h : goTree p t = some c) : FoldRel t c := by
  unfold Re.goTree at h
  split at h
  · cases h; exact FoldRel.refl t
  · split at h
    · cases h
    · unfold quirkTree at h
      cases hs : Q.simFrame (Q.size t + 1) t 0 with
      | none => rw [hs] at h; cases h
      | some m =>
        rw [hs] at h
        cases h
        exact FoldRel.applyFlags m.1 t 0

/-! ### What the items say about a match -/

/-- The piece of the (lower-cased) matched text that belongs to a non-literal item. -/
def PieceOK (key : Option (Nat × List Nat)) (req : List Bytes) (x : Bytes) : Prop :=
  (∀ l ∈ req, hasSub x l = true) ∧
  (∀ k, key = some (0, 0 :: k) → ∃ n ∈ k, n < 256 ∧ x = [lowerByte n.toUInt8])

/-- `Sat items lw`: the lower-cased matched text `lw` is the concatenation of one piece per item. -/
inductive Sat : List Item → Bytes → Prop
  | nil : Sat [] []
  | lit {bs f rest lw} : Sat rest lw → Sat (.lit bs f :: rest) (toLower bs ++ lw)
  | other {key req x rest lw} : PieceOK key req x → Sat rest lw → Sat (.other key req :: rest) (x ++ lw)

theorem Sat.append {a b : List Item} {x y : Bytes} (ha : Sat a x) (hb : Sat b y) : Sat (a ++ b) (x ++ y) := by
  induction ha with
  | nil => simpa using hb
  | lit _ ih => simpa [List.append_assoc] using Sat.lit ih
  | other hp _ ih => simpa [List.append_assoc] using Sat.other hp ih

theorem Sat.single_other {key req x} (h : PieceOK key req x) : Sat [.other key req] x := by
  simpa using Sat.other h Sat.nil

theorem Sat.single_lit (bs : Bytes) (f : Bool) : Sat [.lit bs f] (toLower bs) := by
  simpa using Sat.lit (bs := bs) (f := f) Sat.nil

theorem Sat.lit_inv {bs f rest lw} (h : Sat (.lit bs f :: rest) lw) :
    ∃ lw', lw = toLower bs ++ lw' ∧ Sat rest lw' := by
  cases h with
  | lit h => exact ⟨_, rfl, h⟩

theorem Sat.other_inv {key req rest lw} (h : Sat (.other key req :: rest) lw) :
    ∃ x lw', lw = x ++ lw' ∧ PieceOK key req x ∧ Sat rest lw' := by
  cases h with
  | other hp h => exact ⟨_, _, rfl, hp, h⟩

theorem Sat.nil_inv {lw} (h : Sat [] lw) : lw = [] := by
  cases h; rfl

/-- Merging adjacent literals does not change what the items say. -/
theorem Sat.merge {items : List Item} {lw : Bytes} (h : Sat items lw) : Sat (mergeItems items) lw := by
  induction h with
  | nil => exact .nil
  | @lit bs f rest lw _ ih =>
    simp only [mergeItems]
    split
    · rename_i b fb rest' heq
      rw [heq] at ih
      obtain ⟨lw', e, hr⟩ := ih.lit_inv
      split
      · rename_i hf
        have : f = fb := by simpa using hf
        subst this
        rw [e, ← List.append_assoc, ← toLower_append]
        exact .lit hr
      · rw [e]
        exact .lit (.lit hr)
    · exact .lit ih
  | @other key req x rest lw hp _ ih =>
    simp only [mergeItems]
    exact .other hp ih

/-- Every literal the items require is a factor of the text. -/
theorem Sat.req {items : List Item} {lw : Bytes} (h : Sat items lw) :
    ∀ l ∈ itemsReq items, hasSub lw l = true := by
  induction h with
  | nil => intro l hl; simp [itemsReq] at hl
  | @lit bs f rest lw _ ih =>
    intro l hl
    simp only [itemsReq, List.flatMap_cons, itemReq, List.mem_append, List.mem_singleton] at hl
    rcases hl with rfl | hl
    · exact hasSub_append_left _ (hasSub_refl _)
    · exact hasSub_append_right _ (ih l (by simpa [itemsReq] using hl))
  | @other key req x rest lw hp _ ih =>
    intro l hl
    simp only [itemsReq, List.flatMap_cons, itemReq, List.mem_append] at hl
    rcases hl with hl | hl
    · exact hasSub_append_left _ (hp.1 l hl)
    · exact hasSub_append_right _ (ih l (by simpa [itemsReq] using hl))

/-- Some branch describes the text. -/
def BranchSat (bs : List (List Item)) (lw : Bytes) : Prop := ∃ b ∈ bs, Sat b lw

/-! ### Classes -/

theorem clsMatch_unfold (neg : Bool) (rs : List (UInt8 × UInt8)) (f : Bool) (b : UInt8)
    (h : clsMatch neg rs f b = true) :
    ∃ b', clsMatch neg rs false b' = true ∧ lowerByte b' = lowerByte b := by
  unfold clsMatch at h ⊢
  cases neg with
  | false =>
    simp only [bne_iff_ne, ne_eq, Bool.not_eq_false, Bool.or_eq_true, Bool.and_eq_true] at h
    rcases h with h | ⟨_, h | h⟩
    · exact ⟨b, by simp [h], rfl⟩
    · exact ⟨lowerByte b, by simp [h], lower_lower b⟩
    · exact ⟨upperByte b, by simp [h], lower_upper b⟩
  | true =>
    refine ⟨b, ?_, rfl⟩
    simp only [bne_iff_ne, ne_eq, Bool.not_eq_true, Bool.or_eq_false_iff] at h
    simp [h.1]

theorem mem_clsKey {neg : Bool} {rs : List (UInt8 × UInt8)} {b : UInt8}
    (h : clsMatch neg rs false b = true) : b.toNat ∈ clsKey neg rs := by
  unfold clsKey
  rw [List.mem_filter]
  refine ⟨List.mem_range.2 b.toNat_lt, ?_⟩
  simpa using h

/-- The item of a class describes every character the class matches, whatever the fold flag. -/
theorem cls_sat (neg : Bool) (rs : List (UInt8 × UInt8)) (f : Bool) (b : UInt8)
    (h : clsMatch neg rs f b = true) : Sat [clsItem neg rs] [lowerByte b] := by
  obtain ⟨b', hb', hl⟩ := clsMatch_unfold neg rs f b h
  have hm := mem_clsKey hb'
  have hb'' : b'.toNat.toUInt8 = b' := by simp
  unfold clsItem
  split
  · rename_i c hk
    rw [hk] at hm
    have : b'.toNat = c := by simpa using hm
    rw [← this, hb'', ← hl]
    exact Sat.single_lit [b'] false
  · rename_i a b2 hk
    rw [hk] at hm
    split
    · rename_i hcond
      simp only [Bool.and_eq_true, decide_eq_true_eq, beq_iff_eq, bne_iff_ne, ne_eq] at hcond
      obtain ⟨⟨⟨⟨h65, h90⟩, hb2⟩, _⟩, _⟩ := hcond
      have hcase : b'.toNat = a ∨ b'.toNat = b2 := by simpa using hm
      have key : lowerByte a.toUInt8 = lowerByte b' := by
        rcases hcase with e | e
        · rw [← e, hb'']
        · -- b' = a + 32, a upper case
          have ha : a.toUInt8.toNat = a := by
            simp only [Nat.toUInt8, UInt8.toNat_ofNat']
            omega
          have hup : isUpper a.toUInt8 = true := by
            simp only [isUpper, Bool.and_eq_true, decide_eq_true_eq, UInt8.le_iff_toNat_le, ha]
            exact ⟨by simpa using h65, by simpa using h90⟩
          have e' : b' = a.toUInt8 + 32 := by
            apply UInt8.toNat_inj.1
            rw [e, hb2, UInt8.toNat_add, ha]
            simp
            omega
          rw [e']
          have hl1 : lowerByte a.toUInt8 = a.toUInt8 + 32 := by simp [lowerByte, hup]
          rw [hl1]
          have : ∀ x : UInt8, isUpper x = true → lowerByte (x + 32) = x + 32 := by
            set_option maxRecDepth 100000 in
            apply forall_u8'; decide
          exact (this _ hup).symm
      have : toLower [a.toUInt8] = [lowerByte b] := by simp [toLower, key, hl]
      rw [← this]
      exact Sat.single_lit [a.toUInt8] true
    · refine Sat.single_other ⟨fun _ hl' => by simp at hl', ?_⟩
      intro k hk'
      have : k = [a, b2] := by simpa using hk'.symm
      subst this
      exact ⟨b'.toNat, hm, b'.toNat_lt, by rw [hb'', hl]⟩
  · rename_i k _ _
    refine Sat.single_other ⟨fun _ hl' => by simp at hl', ?_⟩
    intro k' hk'
    have : k' = clsKey neg rs := by simpa using hk'.symm
    subst this
    exact ⟨b'.toNat, hm, b'.toNat_lt, by rw [hb'', hl]⟩

/-- `clsItem` (the item the shortcut model gives a class) and `clsLit?` (the literal the matching model
    gives it) are the same table. -/
theorem clsItem_of_clsLit {neg : Bool} {rs : List (UInt8 × UInt8)} {c : UInt8} {g : Bool}
    (h : clsLit? neg rs = some (c, g)) : clsItem neg rs = .lit [c] g := by
  unfold clsLit? at h
  unfold clsItem
  have hk : clsKey neg rs = clsBytes neg rs := rfl
  rw [hk]
  split at h
  · rename_i x hx
    rw [hx]
    simp only [Option.some.injEq, Prod.mk.injEq] at h
    obtain ⟨rfl, rfl⟩ := h
    rfl
  · rename_i a b hx
    rw [hx]
    split at h
    · rename_i hc
      simp only [Option.some.injEq, Prod.mk.injEq] at h
      obtain ⟨rfl, rfl⟩ := h
      simp only [hc, if_true]
    · cases h
  · cases h

end UF.I2

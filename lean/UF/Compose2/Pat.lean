import UF.Model.Mask
import UF.Model.RegexParse
import UF.Model.Match
import UF.Proofs.MaskMain
import UF.Proofs.RegexFast
/-
  Integration (group I2), part 1: the PATTERN ORACLE of `NetworkRule.Match` instantiated by the models.

  `Ext.pat pattern matchCase target` ("does the compiled pattern accept the target?") was a parameter of
  the model of `Match` (UF/Model/Match.lean), filled in correspondence runs by the answers of the real
  `regexp` engine.  Here it is DEFINED from the other groups' models:

    * a `/regex/` pattern  ↦  group A's `regexPat`  (`parseRE` of the text between the slashes, with
      `(?i)` unless `$match-case`, then unanchored search);
    * any other pattern    ↦  group G's `compiledAccepts` (the text rewriting of `patternToRegexp` /
      `preparePattern`, then `parseRE` and search; status 0 ⇒ true, compile failure ⇒ false).

  `modelPat` answers `none` outside the domain on which these models are exact with respect to Go:
  a non-ASCII pattern or target (Go's engine works on runes, the model on bytes), a line feed in the
  target of a mask pattern (outside the documented mask language: `.` of `.*` does not match it), a
  regular expression outside the parser's subset (which includes the ones Go rejects; and, group P3 /
  REVIEW2 F3, a `$match-case` expression that has a source of case-folded literals — a class `[xX]`, an
  alternation `x|X` — TOGETHER with a non-capturing group `(?:` or a non-greedy counted repetition `}?`:
  there Go's flag-blind factoring of alternation prefixes depends on grouping the parse tree does not
  record).  For every other `$match-case` `/regex/` the expression searched is Go's tree, not the
  textbook reading of the text (`Re.goTree`; they differ e.g. for `/A.|[aA]/`).
-/
namespace UF.I2
open UF Bytes

/-- Does the subject contain a line feed? -/
def hasLF (u : Bytes) : Bool := u.any (· == 10)

/-- The three copies of `isRegexPattern` (groups A, G, E) are one function. -/
theorem isRegexPattern_mask (p : Bytes) : Mask.isRegexPattern p = UF.isRegexPattern p := rfl

/-- The pattern oracle, from the models.  `pattern` is the pattern AS STORED in the rule (after the
    `/*` rewrite of `NewNetworkRule`), which is what `matchPattern` passes. -/
def modelPat (pattern : Bytes) (matchCase : Bool) (target : Bytes) : Option Bool :=
  if UF.isRegexPattern pattern then regexPat pattern matchCase target
  else if isAscii pattern && isAscii target && !hasLF target then
    some (Mask.compiledAccepts pattern matchCase target)
  else none

/-- The total function put into `Ext.pat` (`false` outside the domain; theorems and ops that use it
    state / check the domain separately). -/
def modelPatD (pattern : Bytes) (matchCase : Bool) (target : Bytes) : Bool :=
  (modelPat pattern matchCase target).getD false

/-- `ext` with the pattern oracle replaced by the model. -/
def withModelPat (ext : Ext) : Ext := { ext with pat := modelPatD }

@[simp] theorem withModelPat_pat (ext : Ext) : (withModelPat ext).pat = modelPatD := rfl
@[simp] theorem withModelPat_psl (ext : Ext) : (withModelPat ext).psl = ext.psl := rfl
@[simp] theorem withModelPat_parseAddr (ext : Ext) : (withModelPat ext).parseAddr = ext.parseAddr := rfl
@[simp] theorem withModelPat_parsePrefix (ext : Ext) : (withModelPat ext).parsePrefix = ext.parsePrefix := rfl

/-! ### Domain facts -/

theorem isAscii_iff (s : Bytes) : isAscii s = true ↔ ∀ b ∈ s, b < 128 := by
  simp [isAscii, List.all_eq_true]

theorem hasLF_false_iff (u : Bytes) : hasLF u = false ↔ Mask.NoNL u := by
  unfold hasLF Mask.NoNL
  rw [← Bool.not_eq_true, List.any_eq_true]
  constructor
  · intro h b hb hb10; exact h ⟨b, hb, by simp [hb10]⟩
  · rintro h ⟨b, hb, hb10⟩; exact h b hb (by simpa using hb10)

/-- The mask domain: a pattern that is not a `/regex/`, ASCII pattern and target, no line feed. -/
structure MaskDomain (pattern target : Bytes) : Prop where
  notRegex : UF.isRegexPattern pattern = false
  patAscii : ∀ b ∈ pattern, b < 128
  tgtAscii : ∀ b ∈ target, b < 128
  noLF : Mask.NoNL target

/-- On the mask domain `modelPat` is total and is group G's compiled matcher … -/
theorem modelPat_mask_compiled {p u : Bytes} (mc : Bool) (h : MaskDomain p u) :
    modelPat p mc u = some (Mask.compiledAccepts p mc u) := by
  have h1 : isAscii p = true := (isAscii_iff p).2 h.patAscii
  have h2 : isAscii u = true := (isAscii_iff u).2 h.tgtAscii
  have h3 : hasLF u = false := (hasLF_false_iff u).2 h.noLF
  simp [modelPat, h.notRegex, h1, h2, h3]

/-- … hence (group G's `c03`) the documented mask language of the stored pattern. -/
theorem modelPat_mask {p u : Bytes} (mc : Bool) (h : MaskDomain p u) :
    modelPat p mc u = some (MaskSpec.maskAccepts (MaskSpec.tokenize p) mc u) := by
  rw [modelPat_mask_compiled mc h,
    Mask.compiledAccepts_eq p mc u h.patAscii (by rw [isRegexPattern_mask]; exact h.notRegex) h.noLF]

theorem modelPatD_mask {p u : Bytes} (mc : Bool) (h : MaskDomain p u) :
    modelPatD p mc u = MaskSpec.maskAccepts (MaskSpec.tokenize p) mc u := by
  simp [modelPatD, modelPat_mask mc h]

/-- Whenever `modelPat` answers on a pattern that is not a `/regex/`, the answer is the documented mask
    language (no further hypothesis: outside the domain it does not answer). -/
theorem modelPat_mask_some {p u : Bytes} {mc b : Bool} (hre : UF.isRegexPattern p = false)
    (h : modelPat p mc u = some b) : b = MaskSpec.maskAccepts (MaskSpec.tokenize p) mc u := by
  unfold modelPat at h
  rw [hre] at h
  simp only [Bool.false_eq_true, if_false] at h
  split at h
  · rename_i hd
    simp only [Bool.and_eq_true, Bool.not_eq_true'] at hd
    have hdom : MaskDomain p u :=
      ⟨hre, (isAscii_iff p).1 hd.1.1, (isAscii_iff u).1 hd.1.2, (hasLF_false_iff u).1 hd.2⟩
    have h' := modelPat_mask mc hdom
    rw [modelPat_mask_compiled mc hdom] at h'
    simp only [Option.some.injEq] at h h'
    rw [← h, h']
  · cases h

/-- Totality on the ASCII domain (mask patterns). -/
theorem modelPat_total_mask {p u : Bytes} (mc : Bool) (h : MaskDomain p u) : (modelPat p mc u).isSome = true := by
  rw [modelPat_mask_compiled mc h]; rfl

/-- For the pattern as WRITTEN in the rule (`example.org/*` form included): the stored pattern is
    `normalize p` and the oracle answers `ruleAccepts p`. -/
theorem modelPat_written {p u : Bytes} (mc : Bool) (h : MaskDomain (MaskSpec.normalize p) u) :
    Mask.rewriteSlashStar p = some (MaskSpec.normalize p) ∧
    modelPat (MaskSpec.normalize p) mc u = some (MaskSpec.ruleAccepts p mc u) :=
  ⟨Mask.rewriteSlashStar_eq p, by rw [modelPat_mask mc h]; rfl⟩

/-- On `/regex/` patterns `modelPat` is group A's `regexPat`. -/
theorem modelPat_regex {p : Bytes} (mc : Bool) (u : Bytes) (h : UF.isRegexPattern p = true) :
    modelPat p mc u = regexPat p mc u := by
  simp [modelPat, h]

/-- A `/regex/` pattern on which `modelPat` answers: the answer is the search of the parsed text. -/
theorem modelPat_regex_some {p u : Bytes} {mc b : Bool} (hre : UF.isRegexPattern p = true)
    (h : modelPat p mc u = some b) :
    ∃ r, Re.parseRE (regexRuleText p mc) = some r ∧ b = Re.search r u ∧ isAscii u = true := by
  rw [modelPat_regex mc u hre] at h
  unfold regexPat at h
  split at h
  · cases h
  · rename_i hd
    simp only [hre, Bool.not_true, Bool.false_or, Bool.not_eq_true'] at hd
    cases hp : Re.parseRE (regexRuleText p mc) with
    | none => rw [hp] at h; cases h
    | some r =>
      rw [hp] at h
      simp only [Option.map_some, Option.some.injEq] at h
      refine ⟨r, rfl, ?_, by simpa using hd⟩
      rw [← h, searchFast_eq]

/-! ### The two models of `preparePattern` agree on `/regex/` patterns

  Group G's `compiledAccepts` also covers `/regex/` patterns (its `patternToRegexpText` has the
  `isRegexPattern` branch), through `search`; group A's `regexPat` goes through `searchFast` and does
  not single out the text `.*`.  Whenever `regexPat` answers, `compiledAccepts` gives the same answer. -/

theorem slice_inner (p : Bytes) (h : UF.isRegexPattern p = true) :
    Mask.sliceZ? p 1 (Mask.lenZ p - 1) = some ((p.drop 1).dropLast) := by
  simp only [UF.isRegexPattern, Bool.and_eq_true, decide_eq_true_eq] at h
  have hl : p.length > 1 := h.1.1
  have e : Mask.lenZ p - 1 = ((p.length - 1 : Nat) : Int) := by
    unfold Mask.lenZ; omega
  unfold Mask.sliceZ?
  rw [e]
  simp only [Int.toNat_natCast, Bytes.slice?]
  have : (0 : Int) ≤ 1 ∧ (0 : Int) ≤ ((p.length - 1 : Nat) : Int) := ⟨by decide, Int.natCast_nonneg _⟩
  rw [if_pos this]
  have h1 : (1 : Int).toNat = 1 := rfl
  rw [h1, if_pos ⟨by omega, by omega⟩]
  congr 1
  rw [List.dropLast_eq_take, List.length_drop, List.take_drop]
  congr 2
  omega

theorem starAny_search (u : Bytes) : Re.search (.star .any) u = true := by
  have key : ∀ s : St, Re.m (.star .any) s (fun _ => true) = true := by
    intro s
    simp only [Re.m]
    cases s.post.length <;> simp [Re.starLoop]
  cases u with
  | nil => simp [Re.search, Re.searchFrom, key]
  | cons b u => simp [Re.search, Re.searchFrom, key]

theorem regex_not_any (p : Bytes) (h : UF.isRegexPattern p = true) : Mask.isAnyPattern p = false := by
  simp only [UF.isRegexPattern, Bool.and_eq_true, decide_eq_true_eq] at h
  match p, h with
  | [], h => simp at h
  | [_], h => simp at h
  | a :: b :: r, h =>
    have ha : a = 47 := by simpa using h.1.2
    subst ha
    simp [Mask.isAnyPattern, Facts.MaskStartURL, Facts.MaskPipe, Facts.MaskAnyCharacter]

/-- Groups A and G agree on `/regex/` patterns: whenever `regexPat` answers, `compiledAccepts` (the
    `isRegexPattern` branch of `patternToRegexpText`, the `.*` short-cut, `(?i)`) gives that answer. -/
theorem regexPat_compiled {p u : Bytes} {mc b : Bool} (hre : UF.isRegexPattern p = true)
    (h : regexPat p mc u = some b) : Mask.compiledAccepts p mc u = b := by
  have hci : lit "(?i)" = Re.ciPrefix := by decide
  have hp2r : Mask.patternToRegexpText p = some ((p.drop 1).dropLast) := by
    simp only [Mask.patternToRegexpText, regex_not_any p hre, Bool.false_eq_true, if_false]
    rw [isRegexPattern_mask, hre, if_pos rfl, slice_inner p hre]
  unfold regexPat at h
  split at h
  · cases h
  · cases hp : Re.parseRE (regexRuleText p mc) with
    | none => rw [hp] at h; cases h
    | some r =>
      rw [hp] at h
      simp only [Option.map_some, Option.some.injEq, searchFast_eq] at h
      unfold Mask.compiledAccepts Mask.preparePatternText
      rw [hp2r]
      simp only
      by_cases hany : ((p.drop 1).dropLast == Facts.RegexAnyCharacter) = true
      · rw [if_pos hany]
        have e : (p.drop 1).dropLast = [46, 42] := by simpa [Facts.RegexAnyCharacter] using hany
        simp only [regexRuleText, e] at hp
        have hr : r = .star .any := by
          cases mc
          · have : Re.parseRE (Re.ciPrefix ++ [46, 42]) = some (.star .any) := by decide
            simp only [Bool.false_eq_true, if_false] at hp
            rw [this] at hp; cases hp; rfl
          · have : Re.parseRE [46, 42] = some (.star .any) := by decide
            simp only [if_true] at hp
            rw [this] at hp; cases hp; rfl
        rw [← h, hr, starAny_search]
      · rw [if_neg hany]
        simp only [regexRuleText] at hp
        cases mc
        · simp only [Bool.false_eq_true, if_false] at hp ⊢
          rw [hci, hp]; exact h
        · simp only [if_true] at hp ⊢
          rw [hp]; exact h

/-- … so on its whole domain `modelPat` is the single function `compiledAccepts` (the shape of
    `preparePattern` + `MatchString`), for masks and regular expressions alike. -/
theorem modelPat_some_compiled {p u : Bytes} {mc b : Bool} (h : modelPat p mc u = some b) :
    Mask.compiledAccepts p mc u = b := by
  cases hre : UF.isRegexPattern p with
  | true => rw [modelPat_regex mc u hre] at h; exact regexPat_compiled hre h
  | false =>
    unfold modelPat at h
    rw [hre] at h
    simp only [Bool.false_eq_true, if_false] at h
    split at h
    · cases h; rfl
    · cases h

end UF.I2

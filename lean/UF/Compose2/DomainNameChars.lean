import UF.Compose.Domains
import UF.Spec.HostLine
/-
  `filterutil.IsDomainName` (group E's state machine) accepts only letters, digits, '.' and '-': so a
  bare domain name of a hosts line contains no '$' and does not start with '!' (`H.isPlainToken`), and
  the side condition of `c18_dispatch_bare` is discharged in the complete model (Props/C18Full.lean).
  (Maintenance group K.)
-/
namespace UF.Compose
open UF UF.E Bytes

def dnChar (c : UInt8) : Bool := isAlpha c || isDigit c || c == ch '.' || c == ch '-'

theorem dnStep_reject_of_not_char (s : DNState) (c : UInt8) (hs : s.st = 0 ∨ s.st = 2)
    (hc : dnChar c = false) : dnStep s c = .reject := by
  simp only [dnChar, Bool.or_eq_false_iff] at hc
  obtain ⟨⟨⟨ha, hd⟩, hdot⟩, hdash⟩ := hc
  unfold dnStep
  rcases hs with hs | hs <;> simp [hs, ha, hd, hdot, hdash]

theorem dnStep_st {s s' : DNState} {c : UInt8} (hs : s.st = 0 ∨ s.st = 2) (h : dnStep s c = .cont s') :
    s'.st = 0 ∨ s'.st = 2 := by
  unfold dnStep at h
  rcases hs with hs | hs
  · simp only [hs, beq_self_eq_true, Bool.true_or, if_true] at h
    repeat' split at h
    all_goals first | (injection h with h; subst h; simp) | cases h
  · have e1 : (s.st == 0 || s.st == 1) = false := by simp [hs]
    have e2 : (s.st == 2) = true := by simp [hs]
    simp only [e1, e2, Bool.false_eq_true, if_false, if_true] at h
    repeat' split at h
    all_goals first | (injection h with h; subst h; simp [hs]) | cases h

theorem dnRun_chars {s s' : DNState} {n : Bytes} (hs : s.st = 0 ∨ s.st = 2)
    (h : dnRun s n = .ok (some s')) : ∀ c ∈ n, dnChar c = true := by
  induction n generalizing s with
  | nil => intro c hc; cases hc
  | cons a t ih =>
    simp only [dnRun] at h
    cases hstep : dnStep s a with
    | cont s1 =>
      rw [hstep] at h
      simp only at h
      have ha : dnChar a = true := by
        cases hd : dnChar a with
        | true => rfl
        | false => rw [dnStep_reject_of_not_char s a hs hd] at hstep; cases hstep
      intro c hc
      rcases List.mem_cons.1 hc with rfl | hc
      · exact ha
      · exact ih (dnStep_st hs hstep) h c hc
    | reject => rw [hstep] at h; simp [pure, Except.pure] at h
    | panic => rw [hstep] at h; simp [throw, throwThe, MonadExceptOf.throw] at h

/-- `IsDomainName(name)` ⇒ every byte is a letter, a digit, '.' or '-'. -/
theorem isDomainName_chars {d : Bytes} (h : isDomainNameC d = .ok true) : ∀ c ∈ d, dnChar c = true := by
  unfold isDomainNameC at h
  split at h
  · cases h
  · simp only [bind, Except.bind] at h
    cases hr : dnRun {} d with
    | error e => rw [hr] at h; cases h
    | ok o =>
      rw [hr] at h
      cases o with
      | none => simp [pure, Except.pure] at h
      | some s => exact dnRun_chars (Or.inl rfl) hr

theorem dnChar_plain (c : UInt8) (h : dnChar c = true) : c ≠ ch '$' ∧ c ≠ ch '!' := by
  constructor <;> (intro hc; subst hc; revert h; decide)

theorem isPlainToken_of_isDomainName {d : Bytes} (h : isDomainNameC d = .ok true) : H.isPlainToken d = true := by
  have hch := isDomainName_chars h
  unfold H.isPlainToken H.dollarFree
  simp only [Bool.and_eq_true, List.all_eq_true, bne_iff_ne, ne_eq, Bool.not_eq_eq_eq_not, Bool.not_true,
    beq_eq_false_iff_ne]
  refine ⟨fun c hc => (dnChar_plain c (hch c hc)).1, ?_⟩
  cases d with
  | nil => simp
  | cons a t =>
    simp only [List.head?_cons, ne_eq, Option.some.injEq]
    exact (dnChar_plain a (hch a (by simp))).2
end UF.Compose

import UF.Compose2.NewRuleFull
/-
  Integration (group I2), part 6: groups E and H each modelled the tests `NewRule` applies before it
  tries the hosts syntax (`isComment`, `findCosmeticRuleMarker`, `startsAtIndexWith`) — E with every
  index expression checked (`PE`), H as plain functions.  The two models are the same functions, so
  group H's dispatch statement (`newRuleKind`, theorems `c18_dispatch*`) applies to the complete model.
-/
namespace UF.I2
open UF Bytes

/-- The comparison loop of `startsAtIndexWith` is a prefix test. -/
theorem startsAtLoop_eq (str : Bytes) (start : Nat) (sub : Bytes) :
    ∀ (fuel i : Nat), sub.length ≤ i + fuel → start + sub.length ≤ str.length →
      E.startsAtLoop str start sub fuel i = .ok (hasPrefix (str.drop (start + i)) (sub.drop i)) := by
  intro fuel
  induction fuel with
  | zero =>
    intro i hf _
    have : sub.drop i = [] := List.drop_eq_nil_of_le (by omega)
    rw [this]
    cases str.drop (start + i) <;> rfl
  | succ fuel ih =>
    intro i hf hb
    unfold E.startsAtLoop
    by_cases hi : i < sub.length
    · rw [if_pos hi]
      have h1 : start + i < str.length := by omega
      have ea : E.idxC str (start + i) = .ok str[start + i] := E.idxC_ok' h1
      have eb : E.idxC sub i = .ok sub[i] := E.idxC_ok' hi
      rw [ea, eb]
      simp only [bind, Except.bind]
      have d1 : str.drop (start + i) = str[start + i] :: str.drop (start + i + 1) := by
        rw [List.drop_eq_getElem_cons h1]
      have d2 : sub.drop i = sub[i] :: sub.drop (i + 1) := by
        rw [List.drop_eq_getElem_cons hi]
      rw [d1, d2]
      simp only [hasPrefix]
      by_cases hne : (str[start + i] != sub[i]) = true
      · rw [if_pos hne]
        have : (str[start + i] == sub[i]) = false := by simpa using hne
        simp [this, pure, Except.pure]
      · rw [if_neg hne]
        have : (str[start + i] == sub[i]) = true := by simpa using hne
        rw [this, Bool.true_and, ih (i + 1) (by omega) hb]
        rfl
    · rw [if_neg hi]
      have : sub.drop i = [] := List.drop_eq_nil_of_le (by omega)
      rw [this]
      cases str.drop (start + i) <;> rfl

theorem startsAtIndexWith_eq (str : Bytes) (start : Nat) (sub : Bytes) (h : start ≤ str.length) :
    E.startsAtIndexWith str start sub = .ok (H.startsAtIndexWith str start sub) := by
  unfold E.startsAtIndexWith H.startsAtIndexWith
  by_cases hlt : str.length - start < sub.length
  · have : ((str.length : Int) - (start : Int) < (sub.length : Int)) := by omega
    rw [if_pos this, if_pos hlt]; rfl
  · have : ¬ ((str.length : Int) - (start : Int) < (sub.length : Int)) := by omega
    rw [if_neg this, if_neg hlt, startsAtLoop_eq str start sub sub.length 0 (by omega) (by omega)]
    simp

theorem firstMarkerAt_eq (text : Bytes) (start : Nat) (h : start ≤ text.length) (ms : List Bytes) :
    E.firstMarkerAt text start ms = .ok (ms.find? (fun m => H.startsAtIndexWith text start m)) := by
  induction ms with
  | nil => rfl
  | cons m ms ih =>
    unfold E.firstMarkerAt
    rw [startsAtIndexWith_eq text start m h]
    simp only [bind, Except.bind, List.find?_cons]
    cases H.startsAtIndexWith text start m with
    | true => rfl
    | false => simpa using ih

theorem markers_same : Facts.cosmeticMarkers = Facts.H.cosmeticMarkers ∧
    Facts.cosmeticFirstChars = Facts.H.cosmeticMarkerFirstChars := by decide

/-- `isComment`: the two models agree on every line. -/
theorem isComment_eq (line : Bytes) : E.isComment line = .ok (H.isCommentLine line) := by
  cases line with
  | nil => rfl
  | cons c rest =>
    unfold E.isComment H.isCommentLine
    have hc : E.idxC (c :: rest) 0 = .ok c := rfl
    have hl : ((c :: rest).length == 0) = false := by simp
    rw [hl]
    simp only [Bool.false_eq_true, if_false, hc, bind, Except.bind]
    cases h1 : c == ch '!' with
    | true => simp [pure, Except.pure]
    | false =>
      simp only [Bool.false_eq_true, if_false]
      cases h2 : c == ch '#' with
      | false => simp [pure, Except.pure]
      | true =>
        simp only [if_true]
        cases rest with
        | nil => rfl
        | cons d rest =>
          have hl2 : ((c :: d :: rest).length == 1) = false := by simp
          rw [hl2]
          simp only [Bool.false_eq_true, if_false, List.isEmpty_cons]
          rw [firstMarkerAt_eq _ 0 (Nat.zero_le _), markers_same.1]
          simp only
          cases hf : List.find? (fun m => H.startsAtIndexWith (c :: d :: rest) 0 m) Facts.H.cosmeticMarkers with
          | none =>
            have : Facts.H.cosmeticMarkers.any (fun m => H.startsAtIndexWith (c :: d :: rest) 0 m) = false := by
              rw [List.find?_eq_none] at hf
              rw [List.any_eq_false]
              exact fun m hm => by simpa using hf m hm
            rw [this]; rfl
          | some m =>
            have : Facts.H.cosmeticMarkers.any (fun m => H.startsAtIndexWith (c :: d :: rest) 0 m) = true := by
              rw [List.any_eq_true]
              exact ⟨m, List.mem_of_find?_eq_some hf, List.find?_some hf⟩
            rw [this]; rfl

/-- `inHostsComment` (repair of D16): the two models are the same function. -/
theorem inHostsComment_eq (text : Bytes) (idx : Nat) : E.inHostsComment text idx = H.inHostsComment text idx := rfl

/-- `findCosmeticRuleMarker`: the two models agree on every line. -/
theorem findMarkerLoop_eq (markers : List Bytes) (text : Bytes) (fcs : Bytes) :
    E.findMarkerLoop markers text fcs = .ok (H.findCosmeticRuleMarkerWith fcs markers text) := by
  induction fcs with
  | nil => rfl
  | cons fc rest ih =>
    unfold E.findMarkerLoop H.findCosmeticRuleMarkerWith
    cases hi : indexByte text fc with
    | none => simpa using ih
    | some startIndex =>
      have hlt : startIndex < text.length := E.indexByte_lt hi
      simp only
      -- the `inHostsComment` test (D16) and the marker search at startIndex, shared by both branches
      have hfind : (if E.inHostsComment text startIndex = true then E.findMarkerLoop markers text rest
            else E.firstMarkerAt text startIndex markers >>= fun x =>
              match x with
              | some m => pure (some (startIndex, m))
              | none => E.findMarkerLoop markers text rest) =
          .ok (if H.inHostsComment text startIndex = true then H.findCosmeticRuleMarkerWith rest markers text
            else match markers.find? (fun m => H.startsAtIndexWith text startIndex m) with
              | some m => some (startIndex, m)
              | none => H.findCosmeticRuleMarkerWith rest markers text) := by
        rw [inHostsComment_eq]
        cases H.inHostsComment text startIndex with
        | true => simpa using ih
        | false =>
          simp only [Bool.false_eq_true, if_false]
          rw [firstMarkerAt_eq text startIndex (by omega)]
          simp only [bind, Except.bind]
          cases List.find? (fun m => H.startsAtIndexWith text startIndex m) markers with
          | none => exact ih
          | some m => rfl
      by_cases h0 : startIndex > 0
      · have hp : startIndex - 1 < text.length := by omega
        have e : E.idxC text (startIndex - 1) = .ok text[startIndex - 1] := E.idxC_ok' hp
        have e' : text[startIndex - 1]? = some text[startIndex - 1] := List.getElem?_eq_getElem hp
        rw [if_pos h0, e, e']
        simp only [bind, Except.bind, pure, Except.pure, decide_eq_true h0, Bool.true_and, Option.some_beq_some]
        cases hb : (text[startIndex - 1] == ch ' ' || text[startIndex - 1] == ch '\t') with
        | true => simp only [if_true]; exact ih
        | false =>
          simp only [Bool.false_eq_true, if_false]
          exact hfind
      · rw [if_neg h0]
        simp only [bind, Except.bind, pure, Except.pure, decide_eq_false h0, Bool.false_and,
          Bool.false_eq_true, if_false]
        exact hfind

theorem findCosmeticRuleMarker_eq (text : Bytes) :
    E.findCosmeticRuleMarker text = .ok (H.findCosmeticRuleMarker text) := by
  unfold E.findCosmeticRuleMarker H.findCosmeticRuleMarker
  rw [markers_same.1, markers_same.2]
  exact findMarkerLoop_eq _ _ _

/-- What the complete model does for each dispatch outcome. -/
def kindResult (ext : Ext) (reShortcut : Bytes → Bytes) (l : Bytes) (id : Int) : H.RuleKind → E.PE (Option Rule)
  | .skipped => .ok none
  | .cosmetic => (E.newCosmeticRule trimSpace l id).map fun c => some (.cos c)
  | .host h => .ok (some (.host h))
  | .network => (parseNetRuleFull ext reShortcut l id).map fun r => some (.net r)
  | .crash => .error .panic

theorem newRuleFull_kind (ext : Ext) (reShortcut : Bytes → Bytes) (line : Bytes) (id : Int) :
    newRuleFull ext reShortcut line id =
      kindResult ext reShortcut (trimSpace line) id (H.newRuleKind ext isDomainNameB (trimSpace line) id) := by
  unfold newRuleFull E.newRule H.newRuleKind
  simp only [fullRuleExt, isComment_eq, findCosmeticRuleMarker_eq, bind, Except.bind, pure, Except.pure]
  generalize trimSpace line = l
  cases he : l.isEmpty with
  | true => rfl
  | false =>
    simp only [Bool.false_eq_true, if_false, Bool.false_or]
    cases hc : H.isCommentLine l with
    | true => rfl
    | false =>
      simp only [Bool.false_eq_true, if_false, H.isCosmeticLine]
      split
      · rename_i val hm
        simp only [hm, Option.isSome_some, if_true, kindResult]
        cases E.newCosmeticRule trimSpace l id <;> rfl
      · rename_i hm
        simp only [hm, Option.isSome_none, Bool.false_eq_true, if_false, hostParam]
        cases hh : H.newHostRule ext isDomainNameB l id with
        | ok h => rfl
        | error e =>
          cases e with
          | panic => exact absurd hh (H.c18_total ext isDomainNameB l id)
          | reject =>
            simp only [kindResult, parseNetRuleFull]
            cases E.parseNetRule (fullParseExt ext reShortcut) l id <;> rfl

end UF.I2

import UF.Compose2.NewRuleFull
import UF.Compose2.ShortcutMask
/-
  Integration (group I2), part 5: what `NewNetworkRule` (group E's `parseNetRule`) stores as the
  pattern and the shortcut — the two fields the composition with groups A and G needs:

      pattern  = `normalize` (the `/*` → `^` rewrite) of the pattern `parseRuleText` returns,
      shortcut = `loadShortcut` of group A's `findShortcut pattern` for mask rules,
                 `loadShortcut` of the `/regex/` shortcut oracle for regex rules.

  Group E's and group A's models of `findShortcut` (written independently, `PE` vs `Option`) are shown
  to be the same function.
-/
namespace UF.I2
open UF Bytes E

/-! ### The two models of `findShortcut` agree -/

def peOfOpt {α} : Option α → PE α
  | some a => .ok a
  | none => .error .panic

theorem sliceC_eq (s : Bytes) (i j : Nat) : sliceC s i j = peOfOpt (slice? s i j) := by
  unfold sliceC peOfOpt
  cases slice? s i j <;> rfl

theorem lit_specials : lit "*^|" = maskSpecials := by decide

theorem findShortcutLoop_eq (fuel : Nat) (p s : Bytes) :
    E.findShortcutLoop fuel p s = peOfOpt (UF.findShortcutLoop fuel p s) := by
  induction fuel generalizing p s with
  | zero => rfl
  | succ fuel ih =>
    simp only [E.findShortcutLoop, UF.findShortcutLoop, lit_specials]
    split
    · rfl
    · cases indexAny p maskSpecials with
      | none => simp only; split <;> rfl
      | some i =>
        simp only [sliceC_eq]
        by_cases hi : i > s.length
        · simp only [hi, if_true]
          cases slice? p 0 i with
          | none => rfl
          | some s' =>
            simp only [peOfOpt, bind, Except.bind, Option.bind]
            cases slice? p (i + 1) p.length with
            | none => rfl
            | some rest => exact ih rest s'
        · simp only [hi, if_false]
          simp only [peOfOpt, bind, Except.bind, Option.bind, pure, Except.pure]
          cases slice? p (i + 1) p.length with
          | none => rfl
          | some rest => exact ih rest s

theorem findShortcut_eq (p : Bytes) : E.findShortcut p = peOfOpt (UF.findShortcut p) :=
  findShortcutLoop_eq _ p []

theorem findShortcut_ok_iff (p w : Bytes) : E.findShortcut p = .ok w ↔ UF.findShortcut p = some w := by
  rw [findShortcut_eq]
  cases UF.findShortcut p <;> simp [peOfOpt]

theorem isRegexPattern_E (p : Bytes) : E.isRegexPattern p = UF.isRegexPattern p := rfl

/-! ### The option loop leaves pattern, whitelist flag and (empty) shortcut alone -/

structure KInv (pat : Bytes) (wl : Bool) (r : NetRule) : Prop where
  pattern : r.pattern = pat
  whitelist : r.whitelist = wl
  shortcut : r.shortcut = []

theorem setOptionEnabled_kinv {pat wl} {r r' : NetRule} {opt : Nat} {en : Bool}
    (hr : KInv pat wl r) (h : setOptionEnabled r opt en = .ok r') : KInv pat wl r' := by
  obtain ⟨h1, h2, h3⟩ := hr
  unfold setOptionEnabled at h
  split at h
  · cases h
  · split at h
    · cases h
    · split at h <;> (cases h; exact ⟨h1, h2, h3⟩)

theorem setIgnoringError_kinv {pat wl} {r : NetRule} {opt : Nat}
    (hr : KInv pat wl r) : KInv pat wl (setIgnoringError r opt) := by
  unfold setIgnoringError
  split
  · next r' hx => exact setOptionEnabled_kinv hr hx
  · exact hr

theorem setRequestType_kinv {pat wl} {r : NetRule} {ty : Nat} {p : Bool}
    (hr : KInv pat wl r) : KInv pat wl (setRequestType r ty p) := by
  obtain ⟨h1, h2, h3⟩ := hr
  unfold setRequestType
  split <;> exact ⟨h1, h2, h3⟩

theorem loadOption_kinv {px : ParseExt} {pat wl} {r r' : NetRule} {name value : Bytes}
    (hr : KInv pat wl r) (h : loadOption px r name value = .ok r') : KInv pat wl r' := by
  have hr0 := hr
  obtain ⟨h1, h2, h3⟩ := hr0
  unfold loadOption at h
  iterate 6 (refine ite_ok_elim h (setOptionEnabled_kinv hr) ?_; clear h; intro h)
  -- dnstype
  refine ite_ok_elim h ?_ ?_ <;> clear h <;> intro h
  · obtain ⟨⟨p, rs⟩, hx, h⟩ := bind_ok_elim h
    cases pure_ok_elim h
    exact ⟨h1, h2, h3⟩
  -- dnsrewrite
  refine ite_ok_elim h ?_ ?_ <;> clear h <;> intro h
  · split at h
    · cases pure_ok_elim h
      exact ⟨h1, h2, h3⟩
    · cases h
  -- domain
  refine ite_ok_elim h ?_ ?_ <;> clear h <;> intro h
  · obtain ⟨⟨p, rs⟩, hx, h⟩ := bind_ok_elim h
    cases pure_ok_elim h
    exact ⟨h1, h2, h3⟩
  -- denyallow
  refine ite_ok_elim h ?_ ?_ <;> clear h <;> intro h
  · obtain ⟨⟨p, rs⟩, hx, h⟩ := bind_ok_elim h
    refine ite_ok_elim h ?_ ?_ <;> clear h <;> intro h
    · cases h
    · cases pure_ok_elim h
      exact ⟨h1, h2, h3⟩
  -- ctag
  refine ite_ok_elim h ?_ ?_ <;> clear h <;> intro h
  · obtain ⟨⟨p, rs⟩, hx, h⟩ := bind_ok_elim h
    cases pure_ok_elim h
    exact ⟨h1, h2, h3⟩
  -- client
  refine ite_ok_elim h ?_ ?_ <;> clear h <;> intro h
  · obtain ⟨⟨p, rs⟩, hx, h⟩ := bind_ok_elim h
    cases pure_ok_elim h
    exact ⟨h1, h2, h3⟩
  iterate 7 (refine ite_ok_elim h (setOptionEnabled_kinv hr) ?_; clear h; intro h)
  -- ~extension
  refine ite_ok_elim h ?_ ?_ <;> clear h <;> intro h
  · cases pure_ok_elim h
    exact ⟨h1, h2, h3⟩
  -- document
  refine ite_ok_elim h ?_ ?_ <;> clear h <;> intro h
  · obtain ⟨r1, hx, h⟩ := bind_ok_elim h
    cases pure_ok_elim h
    exact setIgnoringError_kinv (setIgnoringError_kinv (setIgnoringError_kinv (setIgnoringError_kinv
      (setOptionEnabled_kinv hr hx))))
  iterate 4 (refine ite_ok_elim h (setOptionEnabled_kinv hr) ?_; clear h; intro h)
  -- content types
  split at h
  · cases pure_ok_elim h
    exact setRequestType_kinv hr
  · refine ite_ok_elim h ?_ ?_ <;> clear h <;> intro h
    · split at h
      · cases pure_ok_elim h
        exact setRequestType_kinv hr
      · cases h
    · cases h

theorem loadOptionsStep_kinv {px : ParseExt} {pat wl} {r r' : NetRule} {o : Bytes}
    (hr : KInv pat wl r) (h : loadOptionsStep px r o = .ok r') : KInv pat wl r' := by
  unfold loadOptionsStep at h
  split at h
  · refine ite_ok_elim h ?_ ?_ <;> clear h <;> intro h
    · obtain ⟨name, _, h⟩ := bind_ok_elim h
      obtain ⟨value, _, h⟩ := bind_ok_elim h
      exact loadOption_kinv hr h
    · exact loadOption_kinv hr h
  · exact loadOption_kinv hr h

theorem loadOptions_kinv {px : ParseExt} {pat wl} {r r' : NetRule} {opts : Bytes}
    (hr : KInv pat wl r) (h : loadOptions px r opts = .ok r') : KInv pat wl r' := by
  unfold loadOptions at h
  refine ite_ok_elim h ?_ ?_ <;> clear h <;> intro h
  · cases pure_ok_elim h
    exact hr
  · obtain ⟨parts, _, h⟩ := bind_ok_elim h
    obtain ⟨r1, hf, h⟩ := bind_ok_elim h
    have hr1 : KInv pat wl r1 :=
      foldlM_inv (KInv pat wl) (loadOptionsStep px) (fun _ _ _ hb hs => loadOptionsStep_kinv hb hs) parts r r1 hr hf
    refine ite_ok_elim h ?_ ?_ <;> clear h <;> intro h
    · cases pure_ok_elim h
      obtain ⟨h1, h2, h3⟩ := hr1
      exact ⟨h1, h2, h3⟩
    · cases pure_ok_elim h
      exact hr1

/-! ### Pattern and shortcut of a parsed rule -/

/-- What `loadShortcut` stores, in terms of group A's model. -/
def ShortcutOK (px : ParseExt) (r : NetRule) : Prop :=
  (UF.isRegexPattern r.pattern = true ∧ r.shortcut = loadShortcut (px.regexpShortcut r.pattern)) ∨
  (UF.isRegexPattern r.pattern = false ∧ ∃ w, UF.findShortcut r.pattern = some w ∧ r.shortcut = loadShortcut w)

theorem loadShortcut_def (sc : Bytes) : (if sc.length > 1 then toLower sc else []) = loadShortcut sc := rfl

theorem normalize_step (p : Bytes) (h : hasSuffix p (lit "/*") = true) :
    sliceC p 0 (p.length - 2) = .ok (p.take (p.length - 2)) ∧
    MaskSpec.normalize p = p.take (p.length - 2) ++ lit "^" := by
  have hl : lit "/*" = [47, 42] := by decide
  have hc : lit "^" = [94] := by decide
  constructor
  · rw [sliceC_eq]
    unfold slice?
    rw [if_pos ⟨Nat.zero_le _, Nat.sub_le _ _⟩]
    simp [peOfOpt]
  · unfold MaskSpec.normalize
    rw [← hl, h, if_pos rfl, hc]

theorem normalize_id (p : Bytes) (h : ¬ hasSuffix p (lit "/*") = true) : MaskSpec.normalize p = p := by
  have hl : lit "/*" = [47, 42] := by decide
  unfold MaskSpec.normalize
  rw [← hl, if_neg h]

/-- The parsed rule's pattern is the normalised pattern of the text, its whitelist flag the `@@` of
    the text, its shortcut what `loadShortcut` computes from the STORED pattern. -/
theorem parseNetRule_pattern {px : ParseExt} {t : Bytes} {id : Int} {r : NetRule}
    (h : parseNetRule px t id = .ok r) :
    ∃ pat opts wl, parseRuleText t = .ok (pat, opts, wl) ∧ r.pattern = MaskSpec.normalize pat ∧
      r.whitelist = wl ∧ ShortcutOK px r := by
  unfold parseNetRule at h
  obtain ⟨⟨pattern, options, whitelist⟩, hprt, h⟩ := bind_ok_elim h
  obtain ⟨r1, hl, h⟩ := bind_ok_elim h
  have hr1 : KInv pattern whitelist r1 := loadOptions_kinv ⟨rfl, rfl, rfl⟩ hl
  refine ⟨pattern, options, whitelist, hprt, ?_⟩
  extract_lets jp at h
  -- the tail of the function: validation, then the shortcut
  have hjp : ∀ r2, KInv (MaskSpec.normalize pattern) whitelist r2 → jp r2 = .ok r →
      r.pattern = MaskSpec.normalize pattern ∧ r.whitelist = whitelist ∧ ShortcutOK px r := by
    intro r2 hr2 h
    obtain ⟨k1, k2, k3⟩ := hr2
    simp only [jp] at h
    refine ite_ok_elim h ?_ ?_ <;> clear h <;> intro h
    · cases h
    · obtain ⟨sc, hsc, h⟩ := bind_ok_elim h
      have hfinal : r.pattern = r2.pattern ∧ r.whitelist = r2.whitelist ∧ r.shortcut = loadShortcut sc := by
        split at h
        · rename_i hlen
          cases pure_ok_elim h
          refine ⟨rfl, rfl, ?_⟩
          simp [loadShortcut, hlen]
        · rename_i hlen
          cases pure_ok_elim h
          refine ⟨rfl, rfl, ?_⟩
          rw [k3]
          simp [loadShortcut, hlen]
      obtain ⟨f1, f2, f3⟩ := hfinal
      refine ⟨f1.trans k1, f2.trans k2, ?_⟩
      unfold ShortcutOK
      rw [f1]
      unfold shortcutCandidate at hsc
      rw [isRegexPattern_E] at hsc
      cases hre : UF.isRegexPattern r2.pattern with
      | true =>
        rw [hre] at hsc
        simp only [if_true] at hsc
        cases pure_ok_elim hsc
        exact .inl ⟨rfl, f3⟩
      | false =>
        rw [hre] at hsc
        simp only [Bool.false_eq_true, if_false] at hsc
        exact .inr ⟨rfl, sc, (findShortcut_ok_iff _ _).1 hsc, f3⟩
  split at h
  · rename_i hsuf
    obtain ⟨p, hp, h⟩ := bind_ok_elim h
    obtain ⟨r2, hp2, h⟩ := bind_ok_elim h
    cases pure_ok_elim hp2
    obtain ⟨k1, k2, k3⟩ := hr1
    rw [k1] at hsuf hp
    obtain ⟨e1, e2⟩ := normalize_step pattern hsuf
    rw [e1] at hp
    cases hp
    refine hjp _ ?_ h
    exact ⟨e2.symm, k2, k3⟩
  · rename_i hsuf
    obtain ⟨r2, hp2, h⟩ := bind_ok_elim h
    cases pure_ok_elim hp2
    obtain ⟨k1, k2, k3⟩ := hr1
    rw [k1] at hsuf
    refine hjp _ ?_ h
    exact ⟨by rw [normalize_id pattern hsuf]; exact k1, k2, k3⟩

end UF.I2

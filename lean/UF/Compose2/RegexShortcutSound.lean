import UF.Compose2.RegexShortcutFactor
import UF.Compose2.Pat
/-
  Integration (group I2), part 11: soundness of the text-level model of `findRegexpShortcut`.

  `sem`: for the expression `r` parsed from the text and the expression `c` actually compiled (the same
  with other fold flags), every match of `c` is described by the items / branches of `r`, and every
  literal `goReq r` requires is a factor of the lower-cased matched text.  Hence the shortcut
  `modelRegexpShortcut` computes is a factor of every lower-cased target the pattern model accepts.
-/
namespace UF.I2
open UF Bytes Re

theorem goItems_empty : goItems .empty = [] := by simp [goItems]
theorem goItems_lit (bs f) : goItems (.lit bs f) = [.lit bs f] := by simp [goItems]
theorem goItems_any : goItems .any = [.other (some (0, [1])) []] := by simp [goItems]
theorem goItems_anyNL : goItems .anyNL = [.other (some (0, [2])) []] := by simp [goItems]
theorem goItems_cls (n rs f) : goItems (.cls n rs f) = [clsItem n rs] := by simp [goItems]
theorem goItems_bol : goItems .bol = [.other none []] := by simp [goItems]
theorem goItems_eol : goItems .eol = [.other none []] := by simp [goItems]
theorem goItems_wordB : goItems .wordB = [.other none []] := by simp [goItems]
theorem goItems_nwordB : goItems .nwordB = [.other none []] := by simp [goItems]
theorem goItems_star (a) : goItems (.star a) = [.other none []] := by simp [goItems]
theorem goItems_quest (a) : goItems (.quest a) = [.other none []] := by simp [goItems]
theorem goItems_cat (a b) : goItems (.cat a b) = goItems a ++ goItems b := by simp [goItems]
theorem goItems_grp (a) : goItems (.grp a) = [.other none (goReq a)] := by simp [goItems]
theorem goItems_plus (a) : goItems (.plus a) = [.other none (goReq a)] := by simp [goItems]
theorem goItems_alt (a b) : goItems (.alt a b) = [.other none (altTopReq (mergeItems (goItems a) :: goBranches b))] := by
  simp [goItems]
theorem goReq_alt (a b) : goReq (.alt a b) = altTopReq (mergeItems (goItems a) :: goBranches b) := by simp [goReq]
theorem goBranches_alt (a b) : goBranches (.alt a b) = mergeItems (goItems a) :: goBranches b := by simp [goBranches]

theorem goReq_nonalt (r : Re) (h : ∀ a b, r ≠ .alt a b) : goReq r = itemsReq (mergeItems (goItems r)) := by
  cases r with
  | alt a b => exact absurd rfl (h a b)
  | _ => simp [goReq]

theorem goBranches_nonalt (r : Re) (h : ∀ a b, r ≠ .alt a b) : goBranches r = [mergeItems (goItems r)] := by
  cases r with
  | alt a b => exact absurd rfl (h a b)
  | _ => simp [goBranches]

/-- From the items to the other two statements, for an expression that is not an alternation. -/
theorem wrap (r : Re) (h : ∀ a b, r ≠ .alt a b) {lw : Bytes} (h1 : Sat (goItems r) lw) :
    Sat (goItems r) lw ∧ BranchSat (goBranches r) lw ∧ (∀ l ∈ goReq r, hasSub lw l = true) := by
  refine ⟨h1, ?_, ?_⟩
  · rw [goBranches_nonalt r h]
    exact ⟨_, List.mem_singleton_self _, h1.merge⟩
  · rw [goReq_nonalt r h]
    exact h1.merge.req

theorem split2 {a b : Re} {s t u : St} {w : Bytes} (h1 : Den a s t) (h2 : Den b t u)
    (hw : s.post = w ++ u.post) : ∃ w1 w2, w = w1 ++ w2 ∧ s.post = w1 ++ t.post ∧ t.post = w2 ++ u.post := by
  obtain ⟨w1, e1, _⟩ := h1.shape
  obtain ⟨w2, e2, _⟩ := h2.shape
  refine ⟨w1, w2, ?_, e1, e2⟩
  exact List.append_cancel_right (bs := u.post) (by rw [← hw, e1, e2]; simp)

theorem trivial_piece (x : Bytes) : Sat [Item.other none []] x :=
  Sat.single_other ⟨fun _ hl => by simp at hl, fun _ hk => by simp at hk⟩

theorem req_piece {req : List Bytes} {x : Bytes} (h : ∀ l ∈ req, hasSub x l = true) :
    Sat [Item.other none req] x :=
  Sat.single_other ⟨h, fun _ hk => by simp at hk⟩

theorem rep_items (a : Re) (m : Nat) (mx : Option Nat) :
    ∃ key, goItems (.rep a m mx) = [.other key (if m > 0 then goReq a else [])] ∧
      ∀ k, key ≠ some (0, 0 :: k) := by
  cases mx with
  | none => exact ⟨none, by simp [goItems], fun _ h => by simp at h⟩
  | some n =>
    cases hb : baseKey a with
    | none => exact ⟨none, by simp [goItems, hb], fun _ h => by simp at h⟩
    | some k =>
      by_cases hmn : m = n
      · exact ⟨some (m + 1, k), by simp [goItems, hb, hmn], fun _ h => by simp at h⟩
      · exact ⟨none, by simp [goItems, hb, hmn], fun _ h => by simp at h⟩

theorem rep_sat (a : Re) (m : Nat) (mx : Option Nat) {x : Bytes}
    (h : m > 0 → ∀ l ∈ goReq a, hasSub x l = true) : Sat (goItems (.rep a m mx)) x := by
  obtain ⟨key, e, hk⟩ := rep_items a m mx
  rw [e]
  apply Sat.single_other
  refine ⟨?_, fun k hk' => absurd hk' (hk k)⟩
  intro l hl
  by_cases hm : m > 0
  · rw [if_pos hm] at hl; exact h hm l hl
  · rw [if_neg hm] at hl; simp at hl

theorem post_self {s : St} {w : Bytes} (h : s.post = w ++ s.post) : w = [] := by
  have : ([] : Bytes) ++ s.post = w ++ s.post := by simpa using h
  exact (List.append_cancel_right this).symm

/-- The semantic core. -/
theorem sem (r : Re) : ∀ c, FoldRel r c → ∀ s t w, Den c s t → s.post = w ++ t.post →
    Sat (goItems r) (toLower w) ∧ BranchSat (goBranches r) (toLower w) ∧
      (∀ l ∈ goReq r, hasSub (toLower w) l = true) := by
  induction r with
  | empty =>
    intro c hrel s t w hd hw
    cases hrel; cases hd
    have := post_self hw; subst this
    exact wrap .empty (fun _ _ h => by cases h) (by rw [goItems_empty]; exact Sat.nil)
  | lit bs f =>
    intro c hrel s t w hd hw
    cases hrel
    cases hd with
    | lit h =>
      obtain ⟨x, h1, _, h3⟩ := litStep_shape _ _ _ _ h
      have : w = x := List.append_cancel_right (hw.symm.trans h1)
      subst this
      refine wrap (.lit bs f) (fun _ _ h => by cases h) ?_
      rw [h3, goItems_lit]
      exact Sat.single_lit bs f
  | any =>
    intro c hrel s t w hd hw
    cases hrel
    exact wrap .any (fun _ _ h => by cases h)
      (by rw [goItems_any]; exact Sat.single_other ⟨fun _ hl => by simp at hl, fun _ hk => by simp at hk⟩)
  | anyNL =>
    intro c hrel s t w hd hw
    cases hrel
    exact wrap .anyNL (fun _ _ h => by cases h)
      (by rw [goItems_anyNL]; exact Sat.single_other ⟨fun _ hl => by simp at hl, fun _ hk => by simp at hk⟩)
  | cls neg rs f =>
    intro c hrel s t w hd hw
    cases hrel with
    | cls =>
      cases hd with
      | @cls _ _ _ pre b post hm =>
        have : w = [b] := by
          simp only at hw
          exact (List.append_cancel_right (bs := post) (by simpa using hw.symm))
        subst this
        refine wrap (.cls neg rs f) (fun _ _ h => by cases h) ?_
        simpa [goItems_cls, toLower] using cls_sat neg rs _ b hm
    | clsLit _ _ _ ch g f' hc =>
      -- compiled as the literal `push` makes of the class: the item of the class IS that literal
      cases hd with
      | lit h =>
        obtain ⟨x, h1, _, h3⟩ := litStep_shape _ _ _ _ h
        have : w = x := List.append_cancel_right (hw.symm.trans h1)
        subst this
        refine wrap (.cls neg rs f) (fun _ _ h => by cases h) ?_
        rw [h3, goItems_cls, clsItem_of_clsLit hc]
        exact Sat.single_lit [ch] g
  | bol =>
    intro c hrel s t w hd hw
    cases hrel
    exact wrap .bol (fun _ _ h => by cases h) (by rw [goItems_bol]; exact trivial_piece _)
  | eol =>
    intro c hrel s t w hd hw
    cases hrel
    exact wrap .eol (fun _ _ h => by cases h) (by rw [goItems_eol]; exact trivial_piece _)
  | wordB =>
    intro c hrel s t w hd hw
    cases hrel
    exact wrap .wordB (fun _ _ h => by cases h) (by rw [goItems_wordB]; exact trivial_piece _)
  | nwordB =>
    intro c hrel s t w hd hw
    cases hrel
    exact wrap .nwordB (fun _ _ h => by cases h) (by rw [goItems_nwordB]; exact trivial_piece _)
  | cat a b iha ihb =>
    intro c hrel s u w hd hw
    cases hrel with
    | cat ra rb =>
      cases hd with
      | cat h1 h2 =>
        obtain ⟨w1, w2, rfl, e1, e2⟩ := split2 h1 h2 hw
        refine wrap (.cat a b) (fun _ _ h => by cases h) ?_
        rw [toLower_append, goItems_cat]
        exact Sat.append (iha _ ra _ _ _ h1 e1).1 (ihb _ rb _ _ _ h2 e2).1
  | alt a b iha ihb =>
    intro c hrel s t w hd hw
    cases hrel with
    | alt ra rb =>
      have hbr : BranchSat (goBranches (.alt a b)) (toLower w) := by
        rw [goBranches_alt]
        cases hd with
        | altL h => exact ⟨_, List.mem_cons_self, (iha _ ra _ _ _ h hw).1.merge⟩
        | altR h =>
          obtain ⟨br, hbr, hs⟩ := (ihb _ rb _ _ _ h hw).2.1
          exact ⟨br, List.mem_cons_of_mem _ hbr, hs⟩
      have hreq : ∀ l ∈ goReq (.alt a b), hasSub (toLower w) l = true := by
        rw [goReq_alt]
        rw [goBranches_alt] at hbr
        exact altTopReq_sound hbr
      refine ⟨?_, hbr, hreq⟩
      rw [goItems_alt]
      rw [goReq_alt] at hreq
      exact req_piece hreq
  | star a _ =>
    intro c hrel s t w hd hw
    cases hrel
    exact wrap (.star a) (fun _ _ h => by cases h) (by rw [goItems_star]; exact trivial_piece _)
  | plus a iha =>
    intro c hrel s u w hd hw
    cases hrel with
    | plus ra =>
      cases hd with
      | plus h1 h2 =>
        obtain ⟨w1, w2, rfl, e1, e2⟩ := split2 h1 h2 hw
        refine wrap (.plus a) (fun _ _ h => by cases h) ?_
        rw [goItems_plus]
        apply req_piece
        intro l hl
        rw [toLower_append]
        exact hasSub_append_left _ ((iha _ ra _ _ _ h1 e1).2.2 l hl)
  | quest a _ =>
    intro c hrel s t w hd hw
    cases hrel
    exact wrap (.quest a) (fun _ _ h => by cases h) (by rw [goItems_quest]; exact trivial_piece _)
  | rep a m mx iha =>
    intro c hrel s u w hd hw
    cases hrel with
    | rep _ _ ra =>
      refine wrap (.rep a m mx) (fun _ _ h => by cases h) ?_
      apply rep_sat
      intro hm l hl
      cases hd with
      | repU0 _ => omega
      | repB0 => omega
      | repBO _ _ => omega
      | repUS h1 h2 =>
        obtain ⟨w1, w2, rfl, e1, e2⟩ := split2 h1 h2 hw
        rw [toLower_append]
        exact hasSub_append_left _ ((iha _ ra _ _ _ h1 e1).2.2 l hl)
      | repBS h1 h2 =>
        obtain ⟨w1, w2, rfl, e1, e2⟩ := split2 h1 h2 hw
        rw [toLower_append]
        exact hasSub_append_left _ ((iha _ ra _ _ _ h1 e1).2.2 l hl)
  | grp a iha =>
    intro c hrel s t w hd hw
    cases hrel with
    | grp ra =>
      cases hd with
      | grp h =>
        refine wrap (.grp a) (fun _ _ h => by cases h) ?_
        rw [goItems_grp]
        exact req_piece (iha _ ra _ _ _ h hw).2.2

/-- Every literal Go's tree of the text requires is a factor of the lower-cased subject of every
    successful search of the compiled expression (`c` = the tree with any fold flags). -/
theorem goReq_search {r c : Re} (hrel : FoldRel r c) {u : Bytes} (h : search c u = true) :
    ∀ l ∈ goReq r, hasSub (toLower u) l = true := by
  intro l hl
  obtain ⟨x, y, z, rfl, hd⟩ := (search_iff c _).1 h
  have := (sem r c hrel _ _ y hd rfl).2.2 l hl
  rw [toLower_append, toLower_append]
  exact hasSub_append_left _ (hasSub_append_right _ this)

/-- Whenever the text-level shortcut model answers, the answer is empty or the candidate selected
    against `goReq` of the parsed text (the text has no `?`, hence no flag prefix). -/
theorem modelRegexpShortcut_some {p sc : Bytes} (h : modelRegexpShortcut p = some sc) :
    sc = [] ∨ (((p.drop 1).dropLast).any (· == 63) = false ∧
      ∃ tree, parseCore ((p.drop 1).dropLast) = some tree ∧
        sc = pickLongest (regexParts ((p.drop 1).dropLast)) (goReq tree)) := by
  unfold modelRegexpShortcut at h
  simp only at h
  split at h
  · cases h
  · split at h
    · cases h; exact .inl rfl
    · rename_i hq
      right
      refine ⟨by simpa using Bool.eq_false_iff.2 hq, ?_⟩
      cases hp : parseCore ((p.drop 1).dropLast) with
      | none => rw [hp] at h; cases h
      | some tree =>
        rw [hp] at h
        refine ⟨tree, rfl, ?_⟩
        simp only at h
        split at h
        · split at h
          · split at h
            · cases h; rfl
            · cases h
          · cases h
        · cases h; rfl

end UF.I2

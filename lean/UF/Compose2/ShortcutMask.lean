import UF.Compose2.MatchFull
import UF.Proofs.Shortcut
import UF.Proofs.MaskMain
import UF.Spec.Shortcut
/-
  Integration (group I2), part 3: the hypothesis `hcompiled` of group A's `c05_mask_rule`
  ("the compiled expression is `mkCat (as ++ litAtoms fold w ++ bs)`") discharged from group G's
  `maskAst`: the literal run chosen by `findShortcut` appears as consecutive literal atoms of
  `maskAst (tokenize p) mc`.
-/
namespace UF.I2
open UF Bytes Re MaskSpec Mask

/-! ### A run free of `|` survives `splitMask` -/

theorem strip_head {r x w z : Bytes} (h : (124 : UInt8) :: r = x ++ w ++ z) (hw : w ≠ [])
    (h124 : (124 : UInt8) ∉ w) : ∃ x1, x = 124 :: x1 ∧ r = x1 ++ w ++ z := by
  cases x with
  | nil =>
    cases w with
    | nil => exact absurd rfl hw
    | cons a w =>
      simp only [List.nil_append, List.cons_append, List.cons.injEq] at h
      exact absurd (h.1 ▸ List.mem_cons_self) h124
  | cons a x1 =>
    simp only [List.cons_append, List.cons.injEq] at h
    exact ⟨x1, by rw [h.1], h.2⟩

theorem strip_last {r x w z : Bytes} (h : r = x ++ w ++ z) (hl : r.getLast? = some 124) (hw : w ≠ [])
    (h124 : (124 : UInt8) ∉ w) : ∃ z1, z = z1 ++ [124] ∧ r.dropLast = x ++ w ++ z1 := by
  rcases List.eq_nil_or_concat z with rfl | ⟨z1, c, rfl⟩
  · exfalso
    rcases List.eq_nil_or_concat w with rfl | ⟨w1, d, rfl⟩
    · exact hw rfl
    · simp only [List.concat_eq_append] at *
      have e : x ++ (w1 ++ [d]) ++ [] = (x ++ w1) ++ [d] := by simp
      rw [h, e, List.getLast?_concat] at hl
      cases hl
      exact h124 (by simp)
  · simp only [List.concat_eq_append] at *
    have e : x ++ w ++ (z1 ++ [c]) = (x ++ w ++ z1) ++ [c] := by simp
    rw [h, e, List.getLast?_concat] at hl
    cases hl
    exact ⟨z1, rfl, by rw [h, e, List.dropLast_concat]⟩

theorem splitEnd_run {r x w z : Bytes} (h : r = x ++ w ++ z) (hw : w ≠ []) (h124 : (124 : UInt8) ∉ w) :
    ∃ z', (splitEnd r).1 = x ++ w ++ z' := by
  unfold splitEnd
  split
  · rename_i hl
    obtain ⟨z1, _, hd⟩ := strip_last h (by simpa using hl) hw h124
    exact ⟨z1, hd⟩
  · exact ⟨z, h⟩

/-- The body bytes of a pattern contain every non-empty pipe-free run of the pattern. -/
theorem splitMask_run {p x w z : Bytes} (h : p = x ++ w ++ z) (hw : w ≠ []) (h124 : (124 : UInt8) ∉ w) :
    ∃ x' z', (splitMask p).2.1 = x' ++ w ++ z' := by
  unfold splitMask
  split
  · rename_i r
    obtain ⟨x1, _, h1⟩ := strip_head h hw h124
    obtain ⟨x2, _, h2⟩ := strip_head h1 hw h124
    obtain ⟨z', hz⟩ := splitEnd_run h2 hw h124
    exact ⟨x2, z', hz⟩
  · rename_i r _
    obtain ⟨x1, _, h1⟩ := strip_head h hw h124
    obtain ⟨z', hz⟩ := splitEnd_run h1 hw h124
    exact ⟨x1, z', hz⟩
  · obtain ⟨z', hz⟩ := splitEnd_run h hw h124
    exact ⟨x, z', hz⟩

theorem tokenize_body (p : Bytes) : (tokenize p).body = (splitMask p).2.1.map tokOfByte := rfl

/-- The atoms of a run free of `*` and `^` are its literal atoms. -/
theorem run_atoms (w : Bytes) (hs : ∀ c ∈ w, isMaskSpecial c = false) :
    (w.map tokOfByte).map tokAtom = litAtoms false w := by
  induction w with
  | nil => rfl
  | cons c w ih =>
    have hc := hs c List.mem_cons_self
    simp only [isMaskSpecial, Bool.or_eq_false_iff, beq_eq_false_iff_ne] at hc
    have h1 : tokOfByte c = .lit c := by
      simp [tokOfByte, hc.1.1, hc.1.2]
    simp only [List.map_cons, h1, tokAtom, litAtom, litAtoms] at ih ⊢
    rw [ih (fun d hd => hs d (List.mem_cons_of_mem _ hd))]

/-- A maximal run of the pattern shows as consecutive literal atoms of the pattern's expression. -/
theorem maskAtoms_run {p w : Bytes} (hrun : IsMaskRun p w) (hw : w ≠ []) :
    ∃ as bs, maskAtoms (tokenize p) = as ++ litAtoms false w ++ bs := by
  obtain ⟨x, z, hp, hs, _, _⟩ := hrun
  have h124 : (124 : UInt8) ∉ w := by
    intro hm
    have := hs 124 hm
    simp [isMaskSpecial] at this
  obtain ⟨x', z', hb⟩ := splitMask_run hp hw h124
  refine ⟨startAtoms (tokenize p).start ++ (x'.map tokOfByte).map tokAtom,
          (z'.map tokOfByte).map tokAtom ++ endAtoms (tokenize p).endPipe, ?_⟩
  unfold maskAtoms
  rw [tokenize_body, hb]
  simp only [List.map_append, run_atoms w hs, List.append_assoc]

/-- … with or without `$match-case`. -/
theorem maskAst_run {p w : Bytes} (mc : Bool) (hrun : IsMaskRun p w) (hw : w ≠ []) :
    ∃ as bs fold, maskAst (tokenize p) mc = mkCat (as ++ litAtoms fold w ++ bs) := by
  obtain ⟨as, bs, h⟩ := maskAtoms_run hrun hw
  cases mc with
  | true => exact ⟨as, bs, false, by simp [maskAst, h]⟩
  | false =>
    refine ⟨as.map foldCase, bs.map foldCase, true, ?_⟩
    simp only [maskAst, Bool.false_eq_true, if_false, foldCase_mkCat, h, List.map_append,
      foldCase_litAtoms]

/-! ### Any-URL patterns have no shortcut -/

theorem findShortcut_any {p w : Bytes} (h : isAnyPattern p = true) (hf : findShortcut p = some w) : w = [] := by
  simp only [isAnyPattern, Bool.or_eq_true, beq_iff_eq] at h
  have e1 : findShortcut Facts.MaskStartURL = some [] := by decide
  have e2 : findShortcut Facts.MaskPipe = some [] := by decide
  have e3 : findShortcut Facts.MaskAnyCharacter = some [] := by decide
  have e4 : findShortcut [] = some [] := by decide
  rcases h with ((h | h) | h) | h <;> subst h
  · rw [e1] at hf; cases hf; rfl
  · rw [e2] at hf; cases hf; rfl
  · rw [e3] at hf; cases hf; rfl
  · rw [e4] at hf; cases hf; rfl

theorem search_empty (u : Bytes) : search (mkCat []) u = true := by
  cases u <;> simp [search, searchFrom, mkCat, Re.m]

/-- What `compiledAccepts` is on an ASCII mask pattern that is not an any-URL pattern. -/
theorem compiledAccepts_search {p : Bytes} (mc : Bool) (u : Bytes) (hp : ∀ b ∈ p, b < 128)
    (h1 : isAnyPattern p = false) (h2 : Mask.isRegexPattern p = false) :
    compiledAccepts p mc u = search (maskAst (tokenize p) mc) u := by
  obtain ⟨t, ht, hparse⟩ := prepare_parse p hp h1 h2 mc
  simp only [compiledAccepts, ht, hparse]

/-- The interface lemma: whatever the compiled matcher of an ASCII mask pattern accepts is accepted by
    a concatenation in which the run chosen by `findShortcut` appears as literal atoms. -/
theorem compiled_has_run {p w : Bytes} (mc : Bool) (u : Bytes) (hp : ∀ b ∈ p, b < 128)
    (h2 : UF.isRegexPattern p = false) (hf : findShortcut p = some w)
    (h : compiledAccepts p mc u = true) :
    ∃ as bs fold, search (mkCat (as ++ litAtoms fold w ++ bs)) u = true := by
  by_cases hw : w = []
  · subst hw
    exact ⟨[], [], false, by simpa [litAtoms] using search_empty u⟩
  · have h1 : isAnyPattern p = false := by
      cases ha : isAnyPattern p with
      | false => rfl
      | true => exact absurd (findShortcut_any ha hf) hw
    obtain ⟨r, hr, hrun⟩ := findShortcut_inv p
    rw [hf] at hr
    cases hr
    rcases hrun with h0 | hrun
    · exact absurd h0 hw
    · obtain ⟨as, bs, fold, hast⟩ := maskAst_run mc hrun hw
      refine ⟨as, bs, fold, ?_⟩
      rw [← hast, ← compiledAccepts_search mc u hp h1 (by rw [isRegexPattern_mask]; exact h2)]
      exact h

end UF.I2

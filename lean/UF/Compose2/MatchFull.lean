import UF.Compose2.Pat
import UF.Spec.Match
import UF.Proofs.ShortcutBytes
/-
  Integration (group I2), part 2: `NetworkRule.Match` with the pattern oracle instantiated, and the
  reference of C04 with the pattern conjunct spelled out as the documented mask language.
-/
namespace UF.I2
open UF Bytes

/-- The pattern conjunct of the reference for mask rules: the documented mask language of the
    (stored) pattern accepts the target — the URL, or the bare hostname for hostname requests. -/
def specPatternMask (r : NetRule) (q : Request) : Bool :=
  MaskSpec.maskAccepts (MaskSpec.tokenize r.pattern) (r.isEnabled Facts.OptionMatchCase) (specTarget r q)

/-- The reference of C04 for mask rules, with NO oracle for the pattern: shortcut, every modifier as a
    set-membership statement (`specMatch`'s conjuncts), and the mask language of the pattern. -/
def specMatchFull (ext : Ext) (r : NetRule) (q : Request) : Bool :=
  hasSub q.urlLower r.shortcut &&
  specThirdParty r q &&
  specReqType r q.reqType &&
  specDenyallow ext r q &&
  specSourceDomain ext r q &&
  specDnsType r q &&
  specCTag r q &&
  specClient r q &&
  specPatternMask r q

/-- The same without the shortcut pre-check (C05: it is implied by the pattern). -/
def specMatchNoShortcut (ext : Ext) (r : NetRule) (q : Request) : Bool :=
  specThirdParty r q &&
  specReqType r q.reqType &&
  specDenyallow ext r q &&
  specSourceDomain ext r q &&
  specDnsType r q &&
  specCTag r q &&
  specClient r q &&
  specPatternMask r q

/-- The target `matchPattern` hands to the compiled pattern. -/
def matchTarget (r : NetRule) (q : Request) : Bytes :=
  if shouldMatchHostname r q then q.hostname else q.url

theorem matchPattern_withModelPat (ext : Ext) (r : NetRule) (q : Request) :
    matchPattern (withModelPat ext) r q =
      modelPatD r.pattern (r.isEnabled Facts.OptionMatchCase) (matchTarget r q) := rfl

/-- The reference's target is the implementation's target. -/
theorem specTarget_eq (r : NetRule) (q : Request) : specTarget r q = matchTarget r q := by
  unfold specTarget matchTarget shouldMatchHostname
  cases q.isHostnameRequest <;> simp

/-- Is the whole of `Match` decided by the models on this input?  Either the pattern answer is in the
    models' domain, or it is not needed (another conjunct already fails). -/
def matchDecided (ext : Ext) (r : NetRule) (q : Request) : Bool :=
  (modelPat r.pattern (r.isEnabled Facts.OptionMatchCase) (matchTarget r q)).isSome ||
  !(NetRule.matches { ext with pat := fun _ _ _ => true } r q)

/-- The modifiers' conjuncts of the reference do not look at the pattern oracle. -/
theorem specDenyallow_withModelPat (ext : Ext) (r : NetRule) (q : Request) :
    specDenyallow (withModelPat ext) r q = specDenyallow ext r q := rfl
theorem specSourceDomain_withModelPat (ext : Ext) (r : NetRule) (q : Request) :
    specSourceDomain (withModelPat ext) r q = specSourceDomain ext r q := rfl

theorem specMatch_withModelPat (ext : Ext) (r : NetRule) (q : Request)
    (hd : MaskDomain r.pattern (specTarget r q)) :
    specMatch (withModelPat ext) r q = specMatchFull ext r q := by
  unfold specMatch specMatchFull specPattern specPatternMask
  rw [specDenyallow_withModelPat, specSourceDomain_withModelPat, withModelPat_pat,
    modelPatD_mask _ hd]

/-- Dropping the shortcut from the rule drops the shortcut conjunct from the reference. -/
theorem specMatchFull_noShortcut (ext : Ext) (r : NetRule) (q : Request) :
    specMatchFull ext ({ r with shortcut := [] } : NetRule) q = specMatchNoShortcut ext r q := by
  show (hasSub q.urlLower [] && specThirdParty r q && specReqType r q.reqType && specDenyallow ext r q &&
    specSourceDomain ext r q && specDnsType r q && specCTag r q && specClient r q && specPatternMask r q) =
    specMatchNoShortcut ext r q
  rw [hasSub_nil, Bool.true_and]
  rfl

end UF.I2

import UF.Compose2.ParsePattern
import UF.Spec.DnsRewriteShape
/-
  Integration (group I2), part 7: a generic invariant principle for the option loop of
  `NewNetworkRule` (every `loadOption` case only writes some of the modifier fields), and its use for
  C10 on the complete parser: the `$dnsrewrite` of a parsed rule is a value group H's `loadDNSRewrite`
  accepted, hence has the published shape.
-/
namespace UF.I2
open UF Bytes E

/-- A property of rule records preserved by every field update the option loop can make. -/
structure FieldInv (px : ParseExt) (P : NetRule → Prop) : Prop where
  enabled : ∀ r x, P r → P { r with enabled := x }
  disabled : ∀ r x, P r → P { r with disabled := x }
  permTypes : ∀ r x, P r → P { r with permTypes := x }
  restrTypes : ∀ r x, P r → P { r with restrTypes := x }
  dns : ∀ r x y, P r → P { r with permDns := x, restrDns := y }
  domains : ∀ r x y, P r → P { r with permDomains := x, restrDomains := y }
  denyallow : ∀ r x, P r → P { r with denyallow := x }
  tags : ∀ r x y, P r → P { r with permTags := x, restrTags := y }
  clients : ∀ r x y, P r → P { r with permClients := x, restrClients := y }
  rewrite : ∀ r v rw, px.loadDNSRewrite v = some rw → P r → P { r with rewrite := some rw }

variable {px : ParseExt} {P : NetRule → Prop}

theorem setOptionEnabled_finv (hP : FieldInv px P) {r r' : NetRule} {opt : Nat} {en : Bool}
    (hr : P r) (h : setOptionEnabled r opt en = .ok r') : P r' := by
  unfold setOptionEnabled at h
  split at h
  · cases h
  · split at h
    · cases h
    · split at h
      · cases h; exact hP.enabled _ _ hr
      · cases h; exact hP.disabled _ _ hr

theorem setIgnoringError_finv (hP : FieldInv px P) {r : NetRule} {opt : Nat}
    (hr : P r) : P (setIgnoringError r opt) := by
  unfold setIgnoringError
  split
  · next r' hx => exact setOptionEnabled_finv hP hr hx
  · exact hr

theorem setRequestType_finv (hP : FieldInv px P) {r : NetRule} {ty : Nat} {p : Bool}
    (hr : P r) : P (setRequestType r ty p) := by
  unfold setRequestType
  split
  · exact hP.permTypes _ _ hr
  · exact hP.restrTypes _ _ hr

theorem loadOption_finv (hP : FieldInv px P) {r r' : NetRule} {name value : Bytes}
    (hr : P r) (h : loadOption px r name value = .ok r') : P r' := by
  unfold loadOption at h
  iterate 6 (refine ite_ok_elim h (setOptionEnabled_finv hP hr) ?_; clear h; intro h)
  -- dnstype
  refine ite_ok_elim h ?_ ?_ <;> clear h <;> intro h
  · obtain ⟨⟨p, rs⟩, hx, h⟩ := bind_ok_elim h
    cases pure_ok_elim h
    exact hP.dns _ _ _ hr
  -- dnsrewrite
  refine ite_ok_elim h ?_ ?_ <;> clear h <;> intro h
  · split at h
    · rename_i rw hrw
      cases pure_ok_elim h
      exact hP.rewrite _ _ _ hrw hr
    · cases h
  -- domain
  refine ite_ok_elim h ?_ ?_ <;> clear h <;> intro h
  · obtain ⟨⟨p, rs⟩, hx, h⟩ := bind_ok_elim h
    cases pure_ok_elim h
    exact hP.domains _ _ _ hr
  -- denyallow
  refine ite_ok_elim h ?_ ?_ <;> clear h <;> intro h
  · obtain ⟨⟨p, rs⟩, hx, h⟩ := bind_ok_elim h
    refine ite_ok_elim h ?_ ?_ <;> clear h <;> intro h
    · cases h
    · cases pure_ok_elim h
      exact hP.denyallow _ _ hr
  -- ctag
  refine ite_ok_elim h ?_ ?_ <;> clear h <;> intro h
  · obtain ⟨⟨p, rs⟩, hx, h⟩ := bind_ok_elim h
    cases pure_ok_elim h
    exact hP.tags _ _ _ hr
  -- client
  refine ite_ok_elim h ?_ ?_ <;> clear h <;> intro h
  · obtain ⟨⟨p, rs⟩, hx, h⟩ := bind_ok_elim h
    cases pure_ok_elim h
    exact hP.clients _ _ _ hr
  iterate 7 (refine ite_ok_elim h (setOptionEnabled_finv hP hr) ?_; clear h; intro h)
  -- ~extension
  refine ite_ok_elim h ?_ ?_ <;> clear h <;> intro h
  · cases pure_ok_elim h
    exact hP.enabled _ _ hr
  -- document
  refine ite_ok_elim h ?_ ?_ <;> clear h <;> intro h
  · obtain ⟨r1, hx, h⟩ := bind_ok_elim h
    cases pure_ok_elim h
    exact setIgnoringError_finv hP (setIgnoringError_finv hP (setIgnoringError_finv hP
      (setIgnoringError_finv hP (setOptionEnabled_finv hP hr hx))))
  iterate 4 (refine ite_ok_elim h (setOptionEnabled_finv hP hr) ?_; clear h; intro h)
  -- content types
  split at h
  · cases pure_ok_elim h
    exact setRequestType_finv hP hr
  · refine ite_ok_elim h ?_ ?_ <;> clear h <;> intro h
    · split at h
      · cases pure_ok_elim h
        exact setRequestType_finv hP hr
      · cases h
    · cases h

theorem loadOptionsStep_finv (hP : FieldInv px P) {r r' : NetRule} {o : Bytes}
    (hr : P r) (h : loadOptionsStep px r o = .ok r') : P r' := by
  unfold loadOptionsStep at h
  split at h
  · refine ite_ok_elim h ?_ ?_ <;> clear h <;> intro h
    · obtain ⟨name, _, h⟩ := bind_ok_elim h
      obtain ⟨value, _, h⟩ := bind_ok_elim h
      exact loadOption_finv hP hr h
    · exact loadOption_finv hP hr h
  · exact loadOption_finv hP hr h

theorem loadOptions_finv (hP : FieldInv px P) {r r' : NetRule} {opts : Bytes}
    (hr : P r) (h : loadOptions px r opts = .ok r') : P r' := by
  unfold loadOptions at h
  refine ite_ok_elim h ?_ ?_ <;> clear h <;> intro h
  · cases pure_ok_elim h
    exact hr
  · obtain ⟨parts, _, h⟩ := bind_ok_elim h
    obtain ⟨r1, hf, h⟩ := bind_ok_elim h
    have hr1 : P r1 :=
      foldlM_inv P (loadOptionsStep px) (fun _ _ _ hb hs => loadOptionsStep_finv hP hb hs) parts r r1 hr hf
    refine ite_ok_elim h ?_ ?_ <;> clear h <;> intro h
    · cases pure_ok_elim h
      exact hP.permTypes _ _ hr1
    · cases pure_ok_elim h
      exact hr1

/-- The whole of `NewNetworkRule`: a property preserved by the field updates of the option loop and
    by the two final writes (pattern, shortcut) holds of the parsed rule if it holds of the initial
    record. -/
theorem parseNetRule_finv (hP : FieldInv px P)
    (hpat : ∀ r x, P r → P { r with pattern := x }) (hsc : ∀ r x, P r → P { r with shortcut := x })
    {t : Bytes} {id : Int} {r : NetRule}
    (h0 : ∀ pat wl, P { text := t, whitelist := wl, listID := id, pattern := pat })
    (h : parseNetRule px t id = .ok r) : P r := by
  unfold parseNetRule at h
  obtain ⟨⟨pattern, options, whitelist⟩, _, h⟩ := bind_ok_elim h
  obtain ⟨r1, hl, h⟩ := bind_ok_elim h
  have hr1 : P r1 := loadOptions_finv hP (h0 pattern whitelist) hl
  extract_lets jp at h
  have hjp : ∀ r2, P r2 → jp r2 = .ok r → P r := by
    intro r2 hr2 h
    simp only [jp] at h
    refine ite_ok_elim h ?_ ?_ <;> clear h <;> intro h
    · cases h
    · obtain ⟨sc, _, h⟩ := bind_ok_elim h
      refine ite_ok_elim h ?_ ?_ <;> clear h <;> intro h
      · cases pure_ok_elim h
        exact hsc _ _ hr2
      · cases pure_ok_elim h
        exact hr2
  refine ite_ok_elim h ?_ ?_ <;> clear h <;> intro h
  · obtain ⟨p, _, h⟩ := bind_ok_elim h
    obtain ⟨r2, hp, h⟩ := bind_ok_elim h
    cases pure_ok_elim hp
    exact hjp _ (hpat _ _ hr1) h
  · obtain ⟨r2, hp, h⟩ := bind_ok_elim h
    cases pure_ok_elim hp
    exact hjp _ hr1 h

/-! ### C10 on the complete parser -/

/-- The rewrite of the record, if any, is a value the `$dnsrewrite` parser accepted. -/
def RewriteFrom (px : ParseExt) (r : NetRule) : Prop :=
  ∀ rw, r.rewrite = some rw → ∃ v, px.loadDNSRewrite v = some rw

theorem rewriteFrom_fieldInv (px : ParseExt) : FieldInv px (RewriteFrom px) where
  enabled := fun _ _ h => h
  disabled := fun _ _ h => h
  permTypes := fun _ _ h => h
  restrTypes := fun _ _ h => h
  dns := fun _ _ _ h => h
  domains := fun _ _ _ h => h
  denyallow := fun _ _ h => h
  tags := fun _ _ _ h => h
  clients := fun _ _ _ h => h
  rewrite := fun _ v rw hv _ rw' hrw' => ⟨v, by
    have : rw = rw' := by simpa using hrw'
    rw [← this]; exact hv⟩

theorem parseNetRule_rewriteFrom {px : ParseExt} {t : Bytes} {id : Int} {r : NetRule}
    (h : parseNetRule px t id = .ok r) : RewriteFrom px r :=
  parseNetRule_finv (rewriteFrom_fieldInv px) (fun _ _ h => h) (fun _ _ h => h)
    (fun _ _ rw hrw => by simp at hrw) h

end UF.I2

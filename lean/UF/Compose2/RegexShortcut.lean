import UF.Model.RegexParse
import UF.Model.Shortcut
/-
  Integration (group I2), part 8: a model of `findRegexpShortcut` FROM THE TEXT of a `/regex/` pattern —
  the last Go-supplied table of the parser.

  * the textual candidate generation of rules/network.go: prepend `...`, three bracket-stripping
    `ReplaceAllString`s (`([^\\])\(.*[^\\]\)`, `…\{…\}`, `…\[…\]` ↦ `$1...`; leftmost match, greedy
    `.*` that does not cross a line feed), the replacement of the literal text `[a-zA-Z]` after a
    non-backslash, `Split` at the regex special characters;
  * `requiredRegexpLiterals`: Go's `regexp/syntax` tree is not the tree of group A's `parseRE` node for
    node — the Go parser MERGES adjacent literal characters of a concatenation into one `OpLiteral`
    (a one-character class `[a]` counts as a literal, a two-character class `[aA]` as a case-folded
    literal that merges only with its like) and FACTORS a common literal prefix out of an alternation
    all of whose branches start with it (`foo|foobar` becomes `foo(?:|bar)`, a concatenation).
    `goReq` computes the literals `appendRequiredLiterals` collects from that tree, on top of the
    model's `Re`;
  * the selection loop is group A's `pickLongest`.

    (Group P3, REVIEW2 F3: round 2 of `factor` compares leading literals with `Regexp.Equal`, which
    ignores the fold flag — `itemEq`; when the expression has a source of case-folded literals the
    answer is given only where `goReq` selects what the replay of Go's parser, `Re.quirkReq`, selects.)

  Validated against the real `findRegexpShortcut` by the ops `i2.reshortcut` (harness/op_i2_re.go,
  harness/op_quirk.go).
  Domain: ASCII pattern text inside the subset of `parseRE`; `none` otherwise.
-/
namespace UF.I2
open UF Bytes

/-! ### The textual heuristics -/

/-- Largest `k ≤ bound` with `rest[k] ≠ '\\'` and `rest[k+1] = close` (scan of `rest` with index). -/
def lastClose (close : UInt8) (bound : Nat) : Bytes → Nat → Option Nat → Option Nat
  | a :: b :: rest, k, best =>
    if k > bound then best
    else lastClose close bound (b :: rest) (k + 1) (if a != 92 && b == close then some k else best)
  | _, _, best => best

/-- Index of the first line feed (or the length). -/
def firstLF (s : Bytes) : Nat := (s.takeWhile (· != 10)).length

/-- `regexp.MustCompile(`([^\\])OPEN.*[^\\]CLOSE`).ReplaceAllString(s, "$1...")`. -/
def stripBrackets (o c : UInt8) : Nat → Bytes → Bytes
  | 0, s => s
  | fuel + 1, a :: b :: rest =>
    if a != 92 && b == o then
      match lastClose c (firstLF rest) rest 0 none with
      | some k => a :: 46 :: 46 :: 46 :: stripBrackets o c fuel (rest.drop (k + 2))
      | none => a :: stripBrackets o c fuel (b :: rest)
    else a :: stripBrackets o c fuel (b :: rest)
  | _ + 1, s => s

/-- The text `[a-zA-Z]`. -/
def azText : Bytes := [91, 97, 45, 122, 65, 45, 90, 93]

/-- `regexp.MustCompile(`([^\\])\[a-zA-Z]`).ReplaceAllString(s, "$1...")`: the expression matches a
    non-backslash followed by the LITERAL text `[a-zA-Z]`. -/
def stripAZ : Nat → Bytes → Bytes
  | 0, s => s
  | fuel + 1, a :: rest =>
    if a != 92 && hasPrefix rest azText then a :: 46 :: 46 :: 46 :: stripAZ fuel (rest.drop 8)
    else a :: stripAZ fuel rest
  | _ + 1, [] => []

/-- `[\\^$*+?.()|[\]{}]` -/
def isReSpecial (c : UInt8) : Bool :=
  c == 92 || c == 94 || c == 36 || c == 42 || c == 43 || c == 63 || c == 46 || c == 40 || c == 41 ||
  c == 124 || c == 91 || c == 93 || c == 123 || c == 125

/-- `reRegexpSpecialCharacters.Split(s, -1)` (empty pieces included; they are never selected). -/
def splitSpecial (s : Bytes) : List Bytes := go s []
where
  go : Bytes → Bytes → List Bytes
    | [], cur => [cur.reverse]
    | a :: t, cur => if isReSpecial a then cur.reverse :: go t [] else go t (a :: cur)

/-- The candidates of `findRegexpShortcut` for the text between the slashes. -/
def regexParts (inner : Bytes) : List Bytes :=
  let s := 46 :: 46 :: 46 :: inner
  let n := s.length + 1
  let s := stripBrackets 40 41 n s
  let s := stripBrackets 123 125 n s
  let s := stripBrackets 91 93 n s
  let s := stripAZ n s
  splitSpecial s

/-! ### The literals Go's parse tree requires -/

/-- A sub-expression of a concatenation as Go's parser leaves it: a literal string (with its fold
    flag), or anything else together with the literals it requires.  `key` identifies the expressions
    round 2 of `parser.factor` may factor out of an alternation: `(0, k)` a character class / `.`,
    `(n+1, k)` the fixed repeat `{n}` of one (`k` determines the class). -/
inductive Item where
  | lit (bs : Bytes) (fold : Bool)
  | other (key : Option (Nat × List Nat)) (req : List Bytes)
  deriving Repr, DecidableEq, Inhabited

/-- The bytes a class matches. -/
def clsKey (neg : Bool) (rs : List (UInt8 × UInt8)) : List Nat :=
  (List.range 256).filter fun n => Re.clsMatch neg rs false n.toUInt8

/-- `parser.push`: a class of one character is a literal; a class `{X, x}` of the two cases of a
    letter (other than `k`, `s`, whose fold orbits are longer) is a case-folded literal. -/
def clsItem (neg : Bool) (rs : List (UInt8 × UInt8)) : Item :=
  match clsKey neg rs with
  | [c] => .lit [c.toUInt8] false
  | [a, b] =>
    if 65 ≤ a && a ≤ 90 && b == a + 32 && a != 75 && a != 83 then .lit [a.toUInt8] true
    else .other (some (0, 0 :: [a, b])) []
  | k => .other (some (0, 0 :: k)) []

/-- `maybeConcat`: adjacent literals with the same fold flag are one literal. -/
def mergeItems : List Item → List Item
  | .lit a fa :: rest =>
    match mergeItems rest with
    | .lit b fb :: rest' => if fa == fb then .lit (a ++ b) fa :: rest' else .lit a fa :: .lit b fb :: rest'
    | rest' => .lit a fa :: rest'
  | x :: rest => x :: mergeItems rest
  | [] => []

def itemReq : Item → List Bytes
  | .lit bs _ => [toLower bs]
  | .other _ req => req

/-- What `appendRequiredLiterals` collects from a (merged) concatenation. -/
def itemsReq (l : List Item) : List Bytes := l.flatMap itemReq

def commonPrefix : Bytes → Bytes → Bytes
  | a :: s, b :: t => if a == b then a :: commonPrefix s t else []
  | _, _ => []

/-- A member of the list `parser.factor` works on: a branch (a concatenation given by its items; `[]`
    is the empty match), a factored node `prefix · suffix` (its leading sub-expression and what it
    requires), or a merged character class (`none`: it absorbed a `.`). -/
inductive Node where
  | br (items : List Item)
  | fact (lead : Item) (req : List Bytes)
  | cls (key : Option (List Nat))
  deriving Repr, DecidableEq, Inhabited

/-- `leadingString` of a branch (`([], false)` when it does not start with a literal). -/
def leadOf : List Item → Bytes × Bool
  | .lit bs f :: _ => (bs, f)
  | _ => ([], false)

/-- `removeLeadingString`. -/
def dropLitB (n : Nat) : List Item → List Item
  | .lit bs f :: rest => if bs.length ≤ n then rest else .lit (bs.drop n) f :: rest
  | items => items

/-- `isCharClass`: a single-rune literal, a character class, `.`. -/
def itemIsCC : Item → Bool
  | .lit bs _ => bs.length == 1
  | .other (some (0, _)) _ => true
  | _ => false

/-- May round 2 factor this leading expression out?  A character class or a fixed repeat of one. -/
def itemFactorable : Item → Bool
  | .lit bs _ => bs.length == 1
  | .other (some _) _ => true
  | _ => false

/-- `leadingRegexp` (of a plain branch; factored nodes never join a round-2 run). -/
def leadingItem : Node → Option Item
  | .br (x :: _) => some x
  | _ => none

/-- `removeLeadingRegexp`. -/
def dropLead : Node → List Item
  | .br (_ :: rest) => rest
  | _ => []

def nodeIsCC : Node → Bool
  | .br [x] => itemIsCC x
  | .cls _ => true
  | _ => false

/-- The characters of a single-character node (`none`: `.`, which absorbs whatever it is merged with). -/
def nodeChars : Node → Option (List Nat)
  | .br [.lit [c] false] => some [c.toNat]
  | .br [.lit [c] true] => some [(upperByte c).toNat, (lowerByte c).toNat]
  | .br [.other (some (0, 0 :: k)) _] => some k
  | .cls k => k
  | _ => none

/-- `mergeCharClass`: the union, sorted without duplicates. -/
def unionChars (a b : Option (List Nat)) : Option (List Nat) :=
  match a, b with
  | some x, some y => some ((List.range 256).filter fun n => x.contains n || y.contains n)
  | _, _ => none

/-- What a merged class requires once `alternate` has pushed it: `parser.push` turns a class of one
    character, or of the two cases of a letter, into a literal. -/
def clsReq : Option (List Nat) → List Bytes
  | some [c] => [toLower [c.toUInt8]]
  | some [a, b] => if 65 ≤ a && a ≤ 90 && b == a + 32 && a != 75 && a != 83 then [toLower [a.toUInt8]] else []
  | _ => []

/-- What a node of a suffix (not pushed) requires. -/
def nodeReq : Node → List Bytes
  | .br items => itemsReq items
  | .fact _ req => req
  | .cls _ => []

/-- A finished run of round 1 (`rec` = the required literals of a factored suffix). -/
def close1 (rec : List (List Item) → List Bytes) (pre : Bytes) (fold : Bool) : List (List Item) → List Node
  | [] => []
  | [m] => [.br m]
  | ms => [.fact (.lit pre fold) (toLower pre :: rec (ms.map (dropLitB pre.length)))]

/-- Round 1: runs of adjacent branches whose leading literals (same fold flag) share a non-empty
    prefix become `prefix · (alternation of the rests)`.  State: the common prefix so far, its flag,
    the members of the current run. -/
def round1 (rec : List (List Item) → List Bytes) : Bytes → Bool → List (List Item) → List (List Item) → List Node
  | pre, fold, members, [] => close1 rec pre fold members
  | pre, fold, members, b :: rest =>
    if (leadOf b).2 == fold && !(commonPrefix pre (leadOf b).1).isEmpty then
      round1 rec (commonPrefix pre (leadOf b).1) fold (members ++ [b]) rest
    else close1 rec pre fold members ++ round1 rec (leadOf b).1 (leadOf b).2 [b] rest

/-- A finished run of round 2. -/
def close2 (rec : List (List Item) → List Bytes) (first : Option Item) : List Node → List Node
  | [] => []
  | [m] => [m]
  | ms =>
    match first with
    | some f => [.fact f (itemReq f ++ rec (ms.map dropLead))]
    | none => ms

/-- `Regexp.Equal` on leading sub-expressions: two literals are equal when their RUNES are — the
    fold-case flag is not compared (group P3, REVIEW2 F3: `A.|[aA]` is factored as `A(?:.|(?:))`, so
    Go's tree requires the literal `A` there). -/
def itemEq : Item → Item → Bool
  | .lit a _, .lit b _ => a == b
  | x, y => x == y

/-- Does the node continue the current run of round 2? -/
def run2Cond (first : Option Item) (nd : Node) : Bool :=
  match first with
  | some f =>
    (match leadingItem nd with
     | some i => itemEq f i
     | none => false) && itemFactorable f
  | none => false

/-- Round 2: runs of adjacent nodes with the same leading character class (or fixed repeat of one). -/
def round2 (rec : List (List Item) → List Bytes) : Option Item → List Node → List Node → List Node
  | first, members, [] => close2 rec first members
  | first, members, nd :: rest =>
    if run2Cond first nd then
      round2 rec first (members ++ [nd]) rest
    else close2 rec first members ++ round2 rec (leadingItem nd) [nd] rest

/-- Round 3: runs of two or more single characters / classes become one class. -/
def round3 : List Node → List Node
  | [] => []
  | a :: rest =>
    match round3 rest with
    | b :: r' =>
      if nodeIsCC a && nodeIsCC b then .cls (unionChars (nodeChars a) (nodeChars b)) :: r' else a :: b :: r'
    | [] => [a]

def isEmptyBr : Node → Bool
  | .br [] => true
  | _ => false

/-- Round 4: runs of empty matches become one. -/
def round4 : List Node → List Node
  | [] => []
  | a :: rest =>
    match round4 rest with
    | b :: r' => if isEmptyBr a && isEmptyBr b then b :: r' else a :: b :: r'
    | [] => [a]

/-- The four rounds of `parser.factor`. -/
def factorNodesWith (rec : List (List Item) → List Bytes) (bs : List (List Item)) : List Node :=
  round4 (round3 (round2 rec none [] (round1 rec [] false [] bs)))

/-- Only a list that collapses to ONE node requires anything. -/
def reqOfNodes : List Node → List Bytes
  | [nd] => nodeReq nd
  | _ => []

/-- The literals required by `collapse(branches, OpAlternate)` inside `factor` (a suffix: not pushed),
    recursively on the suffixes. -/
def factorReq : Nat → List (List Item) → List Bytes
  | 0, _ => []
  | fuel + 1, bs => reqOfNodes (factorNodesWith (factorReq fuel) bs)

def itemSize' : Item → Nat
  | .lit bs _ => bs.length + 1
  | .other _ _ => 1

def branchesFuel' (bs : List (List Item)) : Nat :=
  (bs.map fun b => (b.map itemSize').sum + 1).sum + 2

/-- Is the branch a single character / class (`isCharClass`)? -/
def branchIsCC : List Item → Bool
  | [x] => itemIsCC x
  | _ => false

/-- `swapVerticalBar` + `mergeCharClass`: while the alternation is being read, a branch that is a
    single character or class is merged into the branch before it if that is one too (the same
    literal twice stays that literal; anything else becomes a class; `.` absorbs). -/
def isSingleLit : List Item → Bool
  | [.lit _ _] => true
  | _ => false

def classBranch : Option (List Nat) → List Item
  | some k => [.other (some (0, 0 :: k)) []]
  | none => [.other (some (0, [1])) []]

def mergeCC (a b : List Item) : List Item :=
  if a == b && isSingleLit a then a
  else classBranch (unionChars (nodeChars (.br a)) (nodeChars (.br b)))

def prepass : List (List Item) → List (List Item) → List (List Item)
  | acc, [] => acc.reverse
  | [], b :: rest => prepass [b] rest
  | a :: acc, b :: rest =>
    if branchIsCC a && branchIsCC b then prepass (mergeCC a b :: acc) rest else prepass (b :: a :: acc) rest

/-- What the single result of `alternate()` requires once PUSHED. -/
def pushedReq : List Item → List Bytes
  | [.other (some (0, 0 :: k)) _] => clsReq (some k)
  | items => itemsReq items

def topNodesReq : List Node → List Bytes
  | [.cls k] => clsReq k
  | [.br items] => pushedReq items
  | [nd] => nodeReq nd
  | _ => []

/-- `alternate()`: the branches as merged while reading, factored, collapsed — and PUSHED, which turns
    a resulting class of one character (or of the two cases of a letter) into a literal. -/
def altTopReq (branches : List (List Item)) : List Bytes :=
  match prepass [] branches with
  | [] => []
  | [b] => pushedReq b
  | bs => topNodesReq (factorNodesWith (factorReq (branchesFuel' bs)) bs)

/-- The key of a class-like expression inside a fixed repeat. -/
def baseKey : Re → Option (List Nat)
  | .cls neg rs _ =>
    match clsItem neg rs with
    | .lit [c] _ => some [3, c.toNat]
    | .other (some (0, k)) _ => some k
    | _ => none
  | .any => some [1]
  | .anyNL => some [2]
  | .lit [c] _ => some [3, c.toNat]
  | _ => none

mutual
  /-- The (unmerged) items of an expression at concatenation level. -/
  def goItems : Re → List Item
    | .cat a b => goItems a ++ goItems b
    | .empty => []
    | .lit bs fold => [.lit bs fold]
    | .cls neg rs _ => [clsItem neg rs]
    | .any => [.other (some (0, [1])) []]
    | .anyNL => [.other (some (0, [2])) []]
    | .grp a => [.other none (goReq a)]
    | .plus a => [.other none (goReq a)]
    | .rep a m mx =>
      let req := if m > 0 then goReq a else []
      match mx, baseKey a with
      | some n, some k => if m == n then [.other (some (m + 1, k)) req] else [.other none req]
      | _, _ => [.other none req]
    | .alt a b =>
      [.other none (altTopReq (mergeItems (goItems a) :: goBranches b))]
    | _ => [.other none []]
  /-- The branches of a (right-nested) alternation, each merged. -/
  def goBranches : Re → List (List Item)
    | .alt a b => mergeItems (goItems a) :: goBranches b
    | r => [mergeItems (goItems r)]
  /-- `requiredRegexpLiterals` on Go's tree of the expression. -/
  def goReq : Re → List Bytes
    | .alt a b =>
      altTopReq (mergeItems (goItems a) :: goBranches b)
    | r => itemsReq (mergeItems (goItems r))
end

/-- `findRegexpShortcut(pattern)` for a `/regex/` pattern, from its text.  `none`: outside the domain
    (non-ASCII text, or an expression outside the subset of `parseRE`, which includes the ones Go
    rejects — for those Go's answer is `""`). -/
def modelRegexpShortcut (pattern : Bytes) : Option Bytes :=
  let inner := (pattern.drop 1).dropLast
  if !isAscii inner then none
  else if inner.any (· == 63) then some []
  else
    match Re.parseCore inner with
    | none => none
    | some tree =>
      if tree.hazard then
        -- (group P3) the expression has a source of case-folded literals next to case-sensitive ones:
        -- `parser.factor` may regroup what round 1 has factored (`A.|[aA]b|[aA]` is `A(?:.|b|(?:))`),
        -- which the flat `Node`s of `goReq` do not follow.  Answer only where `goReq` selects what the
        -- replay of Go's parser (`quirkReq`, UF/Model/RegexQuirk.lean) selects.
        match tree.quirkReq with
        | some req =>
          if pickLongest (regexParts inner) req == pickLongest (regexParts inner) (goReq tree) then
            some (pickLongest (regexParts inner) (goReq tree))
          else none
        | none => none
      else some (pickLongest (regexParts inner) (goReq tree))

end UF.I2

import UF.Model.NewRule
import UF.Model.HostRule
import UF.Model.DnsRewriteParse
import UF.Model.TrimSpace
import UF.Model.Shortcut
import UF.Proofs.TrimSpace
import UF.Proofs.TrimSpaceIdem
import UF.Proofs.HostRule
import UF.Proofs.ParseWF
import UF.Proofs.ParseTotal
import UF.Props.C10
import UF.Props.C18
import UF.Compose2.RegexShortcut
/-
  Integration (group I2), part 4: the COMPLETE model of `rules.NewRule`.

  Group E's `newRule` / `parseNetRule` took as parameters (`RuleExt`, `ParseExt`):
      `trim`            strings.TrimSpace          ↦ group D's `trimSpace`
      `newHostRule`     rules.NewHostRule          ↦ group H's `H.newHostRule`, with its parameter `dn`
                                                     (filterutil.IsDomainName) ↦ group E's `isDomainNameC`
      `loadDNSRewrite`  rules.loadDNSRewrite       ↦ group H's `H.loadDNSRewrite`
      `regexpShortcut`  findRegexpShortcut         ↦ a parameter of `newRuleFull`; instantiated by
                                                     `modelRegexpShortcut` in `newRuleM` (see below)
  and the genuinely external `ext.parseAddr`, `ext.parsePrefix` (net/netip), `ext.psl`.

  The regex shortcut.  `findRegexpShortcut` = textual candidate generation (three bracket-stripping
  `ReplaceAllString`s with leftmost-first greedy semantics, one more replacement, a `Split`) followed by
  the filter against `requiredRegexpLiterals` of Go's OWN parse tree (`regexp/syntax`, which merges
  adjacent literals and factors alternations — the filter `isRequiredLiteral` looks for the candidate
  inside ONE literal of that simplified tree).  Group A proved the result sound for an arbitrary
  candidate list and justified Go's shortcut against Go's tree.  `newRuleFull` / `parseNetRuleFull`
  keep the shortcut of `/regex/` rules as a parameter `reShortcut` (theorems hold for every such
  function); `newRuleM` / `parseNetRuleM` instantiate it with the text-level model
  `modelRegexpShortcut` (UF/Compose2/RegexShortcut.lean: heuristics + literal merging + alternation
  factoring of Go's parser), exact on ASCII texts inside the subset of `parseRE`.  Mask rules need no
  oracle in either.
-/
namespace UF.I2
open UF Bytes

/-- `filterutil.IsDomainName` as a Boolean function (group E's state machine; its only checked
    index expression never fails: `E.isDomainNameC_noPanic`). -/
def isDomainNameB (name : Bytes) : Bool :=
  match E.isDomainNameC name with
  | .ok b => b
  | .error _ => false

/-- Group H's `loadDNSRewrite` as the parameter of group E's option parser (`none` = error). -/
def rewriteParam (ext : Ext) (v : Bytes) : Option DnsRewrite :=
  match H.loadDNSRewrite ext v with
  | .ok rw => some rw
  | .error _ => none

/-- Group H's `NewHostRule` as the parameter of group E's `NewRule` (`none` = error). -/
def hostParam (ext : Ext) (text : Bytes) (listID : Int) : Option HostRule :=
  match H.newHostRule ext isDomainNameB text listID with
  | .ok h => some h
  | .error _ => none

/-- The parser parameters, instantiated; `reShortcut` is the remaining oracle for `/regex/` rules. -/
def fullParseExt (ext : Ext) (reShortcut : Bytes → Bytes) : E.ParseExt where
  ext := ext
  loadDNSRewrite := rewriteParam ext
  regexpShortcut := reShortcut

def fullRuleExt (ext : Ext) (reShortcut : Bytes → Bytes) : E.RuleExt where
  px := fullParseExt ext reShortcut
  trim := trimSpace
  newHostRule := hostParam ext

/-- The complete model of `rules.NewNetworkRule`. -/
def parseNetRuleFull (ext : Ext) (reShortcut : Bytes → Bytes) (text : Bytes) (listID : Int) : E.PE NetRule :=
  E.parseNetRule (fullParseExt ext reShortcut) text listID

/-- The complete model of `rules.NewRule`: `.ok none` = blank line or comment, `.error .err` = the
    line is rejected, `.error .panic` = a run-time panic (excluded by `c12_outcomes_full`). -/
def newRuleFull (ext : Ext) (reShortcut : Bytes → Bytes) (line : Bytes) (listID : Int) : E.PE (Option Rule) :=
  E.newRule (fullRuleExt ext reShortcut) line listID

/-- The accepted rules of a list, over the complete model. -/
def scanAcceptedFull (ext : Ext) (reShortcut : Bytes → Bytes) (listID : Int) (lines : List Bytes) : List Rule :=
  E.scanAccepted (fullRuleExt ext reShortcut) listID lines

/-! ### With the regex shortcut modelled too (UF/Compose2/RegexShortcut.lean): no parameter left but `ext` -/

/-- `findRegexpShortcut` from the text (`[]` outside the domain of the model; `regexShortcutInDomain`
    says when the model answers). -/
def reShortcutM (pattern : Bytes) : Bytes := (modelRegexpShortcut pattern).getD []

def regexShortcutInDomain (pattern : Bytes) : Bool := (modelRegexpShortcut pattern).isSome

/-- The complete model of `rules.NewNetworkRule`, no oracle but `netip`. -/
def parseNetRuleM (ext : Ext) (text : Bytes) (listID : Int) : E.PE NetRule :=
  parseNetRuleFull ext reShortcutM text listID

/-- The complete model of `rules.NewRule`, no oracle but `netip`. -/
def newRuleM (ext : Ext) (line : Bytes) (listID : Int) : E.PE (Option Rule) :=
  newRuleFull ext reShortcutM line listID

/-- Is the model exact on this outcome?  A `/regex/` rule needs the shortcut model to be in its domain. -/
def ruleShortcutInDomain : E.PE (Option Rule) → Bool
  | .ok (some (.net r)) => !UF.isRegexPattern r.pattern || regexShortcutInDomain r.pattern
  | _ => true

/-! ### The assumptions group E's theorems made about the parameters -/

theorem trim_cr (l : Bytes) : trimSpace (l ++ [13]) = trimSpace l :=
  trimSpace_append_sp (t := [13]) (by intro c hc; simp at hc; subst hc; decide) l

theorem trim_lf (l : Bytes) : trimSpace (l ++ [10]) = trimSpace l := trimSpace_nl' l

theorem trim_crlf (l : Bytes) : trimSpace (l ++ [13, 10]) = trimSpace l := trimSpace_crnl' l

theorem trim_idem (l : Bytes) : trimSpace (trimSpace l) = trimSpace l := trimSpace_idem l

/-- Group H's `NewHostRule` keeps the text and the list id it was given. -/
theorem hostParam_text {ext : Ext} {t : Bytes} {i : Int} {h : HostRule}
    (hh : hostParam ext t i = some h) : h.text = t ∧ h.listID = i := by
  unfold hostParam at hh
  rw [H.newHostRule_eq_spec] at hh
  unfold H.specHostResult at hh
  cases hs : H.specHostLine ext isDomainNameB t with
  | none => rw [hs] at hh; cases hh
  | some na =>
    obtain ⟨names, a⟩ := na
    rw [hs] at hh
    cases hh
    exact ⟨rfl, rfl⟩

/-- Turning group H's three-valued result into an `Option` loses nothing: a panic is impossible
    (`c18_total`), so `none` means "rejected with an error". -/
theorem hostParam_none_iff (ext : Ext) (t : Bytes) (i : Int) :
    hostParam ext t i = none ↔ H.newHostRule ext isDomainNameB t i = .error .reject := by
  unfold hostParam
  cases h : H.newHostRule ext isDomainNameB t i with
  | ok r => simp
  | error e =>
    cases e with
    | panic => exact absurd h (H.c18_total ext isDomainNameB t i)
    | reject => simp

theorem hostParam_some_iff (ext : Ext) (t : Bytes) (i : Int) (r : HostRule) :
    hostParam ext t i = some r ↔ H.newHostRule ext isDomainNameB t i = .ok r := by
  unfold hostParam
  cases h : H.newHostRule ext isDomainNameB t i <;> simp

theorem rewriteParam_none_iff (ext : Ext) (v : Bytes) :
    rewriteParam ext v = none ↔ H.loadDNSRewrite ext v = .error .reject := by
  unfold rewriteParam
  cases h : H.loadDNSRewrite ext v with
  | ok r => simp
  | error e =>
    cases e with
    | panic => exact absurd h (H.c10_total ext v)
    | reject => simp

theorem rewriteParam_some_iff (ext : Ext) (v : Bytes) (rw : DnsRewrite) :
    rewriteParam ext v = some rw ↔ H.loadDNSRewrite ext v = .ok rw := by
  unfold rewriteParam
  cases h : H.loadDNSRewrite ext v <;> simp

/-- `IsDomainName` never takes the error branch of `isDomainNameB`. -/
theorem isDomainNameB_spec (name : Bytes) : E.isDomainNameC name = .ok (isDomainNameB name) := by
  unfold isDomainNameB
  cases h : E.isDomainNameC name with
  | ok b => rfl
  | error e =>
    cases e with
    | panic => exact absurd h (E.isDomainNameC_noPanic name)
    | err =>
      exfalso
      unfold E.isDomainNameC at h
      split at h
      · cases h
      · cases hr : E.dnRun {} name with
        | ok o =>
          rw [hr] at h
          cases o <;> cases h
        | error e' =>
          have : ∀ (s : E.DNState) (n : Bytes), E.dnRun s n ≠ .error .err := by
            intro s n
            induction n generalizing s with
            | nil => simp [E.dnRun, pure, Except.pure]
            | cons c t ih =>
              simp only [E.dnRun]
              split
              · exact ih _
              · simp [pure, Except.pure]
              · simp [throw, throwThe, MonadExceptOf.throw]
          cases e' with
          | panic => exact absurd hr (E.dnRun_noPanic {} name)
          | err => exact absurd hr (this {} name)

end UF.I2

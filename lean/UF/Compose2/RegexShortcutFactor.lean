import UF.Compose2.RegexShortcutSem
/-
  Integration (group I2), part 10: soundness of the model of `parser.factor` / `alternate()` in
  UF/Compose2/RegexShortcut.lean — whatever `altTopReq branches` requires is a factor of every text
  described by SOME branch (`BranchSat`).
-/
namespace UF.I2
open UF Bytes Re

/-- What a node of the factored list says about the text. -/
def NodeSat : Node → Bytes → Prop
  | .br items, lw => Sat items lw
  | .fact _ req, lw => ∀ l ∈ req, hasSub lw l = true
  | .cls none, _ => True
  | .cls (some k), lw => ∃ n ∈ k, n < 256 ∧ lw = [lowerByte n.toUInt8]

def NodesSat (nodes : List Node) (lw : Bytes) : Prop := ∃ nd ∈ nodes, NodeSat nd lw

/-- The recursion hypothesis: what `rec` requires of an alternation is implied by each branch. -/
def RecSound (rec : List (List Item) → List Bytes) : Prop :=
  ∀ bs lw, BranchSat bs lw → ∀ l ∈ rec bs, hasSub lw l = true

/-! ### Round 1 -/

theorem commonPrefix_left : ∀ (a b : Bytes), ∃ a', a = commonPrefix a b ++ a'
  | [], _ => ⟨[], by simp [commonPrefix]⟩
  | x :: a, [] => ⟨x :: a, by simp [commonPrefix]⟩
  | x :: a, y :: b => by
    simp only [commonPrefix]
    split
    · obtain ⟨a', h⟩ := commonPrefix_left a b
      exact ⟨a', by simp [← h]⟩
    · exact ⟨x :: a, by simp⟩

theorem commonPrefix_right : ∀ (a b : Bytes), ∃ b', b = commonPrefix a b ++ b'
  | [], b => ⟨b, by simp [commonPrefix]⟩
  | _ :: _, [] => ⟨[], by simp [commonPrefix]⟩
  | x :: a, y :: b => by
    simp only [commonPrefix]
    split
    · rename_i h
      obtain ⟨b', hb⟩ := commonPrefix_right a b
      have : x = y := by simpa using h
      exact ⟨b', by simp [← hb, this]⟩
    · exact ⟨y :: b, by simp⟩

/-- Removing a prefix of the leading literal removes its lower-casing from the text. -/
theorem dropLit_sat {m : List Item} {pre s' : Bytes} {lw : Bytes}
    (hl : (leadOf m).1 = pre ++ s') (h : Sat m lw) :
    ∃ lw', lw = toLower pre ++ lw' ∧ Sat (dropLitB pre.length m) lw' := by
  cases m with
  | nil =>
    have : pre = [] := by
      simp only [leadOf] at hl
      exact (List.append_eq_nil_iff.1 hl.symm).1
    subst this
    exact ⟨lw, by simp [toLower], by simpa [dropLitB] using h⟩
  | cons x rest =>
    cases x with
    | other key req =>
      have : pre = [] := by
        simp only [leadOf] at hl
        exact (List.append_eq_nil_iff.1 hl.symm).1
      subst this
      exact ⟨lw, by simp [toLower], by simpa [dropLitB] using h⟩
    | lit bs f =>
      simp only [leadOf] at hl
      subst hl
      obtain ⟨lw0, e, hr⟩ := h.lit_inv
      simp only [dropLitB]
      split
      · rename_i hle
        have : s' = [] := by
          simp only [List.length_append] at hle
          exact List.eq_nil_of_length_eq_zero (by omega)
        subst this
        exact ⟨lw0, by simpa using e, hr⟩
      · refine ⟨toLower s' ++ lw0, by rw [e, toLower_append, List.append_assoc], ?_⟩
        rw [List.drop_left]
        exact .lit hr

/-- Invariant of the run of round 1: every member's leading literal has the flag of the run and
    starts with the common prefix. -/
def Inv1 (pre : Bytes) (fold : Bool) (members : List (List Item)) : Prop :=
  ∀ m ∈ members, (leadOf m).2 = fold ∧ ∃ s', (leadOf m).1 = pre ++ s'

theorem close1_sound {rec} (hrec : RecSound rec) {pre : Bytes} {fold : Bool} {members : List (List Item)}
    (hinv : Inv1 pre fold members) {lw : Bytes} (h : ∃ m ∈ members, Sat m lw) :
    NodesSat (close1 rec pre fold members) lw := by
  obtain ⟨m, hm, hs⟩ := h
  match members, hm, hinv with
  | [m0], hm, _ =>
    have : m = m0 := by simpa using hm
    subst this
    exact ⟨.br m, by simp [close1], hs⟩
  | m1 :: m2 :: ms, hm, hinv =>
    unfold NodesSat
    simp only [close1, List.mem_singleton, exists_eq_left, NodeSat]
    obtain ⟨_, s', hl⟩ := hinv m hm
    obtain ⟨lw', e, hd⟩ := dropLit_sat hl hs
    intro l hl'
    simp only [List.mem_cons] at hl'
    rcases hl' with rfl | hl'
    · rw [e]; exact hasSub_append_left _ (hasSub_refl _)
    · rw [e]
      apply hasSub_append_right
      exact hrec _ lw' ⟨_, List.mem_map_of_mem hm, hd⟩ l hl'

theorem round1_sound {rec} (hrec : RecSound rec) {lw : Bytes} :
    ∀ (rest : List (List Item)) (pre : Bytes) (fold : Bool) (members : List (List Item)),
      Inv1 pre fold members → ((∃ m ∈ members, Sat m lw) ∨ BranchSat rest lw) →
      NodesSat (round1 rec pre fold members rest) lw := by
  intro rest
  induction rest with
  | nil =>
    intro pre fold members hinv h
    rcases h with h | ⟨b, hb, _⟩
    · simpa [round1] using close1_sound hrec hinv h
    · simp at hb
  | cons b rest ih =>
    intro pre fold members hinv h
    simp only [round1]
    split
    · rename_i hc
      simp only [Bool.and_eq_true, beq_iff_eq, Bool.not_eq_true', List.isEmpty_eq_false_iff] at hc
      apply ih
      · intro m hm
        rcases List.mem_append.1 hm with hm | hm
        · obtain ⟨h1, s', h2⟩ := hinv m hm
          obtain ⟨p', hp'⟩ := commonPrefix_left pre (leadOf b).1
          exact ⟨h1, p' ++ s', by rw [h2]; conv => lhs; rw [hp']; simp⟩
        · have : m = b := by simpa using hm
          subst this
          obtain ⟨b', hb'⟩ := commonPrefix_right pre (leadOf m).1
          exact ⟨hc.1, b', hb'⟩
      · rcases h with ⟨m, hm, hs⟩ | ⟨b0, hb0, hs⟩
        · exact .inl ⟨m, List.mem_append_left _ hm, hs⟩
        · rcases List.mem_cons.1 hb0 with rfl | hb0
          · exact .inl ⟨b0, by simp, hs⟩
          · exact .inr ⟨b0, hb0, hs⟩
    · rcases h with h | ⟨b0, hb0, hs⟩
      · obtain ⟨nd, hnd, hsat⟩ := close1_sound hrec hinv h
        exact ⟨nd, List.mem_append_left _ hnd, hsat⟩
      · have hinv' : Inv1 (leadOf b).1 (leadOf b).2 [b] := by
          intro m hm
          have : m = b := by simpa using hm
          subst this
          exact ⟨rfl, [], by simp⟩
        have := ih (leadOf b).1 (leadOf b).2 [b] hinv' (by
          rcases List.mem_cons.1 hb0 with rfl | hb0
          · exact .inl ⟨b0, by simp, hs⟩
          · exact .inr ⟨b0, hb0, hs⟩)
        obtain ⟨nd, hnd, hsat⟩ := this
        exact ⟨nd, List.mem_append_right _ hnd, hsat⟩

/-! ### Round 2 -/

def Inv2 (first : Option Item) (members : List Node) : Prop :=
  ∀ f, first = some f → ∀ m ∈ members, ∃ i, leadingItem m = some i ∧ itemEq f i = true

theorem itemEq_refl (f : Item) : itemEq f f = true := by
  cases f <;> simp [itemEq]

/-- Items that `Regexp.Equal` identifies require the same literals (a literal requires its
    lower-cased bytes whatever its flag). -/
theorem itemEq_req {f i : Item} (h : itemEq f i = true) : itemReq f = itemReq i := by
  cases f with
  | lit a fa =>
    cases i with
    | lit b fb =>
      have : a = b := by simpa [itemEq] using h
      subst this; rfl
    | other k r => simp [itemEq] at h
  | other k r =>
    cases i with
    | lit b fb => simp [itemEq] at h
    | other k' r' =>
      have : Item.other k r = Item.other k' r' := by simpa [itemEq] using h
      rw [this]

theorem lead_sat {m : Node} {f i : Item} {lw : Bytes} (hl : leadingItem m = some i) (he : itemEq f i = true)
    (h : NodeSat m lw) :
    ∃ x lw', lw = x ++ lw' ∧ (∀ l ∈ itemReq f, hasSub x l = true) ∧ Sat (dropLead m) lw' := by
  rw [itemEq_req he]
  cases m with
  | fact _ _ => simp [leadingItem] at hl
  | cls _ => simp [leadingItem] at hl
  | br items =>
    cases items with
    | nil => simp [leadingItem] at hl
    | cons x rest =>
      have : x = i := by simpa [leadingItem] using hl
      subst this
      simp only [NodeSat] at h
      cases x with
      | lit bs fl =>
        obtain ⟨lw', e, hr⟩ := h.lit_inv
        refine ⟨toLower bs, lw', e, ?_, hr⟩
        intro l hl'
        have : l = toLower bs := by simpa [itemReq] using hl'
        subst this
        exact hasSub_refl _
      | other key req =>
        obtain ⟨x, lw', e, hp, hr⟩ := h.other_inv
        exact ⟨x, lw', e, fun l hl' => hp.1 l (by simpa [itemReq] using hl'), hr⟩

theorem close2_sound {rec} (hrec : RecSound rec) {first : Option Item} {members : List Node}
    (hinv : Inv2 first members) {lw : Bytes} (h : ∃ m ∈ members, NodeSat m lw) :
    NodesSat (close2 rec first members) lw := by
  obtain ⟨m, hm, hs⟩ := h
  match members, hm, hinv with
  | [m0], hm, _ =>
    have : m = m0 := by simpa using hm
    subst this
    exact ⟨m, by simp [close2], hs⟩
  | m1 :: m2 :: ms, hm, hinv =>
    cases first with
    | none => exact ⟨m, by simpa [close2] using hm, hs⟩
    | some f =>
      unfold NodesSat
      simp only [close2, List.mem_singleton, exists_eq_left, NodeSat]
      obtain ⟨i, hli, hei⟩ := hinv f rfl m hm
      obtain ⟨x, lw', e, hx, hd⟩ := lead_sat hli hei hs
      intro l hl
      rcases List.mem_append.1 hl with hl | hl
      · rw [e]; exact hasSub_append_left _ (hx l hl)
      · rw [e]
        apply hasSub_append_right
        exact hrec _ lw' ⟨_, List.mem_map_of_mem hm, hd⟩ l hl

theorem round2_sound {rec} (hrec : RecSound rec) {lw : Bytes} :
    ∀ (rest : List Node) (first : Option Item) (members : List Node),
      Inv2 first members → ((∃ m ∈ members, NodeSat m lw) ∨ NodesSat rest lw) →
      NodesSat (round2 rec first members rest) lw := by
  intro rest
  induction rest with
  | nil =>
    intro first members hinv h
    rcases h with h | ⟨b, hb, _⟩
    · simpa [round2] using close2_sound hrec hinv h
    · simp at hb
  | cons nd rest ih =>
    intro first members hinv h
    simp only [round2]
    by_cases hc : run2Cond first nd = true
    · rw [if_pos hc]
      apply ih
      · intro f hf m hm
        rcases List.mem_append.1 hm with hm | hm
        · exact hinv f hf m hm
        · have : m = nd := by simpa using hm
          subst this
          subst hf
          simp only [run2Cond, Bool.and_eq_true] at hc
          cases hli : leadingItem m with
          | none => rw [hli] at hc; simp at hc
          | some i => rw [hli] at hc; exact ⟨i, rfl, hc.1⟩
      · rcases h with ⟨m, hm, hs⟩ | ⟨b0, hb0, hs⟩
        · exact .inl ⟨m, List.mem_append_left _ hm, hs⟩
        · rcases List.mem_cons.1 hb0 with rfl | hb0
          · exact .inl ⟨b0, by simp, hs⟩
          · exact .inr ⟨b0, hb0, hs⟩
    · rw [if_neg hc]
      rcases h with h | ⟨b0, hb0, hs⟩
      · obtain ⟨n', hn', hsat⟩ := close2_sound hrec hinv h
        exact ⟨n', List.mem_append_left _ hn', hsat⟩
      · have hinv' : Inv2 (leadingItem nd) [nd] := by
          intro f hf m hm
          have : m = nd := by simpa using hm
          subst this
          exact ⟨f, hf, itemEq_refl f⟩
        have := ih (leadingItem nd) [nd] hinv' (by
          rcases List.mem_cons.1 hb0 with rfl | hb0
          · exact .inl ⟨b0, by simp, hs⟩
          · exact .inr ⟨b0, hb0, hs⟩)
        obtain ⟨n', hn', hsat⟩ := this
        exact ⟨n', List.mem_append_right _ hn', hsat⟩

/-! ### Rounds 3 and 4, and the merging of single characters -/

/-- What a single-character node says: its text is one character of `nodeChars` (lower-cased). -/
theorem cc_chars {a : Node} {lw : Bytes} (hcc : nodeIsCC a = true) (h : NodeSat a lw) :
    nodeChars a = none ∨ ∃ k, nodeChars a = some k ∧ ∃ n ∈ k, n < 256 ∧ lw = [lowerByte n.toUInt8] := by
  cases a with
  | fact _ _ => simp [nodeIsCC] at hcc
  | cls k =>
    cases k with
    | none => exact .inl rfl
    | some k => exact .inr ⟨k, rfl, h⟩
  | br items =>
    match items, hcc, h with
    | [.lit bs f], hcc, h =>
      have hl : bs.length = 1 := by simpa [nodeIsCC, itemIsCC] using hcc
      match bs, hl with
      | [c], _ =>
        simp only [NodeSat] at h
        obtain ⟨lw', e, hr⟩ := h.lit_inv
        have := hr.nil_inv
        subst this
        cases f with
        | false =>
          refine .inr ⟨[c.toNat], rfl, c.toNat, by simp, c.toNat_lt, ?_⟩
          simp [e, toLower]
        | true =>
          refine .inr ⟨_, rfl, (lowerByte c).toNat, by simp, (lowerByte c).toNat_lt, ?_⟩
          simp [e, toLower, lower_lower]
    | [.other key req], hcc, h =>
      simp only [NodeSat] at h
      obtain ⟨x, lw', e, hp, hr⟩ := h.other_inv
      have := hr.nil_inv
      subst this
      match key with
      | some (0, 0 :: k) =>
        obtain ⟨n, hn, hlt, hx⟩ := hp.2 k rfl
        exact .inr ⟨k, rfl, n, hn, hlt, by simp [e, hx]⟩
      | some (0, []) => exact .inl rfl
      | some (0, (_ + 1) :: _) => exact .inl rfl
      | some (_ + 1, _) => simp [nodeIsCC, itemIsCC] at hcc
      | none => simp [nodeIsCC, itemIsCC] at hcc

theorem union_sat {a b : Node} {lw : Bytes} (ha : nodeIsCC a = true) (hb : nodeIsCC b = true)
    (h : NodeSat a lw ∨ NodeSat b lw) : NodeSat (.cls (unionChars (nodeChars a) (nodeChars b))) lw := by
  cases hka : nodeChars a with
  | none => simp [unionChars, NodeSat]
  | some ka =>
    cases hkb : nodeChars b with
    | none => simp [unionChars, NodeSat]
    | some kb =>
      simp only [unionChars, NodeSat]
      rcases h with h | h
      · rcases cc_chars ha h with e | ⟨k, e, n, hn, hlt, hw⟩
        · rw [hka] at e; cases e
        · rw [hka] at e; cases e
          exact ⟨n, by simp [List.mem_filter, hlt, hn], hlt, hw⟩
      · rcases cc_chars hb h with e | ⟨k, e, n, hn, hlt, hw⟩
        · rw [hkb] at e; cases e
        · rw [hkb] at e; cases e
          exact ⟨n, by simp [List.mem_filter, hlt, hn], hlt, hw⟩

theorem round3_sound {lw : Bytes} : ∀ (nodes : List Node), NodesSat nodes lw → NodesSat (round3 nodes) lw := by
  intro nodes
  induction nodes with
  | nil => exact id
  | cons a rest ih =>
    intro h
    simp only [round3]
    obtain ⟨nd, hnd, hs⟩ := h
    cases hr : round3 rest with
    | nil =>
      rcases List.mem_cons.1 hnd with rfl | hnd
      · exact ⟨nd, by simp, hs⟩
      · obtain ⟨n', hn', _⟩ := ih ⟨nd, hnd, hs⟩
        rw [hr] at hn'; simp at hn'
    | cons b r' =>
      simp only
      split
      · rename_i hc
        simp only [Bool.and_eq_true] at hc
        rcases List.mem_cons.1 hnd with rfl | hnd
        · exact ⟨_, List.mem_cons_self, union_sat hc.1 hc.2 (.inl hs)⟩
        · obtain ⟨n', hn', hs'⟩ := ih ⟨nd, hnd, hs⟩
          rw [hr] at hn'
          rcases List.mem_cons.1 hn' with rfl | hn'
          · exact ⟨_, List.mem_cons_self, union_sat hc.1 hc.2 (.inr hs')⟩
          · exact ⟨n', List.mem_cons_of_mem _ hn', hs'⟩
      · rcases List.mem_cons.1 hnd with rfl | hnd
        · exact ⟨nd, List.mem_cons_self, hs⟩
        · obtain ⟨n', hn', hs'⟩ := ih ⟨nd, hnd, hs⟩
          rw [hr] at hn'
          exact ⟨n', List.mem_cons_of_mem _ hn', hs'⟩

theorem isEmptyBr_eq {a : Node} (h : isEmptyBr a = true) : a = .br [] := by
  match a, h with
  | .br [], _ => rfl

theorem round4_sound {lw : Bytes} : ∀ (nodes : List Node), NodesSat nodes lw → NodesSat (round4 nodes) lw := by
  intro nodes
  induction nodes with
  | nil => exact id
  | cons a rest ih =>
    intro h
    simp only [round4]
    obtain ⟨nd, hnd, hs⟩ := h
    cases hr : round4 rest with
    | nil =>
      rcases List.mem_cons.1 hnd with rfl | hnd
      · exact ⟨nd, by simp, hs⟩
      · obtain ⟨n', hn', _⟩ := ih ⟨nd, hnd, hs⟩
        rw [hr] at hn'; simp at hn'
    | cons b r' =>
      simp only
      split
      · rename_i hc
        simp only [Bool.and_eq_true] at hc
        rcases List.mem_cons.1 hnd with rfl | hnd
        · have e1 := isEmptyBr_eq hc.1
          have e2 := isEmptyBr_eq hc.2
          exact ⟨b, List.mem_cons_self, by rw [e2, ← e1]; exact hs⟩
        · obtain ⟨n', hn', hs'⟩ := ih ⟨nd, hnd, hs⟩
          rw [hr] at hn'
          exact ⟨n', hn', hs'⟩
      · rcases List.mem_cons.1 hnd with rfl | hnd
        · exact ⟨nd, List.mem_cons_self, hs⟩
        · obtain ⟨n', hn', hs'⟩ := ih ⟨nd, hnd, hs⟩
          rw [hr] at hn'
          exact ⟨n', List.mem_cons_of_mem _ hn', hs'⟩

/-! ### `factor`, recursively -/

theorem factorNodesWith_sound {rec} (hrec : RecSound rec) {bs : List (List Item)} {lw : Bytes}
    (h : BranchSat bs lw) : NodesSat (factorNodesWith rec bs) lw := by
  unfold factorNodesWith
  apply round4_sound
  apply round3_sound
  apply round2_sound hrec _ none [] (fun f hf => by cases hf)
  right
  exact round1_sound hrec bs [] false [] (fun m hm => by cases hm) (.inr h)

theorem nodeReq_sound {nd : Node} {lw : Bytes} (h : NodeSat nd lw) : ∀ l ∈ nodeReq nd, hasSub lw l = true := by
  cases nd with
  | br items => exact h.req
  | fact _ req => exact h
  | cls _ => intro l hl; simp [nodeReq] at hl

theorem factorReq_sound : ∀ fuel, RecSound (factorReq fuel) := by
  intro fuel
  induction fuel with
  | zero => intro bs lw _ l hl; simp [factorReq] at hl
  | succ fuel ih =>
    intro bs lw h l hl
    simp only [factorReq] at hl
    obtain ⟨nd, hnd, hs⟩ := factorNodesWith_sound ih h
    match hn : factorNodesWith (factorReq fuel) bs, hnd, hl with
    | [nd'], hnd, hl =>
      have : nd = nd' := by simpa using hnd
      subst this
      exact nodeReq_sound hs l (by simpa [reqOfNodes] using hl)
    | [], hnd, _ => simp at hnd
    | _ :: _ :: _, _, hl => simp [reqOfNodes] at hl

/-! ### The top level: merging while reading, and the push -/

theorem pair_lower : ∀ a ∈ List.range 26,
    lowerByte ((a + 65 + 32).toUInt8) = lowerByte ((a + 65).toUInt8) := by decide

theorem clsReq_sound {k : List Nat} {lw : Bytes} (h : ∃ n ∈ k, n < 256 ∧ lw = [lowerByte n.toUInt8]) :
    ∀ l ∈ clsReq (some k), hasSub lw l = true := by
  obtain ⟨n, hn, _, hw⟩ := h
  intro l hl
  match k, hn, hl with
  | [c], hn, hl =>
    have : n = c := by simpa using hn
    subst this
    have : l = [lowerByte n.toUInt8] := by simpa [clsReq, toLower] using hl
    rw [this, hw]
    exact hasSub_refl _
  | [a, b], hn, hl =>
    simp only [clsReq] at hl
    split at hl
    · rename_i hcond
      simp only [Bool.and_eq_true, decide_eq_true_eq, beq_iff_eq, bne_iff_ne, ne_eq] at hcond
      obtain ⟨⟨⟨⟨h65, h90⟩, hb2⟩, _⟩, _⟩ := hcond
      have hl' : l = [lowerByte a.toUInt8] := by simpa [toLower] using hl
      have hn' : n = a ∨ n = b := by simpa using hn
      rw [hl', hw]
      rcases hn' with rfl | rfl
      · exact hasSub_refl _
      · have := pair_lower (a - 65) (List.mem_range.2 (by omega))
        rw [hb2, show a - 65 + 65 = a by omega] at *
        rw [this]
        exact hasSub_refl _
    · simp at hl
  | [], hn, _ => simp at hn
  | _ :: _ :: _ :: _, _, hl => simp [clsReq] at hl

theorem pushedReq_sound {b : List Item} {lw : Bytes} (h : Sat b lw) :
    ∀ l ∈ pushedReq b, hasSub lw l = true := by
  unfold pushedReq
  split
  · rename_i k req
    obtain ⟨x, lw', e, hp, hr⟩ := h.other_inv
    have := hr.nil_inv
    subst this
    obtain ⟨n, hn, hlt, hx⟩ := hp.2 k rfl
    exact clsReq_sound ⟨n, hn, hlt, by simp [e, hx]⟩
  · exact h.req

theorem topNodesReq_sound {nodes : List Node} {lw : Bytes} (h : NodesSat nodes lw) :
    ∀ l ∈ topNodesReq nodes, hasSub lw l = true := by
  obtain ⟨nd, hnd, hs⟩ := h
  match nodes, hnd with
  | [nd'], hnd =>
    have : nd = nd' := by simpa using hnd
    subst this
    cases nd with
    | br items => simpa [topNodesReq] using pushedReq_sound hs
    | fact lead req => simpa [topNodesReq, nodeReq, NodeSat] using hs
    | cls k =>
      cases k with
      | none =>
        intro l hl
        have : topNodesReq [Node.cls none] = [] := rfl
        rw [this] at hl
        cases hl
      | some k => simpa [topNodesReq] using clsReq_sound hs
  | [], hnd => simp at hnd
  | _ :: _ :: _, _ => intro l hl; simp [topNodesReq] at hl

theorem mergeCC_sat {a b : List Item} {lw : Bytes} (ha : branchIsCC a = true) (hb : branchIsCC b = true)
    (h : Sat a lw ∨ Sat b lw) : Sat (mergeCC a b) lw := by
  unfold mergeCC
  by_cases hc : (a == b && isSingleLit a) = true
  · rw [if_pos hc]
    simp only [Bool.and_eq_true, beq_iff_eq] at hc
    rcases h with h | h
    · exact h
    · rw [hc.1]; exact h
  · rw [if_neg hc]
    have hna : nodeIsCC (.br a) = true := by
      match a, ha with
      | [x], ha => simpa [nodeIsCC, branchIsCC] using ha
    have hnb : nodeIsCC (.br b) = true := by
      match b, hb with
      | [x], hb => simpa [nodeIsCC, branchIsCC] using hb
    have hu := union_sat (lw := lw) hna hnb (by simpa [NodeSat] using h)
    cases hk : unionChars (nodeChars (.br a)) (nodeChars (.br b)) with
    | some k =>
      rw [hk] at hu
      obtain ⟨n, hn, hlt, hw⟩ := hu
      simp only [classBranch]
      apply Sat.single_other
      refine ⟨fun _ hl => by simp at hl, ?_⟩
      intro k' hk'
      have : k' = k := by simpa using hk'.symm
      subst this
      exact ⟨n, hn, hlt, hw⟩
    | none =>
      simp only [classBranch]
      apply Sat.single_other
      exact ⟨fun _ hl => by simp at hl, fun k hk => by simp at hk⟩

theorem prepass_sound {lw : Bytes} : ∀ (rest acc : List (List Item)),
    ((∃ b ∈ acc, Sat b lw) ∨ BranchSat rest lw) → BranchSat (prepass acc rest) lw := by
  intro rest
  induction rest with
  | nil =>
    intro acc h
    rcases h with ⟨b, hb, hs⟩ | ⟨b, hb, _⟩
    · exact ⟨b, by simpa [prepass] using hb, hs⟩
    · simp at hb
  | cons b rest ih =>
    intro acc h
    cases acc with
    | nil =>
      simp only [prepass]
      apply ih
      rcases h with ⟨b0, hb0, _⟩ | ⟨b0, hb0, hs⟩
      · simp at hb0
      · rcases List.mem_cons.1 hb0 with rfl | hb0
        · exact .inl ⟨b0, by simp, hs⟩
        · exact .inr ⟨b0, hb0, hs⟩
    | cons a acc =>
      simp only [prepass]
      split
      · rename_i hc
        simp only [Bool.and_eq_true] at hc
        apply ih
        rcases h with ⟨b0, hb0, hs⟩ | ⟨b0, hb0, hs⟩
        · rcases List.mem_cons.1 hb0 with rfl | hb0
          · exact .inl ⟨_, List.mem_cons_self, mergeCC_sat hc.1 hc.2 (.inl hs)⟩
          · exact .inl ⟨b0, List.mem_cons_of_mem _ hb0, hs⟩
        · rcases List.mem_cons.1 hb0 with rfl | hb0
          · exact .inl ⟨_, List.mem_cons_self, mergeCC_sat hc.1 hc.2 (.inr hs)⟩
          · exact .inr ⟨b0, hb0, hs⟩
      · apply ih
        rcases h with ⟨b0, hb0, hs⟩ | ⟨b0, hb0, hs⟩
        · exact .inl ⟨b0, List.mem_cons_of_mem _ hb0, hs⟩
        · rcases List.mem_cons.1 hb0 with rfl | hb0
          · exact .inl ⟨b0, List.mem_cons_self, hs⟩
          · exact .inr ⟨b0, hb0, hs⟩

/-- Whatever `alternate()` requires of an alternation is a factor of every text one of its branches
    describes. -/
theorem altTopReq_sound {bs : List (List Item)} {lw : Bytes} (h : BranchSat bs lw) :
    ∀ l ∈ altTopReq bs, hasSub lw l = true := by
  have hp := prepass_sound bs [] (.inr h)
  unfold altTopReq
  split
  · intro l hl; simp at hl
  · rename_i b hb
    rw [hb] at hp
    obtain ⟨b', hb', hs⟩ := hp
    have : b' = b := by simpa using hb'
    subst this
    exact pushedReq_sound hs
  · exact topNodesReq_sound (factorNodesWith_sound (factorReq_sound _) hp)

end UF.I2

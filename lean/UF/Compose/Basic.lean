import UF.Compose.NetRules
import UF.Proofs.Result
import UF.Proofs.EngineDns
/-
  Composition: group B's C02 takes `GetDNSBasicRule` as a parameter `basic` with the hypothesis
  `BasicRespectsTexts basic S`.  Here it is PROVED for group C's model `getDNSBasicRule`, for every rule set
  `S` in which the text determines the rule up to the list id (true of everything the parser produces).

  Why it holds: by group C's lemmas `getDNSBasicRule l` is `none` if an effective `$replace` rule is present,
  else the `selectBest` (C07: a maximum of the priority order) of the effective, non-special rules.
  Effectiveness (`$badfilter` twins compare every field EXCEPT text and list id), the candidate test and the
  class rank do not read the list id, so two candidate lists that agree up to list ids and multiplicities
  have candidates of the same class ranks; the class of a maximum is the maximal rank.
-/
namespace UF.Compose
open UF UF.B

/-- Equal up to the list id. -/
def SameButID (r r' : NetRule) : Prop := setID 0 r = setID 0 r'

/-- Two candidate lists that agree up to list ids, order and multiplicities. -/
def ListsAgree (l l' : List NetRule) : Prop :=
  (∀ r ∈ l, ∃ r' ∈ l', SameButID r r') ∧ (∀ r' ∈ l', ∃ r ∈ l, SameButID r r')

/-- In `S` the text determines the rule up to the list id. -/
def TextDet (S : List NetRule) : Prop :=
  ∀ r ∈ S, ∀ r' ∈ S, r.text = r'.text → r' = setID r'.listID r

theorem sameButID_of_eq {r r' : NetRule} (h : r' = setID r'.listID r) : SameButID r r' := by
  unfold SameButID; rw [h]; rfl

theorem listsAgree_of_texts {S l l' : List NetRule} (hS : TextDet S) (hl : ∀ r ∈ l, r ∈ S) (hl' : ∀ r ∈ l', r ∈ S)
    (ht : ∀ t, t ∈ l.map (·.text) ↔ t ∈ l'.map (·.text)) : ListsAgree l l' := by
  constructor
  · intro r hr
    obtain ⟨r', hr', he⟩ := List.mem_map.1 ((ht r.text).1 (List.mem_map.2 ⟨r, hr, rfl⟩))
    exact ⟨r', hr', sameButID_of_eq (hS r (hl r hr) r' (hl' r' hr') he.symm)⟩
  · intro r' hr'
    obtain ⟨r, hr, he⟩ := List.mem_map.1 ((ht r'.text).2 (List.mem_map.2 ⟨r', hr', rfl⟩))
    exact ⟨r, hr, sameButID_of_eq (hS r (hl r hr) r' (hl' r' hr') he)⟩

/-- A function of a rule that does not read the list id agrees on rules equal up to the list id. -/
theorem congr_noID {α} (f : NetRule → α) (hf : ∀ r, f (setID 0 r) = f r) {r r' : NetRule} (h : SameButID r r') :
    f r = f r' := by
  rw [← hf r, ← hf r', h]

theorem isTwin_congr {b b' r r' : NetRule} (hb : SameButID b b') (hr : SameButID r r') :
    isTwin b r = isTwin b' r' := by
  have h1 : isTwin b r = isTwin b' r := congr_noID (fun x => isTwin x r) (fun _ => rfl) hb
  have h2 : isTwin b' r = isTwin b' r' := congr_noID (fun x => isTwin b' x) (fun _ => rfl) hr
  rw [h1, h2]

theorem any_agree {l l' : List NetRule} (h : ListsAgree l l') (f f' : NetRule → Bool)
    (hf : ∀ b b', SameButID b b' → f b = f' b') : l.any f = l'.any f' := by
  cases hx : l.any f with
  | true =>
    obtain ⟨b, hb, hfb⟩ := List.any_eq_true.1 hx
    obtain ⟨b', hb', hs⟩ := h.1 b hb
    exact (List.any_eq_true.2 ⟨b', hb', by rw [← hf b b' hs]; exact hfb⟩).symm
  | false =>
    symm
    apply List.any_eq_false.2
    intro b' hb'
    obtain ⟨b, hb, hs⟩ := h.2 b' hb'
    rw [← hf b b' hs]
    have := List.any_eq_false.1 hx b hb
    simpa using this

theorem effectiveIn_agree {l l' : List NetRule} (h : ListsAgree l l') {r r' : NetRule} (hr : SameButID r r') :
    effectiveIn l r = effectiveIn l' r' := by
  unfold effectiveIn
  rw [any_agree h (fun b => isTwin b r) (fun b => isTwin b r') (fun b b' hb => isTwin_congr hb hr),
    congr_noID (fun x => x.badfilter) (fun _ => rfl) hr,
    congr_noID (fun x => x.rewrite.isNone) (fun _ => rfl) hr]

/-- The candidates of the selection scan of `GetDNSBasicRule`. -/
def dnsCands (l : List NetRule) : List NetRule := (l.filter (effectiveIn l)).filter dnsLoopCandidate

theorem getDNSBasicRule_eq (l : List NetRule) :
    getDNSBasicRule l =
      if (l.filter (effectiveIn l)).any (fun r => r.isEnabled Facts.OptionReplace) then none
      else selectBest (dnsCands l) := by
  unfold getDNSBasicRule
  rw [effective_eq, dnsBasicLoop_eq]
  rfl

theorem dnsCands_agree {l l' : List NetRule} (h : ListsAgree l l') :
    ∀ r ∈ dnsCands l, ∃ r' ∈ dnsCands l', classRank r' = classRank r := by
  intro r hr
  unfold dnsCands at hr ⊢
  obtain ⟨h1, hc⟩ := List.mem_filter.1 hr
  obtain ⟨hm, he⟩ := List.mem_filter.1 h1
  obtain ⟨r', hm', hs⟩ := h.1 r hm
  refine ⟨r', List.mem_filter.2 ⟨List.mem_filter.2 ⟨hm', ?_⟩, ?_⟩, ?_⟩
  · rw [← effectiveIn_agree h hs]; exact he
  · rw [← congr_noID dnsLoopCandidate (fun _ => rfl) hs]; exact hc
  · exact (congr_noID classRank (fun _ => rfl) hs).symm

theorem ListsAgree.symm {l l' : List NetRule} (h : ListsAgree l l') : ListsAgree l' l := by
  refine ⟨fun r hr => ?_, fun r hr => ?_⟩
  · obtain ⟨x, hx, hs⟩ := h.2 r hr; exact ⟨x, hx, hs.symm⟩
  · obtain ⟨x, hx, hs⟩ := h.1 r hr; exact ⟨x, hx, hs.symm⟩

theorem netCls_of_rank {w w' : NetRule} (h : classRank w = classRank w') : netCls w = netCls w' := by
  unfold netCls
  rcases classRank_cases w with c | c | c | c <;> rcases classRank_cases w' with d | d | d | d <;>
    simp_all

/-- The class of the selected rule depends only on the class ranks present among the candidates. -/
theorem selectBest_cls_congr (C C' : List NetRule)
    (h1 : ∀ r ∈ C, ∃ r' ∈ C', classRank r' = classRank r)
    (h2 : ∀ r' ∈ C', ∃ r ∈ C, classRank r = classRank r') :
    (selectBest C).map netCls = (selectBest C').map netCls := by
  cases hs : selectBest C with
  | none =>
    have hC := (selectBest_none C).1 hs
    have hC' : C' = [] := by
      cases C' with
      | nil => rfl
      | cons x xs =>
        obtain ⟨r, hr, _⟩ := h2 x (by simp)
        rw [hC] at hr; cases hr
    rw [hC']; rfl
  | some w =>
    obtain ⟨hw, hmax⟩ := fold_max C w hs
    cases hs' : selectBest C' with
    | none =>
      have hC' := (selectBest_none C').1 hs'
      obtain ⟨r', hr', _⟩ := h1 w hw
      rw [hC'] at hr'; cases hr'
    | some w' =>
      obtain ⟨hw', hmax'⟩ := fold_max C' w' hs'
      simp only [Option.map_some, Option.some.injEq]
      apply netCls_of_rank
      obtain ⟨x', hx', hx⟩ := h1 w hw
      obtain ⟨x, hxm, hx2⟩ := h2 w' hw'
      have a : classRank x' ≤ classRank w' := by
        apply Nat.le_of_not_lt; intro hlt; exact hmax' x' hx' (Or.inl hlt)
      have b : classRank x ≤ classRank w := by
        apply Nat.le_of_not_lt; intro hlt; exact hmax x hxm (Or.inl hlt)
      omega

/-- `GetDNSBasicRule` decides alike, up to the class of the winner, on candidate lists that agree up to
    list ids, order and multiplicities. -/
theorem getDNSBasicRule_agree {l l' : List NetRule} (h : ListsAgree l l') :
    (getDNSBasicRule l).map netCls = (getDNSBasicRule l').map netCls := by
  rw [getDNSBasicRule_eq, getDNSBasicRule_eq]
  have ht : (l.filter (effectiveIn l)).any (fun r => r.isEnabled Facts.OptionReplace) =
      (l'.filter (effectiveIn l')).any (fun r => r.isEnabled Facts.OptionReplace) := by
    rw [List.any_filter, List.any_filter]
    apply any_agree h
    intro b b' hb
    rw [effectiveIn_agree h hb, congr_noID (fun x => x.isEnabled Facts.OptionReplace) (fun _ => rfl) hb]
  rw [ht]
  split
  · rfl
  · exact selectBest_cls_congr _ _ (dnsCands_agree h)
      (fun r' hr' => by
        obtain ⟨r, hr, he⟩ := dnsCands_agree h.symm r' hr'
        exact ⟨r, hr, he⟩)

/-- Group B's hypothesis about `GetDNSBasicRule`, for group C's model. -/
theorem basicRespectsTexts_getDNSBasicRule (S : List NetRule) (hS : TextDet S) :
    BasicRespectsTexts getDNSBasicRule S := by
  intro l l' hl hl' ht
  exact getDNSBasicRule_agree (listsAgree_of_texts hS hl hl' ht)

/-! ### the rule set of a storage -/

theorem storage_textDet (px : E.ParseExt) (lists : List Storage.RList) :
    TextDet (netRulesOf ((storageRulesI px lists).map (·.1))) := by
  intro r hr r' hr' ht
  rw [mem_netRulesOf] at hr hr'
  obtain ⟨⟨x, i⟩, hm, hx⟩ := List.mem_map.1 hr
  obtain ⟨⟨x', i'⟩, hm', hx'⟩ := List.mem_map.1 hr'
  simp only at hx hx'
  subst hx; subst hx'
  exact parse_same_text (storageNetRules_parse (mem_storageNetRules.2 hm)).1
    (storageNetRules_parse (mem_storageNetRules.2 hm')).1 ht

theorem storageRulesI_fst (px : E.ParseExt) (lists : List Storage.RList) :
    (storageRulesI px lists).map (·.1) = specRules px lists := by
  rw [← storageRules_eq_spec]
  unfold storageRulesI
  rw [List.map_map]
  rfl

theorem storageRulesI_length_le (px : E.ParseExt) (lists : List Storage.RList) :
    (storageRulesI px lists).length ≤ totalSize lists := by
  have h2 : (storageRulesI px lists).length = (storageRules px lists).length := by
    unfold storageRulesI; simp
  have h3 := storageRulesX_length_le (realRx px) lists
  unfold storageRules at h2
  omega

theorem hostLevel_textDetermines (px : E.ParseExt) (lists : List Storage.RList) :
    TextDeterminesRule (hostLevelNet (storageRulesI px lists)) := by
  intro ⟨r, i⟩ hp ⟨r', i'⟩ hp' ht
  have h1 := ((mem_hostLevelNet _ r i).1 hp).1
  have h2 := ((mem_hostLevelNet _ r' i').1 hp').1
  exact parse_same_text (storageNetRules_parse (mem_storageNetRules.2 h1)).1
    (storageNetRules_parse (mem_storageNetRules.2 h2)).1 ht

end UF.Compose

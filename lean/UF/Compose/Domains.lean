import UF.Compose.Parser
import UF.Proofs.MatchDomain
import UF.Spec.Engine
import UF.Spec.Cosmetic
/-
  Composition: the parser guarantees groups B assumed about `$domain` values (`DomainsWF`, `CosDomainsWF`),
  proved from group E's models of `loadDomains` / `filterutil.IsDomainName`:
  `loadDomains` accepts a value only if `IsDomainName` holds or it ends in `.*`, so a permitted domain is
  never empty and never ends in a dot.
-/
namespace UF.Compose
open UF UF.E Bytes

/-- What the lookup tables need of a permitted domain. -/
def GoodDom (d : Bytes) : Prop := d ≠ [] ∧ d.getLast? ≠ some (ch '.')

/-! ### `IsDomainName` -/

theorem dnStep_dot {s s' : DNState} (h : dnStep s (ch '.') = .cont s') : s'.st ≠ 2 := by
  unfold dnStep at h
  by_cases h01 : (s.st == 0 || s.st == 1) = true
  · simp only [h01, if_true] at h
    have h1 : isAlpha (ch '.') = false := by decide
    have h2 : isDigit (ch '.') = false := by decide
    simp [h1, h2] at h
  · simp only [h01, Bool.false_eq_true, if_false] at h
    by_cases h2 : (s.st == 2) = true
    · simp only [h2, if_true, beq_self_eq_true] at h
      split at h
      · cases h
      · cases h; simp
    · simp only [h2, Bool.false_eq_true, if_false] at h
      cases h
      simpa using h2

theorem dnRun_append (s : DNState) (a : Bytes) (c : UInt8) (s' : DNState)
    (h : dnRun s (a ++ [c]) = .ok (some s')) : ∃ s1, dnRun s a = .ok (some s1) ∧ dnStep s1 c = .cont s' := by
  induction a generalizing s with
  | nil =>
    simp only [List.nil_append, dnRun] at h
    cases hs : dnStep s c with
    | cont s2 =>
      rw [hs] at h
      simp only [pure, Except.pure] at h
      cases h
      exact ⟨s, rfl, hs⟩
    | reject => rw [hs] at h; simp [pure, Except.pure] at h
    | panic => rw [hs] at h; simp [throw, throwThe, MonadExceptOf.throw] at h
  | cons b t ih =>
    simp only [List.cons_append, dnRun] at h ⊢
    cases hs : dnStep s b with
    | cont s2 =>
      rw [hs] at h
      simp only at h ⊢
      exact ih s2 h
    | reject => rw [hs] at h; simp [pure, Except.pure] at h
    | panic => rw [hs] at h; simp [throw, throwThe, MonadExceptOf.throw] at h

/-- `IsDomainName(d)` ⇒ `d` is not empty and does not end in a dot. -/
theorem isDomainName_good {d : Bytes} (h : isDomainNameC d = .ok true) : GoodDom d := by
  unfold isDomainNameC at h
  split at h
  · cases h
  · simp only [bind, Except.bind] at h
    cases hr : dnRun {} d with
    | error e => rw [hr] at h; cases h
    | ok o =>
      rw [hr] at h
      cases o with
      | none => simp [pure, Except.pure] at h
      | some s =>
        simp only [pure, Except.pure, Except.ok.injEq] at h
        have hst : s.st = 2 := by
          simp only [Bool.not_eq_true', Bool.or_eq_false_iff, bne_eq_false_iff_eq] at h
          have := h.1.1
          simpa using this
        rcases List.eq_nil_or_concat d with hd | ⟨a, c, hd⟩
        · subst hd
          simp only [dnRun, pure, Except.pure, Except.ok.injEq, Option.some.injEq] at hr
          subst hr
          cases hst
        · rw [List.concat_eq_append] at hd
          subst hd
          refine ⟨by simp, ?_⟩
          intro hl
          simp at hl
          subst hl
          obtain ⟨s1, _, hstep⟩ := dnRun_append _ _ _ _ hr
          exact dnStep_dot hstep hst

theorem dotStar_good {d : Bytes} (h : hasSuffix d (lit ".*") = true) : GoodDom d := by
  obtain ⟨t, rfl⟩ := (hasSuffix_iff d (lit ".*")).1 h
  refine ⟨by simp [lit], ?_⟩
  have : lit ".*" = [ch '.'] ++ [ch '*'] := by decide
  rw [this, ← List.append_assoc, List.getLast?_append]
  simp only [List.getLast?_singleton, Option.some_or, ne_eq, Option.some.injEq]
  decide

/-! ### `loadDomains` -/

theorem loadDomainsStep_good {acc acc' : List Bytes × List Bytes} {d : Bytes}
    (hacc : ∀ x ∈ acc.1, GoodDom x) (h : loadDomainsStep acc d = .ok acc') : ∀ x ∈ acc'.1, GoodDom x := by
  unfold loadDomainsStep at h
  extract_lets jp at h
  have hjp : ∀ x : Bool × Bytes, jp x = .ok acc' → ∀ x ∈ acc'.1, GoodDom x := by
    intro x h
    obtain ⟨restricted, d'⟩ := x
    simp only [jp] at h
    obtain ⟨isName, hn, h⟩ := bind_ok_elim h
    by_cases hcond : (!isName && !hasSuffix d' (lit ".*")) = true
    · simp only [hcond, if_true] at h
      cases h
    · simp only [hcond, Bool.false_eq_true, if_false] at h
      refine ite_ok_elim h ?_ ?_ <;> clear h <;> intro h
      · cases pure_ok_elim h
        exact hacc
      · cases pure_ok_elim h
        intro x hx
        simp only [List.mem_append, List.mem_singleton] at hx
        rcases hx with hx | rfl
        · exact hacc x hx
        · cases hname : isName with
          | true => subst hname; exact isDomainName_good hn
          | false =>
            subst hname
            exact dotStar_good (by simpa using hcond)
  refine ite_ok_elim h ?_ ?_ <;> clear h <;> intro h
  · obtain ⟨d', _, h⟩ := bind_ok_elim h
    obtain ⟨x, hx, h⟩ := bind_ok_elim h
    exact hjp x h
  · obtain ⟨x, hx, h⟩ := bind_ok_elim h
    exact hjp x h

/-- Every permitted domain `loadDomains` returns is non-empty and has no trailing dot (any separator). -/
theorem loadDomains_good {v : Bytes} {sep : UInt8} {p rs : List Bytes} (h : loadDomains v sep = .ok (p, rs)) :
    ∀ d ∈ p, GoodDom d := by
  unfold loadDomains at h
  refine ite_ok_elim h ?_ ?_ <;> clear h <;> intro h
  · cases h
  · exact foldlM_inv (fun acc : List Bytes × List Bytes => ∀ x ∈ acc.1, GoodDom x) loadDomainsStep
      (fun _ _ _ hb hs => loadDomainsStep_good hb hs) _ ([], []) (p, rs) (by intro x hx; cases hx) h

/-! ### network rules: `DomainsWF` -/

/-- The invariant of the option loop: permitted domains are good. -/
def DInv (r : NetRule) : Prop := ∀ d ∈ r.permDomains, GoodDom d

theorem setOptionEnabled_dinv {r r' : NetRule} {opt : Nat} {en : Bool}
    (hr : DInv r) (h : setOptionEnabled r opt en = .ok r') : DInv r' := by
  unfold setOptionEnabled at h
  split at h
  · cases h
  · split at h
    · cases h
    · split at h <;> (cases h; exact hr)

theorem setIgnoringError_dinv {r : NetRule} {opt : Nat} (hr : DInv r) : DInv (setIgnoringError r opt) := by
  unfold setIgnoringError
  split
  · next r' hx => exact setOptionEnabled_dinv hr hx
  · exact hr

theorem loadOption_dinv {px : ParseExt} {r r' : NetRule} {name value : Bytes}
    (hr : DInv r) (h : loadOption px r name value = .ok r') : DInv r' := by
  unfold loadOption at h
  iterate 6 (refine ite_ok_elim h (setOptionEnabled_dinv hr) ?_; clear h; intro h)
  -- dnstype
  refine ite_ok_elim h ?_ ?_ <;> clear h <;> intro h
  · obtain ⟨⟨p, rs⟩, hx, h⟩ := bind_ok_elim h
    cases pure_ok_elim h
    exact hr
  -- dnsrewrite
  refine ite_ok_elim h ?_ ?_ <;> clear h <;> intro h
  · split at h
    · cases pure_ok_elim h
      exact hr
    · cases h
  -- domain
  refine ite_ok_elim h ?_ ?_ <;> clear h <;> intro h
  · obtain ⟨⟨p, rs⟩, hx, h⟩ := bind_ok_elim h
    cases pure_ok_elim h
    exact loadDomains_good hx
  -- denyallow
  refine ite_ok_elim h ?_ ?_ <;> clear h <;> intro h
  · obtain ⟨⟨p, rs⟩, hx, h⟩ := bind_ok_elim h
    refine ite_ok_elim h ?_ ?_ <;> clear h <;> intro h
    · cases h
    · cases pure_ok_elim h
      exact hr
  -- ctag
  refine ite_ok_elim h ?_ ?_ <;> clear h <;> intro h
  · obtain ⟨⟨p, rs⟩, hx, h⟩ := bind_ok_elim h
    cases pure_ok_elim h
    exact hr
  -- client
  refine ite_ok_elim h ?_ ?_ <;> clear h <;> intro h
  · obtain ⟨⟨p, rs⟩, hx, h⟩ := bind_ok_elim h
    cases pure_ok_elim h
    exact hr
  iterate 7 (refine ite_ok_elim h (setOptionEnabled_dinv hr) ?_; clear h; intro h)
  -- ~extension
  refine ite_ok_elim h ?_ ?_ <;> clear h <;> intro h
  · cases pure_ok_elim h
    exact hr
  -- document
  refine ite_ok_elim h ?_ ?_ <;> clear h <;> intro h
  · obtain ⟨r1, hx, h⟩ := bind_ok_elim h
    cases pure_ok_elim h
    exact setIgnoringError_dinv (setIgnoringError_dinv (setIgnoringError_dinv (setIgnoringError_dinv
      (setOptionEnabled_dinv hr hx))))
  iterate 4 (refine ite_ok_elim h (setOptionEnabled_dinv hr) ?_; clear h; intro h)
  -- content types
  split at h
  · cases pure_ok_elim h
    unfold setRequestType; split <;> exact hr
  · refine ite_ok_elim h ?_ ?_ <;> clear h <;> intro h
    · split at h
      · cases pure_ok_elim h
        unfold setRequestType; split <;> exact hr
      · cases h
    · cases h

theorem loadOptionsStep_dinv {px : ParseExt} {r r' : NetRule} {o : Bytes}
    (hr : DInv r) (h : loadOptionsStep px r o = .ok r') : DInv r' := by
  unfold loadOptionsStep at h
  split at h
  · refine ite_ok_elim h ?_ ?_ <;> clear h <;> intro h
    · obtain ⟨name, _, h⟩ := bind_ok_elim h
      obtain ⟨value, _, h⟩ := bind_ok_elim h
      exact loadOption_dinv hr h
    · exact loadOption_dinv hr h
  · exact loadOption_dinv hr h

theorem loadOptions_dinv {px : ParseExt} {r r' : NetRule} {opts : Bytes}
    (hr : DInv r) (h : loadOptions px r opts = .ok r') : DInv r' := by
  unfold loadOptions at h
  refine ite_ok_elim h ?_ ?_ <;> clear h <;> intro h
  · cases pure_ok_elim h
    exact hr
  · obtain ⟨parts, _, h⟩ := bind_ok_elim h
    obtain ⟨r1, hf, h⟩ := bind_ok_elim h
    have hr1 : DInv r1 :=
      foldlM_inv DInv (loadOptionsStep px) (fun _ _ _ hb hs => loadOptionsStep_dinv hb hs) parts r r1 hr hf
    refine ite_ok_elim h ?_ ?_ <;> clear h <;> intro h
    · cases pure_ok_elim h
      exact hr1
    · cases pure_ok_elim h
      exact hr1

theorem parseNetRule_dinv {px : ParseExt} {t : Bytes} {id : Int} {r : NetRule}
    (h : parseNetRule px t id = .ok r) : DInv r := by
  unfold parseNetRule at h
  obtain ⟨⟨pattern, options, whitelist⟩, _, h⟩ := bind_ok_elim h
  obtain ⟨r1, hl, h⟩ := bind_ok_elim h
  have hr1 : DInv r1 := loadOptions_dinv (by intro d hd; cases hd) hl
  extract_lets jp at h
  have hjp : ∀ r2, DInv r2 → jp r2 = .ok r → DInv r := by
    intro r2 hr2 h
    simp only [jp] at h
    refine ite_ok_elim h ?_ ?_ <;> clear h <;> intro h
    · cases h
    · obtain ⟨sc, _, h⟩ := bind_ok_elim h
      refine ite_ok_elim h ?_ ?_ <;> clear h <;> intro h
      · cases pure_ok_elim h
        exact hr2
      · cases pure_ok_elim h
        exact hr2
  refine ite_ok_elim h ?_ ?_ <;> clear h <;> intro h
  · obtain ⟨p, _, h⟩ := bind_ok_elim h
    obtain ⟨r2, hp, h⟩ := bind_ok_elim h
    cases pure_ok_elim hp
    refine hjp _ ?_ h
    exact hr1
  · obtain ⟨r2, hp, h⟩ := bind_ok_elim h
    cases pure_ok_elim hp
    exact hjp _ hr1 h

/-- Group B's `DomainsWF` holds of every network rule `NewNetworkRule` produces. -/
theorem parseNetRule_domainsWF {px : ParseExt} {t : Bytes} {id : Int} {r : NetRule}
    (h : parseNetRule px t id = .ok r) : B.DomainsWF r := parseNetRule_dinv h

/-! ### what kind of rule `NewRule` produced -/

theorem newRule_net {rx : RuleExt} {line : Bytes} {id : Int} {r : NetRule}
    (h : newRule rx line id = .ok (some (.net r))) : parseNetRule rx.px (rx.trim line) id = .ok r := by
  unfold newRule at h
  refine ite_ok_elim h ?_ ?_ <;> clear h <;> intro h
  · cases pure_ok_elim h
  · obtain ⟨isc, _, h⟩ := bind_ok_elim h
    refine ite_ok_elim h ?_ ?_ <;> clear h <;> intro h
    · cases pure_ok_elim h
    · obtain ⟨mk, _, h⟩ := bind_ok_elim h
      split at h
      · obtain ⟨c, hc, h⟩ := bind_ok_elim h
        cases pure_ok_elim h
      · split at h
        · cases pure_ok_elim h
        · obtain ⟨n, hn, h⟩ := bind_ok_elim h
          cases pure_ok_elim h
          exact hn

theorem newRule_cos {rx : RuleExt} {line : Bytes} {id : Int} {c : CosRule}
    (h : newRule rx line id = .ok (some (.cos c))) : newCosmeticRule rx.trim (rx.trim line) id = .ok c := by
  unfold newRule at h
  refine ite_ok_elim h ?_ ?_ <;> clear h <;> intro h
  · cases pure_ok_elim h
  · obtain ⟨isc, _, h⟩ := bind_ok_elim h
    refine ite_ok_elim h ?_ ?_ <;> clear h <;> intro h
    · cases pure_ok_elim h
    · obtain ⟨mk, _, h⟩ := bind_ok_elim h
      split at h
      · obtain ⟨c', hc, h⟩ := bind_ok_elim h
        cases pure_ok_elim h
        exact hc
      · split at h
        · cases pure_ok_elim h
        · obtain ⟨n, hn, h⟩ := bind_ok_elim h
          cases pure_ok_elim h

/-! ### cosmetic rules: `CosDomainsWF` -/

theorem newCosmeticRule_good {trim : Bytes → Bytes} {t : Bytes} {id : Int} {c : CosRule}
    (h : newCosmeticRule trim t id = .ok c) : ∀ d ∈ c.permDomains, GoodDom d := by
  unfold newCosmeticRule at h
  obtain ⟨mk, _, h⟩ := bind_ok_elim h
  split at h
  · cases h
  · extract_lets jp at h
    have hjp : ∀ x : List Bytes × List Bytes, (∀ d ∈ x.1, GoodDom d) → jp x = .ok c →
        ∀ d ∈ c.permDomains, GoodDom d := by
      intro x hx h
      obtain ⟨permitted, restricted⟩ := x
      simp only [jp] at h
      obtain ⟨rest, _, h⟩ := bind_ok_elim h
      refine ite_ok_elim h ?_ ?_ <;> clear h <;> intro h
      · cases h
      · refine ite_ok_elim h ?_ ?_ <;> clear h <;> intro h
        · cases pure_ok_elim h
          exact hx
        · refine ite_ok_elim h ?_ ?_ <;> clear h <;> intro h
          · refine ite_ok_elim h ?_ ?_ <;> clear h <;> intro h
            · cases h
            · cases pure_ok_elim h
              exact hx
          · cases h
    refine ite_ok_elim h ?_ ?_ <;> clear h <;> intro h
    · obtain ⟨domains, _, h⟩ := bind_ok_elim h
      split at h
      · next pr hpr =>
        obtain ⟨x, hx, h⟩ := bind_ok_elim h
        cases pure_ok_elim hx
        exact hjp pr (loadDomains_good (p := pr.1) (rs := pr.2) hpr) h
      · obtain ⟨x, hx, h⟩ := bind_ok_elim h
        cases hx
      · obtain ⟨x, hx, h⟩ := bind_ok_elim h
        cases hx
    · obtain ⟨x, hx, h⟩ := bind_ok_elim h
      cases pure_ok_elim hx
      exact hjp ([], []) (by intro d hd; cases hd) h

end UF.Compose

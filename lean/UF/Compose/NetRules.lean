import UF.Compose.Scan
import UF.Compose.Domains
import UF.Compose.ListID
import UF.Spec.Engine
import UF.Spec.DnsEngine
import UF.Spec.Storage
/-
  Composition: the rule lists the engines are built from, FROM BYTES — the storage scan (group D) with the
  real parser model (group E) — and the hypotheses of group B's engine theorems about them:
  `RetrievalOK` (from C11 composed), `DomainsWF`, `TextDeterminesRule` (from the parser model), the
  `MaxInt32` bound (from the total size of the contents).  Also the line-by-line REFERENCE
  (`specRules`: split at newlines, `NewRule` on every piece).
-/
namespace UF.Compose
open UF UF.Storage

/-! ### the lists the engines see -/

def netOf : Rule × Int → Option (NetRule × Int)
  | (.net r, i) => some (r, i)
  | _ => none

/-- What `NewNetworkEngine` is built from: the network rules the storage scan yields, with their indexes. -/
def storageNetRules (px : E.ParseExt) (lists : List RList) : List (NetRule × B.Idx) :=
  (storageRulesI px lists).filterMap netOf

theorem mem_storageNetRules {px : E.ParseExt} {lists : List RList} {r : NetRule} {i : Int} :
    (r, i) ∈ storageNetRules px lists ↔ (Rule.net r, i) ∈ storageRulesI px lists := by
  unfold storageNetRules
  rw [List.mem_filterMap]
  constructor
  · rintro ⟨⟨rule, j⟩, hm, hn⟩
    cases rule <;> simp [netOf] at hn
    obtain ⟨rfl, rfl⟩ := hn
    exact hm
  · intro h
    exact ⟨(.net r, i), h, rfl⟩

theorem mem_storageRulesI {px : E.ParseExt} {lists : List RList} {r : Rule} {i : Int}
    (h : (r, i) ∈ storageRulesI px lists) : ∃ k, (r, k) ∈ storageRules px lists ∧ i = idxOf k := by
  unfold storageRulesI at h
  obtain ⟨⟨r', k⟩, hm, he⟩ := List.mem_map.1 h
  simp only [Prod.mk.injEq] at he
  obtain ⟨rfl, rfl⟩ := he
  exact ⟨k, hm, rfl⟩

/-! ### `RetrievalOK` -/

/-- C11 composed, in group B's terms: in every reachable storage state every scanned rule (of any kind)
    is retrieved by its index. -/
theorem retrievalOK_rules (io : IO) (px : E.ParseExt) (lists : List RList) (hok : ListsOK lists)
    (st : RuleStorage) (hnew : newRuleStorage lists = some st) (history : List (BitVec 64)) :
    B.RetrievalOK (retrieveAt io px (reach io px st history)) (storageRulesI px lists) := by
  intro p hp
  obtain ⟨r, i⟩ := p
  obtain ⟨k, hk, rfl⟩ := mem_storageRulesI hp
  show (retrieveFull io px _ (BitVec.ofInt 64 (idxOf k))).1 = some r
  rw [ofInt_idxOf]
  -- `c11_real` (UF/Props/C11Compose.lean), inlined to keep UF/Compose independent of Props
  have hs : (toS r, k) ∈ storageScan (realParser px) lists := by
    rw [storageScan_real]; exact List.mem_map.2 ⟨(r, k), hk, rfl⟩
  obtain ⟨h1, h2⟩ := reach_inv io px lists st hnew history
  have hl := lookupRule_of_scan io (realParser_trimsFirst px) hok hs
  rw [retrieveFull_eq_lookup io px _ h1 k, h2]
  unfold lookupFull
  rw [hl]
  obtain ⟨_, _, _, line, _, hn, _, _⟩ := storageRules_line hk
  exact materialize_toS hn

theorem retrievalOK_net (io : IO) (px : E.ParseExt) (lists : List RList) (hok : ListsOK lists)
    (st : RuleStorage) (hnew : newRuleStorage lists = some st) (history : List (BitVec 64)) :
    B.RetrievalOK (B.retrieveNet (retrieveAt io px (reach io px st history))) (storageNetRules px lists) := by
  intro p hp
  obtain ⟨r, i⟩ := p
  have := retrievalOK_rules io px lists hok st hnew history _ (mem_storageNetRules.1 hp)
  simp only at this
  simp [B.retrieveNet, this]

/-! ### the parser guarantees -/

theorem storageNetRules_parse {px : E.ParseExt} {lists : List RList} {r : NetRule} {i : Int}
    (h : (r, i) ∈ storageNetRules px lists) :
    E.parseNetRule px r.text r.listID = .ok r ∧ ∃ l ∈ lists, r.listID = l.id := by
  obtain ⟨k, hk, _⟩ := mem_storageRulesI (mem_storageNetRules.1 h)
  obtain ⟨l, hl, idx, line, _, hn, _, _⟩ := storageRules_line hk
  have hp := newRule_net hn
  have ht := E.parseNetRule_text hp
  simp only [realRx] at hp ht
  refine ⟨?_, l, hl, ht.2⟩
  rw [ht.1, ht.2]; exact hp

theorem storageNetRules_domainsWF (px : E.ParseExt) (lists : List RList) :
    ∀ p ∈ storageNetRules px lists, B.DomainsWF p.1 := by
  intro ⟨r, i⟩ hp
  exact parseNetRule_domainsWF (storageNetRules_parse hp).1

theorem ok_of_mapE {α β} {f : α → β} {x : E.PE α} {a : α} {b : β} (hx : x = .ok a) (h : mapE f x = .ok b) :
    b = f a := by
  subst hx
  cases h
  rfl

/-- Two network rules parsed from the same text differ in the list id only. -/
theorem parse_same_text {px : E.ParseExt} {r r' : NetRule}
    (h : E.parseNetRule px r.text r.listID = .ok r) (h' : E.parseNetRule px r'.text r'.listID = .ok r')
    (ht : r.text = r'.text) : r' = { r with listID := r'.listID } := by
  rw [← ht, parseNetRule_setID px r.text r'.listID r.listID] at h'
  exact ok_of_mapE (f := setID r'.listID) h h'

theorem storageNetRules_textDetermines (px : E.ParseExt) (lists : List RList) :
    B.TextDeterminesRule (storageNetRules px lists) := by
  intro ⟨r, i⟩ hp ⟨r', i'⟩ hp' ht
  exact parse_same_text (storageNetRules_parse hp).1 (storageNetRules_parse hp').1 ht

/-! ### the `MaxInt32` bound -/

theorem dropLine_cons_length_le (c : UInt8) (r : Bytes) : (dropLine (c :: r)).length ≤ r.length := by
  simp only [dropLine]
  split
  · exact Nat.le_refl _
  · exact dropLine_length_le r

theorem scanLinesFrom_length_le (pos : Nat) (s : Bytes) : (scanLinesFrom pos s).length ≤ s.length := by
  induction pos, s using scanLinesFrom.induct with
  | case1 pos => simp [scanLinesFrom]
  | case2 pos c r line' ih =>
    rw [scanLinesFrom]
    have := dropLine_cons_length_le c r
    simp only [List.length_cons]
    have ih' : (scanLinesFrom (pos + line'.length) (dropLine (c :: r))).length ≤ (dropLine (c :: r)).length := ih
    exact Nat.succ_le_succ (Nat.le_trans ih' this)

/-- Total size of the contents in bytes. -/
def totalSize (lists : List RList) : Nat := (lists.map (·.content.length)).sum

theorem storageRulesX_length_le (rx : E.RuleExt) (lists : List RList) :
    (storageRulesX rx lists).length ≤ totalSize lists := by
  unfold storageRulesX totalSize
  induction lists with
  | nil => simp
  | cons l ls ih =>
    simp only [List.flatMap_cons, List.length_append, List.length_map, List.map_cons, List.sum_cons]
    have h1 : (scanRules rx l).length ≤ (scanLines l.content).length := List.length_filterMap_le _ _
    have h2 := scanLinesFrom_length_le 0 l.content
    unfold scanLines at h1
    exact Nat.add_le_add (Nat.le_trans h1 h2) ih

theorem storageNetRules_length_le (px : E.ParseExt) (lists : List RList) :
    (storageNetRules px lists).length ≤ totalSize lists := by
  have h1 : (storageNetRules px lists).length ≤ (storageRulesI px lists).length := List.length_filterMap_le _ _
  have h2 : (storageRulesI px lists).length = (storageRules px lists).length := by
    unfold storageRulesI; simp
  have h3 := storageRulesX_length_le (realRx px) lists
  unfold storageRules at h2
  omega

/-- The well-formedness the composed statements quantify over: distinct ids that fit int32 and contents
    of fewer than `MaxInt32` bytes in total (so that every offset fits int32 and `TryAdd`'s minimum search,
    which starts at `math.MaxInt32`, is exact). -/
structure StorageOK (lists : List RList) : Prop where
  distinct : hasDupIds lists [] = false
  ids : ∀ l ∈ lists, -2147483648 ≤ l.id ∧ l.id < 2147483648
  size : totalSize lists < B.maxInt32

theorem le_totalSize {lists : List RList} {l : RList} (h : l ∈ lists) : l.content.length ≤ totalSize lists := by
  unfold totalSize
  induction lists with
  | nil => cases h
  | cons a t ih =>
    simp only [List.map_cons, List.sum_cons]
    rcases List.mem_cons.1 h with rfl | h
    · omega
    · have := ih h; omega

theorem StorageOK.listsOK {lists : List RList} (h : StorageOK lists) : ListsOK lists :=
  ⟨h.distinct, h.ids, fun l hl => by
    have := le_totalSize hl; have := h.size; unfold B.maxInt32 at this; omega⟩

theorem StorageOK.new {lists : List RList} (h : StorageOK lists) : newRuleStorage lists = some ⟨lists, []⟩ := by
  unfold newRuleStorage; rw [h.distinct]; rfl

/-! ### the line-by-line reference -/

/-- Reference: split the content at newlines and hand every piece to `NewRule`; keep what it accepts
    (minus cosmetic rules for an `IgnoreCosmetic` list). -/
def specRulesOf (rx : E.RuleExt) (l : RList) : List Rule :=
  (splitLines l.content).filterMap fun piece =>
    match E.acceptedOf rx l.id piece with
    | some r => if l.ignoreCosmetic && isCos r then none else some r
    | none => none

def specRules (px : E.ParseExt) (lists : List RList) : List Rule := lists.flatMap (specRulesOf (realRx px))

theorem filterMap_withOffsets {β} (f : Bytes → Option β) (hf : f [] = none) (pos : Nat) (ps : List Bytes) :
    (withOffsets pos ps).filterMap (fun p => f p.2) = ps.filterMap f := by
  induction ps generalizing pos with
  | nil => rfl
  | cons p qs ih =>
    cases qs with
    | nil =>
      simp only [withOffsets]
      cases p with
      | nil => simp [hf]
      | cons a t => simp [List.filterMap_cons]
    | cons q ps =>
      simp only [withOffsets, List.filterMap_cons]
      rw [ih]
      rfl

theorem acceptedOf_nil (px : E.ParseExt) (id : Int) : E.acceptedOf (realRx px) id [] = none := by
  have : E.newRule (realRx px) [] id = .ok none := by
    unfold E.newRule
    have : (realRx px).trim [] = [] := rfl
    simp only [this]
    rfl
  unfold E.acceptedOf
  rw [this]

theorem acceptedOf_untilNL (px : E.ParseExt) {content : Bytes} {idx : Nat} {line : Bytes}
    (h : (idx, line) ∈ scanLines content) (id : Int) :
    E.acceptedOf (realRx px) id (untilNL line) = E.acceptedOf (realRx px) id line := by
  obtain ⟨_, hl⟩ := scanLines_mem h
  have ht : trimSpace (untilNL line) = trimSpace line := by
    rw [hl, untilNL_takeLine, trimSpace_takeLine]
  unfold E.acceptedOf
  rw [← newRule_trim px (untilNL line), ← newRule_trim px line, ht]

/-- The scan (offset bookkeeping of `readNextLine`, lines with their newline) yields, in order, exactly
    the rules of the reference. -/
theorem scanRules_eq_spec (px : E.ParseExt) (l : RList) :
    (scanRules (realRx px) l).map (·.1) = specRulesOf (realRx px) l := by
  unfold scanRules specRulesOf
  rw [← filterMap_withOffsets _ (by rw [acceptedOf_nil]) 0 (splitLines l.content)]
  show _ = (specLines l.content).filterMap _
  rw [← scanLines_eq_spec, List.filterMap_map, List.map_filterMap]
  apply filterMap_congr_mem
  intro ⟨idx, line⟩ hm
  simp only [Function.comp, acceptedOf_untilNL px hm]
  cases E.acceptedOf (realRx px) l.id line with
  | none => rfl
  | some r => simp only; split <;> rfl

theorem storageRules_eq_spec (px : E.ParseExt) (lists : List RList) :
    (storageRules px lists).map (·.1) = specRules px lists := by
  unfold storageRules storageRulesX specRules
  rw [List.map_flatMap]
  congr 1
  funext l
  rw [List.map_map, ← scanRules_eq_spec]
  rfl

/-- The network rules the engine is built from are, in order, the network rules of the reference. -/
theorem storageNetRules_eq_spec (px : E.ParseExt) (lists : List RList) :
    (storageNetRules px lists).map (·.1) = B.netRulesOf (specRules px lists) := by
  rw [← storageRules_eq_spec]
  unfold storageNetRules storageRulesI B.netRulesOf
  rw [List.map_filterMap, List.filterMap_map, List.filterMap_map]
  apply filterMap_congr_mem
  intro ⟨r, k⟩ _
  cases r <;> rfl

/-- A rule of the reference, spelled out: a piece of a list between newlines that `NewRule` accepts. -/
theorem mem_specRules {px : E.ParseExt} {lists : List RList} {r : Rule} :
    r ∈ specRules px lists ↔ ∃ l ∈ lists, ∃ piece ∈ splitLines l.content,
      E.newRule (realRx px) piece l.id = .ok (some r) ∧ (l.ignoreCosmetic && isCos r) = false := by
  unfold specRules specRulesOf
  simp only [List.mem_flatMap, List.mem_filterMap]
  constructor
  · rintro ⟨l, hl, piece, hp, h⟩
    refine ⟨l, hl, piece, hp, ?_⟩
    unfold E.acceptedOf at h
    split at h
    · next r' hacc =>
      split at hacc
      · next r'' hn =>
        cases hacc
        split at h
        · cases h
        · next hc => cases h; exact ⟨hn, by simpa using hc⟩
      · cases hacc
    · cases h
  · rintro ⟨l, hl, piece, hp, hn, hc⟩
    exact ⟨l, hl, piece, hp, by simp only [E.acceptedOf, hn, hc]; rfl⟩

end UF.Compose

namespace UF.Compose
open UF UF.Storage

/-! ### cosmetic rules of a storage -/

def cosRulesOf (L : List Rule) : List CosRule :=
  L.filterMap fun | .cos c => some c | _ => none

theorem mem_cosRulesOf (L : List Rule) (c : CosRule) : c ∈ cosRulesOf L ↔ Rule.cos c ∈ L := by
  unfold cosRulesOf
  simp only [List.mem_filterMap]
  constructor
  · rintro ⟨r, hr, h⟩
    cases r <;> simp at h
    subst h; exact hr
  · intro h; exact ⟨_, h, rfl⟩

/-- What `NewCosmeticEngine` is built from: the cosmetic rules the storage scan yields, in storage order
    (none from an `IgnoreCosmetic` list). -/
def storageCosRules (px : E.ParseExt) (lists : List RList) : List CosRule :=
  cosRulesOf ((storageRules px lists).map (·.1))

theorem storageCosRules_wf (px : E.ParseExt) (lists : List RList) : B.CosDomainsWF (storageCosRules px lists) := by
  intro c hc d hd
  unfold storageCosRules at hc
  rw [mem_cosRulesOf] at hc
  obtain ⟨⟨r, k⟩, hm, hr⟩ := List.mem_map.1 hc
  simp only at hr
  subst hr
  obtain ⟨l, _, idx, line, _, hn, _, _⟩ := storageRules_line hm
  exact (newCosmeticRule_good (newRule_cos hn) d hd).1

end UF.Compose

import UF.Compose.Domains
/-
  Composition: `NewNetworkRule` never reads the list id — it only stores it.  Hence two rules parsed from the
  same text in different lists differ in the list id only (group B's `TextDeterminesRule`).
-/
namespace UF.Compose
open UF UF.E Bytes

def setID (i : Int) (r : NetRule) : NetRule := { r with listID := i }

def mapE {α β} (f : α → β) : PE α → PE β
  | .ok a => .ok (f a)
  | .error e => .error e

theorem ite_mapE {α β} {c : Prop} [Decidable c] {a' b' : PE β} {a b : PE α} {f : α → β}
    (h1 : a' = mapE f a) (h2 : b' = mapE f b) :
    (if c then a' else b') = mapE f (if c then a else b) := by
  split <;> assumption

theorem bind_mapE {α β γ} {x : PE γ} {g' : γ → PE β} {g : γ → PE α} {f : α → β}
    (h : ∀ a, g' a = mapE f (g a)) : (x >>= g') = mapE f (x >>= g) := by
  cases x with
  | error e => rfl
  | ok a => exact h a

theorem bind_mapE2 {α β} {x' : PE β} {x : PE α} {g' : β → PE β} {g : α → PE α} {f : α → β}
    (hx : x' = mapE f x) (h : ∀ a, g' (f a) = mapE f (g a)) : (x' >>= g') = mapE f (x >>= g) := by
  subst hx
  cases x with
  | error e => rfl
  | ok a => exact h a

theorem setOptionEnabled_setID (i : Int) (r : NetRule) (opt : Nat) (en : Bool) :
    setOptionEnabled (setID i r) opt en = mapE (setID i) (setOptionEnabled r opt en) := by
  unfold setOptionEnabled
  exact ite_mapE rfl (ite_mapE rfl (ite_mapE rfl rfl))

theorem setIgnoringError_setID (i : Int) (r : NetRule) (opt : Nat) :
    setIgnoringError (setID i r) opt = setID i (setIgnoringError r opt) := by
  unfold setIgnoringError
  rw [setOptionEnabled_setID]
  cases setOptionEnabled r opt true <;> rfl

theorem loadOption_setID (px : ParseExt) (i : Int) (r : NetRule) (name value : Bytes) :
    loadOption px (setID i r) name value = mapE (setID i) (loadOption px r name value) := by
  unfold loadOption
  iterate 6 (refine ite_mapE (setOptionEnabled_setID ..) ?_)
  refine ite_mapE (bind_mapE (fun ⟨p, rs⟩ => rfl)) ?_
  refine ite_mapE (by cases px.loadDNSRewrite value <;> rfl) ?_
  refine ite_mapE (bind_mapE (fun ⟨p, rs⟩ => rfl)) ?_
  refine ite_mapE (bind_mapE (fun ⟨p, rs⟩ => ite_mapE rfl rfl)) ?_
  refine ite_mapE (bind_mapE (fun ⟨p, rs⟩ => rfl)) ?_
  refine ite_mapE (bind_mapE (fun ⟨p, rs⟩ => rfl)) ?_
  iterate 7 (refine ite_mapE (setOptionEnabled_setID ..) ?_)
  refine ite_mapE rfl ?_
  refine ite_mapE ?_ ?_
  · refine bind_mapE2 (setOptionEnabled_setID ..) ?_
    intro a
    simp only [setIgnoringError_setID]
    rfl
  iterate 4 (refine ite_mapE (setOptionEnabled_setID ..) ?_)
  cases contentTypeOf name with
  | some t => simp only [setRequestType]; split <;> rfl
  | none =>
    simp only
    refine ite_mapE ?_ rfl
    cases contentTypeOf (name.drop 1) with
    | some t => simp only [setRequestType]; split <;> rfl
    | none => rfl

theorem loadOptionsStep_setID (px : ParseExt) (i : Int) (r : NetRule) (o : Bytes) :
    loadOptionsStep px (setID i r) o = mapE (setID i) (loadOptionsStep px r o) := by
  unfold loadOptionsStep
  cases indexByte o (ch '=') with
  | none => exact loadOption_setID ..
  | some eqIdx =>
    simp only
    refine ite_mapE ?_ (loadOption_setID ..)
    exact bind_mapE (fun name => bind_mapE (fun value => loadOption_setID ..))

theorem foldlM_setID {α} (step : NetRule → α → PE NetRule) (i : Int)
    (hs : ∀ r a, step (setID i r) a = mapE (setID i) (step r a)) (l : List α) (r : NetRule) :
    l.foldlM step (setID i r) = mapE (setID i) (l.foldlM step r) := by
  induction l generalizing r with
  | nil => rfl
  | cons a t ih =>
    simp only [List.foldlM]
    exact bind_mapE2 (hs r a) (fun r1 => ih r1)

theorem loadOptions_setID (px : ParseExt) (i : Int) (r : NetRule) (opts : Bytes) :
    loadOptions px (setID i r) opts = mapE (setID i) (loadOptions px r opts) := by
  unfold loadOptions
  refine ite_mapE rfl ?_
  refine bind_mapE (fun parts => ?_)
  refine bind_mapE2 (foldlM_setID _ i (fun r a => loadOptionsStep_setID px i r a) parts r) ?_
  intro r1
  exact ite_mapE rfl rfl

theorem parseNetRule_setID (px : ParseExt) (t : Bytes) (i j : Int) :
    parseNetRule px t i = mapE (setID i) (parseNetRule px t j) := by
  unfold parseNetRule
  refine bind_mapE (fun ⟨pattern, options, whitelist⟩ => ?_)
  simp only
  refine bind_mapE2 (loadOptions_setID px i { text := t, whitelist := whitelist, listID := j, pattern := pattern } options) ?_
  intro r1
  have tail : ∀ r2 : NetRule, _ = mapE (setID i) _ := fun r2 =>
    ite_mapE (c := ((pattern == lit "||" || pattern == lit "|" || pattern == lit "*" || pattern.isEmpty ||
        pattern.length < 3) &&
      r2.permDomains.isEmpty && r2.restrDomains.isEmpty &&
      Clients.len r2.permClients == 0 && Clients.len r2.restrClients == 0 &&
      r2.permTags.isEmpty && r2.restrTags.isEmpty && r2.permDns.isEmpty && r2.restrDns.isEmpty &&
      r2.denyallow.isEmpty) = true) (a' := throw PErr.err) (a := throw PErr.err) (f := setID i) rfl
      (bind_mapE (x := shortcutCandidate px r2.pattern) (fun sc =>
        ite_mapE (c := sc.length > 1) (a' := pure { setID i r2 with shortcut := toLower sc })
          (a := pure { r2 with shortcut := toLower sc }) (b' := pure (setID i r2)) (b := pure r2) rfl rfl))
  refine ite_mapE ?_ ?_
  · exact bind_mapE (fun p => bind_mapE2 (f := setID i) (x := pure { r1 with pattern := p ++ lit "^" }) rfl (fun r2 => tail r2))
  · exact bind_mapE2 (f := setID i) (x := pure r1) rfl (fun r2 => tail r2)

end UF.Compose
